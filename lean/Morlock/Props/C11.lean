import Morlock.Proofs.ABTTSearch
import Morlock.Props.C03
/-!
# C11 — the transposition table is transparent

All theorems are about `Model.alphabeta` / `Model.alphaBetaSearch` with a table of **any** size
(`st.tt : TTState`, `Model/TT.lean`; any `minDepth`), without cancellation (`st.cancelAt = none`), for every
abstract `Game`, exploration, leaf evaluation, depth and window, under these explicit hypotheses:

* `EvalOk g` — static evaluations are keys of non-NaN `float32`s (as in C13);
* `HashOK g ex le` — **position-determined values**: positions with the same hash have the same value at
  every depth, `∀ p q, g.hash p = g.hash q → ∀ d, V' g ex le d p = V' g ex le d q` (e.g. an injective hash,
  `hashOK_of_injective`). `V'` is the negamax value `V` of C13 without the root exception (a drawn position
  is worth 0 wherever it occurs);
* `RootFree g rootPly` — **no draw can arise at the root ply**: `∀ p, g.isDraw p = true → g.ply p ≠ rootPly`;
  then `V g ex le rootPly d p = V' g ex le d p` for all `d p` (`V_eq_V'`), i.e. the value is determined by
  the position alone. `NoDraw g := ∀ p, g.isDraw p = false` ("no repetition / fifty-move draw inside the
  tree") implies `RootFree g r` for every `r` (`NoDraw.rootFree`);
* `leafGrade le ≤ K`, `K + d ≤ 127` — mate distances fit an `int8` (as in C13); so depths are `< 65536` and
  the `uint16` depth field of an entry is exact;
* `Sound g ex le st.tt` — the table the search starts with is sound: every exact entry (`bound = 0`) holds
  the true value `V' … e.depth p` of every position `p` with the stored hash. A fresh table
  (`TTState.new size minDepth`) is sound (`fresh_sound`), and so is "no table".

The proofs are in `Morlock/Proofs/ABTT*.lean`; they generalise the node contract of C13 (state invariant
"no table, no cancellation") to "sound table, any cancellation instant" (`RecTT`, `alphabeta_recTT`).
-/
namespace Morlock.Props.C11
open Morlock Morlock.Model Morlock.Model.Score Morlock.Spec Morlock.Proofs.AB
open Morlock.Props.C09
variable {P : Type}

/-- A fresh table of any size is sound. -/
theorem fresh_sound (g : Game P) (ex : Explore) (le : LeafEval) (size : Nat) (minDepth : Int) :
    Sound g ex le (TTState.new size minDepth) :=
  sound_new g ex le size minDepth

/-- **C11 (soundness is preserved; the C13 contract holds with any sound table).** For every window of
    graded-valid scores, a search over a sound table without cancellation
    (1) leaves a sound table behind — *every exact entry the search stores is the true search value of that
        position at that depth* (see `stored_exact`) — and still no cancellation;
    (2) returns a graded-valid score that is `V` clipped to the window if the window is proper, and in any
        case the exact `V` or at least `alpha`;
    (3) returns a PV that is a path of explored legal moves of length `≤ d` (possibly cut short by table
        hits), and a principal variation whenever the returned score is exact. -/
theorem sound_preserved (g : Game P) (ex : Explore) (le : LeafEval) (rootPly : Int) (hev : EvalOk g)
    (hh : HashOK g ex le) (hrf : RootFree g rootPly) (K d : Nat) (hK : leafGrade le ≤ K) (hKd : K + d ≤ 127)
    (p : P) (alpha beta : Score) (st : SState) (hs : Sound g ex le st.tt) (hc : st.cancelAt = none)
    (ha : okN (K + d) alpha) (hb : okN (K + d) beta) :
    Sound g ex le (alphabeta g ex le rootPly d p alpha beta st).2.2.tt ∧
    (alphabeta g ex le rootPly d p alpha beta st).2.2.cancelAt = none ∧
    okN (K + d) (alphabeta g ex le rootPly d p alpha beta st).1 ∧
    ((alphabeta g ex le rootPly d p alpha beta st).1 = V g ex le rootPly d p ∨
      rank alpha ≤ rank (alphabeta g ex le rootPly d p alpha beta st).1) ∧
    (rank alpha < rank beta → Clip (rank alpha) (rank beta) (rank (V g ex le rootPly d p))
      (rank (alphabeta g ex le rootPly d p alpha beta st).1)) ∧
    Path g ex d p (alphabeta g ex le rootPly d p alpha beta st).2.1 ∧
    ((alphabeta g ex le rootPly d p alpha beta st).1 = V g ex le rootPly d p →
      Principal g ex le rootPly d p (alphabeta g ex le rootPly d p alpha beta st).2.1) := by
  obtain ⟨h1, h2, h3⟩ := (alphabeta_recTT hev ex le hrf hh K hK d hKd).node p alpha beta st hs
    (fun _ => ⟨ha, hb⟩)
  have hc' : (alphabeta g ex le rootPly d p alpha beta st).2.2.cancelAt = none := by rw [h1.1]; exact hc
  obtain ⟨q1, q2, q3, q4⟩ := h3 (live_of_none hc')
  exact ⟨h2, hc', q1, q2, q3, q4.1, q4.2⟩

/-- **C11 (stored entries).** After such a search every exact entry `e` of the table — those it found and
    those it stored — satisfies `e.score = V g ex le rootPly e.depth q` for every position `q` with
    `g.hash q = e.hash`: the true search value of that position at that depth. -/
theorem stored_exact (g : Game P) (ex : Explore) (le : LeafEval) (rootPly : Int) (hev : EvalOk g)
    (hh : HashOK g ex le) (hrf : RootFree g rootPly) (K d : Nat) (hK : leafGrade le ≤ K) (hKd : K + d ≤ 127)
    (p : P) (alpha beta : Score) (st : SState) (hs : Sound g ex le st.tt) (hc : st.cancelAt = none)
    (ha : okN (K + d) alpha) (hb : okN (K + d) beta) :
    ∀ e, some e ∈ (alphabeta g ex le rootPly d p alpha beta st).2.2.tt.slots → e.bound = 0 →
      ∀ q, g.hash q = e.hash → e.score = V g ex le rootPly e.depth q := by
  intro e he hb0 q hq
  rw [V_eq_V' ex le hrf]
  exact (sound_preserved g ex le rootPly hev hh hrf K d hK hKd p alpha beta st hs hc ha hb).1 e he hb0 q hq

/-- **C11 (transparency).** At the full window the search over any sound table returns exactly `V` — the
    same root score as the search without a table (`st0`: no table, no cancellation; `C03.exact`). -/
theorem transparent (g : Game P) (ex : Explore) (le : LeafEval) (rootPly : Int) (hev : EvalOk g)
    (hh : HashOK g ex le) (hrf : RootFree g rootPly) (d : Nat) (hd : leafGrade le + d ≤ 127)
    (p : P) (st : SState) (hs : Sound g ex le st.tt) (hc : st.cancelAt = none)
    (st0 : SState) (h0 : st0.tt.slots.size = 0) (hc0 : st0.cancelAt = none) :
    (alphabeta g ex le rootPly d p negInfScore infScore st).1 = V g ex le rootPly d p ∧
    (alphabeta g ex le rootPly d p negInfScore infScore st).1 =
      (alphabeta g ex le rootPly d p negInfScore infScore st0).1 := by
  obtain ⟨h1, _, h3⟩ := alphabeta_tt_full hev ex le hrf hh d hd p st hs
  have hc' : (alphabeta g ex le rootPly d p negInfScore infScore st).2.2.cancelAt = none := by
    rw [h1.1]; exact hc
  have := (h3 (live_of_none hc')).1
  exact ⟨this, by rw [this, C03.exact g ex le rootPly hev d hd p st0 h0 hc0]⟩

/-- **C11 (the PV still begins with a best legal move).** At the full window over any sound table the
    returned PV is a principal variation (every move of it is an explored legal move attaining the value of
    the position it is played in; table hits below the root may cut it short). In particular, if it is
    `m :: rest` then `m` leads to a child `c` with `lift (V … d' c) = V … (d' + 1) p`. And at the root ply
    (where no table cut is taken) it is non-empty whenever some move is legal and the value is not `negInf`
    (i.e. some explored legal move is better than being mated at once). -/
theorem pv_first_best (g : Game P) (ex : Explore) (le : LeafEval) (rootPly : Int) (hev : EvalOk g)
    (hh : HashOK g ex le) (hrf : RootFree g rootPly) (d : Nat) (hd : leafGrade le + d ≤ 127)
    (p : P) (st : SState) (hs : Sound g ex le st.tt) (hc : st.cancelAt = none) :
    Principal g ex le rootPly d p (alphabeta g ex le rootPly d p negInfScore infScore st).2.1 ∧
    (∀ d' m rest, d = d' + 1 → (alphabeta g ex le rootPly d p negInfScore infScore st).2.1 = m :: rest →
      ∃ c, g.push p m = some c ∧ ex.pick m = true ∧
        lift (V g ex le rootPly d' c) = V g ex le rootPly (d' + 1) p) ∧
    (∀ d', d = d' + 1 → g.ply p = rootPly → legalAny g p (g.moves p) = true →
      V g ex le rootPly d p ≠ negInfScore →
      (alphabeta g ex le rootPly d p negInfScore infScore st).2.1 ≠ []) := by
  obtain ⟨h1, _, h3⟩ := alphabeta_tt_full hev ex le hrf hh d hd p st hs
  have hc' : (alphabeta g ex le rootPly d p negInfScore infScore st).2.2.cancelAt = none := by
    rw [h1.1]; exact hc
  obtain ⟨hex, hprin⟩ := h3 (live_of_none hc')
  refine ⟨hprin, ?_, ?_⟩
  · intro d' m rest hdd hpv
    subst hdd
    rw [hpv] at hprin
    simp only [Principal] at hprin
    obtain ⟨c, e1, e2, e3, _⟩ := hprin
    exact ⟨c, e1, e2, e3⟩
  · intro d' hdd hroot hl hne hnil
    subst hdd
    have := alphabeta_root_pv hev ex le hrf hh (leafGrade le) (Nat.le_refl _) d' (by omega) p negInfScore
      infScore st hs (okN_mono okN_negInf (by omega)) (okN_mono okN_inf (by omega)) hroot hl
      (live_of_none hc') hnil
    rw [hex] at this
    exact hne this

/-- **C11 (`AlphaBeta.Search` over a table).** Started without a window in the context, over any sound
    table and without cancellation, `alphaBetaSearch` reports the negamax value of the root and a principal
    variation (non-empty for `d ≥ 1` if a move is legal and the value is not `negInf`), and leaves a sound
    table and no cancellation behind. -/
theorem search_exact (g : Game P) (ex : Explore) (le : LeafEval) (hev : EvalOk g) (hh : HashOK g ex le)
    (p : P) (hrf : RootFree g (g.ply p)) (d : Nat) (hd : leafGrade le + d ≤ 127)
    (st : SState) (hs : Sound g ex le st.tt) (hc : st.cancelAt = none) :
    Sound g ex le (alphaBetaSearch g ex le p d invalidScore invalidScore st).2.tt ∧
    (alphaBetaSearch g ex le p d invalidScore invalidScore st).2.cancelAt = none ∧
    ∃ n pv, (alphaBetaSearch g ex le p d invalidScore invalidScore st).1 =
        some ⟨n, V g ex le (g.ply p) d p, pv⟩ ∧
      Principal g ex le (g.ply p) d p pv ∧
      (∀ d', d = d' + 1 → legalAny g p (g.moves p) = true → V g ex le (g.ply p) d p ≠ negInfScore → pv ≠ []) := by
  obtain ⟨h1, h2, _, h4⟩ := alphaBetaSearch_tt hev ex le hh p hrf d hd st hs
  have hc' : (alphaBetaSearch g ex le p d invalidScore invalidScore st).2.cancelAt = none := by
    rw [h1.1]; exact hc
  exact ⟨h2, hc', h4 (live_of_none hc')⟩

/-- **C11 (first and every later search).** Any sequence of searches — of the same or of different
    (e.g. successive) root positions of the same `Game`, at any depths — that thread one table
    (`searchSeq` feeds the final state of each `alphaBetaSearch` to the next): every one of them returns the
    negamax value `V` of its own root at its own depth, exactly what the table-free search returns
    (`C03.search_exact`); the table is sound at the end. -/
theorem sequence (g : Game P) (ex : Explore) (le : LeafEval) (hev : EvalOk g) (hh : HashOK g ex le)
    (l : List (P × Nat)) (st : SState) (hs : Sound g ex le st.tt) (hc : st.cancelAt = none)
    (hall : ∀ pd ∈ l, RootFree g (g.ply pd.1) ∧ leafGrade le + pd.2 ≤ 127) :
    (searchSeq g ex le l st).1.map (fun o => o.map (·.score)) =
      l.map (fun pd => some (V g ex le (g.ply pd.1) pd.2 pd.1)) ∧
    Sound g ex le (searchSeq g ex le l st).2.tt ∧ (searchSeq g ex le l st).2.cancelAt = none :=
  searchSeq_tt hev ex le hh l st hs hc hall

/-- `sequence` when no draw can be claimed anywhere in the game. -/
theorem sequence_noDraw (g : Game P) (ex : Explore) (le : LeafEval) (hev : EvalOk g) (hh : HashOK g ex le)
    (hnd : NoDraw g) (l : List (P × Nat)) (st : SState) (hs : Sound g ex le st.tt) (hc : st.cancelAt = none)
    (hall : ∀ pd ∈ l, leafGrade le + pd.2 ≤ 127) :
    (searchSeq g ex le l st).1.map (fun o => o.map (·.score)) =
      l.map (fun pd => some (V g ex le (g.ply pd.1) pd.2 pd.1)) :=
  (searchSeq_tt hev ex le hh l st hs hc (fun pd hpd => ⟨hnd.rootFree _, hall pd hpd⟩)).1

/-- Under `RootFree` the value is determined by the position: the `rootPly` argument of `V` is irrelevant. -/
theorem V_root_irrelevant (g : Game P) (ex : Explore) (le : LeafEval) (r r' : Int)
    (h : RootFree g r) (h' : RootFree g r') (d : Nat) (p : P) : V g ex le r d p = V g ex le r' d p := by
  rw [V_eq_V' ex le h, V_eq_V' ex le h']

/-! ## Non-vacuity: the tiny game of C13 with a real table (`TTState.new 64`: two slots) -/

open C13 in
theorem tiny_hashOK (le : LeafEval) : HashOK tiny allMoves le :=
  hashOK_of_injective allMoves le (fun _ _ h => h)

open C13 in
theorem tiny_rootFree (r : Int) (hr : r ≠ 2) : RootFree tiny r := by
  intro p hp
  simp only [tiny, beq_iff_eq] at hp
  subst hp
  simp only [tiny]
  intro h
  exact hr (by rw [← h]; decide)

/-- A state with an empty-but-present table of two slots. -/
def st64 : SState := { tt := TTState.new 64 }

example : st64.tt.slots.size = 2 ∧ st64.cancelAt = none := by decide

-- an instance of `sequence`: root 0 at depth 2, again, then deeper, then the successor position 2
open C13 in
example : (searchSeq tiny allMoves .static [(0, 2), (0, 2), (0, 3), (2, 1)] st64).1.map (fun o => o.map (·.score)) =
    [some (V tiny allMoves .static 0 2 0), some (V tiny allMoves .static 0 2 0),
     some (V tiny allMoves .static 0 3 0), some (V tiny allMoves .static 1 1 2)] :=
  (sequence tiny allMoves .static tiny_evalOk (tiny_hashOK _) _ st64 (fresh_sound _ _ _ 64 0) rfl (by
    intro pd hpd
    simp only [List.mem_cons, List.mem_nil_iff, or_false] at hpd
    rcases hpd with rfl | rfl | rfl | rfl
    · exact ⟨tiny_rootFree _ (by decide), by decide⟩
    · exact ⟨tiny_rootFree _ (by decide), by decide⟩
    · exact ⟨tiny_rootFree _ (by decide), by decide⟩
    · exact ⟨tiny_rootFree _ (by decide), by decide⟩)).1

-- what actually happens: the first search fills both slots, the repeated search returns the same score and
-- PV with fewer nodes (table hits), a search of the successor position 2 is exact as well
open C13 in
def run1 := alphaBetaSearch tiny allMoves .static 0 2 invalidScore invalidScore st64
open C13 in
def run2 := alphaBetaSearch tiny allMoves .static 0 2 invalidScore invalidScore run1.2
open C13 in
def run3 := alphaBetaSearch tiny allMoves .static 2 1 invalidScore invalidScore run2.2

open C13 in
example :
    run1.1.map (fun r => (r.nodes, r.score, r.pv)) = some (6, heuristicScore 15, [mv 1, mv 0]) ∧
    run1.2.tt.used = 2 ∧
    run2.1.map (fun r => (r.nodes, r.score, r.pv)) = some (4, heuristicScore 15, [mv 1, mv 0]) ∧
    run3.1.map (fun r => (r.nodes, r.score, r.pv)) = some (3, heuristicScore (-15), [mv 0]) ∧
    V tiny allMoves .static 0 2 0 = heuristicScore 15 ∧ V tiny allMoves .static 1 1 2 = heuristicScore (-15) := by
  decide

end Morlock.Props.C11
