import Morlock.Proofs.ABTTSearch
import Morlock.Proofs.ABChessTree
import Morlock.Props.C03
/-!
# C11 — the transposition table is transparent

All theorems are about `Model.alphabeta` / `Model.alphaBetaSearch` with a table of **any** size
(`st.tt : TTState`, `Model/TT.lean`; any `minDepth`), without cancellation (`st.cancelAt = none`), for every
abstract `Game`, exploration, leaf evaluation, depth and window.

## The region of a search

The hypotheses about draws and hashes are **not** stated for the whole state type `P` (for `P = World`, the state
type of the chess game `boardGame` / `materialGame`, junk worlds make such global statements false) but on a
**region** `R : Nat → P → Prop`: `R n q` = "the search may visit `q` with remaining depth `n`". A region must be
`Closed g ex R`: an explored legal move (`m ∈ g.moves p`, `(ex p).pick m`, `g.push p m = some c`) from a position of
`R (n+1)` leads into `R n`; and it must contain the root at the depth of the search (`R d p`). The smallest such
region is the search tree `Tree g ex p d` (`Tree g ex p d n q` iff `q` is reached from `p` by `d - n` explored legal
moves; `tree_closed`, `tree_root`, `tree_least`); for a sequence of searches it is the union `Trees g ex l` of their
trees. Hypotheses (definitions in `Morlock/Proofs/ABTTRef.lean`):

* `EvalOk g` — static evaluations are keys of non-NaN `float32`s (as in C13); proved for the chess game
  (`materialGame_evalOk`);
* `HashOKOn g ex le R` — **two positions of the region with the same hash have the same reference value at every
  remaining depth at which both occur**: `∀ n p q, R n p → R n q → g.hash p = g.hash q → V' g ex le n p = V' g ex le n q`.
  `V'` is the negamax value `V` of C13 without the root exception (a drawn position is worth 0 wherever it occurs).
  Checkable sufficient condition: the region is covered by a list of positions with pairwise distinct hashes
  (`hashOKOn_of_list`; the list `treeList g ex p d` enumerates the tree);
* `RootFreeOn g R rootPly` — **no drawn position of the region sits at the root ply**:
  `∀ n p, R n p → g.isDraw p = true → g.ply p ≠ rootPly`; then `V g ex le rootPly n p = V' g ex le n p` inside the
  region (`V_eq_V'_on`). Implied by `NoDrawOn g R := ∀ n p, R n p → g.isDraw p = false` ("no repetition / fifty-move /
  material draw inside the tree"; checkable with `noDrawOn_of_list`);
* `leafGrade le ≤ K`, `K + d ≤ 127` — mate distances fit an `int8` (as in C13); so depths are `< 65536` and
  the `uint16` depth field of an entry is exact;
* `SoundOn g ex le R st.tt` — the table the search starts with is sound on the region: every exact entry
  (`bound = 0`) `e` holds the true value `V' … e.depth p` of every position `p` of the region at remaining depth
  `e.depth` (`R e.depth p`) with the stored hash. A fresh table (`TTState.new size minDepth`) is sound
  (`fresh_sound_on`), and so is "no table".

The theorems `…_on` are the main statements. The old global forms (hypotheses `HashOK`, `RootFree`, `Sound`
quantifying over all of `P`) are kept under the old names as corollaries (`R := Everywhere`); they are only useful
for games without junk states (such as the toy game `tiny`). Non-vacuity **on the chess game** (`materialGame exZ`,
worlds built with `newBoard`, real tables) is shown at the end (the region hypotheses are discharged by evaluating
the finite tree, `Morlock/Proofs/ABChessTree.lean`).

The proofs are in `Morlock/Proofs/ABTT*.lean`; they generalise the node contract of C13 (state invariant
"no table, no cancellation") to "sound table, any cancellation instant" (`RecTT`, `alphabeta_recTT`).
-/
namespace Morlock.Props.C11
open Morlock Morlock.Model Morlock.Model.Score Morlock.Spec Morlock.Proofs.AB
open Morlock.Props.C09
variable {P : Type}

/-- A fresh table of any size is sound (on every region). -/
theorem fresh_sound_on (g : Game P) (ex : P → Explore) (le : LeafEval P) (R : Nat → P → Prop) (size : Nat) (minDepth : Int) :
    SoundOn g ex le R (TTState.new size minDepth) :=
  soundOn_new g ex le R size minDepth

/-- A fresh table of any size is sound. -/
theorem fresh_sound (g : Game P) (ex : P → Explore) (le : LeafEval P) (size : Nat) (minDepth : Int) :
    Sound g ex le (TTState.new size minDepth) :=
  sound_new g ex le size minDepth

/-! ## The theorems on a region -/

/-- **C11 (soundness is preserved; the C13 contract holds with any sound table).** For every window of
    graded-valid scores, a search of a position `p` of the region (`R d p`) over a table that is sound on the
    region, without cancellation,
    (1) leaves a table that is sound on the region — *every exact entry the search stores is the true search
        value of that position at that depth* (see `stored_exact_on`) — and still no cancellation;
    (2) returns a graded-valid score that is `V` clipped to the window if the window is proper, and in any
        case the exact `V` or at least `alpha`;
    (3) returns a PV that is a path of explored legal moves of length `≤ d` (possibly cut short by table
        hits), and a principal variation whenever the returned score is exact. -/
theorem sound_preserved_on (g : Game P) (ex : P → Explore) (le : LeafEval P) (rootPly : Int) (hev : EvalOk g)
    {R : Nat → P → Prop} (hcl : Closed g ex R)
    (hh : HashOKOn g ex le R) (hrf : RootFreeOn g R rootPly) (K d : Nat) (hK : leafGrade le ≤ K) (hKd : K + d ≤ 127)
    (p : P) (hp : R d p) (alpha beta : Score) (st : SState) (hs : SoundOn g ex le R st.tt) (hc : st.cancelAt = none)
    (ha : okN (K + d) alpha) (hb : okN (K + d) beta) :
    SoundOn g ex le R (alphabeta g ex le rootPly d p alpha beta st).2.2.tt ∧
    (alphabeta g ex le rootPly d p alpha beta st).2.2.cancelAt = none ∧
    okN (K + d) (alphabeta g ex le rootPly d p alpha beta st).1 ∧
    ((alphabeta g ex le rootPly d p alpha beta st).1 = V g ex le rootPly d p ∨
      rank alpha ≤ rank (alphabeta g ex le rootPly d p alpha beta st).1) ∧
    (rank alpha < rank beta → Clip (rank alpha) (rank beta) (rank (V g ex le rootPly d p))
      (rank (alphabeta g ex le rootPly d p alpha beta st).1)) ∧
    Path g ex d p (alphabeta g ex le rootPly d p alpha beta st).2.1 ∧
    ((alphabeta g ex le rootPly d p alpha beta st).1 = V g ex le rootPly d p →
      Principal g ex le rootPly d p (alphabeta g ex le rootPly d p alpha beta st).2.1) := by
  obtain ⟨h1, h2, h3⟩ := (alphabeta_recTT hev ex le hcl (fun _ _ h => h) hrf hh K hK d hKd).node p alpha beta st hp hs
    (fun _ => ⟨ha, hb⟩)
  have hc' : (alphabeta g ex le rootPly d p alpha beta st).2.2.cancelAt = none := by rw [h1.1]; exact hc
  obtain ⟨q1, q2, q3, q4⟩ := h3 (live_of_none hc')
  exact ⟨h2, hc', q1, q2, q3, q4.1, q4.2⟩

/-- **C11 (stored entries).** After such a search every exact entry `e` of the table — those it found and
    those it stored — satisfies `e.score = V g ex le rootPly e.depth q` for every position `q` of the region at
    remaining depth `e.depth` with `g.hash q = e.hash`: the true search value of that position at that depth. -/
theorem stored_exact_on (g : Game P) (ex : P → Explore) (le : LeafEval P) (rootPly : Int) (hev : EvalOk g)
    {R : Nat → P → Prop} (hcl : Closed g ex R)
    (hh : HashOKOn g ex le R) (hrf : RootFreeOn g R rootPly) (K d : Nat) (hK : leafGrade le ≤ K) (hKd : K + d ≤ 127)
    (p : P) (hp : R d p) (alpha beta : Score) (st : SState) (hs : SoundOn g ex le R st.tt) (hc : st.cancelAt = none)
    (ha : okN (K + d) alpha) (hb : okN (K + d) beta) :
    ∀ e, some e ∈ (alphabeta g ex le rootPly d p alpha beta st).2.2.tt.slots → e.bound = 0 →
      ∀ q, R e.depth q → g.hash q = e.hash → e.score = V g ex le rootPly e.depth q := by
  intro e he hb0 q hqR hq
  rw [V_eq_V'_on ex le hcl hrf e.depth q hqR]
  exact (sound_preserved_on g ex le rootPly hev hcl hh hrf K d hK hKd p hp alpha beta st hs hc ha hb).1 e he hb0 q
    hqR hq

/-- **C11 (transparency).** At the full window the search over any table that is sound on the region returns
    exactly `V` — the same root score as the search without a table (`st0`: no table, no cancellation;
    `C03.exact`). -/
theorem transparent_on (g : Game P) (ex : P → Explore) (le : LeafEval P) (rootPly : Int) (hev : EvalOk g)
    {R : Nat → P → Prop} (hcl : Closed g ex R)
    (hh : HashOKOn g ex le R) (hrf : RootFreeOn g R rootPly) (d : Nat) (hd : leafGrade le + d ≤ 127)
    (p : P) (hp : R d p) (st : SState) (hs : SoundOn g ex le R st.tt) (hc : st.cancelAt = none)
    (st0 : SState) (h0 : st0.tt.slots.size = 0) (hc0 : st0.cancelAt = none) :
    (alphabeta g ex le rootPly d p negInfScore infScore st).1 = V g ex le rootPly d p ∧
    (alphabeta g ex le rootPly d p negInfScore infScore st).1 =
      (alphabeta g ex le rootPly d p negInfScore infScore st0).1 := by
  obtain ⟨h1, _, h3⟩ := alphabeta_tt_full hev ex le hcl (fun _ _ h => h) hrf hh d hd p hp st hs
  have hc' : (alphabeta g ex le rootPly d p negInfScore infScore st).2.2.cancelAt = none := by
    rw [h1.1]; exact hc
  have := (h3 (live_of_none hc')).1
  exact ⟨this, by rw [this, C03.exact g ex le rootPly hev d hd p st0 h0 hc0]⟩

/-- **C11 (the PV still begins with a best legal move).** At the full window over any table that is sound on the
    region the returned PV is a principal variation (every move of it is an explored legal move attaining the value
    of the position it is played in; table hits below the root may cut it short). In particular, if it is
    `m :: rest` then `m` leads to a child `c` with `lift (V … d' c) = V … (d' + 1) p`. And at the root ply
    (where no table cut is taken) it is non-empty whenever some move is legal and the value is not `negInf`
    (i.e. some explored legal move is better than being mated at once). -/
theorem pv_first_best_on (g : Game P) (ex : P → Explore) (le : LeafEval P) (rootPly : Int) (hev : EvalOk g)
    {R : Nat → P → Prop} (hcl : Closed g ex R)
    (hh : HashOKOn g ex le R) (hrf : RootFreeOn g R rootPly) (d : Nat) (hd : leafGrade le + d ≤ 127)
    (p : P) (hp : R d p) (st : SState) (hs : SoundOn g ex le R st.tt) (hc : st.cancelAt = none) :
    Principal g ex le rootPly d p (alphabeta g ex le rootPly d p negInfScore infScore st).2.1 ∧
    (∀ d' m rest, d = d' + 1 → (alphabeta g ex le rootPly d p negInfScore infScore st).2.1 = m :: rest →
      ∃ c, g.push p m = some c ∧ (ex p).pick m = true ∧
        lift (V g ex le rootPly d' c) = V g ex le rootPly (d' + 1) p) ∧
    (∀ d', d = d' + 1 → g.ply p = rootPly → legalAny g p (g.moves p) = true →
      V g ex le rootPly d p ≠ negInfScore →
      (alphabeta g ex le rootPly d p negInfScore infScore st).2.1 ≠ []) := by
  obtain ⟨h1, _, h3⟩ := alphabeta_tt_full hev ex le hcl (fun _ _ h => h) hrf hh d hd p hp st hs
  have hc' : (alphabeta g ex le rootPly d p negInfScore infScore st).2.2.cancelAt = none := by
    rw [h1.1]; exact hc
  obtain ⟨hex, hprin⟩ := h3 (live_of_none hc')
  refine ⟨hprin, ?_, ?_⟩
  · intro d' m rest hdd hpv
    subst hdd
    rw [hpv] at hprin
    simp only [Principal] at hprin
    obtain ⟨c, e1, e2, e3, _⟩ := hprin
    exact ⟨c, e1, e2, e3⟩
  · intro d' hdd hroot hl hne hnil
    subst hdd
    have := alphabeta_root_pv hev ex le hcl (fun _ _ h => h) hrf hh (leafGrade le) (Nat.le_refl _) d' (by omega) p hp
      negInfScore infScore st hs (okN_mono okN_negInf (by omega)) (okN_mono okN_inf (by omega)) hroot hl
      (live_of_none hc') hnil
    rw [hex] at this
    exact hne this

/-- **C11 (`AlphaBeta.Search` over a table).** Started without a window in the context, over any table that is
    sound on the region and without cancellation, `alphaBetaSearch` reports the negamax value of the root and a
    principal variation (non-empty for `d ≥ 1` if a move is legal and the value is not `negInf`), and leaves a table
    that is sound on the region and no cancellation behind. -/
theorem search_exact_on (g : Game P) (ex : P → Explore) (le : LeafEval P) (hev : EvalOk g)
    {R : Nat → P → Prop} (hcl : Closed g ex R) (hh : HashOKOn g ex le R)
    (p : P) (hrf : RootFreeOn g R (g.ply p)) (d : Nat) (hd : leafGrade le + d ≤ 127) (hp : R d p)
    (st : SState) (hs : SoundOn g ex le R st.tt) (hc : st.cancelAt = none) :
    SoundOn g ex le R (alphaBetaSearch g ex le p d invalidScore invalidScore st).2.tt ∧
    (alphaBetaSearch g ex le p d invalidScore invalidScore st).2.cancelAt = none ∧
    ∃ n pv, (alphaBetaSearch g ex le p d invalidScore invalidScore st).1 =
        some ⟨n, V g ex le (g.ply p) d p, pv⟩ ∧
      Principal g ex le (g.ply p) d p pv ∧
      (∀ d', d = d' + 1 → legalAny g p (g.moves p) = true → V g ex le (g.ply p) d p ≠ negInfScore → pv ≠ []) := by
  obtain ⟨h1, h2, _, h4⟩ := alphaBetaSearch_tt hev ex le hcl (fun _ _ h => h) hh p hrf d hd hp st hs
  have hc' : (alphaBetaSearch g ex le p d invalidScore invalidScore st).2.cancelAt = none := by
    rw [h1.1]; exact hc
  exact ⟨h2, hc', h4 (live_of_none hc')⟩

/-- **C11 (first and every later search).** Any sequence of searches — of the same or of different
    (e.g. successive) root positions of the same `Game`, at any depths — that thread one table
    (`searchSeq` feeds the final state of each `alphaBetaSearch` to the next): every one of them returns the
    negamax value `V` of its own root at its own depth, exactly what the table-free search returns
    (`C03.search_exact`); the table is sound at the end. The region `U` on which the table is sound and hashes are
    faithful contains the trees of all the searches; the root-ply condition is needed on each search's own tree. -/
theorem sequence_on (g : Game P) (ex : P → Explore) (le : LeafEval P) (hev : EvalOk g) {U : Nat → P → Prop}
    (hh : HashOKOn g ex le U)
    (l : List (P × Nat)) (st : SState) (hs : SoundOn g ex le U st.tt) (hc : st.cancelAt = none)
    (hall : ∀ pd ∈ l, (∀ n q, Tree g ex pd.1 pd.2 n q → U n q) ∧
      RootFreeOn g (Tree g ex pd.1 pd.2) (g.ply pd.1) ∧ leafGrade le + pd.2 ≤ 127) :
    (searchSeq g ex le l st).1.map (fun o => o.map (·.score)) =
      l.map (fun pd => some (V g ex le (g.ply pd.1) pd.2 pd.1)) ∧
    SoundOn g ex le U (searchSeq g ex le l st).2.tt ∧ (searchSeq g ex le l st).2.cancelAt = none :=
  searchSeq_tt hev ex le hh l st hs hc hall

/-- `sequence_on` for the union of the trees of the searches, when no position of that union is drawn. -/
theorem sequence_trees (g : Game P) (ex : P → Explore) (le : LeafEval P) (hev : EvalOk g)
    (l : List (P × Nat)) (hh : HashOKOn g ex le (Trees g ex l)) (hnd : NoDrawOn g (Trees g ex l))
    (st : SState) (hs : SoundOn g ex le (Trees g ex l) st.tt) (hc : st.cancelAt = none)
    (hall : ∀ pd ∈ l, leafGrade le + pd.2 ≤ 127) :
    (searchSeq g ex le l st).1.map (fun o => o.map (·.score)) =
      l.map (fun pd => some (V g ex le (g.ply pd.1) pd.2 pd.1)) ∧
    SoundOn g ex le (Trees g ex l) (searchSeq g ex le l st).2.tt :=
  have h := searchSeq_tt hev ex le hh l st hs hc (fun pd hpd =>
    ⟨fun n q hq => ⟨pd, hpd, hq⟩, (hnd.mono (fun n q hq => ⟨pd, hpd, hq⟩)).rootFreeOn _, hall pd hpd⟩)
  ⟨h.1, h.2.1⟩

/-- Under `RootFreeOn` the value is determined by the position: the `rootPly` argument of `V` is irrelevant inside
    the region. -/
theorem V_root_irrelevant_on (g : Game P) (ex : P → Explore) (le : LeafEval P) (r r' : Int) {R : Nat → P → Prop}
    (hcl : Closed g ex R) (h : RootFreeOn g R r) (h' : RootFreeOn g R r') (d : Nat) (p : P) (hp : R d p) :
    V g ex le r d p = V g ex le r' d p := by
  rw [V_eq_V'_on ex le hcl h d p hp, V_eq_V'_on ex le hcl h' d p hp]

/-! ## The global forms (corollaries: `R := Everywhere`)

`HashOK`, `RootFree`, `NoDraw`, `Sound` quantify over the whole state type; for `P = World` they are false, so these
forms say nothing about the chess game - use the `…_on` forms there. -/

theorem sound_preserved (g : Game P) (ex : P → Explore) (le : LeafEval P) (rootPly : Int) (hev : EvalOk g)
    (hh : HashOK g ex le) (hrf : RootFree g rootPly) (K d : Nat) (hK : leafGrade le ≤ K) (hKd : K + d ≤ 127)
    (p : P) (alpha beta : Score) (st : SState) (hs : Sound g ex le st.tt) (hc : st.cancelAt = none)
    (ha : okN (K + d) alpha) (hb : okN (K + d) beta) :
    Sound g ex le (alphabeta g ex le rootPly d p alpha beta st).2.2.tt ∧
    (alphabeta g ex le rootPly d p alpha beta st).2.2.cancelAt = none ∧
    okN (K + d) (alphabeta g ex le rootPly d p alpha beta st).1 ∧
    ((alphabeta g ex le rootPly d p alpha beta st).1 = V g ex le rootPly d p ∨
      rank alpha ≤ rank (alphabeta g ex le rootPly d p alpha beta st).1) ∧
    (rank alpha < rank beta → Clip (rank alpha) (rank beta) (rank (V g ex le rootPly d p))
      (rank (alphabeta g ex le rootPly d p alpha beta st).1)) ∧
    Path g ex d p (alphabeta g ex le rootPly d p alpha beta st).2.1 ∧
    ((alphabeta g ex le rootPly d p alpha beta st).1 = V g ex le rootPly d p →
      Principal g ex le rootPly d p (alphabeta g ex le rootPly d p alpha beta st).2.1) := by
  obtain ⟨h1, h2⟩ := sound_preserved_on g ex le rootPly hev (closed_everywhere g ex) (hh.on _) (hrf.on _) K d hK hKd
    p trivial alpha beta st (sound_iff_on.1 hs) hc ha hb
  exact ⟨sound_iff_on.2 h1, h2⟩

theorem stored_exact (g : Game P) (ex : P → Explore) (le : LeafEval P) (rootPly : Int) (hev : EvalOk g)
    (hh : HashOK g ex le) (hrf : RootFree g rootPly) (K d : Nat) (hK : leafGrade le ≤ K) (hKd : K + d ≤ 127)
    (p : P) (alpha beta : Score) (st : SState) (hs : Sound g ex le st.tt) (hc : st.cancelAt = none)
    (ha : okN (K + d) alpha) (hb : okN (K + d) beta) :
    ∀ e, some e ∈ (alphabeta g ex le rootPly d p alpha beta st).2.2.tt.slots → e.bound = 0 →
      ∀ q, g.hash q = e.hash → e.score = V g ex le rootPly e.depth q :=
  fun e he hb0 q hq => stored_exact_on g ex le rootPly hev (closed_everywhere g ex) (hh.on _) (hrf.on _) K d hK hKd
    p trivial alpha beta st (sound_iff_on.1 hs) hc ha hb e he hb0 q trivial hq

theorem transparent (g : Game P) (ex : P → Explore) (le : LeafEval P) (rootPly : Int) (hev : EvalOk g)
    (hh : HashOK g ex le) (hrf : RootFree g rootPly) (d : Nat) (hd : leafGrade le + d ≤ 127)
    (p : P) (st : SState) (hs : Sound g ex le st.tt) (hc : st.cancelAt = none)
    (st0 : SState) (h0 : st0.tt.slots.size = 0) (hc0 : st0.cancelAt = none) :
    (alphabeta g ex le rootPly d p negInfScore infScore st).1 = V g ex le rootPly d p ∧
    (alphabeta g ex le rootPly d p negInfScore infScore st).1 =
      (alphabeta g ex le rootPly d p negInfScore infScore st0).1 :=
  transparent_on g ex le rootPly hev (closed_everywhere g ex) (hh.on _) (hrf.on _) d hd p trivial st
    (sound_iff_on.1 hs) hc st0 h0 hc0

theorem pv_first_best (g : Game P) (ex : P → Explore) (le : LeafEval P) (rootPly : Int) (hev : EvalOk g)
    (hh : HashOK g ex le) (hrf : RootFree g rootPly) (d : Nat) (hd : leafGrade le + d ≤ 127)
    (p : P) (st : SState) (hs : Sound g ex le st.tt) (hc : st.cancelAt = none) :
    Principal g ex le rootPly d p (alphabeta g ex le rootPly d p negInfScore infScore st).2.1 ∧
    (∀ d' m rest, d = d' + 1 → (alphabeta g ex le rootPly d p negInfScore infScore st).2.1 = m :: rest →
      ∃ c, g.push p m = some c ∧ (ex p).pick m = true ∧
        lift (V g ex le rootPly d' c) = V g ex le rootPly (d' + 1) p) ∧
    (∀ d', d = d' + 1 → g.ply p = rootPly → legalAny g p (g.moves p) = true →
      V g ex le rootPly d p ≠ negInfScore →
      (alphabeta g ex le rootPly d p negInfScore infScore st).2.1 ≠ []) :=
  pv_first_best_on g ex le rootPly hev (closed_everywhere g ex) (hh.on _) (hrf.on _) d hd p trivial st
    (sound_iff_on.1 hs) hc

theorem search_exact (g : Game P) (ex : P → Explore) (le : LeafEval P) (hev : EvalOk g) (hh : HashOK g ex le)
    (p : P) (hrf : RootFree g (g.ply p)) (d : Nat) (hd : leafGrade le + d ≤ 127)
    (st : SState) (hs : Sound g ex le st.tt) (hc : st.cancelAt = none) :
    Sound g ex le (alphaBetaSearch g ex le p d invalidScore invalidScore st).2.tt ∧
    (alphaBetaSearch g ex le p d invalidScore invalidScore st).2.cancelAt = none ∧
    ∃ n pv, (alphaBetaSearch g ex le p d invalidScore invalidScore st).1 =
        some ⟨n, V g ex le (g.ply p) d p, pv⟩ ∧
      Principal g ex le (g.ply p) d p pv ∧
      (∀ d', d = d' + 1 → legalAny g p (g.moves p) = true → V g ex le (g.ply p) d p ≠ negInfScore → pv ≠ []) := by
  obtain ⟨h1, h2⟩ := search_exact_on g ex le hev (closed_everywhere g ex) (hh.on _) p (hrf.on _) d hd trivial st
    (sound_iff_on.1 hs) hc
  exact ⟨sound_iff_on.2 h1, h2⟩

theorem sequence (g : Game P) (ex : P → Explore) (le : LeafEval P) (hev : EvalOk g) (hh : HashOK g ex le)
    (l : List (P × Nat)) (st : SState) (hs : Sound g ex le st.tt) (hc : st.cancelAt = none)
    (hall : ∀ pd ∈ l, RootFree g (g.ply pd.1) ∧ leafGrade le + pd.2 ≤ 127) :
    (searchSeq g ex le l st).1.map (fun o => o.map (·.score)) =
      l.map (fun pd => some (V g ex le (g.ply pd.1) pd.2 pd.1)) ∧
    Sound g ex le (searchSeq g ex le l st).2.tt ∧ (searchSeq g ex le l st).2.cancelAt = none := by
  obtain ⟨h1, h2, h3⟩ := sequence_on g ex le hev (hh.on Everywhere) l st (sound_iff_on.1 hs) hc
    (fun pd hpd => ⟨fun _ _ _ => trivial, (hall pd hpd).1.on _, (hall pd hpd).2⟩)
  exact ⟨h1, sound_iff_on.2 h2, h3⟩

/-- `sequence` when no draw can be claimed anywhere in the game. -/
theorem sequence_noDraw (g : Game P) (ex : P → Explore) (le : LeafEval P) (hev : EvalOk g) (hh : HashOK g ex le)
    (hnd : NoDraw g) (l : List (P × Nat)) (st : SState) (hs : Sound g ex le st.tt) (hc : st.cancelAt = none)
    (hall : ∀ pd ∈ l, leafGrade le + pd.2 ≤ 127) :
    (searchSeq g ex le l st).1.map (fun o => o.map (·.score)) =
      l.map (fun pd => some (V g ex le (g.ply pd.1) pd.2 pd.1)) :=
  (sequence g ex le hev hh l st hs hc (fun pd hpd => ⟨hnd.rootFree _, hall pd hpd⟩)).1

/-- Under `RootFree` the value is determined by the position: the `rootPly` argument of `V` is irrelevant. -/
theorem V_root_irrelevant (g : Game P) (ex : P → Explore) (le : LeafEval P) (r r' : Int)
    (h : RootFree g r) (h' : RootFree g r') (d : Nat) (p : P) : V g ex le r d p = V g ex le r' d p := by
  rw [V_eq_V' ex le h, V_eq_V' ex le h']

/-! ## Non-vacuity: the tiny game of C13 with a real table (`TTState.new 64`: two slots) -/

open C13 in
theorem tiny_hashOK (le : LeafEval Nat) : HashOK tiny allMoves le :=
  hashOK_of_injective allMoves le (fun _ _ h => h)

open C13 in
theorem tiny_rootFree (r : Int) (hr : r ≠ 2) : RootFree tiny r := by
  intro p hp
  simp only [tiny, beq_iff_eq] at hp
  subst hp
  simp only [tiny]
  intro h
  exact hr (by rw [← h]; decide)

/-- A state with an empty-but-present table of two slots. -/
def st64 : SState := { tt := TTState.new 64 }

example : st64.tt.slots.size = 2 ∧ st64.cancelAt = none := by decide

-- an instance of `sequence`: root 0 at depth 2, again, then deeper, then the successor position 2
open C13 in
example : (searchSeq tiny allMoves .static [(0, 2), (0, 2), (0, 3), (2, 1)] st64).1.map (fun o => o.map (·.score)) =
    [some (V tiny allMoves .static 0 2 0), some (V tiny allMoves .static 0 2 0),
     some (V tiny allMoves .static 0 3 0), some (V tiny allMoves .static 1 1 2)] :=
  (sequence tiny allMoves .static tiny_evalOk (tiny_hashOK _) _ st64 (fresh_sound _ _ _ 64 0) rfl (by
    intro pd hpd
    simp only [List.mem_cons, List.mem_nil_iff, or_false] at hpd
    rcases hpd with rfl | rfl | rfl | rfl
    · exact ⟨tiny_rootFree _ (by decide), by decide⟩
    · exact ⟨tiny_rootFree _ (by decide), by decide⟩
    · exact ⟨tiny_rootFree _ (by decide), by decide⟩
    · exact ⟨tiny_rootFree _ (by decide), by decide⟩)).1

-- what actually happens: the first search fills both slots, the repeated search returns the same score and
-- PV with fewer nodes (table hits), a search of the successor position 2 is exact as well
open C13 in
def run1 := alphaBetaSearch tiny allMoves .static 0 2 invalidScore invalidScore st64
open C13 in
def run2 := alphaBetaSearch tiny allMoves .static 0 2 invalidScore invalidScore run1.2
open C13 in
def run3 := alphaBetaSearch tiny allMoves .static 2 1 invalidScore invalidScore run2.2

open C13 in
example :
    run1.1.map (fun r => (r.nodes, r.score, r.pv)) = some (6, heuristicScore 15, [mv 1, mv 0]) ∧
    run1.2.tt.used = 2 ∧
    run2.1.map (fun r => (r.nodes, r.score, r.pv)) = some (4, heuristicScore 15, [mv 1, mv 0]) ∧
    run3.1.map (fun r => (r.nodes, r.score, r.pv)) = some (3, heuristicScore (-15), [mv 0]) ∧
    V tiny allMoves .static 0 2 0 = heuristicScore 15 ∧ V tiny allMoves .static 1 1 2 = heuristicScore (-15) := by
  decide

-- instances of the global forms on the tiny game (it has no junk states): `sound_preserved`, `stored_exact`,
-- `transparent`, `pv_first_best`, `search_exact`
open C13 in
example : Sound tiny allMoves .static
      (alphabeta tiny allMoves .static 0 2 0 (heuristicScore 0) (heuristicScore 50) st64).2.2.tt ∧
    ∀ e, some e ∈ (alphabeta tiny allMoves .static 0 2 0 (heuristicScore 0) (heuristicScore 50) st64).2.2.tt.slots →
      e.bound = 0 → ∀ q, tiny.hash q = e.hash → e.score = V tiny allMoves .static 0 e.depth q :=
  ⟨(sound_preserved tiny allMoves .static 0 tiny_evalOk (tiny_hashOK _) (tiny_rootFree 0 (by decide)) 0 2 (by decide)
      (by decide) 0 _ _ st64 (fresh_sound _ _ _ 64 0) rfl (by decide) (by decide)).1,
   stored_exact tiny allMoves .static 0 tiny_evalOk (tiny_hashOK _) (tiny_rootFree 0 (by decide)) 0 2 (by decide)
      (by decide) 0 _ _ st64 (fresh_sound _ _ _ 64 0) rfl (by decide) (by decide)⟩

open C13 in
example : (alphabeta tiny allMoves .static 0 2 0 negInfScore infScore run1.2).1 = V tiny allMoves .static 0 2 0 ∧
    (alphabeta tiny allMoves .static 0 2 0 negInfScore infScore run1.2).1 =
      (alphabeta tiny allMoves .static 0 2 0 negInfScore infScore {}).1 :=
  transparent tiny allMoves .static 0 tiny_evalOk (tiny_hashOK _) (tiny_rootFree 0 (by decide)) 2 (by decide) 0 run1.2
    (search_exact tiny allMoves .static tiny_evalOk (tiny_hashOK _) 0 (tiny_rootFree _ (by decide)) 2 (by decide) st64
      (fresh_sound _ _ _ 64 0) rfl).1
    (search_exact tiny allMoves .static tiny_evalOk (tiny_hashOK _) 0 (tiny_rootFree _ (by decide)) 2 (by decide) st64
      (fresh_sound _ _ _ 64 0) rfl).2.1 {} rfl rfl

open C13 in
example : Principal tiny allMoves .static 0 2 0 (alphabeta tiny allMoves .static 0 2 0 negInfScore infScore st64).2.1 :=
  (pv_first_best tiny allMoves .static 0 tiny_evalOk (tiny_hashOK _) (tiny_rootFree 0 (by decide)) 2 (by decide) 0 st64
    (fresh_sound _ _ _ 64 0) rfl).1

/-! ## Non-vacuity on the chess game: `materialGame exZ` on worlds built by `newBoard`, real tables

`gX = materialGame exZ`; `wS` = K + N v K + N (White to move), `w1` = `wS` after 1. Nf3, `wE` =
`r3k2r/1P6/8/3pP3/8/8/8/R3K2R w KQkq d6`; `st4k` = an empty table of 128 slots; `capX` = the captures-only
exploration of the quiescence search (`Morlock/Proofs/ABChessTree.lean`). The region is the search tree itself. -/

section Chess

/-- All hypotheses of the `…_on` theorems hold for the search of `wS` to depth 2 (every leaf evaluation). -/
example (le : LeafEval World) : EvalOk gX ∧ Closed gX fullX (Tree gX fullX wS 2) ∧
    Tree gX fullX wS 2 2 wS ∧ HashOKOn gX fullX le (Tree gX fullX wS 2) ∧
    RootFreeOn gX (Tree gX fullX wS 2) (gX.ply wS) ∧
    SoundOn gX fullX le (Tree gX fullX wS 2) st4k.tt ∧ st4k.tt.slots.size = 128 :=
  ⟨gX_evalOk, tree_closed _ _ _ _, tree_root _ _ _ _, wS_hashOK le, wS_noDraw.rootFreeOn _,
    fresh_sound_on _ _ _ _ 4096 0, by decide +kernel⟩

/-- **On the chess game the root-ply condition holds structurally**: for every Zobrist table, evaluation and
    exploration, the tree of every search whose root satisfies the play invariant `Inv` (C13 `chess_enough_fuel`)
    and is not drawn satisfies `RootFreeOn` for the root's ply - the ply grows with every move. So on the chess game the
    only hypothesis of C11 / C12 that is not discharged once and for all is `HashOKOn` (a property of the Zobrist
    table on the tree: no two positions of the tree at the same remaining depth with equal hashes and different values). -/
theorem chess_rootFreeOn (z : ZTable) (ev : Position → Model.Color → Int) (ex : World → Explore) {w : World} (h : Inv w)
    (hd : (boardGame z ev).isDraw w = false) (d : Nat) :
    RootFreeOn (boardGame z ev) (Tree (boardGame z ev) ex w d) ((boardGame z ev).ply w) :=
  boardGame_rootFreeOn z ev ex h hd d

example (d : Nat) : RootFreeOn gX (Tree gX fullX wE d) (gX.ply wE) :=
  chess_rootFreeOn Proofs.exZ (fun pos turn => f32keyOfInt (materialPawns pos turn)) fullX wE_inv wE_notDraw d

/-- `sound_preserved_on` / `stored_exact_on`: window (mated in 2, +5), static leaves. -/
example :
    SoundOn gX fullX .static (Tree gX fullX wS 2)
      (alphabeta gX fullX .static 1 2 wS (mateInXScore (-2)) (heuristicScore 5) st4k).2.2.tt ∧
    Clip (rank (mateInXScore (-2))) (rank (heuristicScore 5)) (rank (V gX fullX .static 1 2 wS))
      (rank (alphabeta gX fullX .static 1 2 wS (mateInXScore (-2)) (heuristicScore 5) st4k).1) ∧
    ∀ e, some e ∈ (alphabeta gX fullX .static 1 2 wS (mateInXScore (-2)) (heuristicScore 5) st4k).2.2.tt.slots →
      e.bound = 0 → ∀ q, Tree gX fullX wS 2 e.depth q → gX.hash q = e.hash →
        e.score = V gX fullX .static 1 e.depth q :=
  have h := sound_preserved_on gX fullX .static 1 gX_evalOk (tree_closed _ _ _ _) (wS_hashOK _)
    (wS_noDraw.rootFreeOn 1) 0 2 (by decide) (by decide) wS (tree_root _ _ _ _) (mateInXScore (-2)) (heuristicScore 5)
    st4k (fresh_sound_on _ _ _ _ 4096 0) rfl (by decide) (by decide)
  ⟨h.1, h.2.2.2.2.1 (by decide),
   stored_exact_on gX fullX .static 1 gX_evalOk (tree_closed _ _ _ _) (wS_hashOK _)
    (wS_noDraw.rootFreeOn 1) 0 2 (by decide) (by decide) wS (tree_root _ _ _ _) (mateInXScore (-2)) (heuristicScore 5)
    st4k (fresh_sound_on _ _ _ _ 4096 0) rfl (by decide) (by decide)⟩

/-- `transparent_on`, with quiescence leaves (the driver's `full-quiet` configuration: captures only, fuel 64). -/
example :
    (alphabeta gX fullX (.quiescence capX 64) 1 2 wS negInfScore infScore st4k).1 =
      V gX fullX (.quiescence capX 64) 1 2 wS ∧
    (alphabeta gX fullX (.quiescence capX 64) 1 2 wS negInfScore infScore st4k).1 =
      (alphabeta gX fullX (.quiescence capX 64) 1 2 wS negInfScore infScore {}).1 :=
  transparent_on gX fullX _ 1 gX_evalOk (tree_closed _ _ _ _) (wS_hashOK _) (wS_noDraw.rootFreeOn 1) 2
    (by decide) wS (tree_root _ _ _ _) st4k (fresh_sound_on _ _ _ _ 4096 0) rfl {} rfl rfl

set_option maxRecDepth 100000 in
/-- `pv_first_best_on`: the PV is principal, and not empty (the value of `wS` at depth 2 is 0, not `negInf`). -/
example :
    Principal gX fullX .static 1 2 wS
      (alphabeta gX fullX .static 1 2 wS negInfScore infScore st4k).2.1 ∧
    (alphabeta gX fullX .static 1 2 wS negInfScore infScore st4k).2.1 ≠ [] :=
  have h := pv_first_best_on gX fullX .static 1 gX_evalOk (tree_closed _ _ _ _) (wS_hashOK _)
    (wS_noDraw.rootFreeOn 1) 2 (by decide) wS (tree_root _ _ _ _) st4k (fresh_sound_on _ _ _ _ 4096 0) rfl
  ⟨h.1, h.2.2 1 rfl wS_ply wS_legal (by decide +kernel)⟩

/-- `search_exact_on` on `wE` (depth 1, quiescence leaves): castling, en passant, promotions and captures occur. -/
example : ∃ n pv,
    (alphaBetaSearch gX fullX (.quiescence capX 64) wE 1 invalidScore invalidScore st4k).1 =
      some ⟨n, V gX fullX (.quiescence capX 64) (gX.ply wE) 1 wE, pv⟩ ∧
    Principal gX fullX (.quiescence capX 64) (gX.ply wE) 1 wE pv :=
  have h := (search_exact_on gX fullX (.quiescence capX 64) gX_evalOk (tree_closed _ _ wE 1) (wE_hashOK _) wE
    (wE_noDraw.rootFreeOn _) 1 (by decide) (tree_root _ _ _ _) st4k (fresh_sound_on _ _ _ _ 4096 0) rfl).2.2
  let ⟨n, pv, h1, h2, _⟩ := h
  ⟨n, pv, h1, h2⟩

/-- `sequence_trees`: iterative deepening on `wS` (depths 1, 2), the depth-2 search repeated, then a search of the
    successor position `w1`, all threading one table: every score is the reference value. -/
example : (searchSeq gX fullX .static seqX st4k).1.map (fun o => o.map (·.score)) =
    [some (V gX fullX .static (gX.ply wS) 1 wS), some (V gX fullX .static (gX.ply wS) 2 wS),
     some (V gX fullX .static (gX.ply wS) 2 wS), some (V gX fullX .static (gX.ply w1) 1 w1)] :=
  (sequence_trees gX fullX .static gX_evalOk seqX (seqX_hashOK _) seqX_noDraw st4k
    (fresh_sound_on _ _ _ _ 4096 0) rfl (by
      intro pd hpd
      simp only [seqX, List.mem_cons, List.mem_nil_iff, or_false] at hpd
      rcases hpd with rfl | rfl | rfl | rfl <;> decide)).1

set_option maxRecDepth 100000 in
/-- What actually happens in that sequence: the table is written (5 slots used) and read - the repeated depth-2
    search needs 15 nodes instead of 24 and its PV is cut short by a table hit below the root. -/
example : (searchSeq gX fullX .static seqX st4k).1.map (fun o => o.map fun r => (r.nodes, r.score, r.pv.length)) =
      [some (9, zeroScore, 1), some (24, zeroScore, 2), some (15, zeroScore, 1), some (9, zeroScore, 1)] ∧
    (searchSeq gX fullX .static seqX st4k).2.tt.used = 5 := by
  decide +kernel

end Chess

end Morlock.Props.C11
