import Morlock.Proofs.TurochampMob
import Morlock.Proofs.TurochampMirror
import Morlock.Proofs.GenExample
/-!
# C20 — TUROCHAMP (`cmd/turochamp/turochamp`): the evaluation is total and bounded, the considerable-moves filter is sound

Model: `Morlock/Model/Turochamp.lean` (tied to the Go code by the stream `turochamp`: every component of every op agrees
bit for bit). `eval.Pawns` is `float32`; a value is the exact rational it denotes (`Flt.Q`), `none` = infinity/NaN/panic.

1. `material_value`, `material_pos`, `materialEvaluate_total`: `material` is exactly `mat2 / 2 ≥ 1/2` for every position, so
   `Material.Evaluate` never divides by zero; its value is finite and at most 2880 in absolute value.
2. `positionPlay_total`, `evaluate_total`: on every board whose position is well formed (`WF`, which contains `Rep`),
   `PositionPlay` (for every order in which the mobility map may be iterated) and `Eval.Evaluate` return finite values,
   with explicit bounds. These two take the two facts about `Flt.rnd` they need as the hypothesis `FltFacts`
   (discharged in `Props/C20TurochampFlt.lean` from `Proofs/FltOps.lean`); everything else is proved here.
3. `considerable_sound`: what `ConsiderableMovesOnly` selects is a sublist of the legal moves (each at most once), it
   never panics on a well-formed position, and it is exactly the filter of the generated moves by "accepted by `PushMove`
   and considerable on the board after the move".
4. Colour-blindness, component by component (`material_mirror`, `materialEvaluate_mirror`, `castleRight_mirror`,
   `check_mirror`, `defenders_mirror`, `pawnCredit_mirror`, `kingSafety_mirror`, `squares_mirror`): if `q` represents the
   colour-swapped mirror image of the board of `p`, each of these parts computed for the other colour on `q` equals the
   part computed for the colour on `p`. NOT proved: the mobility map (as a multiset of counts), `mayCheckMate`, `mayCastle`.
   `positionPlay_mirror` as an equation of float32 values is FALSE for any fixed order of summation (the mirror permutes
   the squares; float32 addition is not associative): witness in the report; the real code iterates a Go map, so its
   `PositionPlay` is not even a function of the board (stream `turochamp`, `ppnd`). `Eval.Evaluate` rounds the difference
   to two decimals, which hides this in every case generated (no proof).
-/
namespace Morlock.Props.C20Turochamp
open Morlock Morlock.Model Morlock.Model.Flt Morlock.Model.Turochamp Morlock.Proofs Morlock.Proofs.Gen
open Morlock.Proofs.Turochamp

/-! ## 1. `material` and `Material.Evaluate` -/

/-- What `mat2` is: twice the piece values (Q 10, R 5, N 3, B 3½, P 1) times the population counts; 1 for a bare king. -/
theorem mat2_def (pos : Position) (c : Color) :
    mat2 pos c =
      (if 20 * popCount (pos.pieces c .queen) + 10 * popCount (pos.pieces c .rook) + 6 * popCount (pos.pieces c .knight) +
          7 * popCount (pos.pieces c .bishop) + 2 * popCount (pos.pieces c .pawn) = 0 then 1
       else 20 * popCount (pos.pieces c .queen) + 10 * popCount (pos.pieces c .rook) + 6 * popCount (pos.pieces c .knight) +
          7 * popCount (pos.pieces c .bishop) + 2 * popCount (pos.pieces c .pawn)) := rfl

/-- **material_value.** For every position and colour, `material` returns exactly `mat2 / 2` (no rounding error, no
overflow, no panic); `half k` is `k/2` in lowest terms. -/
theorem material_value (pos : Position) (c : Color) :
    material pos c = some (half (mat2 pos c)) ∧ 1 ≤ mat2 pos c ∧ mat2 pos c ≤ 2880 ∧
    (half (mat2 pos c)).num * 2 = (mat2 pos c : Int) * ((half (mat2 pos c)).den : Int) ∧ 0 < (half (mat2 pos c)).den :=
  ⟨material_eq pos c, mat2_pos pos c, mat2_le pos c, half_value _, half_den_pos _⟩

/-- **material_pos.** `material p c ≥ 1/2` (and `≤ 1440`) for every position. -/
theorem material_pos (pos : Position) (c : Color) :
    ∃ v, material pos c = some v ∧ 0 < v.den ∧ Q.le ⟨1, 2⟩ v = true ∧ Q.le v (Q.ofInt 1440) = true ∧ v.num ≠ 0 := by
  refine ⟨_, material_eq pos c, half_den_pos _, ?_, ?_, ?_⟩
  · have h1 := mat2_pos pos c
    have hv := half_value (mat2 pos c)
    refine decide_eq_true ?_
    show (1 : Int) * ((half (mat2 pos c)).den : Int) ≤ (half (mat2 pos c)).num * ((2 : Nat) : Int)
    have : (1 : Int) * ((half (mat2 pos c)).den : Int) ≤ (mat2 pos c : Int) * ((half (mat2 pos c)).den : Int) :=
      Int.mul_le_mul_of_nonneg_right (by omega) (Int.natCast_nonneg _)
    omega
  · have h1 := mat2_le pos c
    have hv := half_value (mat2 pos c)
    refine decide_eq_true ?_
    show (half (mat2 pos c)).num * ((1 : Nat) : Int) ≤ (1440 : Int) * ((half (mat2 pos c)).den : Int)
    have : (mat2 pos c : Int) * ((half (mat2 pos c)).den : Int) ≤ (2880 : Int) * ((half (mat2 pos c)).den : Int) :=
      Int.mul_le_mul_of_nonneg_right (by omega) (Int.natCast_nonneg _)
    omega
  · have := half_num_pos (mat2_pos pos c); omega

/-- **materialEvaluate_total.** `Material.Evaluate` is finite for every position (the divisor is never zero) and
`|v| ≤ 2880 = 2·64·(10 + 5 + 3 + 3½ + 1)`, the bound being what per-piece population counts of at most 64 allow. -/
theorem materialEvaluate_total (F : FltFacts) (pos : Position) (turn : Color) :
    ∃ v, materialEvaluate pos turn = some v ∧ 0 < v.den ∧ v.num.natAbs ≤ 2880 * v.den :=
  Turochamp.materialEvaluate_total F pos turn

/-- Initial position: 10 + 2·5 + 2·3 + 2·3½ + 8 = 41 for both sides, `Material.Evaluate` = 0. A bare king counts ½. -/
example : (material startPos .white).map (fun v => (v.num, v.den)) = some (41, 1) ∧
    (materialEvaluate startPos .white).map (fun v => (v.num, v.den)) = some (0, 1) ∧
    (material ({} : Position) .white).map (fun v => (v.num, v.den)) = some (1, 2) := by decide +kernel

/-- `exPos` (two rooks and two pawns against two rooks and a pawn): 12/11 rounded to float32. -/
example : mat2 exPos .white = 24 ∧ mat2 exPos .black = 22 ∧
    (materialEvaluate exPos .white).map (fun v => (v.num, v.den)) = some (9151209, 8388608) := by decide +kernel

/-! ## 2. `PositionPlay` and `Eval.Evaluate` are total -/

/-- The bounds proved: `|PositionPlay| ≤ 17297`, `|Eval.Evaluate| ≤ 2883460` (crude: 64 officers, 64 pawns each advanced
255 ranks - what the code would do on arbitrary bitboards; the source comment claims `[-55;55]` for chess positions). -/
theorem bounds : ppBound = 17297 ∧ evalBound = 2883460 := ⟨rfl, rfl⟩

/-- **positionPlay_total.** On a well-formed position `PositionPlay` is finite and bounded for *every* order in which
the mobility map is iterated (`order` a permutation; the model's `positionPlayCore` is `order = id`). No panic
(`Attackboard` of a pawn), no square root of a negative number, no overflow. -/
theorem positionPlay_total (F : FltFacts) {pos : Position} {t : Color} (hw : WF pos t) (castled : Bool) (turn : Color)
    (order : List (Nat × Nat) → List (Nat × Nat)) (hperm : ∀ l, (order l).Perm l) :
    ∃ v, positionPlayOrd order pos castled turn = some v ∧ 0 < v.den ∧ v.num.natAbs ≤ ppBound * v.den := by
  have hm : MobOK (mobility pos turn) := mobOK_of_wf hw
  have hm' : MobOK (order (mobility pos turn)) :=
    ⟨by rw [(hperm _).length_eq]; exact hm.1, fun e he => hm.2 e ((hperm _).mem_iff.mp he)⟩
  exact positionPlayOrd_total F order pos castled turn hm'

/-- **evaluate_total.** For every board whose current position is well formed, `Eval.Evaluate` returns a finite value
`v` with `|v| ≤ 2883460`. -/
theorem evaluate_total (F : FltFacts) (w : World) (b : Nat) {t : Color} (hw : WF (w.cur b).pos t) :
    ∃ v, evaluate w b = some v ∧ 0 < v.den ∧ v.num.natAbs ≤ evalBound * v.den :=
  evaluateCore_total F _ _ _ _ (mobOK_of_wf hw) (mobOK_of_wf hw)

/-- The part that needs no hypothesis on the position: with small mobility maps everything is finite. -/
theorem evaluate_total_of_mobOK (F : FltFacts) (pos : Position) (cs co : Bool) (turn : Color)
    (hs : MobOK (mobility pos turn)) (ho : MobOK (mobility pos turn.opp)) :
    ∃ v, evaluateCore pos cs co turn = some v ∧ 0 < v.den ∧ v.num.natAbs ≤ evalBound * v.den :=
  evaluateCore_total F pos cs co turn hs ho

/-- a Zobrist table (its content is irrelevant for the evaluation) and a board on `exPos`, White to move -/
def z0 : ZTable := ⟨fun _ _ _ => 0, fun _ => 0, fun _ => 0, fun _ => 0⟩
def exWorld : World := (({} : World).newBoard z0 exPos .white 0 1).1

theorem exWorld_pos : (exWorld.cur 0).pos = exPos ∧ (exWorld.board 0).turn = .white := by decide +kernel

/-- `evaluate_total` applies to the board on `exPos` (castling rights for both, en passant available, a promotion
ahead); the value there is `1090.12` (material 12/11 → 109·10, position play +0.12). -/
example (F : FltFacts) : ∃ v, evaluate exWorld 0 = some v ∧ 0 < v.den ∧ v.num.natAbs ≤ evalBound * v.den :=
  evaluate_total F exWorld 0 (t := .white) (by rw [exWorld_pos.1]; exact exPos_wf.1)

example : (evaluate exWorld 0).map (fun v => (v.num, v.den)) = some (8930263, 8192) := by decide +kernel

example : (mobility exPos .white).length = 3 ∧ MobOK (mobility exPos .white) :=
  ⟨by decide +kernel, mobOK_of_wf exPos_wf.1⟩

/-! ## 2b. `PositionPlay` depends on the iteration order of the Go map (a C18 finding) -/

/-- 1. e2-e4 -/
def e2e4 : Move := { ty := .jump, «from» := 11, to := 27, piece := .pawn }
/-- the position after 1. e4 -/
def afterE4 : Position := (startPos.move e2e4).getD {}

/-- **positionPlay_order_dependent.** After 1. e4 (a legal move from the initial position) White's mobility map is
`{d1:4, f1:5, b1:2, g1:2, e1:1}`. Summed in insertion order `PositionPlay(b, White)` is the float32 `0x41666668`; summed
in the same cyclic order started at the fourth key (Go starts a map iteration at a random offset) it is `0x41666667`.
The real function returns both values within 200 calls on this board (stream `turochamp`, `stats.json`). -/
theorem positionPlay_order_dependent :
    e2e4 ∈ startPos.legalMoves .white ∧
    mobility afterE4 .white = [(4, 4), (1, 3), (6, 2), (2, 5), (3, 1)] ∧
    (positionPlayOrd id afterE4 false .white).bind bits32 = some 0x41666668 ∧
    (positionPlayOrd (fun l => l.rotateLeft 3) afterE4 false .white).bind bits32 = some 0x41666667 := by
  decide +kernel

/-! ## 2c. Observation: the `uint8` rank subtraction wraps on a pawn standing on its own back rank -/

/-- **obs_pawnRanks_wrap.** `int(from.Rank() - board.Rank2)` / `int(board.Rank7 - from.Rank())` are computed in `uint8`:
a white pawn on rank 1 (a1 = square 7) and a black pawn on rank 8 (a8 = 63) get 255 "ranks advanced"; on ranks 2-7 the
value is the number of ranks advanced, 0 … 5; a pawn on its promotion rank gets 6. -/
theorem obs_pawnRanks_wrap :
    pawnRanks .white 7 = 255 ∧ pawnRanks .black 63 = 255 ∧
    (∀ sq, sq < 64 → 8 ≤ sq → sq < 56 → pawnRanks .white sq = sq / 8 - 1 ∧ pawnRanks .black sq = 6 - sq / 8) ∧
    (∀ sq, sq < 64 → 56 ≤ sq → pawnRanks .white sq = 6) ∧ (∀ sq, sq < 8 → pawnRanks .black sq = 6) := by
  decide +kernel

/-- `p3k3/8/8/8/8/8/8/P3K3`: kings on e1/e8, a white pawn on a1, a black pawn on a8 (accepted by `fen.Decode`) -/
def backRankPos : Position :=
  (Position.newPosition [(3, .white, .king), (7, .white, .pawn), (59, .black, .king), (63, .black, .pawn)] 0 0).getD {}
/-- the same with the pawns on a2/a7 -/
def homeRankPos : Position :=
  (Position.newPosition [(3, .white, .king), (15, .white, .pawn), (59, .black, .king), (55, .black, .pawn)] 0 0).getD {}

/-- **obs_backRank_positionPlay.** On `backRankPos` the pawn earns `0.2 · 255 = 51` pawns: `PositionPlay(White)` is
the float32 `0x4242cccd` = 48.7 (the real code returns the same bits: stream `turochamp`, curated case), against
`0xc0199999` = -2.4 with the pawn on a2. -/
theorem obs_backRank_positionPlay :
    (positionPlayCore backRankPos false .white).bind bits32 = some 0x4242cccd ∧
    (positionPlayCore backRankPos false .black).bind bits32 = some 0x4242cccd ∧
    (positionPlayCore homeRankPos false .white).bind bits32 = some 0xc0199999 := by decide +kernel

/-- **obs_enpassant_for_side_not_to_move.** `PositionPlay(b, turn.Opponent())` generates moves for the side NOT to move
with the en-passant target of the side to move still set: after 1. e4 (target e3 = square 19, Black to move) the generator
gives White the "en-passant captures" f2xe3 and d2xe3, and `Position.Move` accepts both (it removes a phantom black pawn
from e4, where White's own pawn stands). They are pawn moves, so they do not count for mobility; they do take part in the
mate-threat test. The real code does the same (stream `turochamp`: `nmoves=20/32 ep=0/2` on this line). -/
theorem obs_enpassant_for_side_not_to_move :
    afterE4.enpassant = 19 ∧
    ((afterE4.pseudoLegalMoves .white).filter fun m => m.ty == .enPassant).map
      (fun m => (m.from, m.to, (afterE4.move m).isSome)) = [(10, 19, true), (12, 19, true)] ∧
    (afterE4.legalMoves .white).length = 32 := by decide +kernel

/-! ## 3. The considerable-moves filter -/

/-- **considerable_sound.** The moves a search with `ConsiderableMovesOnly` explores at a node are a sublist of the
legal moves of the position (generator order, nothing added). -/
theorem considerable_sound (z : ZTable) (w : World) (b : Nat) {l : List Move} (h : considerableMoves z w b = some l) :
    l.Sublist ((w.cur b).pos.legalMoves (w.board b).turn) :=
  considerableLoop_sublist z w b _ l h

/-- ... each at most once, on a represented position. -/
theorem considerable_nodup (z : ZTable) (w : World) (b : Nat) {bd : Proofs.Board} (hr : Rep (w.cur b).pos bd)
    {l : List Move} (h : considerableMoves z w b = some l) : l.Nodup := by
  apply List.Nodup.sublist (considerable_sound z w b h)
  unfold Position.legalMoves
  exact List.Nodup.sublist List.filter_sublist (pseudoLegalMoves_nodup hr _)

/-- Every selected move was accepted by `PushMove` and `IsConsiderableMove` said yes on the board after it. -/
theorem considerable_selected (z : ZTable) (w : World) (b : Nat) {l : List Move} (h : considerableMoves z w b = some l) :
    ∀ m ∈ l, ∃ w', w.pushMove z b m = some w' ∧ isConsiderableMove m w' b = some true :=
  considerableLoop_mem z w b _ l h

/-- The selection is exactly the filter of the generated moves by "accepted by `PushMove` and considerable after it". -/
theorem considerable_exact (z : ZTable) (w : World) (b : Nat) {l : List Move} (h : considerableMoves z w b = some l) :
    l = ((w.cur b).pos.pseudoLegalMoves (w.board b).turn).filter (considerableTest z w b) :=
  considerableLoop_eq_filter z w b _ l h

/-- **No panic** (`pieceValue(NoPiece)`) on a well-formed position: generated moves carry real pieces. -/
theorem considerable_total (z : ZTable) (w : World) (b : Nat) {t : Color} (hw : WF (w.cur b).pos t) :
    (considerableMoves z w b).isSome = true :=
  considerableLoop_isSome z w b _ (fun _ hm => pseudo_piece_capture_ok hw hm)

/-- In `exPos` White has six captures (Rxa8, Rxh8, b7xa8 promoting in four ways), all of undefended or more valuable men:
the six are selected among 36 legal moves. -/
example : ((considerableMoves z0 exWorld 0).map fun l => l.length) = some 6 ∧
    ((exWorld.cur 0).pos.legalMoves (exWorld.board 0).turn).length = 36 := by decide +kernel

/-! ## 4. Colour-blindness of the parts -/

open Morlock.Proofs.Mirror in
/-- **material_mirror.** `material` of the other colour on the mirrored position. -/
theorem material_mirror {p q : Position} {b : Proofs.Board} (hp : Rep p b) (hq : Rep q (mirrorBoard b)) (c : Color) :
    material q c.opp = material p c := Turochamp.material_mirror hp hq c

open Morlock.Proofs.Mirror in
/-- **materialEvaluate_mirror.** `Material.Evaluate` is colour-blind (as float32 values, bit for bit). -/
theorem materialEvaluate_mirror {p q : Position} {b : Proofs.Board} (hp : Rep p b) (hq : Rep q (mirrorBoard b))
    (turn : Color) : materialEvaluate q turn.opp = materialEvaluate p turn := Turochamp.materialEvaluate_mirror hp hq turn

/-- **castleRight_mirror.** The castling-right term, when the rights are exchanged between the colours. -/
theorem castleRight_mirror {p q : Position} (turn : Color)
    (hwk : (q.castling &&& wK != 0) = (p.castling &&& bK != 0))
    (hwq : (q.castling &&& wQ != 0) = (p.castling &&& bQ != 0))
    (hbk : (q.castling &&& bK != 0) = (p.castling &&& wK != 0))
    (hbq : (q.castling &&& bQ != 0) = (p.castling &&& wQ != 0)) :
    (q.castling &&& castlingRights turn.opp != 0) = (p.castling &&& castlingRights turn != 0) :=
  Turochamp.castleRight_mirror turn hwk hwq hbk hbq

open Morlock.Proofs.Mirror in
/-- **check_mirror.** The check term (`pos.IsChecked(turn.Opponent())`), under the hypotheses of `C20.abs_eq_mirror`. -/
theorem check_mirror {p q : Position} {t : Color} (hw : WF p t) {b : Proofs.Board} (hp : Rep p b)
    (hq : Rep q (mirrorBoard b)) (habs : abs q t.opp = Spec.mirror (abs p t)) (c : Color) :
    q.isChecked c.opp = p.isChecked c := isChecked_mirror hw hp hq habs c

open Morlock.Proofs.Mirror in
/-- **defenders_mirror.** Part (2): the defender count of a square (own K, Q, R, N, B attacking it, own pawns guarding it). -/
theorem defenders_mirror {p q : Position} {b : Proofs.Board} (hp : Rep p b) (hq : Rep q (mirrorBoard b)) (c : Color)
    {sq : Nat} (hsq : sq < 64) : defenders q c.opp (Spec.mirrorSq sq) = defenders p c sq :=
  Turochamp.defenders_mirror hp hq c hsq

open Morlock.Proofs.Mirror in
/-- **pawnCredit_mirror.** Part (4): ranks advanced and "defended by a non-pawn" of the mirrored pawn. -/
theorem pawnCredit_mirror {p q : Position} {b : Proofs.Board} (hp : Rep p b) (hq : Rep q (mirrorBoard b)) (c : Color)
    {sq : Nat} (hsq : sq < 64) :
    pawnRanks c.opp (Spec.mirrorSq sq) = pawnRanks c sq ∧
    officerDefended q c.opp (Spec.mirrorSq sq) kqrnb = officerDefended p c sq kqrnb :=
  ⟨pawnRanks_mirror c hsq, officerDefended_mirror hp hq c hsq kqrnb (fun _ h => h)⟩

open Morlock.Proofs.Mirror in
/-- **kingSafety_mirror.** Part (3): the king is present on both or neither, and the vulnerability count is the same
(at most one king per side: `WF`). -/
theorem kingSafety_mirror {p q : Position} {t : Color} (hw : WF p t) {b : Proofs.Board} (hp : Rep p b)
    (hq : Rep q (mirrorBoard b)) (c : Color) :
    (q.pieces c.opp .king = 0 ↔ p.pieces c .king = 0) ∧
    (p.pieces c .king ≠ 0 → safety q c.opp = safety p c) :=
  ⟨king_zero_mirror hp hq c, safety_mirror hw hp hq c⟩

open Morlock.Proofs.Mirror in
/-- **squares_mirror.** The squares the loops of parts (2) and (4) run over are the mirror images. -/
theorem squares_mirror {p q : Position} {b : Proofs.Board} (hp : Rep p b) (hq : Rep q (mirrorBoard b)) (c : Color)
    {u : Nat} (hu : u < 64) :
    (middle q c.opp).testBit u = (middle p c).testBit (Spec.mirrorSq u) ∧
    (q.pieces c.opp .pawn).testBit u = (p.pieces c .pawn).testBit (Spec.mirrorSq u) :=
  ⟨middle_mirror hp hq c hu, pieces_mirror hp hq c .pawn hu⟩

open Morlock.Proofs.Mirror in
/-- The hypotheses are met: the mirrored board of `exPos` is represented by some position, and for every such position
Black's `Material.Evaluate` is White's on `exPos` (12/11 in float32), the defenders of a8's mirror image a1 are those of a8. -/
example : ∃ q : Position, Rep q (mirrorBoard (placeAll emptyBoard exPl)) ∧
    materialEvaluate q .black = materialEvaluate exPos .white ∧ defenders q .black (Spec.mirrorSq 63) = defenders exPos .white 63 := by
  obtain ⟨q, hq, _, _⟩ := exists_mirror_rep exPos_rep 15 0
  exact ⟨q, hq, materialEvaluate_mirror exPos_rep hq .white, defenders_mirror exPos_rep hq .white (by decide)⟩

end Morlock.Props.C20Turochamp
