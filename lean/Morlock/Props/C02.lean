import Morlock.Proofs.RepAbs
import Morlock.Proofs.RepExample
/-!
# C02 — the bitboard position update refines the mailbox rules

Subject: `Morlock.Model.Position` (`xor`, `square`, `newPosition`, `move`), the transcription of
`pkg/board/position.go`. `Rep p b` (`Morlock/Proofs/Rep.lean`) says that *all* redundant views of
`p` — occupancy, per-colour sets, per-piece sets, the three rotated occupancies — are exactly what
the mailbox board `b : Nat → Option (Color × Piece)` dictates, with no bits ≥ 64 anywhere.
`MetaOK p m` (`Morlock/Proofs/RepMove.lean`, a `Bool`) says the metadata carried by `m` is accurate.

`move_untouched`: the model is a pure function, `p.move m` cannot modify `p`; there is nothing to
prove (in Go the receiver is a pointer but `Move` starts from a copy `*p`; that is checked by the
differential harness, not here).

Everything here is proved for *all* positions and moves; no enumeration is involved.
-/
namespace Morlock.Props.C02
open Morlock Morlock.Model Morlock.Proofs

/-! ## 1. The views invariant -/

/-- Under `Rep`, `Position.Square` reads back the mailbox board (all `sq`, also `sq ≥ 64`). -/
theorem square_of_rep {p : Position} {b : Board} (h : Rep p b) (sq : Nat) : p.square sq = b sq :=
  h.square_eq sq

/-- Under `Rep`, `IsEmpty` is emptiness of the mailbox square. -/
theorem isEmpty_of_rep {p : Position} {b : Board} (h : Rep p b) (sq : Nat) :
    p.isEmpty sq = (b sq).isNone := h.isEmpty_eq sq

/-- Under `Rep`, membership in the piece set `pieces[c][k]` (`k ≠ NoPiece`) is "the square holds `(c, k)`". -/
theorem pieces_of_rep {p : Position} {b : Board} (h : Rep p b) (c : Color) {k : Piece} (hk : k ≠ .none)
    (sq : Nat) : isSet (p.pieces c k) sq = decide (b sq = some (c, k)) := h.isSet_pieces c hk sq

/-- Under `Rep`, membership in the colour set `pieces[c][NoPiece]` is "the square holds a `c` piece". -/
theorem colour_of_rep {p : Position} {b : Board} (h : Rep p b) (c : Color) (sq : Nat) :
    isSet (p.pieces c .none) sq = colAt b sq c := h.isSet_all c sq

/-- A position represents at most one board. -/
theorem rep_unique {p : Position} {b b' : Board} (h : Rep p b) (h' : Rep p b') : b = b' := h.unique h'

/-- `Rep` pins down every stored view: positions representing the same board have identical piece
    sets and rotated occupancies. -/
theorem rep_determines_views {p q : Position} {b : Board} (hp : Rep p b) (hq : Rep q b) :
    p.white = q.white ∧ p.black = q.black ∧ p.rotated = q.rotated := hp.views_eq hq

/-- `xor` of a real piece on an empty real square places it, in every view. -/
theorem xor_places {p : Position} {b : Board} (h : Rep p b) {sq : Nat} (hsq : sq < 64) (c : Color)
    {k : Piece} (hk : k ≠ .none) (hempty : b sq = none) :
    Rep (p.xor sq c k) (upd b sq (some (c, k))) := h.xor_place hsq c hk hempty

/-- `xor` of `(c, k)` on a square holding exactly `(c, k)` removes it, in every view. -/
theorem xor_removes {p : Position} {b : Board} (h : Rep p b) {sq : Nat} {c : Color} {k : Piece}
    (hfull : b sq = some (c, k)) : Rep (p.xor sq c k) (upd b sq none) := h.xor_remove hfull

/-- `NewPosition` of a list of real pieces on real squares, when it succeeds, represents the board
    holding exactly the listed pieces, and stores the given status fields. -/
theorem newPosition_rep {pl : List (Nat × Color × Piece)} {castling ep : Nat} {p : Position}
    (hv : ValidPlacements pl) (hp : Position.newPosition pl castling ep = some p) :
    Rep p (placeAll emptyBoard pl) ∧ p.castling = castling ∧ p.enpassant = ep :=
  Proofs.newPosition_rep hv hp

/-- `NewPosition` succeeds exactly on duplicate-free lists. -/
theorem newPosition_succeeds_iff {pl : List (Nat × Color × Piece)} (castling ep : Nat)
    (hv : ValidPlacements pl) :
    (Position.newPosition pl castling ep).isSome ↔ (pl.map (·.1)).Nodup :=
  newPosition_isSome_iff castling ep hv

/-- For a duplicate-free list the represented board is the obvious one. -/
theorem placeAll_lookup {pl : List (Nat × Color × Piece)} (hnd : (pl.map (·.1)).Nodup) :
    (∀ sq c k, (sq, c, k) ∈ pl → placeAll emptyBoard pl sq = some (c, k)) ∧
    (∀ sq, sq ∉ pl.map (·.1) → placeAll emptyBoard pl sq = none) :=
  ⟨fun _ _ _ hm => placeAll_mem hnd hm, fun _ hn => placeAll_not_mem hn⟩

/-! ## 2. `move` -/

/-- **C02 `move_refines`.** If every view of `p` agrees with `b`, the metadata of `m` is accurate
    and `Position.Move` accepts `m`, then every view of the result agrees with the board the
    rules prescribe (`boardAfter b m`, described square by square in `board_prescribed`), the
    castling rights are the old ones minus `CastlingRightsLost`, and the en-passant target is
    `EnPassantTarget`. -/
theorem move_refines {p p' : Position} {b : Board} {m : Move} (h : Rep p b)
    (hok : MetaOK p m = true) (hm : p.move m = some p') :
    Rep p' (boardAfter b m) ∧
      p'.castling = andNot p.castling m.castlingRightsLost ∧
      p'.enpassant = m.enPassantTarget :=
  move_rep h hok hm

/-- What `boardAfter` is: origin emptied, destination holds the moved or promoted piece,
    en-passant victim removed, castling rook hopped, every other square unchanged. -/
theorem board_prescribed {b : Board} {m : Move} {turn : Color} {pc : Piece}
    (hok : MetaOKb b m = true) (hsq : b m.from = some (turn, pc)) :
    boardAfter b m m.from = none ∧
    boardAfter b m m.to = some (turn, if m.isPromotion then m.promotion else pc) ∧
    (m.ty = .enPassant → boardAfter b m m.enPassantCapture = none) ∧
    (m.isCastle = true → boardAfter b m m.castlingRookMove.1 = none ∧
      boardAfter b m m.castlingRookMove.2 = some (turn, Piece.rook)) ∧
    (∀ sq, sq ≠ m.from → sq ≠ m.to → (m.ty = .enPassant → sq ≠ m.enPassantCapture) →
      (m.isCastle = true → sq ≠ m.castlingRookMove.1 ∧ sq ≠ m.castlingRookMove.2) →
      boardAfter b m sq = b sq) :=
  boardAfter_spec hok hsq

/-- Castling rights after a move: each right survives iff it was there and the move touches
    neither of its two home squares (for the king's square: *leaves* it). Bits other than the four
    rights are unchanged. -/
theorem castling_rights_after {p p' : Position} {b : Board} {m : Move} (h : Rep p b)
    (hok : MetaOK p m = true) (hm : p.move m = some p') :
    ((p'.castling &&& wK != 0) = ((p.castling &&& wK != 0) && !decide (m.from = E1) && !touches m H1)) ∧
    ((p'.castling &&& wQ != 0) = ((p.castling &&& wQ != 0) && !decide (m.from = E1) && !touches m A1)) ∧
    ((p'.castling &&& bK != 0) = ((p.castling &&& bK != 0) && !decide (m.from = E8) && !touches m H8)) ∧
    ((p'.castling &&& bQ != 0) = ((p.castling &&& bQ != 0) && !decide (m.from = E8) && !touches m A8)) ∧
    (∀ i, 4 ≤ i → p'.castling.testBit i = p.castling.testBit i) := by
  obtain ⟨_, hc, _⟩ := move_rep h hok hm
  rw [hc]
  exact ⟨right_wK _ _, right_wQ _ _, right_bK _ _, right_bQ _ _, fun i hi => right_other _ _ i hi⟩

/-- En-passant target after a move: none (0) unless the move is a double step; for a double step
    with the geometry of one (two ranks straight ahead onto rank 4 resp. 5) it is the skipped square. -/
theorem enpassant_after {p p' : Position} {b : Board} {m : Move} (h : Rep p b)
    (hok : MetaOK p m = true) (hm : p.move m = some p') :
    (m.ty ≠ .jump → p'.enpassant = 0) ∧
    (m.ty = .jump → m.to < 64 →
      ((m.to = m.from + 16 ∧ sqRank m.to = 3) ∨ (m.from = m.to + 16 ∧ sqRank m.to = 4)) →
      p'.enpassant = (m.from + m.to) / 2 ∧ p'.enpassant ≠ 0) := by
  obtain ⟨_, _, he⟩ := move_rep h hok hm
  rw [he]
  refine ⟨fun hj => ?_, fun hj hto hg => ?_⟩
  · unfold Move.enPassantTarget; simp [hj]
  · have := enPassantTarget_skipped m hj hto hg
    refine ⟨this, ?_⟩
    rw [this]; simp only [sqRank_eq] at hg; omega

/-- **Link to the reference.** If in addition the type recorded in `m` is the class the rules
    assign (`ClassOK`) and nothing lands on a king's home square while that side still has a
    right (`LandOK`, implied by `KingHome` + "no king capture", see `landOK_of_kingHome`), then the
    mailbox abstraction of the result is exactly `Spec.apply` of the abstraction of `p`. `turn` is
    the colour of the moving piece. -/
theorem move_refines_spec {p p' : Position} {b : Board} {m : Move} {turn : Color} {pc : Piece}
    (h : Rep p b) (hok : MetaOK p m = true) (hsq : p.square m.from = some (turn, pc))
    (hcl : ClassOK (abs p turn) m = true) (hland : LandOK (abs p turn) m = true)
    (hm : p.move m = some p') :
    abs p' turn.opp = Spec.apply (abs p turn) (absMove m) :=
  abs_move h hok hsq hcl hland hm

/-- `LandOK` follows from the invariant `KingHome` when no king is captured. -/
theorem landOK_of_kingHome {p : Position} {b : Board} {m : Move} (h : Rep p b)
    (hok : MetaOK p m = true) (hkh : KingHome p = true) (hcap : m.capture ≠ .king) (turn : Color) :
    LandOK (abs p turn) m = true := Proofs.landOK_of_kingHome h hok hkh hcap turn

/-- `KingHome` is preserved by moves that do not capture a king. -/
theorem kingHome_preserved {p p' : Position} {b : Board} {m : Move} (h : Rep p b)
    (hok : MetaOK p m = true) (hkh : KingHome p = true) (hcap : m.capture ≠ .king)
    (hm : p.move m = some p') : KingHome p' = true := kingHome_move h hok hkh hcap hm

/-! ## 3. Sequences -/

/-- **`reachable_rep`.** After any sequence of accepted moves with accurate metadata, starting from
    a position whose views agree with some board, every position reached has all its views in
    agreement with a board — namely the one `Square` reads back. An error in a redundant view
    cannot appear, hence cannot surface later. -/
theorem reachable_rep {p q : Position} {b : Board} (h : Rep p b) (hr : Reach p q) :
    ∃ b', Rep q b' ∧ b' = q.square :=
  ⟨q.square, reach_rep h hr, rfl⟩

/-- The same for an explicit move list (`playAll` checks `MetaOK` and plays `move`, so every prefix
    of the list yields a `Reach`-able position). -/
theorem playAll_rep {p q : Position} {b : Board} {ms : List Move} (h : Rep p b)
    (hp : playAll p ms = some q) : Rep q q.square :=
  reach_rep h (playAll_reach hp)

/-- **Sequences refine the reference.** Playing a list of moves with alternating colours on the
    bitboard position — each with accurate metadata, correctly classified, not capturing a king,
    moved by the side to move (`StepOK`) — and abstracting, is the same as abstracting and playing
    the list on the reference; `Rep` and `KingHome` hold at the end (hence, by taking prefixes,
    throughout). -/
theorem play_refines {p q : Position} {b : Board} {turn t : Color} {ms : List Move}
    (h : Rep p b) (hk : KingHome p = true) (hp : playS p turn ms = some (q, t)) :
    Rep q q.square ∧ KingHome q = true ∧
      abs q t = ms.foldl (fun s m => Spec.apply s (absMove m)) (abs p turn) :=
  play_refines_aux ms p turn b q t h hk hp

/-! ## 4. The hypotheses are satisfiable -/

/-- `exPos` = `r3k2r/1P6/8/3pP3/8/8/8/R3K2R w KQkq d6` is built by `NewPosition`, so it satisfies `Rep`. -/
example : Rep exPos (placeAll emptyBoard exPl) ∧ KingHome exPos = true :=
  ⟨exPos_rep, by decide +kernel⟩

/-- Every one of White's 36 pseudo-legal moves in `exPos` (castling both sides, en passant,
    promotions, capture-promotions, captures on rook home squares) satisfies `StepOK`, i.e. all the
    hypotheses of `move_refines` and `move_refines_spec`, and `move` accepts all of them. -/
example :
    (exPos.pseudoLegalMoves .white).length = 36 ∧
    (exPos.pseudoLegalMoves .white).all (fun m => StepOK exPos .white m && (exPos.move m).isSome) = true := by
  decide +kernel

/-- The same for Black in the colour-mirrored position `r3k2r/8/8/8/3Pp3/8/1p6/R3K2R b KQkq d3`
    (36 moves), and for both sides in "Kiwipete"
    `r3k2r/p1ppqpb1/bn2pnp1/3PN3/1p2P3/2N2Q1p/PPPBBPPP/R3K2R` (48 and 43 pseudo-legal moves). -/
example :
    Rep exPosB exPosB.square ∧ KingHome exPosB = true ∧
    (exPosB.pseudoLegalMoves .black).all (StepOK exPosB .black) = true ∧
    Rep kiwiPos kiwiPos.square ∧ KingHome kiwiPos = true ∧
    (kiwiPos.pseudoLegalMoves .white).all (StepOK kiwiPos .white) = true ∧
    (kiwiPos.pseudoLegalMoves .black).all (StepOK kiwiPos .black) = true :=
  ⟨exPosB_rep, by decide +kernel, by decide +kernel, kiwiPos_rep, by decide +kernel,
   by decide +kernel, by decide +kernel⟩

/-- Instantiating `move_refines` on the en-passant capture e5xd6. -/
example : ∃ p', exPos.move exEP = some p' ∧ Rep p' (boardAfter (placeAll emptyBoard exPl) exEP) ∧
    p'.square 36 = none ∧ p'.square 44 = some (.white, .pawn) ∧ p'.enpassant = 0 := by
  have hm : (exPos.move exEP).isSome = true := by decide +kernel
  obtain ⟨p', hp'⟩ := Option.isSome_iff_exists.mp hm
  have hok : MetaOK exPos exEP = true := by decide +kernel
  obtain ⟨h1, _, h3⟩ := move_refines exPos_rep hok hp'
  have hb := board_prescribed (b := placeAll emptyBoard exPl) (m := exEP) (turn := .white) (pc := .pawn)
    (by rw [← exPos_rep.metaOK_iff]; exact hok) (by rw [← exPos_rep.square_eq]; decide +kernel)
  refine ⟨p', hp', h1, ?_, ?_, ?_⟩
  · rw [h1.square_eq]; exact hb.2.2.1 rfl
  · rw [h1.square_eq]; exact hb.2.1
  · rw [h3]; rfl

/-- A three-ply line satisfies the hypotheses of `play_refines`, so it refines the reference. -/
example : ∃ q t, playS exPos .white exLine = some (q, t) ∧
    abs q t = exLine.foldl (fun s m => Spec.apply s (absMove m)) (abs exPos .white) := by
  have hs : (playS exPos .white exLine).isSome = true := by decide +kernel
  obtain ⟨⟨q, t⟩, hq⟩ := Option.isSome_iff_exists.mp hs
  exact ⟨q, t, hq, (play_refines exPos_rep (by decide +kernel) hq).2.2⟩

end Morlock.Props.C02
