import Morlock.Model.Bernstein
import Morlock.Model.Sargon
import Morlock.Gen.Engines
/-!
# Tie between the models of the historical engines and the constants regenerated from their Go source

`Morlock.Gen.Engines` is rewritten from `/repo` on every check (`harness/cmd/extract/engines.go`): every numeric literal,
switch table and ranged-over piece list of `cmd/bernstein/bernstein`, `cmd/sargon/sargon`, `pkg/eval/capture.go` and
`search.MVVLVA` that the models copy. The extractor fails when a statement holding one of them changes shape or when one of
the functions acquires a numeric literal it does not know; the theorems below fail when a *value* changes.

Form of the theorems: the model function, on its whole domain, equals the same function written with the generated
constants in the place of the literals (`rfl`: the two sides differ only by unfolding `Gen.*`). No model is edited for this.
Pieces, move types and colours are compared through their codes (`Piece.ofCode`, `MoveType.code`, `Color.code`), which
`Props/GenTie.lean` ties to the `iota` declarations.
-/
namespace Morlock.Props.GenTieEngines
open Morlock Morlock.Model
open Morlock.Model.Flt (Q f32 rnd)

/-- colour of a `board.Color` value -/
def colorOfCode : Nat → Color
  | 0 => .white
  | _ => .black

theorem colorOfCode_code : ∀ c : Color, colorOfCode c.code = c := by intro c; cases c <;> rfl

/-- pieces named by their codes -/
abbrev pcs (l : List Nat) : List Piece := l.map Piece.ofCode

/-! ## pkg/board, pkg/eval, pkg/search -/

/-- `board.PromotionRank`. -/
theorem promotionRank_tie : ∀ c : Color,
    Bernstein.promotionRank c = if c.code = Color.white.code then Gen.promotionRankWhite else Gen.promotionRankBlack := by
  intro c; cases c <;> rfl

/-- `eval.FindCapture` ranges over the list the model ranges over … -/
theorem findCapture_officers_tie : kqrnbPieces = pcs Gen.evalFindCaptureOfficers := by decide

/-- … and then takes the pawns. -/
theorem findCapture_tie (p : Position) (side : Color) (sq : Nat) :
    findCapture p side sq =
      ((pcs Gen.evalFindCaptureOfficers).flatMap fun piece =>
        let bb := ((attackboard p.rotated sq piece).getD 0) &&& p.pieces side piece
        (toSquares bb).map fun «from» => { piece := piece, color := side, square := «from» }) ++
      (let bb := pawnCaptureboard side.opp (bitMask sq) &&& p.pieces side (Piece.ofCode Gen.evalFindCapturePawnMask)
       (toSquares bb).map fun «from» => { piece := Piece.ofCode Gen.evalFindCapturePawnPlaced, color := side, square := «from» }) := rfl

/-- `search.MVVLVA`. -/
theorem mvvlva_tie (m : Move) :
    mvvlva m = (let p := Gen.mvvlvaScale * nominalValueGain m
                if p > Gen.mvvlvaAbove then p - nominalValue m.piece else Gen.mvvlvaNone) := rfl

/-! ## cmd/bernstein/bernstein/eval.go -/

namespace Bernstein
open Morlock.Model.Bernstein

/-- `MaterialValue`: the whole switch. -/
theorem materialValue_tie : ∀ k : Piece,
    materialValue k = (Gen.bernsteinMaterialValue.lookup k.code).getD Gen.bernsteinMaterialValueDefault := by
  intro k; cases k <;> rfl

/-- no piece is listed in two `case`s (Go would reject it; a duplicate would be shadowed in the lookup above). -/
theorem materialValue_keys_nodup : (Gen.bernsteinMaterialValue.map (·.1)).Nodup := by decide

/-- `Material`: the pieces summed, in the order of the source. -/
theorem material_tie (p : Position) (side : Color) :
    material p side =
      (pcs Gen.bernsteinMaterialPieces).foldl (fun ret k => ret + materialValue k * (popCount (p.pieces side k) : Int)) 0 := by
  simp [material, pcs, Gen.bernsteinMaterialPieces, Piece.ofCode]

/-- `Evaluate`: the floor of `mathx.Max`. -/
theorem evaluate_tie (p : Position) (factor : Int) (side : Color) :
    evaluate p factor side =
      match kingDefense p side with
      | none => none
      | some defense =>
        some (max Gen.bernsteinEvaluateFloor (mobility p side + control p side + defense + factor * material p side)) := rfl

/-- `Eval.Evaluate`: the value for equal scores and the two scale factors. -/
theorem evalEvaluate_tie (p : Position) (factor : Int) (turn : Color) :
    evalEvaluate p factor turn =
      match evaluate p factor turn with
      | none => none
      | some self =>
        match evaluate p factor turn.opp with
        | none => none
        | some opp =>
          if self = opp then some ⟨Gen.bernsteinRatioEqual, 1⟩
          else if self > opp then
            (rnd f32 (Q.ofInt self)).bind fun a =>
            (Flt.mul f32 a (Q.ofInt Gen.bernsteinRatioScaleAhead)).bind fun m =>
            (rnd f32 (Q.ofInt opp)).bind fun b =>
            Flt.div f32 m b
          else
            (rnd f32 (Q.ofInt opp)).bind fun a =>
            (Flt.mul f32 a.neg (Q.ofInt Gen.bernsteinRatioScaleBehind)).bind fun m =>
            (rnd f32 (Q.ofInt self)).bind fun b =>
            Flt.div f32 m b := rfl

/-- `Control`: the squares looped over. -/
theorem controlSquares_tie (p : Position) (side : Color) :
    controlSquares p side =
      ((List.range Gen.bernsteinControlTo).drop Gen.bernsteinControlFrom).filter
        fun sq => p.isDefended side sq && !p.isAttacked side sq := rfl

/-- `KingDefense`: the list handed to `IsDefendedBy` for an empty square. -/
theorem kingDefense_defenders_tie : qrnbpPieces = pcs Gen.bernsteinKingDefenseDefenders := by decide

/-- the shipped `-material` default lies in the range `eval_total` / `evaluate_exact_range` (`Props/C20Bernstein`) cover. -/
theorem default_factor_in_proved_range : 0 ≤ Gen.bernsteinDefaultMaterial ∧ Gen.bernsteinDefaultMaterial ≤ 10000 := by decide

/-! ## cmd/bernstein/bernstein/search.go -/

/-- `truncate`. -/
theorem truncate_tie {α : Type} (list : List α) (limit : Int) :
    truncate list limit =
      if limit > Gen.bernsteinTruncateAbove && (list.length : Int) > limit then list.take limit.toNat else list := rfl

/-- the priorities of the check-evasion sort. -/
theorem checkPrio_tie (m : Move) :
    checkPrio m =
      if m.isCaptureOrEnPassant then Gen.bernsteinCheckPrioCapture
      else if m.piece = Piece.ofCode Gen.bernsteinCheckPrioKingPiece then Gen.bernsteinCheckPrioKing
      else Gen.bernsteinCheckPrioOther := rfl

/-- the `gain` closure: its three groups of move types. -/
theorem gain_tie (p : Position) (side : Color) (m : Move) :
    gain p side m =
      if Gen.bernsteinGainAlways.contains m.ty.code then true
      else if m.ty.code = Gen.bernsteinGainCapture then
        decide (materialValue m.capture > materialValue m.piece) || isMoveSafe p side m
      else if m.ty.code = Gen.bernsteinGainEnPassant then !p.isAttacked side m.to
      else false := by
  obtain ⟨ty, fr, to, piece, promotion, capture⟩ := m
  cases ty <;> rfl

/-- the `exchange` closure. -/
theorem exchange_tie (m : Move) :
    exchange m =
      (decide (m.ty.code = Gen.bernsteinExchangeType) && decide (materialValue m.capture = materialValue m.piece)) := by
  obtain ⟨ty, fr, to, piece, promotion, capture⟩ := m
  cases ty <;> rfl

/-- the first ranking loop: 23, 22, 21, 20. -/
theorem rank23_tie (p : Position) (side : Color) (moves : List Move) :
    rank23 p side moves =
      moves.foldl (fun (acc : RankMap × Bool) m =>
        if gain p side m then (acc.1.set m Gen.bernsteinRankGain, acc.2)
        else if loss p side m then (acc.1.set m Gen.bernsteinRankLoss, acc.2)
        else if exchange m then (acc.1.set m Gen.bernsteinRankExchange, acc.2)
        else if m.isCastle then (acc.1.set m Gen.bernsteinRankCastle, true)
        else acc) ([], false) := rfl

/-- the `develop` closure. -/
theorem develop_tie (side : Color) (m : Move) :
    develop side m =
      if (pcs Gen.bernsteinDevelopPieces).contains m.piece then sqRank m.from == promotionRank side.opp else false := by
  obtain ⟨ty, fr, to, piece, promotion, capture⟩ := m
  cases piece <;> rfl

/-- the `chains` closure. -/
theorem chains_tie (key : Bitboard) (m : Move) :
    chains key m = if m.piece ≠ Piece.ofCode Gen.bernsteinChainsExcluded then isSet key m.to else false := rfl

/-- the `files` closure. -/
theorem files_tie (pawns : Bitboard) (m : Move) :
    files pawns m =
      if (pcs Gen.bernsteinFilesPieces).contains m.piece then
        let «from» := (bitFile (sqFile m.from) &&& pawns) == 0
        let to := (bitFile (sqFile m.to) &&& pawns) == 0
        !«from» && to
      else false := by
  obtain ⟨ty, fr, to, piece, promotion, capture⟩ := m
  cases piece <;> rfl

/-- the second ranking loop: 13, 12, 11, 10, 1. -/
theorem rank48_tie (p : Position) (side : Color) (pawns key : Bitboard) (moves : List Move) (r : RankMap) :
    rank48 p side pawns key moves r =
      moves.foldl (fun (r : RankMap) m =>
        if r.has m then r
        else if !isMoveSafe p side m then r
        else if develop side m then r.set m Gen.bernsteinRankDevelop
        else if chains key m then r.set m Gen.bernsteinRankChains
        else if files pawns m then r.set m Gen.bernsteinRankFiles
        else if m.piece = Piece.ofCode Gen.bernsteinRankPawnPiece then r.set m Gen.bernsteinRankPawn
        else r.set m Gen.bernsteinRankOther) r := rfl

/-- `FindPlausibleMoves`: the survival threshold of the castling branch and the piece behind `pawns`. -/
theorem findPlausibleMoves_tie (p : Position) (side : Color) :
    findPlausibleMoves p side =
      (let moves := baseMoves p side
       if p.isChecked side then sortByPriority moves checkPrio
       else
         let (rank, castle) := rank23 p side moves
         if castle then
           let moves := findMoves moves (fun m => decide (rank.get m > Gen.bernsteinRankKeepAbove))
           sortByPriority moves rank.get
         else
           let pawns := p.pieces side (Piece.ofCode Gen.bernsteinPawnsPiece)
           let key := keySquares side pawns
           let rank := rank48 p side pawns key moves rank
           sortByPriority moves rank.get) := rfl

/-- `TA1`. -/
theorem ta1_tie (side : Color) (m : Move) :
    ta1 side m =
      if side.code = Gen.bernsteinTA1Side then (sqRank m.to : Int) * Gen.bernsteinTA1Mul + (sqFile m.to : Int)
      else (Gen.bernsteinTA1OppRankFrom - (sqRank m.to : Int)) * Gen.bernsteinTA1OppMul +
           (Gen.bernsteinTA1OppFileFrom - (sqFile m.to : Int)) := by
  cases side <;> rfl

/-- `Table1` as a function of the piece and the file of the origin square. -/
theorem table1_tie (m : Move) :
    table1 m =
      if m.piece = Piece.ofCode Gen.bernsteinTable1Piece then
        (Gen.bernsteinTable1Files.lookup (sqFile m.from)).getD Gen.bernsteinTable1FileDefault
      else Gen.bernsteinTable1Default := by
  obtain ⟨ty, fr, to, piece, promotion, capture⟩ := m
  have hf : sqFile fr < 8 := by
    unfold sqFile
    exact Nat.lt_of_le_of_lt Nat.and_le_right (by decide)
  cases piece
  case pawn =>
    show table1 { ty := ty, «from» := fr, to := to, piece := .pawn, promotion := promotion, capture := capture } = _
    unfold table1
    simp only []
    generalize sqFile fr = f at hf
    match f, hf with
    | 0, _ | 1, _ | 2, _ | 3, _ | 4, _ | 5, _ | 6, _ | 7, _ => rfl
  all_goals rfl

/-- no file is listed in two `case`s. -/
theorem table1_keys_nodup : (Gen.bernsteinTable1Files.map (·.1)).Nodup := by decide

end Bernstein

/-! ## cmd/sargon/sargon -/

namespace Sargon
open Morlock.Model.Sargon

/-- `FindKingQueenPins`: the colours and the pieces looped over. -/
theorem findKingQueenPins_tie (pos : Position) :
    findKingQueenPins pos =
      (let pins : List Pin :=
        (((List.range Gen.sargonPinSidesTo).drop Gen.sargonPinSidesFrom).map colorOfCode).flatMap fun side =>
          (pcs Gen.sargonPinTargets).flatMap fun piece => findPins pos side piece
       pins.filterMap fun pin =>
        let att := pieceAt pos pin.attacker
        let dfn := pieceAt pos pin.target
        if att = dfn then none else some (pin.pinned, pin.attacker)) := rfl

/-- the "attacker is pinned" test. -/
theorem isPinnedFor_tie (pins : Pins) («from» target : Nat) :
    isPinnedFor pins «from» target =
      (let list := pinsGet pins «from»
       decide (list.length > Gen.sargonPinnedAbove) || (list.length == Gen.sargonPinnedExactly && list.head? != some target)) := rfl

/-- one level of `addAttackerStack`: the piece nobody stands behind, the pieces that can stand behind on a line / a diagonal. -/
theorem addAttackerStack_tie (pos : Position) (pins : Pins) (side : Color) (target fuel : Nat) (r : Rotated) (piece : Piece)
    («from» : Nat) :
    addAttackerStack pos pins side target (fuel + 1) r piece «from» =
      (if isPinnedFor pins «from» target then .ok none else
       let me : Model.Sargon.Placement := { piece := piece, color := side, square := «from» }
       if piece = Piece.ofCode Gen.sargonStackFront then .ok (some { front := me }) else
       let next := r.xor «from»
       let bb : Bitboard :=
         if isSameRankOrFile «from» target then
           andNot (rookAttackboard next target) (rookAttackboard r target) &&&
             (pos.pieces side (Piece.ofCode (Gen.sargonStackLine.getD 0 0)) ||| pos.pieces side (Piece.ofCode (Gen.sargonStackLine.getD 1 0)))
         else if isSameDiagonal «from» target then
           andNot (bishopAttackboard next target) (bishopAttackboard r target) &&&
             (pos.pieces side (Piece.ofCode (Gen.sargonStackDiagonal.getD 0 0)) |||
              pos.pieces side (Piece.ofCode (Gen.sargonStackDiagonal.getD 1 0)))
         else 0
       if bb != 0 then
         let from' := lastPopSquare bb
         let piece' := pieceAt pos from'
         match addAttackerStack pos pins side target fuel next piece' from' with
         | .error e => .error e
         | .ok none => .ok (some { front := me })
         | .ok (some b) => .ok (some { front := me, behind := b.front :: b.behind })
       else .ok (some { front := me })) := rfl

/-- `FindAttackers` ranges over the list the model ranges over … -/
theorem findAttackers_officers_tie : kqrnb = pcs Gen.sargonAttackerOfficers := by decide

/-- … and then takes the pawns. -/
theorem findAttackers_tie (pos : Position) (pins : Pins) (sq : Nat) (side : Color) :
    findAttackers pos pins sq side =
      (let officers := mapE (fun piece =>
          match attackboard pos.rotated sq piece with
          | none => .error .attackboard
          | some ab => stacksOn pos pins side piece sq (ab &&& pos.pieces side piece)) (pcs Gen.sargonAttackerOfficers)
       match officers with
       | .error e => .error e
       | .ok ls =>
         match stacksOn pos pins side (Piece.ofCode Gen.sargonAttackerPawnPlaced) sq
             (pawnCaptureboard side.opp (bitMask sq) &&& pos.pieces side (Piece.ofCode Gen.sargonAttackerPawnMask)) with
         | .error e => .error e
         | .ok ps => .ok (ls.flatten ++ ps)) := rfl

/-- `Exchange`: the piece without exchange value and the value returned for it. -/
theorem exchangeW_tie (srt : List Attacker → List Attacker) (pos : Position) (pins : Pins) (side : Color) (sq : Nat) :
    exchangeW srt pos pins side sq =
      match pos.square sq with
      | none => .ok Gen.sargonExchangeNone
      | some (cur, piece) =>
        if piece = Piece.ofCode Gen.sargonExchangeExempt then .ok Gen.sargonExchangeNone else
        match findAttackers pos pins sq cur with
        | .error e => .error e
        | .ok da =>
        match findSideW srt da cur with
        | .error e => .error e
        | .ok defenders =>
        match findAttackers pos pins sq cur.opp with
        | .error e => .error e
        | .ok aa =>
        match findSideW srt aa cur.opp with
        | .error e => .error e
        | .ok attackers =>
        match exchangeLoop (attackers.length + defenders.length) attackers defenders 0 (nominalValue piece) cur with
        | .error e => .error e
        | .ok (residue, cur') => .ok (if cur' = side then -residue else residue) := rfl

/-- `b.HasMoved(1000)`. -/
theorem bview_tie (w : World) (b : Nat) :
    BView.ofWorld w b =
      (let bd := w.board b
       { pos := (w.cur b).pos, turn := bd.turn, last := w.lastMove b, moved := w.hasMoved b Gen.sargonHasMovedDepth,
         fullMoves := bd.moves, castledW := bd.castledW, castledB := bd.castledB }) := rfl

/-- `Material`: the adjustments of loss and win. The model carries `2·mtrl` (`Q.halves`): that is the divisor of `win`. -/
theorem materialW_tie (srt : List Attacker → List Attacker) (v : BView) (pins : Pins) :
    Gen.sargonWinDiv = 2 ∧
    materialW srt v pins =
      (let mtrl := materialPawns v.pos v.turn
       match materialLoop srt v pins (toSquares v.pos.all) {} with
       | .error e => .error e
       | .ok s =>
         let ptsw2 := if s.ptschk then Gen.sargonPtsw2Reset else s.ptsw2
         let loss := if s.ptsl < Gen.sargonLossBelow then Gen.sargonLossMul * s.ptsl + Gen.sargonLossAdd else s.ptsl
         -- `d · ((a·ptsw2 - b) / d)` with `d = Gen.sargonWinDiv`
         let win2 := if ptsw2 > Gen.sargonWinAbove then Gen.sargonWinMul * ptsw2 - Gen.sargonWinSub else Gen.sargonWinDiv * ptsw2
         .ok (Gen.sargonWinDiv * mtrl - (Gen.sargonWinDiv * loss + win2), s.ptschk)) := ⟨rfl, rfl⟩

/-- `Mobility`: the squares looped over. -/
theorem mobility_tie (v : BView) (pins : Pins) :
    mobility v pins = mobilityLoop v pins ((List.range Gen.sargonMobilityTo).drop Gen.sargonMobilityFrom) 0 := rfl

/-- `king`. -/
theorem kingDev_tie (castled moved : Bool) :
    kingDev castled moved = if castled then Gen.sargonKingCastled else if moved then Gen.sargonKingMoved else Gen.sargonKingOther := rfl

/-- `Development`: the factors, the pieces they apply to, `MOVENO`. -/
theorem development_tie (v : BView) :
    development v =
      (let pos := v.pos
       let own := v.turn
       let opp := own.opp
       let mask := v.moved
       let pc (c : Color) (k : Piece) (unmoved : Bool) : Int :=
         (popCount (if unmoved then andNot (pos.pieces c k) mask else pos.pieces c k &&& mask) : Int)
       let um (i : Nat) : Piece × Int := ((Gen.sargonDevUnmoved.map fun e => (Piece.ofCode e.1, e.2)).getD i (.none, 0))
       let mv (i : Nat) : Piece × Int := ((Gen.sargonDevMoved.map fun e => (Piece.ofCode e.1, e.2)).getD i (.none, 0))
       let pawns : Int := -(um 0).2 * (pc own (um 0).1 true - pc opp (um 0).1 true)
       let pawns := pawns - (um 1).2 * (pc own (um 1).1 true - pc opp (um 1).1 true)
       let pawns :=
         if v.fullMoves < Gen.sargonDevMoveNo then
           let pawns := pawns - (mv 0).2 * (pc own (mv 0).1 false - pc opp (mv 0).1 false)
           pawns - (mv 1).2 * (pc own (mv 1).1 false - pc opp (mv 1).1 false)
         else pawns
       let pawns := pawns + kingDev (v.hasCastled own) ((pos.pieces own (Piece.ofCode (Gen.sargonDevKingPiece.getD 0 0)) &&& mask) != 0)
       pawns - kingDev (v.hasCastled opp) ((pos.pieces opp (Piece.ofCode (Gen.sargonDevKingPiece.getD 1 0)) &&& mask) != 0)) := rfl

/-- `Points.Evaluate`: `mtrl*4`, `Limit(.., 6)`, `brdc/100`. The model computes `mtrl*4` and `brdc/100` once for both
    `return`s: the literals of the two agree. -/
theorem evaluatePartsW_tie (srt : List Attacker → List Attacker) (p : Points) (v : BView) :
    Gen.sargonChkMtrlScale = Gen.sargonMtrlScale ∧ Gen.sargonChkBrdcDiv = Gen.sargonBrdcDiv ∧
    evaluatePartsW srt p v =
      (let pins := findKingQueenPins v.pos
       match boardControl v pins with
       | .error e => .error e
       | .ok brdc =>
       match materialW srt v pins with
       | .error e => .error e
       | .ok (mtrl2, ptschk) =>
       let mtrl : Q := Q.halves mtrl2
       match ofOpt (Flt.mul f32 mtrl (Q.ofInt Gen.sargonMtrlScale)) with
       | .error e => .error e
       | .ok m4 =>
       match ofOpt (Flt.div f32 (Q.ofInt brdc) (Q.ofInt Gen.sargonBrdcDiv)) with
       | .error e => .error e
       | .ok q =>
       if ptschk then
         match ofOpt (Flt.add f32 m4 q) with
         | .error e => .error e
         | .ok r => .ok { pins := pins, brdc := brdc, mtrl2 := mtrl2, ptschk := ptschk, points := r }
       else
         match ofOpt (Flt.add f32 m4 (Q.ofInt (limit (brdc - p.brdc0) Gen.sargonBrdcLimit))) with
         | .error e => .error e
         | .ok s =>
         match ofOpt (Flt.add f32 s q) with
         | .error e => .error e
         | .ok r => .ok { pins := pins, brdc := brdc, mtrl2 := mtrl2, ptschk := ptschk, points := r }) := ⟨rfl, rfl, rfl⟩

/-- `OnePlyIfChecked.QuietSearch`: one node for a quiet leaf, one ply when in check. -/
theorem onePlyIfChecked_tie {P : Type} (g : Game P) (p : P) (alpha beta : Score) (st : SState) :
    onePlyIfChecked g p alpha beta st =
      if !g.inCheck p then (Score.heuristicScore (g.eval p), { st with nodes := st.nodes + Gen.sargonQuietNodes })
      else
        let (res, st') := alphaBetaSearch g (constEx fullExploration) .static p Gen.sargonCheckDepth alpha beta st
        match res with
        | none => (Score.invalidScore, { st' with nodes := st.nodes })
        | some r => (r.score, { st' with nodes := st.nodes + r.nodes }) := rfl

end Sargon

end Morlock.Props.GenTieEngines
