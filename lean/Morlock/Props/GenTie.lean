import Morlock.Model.Position
import Morlock.Model.Score
import Morlock.Gen.Facts
import Morlock.Gen.Tables
/-!
# Tie between the hand-written models and facts regenerated from the Go source

`Morlock.Gen.*` is rewritten from `/repo` on every check. The models hard-wire enum orders, named
squares and castling-rights bits; these theorems fail to build when the source no longer says so.
-/
namespace Morlock.Props.GenTie
open Morlock Morlock.Model

/-- `Piece` iota order is the one `Piece.code` assumes. -/
theorem enumPiece_tie : Gen.enumPiece =
    [("NoPiece", 0), ("Pawn", 1), ("Bishop", 2), ("Knight", 3), ("Rook", 4), ("Queen", 5), ("King", 6)] := by decide

theorem enumColor_tie : Gen.enumColor = [("White", 0), ("Black", 1)] := by decide

/-- `MoveType` iota order is the one `MoveType.code` assumes. -/
theorem enumMoveType_tie : Gen.enumMoveType =
    [("Normal", 1), ("Push", 2), ("Jump", 3), ("EnPassant", 4), ("QueenSideCastle", 5), ("KingSideCastle", 6),
     ("Capture", 7), ("Promotion", 8), ("CapturePromotion", 9)] := by decide

/-- Castling-rights bits. -/
theorem enumCastling_tie : Gen.enumCastling.take 4 =
    [("WhiteKingSideCastle", wK), ("WhiteQueenSideCastle", wQ), ("BlackKingSideCastle", bK), ("BlackQueenSideCastle", bQ)] := by decide

theorem enumScoreType_tie : Gen.enumScoreType =
    [("Invalid", 0), ("Heuristic", 1), ("MateInX", 2), ("Inf", 3), ("NegInf", 4)] := by decide

theorem enumOutcome_tie : Gen.enumOutcome =
    [("Unknown", 0), ("Undecided", 1), ("WhiteWins", 2), ("BlackWins", 3), ("Draw", 4)] := by decide

theorem enumBound_tie : Gen.enumBound = [("ExactBound", 0), ("LowerBound", 1)] := by decide

/-- Square numbering: `H1 = 0 … A8 = 63`, eight per rank, h-file first. -/
theorem enumSquare_tie : Gen.enumSquare.map (·.2) = List.range 64 ∧
    Gen.enumSquare.lookup "E1" = some E1 ∧ Gen.enumSquare.lookup "A1" = some A1 ∧ Gen.enumSquare.lookup "H1" = some H1 ∧
    Gen.enumSquare.lookup "E8" = some E8 ∧ Gen.enumSquare.lookup "A8" = some A8 ∧ Gen.enumSquare.lookup "H8" = some H8 ∧
    Gen.enumSquare.lookup "G1" = some G1 ∧ Gen.enumSquare.lookup "F1" = some F1 ∧ Gen.enumSquare.lookup "D1" = some D1 ∧
    Gen.enumSquare.lookup "C1" = some C1 ∧ Gen.enumSquare.lookup "G8" = some G8 ∧ Gen.enumSquare.lookup "F8" = some F8 ∧
    Gen.enumSquare.lookup "D8" = some D8 ∧ Gen.enumSquare.lookup "C8" = some C8 := by decide

theorem enumFileRank_tie : Gen.enumFile.map (·.2) = List.range 8 ∧ Gen.enumRank.map (·.2) = List.range 8 ∧
    Gen.enumFile.lookup "FileH" = some fileH ∧ Gen.enumFile.lookup "FileA" = some fileA ∧
    Gen.enumFile.lookup "FileG" = some fileG ∧ Gen.enumFile.lookup "FileB" = some fileB := by decide

theorem counts_tie : Gen.zeroPiece = 1 ∧ Gen.numPieces = 7 ∧ Gen.numSquares = 64 ∧ Gen.numCastling = 16 ∧
    Gen.numStates = 256 := by decide

/-- The piece lists whose *order* fixes the generator order. -/
theorem lists_tie : Position.allPiecesList = [.king, .queen, .rook, .knight, .bishop, .pawn] ∧
    Position.promoPieces = [.queen, .rook, .knight, .bishop] := by decide

/-- The draw limits are the ones C05 states. -/
theorem limits_tie : Gen.repetition3Limit = 3 ∧ Gen.repetition5Limit = 5 ∧ Gen.noprogressPlyLimit = 100 := by decide

/-- The colour mask used for "two bishops on squares of one colour" selects exactly the squares
    of one of the two colour classes (`(file + rank)` even, or odd). -/
theorem whiteSquareMask_is_a_colour :
    (∀ sq, sq < 64 → (Gen.whiteSquareMask.testBit sq = ((sq % 8 + sq / 8) % 2 == 0))) ∨
    (∀ sq, sq < 64 → (Gen.whiteSquareMask.testBit sq = ((sq % 8 + sq / 8) % 2 == 1))) := by decide

/-- The castling masks are the squares between king and rook. -/
theorem castlingMasks_tie :
    Position.maskOf Gen.whiteKingSideCastlingMask = Position.maskOf [F1, G1] ∧
    Position.maskOf Gen.whiteQueenSideCastlingMask = Position.maskOf [B1, C1, D1] ∧
    Position.maskOf Gen.blackKingSideCastlingMask = Position.maskOf [F8, G8] ∧
    Position.maskOf Gen.blackQueenSideCastlingMask = Position.maskOf [B8, C8, D8] := by decide

end Morlock.Props.GenTie
