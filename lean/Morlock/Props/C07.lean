import Morlock.Proofs.ZobristFold
import Morlock.Proofs.RepExample
/-!
# C07 — the incrementally updated Zobrist hash equals the hash computed from scratch

Subject: `Morlock.Model.ZTable.hash` / `ZTable.move`, the transcription of `pkg/board/zobrist.go`.
The table `z` is an arbitrary parameter; the only assumption is `z.enpassant 0 = 0`
(`NewZobristTable` fills only ranks 3 and 6, so square 0 keeps the zero value), needed because
`Move` xors `enpassant[target]` unconditionally while `Hash` skips a zero target.

Key facts (in `Morlock/Proofs/ZobristFold.lean`): `hash` is the xor of four independent parts
(`hash_eq`); the piece part is a fold of xors over the 64 squares and a one-square update changes
it by `old ^^^ new` (`boardHash_upd`); `Position.move` changes ≤ 4 squares (`boardHash_after`).
-/
namespace Morlock.Props.C07
open Morlock Morlock.Model Morlock.Proofs

/-- **C07 `move_eq_hash`.** For every table with `enpassant 0 = 0`, every position whose views
    agree with a board, and every accepted move with accurate metadata, updating the hash of `p`
    incrementally gives exactly the from-scratch hash of the resulting position with the other
    side to move. `turn` is the colour of the moving piece. -/
theorem move_eq_hash (z : ZTable) (hz : z.enpassant 0 = 0) {p p' : Position} {b : Board} {m : Move}
    {turn : Color} {pc : Piece}
    (h : Rep p b) (hok : MetaOK p m = true) (hsq : p.square m.from = some (turn, pc))
    (hm : p.move m = some p') :
    z.move (z.hash p turn) p m = z.hash p' turn.opp :=
  zmove_eq_hash z hz h hok hsq hm

/-- The hash is the xor of four independent parts: pieces, castling rights, en-passant target, side. -/
theorem hash_parts (z : ZTable) (p : Position) (turn : Color) :
    z.hash p turn =
      boardHash z p.square 64 ^^^ z.castling p.castling ^^^ epKey z p.enpassant ^^^ z.turn turn :=
  hash_eq z p turn

/-- **`differs`, one square.** Two represented positions that differ only in the content of one
    square have hashes differing by the xor of the two cell keys (empty = 0) — hence different
    hashes whenever those keys are different. -/
theorem differs_square (z : ZTable) {p q : Position} {b : Board} {sq : Nat} {v : Option (Color × Piece)}
    (hp : Rep p b) (hq : Rep q (upd b sq v)) (hsq : sq < 64)
    (hc : p.castling = q.castling) (he : p.enpassant = q.enpassant) (t : Color) :
    z.hash p t ^^^ z.hash q t = cellKey z (b sq) sq ^^^ cellKey z v sq ∧
    (cellKey z (b sq) sq ≠ cellKey z v sq → z.hash p t ≠ z.hash q t) :=
  have h := hash_diff_square z hp hq hsq hc he t
  ⟨h, ne_of_xor_eq h⟩

/-- **`differs`, castling rights.** -/
theorem differs_castling (z : ZTable) {p q : Position} {b : Board}
    (hp : Rep p b) (hq : Rep q b) (he : p.enpassant = q.enpassant) (t : Color) :
    z.hash p t ^^^ z.hash q t = z.castling p.castling ^^^ z.castling q.castling ∧
    (z.castling p.castling ≠ z.castling q.castling → z.hash p t ≠ z.hash q t) :=
  have h := hash_diff_castling z hp hq he t
  ⟨h, ne_of_xor_eq h⟩

/-- **`differs`, en-passant target** (`epKey z e` is `z.enpassant e`, or 0 for no target). -/
theorem differs_enpassant (z : ZTable) {p q : Position} {b : Board}
    (hp : Rep p b) (hq : Rep q b) (hc : p.castling = q.castling) (t : Color) :
    z.hash p t ^^^ z.hash q t = epKey z p.enpassant ^^^ epKey z q.enpassant ∧
    (epKey z p.enpassant ≠ epKey z q.enpassant → z.hash p t ≠ z.hash q t) :=
  have h := hash_diff_enpassant z hp hq hc t
  ⟨h, ne_of_xor_eq h⟩

/-- **`differs`, side to move.** -/
theorem differs_turn (z : ZTable) (p : Position) (t t' : Color) :
    z.hash p t ^^^ z.hash p t' = z.turn t ^^^ z.turn t' ∧
    (z.turn t ≠ z.turn t' → z.hash p t ≠ z.hash p t') :=
  have h := hash_diff_turn z p t t'
  ⟨h, ne_of_xor_eq h⟩

/-! ## The hypotheses are satisfiable -/

/-- `move_eq_hash` instantiated on `r3k2r/1P6/8/3pP3/8/8/8/R3K2R w KQkq d6` with the sample table,
    for the en-passant capture, castling and a capture-promotion on a rook home square. -/
example : ∀ m ∈ [exEP, exOO, exCP], ∃ p', exPos.move m = some p' ∧
    exZ.move (exZ.hash exPos .white) exPos m = exZ.hash p' .black := by
  intro m hm
  have hall : ([exEP, exOO, exCP].all fun m =>
      MetaOK exPos m && (exPos.move m).isSome &&
        (match exPos.square m.from with | some (c, _) => c == Color.white | none => false)) = true := by
    decide +kernel
  have := List.all_eq_true.mp hall m hm
  simp only [Bool.and_eq_true] at this
  obtain ⟨⟨hok, hs⟩, hc⟩ := this
  obtain ⟨p', hp'⟩ := Option.isSome_iff_exists.mp hs
  cases hsq : exPos.square m.from with
  | none => rw [hsq] at hc; cases hc
  | some x =>
    obtain ⟨c, pc⟩ := x
    rw [hsq] at hc
    have : c = .white := by simpa using hc
    subst this
    exact ⟨p', hp', move_eq_hash exZ rfl exPos_rep hok hsq hp'⟩

/-- Independent cross-check by evaluation: for all 36 pseudo-legal moves of White in that position
    the two hashes coincide (and, by `move_eq_hash`, for every table and position). -/
example : (exPos.pseudoLegalMoves .white).all (fun m =>
    match exPos.move m with
    | some p' => exZ.move (exZ.hash exPos .white) exPos m == exZ.hash p' .black
    | none => false) = true := by
  decide +kernel

/-- The same cross-check for Black in the mirrored position `r3k2r/8/8/8/3Pp3/8/1p6/R3K2R b KQkq d3`. -/
example : (exPosB.pseudoLegalMoves .black).all (fun m =>
    match exPosB.move m with
    | some p' => exZ.move (exZ.hash exPosB .black) exPosB m == exZ.hash p' .white
    | none => false) = true := by
  decide +kernel

end Morlock.Props.C07
