import Morlock.Proofs.FltLemmas
/-!
# The floating-point model `Model/Flt.lean` is IEEE-754 round-to-nearest-even on finite values

Headline statements (proofs in `Proofs/Flt*.lean`, core Lean only).  All statements are free of a "real value"
function: rationals are compared by cross-multiplication (`Q.Le x y : x.num * y.den ≤ y.num * x.den`,
`Q.Eqv x y : x.num * y.den = y.num * x.den`; `Q.le_iff`, `Q.beq_iff` relate them to the model's `Q.le`, `Q.beq`), and
`2^e` for an integer `e` is the fraction `pn e / pd e`.  `f.WF` : `1 ≤ p ∧ emin + (p−1) ≤ emax`;
`f.IEEE` : additionally `emax = 2^(ebits−1) − 1`, `emin = 2 − p − emax`.  Both hold for `f32` and `f64`.
-/
namespace Morlock.Props.Flt
open Morlock.Model.Flt

/-! ## 1. `rndPos` returns a nearest representable number, ties to even -/

/-- If `rndPos f a b = some (m, e)` then `(m, e)` is a normalised pair of the format (`m < 2^p`, `emin ≤ e`,
`e + p − 1 ≤ emax`, `2^(p−1) ≤ m ∨ e = emin`), `|a/b − m·2^e| ≤ 2^e/2`
(`HalfUlp a b m e : 2m·(b·2^e) ≤ 2a + b·2^e ∧ 2a ≤ 2m·(b·2^e) + b·2^e`, fractions cleared), and in case of equality `m` is even. -/
theorem rndPos_spec (f : Fmt) (wf : f.WF) {a b m : Nat} {e : Int} (ha : 0 < a) (hb : 0 < b)
    (h : rndPos f a b = some (m, e)) :
    m < 2 ^ f.p ∧ f.emin ≤ e ∧ e + ((f.p : Int) - 1) ≤ f.emax ∧ (2 ^ (f.p - 1) ≤ m ∨ e = f.emin) ∧
    HalfUlp a b m e ∧ (IsTie a b m e → m % 2 = 0) :=
  Morlock.Model.Flt.rndPos_spec f wf.p_pos ha hb h

/-- 1/10 in float32: significand `0xCCCCCD`, exponent `−27`; 2^24+1 is a tie and goes to the even significand -/
example : rndPos f32 1 10 = some (13421773, -27) := by decide +kernel
example : rndPos f32 (2 ^ 24 + 1) 1 = some (2 ^ 23, 1) := by decide +kernel
example : IsTie (2 ^ 24 + 1) 1 (2 ^ 23) 1 := by unfold IsTie; decide +kernel
example : rndPos f32 (2 ^ 24 + 3) 1 = some (2 ^ 23 + 2, 1) := by decide +kernel
/-- a subnormal: 3·2^-150 is a tie between 1·2^-149 and 2·2^-149 -/
example : rndPos f32 3 (2 ^ 150) = some (2, -149) := by decide +kernel

/-- **round to nearest**: the result is at least as close to `a/b` as every number `m'·2^e'` of the format
(`m' < 2^p`, `emin ≤ e'`; `e'` is not bounded above, so the comparison includes the numbers beyond the overflow threshold).
`adiff x y = |x − y|` on naturals; the inequality is `|a/b − m·2^e| ≤ |a/b − m'·2^e'|` multiplied by `b·pd e·pd e'`. -/
theorem rndPos_nearest (f : Fmt) (wf : f.WF) {a b m : Nat} {e : Int} (ha : 0 < a) (hb : 0 < b)
    (h : rndPos f a b = some (m, e)) (m' : Nat) (e' : Int) (hm' : m' < 2 ^ f.p) (he' : f.emin ≤ e') :
    adiff (a * pd e) (m * b * pn e) * pd e' ≤ adiff (a * pd e') (m' * b * pn e') * pd e :=
  Morlock.Model.Flt.rndPos_nearest f wf.p_pos ha hb h m' e' hm' he'

/-- 1/10: the result `0xCCCCCD·2^-27` is 2 units (of `2^-27/10`) away, its float32 neighbours 8 and 12 units -/
example : adiff (1 * pd (-27)) (13421773 * 10 * pn (-27)) = 2 ∧ adiff (1 * pd (-27)) (13421772 * 10 * pn (-27)) = 8 ∧
    adiff (1 * pd (-27)) (13421774 * 10 * pn (-27)) = 12 := by decide +kernel

/-- the result of `rndPos` is determined by the value `a/b` alone -/
theorem rndPos_congr (f : Fmt) (wf : f.WF) {a b a' b' : Nat} (ha : 0 < a) (hb : 0 < b) (ha' : 0 < a') (hb' : 0 < b')
    (hr : a * b' = a' * b) : rndPos f a b = rndPos f a' b' :=
  Morlock.Model.Flt.rndPos_congr f wf.p_pos ha hb ha' hb' hr

/-- **bridge**: `rnd` is the unsigned kernel `rndPos` applied to `|x|` with the sign put back; `ofME neg m e` is the
rational `± m·2^e` in lowest terms (`ofME_spec`) -/
theorem rnd_eq_some (f : Fmt) (x y : Q) :
    rnd f x = some y ↔
      (x.num = 0 ∧ y = ⟨0, 1⟩) ∨
      (x.num ≠ 0 ∧ ∃ m e, rndPos f x.num.natAbs x.den = some (m, e) ∧ y = ofME (decide (x.num < 0)) m e) :=
  rnd_eq_some_iff f x y

theorem ofME_value (neg : Bool) (m : Nat) (e : Int) :
    (ofME neg m e).Canon ∧ (ofME neg m e).num.natAbs * pd e = m * pn e * (ofME neg m e).den ∧
    ((ofME neg m e).num < 0 ↔ (neg = true ∧ 0 < m)) ∧ ((ofME neg m e).num = 0 ↔ m = 0) :=
  ofME_spec neg m e

/-- … so `rndPos_spec`/`rndPos_nearest` read as a statement about `rnd`: for `x ≠ 0`, `rnd f x = some y` means that
`y = ± m·2^e` (sign of `x`) for a normalised pair of the format and `|x|` is at least as close to `m·2^e` as to every
number `m'·2^e'` of the format -/
theorem rnd_nearest (f : Fmt) (wf : f.WF) {x y : Q} (hd : 0 < x.den) (h0 : x.num ≠ 0) (h : rnd f x = some y) :
    ∃ m e, y = ofME (decide (x.num < 0)) m e ∧
      y.Canon ∧ y.num.natAbs * pd e = m * pn e * y.den ∧ (y.num < 0 ↔ (x.num < 0 ∧ 0 < m)) ∧
      m < 2 ^ f.p ∧ f.emin ≤ e ∧ e + ((f.p : Int) - 1) ≤ f.emax ∧ (2 ^ (f.p - 1) ≤ m ∨ e = f.emin) ∧
      ∀ (m' : Nat) (e' : Int), m' < 2 ^ f.p → f.emin ≤ e' →
        adiff (x.num.natAbs * pd e) (m * x.den * pn e) * pd e' ≤
          adiff (x.num.natAbs * pd e') (m' * x.den * pn e') * pd e :=
  Morlock.Model.Flt.rnd_nearest f wf.p_pos hd h0 h

example : rnd f32 ⟨-1, 10⟩ = some (ofME true 13421773 (-27)) := by rfl

/-! ## 2. No overflow below the threshold -/

/-- `0 < x.den → |x| ≤ 2^emax → (rnd f x).isSome` -/
theorem rnd_isSome_of_le (f : Fmt) (wf : f.WF) (x : Q) (hd : 0 < x.den)
    (h : x.num.natAbs * pd f.emax ≤ x.den * pn f.emax) : (rnd f x).isSome :=
  Morlock.Model.Flt.rnd_isSome_of_le f wf x hd h

/-- the sharp form: up to the largest finite value `(2^p − 1)·2^(emax−p+1)` -/
theorem rnd_isSome_of_le_max (f : Fmt) (wf : f.WF) (x : Q) (hd : 0 < x.den)
    (h : x.num.natAbs * pd (f.emax - ((f.p : Int) - 1)) ≤ (2 ^ f.p - 1) * x.den * pn (f.emax - ((f.p : Int) - 1))) :
    (rnd f x).isSome :=
  Morlock.Model.Flt.rnd_isSome_of_le_max f wf x hd h

theorem rnd32_isSome_of_le (x : Q) (hd : 0 < x.den) (h : x.num.natAbs ≤ 2 ^ 127 * x.den) : (rnd f32 x).isSome :=
  Morlock.Model.Flt.rnd32_isSome_of_le x hd h

/-- the largest finite float32 is kept; the first value that overflows is the midpoint to `2^128` -/
example : rnd f32 ⟨(2 ^ 24 - 1) * 2 ^ 104, 1⟩ = some ⟨(2 ^ 24 - 1) * 2 ^ 104, 1⟩ := by rfl
example : rnd f32 ⟨(2 ^ 25 - 1) * 2 ^ 103 - 1, 1⟩ = some ⟨(2 ^ 24 - 1) * 2 ^ 104, 1⟩ := by rfl
example : rnd f32 ⟨(2 ^ 25 - 1) * 2 ^ 103, 1⟩ = none := by rfl

/-- **the overflow threshold, exactly**: `rnd f x = none ↔ |x| ≥ (2^p − 1/2)·2^(emax−p+1)`, the midpoint between the largest
finite value and `2^(emax+1)` (the midpoint is a tie and goes to the even significand `2^p`, i.e. it overflows).
With `E = emax − (p−1)`: `(2^(p+1) − 1)·2^E ≤ 2·|x|`, fractions cleared. -/
theorem rnd_eq_none_iff (f : Fmt) (wf : f.WF) (x : Q) (hd : 0 < x.den) :
    rnd f x = none ↔
      (2 ^ (f.p + 1) - 1) * x.den * pn (f.emax - ((f.p : Int) - 1)) ≤
        2 * x.num.natAbs * pd (f.emax - ((f.p : Int) - 1)) :=
  Morlock.Model.Flt.rnd_eq_none_iff f wf x hd

/-- float32: overflow iff `|x| ≥ (2^25 − 1)·2^103 = (2^24 − 1/2)·2^104`; float64: iff `|x| ≥ (2^54 − 1)·2^970` -/
theorem rnd32_eq_none_iff (x : Q) (hd : 0 < x.den) :
    rnd f32 x = none ↔ (2 ^ 25 - 1) * 2 ^ 103 * x.den ≤ x.num.natAbs :=
  Morlock.Model.Flt.rnd32_eq_none_iff x hd
set_option exponentiation.threshold 2048 in
theorem rnd64_eq_none_iff (x : Q) (hd : 0 < x.den) :
    rnd f64 x = none ↔ (2 ^ 54 - 1) * 2 ^ 970 * x.den ≤ x.num.natAbs :=
  Morlock.Model.Flt.rnd64_eq_none_iff x hd

example : rnd f32 ⟨(2 ^ 25 - 1) * 2 ^ 103, 1⟩ = none :=
  (rnd32_eq_none_iff _ (by decide)).mpr (by decide +kernel)
example : (rnd f32 ⟨2 * (2 ^ 25 - 1) * 2 ^ 103 - 1, 2⟩).isSome := by
  rw [Option.isSome_iff_ne_none]; intro h
  exact absurd ((rnd32_eq_none_iff _ (by decide)).mp h) (by decide +kernel)

/-! ## 3. Representable values are fixed points -/

/-- `Rep f x`: `|x| = m·2^e` with `m < 2^p`, `emin ≤ e`, `e + p − 1 ≤ emax` -/
theorem rnd_exact (f : Fmt) (wf : f.WF) {x : Q} (hd : 0 < x.den) (hr : Rep f x) :
    ∃ y, rnd f x = some y ∧ Q.beq y x = true ∧ y.Canon := by
  obtain ⟨y, h1, h2, h3⟩ := Morlock.Model.Flt.rnd_exact f wf hd hr
  exact ⟨y, h1, (Q.beq_iff y x).mpr h2, h3⟩

/-- … and syntactically: the result is `x` in lowest terms; `x` itself if it is in lowest terms already -/
theorem rnd_exact_norm (f : Fmt) (wf : f.WF) {x : Q} (hd : 0 < x.den) (hr : Rep f x) : rnd f x = some (Q.norm x) :=
  Morlock.Model.Flt.rnd_exact_norm f wf hd hr
theorem rnd_exact_canon (f : Fmt) (wf : f.WF) {x : Q} (hc : x.Canon) (hr : Rep f x) : rnd f x = some x :=
  Morlock.Model.Flt.rnd_exact_canon f wf hc hr

/-- conversely every result of `rnd` is a number of the format, in lowest terms -/
theorem rnd_rep (f : Fmt) (wf : f.WF) {x y : Q} (hd : 0 < x.den) (h : rnd f x = some y) : Rep f y ∧ y.Canon :=
  ⟨Morlock.Model.Flt.rnd_rep f wf hd h, Morlock.Model.Flt.rnd_canon f h⟩

theorem rnd_int (n : Int) (h : n.natAbs ≤ 2 ^ 24) : rnd f32 (Q.ofInt n) = some (Q.ofInt n) := rnd32_int n h
theorem rnd_half (n : Int) (h : n.natAbs ≤ 2 ^ 24) : rnd f32 (Q.halves n) = some (Q.norm (Q.halves n)) := rnd32_half n h

example : rnd f32 (Q.halves 7) = some ⟨7, 2⟩ := rnd_half 7 (by decide)        -- 3.5
example : rnd f32 (Q.ofInt (-16777216)) = some ⟨-16777216, 1⟩ := rnd_int _ (by decide)
example : Rep f32 ⟨1, 2 ^ 149⟩ := ⟨1, -149, by decide, by decide, by decide, by decide +kernel⟩  -- smallest subnormal
example : rnd f32 ⟨1, 2 ^ 149⟩ = some ⟨1, 2 ^ 149⟩ := by rfl
/-- 2^24 + 1 is not a float32 -/
example : rnd f32 ⟨16777217, 1⟩ = some ⟨16777216, 1⟩ := by rfl

/-- rounding depends on the value only, not on the fraction that represents it -/
theorem rnd_congr (f : Fmt) (wf : f.WF) {x y : Q} (hx : 0 < x.den) (hy : 0 < y.den) (h : Q.beq x y = true) :
    rnd f x = rnd f y :=
  Morlock.Model.Flt.rnd_congr f wf hx hy ((Q.beq_iff x y).mp h)

/-! ## 4. Symmetry -/

theorem rnd_neg (f : Fmt) (x : Q) : rnd f (Q.neg x) = (rnd f x).map Q.neg := Morlock.Model.Flt.rnd_neg f x
theorem rnd_zero (f : Fmt) (d : Nat) : rnd f ⟨0, d⟩ = some ⟨0, 1⟩ := Morlock.Model.Flt.rnd_zero f d

example : rnd f32 ⟨-1, 3⟩ = some ⟨-11184811, 33554432⟩ := by rfl
example : rnd f32 ⟨1, 3⟩ = some ⟨11184811, 33554432⟩ := by rfl

/-! ## 5. Monotonicity, sign, bounds -/

theorem rnd_mono (f : Fmt) (wf : f.WF) {x y x' y' : Q} (hx : 0 < x.den) (hy : 0 < y.den)
    (hle : Q.le x y = true) (h : rnd f x = some x') (h' : rnd f y = some y') : Q.le x' y' = true :=
  (Q.le_iff x' y').mpr (Morlock.Model.Flt.rnd_mono f wf hx hy ((Q.le_iff x y).mp hle) h h')

theorem rnd_sign (f : Fmt) {x y : Q} (h : rnd f x = some y) : (0 ≤ x.num → 0 ≤ y.num) ∧ (x.num ≤ 0 → y.num ≤ 0) :=
  Morlock.Model.Flt.rnd_sign f h

/-- `−B ≤ x ≤ B` with `B` a number of the format ⟹ `rnd f x` is finite and `−B ≤ rnd f x ≤ B` -/
theorem rnd_abs_le (f : Fmt) (wf : f.WF) {x B : Q} (hx : 0 < x.den) (hB : 0 < B.den) (hrep : Rep f B)
    (hlo : Q.le B.neg x = true) (hhi : Q.le x B = true) :
    ∃ x', rnd f x = some x' ∧ Q.le B.neg x' = true ∧ Q.le x' B = true := by
  obtain ⟨x', h1, h2, h3⟩ := Morlock.Model.Flt.rnd_abs_le f wf hx hB hrep ((Q.le_iff _ _).mp hlo) ((Q.le_iff _ _).mp hhi)
  exact ⟨x', h1, (Q.le_iff _ _).mpr h2, (Q.le_iff _ _).mpr h3⟩

/-- the form used for totality of the evaluators: a natural bound `|x| ≤ B ≤ 2^24` survives a float32 rounding -/
theorem rnd32_absLe {x x' : Q} {B : Nat} (hd : 0 < x.den) (hb : x.AbsLe B) (hB : B ≤ 2 ^ 24) (h : rnd f32 x = some x') :
    x'.AbsLe B :=
  rnd_absLe f32 f32_wf (by decide) (by decide) hd hb hB h

/-- overflow is monotone -/
theorem rnd_isSome_of_abs_le (f : Fmt) (wf : f.WF) {x B : Q} (hx : 0 < x.den) (hB : 0 < B.den)
    (hle : x.num.natAbs * B.den ≤ B.num.natAbs * x.den) (h : (rnd f B).isSome) : (rnd f x).isSome :=
  Morlock.Model.Flt.rnd_isSome_of_abs_le f wf hx hB hle h

example : ∃ x', rnd f32 ⟨1, 3⟩ = some x' ∧ Q.le (Q.neg (Q.halves 1)) x' = true ∧ Q.le x' (Q.halves 1) = true :=
  rnd_abs_le f32 f32_wf (by decide) (by decide) ⟨1, -1, by decide, by decide, by decide, by decide⟩ (by decide) (by decide)

/-! ## 6. Bit patterns -/

/-- decoding the bit pattern computed for `x` gives `rnd f x` (overflow ↦ `none` on both sides) -/
theorem bits_ofBits (f : Fmt) (ieee : f.IEEE) (x : Q) (hd : 0 < x.den) : (bits f x).bind (ofBits f) = rnd f x :=
  ofBits_bits f ieee x hd

/-- comparing bit patterns compares values: on numbers of the format, `bits` is injective up to `Q.beq` … -/
theorem bits_inj (f : Fmt) (ieee : f.IEEE) {x y : Q} (hx : 0 < x.den) (hy : 0 < y.den) (rx : Rep f x) (ry : Rep f y)
    (h : bits f x = bits f y) : Q.beq x y = true :=
  (Q.beq_iff x y).mpr (Morlock.Model.Flt.bits_inj f ieee hx hy rx ry h)

/-- … and equal values have equal patterns -/
theorem bits_congr (f : Fmt) (wf : f.WF) {x y : Q} (hx : 0 < x.den) (hy : 0 < y.den) (h : Q.beq x y = true) :
    bits f x = bits f y :=
  Morlock.Model.Flt.bits_congr f wf hx hy ((Q.beq_iff x y).mp h)

/-- the pattern of the rounded value is the pattern computed from `x` (what the driver prints is `bits32` of a value
that has been rounded already); no side condition: a value that rounds to zero has pattern `0` whatever its sign -/
theorem bits_rnd (f : Fmt) (wf : f.WF) {x y : Q} (hd : 0 < x.den) (h : rnd f x = some y) : bits f y = bits f x :=
  Morlock.Model.Flt.bits_rnd f wf hd h

example : bits32 ⟨1, 10⟩ = some 0x3DCCCCCD := by decide +kernel
example : bits32 ⟨1, 3⟩ = some 0x3EAAAAAB := by decide +kernel
example : bits32 ⟨7, 2⟩ = some 0x40600000 := by decide +kernel
example : bits32 ⟨(2 ^ 24 - 1) * 2 ^ 104, 1⟩ = some 0x7F7FFFFF := by decide +kernel
example : bits32 ⟨1, 2 ^ 149⟩ = some 1 := by decide +kernel
example : ofBits f32 0x3DCCCCCD = rnd f32 ⟨1, 10⟩ := by rfl
/-- a negative value that underflows to zero: pattern `0` (not the sign bit), as for its rounding -/
example : bits32 ⟨-1, 2 ^ 151⟩ = some 0 ∧ (rnd f32 ⟨-1, 2 ^ 151⟩).bind bits32 = some 0 := by decide +kernel
example : bits32 ⟨-1, 2 ^ 149⟩ = some 0x80000001 := by decide +kernel

/-! ## 7. Division and square root -/

/-- `y ≠ 0 → |x / y| ≤ 2^emax → (div f x y).isSome` -/
theorem div_isSome (f : Fmt) (wf : f.WF) {x y : Q} (hx : 0 < x.den) (hy0 : y.num ≠ 0)
    (h : x.num.natAbs * y.den * pd f.emax ≤ x.den * y.num.natAbs * pn f.emax) : (div f x y).isSome :=
  Morlock.Model.Flt.div_isSome f wf hx hy0 h

example : (div f32 ⟨1, 1⟩ ⟨3, 1⟩).isSome := div_isSome f32 f32_wf (by decide) (by decide) (by decide +kernel)
example : div f32 ⟨1, 1⟩ ⟨3, 1⟩ = some ⟨11184811, 33554432⟩ := by rfl

/-- the operations are total on bounded operands (natural bounds, `Q.AbsLe x A : |x| ≤ A`) -/
theorem add32_isSome {x y : Q} {A B : Nat} (hx : 0 < x.den) (hy : 0 < y.den) (ha : x.AbsLe A) (hb : y.AbsLe B)
    (hAB : A + B ≤ 2 ^ 127) : (add f32 x y).isSome :=
  add_isSome f32 f32_wf (by decide) hx hy ha hb hAB
theorem sub32_isSome {x y : Q} {A B : Nat} (hx : 0 < x.den) (hy : 0 < y.den) (ha : x.AbsLe A) (hb : y.AbsLe B)
    (hAB : A + B ≤ 2 ^ 127) : (sub f32 x y).isSome :=
  sub_isSome f32 f32_wf (by decide) hx hy ha hb hAB
theorem mul32_isSome {x y : Q} {A B : Nat} (hx : 0 < x.den) (hy : 0 < y.den) (ha : x.AbsLe A) (hb : y.AbsLe B)
    (hAB : A * B ≤ 2 ^ 127) : (mul f32 x y).isSome :=
  mul_isSome f32 f32_wf (by decide) hx hy ha hb hAB

/-- `sqrtPos` returns the correctly rounded root: a normalised pair of the format with `|√(a/b) − m·2^e| ≤ 2^e/2`,
stated with squares (`SqrtHalfUlp a b m e : (m = 0 ∨ (2m−1)²·b·4^e ≤ 4a) ∧ 4a ≤ (2m+1)²·b·4^e`, fractions cleared),
ties to even -/
theorem sqrt_spec (f : Fmt) (wf : f.WF) {a b m : Nat} {e : Int} (ha : 0 < a) (hb : 0 < b)
    (h : sqrtPos f a b = some (m, e)) :
    m < 2 ^ f.p ∧ f.emin ≤ e ∧ e + ((f.p : Int) - 1) ≤ f.emax ∧ (2 ^ (f.p - 1) ≤ m ∨ e = f.emin) ∧
    SqrtHalfUlp a b m e ∧ (1 ≤ m → SqrtTie a b m e → m % 2 = 0) :=
  sqrtPos_spec f wf.p_pos ha hb h

/-- **`sqrtPos` rounds to nearest** (this closes the slack of `sqrt_spec` at the lower edge of a binade, where the grid is finer
below the result than above): the returned `m·2^e` is at least as close to `√(a/b)` as every number `m'·2^e'` of the format.
`SqrtCloser a b Vn Vd Wn Wd` says `|√(a/b) − v| ≤ |√(a/b) − w|` for `v = Vn/Vd`, `w = Wn/Wd` without roots:
`(w < v → (v+w)² ≤ 4a/b) ∧ (v < w → 4a/b ≤ (v+w)²)`, denominators cleared:
`(Wn*Vd < Vn*Wd → (Vn*Wd + Wn*Vd)^2 * b ≤ 4*a*(Vd*Wd)^2) ∧ (Vn*Wd < Wn*Vd → 4*a*(Vd*Wd)^2 ≤ (Vn*Wd + Wn*Vd)^2 * b)`. -/
theorem sqrtPos_nearest (f : Fmt) (wf : f.WF) {a b m : Nat} {e : Int} (ha : 0 < a) (hb : 0 < b)
    (h : sqrtPos f a b = some (m, e)) (m' : Nat) (e' : Int) (hm' : m' < 2 ^ f.p) (he' : f.emin ≤ e') :
    SqrtCloser a b (m * pn e) (pd e) (m' * pn e') (pd e') :=
  Morlock.Model.Flt.sqrtPos_nearest f wf.p_pos ha hb h m' e' hm' he'

/-- the auditor's witness: `a/b = ((5·2^24 − 3)/(5·2^23))²`, `√(a/b) = 2 − 0.6·2^-23`.  The model returns
`(2^24 − 1)·2^-23` (0.4 ulp away).  The pair `(2^23, −22)` (= 2, 0.6 of the small ulp away) satisfies every conjunct of
`sqrt_spec` but is rejected by `sqrtPos_nearest`: it is not closer than the format number `(2^24 − 1)·2^-23`. -/
example : sqrtPos f32 ((5 * 2 ^ 24 - 3) ^ 2) (25 * 2 ^ 46) = some (16777215, -23) := by decide +kernel
example : SqrtHalfUlp ((5 * 2 ^ 24 - 3) ^ 2) (25 * 2 ^ 46) (2 ^ 23) (-22) := by unfold SqrtHalfUlp; decide +kernel
example : ¬ SqrtCloser ((5 * 2 ^ 24 - 3) ^ 2) (25 * 2 ^ 46) (2 ^ 23 * pn (-22)) (pd (-22)) (16777215 * pn (-23)) (pd (-23)) := by
  unfold SqrtCloser; decide +kernel
example : SqrtCloser ((5 * 2 ^ 24 - 3) ^ 2) (25 * 2 ^ 46) (16777215 * pn (-23)) (pd (-23)) (2 ^ 23 * pn (-22)) (pd (-22)) := by
  unfold SqrtCloser; decide +kernel

/-- `sqrt` is defined exactly for `0 ≤ x` (here: up to `4^emax`, which covers every finite number of the format) -/
theorem sqrt_isSome (f : Fmt) (wf : f.WF) {x : Q} (hd : 0 < x.den) (h0 : 0 ≤ x.num)
    (h : x.num.toNat * pd (2 * f.emax) ≤ x.den * pn (2 * f.emax)) : (sqrt f x).isSome :=
  Morlock.Model.Flt.sqrt_isSome f wf hd h0 h
theorem sqrt_neg (f : Fmt) {x : Q} (h : x.num < 0) : sqrt f x = none := Morlock.Model.Flt.sqrt_neg f h

/-- `sqrt` is monotone -/
theorem sqrt_mono (f : Fmt) (wf : f.WF) {x y x' y' : Q} (hx : 0 < x.den) (hy : 0 < y.den)
    (hle : Q.le x y = true) (h : sqrt f x = some x') (h' : sqrt f y = some y') : Q.le x' y' = true :=
  (Q.le_iff x' y').mpr (Morlock.Model.Flt.sqrt_mono f wf hx hy ((Q.le_iff x y).mp hle) h h')

/-- perfect squares have exact float64 roots (`sqrt_sq_nat`: for any format and `k < 2^p`; `sqrtPos_exact`: for the square of
any number of the format) -/
theorem sqrt_int_exact (k : Nat) (hk : k < 2 ^ 26) : sqrt f64 (Q.ofNat (k * k)) = some (Q.ofNat k) :=
  Morlock.Model.Flt.sqrt_int_exact k hk

example : sqrt f64 (Q.ofNat 49) = some (Q.ofNat 7) := sqrt_int_exact 7 (by decide)

example : sqrtPos f64 2 1 = some (6369051672525773, -52) := by decide +kernel   -- √2 = 0x3FF6A09E667F3BCD
example : (sqrt f64 ⟨9, 4⟩).bind (bits f64) = some 0x3FF8000000000000 := by decide +kernel   -- √2.25 = 1.5
example : sqrt f64 ⟨-1, 1⟩ = none := by rfl

/-! ## Conversions to integers (`math.Round`, `math.Floor`, `int(f)`) -/

/-- `|x − round x| ≤ 1/2` -/
theorem roundAway_spec (x : Q) (hd : 0 < x.den) :
    2 * x.roundAway * x.den ≤ 2 * x.num + x.den ∧ 2 * x.num ≤ 2 * x.roundAway * x.den + x.den :=
  Q.roundAway_spec x hd
theorem roundAway_neg (x : Q) : x.neg.roundAway = -x.roundAway := Q.roundAway_neg x
theorem roundAway_ofInt (n : Int) : (Q.ofInt n).roundAway = n := Q.roundAway_ofInt n
/-- `⌊x⌋ ≤ x < ⌊x⌋ + 1` -/
theorem floor_spec (x : Q) (hd : 0 < x.den) : x.floor * x.den ≤ x.num ∧ x.num < (x.floor + 1) * x.den :=
  Q.floor_spec x hd

example : (Q.halves 5).roundAway = 3 ∧ (Q.halves (-5)).roundAway = -3 ∧ (Q.halves (-5)).floor = -3 ∧
    (Q.halves (-5)).trunc = -2 := by decide

end Morlock.Props.Flt
