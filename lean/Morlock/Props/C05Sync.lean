import Morlock.Props.C07Board
import Morlock.Proofs.DrawSyncGen
/-!
# C05 / C14: the board agrees with the whole-history reference game after ANY sequence of board operations

`Props/C05.lean` links the board to the reference (`Spec.Game`: start position plus the list of moves,
everything recomputed from the whole history) for LINEAR games: set-up plus pushes (`spec_link`, `game_link`).
Here the link is carried through take-backs and forks:

* `sync_pop`, `sync_fork`, `sync_other`: what the operations do to `Sync` (`Proofs/DrawSync.lean`);
  `syncAll_pop`, `syncAll_fork`, `syncAll_other` for the stronger `SyncAll` (`Proofs/DrawSyncGen.lean`:
  `Sync` + the clocks of all prefixes of the game are the clocks of the nodes of the line + the moves of the
  game are the moves stored on the line), which take-backs preserve without any hypothesis;
* `GenGame z w b g`: `C07Board.GenBoard` (boards reachable by `newBoard` / `pushMove` of generated moves / `popMove` /
  `fork`, following either the fork or the original) with `PosOK` set-up positions, carrying the reference game
  `g` along: a move appends to `g`, a take-back removes the last move of `g`, a fork keeps `g`;
* `genBoard_sync`: every `GenGame z w b g` is in lock-step: `SyncAll z g w b` and `SyncFen g w b`;
* `draw_agrees`, `position_agrees`, `fen_agrees`: the headline corollaries.
-/
namespace Morlock.Props.C05Sync
open Morlock Morlock.Model Morlock.Model.World Morlock.Proofs Morlock.Proofs.Arena Morlock.Proofs.Draw
  Morlock.Proofs.Chain Morlock.Proofs.Gen Morlock.Proofs.Material Morlock.Props.C05 Morlock.Props.C07Board

/-! ## 1. `Sync` under take-back, fork, and operations on other boards -/

/-- **sync_pop.** A take-back on a well-formed world keeps board `b` in lock-step with the reference game
without its last move (`gpop g`). Side conditions: `WFWorld w`, `b < w.boards.size`, and the clock of the shorter
game is the clock of the node returned to. The last one cannot be derived from `Sync z g w b`, which only
knows the *current* clock: after a clock-resetting move both clocks are `0` whatever they were before (a
reference game whose set-up clock differs from the board's is in `Sync` with the board as soon as a pawn has
moved, and out of it again after the take-back). `syncAll_pop` needs no such condition. No condition on fork
points is needed: the statement is about the board that is taken back (what happens to *other* boards reading
the same node is `sync_other` / C08 `pop_below_fork_clobbers`). -/
theorem sync_pop {z : ZTable} {g : Spec.Game} {w w' : World} {b : Nat} {m : Move}
    (hw : WFWorld w) (hb : b < w.boards.size) (h : w.popMove b = some (w', m)) (hs : Sync z g w b)
    (hclk : ((gpop g).halfmove : Int) = (w'.cur b).noprogress) :
    Sync z (gpop g) w' b :=
  Draw.sync_pop hw hb h hs hclk

/-- **syncAll_pop.** Lock-step at every node of the line is preserved by a take-back, and the move returned is
the last move of the reference game. -/
theorem syncAll_pop {z : ZTable} {g : Spec.Game} {w w' : World} {b : Nat} {m : Move}
    (hw : WFWorld w) (hb : b < w.boards.size) (h : w.popMove b = some (w', m)) (hs : SyncAll z g w b) :
    SyncAll z (gpop g) w' b ∧ g = gsnoc (gpop g) (absMove m) :=
  Draw.syncAll_pop hw hb h hs

/-- **sync_fork.** The fork is in lock-step with the same reference game, and the original stays so. -/
theorem sync_fork {z : ZTable} {g : Spec.Game} {w : World} {b : Nat} (hw : WFWorld w) (hb : b < w.boards.size)
    (hs : Sync z g w b) : Sync z g (w.fork b).1 (w.fork b).2 ∧ Sync z g (w.fork b).1 b :=
  ⟨sync_of_view (view_fork_new hw b) hs, sync_of_view (view_fork_old hw b hb) hs⟩

theorem syncAll_fork {z : ZTable} {g : Spec.Game} {w : World} {b : Nat} (hw : WFWorld w) (hb : b < w.boards.size)
    (hs : SyncAll z g w b) : SyncAll z g (w.fork b).1 (w.fork b).2 ∧ SyncAll z g (w.fork b).1 b :=
  Draw.syncAll_fork hw hb hs

/-- **sync_other.** `Sync z g · y` survives every operation on another board `x ≠ y` that does not write into
`y`'s past: a move on `x` unless `x`'s current node is a strict ancestor of `y`'s current node, a take-back on
`x` unless the node `x` returns to is such an ancestor (these are exactly the two cases in which the operation
writes a `next` field that `y` reads), every `fork` (of any board: `GenBoard.stay`), every `newBoard`, and
adjudication of `x`. -/
theorem sync_other {z : ZTable} {g : Spec.Game} {w : World} {y : Nat} (hw : WFWorld w) (hy : y < w.boards.size)
    (hs : Sync z g w y) :
    (∀ {w' : World} {x : Nat} {m : Move}, x ≠ y → w.pushMove z x m = some w' →
      (w.board x).current ∉ ancIdx w (w.cur y).prev → Sync z g w' y) ∧
    (∀ {w' : World} {x : Nat} {m : Move}, x ≠ y → w.popMove x = some (w', m) →
      (∀ pi, (w.cur x).prev = some pi → pi ∉ ancIdx w (w.cur y).prev) → Sync z g w' y) ∧
    (∀ x, Sync z g (w.fork x).1 y) ∧
    (∀ pos turn np fm, Sync z g (w.newBoard z pos turn np fm).1 y) ∧
    (∀ x, x ≠ y → Sync z g (w.adjudicateNoLegalMoves x).1 y) :=
  ⟨fun hxy h hsep => sync_of_view (push_frame hw hy hxy h hsep) hs,
   fun hxy h hsep => sync_of_view (pop_frame hxy h hsep) hs,
   fun x => sync_of_view (view_fork_old hw x hy) hs,
   fun pos turn np fm => sync_of_view (view_newBoard_old hw z pos turn np fm hy) hs,
   fun _ hxy => sync_of_view (view_adjudicate_other hxy) hs⟩

/-- The same for `SyncAll`. -/
theorem syncAll_other {z : ZTable} {g : Spec.Game} {w : World} {y : Nat} (hw : WFWorld w) (hy : y < w.boards.size)
    (hs : SyncAll z g w y) :
    (∀ {w' : World} {x : Nat} {m : Move}, x ≠ y → w.pushMove z x m = some w' →
      (w.board x).current ∉ ancIdx w (w.cur y).prev → SyncAll z g w' y) ∧
    (∀ {w' : World} {x : Nat} {m : Move}, x ≠ y → w.popMove x = some (w', m) →
      (∀ pi, (w.cur x).prev = some pi → pi ∉ ancIdx w (w.cur y).prev) → SyncAll z g w' y) ∧
    (∀ x, SyncAll z g (w.fork x).1 y) ∧
    (∀ pos turn np fm, SyncAll z g (w.newBoard z pos turn np fm).1 y) ∧
    (∀ x, x ≠ y → SyncAll z g (w.adjudicateNoLegalMoves x).1 y) :=
  Draw.syncAll_other hw hy hs

/-! ## 2. generated boards with their reference game -/

/-- `C07Board.GenBoard` with the reference game carried along. Board `b` of `w` descends from a board set up on a
`WFplay` position with four-bit castling field and two kings (together: `PosOK`, as in `game_link_reachable`), clock
`n0` and full-move number `f` (natural numbers: `fen.Decode`, the source of both callers of `NewBoard`, rejects
negative ones) by generated moves, take-backs and forks (following the fork: `fork`; or the original: `stay`), in
any order; `g` is the set-up as a `Spec.FenGame` plus: a move appended for every `push`, the last move removed for
every `pop`, unchanged by `fork` / `stay`. -/
inductive GenGame (z : ZTable) : World → Nat → Spec.Game → Prop
  | new {w : World} {pos : Position} {turn : Color} (n0 f : Nat) :
      WFWorld w → WFplay pos turn → pos.castling < 16 → kingCount pos.square = 2 →
      GenGame z (w.newBoard z pos turn (n0 : Int) (f : Int)).1 (w.newBoard z pos turn (n0 : Int) (f : Int)).2
        { start := { pos := abs pos turn, halfmove := n0, fullmove := f }, moves := [] }
  | push {w w' : World} {b : Nat} {m : Move} {g : Spec.Game} :
      GenGame z w b g → m ∈ (w.cur b).pos.pseudoLegalMoves (w.board b).turn → w.pushMove z b m = some w' →
      GenGame z w' b (gsnoc g (absMove m))
  | pop {w w' : World} {b : Nat} {m : Move} {g : Spec.Game} :
      GenGame z w b g → w.popMove b = some (w', m) → GenGame z w' b (gpop g)
  | fork {w : World} {b : Nat} {g : Spec.Game} : GenGame z w b g → GenGame z (w.fork b).1 (w.fork b).2 g
  | stay {w : World} {b : Nat} {g : Spec.Game} : GenGame z w b g → GenGame z (w.fork b).1 b g

/-- Forgetting the reference game: a `GenGame` is a `GenBoard` (so `genBoard_inv`, `draw_iff_genBoard`,
`hash_eq_scratch` apply). -/
theorem genGame_genBoard {z : ZTable} {w : World} {b : Nat} {g : Spec.Game} (h : GenGame z w b g) :
    GenBoard z w b := by
  induction h with
  | new n0 f hw hpos _ _ => exact GenBoard.new _ hw hpos (Int.natCast_nonneg n0)
  | push _ hm hp ih => exact GenBoard.push ih hm hp
  | pop _ hp ih => exact GenBoard.pop ih hp
  | fork _ ih => exact GenBoard.fork ih
  | stay _ ih => exact GenBoard.stay ih

/-- **genBoard_sync.** Every generated board is in lock-step with the reference game carried along, at every
node of its line (`SyncAll`: `Sync` — positions of the whole line, clock, good history —, the clocks of all
prefixes, `g.moves` = the moves stored on the current line), and the full-move numbers agree (`SyncFen`). -/
theorem genBoard_sync {z : ZTable} (hz : z.enpassant 0 = 0) {w : World} {b : Nat} {g : Spec.Game}
    (h : GenGame z w b g) : SyncAll z g w b ∧ SyncFen g w b := by
  induction h with
  | @new w pos turn n0 f hw hpos hc hk =>
    exact ⟨syncAll_newBoard w z turn n0 f (f : Int) (posOK_of_wfplay hpos hc hk),
      syncFen_newBoard w z pos turn (n0 : Int) n0 f⟩
  | @push w w' b m g hg hm hp ih =>
    obtain ⟨hw, hb, _, hl⟩ := genBoard_inv hz (genGame_genBoard hg)
    have hstep := (push_wfplay hw hb hl.cur hm hp).1
    exact ⟨syncAll_push hz hw hb hp ih.1 hstep, syncFen_push hw hb hp ih.1.sync ih.2⟩
  | @pop w w' b m g hg hp ih =>
    obtain ⟨hw, hb, _, _⟩ := genBoard_inv hz (genGame_genBoard hg)
    obtain ⟨hs', hgm⟩ := Draw.syncAll_pop hw hb hp ih.1
    have hne : g.moves ≠ [] := by
      rw [hgm]; simp
    exact ⟨hs', syncFen_pop hw hb hp hne hs'.sync ih.2⟩
  | @fork w b g hg ih =>
    obtain ⟨hw, hb, _, _⟩ := genBoard_inv hz (genGame_genBoard hg)
    exact ⟨(Draw.syncAll_fork hw hb ih.1).1, syncFen_of_view (view_fork_new hw b) ih.2⟩
  | @stay w b g hg ih =>
    obtain ⟨hw, hb, _, _⟩ := genBoard_inv hz (genGame_genBoard hg)
    exact ⟨(Draw.syncAll_fork hw hb ih.1).2, syncFen_of_view (view_fork_old hw b hb) ih.2⟩

/-- **`g` is the start position plus exactly the moves on the current line**: the moves of `g` are the moves stored
in the `next` fields of the strict ancestors of the current node (oldest first; moves taken back or played on
other branches are gone), its start position is the abstraction of the oldest node of the line (with the side to
move there), and its set-up clock is that node's clock. -/
theorem genBoard_game {z : ZTable} (hz : z.enpassant 0 = 0) {w : World} {b : Nat} {g : Spec.Game}
    (h : GenGame z w b g) :
    g.moves = ((anc w (w.cur b).prev).map fun n => absMove n.next).reverse ∧
    ((sided (w.board b).turn (lineK w b)).getLast?.map fun e => abs e.1.pos e.2) = some g.start.pos ∧
    ((lineK w b).getLast?.map fun n => n.noprogress) = some (g.start.halfmove : Int) := by
  obtain ⟨hs, _⟩ := genBoard_sync hz h
  exact ⟨by rw [← lineMoves_eq]; exact hs.moves, hs.sync.start, hs.root_clock⟩

/-! ## 3. the headline corollaries -/

/-- **draw_agrees.** On every generated board — after any generated moves, take-backs and forks —, when a
generated move `m` is accepted the result the board reports is the verdict of the reference on the game
"`g` continued by `m`" (`Spec.Game.drawReasons`, computed from the whole history from scratch): drawn iff there is
a draw reason, with the reason of highest precedence, the zero result otherwise (`SpecVerdict`, the right-hand
side of `spec_link` / `game_link`); and the continued game is the one carried along. -/
theorem draw_agrees {z : ZTable} (hz : z.enpassant 0 = 0) {w w' : World} {b : Nat} {m : Move} {g : Spec.Game}
    (hg : GenGame z w b g) (hm : m ∈ (w.cur b).pos.pseudoLegalMoves (w.board b).turn)
    (h : w.pushMove z b m = some w') :
    SpecVerdict (w'.board b).result (gsnoc g (absMove m)).drawReasons ∧
    ((w'.board b).result.outcome = .draw ↔ (gsnoc g (absMove m)).drawReasons ≠ []) ∧
    GenGame z w' b (gsnoc g (absMove m)) := by
  obtain ⟨hw, hb, _, hl⟩ := genBoard_inv hz (genGame_genBoard hg)
  obtain ⟨hs, _⟩ := genBoard_sync hz hg
  have hstep := (push_wfplay hw hb hl.cur hm h).1
  have hv := (spec_link hz hw hb h hs.sync hstep).2.2.2
  exact ⟨hv, hv.1, GenGame.push hg hm h⟩

/-- **position_agrees.** On every generated board the current position with the side to move, the half-move
clock, the full-move number and the repetition count of the current position over the whole line are those of
the reference game. -/
theorem position_agrees {z : ZTable} (hz : z.enpassant 0 = 0) {w : World} {b : Nat} {g : Spec.Game}
    (hg : GenGame z w b g) :
    g.current = abs (w.cur b).pos (w.board b).turn ∧
    (g.halfmove : Int) = (w.cur b).noprogress ∧
    (g.fullmove : Int) = (w.board b).moves ∧
    g.repetitions = occurrences w b := by
  obtain ⟨hs, hf⟩ := genBoard_sync hz hg
  exact ⟨hs.sync.current, hs.sync.clock, hf.fullmove, hs.sync.repetitions⟩

/-- **fen_agrees.** The FEN of the reference game (`Spec.Game.fen`: the reference printer on current position,
half-move clock and full-move number recomputed from the whole history) is the reference printer applied to the
fields `fen.Encode` is given for the board: the abstraction of the current position with the board's side to
move, the clock of the current node and the board's `moves` counter. (That `Model.Fen.encode` and
`Spec.printFen` produce the same string on these fields is a string-level statement that is not proved here; it
is tested by the streams of C14.) -/
theorem fen_agrees {z : ZTable} (hz : z.enpassant 0 = 0) {w : World} {b : Nat} {g : Spec.Game}
    (hg : GenGame z w b g) :
    g.fen = Spec.printFen { pos := abs (w.cur b).pos (w.board b).turn,
                            halfmove := (w.cur b).noprogress.toNat, fullmove := (w.board b).moves.toNat } := by
  obtain ⟨h1, h2, h3, _⟩ := position_agrees hz hg
  unfold Spec.Game.fen
  rw [h1, ← h2, ← h3]
  simp

/-! ## 4. a concrete world with a push, a pop and a fork -/

section Example

theorem push_getD {w : World} {z : ZTable} {b : Nat} {m : Move} (h : (w.pushMove z b m).isSome = true) :
    w.pushMove z b m = some ((w.pushMove z b m).getD default) := by
  cases hp : w.pushMove z b m with
  | none => rw [hp] at h; cases h
  | some x => rfl

theorem pop_getD {w : World} {b : Nat} (h : (w.popMove b).isSome = true) :
    w.popMove b = some (((w.popMove b).getD default).1, ((w.popMove b).getD default).2) := by
  cases hp : w.popMove b with
  | none => rw [hp] at h; cases h
  | some x => rfl

/-- 1… Nc6 -/
def nc6 : Move := { ty := .normal, «from» := 62, to := 45, piece := .knight }

/-- a board on the initial position (clock 0, full-move number 1), sample Zobrist table of C07 -/
def e0 : World := (({} : World).newBoard exZ startPos .white ((0 : Nat) : Int) ((1 : Nat) : Int)).1
/-- 1. Nf3 -/
def e1 : World := (e0.pushMove exZ 0 nf3).getD default
/-- 1… Nf6 -/
def e2 : World := (e1.pushMove exZ 0 nf6).getD default
/-- 1… Nf6 taken back -/
def e3 : World := ((e2.popMove 0).getD default).1
/-- board 1 := fork of board 0 -/
def e4 : World := (e3.fork 0).1
/-- the fork plays 1… Nc6 -/
def e5 : World := (e4.pushMove exZ 1 nc6).getD default
/-- the original plays 1… Nf6 again -/
def e6 : World := (e5.pushMove exZ 0 nf6).getD default

def g0 : Spec.Game := { start := { pos := abs startPos .white, halfmove := 0, fullmove := 1 }, moves := [] }

theorem ex_e0 : GenGame exZ e0 0 g0 :=
  GenGame.new 0 1 wf_empty startPos_wfplay startPos_posOK.castling startPos_posOK.kings

theorem ex_e1 : GenGame exZ e1 0 (gsnoc g0 (absMove nf3)) :=
  GenGame.push ex_e0 (by decide +kernel) (push_getD (by decide +kernel))

theorem ex_e2 : GenGame exZ e2 0 (gsnoc (gsnoc g0 (absMove nf3)) (absMove nf6)) :=
  GenGame.push ex_e1 (by decide +kernel) (push_getD (by decide +kernel))

theorem ex_e3 : GenGame exZ e3 0 (gpop (gsnoc (gsnoc g0 (absMove nf3)) (absMove nf6))) :=
  GenGame.pop ex_e2 (pop_getD (by decide +kernel))

/-- following the fork (board 1) … -/
theorem ex_e4_fork : GenGame exZ e4 1 (gpop (gsnoc (gsnoc g0 (absMove nf3)) (absMove nf6))) := by
  have h := GenGame.fork (z := exZ) ex_e3
  have hid : (e3.fork 0).2 = 1 := by decide +kernel
  rw [hid] at h
  exact h

/-- … or the original (board 0) -/
theorem ex_e4_stay : GenGame exZ e4 0 (gpop (gsnoc (gsnoc g0 (absMove nf3)) (absMove nf6))) :=
  GenGame.stay ex_e3

/-- The reference game carried to the fork after "set-up, 1. Nf3 Nf6, take back, fork" is `1. Nf3`. -/
example : gpop (gsnoc (gsnoc g0 (absMove nf3)) (absMove nf6)) =
    { start := { pos := abs startPos .white, halfmove := 0, fullmove := 1 }, moves := [absMove nf3] } := by
  decide +kernel

/-- `draw_agrees` on the fork: it accepts the generated move 1… Nc6, and its result is the verdict of the reference
on `1. Nf3 Nc6` from the initial position (1… Nf6, which was taken back before the fork, is not in the game). -/
example :
    SpecVerdict (e5.board 1).result
      (Spec.Game.drawReasons
        { start := { pos := abs startPos .white, halfmove := 0, fullmove := 1 },
          moves := [absMove nf3, absMove nc6] }) := by
  have h := (draw_agrees (z := exZ) rfl ex_e4_fork (m := nc6) (w' := e5) (by decide +kernel)
    (push_getD (by decide +kernel))).1
  have hg : gsnoc (gpop (gsnoc (gsnoc g0 (absMove nf3)) (absMove nf6))) (absMove nc6) =
      { start := { pos := abs startPos .white, halfmove := 0, fullmove := 1 },
        moves := [absMove nf3, absMove nc6] } := by decide +kernel
  rw [hg] at h
  exact h

/-- `position_agrees` on the fork after its move: the current position / side, clock, full-move number and
repetition count of board 1 are those of the reference game `1. Nf3 Nc6` … -/
example :
    let g : Spec.Game := { start := { pos := abs startPos .white, halfmove := 0, fullmove := 1 },
                           moves := [absMove nf3, absMove nc6] }
    g.current = abs (e5.cur 1).pos (e5.board 1).turn ∧ (g.halfmove : Int) = (e5.cur 1).noprogress ∧
    (g.fullmove : Int) = (e5.board 1).moves ∧ g.repetitions = occurrences e5 1 := by
  have hgen : GenGame exZ e5 1 _ := GenGame.push ex_e4_fork (m := nc6) (w' := e5) (by decide +kernel)
    (push_getD (by decide +kernel))
  have hg : gsnoc (gpop (gsnoc (gsnoc g0 (absMove nf3)) (absMove nf6))) (absMove nc6) =
      { start := { pos := abs startPos .white, halfmove := 0, fullmove := 1 },
        moves := [absMove nf3, absMove nc6] } := by decide +kernel
  rw [hg] at hgen
  exact position_agrees (z := exZ) rfl hgen

/-- … and, evaluated: White to move, clock 2, full-move number 2, the moves on the line of board 1 are Nf3, Nc6,
while the original (board 0, which then plays 1… Nf6 again: `stay` + `push`) has Nf3, Nf6. -/
example :
    (e5.board 1).turn = .white ∧ (e5.cur 1).noprogress = 2 ∧ (e5.board 1).moves = 2 ∧
    lineMoves e5 1 = [absMove nf3, absMove nc6] ∧ lineMoves e6 0 = [absMove nf3, absMove nf6] := by
  decide +kernel

/-- `sync_other` instantiated: the fork's move 1… Nc6 (an operation on board 1 above the fork point) leaves the
original (board 0) in lock-step with `1. Nf3`: the node the move writes to is not on board 0's line. -/
example : SyncAll exZ (gpop (gsnoc (gsnoc g0 (absMove nf3)) (absMove nf6))) e5 0 := by
  obtain ⟨hw, hb, _, _⟩ := genBoard_inv (z := exZ) rfl (genGame_genBoard ex_e4_stay)
  have hs := (genBoard_sync (z := exZ) rfl ex_e4_stay).1
  exact (syncAll_other hw hb hs).1 (x := 1) (m := nc6) (w' := e5) (by decide) (push_getD (by decide +kernel))
    (by decide +kernel)

/-- 1. e4 -/
def e2e4 : Move := { ty := .jump, «from» := 11, to := 27, piece := .pawn }
def f1 : World := (e0.pushMove exZ 0 e2e4).getD default
def f2 : World := ((f1.popMove 0).getD default).1
/-- the same game with a different set-up clock -/
def g7 : Spec.Game := { start := { pos := abs startPos .white, halfmove := 7, fullmove := 1 }, moves := [] }

/-- **The clock hypothesis of `sync_pop` is necessary.** Board 0 of `f1` (initial position, 1. e4) is in `Sync` with
the reference game "initial position *with set-up clock 7*, 1. e4" (the pawn move has reset both clocks), the
take-back is accepted, and the board (clock 0) is not in `Sync` with that game without its last move (clock 7). -/
theorem sync_pop_clock_needed :
    WFWorld f1 ∧ 0 < f1.boards.size ∧ Sync exZ (gsnoc g7 (absMove e2e4)) f1 0 ∧
    f1.popMove 0 = some (f2, e2e4) ∧ ¬ Sync exZ (gpop (gsnoc g7 (absMove e2e4))) f2 0 := by
  have hgen : GenGame exZ f1 0 (gsnoc g0 (absMove e2e4)) :=
    GenGame.push ex_e0 (by decide +kernel) (push_getD (by decide +kernel))
  obtain ⟨hw, hb, _, _⟩ := genBoard_inv (z := exZ) rfl (genGame_genBoard hgen)
  have hs := (genBoard_sync (z := exZ) rfl hgen).1.sync
  refine ⟨hw, hb, sync_congr hs rfl rfl (by decide +kernel), ?_, ?_⟩
  · have hp := pop_getD (w := f1) (b := 0) (by decide +kernel)
    have hm : ((f1.popMove 0).getD default).2 = e2e4 := by decide +kernel
    rw [hm] at hp
    exact hp
  · intro h
    have hc := h.clock
    rw [gpop_gsnoc] at hc
    exact absurd hc (by decide +kernel)

end Example

end Morlock.Props.C05Sync

section Axioms
open Morlock.Props.C05Sync
#print axioms sync_pop
#print axioms Morlock.Props.C05Sync.syncAll_pop
#print axioms sync_fork
#print axioms Morlock.Props.C05Sync.syncAll_fork
#print axioms sync_other
#print axioms Morlock.Props.C05Sync.syncAll_other
#print axioms genGame_genBoard
#print axioms genBoard_sync
#print axioms genBoard_game
#print axioms draw_agrees
#print axioms position_agrees
#print axioms fen_agrees
#print axioms ex_e4_fork
#print axioms sync_pop_clock_needed
end Axioms
