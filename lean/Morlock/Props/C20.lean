import Morlock.Proofs.MirrorModel
import Morlock.Proofs.MirrorModelMoves
import Morlock.Proofs.PromoModel
/-!
# C20 — the material evaluation is colour-blind; the "no under-promotion" filter keeps a legal move

Subjects: `eval.Material.Evaluate` (model `materialPawns`), the `nup-*` exploration predicate
`!m.isUnderPromotion` (`Driver.noUnderPromo`, here `pick`), against the mailbox reference.

* `Spec.mirror` — the colour-swapping mirror of a reference position (defined in
  `Morlock/Proofs/MirrorSpec.lean`): square `8·r + f ↦ 8·(7 − r) + f`, colours of all men swapped, side to
  move swapped, castling rights exchanged between the colours, en-passant target mirrored.
* **Colour-blindness**: `material_mirror_spec`, `material_eq_spec`, `material_mirror_model`.
* **Filter**: on the reference, the legality of a promotion does not depend on the piece chosen
  (`promo_legal_any`), hence `skip_underpromo_nonempty_spec`; transported to the model through
  `C01.legal_perm` (`skip_underpromo_legal_and_nonempty`).
* **The rules are mirror-symmetric** (what the colour-blindness of any evaluation built from attacks and
  legal moves would rest on): `attackedBy_mirror`, `inCheck_mirror`, `pseudoMoves_mirror`, `apply_mirror`,
  `isLegal_mirror`, `legalMoves_mirror`, `perft_mirror`, and through C01 `model_legalMoves_mirror`.
  Hypotheses: a 64-cell board and at most one king of the side to move (both hold for the abstraction of
  every `WF` position, `sym_abs`); the second cannot be dropped (`twoKings` at the end).

Everything is proved for all positions (`WF` positions for the model's move lists); no enumeration.
The TUROCHAMP / BERNSTEIN / SARGON float heuristics are not modelled in Lean and are out of scope here.
-/
namespace Morlock.Props.C20
open Morlock Morlock.Model Morlock.Proofs Morlock.Proofs.Gen Morlock.Proofs.Mirror Morlock.Proofs.Promo

/-! ## 1. The mirror -/

/-- What `Spec.mirror` is, field by field. -/
theorem mirror_fields (p : Spec.Pos) :
    (Spec.mirror p).board.size = 64 ∧
    (∀ s, s < 64 → (Spec.mirror p).at s = Spec.mirrorCell (p.at (Spec.mirrorSq s))) ∧
    (Spec.mirror p).turn = p.turn.opp ∧
    (Spec.mirror p).wk = p.bk ∧ (Spec.mirror p).wq = p.bq ∧ (Spec.mirror p).bk = p.wk ∧ (Spec.mirror p).bq = p.wq ∧
    (Spec.mirror p).ep = p.ep.map Spec.mirrorSq :=
  ⟨Spec.mirror_board_size p, fun _ hs => Spec.mirror_at hs, rfl, rfl, rfl, rfl, rfl, rfl⟩

/-- `mirrorSq` is `8·r + f ↦ 8·(7 − r) + f` on the board, an involution, and keeps files. -/
theorem mirrorSq_spec :
    (∀ f r, f < 8 → r < 8 → Spec.mirrorSq (Spec.mkSq f r) = Spec.mkSq f (7 - r)) ∧
    (∀ s, Spec.mirrorSq (Spec.mirrorSq s) = s) ∧
    (∀ s, s < 64 → Spec.mirrorSq s < 64 ∧ Spec.fileOf (Spec.mirrorSq s) = Spec.fileOf s ∧
      Spec.rankOf (Spec.mirrorSq s) = 7 - Spec.rankOf s) :=
  ⟨fun _ _ hf hr => Spec.mirrorSq_mkSq hf hr, Spec.mirrorSq_mirrorSq,
    fun _ hs => ⟨Spec.mirrorSq_lt hs, Spec.fileOf_mirrorSq hs, Spec.rankOf_mirrorSq hs⟩⟩

/-- **Mirroring twice is the identity** on positions with a 64-cell board; likewise for moves. -/
theorem mirror_mirror {p : Spec.Pos} (h : p.board.size = 64) : Spec.mirror (Spec.mirror p) = p :=
  Spec.mirror_mirror h

/-- Mirroring a move twice gives the move back. -/
theorem mirrorMove_mirrorMove (m : Spec.SMove) : Spec.mirrorMove (Spec.mirrorMove m) = m :=
  Spec.mirrorMove_mirrorMove m

/-! ## 2. Colour-blind material -/

/-- **material_mirror_spec.** The reference material balance (side to move minus opponent) of the
    colour-swapped mirror image is that of the position — for every position. -/
theorem material_mirror_spec (p : Spec.Pos) : Spec.material (Spec.mirror p) = Spec.material p :=
  Spec.material_mirror p

/-- The generated `eval.NominalValue` table is the reference's `kindValue` (1, 3, 3, 5, 9, 100). -/
theorem nominalValue_is_kindValue :
    ∀ k : Piece, k ≠ .none → nominalValue k = Spec.kindValue (kindOf k) :=
  fun _ hk => nominalValue_eq_kindValue hk

/-- **material_eq_spec.** On a position all of whose views agree with a mailbox board, the transcription
    of `eval.Material.Evaluate` is the reference material balance of the abstracted position. -/
theorem material_eq_spec {p : Position} {b : Proofs.Board} (h : Rep p b) (turn : Color) :
    materialPawns p turn = Spec.material (abs p turn) :=
  materialPawns_eq_material h turn

/-- **material_mirror_model.** `eval.Material` is colour-blind: if `q` represents the colour-swapped
    mirror image of the board that `p` represents, then `q` evaluates for the other colour to what `p`
    evaluates for `turn`. -/
theorem material_mirror_model {p q : Position} {b : Proofs.Board} (hp : Rep p b) (hq : Rep q (mirrorBoard b))
    (turn : Color) : materialPawns q turn.opp = materialPawns p turn :=
  materialPawns_mirror hp hq turn

/-- What `mirrorBoard` is; and such a `q` always exists (with any status fields), so the previous
    theorem is not vacuous. The abstraction of `q` is cell by cell `Spec.mirror` of the abstraction of `p`. -/
theorem mirrorBoard_spec {p : Position} {b : Proofs.Board} (hp : Rep p b) :
    (∀ sq, mirrorBoard b sq = (b (Spec.mirrorSq sq)).map fun v => (v.1.opp, v.2)) ∧
    (∀ castling ep, ∃ q : Position, Rep q (mirrorBoard b) ∧ q.castling = castling ∧ q.enpassant = ep) ∧
    (∀ q turn s, Rep q (mirrorBoard b) → s < 64 → (abs q turn.opp).at s = (Spec.mirror (abs p turn)).at s) := by
  refine ⟨fun sq => ?_, fun castling ep => exists_mirror_rep hp castling ep,
    fun q turn s hq hs => abs_at_mirror hp hq turn hs⟩
  unfold mirrorBoard
  cases b (Spec.mirrorSq sq) with
  | none => rfl
  | some v => rfl

/-! ## 3. The "no under-promotion" filter -/

/-- The reference filter: not a promotion, or a promotion to a queen. -/
theorem notUnderPromo_iff (m : Spec.SMove) :
    Spec.notUnderPromo m = true ↔ m.promo = none ∨ m.promo = some .queen := by
  unfold Spec.notUnderPromo
  cases m.promo with
  | none => simp
  | some k => cases k <;> simp

/-- The model filter is the predicate of `Driver.noUnderPromo` (the `nup-static` / `nup-quiet` explorations). -/
theorem pick_def (m : Move) : pick m = !m.isUnderPromotion := rfl

/-- **Legality of a promotion does not depend on the piece chosen** (reference, every position): if a
    move carrying a promotion piece is legal, then it is a pawn move, the piece is one of Q, R, N, B, and
    the moves with the same origin and destination promoting to each of Q, R, N, B are all legal. -/
theorem promo_legal_any {p : Spec.Pos} {m : Spec.SMove} {k : Spec.Kind}
    (hm : m ∈ Spec.legalMoves p) (hk : m.promo = some k) :
    k ∈ Spec.promoKinds ∧ ∀ k' ∈ Spec.promoKinds, (⟨m.from, m.to, some k'⟩ : Spec.SMove) ∈ Spec.legalMoves p := by
  refine ⟨?_, Spec.legal_promo_any hm hk⟩
  unfold Spec.legalMoves at hm
  exact (Spec.pseudo_promo (List.mem_filter.mp hm).1 hk).2.1

/-- In particular the queen promotion is legal (`Spec.isLegal` and membership). -/
theorem promo_legal_queen {p : Spec.Pos} {m : Spec.SMove} {k : Spec.Kind}
    (hm : m ∈ Spec.legalMoves p) (hk : m.promo = some k) :
    (⟨m.from, m.to, some .queen⟩ : Spec.SMove) ∈ Spec.legalMoves p ∧
    Spec.isLegal p ⟨m.from, m.to, some .queen⟩ = true := by
  have h := Spec.legal_promo_queen hm hk
  refine ⟨h, ?_⟩
  unfold Spec.legalMoves at h
  exact (List.mem_filter.mp h).2

/-- **skip_underpromo_nonempty_spec.** On the reference, for every position: the filter keeps a legal
    move whenever there is one; it selects legal moves only, in order, each once. -/
theorem skip_underpromo_nonempty_spec (p : Spec.Pos) :
    (Spec.legalMoves p ≠ [] → (Spec.legalMoves p).filter Spec.notUnderPromo ≠ []) ∧
    ((Spec.legalMoves p).filter Spec.notUnderPromo).Sublist (Spec.legalMoves p) ∧
    ((Spec.legalMoves p).filter Spec.notUnderPromo).Nodup :=
  ⟨Spec.filter_notUnderPromo_ne_nil, (Spec.filter_notUnderPromo_sound p).1, (Spec.filter_notUnderPromo_sound p).2⟩

/-- On generated moves the engine's test is the reference's, read through `absMove`. -/
theorem pick_eq_spec {p : Position} {turn : Color} (hw : WF p turn) {m : Move}
    (hm : m ∈ p.pseudoLegalMoves turn) : pick m = Spec.notUnderPromo (absMove m) :=
  pick_eq hw hm

/-- **skip_underpromo_legal_and_nonempty.** On every `WF` position the moves the main-search filter of
    the `nup-*` explorations selects from the engine's legal moves (a) are non-empty whenever a legal move
    exists, (b) are legal moves, in generator order, (c) each once, and (d) are, read through `absMove`,
    exactly the reference legal moves that are not under-promotions. -/
theorem skip_underpromo_legal_and_nonempty {p : Position} {turn : Color} (hw : WF p turn) :
    (p.legalMoves turn ≠ [] → (p.legalMoves turn).filter (fun m => !m.isUnderPromotion) ≠ []) ∧
    ((p.legalMoves turn).filter (fun m => !m.isUnderPromotion)).Sublist (p.legalMoves turn) ∧
    ((p.legalMoves turn).filter (fun m => !m.isUnderPromotion)).Nodup ∧
    (((p.legalMoves turn).filter (fun m => !m.isUnderPromotion)).map absMove).Perm
      ((Spec.legalMoves (abs p turn)).filter Spec.notUnderPromo) :=
  ⟨filter_pick_ne_nil hw, (filter_pick_sound hw.rep turn).1, (filter_pick_sound hw.rep turn).2,
    filter_pick_perm hw⟩

/-- (b) and (c) need only `Rep`. -/
theorem skip_underpromo_sound {p : Position} {b : Proofs.Board} (h : Rep p b) (turn : Color) :
    (∀ m ∈ (p.legalMoves turn).filter (fun m => !m.isUnderPromotion), m ∈ p.legalMoves turn) ∧
    ((p.legalMoves turn).filter (fun m => !m.isUnderPromotion)).Nodup :=
  ⟨fun _ hm => (List.mem_filter.mp hm).1, (filter_pick_sound h turn).2⟩

/-- The filter does not distinguish a move from its mirror image. -/
theorem notUnderPromo_mirrorMove (m : Spec.SMove) :
    Spec.notUnderPromo (Spec.mirrorMove m) = Spec.notUnderPromo m := rfl

/-! ## 4. The rules are symmetric under the mirror -/

/-- `Spec.OneKing p c`: at most one king of colour `c` on the 64 squares. -/
theorem oneKing_iff (p : Spec.Pos) (c : Spec.Color) :
    Spec.OneKing p c ↔ ∀ s1 s2, s1 < 64 → s2 < 64 →
      p.at s1 = some (c, .king) → p.at s2 = some (c, .king) → s1 = s2 := Iff.rfl

/-- **attackedBy_mirror.** A square is attacked by `c` iff its mirror image is attacked by the other
    colour in the mirror image (every position, every square). -/
theorem attackedBy_mirror (p : Spec.Pos) (c : Spec.Color) (t : Nat) :
    Spec.attackedBy (Spec.mirror p) c.opp (Spec.mirrorSq t) = Spec.attackedBy p c t :=
  Spec.attackedBy_mirror p c t

/-- **inCheck_mirror.** With at most one king of colour `c`: `c` is in check iff the other colour is in
    check in the mirror image. -/
theorem inCheck_mirror {p : Spec.Pos} {c : Spec.Color} (hu : Spec.OneKing p c) :
    Spec.inCheck (Spec.mirror p) c.opp = Spec.inCheck p c :=
  Spec.inCheck_mirror hu

/-- **pseudoMoves_mirror.** The pseudo-legal moves of the mirror image are the mirror images of the
    pseudo-legal moves (every position). -/
theorem pseudoMoves_mirror (p : Spec.Pos) :
    (Spec.pseudoMoves (Spec.mirror p)).Perm ((Spec.pseudoMoves p).map Spec.mirrorMove) :=
  Spec.pseudoMoves_mirror p

/-- **apply_mirror.** Making a move commutes with the mirror (64-cell board, squares on the board). -/
theorem apply_mirror {p : Spec.Pos} (hsz : p.board.size = 64) {m : Spec.SMove} (hf : m.from < 64) (ht : m.to < 64) :
    Spec.apply (Spec.mirror p) (Spec.mirrorMove m) = Spec.mirror (Spec.apply p m) :=
  Spec.apply_mirror hsz hf ht

/-- **isLegal_mirror.** A pseudo-legal move is legal iff its mirror image is legal in the mirror image. -/
theorem isLegal_mirror {p : Spec.Pos} (hsz : p.board.size = 64) (hu : Spec.OneKing p p.turn) {m : Spec.SMove}
    (hm : m ∈ Spec.pseudoMoves p) :
    Spec.isLegal (Spec.mirror p) (Spec.mirrorMove m) = Spec.isLegal p m :=
  Spec.isLegal_mirror hsz hu hm

/-- **legalMoves_mirror.** On a 64-cell board with at most one king of the side to move, the legal moves
    of the colour-swapped mirror image are the mirror images of the legal moves. -/
theorem legalMoves_mirror {p : Spec.Pos} (hsz : p.board.size = 64) (hu : Spec.OneKing p p.turn) :
    (Spec.legalMoves (Spec.mirror p)).Perm ((Spec.legalMoves p).map Spec.mirrorMove) :=
  Spec.legalMoves_mirror hsz hu

/-- `Spec.Sym p`: 64 cells and at most one king of each colour. -/
theorem sym_iff (p : Spec.Pos) : Spec.Sym p ↔ p.board.size = 64 ∧ ∀ c, Spec.OneKing p c :=
  ⟨fun h => ⟨h.size, h.kings⟩, fun h => ⟨h.1, h.2⟩⟩

/-- The invariant `Spec.Sym` is kept by pseudo-legal (in particular legal) moves and by the mirror. -/
theorem sym_invariant {p : Spec.Pos} (h : Spec.Sym p) :
    (∀ m ∈ Spec.pseudoMoves p, Spec.Sym (Spec.apply p m)) ∧ Spec.Sym (Spec.mirror p) :=
  ⟨fun _ hm => h.apply hm, h.mirror⟩

/-- **perft_mirror.** Under `Spec.Sym` the number of legal move sequences of every length is the same in
    the colour-swapped mirror image: the whole game tree is mirror-symmetric. -/
theorem perft_mirror (d : Nat) {p : Spec.Pos} (h : Spec.Sym p) :
    Spec.perft d (Spec.mirror p) = Spec.perft d p :=
  Spec.perft_mirror d h

/-- The abstraction of every `WF` model position satisfies the invariant. -/
theorem sym_abs {p : Position} {turn : Color} (hw : WF p turn) : Spec.Sym (abs p turn) :=
  Mirror.sym_abs hw

/-- **model_legalMoves_mirror.** Through C01: if `p` and `q` are `WF` and `q` abstracts to the mirror image
    of `p`, the engine's legal moves in `q` are, read through `absMove`, the mirror images of its legal
    moves in `p`. -/
theorem model_legalMoves_mirror {p q : Position} {turn : Color} (hp : WF p turn) (hq : WF q turn.opp)
    (habs : abs q turn.opp = Spec.mirror (abs p turn)) :
    ((q.legalMoves turn.opp).map absMove).Perm (((p.legalMoves turn).map absMove).map Spec.mirrorMove) :=
  Mirror.model_legalMoves_mirror hp hq habs

/-- When `abs q turn.opp = Spec.mirror (abs p turn)`: `q` represents the mirrored board, has the castling
    rights of `p` with the colours exchanged and the mirrored en-passant target. -/
theorem abs_eq_mirror {p q : Position} {b : Proofs.Board} (hp : Rep p b) (hq : Rep q (mirrorBoard b)) (turn : Color)
    (hwk : (q.castling &&& wK != 0) = (p.castling &&& bK != 0))
    (hwq : (q.castling &&& wQ != 0) = (p.castling &&& bQ != 0))
    (hbk : (q.castling &&& bK != 0) = (p.castling &&& wK != 0))
    (hbq : (q.castling &&& bQ != 0) = (p.castling &&& wQ != 0))
    (hep0 : p.enpassant = 0 → q.enpassant = 0)
    (hep1 : p.enpassant ≠ 0 → q.enpassant = Spec.mirrorSq p.enpassant ∧ q.enpassant ≠ 0) :
    abs q turn.opp = Spec.mirror (abs p turn) :=
  Mirror.abs_eq_mirror hp hq turn hwk hwq hbk hbq hep0 hep1

/-! ## 5. Instances -/

/-- `exPosB` (`r3k2r/8/8/8/3Pp3/8/1p6/R3K2R b KQkq d3`) abstracts to the mirror image of `exPos`
    (`r3k2r/1P6/8/3pP3/8/8/8/R3K2R w KQkq d6`), and mirroring twice gives `exPos` back. -/
theorem exPosB_is_mirror : abs exPosB .black = Spec.mirror (abs exPos .white) := by decide +kernel

example : Spec.mirror (Spec.mirror (abs exPos .white)) = abs exPos .white :=
  mirror_mirror (Mirror.abs_size _ _)

/-- Material in `exPos`: White (to move) has two rooks and two pawns against two rooks and a pawn. -/
example : materialPawns exPos .white = 1 ∧ materialPawns exPosB .black = 1 ∧
    Spec.material (abs exPos .white) = 1 ∧ Spec.material (Spec.mirror (abs exPos .white)) = 1 := by decide +kernel

/-- Instantiating `material_eq_spec` and `material_mirror_spec`. -/
example : materialPawns exPosB .black = materialPawns exPos .white := by
  rw [material_eq_spec exPos_wf.2.rep, material_eq_spec exPos_wf.1.rep, exPosB_is_mirror, material_mirror_spec]

/-- In `exPos` White has 8 promotion moves among the 36 legal moves (b7-b8 and b7xa8, four pieces each);
    the filter keeps the two queen promotions and all non-promotions. -/
example : (exPos.legalMoves .white).length = 36 ∧
    ((exPos.legalMoves .white).filter (fun m => !m.isUnderPromotion)).length = 30 := by decide +kernel

/-- Hence, by `skip_underpromo_legal_and_nonempty` (d), the reference filter keeps 30 moves there too. -/
example : ((Spec.legalMoves (abs exPos .white)).filter Spec.notUnderPromo).length = 30 := by
  rw [← (skip_underpromo_legal_and_nonempty exPos_wf.1).2.2.2.length_eq, List.length_map]
  decide +kernel

/-- White: Kh1, Pb7; Black: Rg8, Ra2, Ke5. The white king has no move, so the only legal moves are the
    four promotions b7-b8; a filter dropping *all* promotions would leave nothing in a position that is not
    stalemate — the no-under-promotion filter leaves exactly the queen promotion. -/
def promoOnlyPos : Position :=
  (Position.newPosition
    [(0, .white, .king), (54, .white, .pawn), (57, .black, .rook), (15, .black, .rook), (35, .black, .king)] 0 0).getD {}

example : (promoOnlyPos.legalMoves .white).length = 4 ∧
    (promoOnlyPos.legalMoves .white).all (·.isPromotion) = true ∧
    (promoOnlyPos.legalMoves .white).filter (fun m => !m.isUnderPromotion) =
      [{ ty := .promotion, «from» := 54, to := 62, piece := .pawn, promotion := .queen }] := by decide +kernel

/-- On the initial position the filter removes nothing. -/
example : (startPos.legalMoves .white).filter (fun m => !m.isUnderPromotion) = startPos.legalMoves .white := by
  decide +kernel

/-- Instantiating `legalMoves_mirror` and `model_legalMoves_mirror` on `exPos` / `exPosB` (castling both
    sides, en passant, promotions): Black's legal moves in `exPosB` are the mirror images of White's in `exPos`. -/
example : (Spec.legalMoves (Spec.mirror (abs exPos .white))).Perm
      ((Spec.legalMoves (abs exPos .white)).map Spec.mirrorMove) ∧
    ((exPosB.legalMoves .black).map absMove).Perm
      (((exPos.legalMoves .white).map absMove).map Spec.mirrorMove) :=
  ⟨legalMoves_mirror (sym_abs exPos_wf.1).size ((sym_abs exPos_wf.1).kings _),
   model_legalMoves_mirror (p := exPos) (q := exPosB) (turn := .white) exPos_wf.1 exPos_wf.2 exPosB_is_mirror⟩

/-- Instantiating `perft_mirror`: the two positions have the same move-sequence counts at every depth. -/
example (d : Nat) : Spec.perft d (abs exPosB .black) = Spec.perft d (abs exPos .white) := by
  rw [exPosB_is_mirror]; exact perft_mirror d (sym_abs exPos_wf.1)

/-- The hypothesis "at most one king of the side to move" of `inCheck_mirror` / `legalMoves_mirror` cannot
    be dropped. White kings on h1 (attacked by the rook on a1) and h5 (safe), Black: Ra1, Ka8. The reference
    takes the first king in square order — h1 here, but the image of h5 in the mirror image. So White is in
    check while Black in the mirror image is not, and the pseudo-legal move Kh5-h6 is illegal although its
    mirror image is legal in the mirror image. -/
def twoKings : Spec.Pos :=
  { board := #[
      some (.white, .king), none, none, none, none, none, none, some (.black, .rook),
      none, none, none, none, none, none, none, none,
      none, none, none, none, none, none, none, none,
      none, none, none, none, none, none, none, none,
      some (.white, .king), none, none, none, none, none, none, none,
      none, none, none, none, none, none, none, none,
      none, none, none, none, none, none, none, none,
      none, none, none, none, none, none, none, some (.black, .king)]
    turn := .white, wk := false, wq := false, bk := false, bq := false, ep := none }

example : twoKings.board.size = 64 ∧
    Spec.inCheck twoKings .white = true ∧ Spec.inCheck (Spec.mirror twoKings) .black = false := by
  decide +kernel

example : (⟨32, 40, none⟩ : Spec.SMove) ∈ Spec.pseudoMoves twoKings ∧
    Spec.isLegal twoKings ⟨32, 40, none⟩ = false ∧
    Spec.isLegal (Spec.mirror twoKings) (Spec.mirrorMove ⟨32, 40, none⟩) = true := by
  decide +kernel

end Morlock.Props.C20
