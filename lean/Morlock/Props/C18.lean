import Morlock.Proofs.DetSim
import Morlock.Proofs.DetSeed
import Morlock.Proofs.DetFork
import Morlock.Proofs.DetState
import Morlock.Props.C11
import Morlock.Proofs.ChainSeed
/-!
# C18 — the search is deterministic, independent of the hash seed, and analysis never touches the game

Subjects: `Model.alphabeta` / `Model.alphaBetaSearch` / `Model.quiesce` (`Morlock/Model/Search.lean`), the search
game on the arena board `Model.boardGame z evalKey` (`Morlock/Model/BoardGame.lean`, `pushMove z` uses the
Zobrist table `z` for node hashes and the repetition map), and `World.fork` (`Morlock/Model/Board.lean`).
Evaluation noise does not exist in the model (`Game.eval` is a function of the position).

Vocabulary (`Morlock/Proofs/Det*.lean`):

* `ORel R o₁ o₂` — both `none`, or both `some` and related by `R`.
* `Sim g1 g2 R` — **simulation** between two abstract games (possibly over different position types): positions
  related by `R` agree on `isDraw`, `ply`, `moves`, `inCheck`, `eval`, and every generated move (`m ∈ g1.moves p1`)
  is refused by both `push`es or leads to related positions. The *hash is not part of it*. `SimN g1 g2 R` is the
  depth-indexed variant (`R (n+1)` steps to `R n`): all that a search of bounded depth needs.
* `leafDepth le` — plies explored below a leaf of the main search (`0` for `static`, `fuel` for quiescence).
* `SameView v1 v2` / `SameGame w1 b1 w2 b2` — the views (`Proofs.Arena.view`: board record, current node, list of
  strict ancestors with their moves; arena indices erased) of two boards are equal in every field **except the
  node hashes and the repetition map**: same positions, clocks, moves played, side to move, ply and move
  counters, has-castled flags and result.
* `SeedBase z1 z2 w1 b1 w2 b2` — both worlds well-formed, `SameGame`, and both boards have a good history
  (`GoodHistory z1 w1 b1`, `GoodHistory z2 w2 b2`: C05) each under its own table.
* `GoodTree n p t` — every generated move accepted by `Position.move` within the next `n` plies from `p` is a
  `GoodStep` of C05 (views agree, accurate metadata, made by the side to move, sound type); `GoodPlay n p t ms` —
  the same for the moves `ms` played from `p`, followed by `GoodTree n`. Decidable sufficient criteria:
  `treeCheck`, `playTreeCheck` (for positions with `PosOK`); `GoodGen J` — an invariant `J` of positions under
  which the generator only produces good steps — gives `GoodTree n` for every `n` (`goodTree_of_gen`).
  This is a **hypothesis**: it is what C05 needs for the reported draw result to be the verdict of the history
  (`draw_iff_good`), and C07 for the incremental hash to be the from-scratch hash. It is not derived from the
  generator's specification (C01) here.
* `SeedRel z1 z2 n w1 w2` — `SeedBase … w1 0 w2 0` and `GoodTree n` of the current position: the simulation
  relation between `boardGame z1 ev` and `boardGame z2 ev`.
* `SameArena w1 w2` — the literal reading: equal node by node and board by board except hashes / repetition maps.
* `shift k j f st` (`Proofs/DetState.lean`) — the state with `k` more nodes, `j` more polls, fuel flag or-ed with `f`.
* `rebase w b` — the search world of `Driver/Uci.lean` (`uciGoDepth`): the arena of `w` with board `b` (the fork)
  as board 0. `ViewRel w1 w2` — well-formed worlds whose boards 0 have equal views.
* `Balanced ops` — operation sequences of a depth-first traversal (every move taken back after its subtree).

Sections: 1 `function_of_game` · 2 `seed_independent` · 3 `repeatable` · 4 `analysis_isolated` · 5 examples.
-/
namespace Morlock.Props.C18
open Morlock Morlock.Model Morlock.Model.World Morlock.Model.Score Morlock.Proofs Morlock.Proofs.Arena
  Morlock.Proofs.Draw Morlock.Proofs.Det
variable {P P1 P2 : Type}

/-! ## 1. the result is a function of what the game lets the search observe -/

/-- **function_of_game.** Let `R` be a simulation between `g1` and `g2` (hashes *not* compared). Without a table
(`st.tt.slots.size = 0`), from related positions, with the same window and the same state (hence the same
`cancelAt` / `polls`), the two searches return literally the same triple: score, principal variation and final
state — node count, poll count, `fuelOut`, and the (still empty) table. -/
theorem function_of_game {g1 : Game P1} {g2 : Game P2} {R : P1 → P2 → Prop} (hsim : Sim g1 g2 R)
    {ex1 : P1 → Explore} {ex2 : P2 → Explore} (hex : ExRel (fun _ => R) ex1 ex2)
    {le1 : LeafEval P1} {le2 : LeafEval P2} (hle : LeRel (fun _ => R) le1 le2)
    (rootPly : Int) (d : Nat) {p1 : P1} {p2 : P2} (h : R p1 p2) (alpha beta : Score) (st : SState)
    (htt : st.tt.slots.size = 0) :
    alphabeta g1 ex1 le1 rootPly d p1 alpha beta st = alphabeta g2 ex2 le2 rootPly d p2 alpha beta st :=
  alphabeta_congr hsim.simN (ttInv_empty g1 g2 _) hex hle rootPly d (d + leafDepth le1) p1 p2 h (Nat.le_refl _)
    alpha beta st htt

/-- **function_of_game**, bounded form: a depth-indexed simulation `R` and positions related at an index
`n ≥ d + leafDepth le` suffice. -/
theorem function_of_game_bounded {g1 : Game P1} {g2 : Game P2} {R : Nat → P1 → P2 → Prop} (hsim : SimN g1 g2 R)
    {ex1 : P1 → Explore} {ex2 : P2 → Explore} (hex : ExRel R ex1 ex2)
    {le1 : LeafEval P1} {le2 : LeafEval P2} (hle : LeRel R le1 le2)
    (rootPly : Int) (d n : Nat) (hn : d + leafDepth le1 ≤ n) {p1 : P1} {p2 : P2}
    (h : R n p1 p2) (alpha beta : Score) (st : SState) (htt : st.tt.slots.size = 0) :
    alphabeta g1 ex1 le1 rootPly d p1 alpha beta st = alphabeta g2 ex2 le2 rootPly d p2 alpha beta st :=
  alphabeta_congr hsim (ttInv_empty g1 g2 R) hex hle rootPly d n p1 p2 h hn alpha beta st htt

/-- **function_of_game** with a table of any size and content: it then suffices that related positions also
carry the same hash. -/
theorem function_of_game_tt {g1 : Game P1} {g2 : Game P2} {R : P1 → P2 → Prop} (hsim : Sim g1 g2 R)
    (hhash : ∀ {p1 p2}, R p1 p2 → g1.hash p1 = g2.hash p2)
    {ex1 : P1 → Explore} {ex2 : P2 → Explore} (hex : ExRel (fun _ => R) ex1 ex2)
    {le1 : LeafEval P1} {le2 : LeafEval P2} (hle : LeRel (fun _ => R) le1 le2) (rootPly : Int) (d : Nat)
    {p1 : P1} {p2 : P2} (h : R p1 p2) (alpha beta : Score) (st : SState) :
    alphabeta g1 ex1 le1 rootPly d p1 alpha beta st = alphabeta g2 ex2 le2 rootPly d p2 alpha beta st :=
  alphabeta_congr hsim.simN (ttInv_hash (R := fun _ => R) (fun h => hhash h)) hex hle rootPly d (d + leafDepth le1) p1 p2
    h (Nat.le_refl _) alpha beta st trivial

/-- **function_of_game** for `Quiescence` (which never looks at the hash or the table: any state). -/
theorem function_of_game_quiesce {g1 : Game P1} {g2 : Game P2} {R : P1 → P2 → Prop} (hsim : Sim g1 g2 R)
    {ex1 : P1 → Explore} {ex2 : P2 → Explore} (hex : ExRel (fun _ => R) ex1 ex2) (fuel : Nat) {p1 : P1} {p2 : P2}
    (h : R p1 p2) (alpha beta : Score) (st : SState) :
    quiesce g1 ex1 fuel p1 alpha beta st = quiesce g2 ex2 fuel p2 alpha beta st :=
  quiesce_congr hsim.simN ex1 ex2 hex fuel fuel p1 p2 h (Nat.le_refl _) alpha beta st

/-- **function_of_game** for `QuietSearch` (static leaf or quiescence). -/
theorem function_of_game_quietSearch {g1 : Game P1} {g2 : Game P2} {R : P1 → P2 → Prop} (hsim : Sim g1 g2 R)
    {le1 : LeafEval P1} {le2 : LeafEval P2} (hle : LeRel (fun _ => R) le1 le2) {p1 : P1} {p2 : P2} (h : R p1 p2)
    (alpha beta : Score) (st : SState) :
    quietSearch g1 le1 p1 alpha beta st = quietSearch g2 le2 p2 alpha beta st :=
  quietSearch_congr hsim.simN hle (n := leafDepth le1) h (Nat.le_refl _) alpha beta st

/-- **function_of_game** for `AlphaBeta.Search`: the same reported result (`none` = halted, or node count, score
and PV) and the same final state. -/
theorem function_of_game_search {g1 : Game P1} {g2 : Game P2} {R : P1 → P2 → Prop} (hsim : Sim g1 g2 R)
    {ex1 : P1 → Explore} {ex2 : P2 → Explore} (hex : ExRel (fun _ => R) ex1 ex2)
    {le1 : LeafEval P1} {le2 : LeafEval P2} (hle : LeRel (fun _ => R) le1 le2) {p1 : P1} {p2 : P2} (h : R p1 p2)
    (d : Nat) (a b : Score) (st : SState)
    (htt : st.tt.slots.size = 0) :
    alphaBetaSearch g1 ex1 le1 p1 d a b st = alphaBetaSearch g2 ex2 le2 p2 d a b st :=
  alphaBetaSearch_congr hsim.simN (ttInv_empty g1 g2 _) hex hle (n := d + leafDepth le1) h d (Nat.le_refl _) a b st htt

/-- In particular the hash function of a game is irrelevant without a table: replace it by anything. -/
theorem hash_irrelevant (g : Game P) (hash' : P → Nat) (ex : P → Explore) (le : LeafEval P) (rootPly : Int) (d : Nat)
    (p : P) (alpha beta : Score) (st : SState) (htt : st.tt.slots.size = 0) :
    alphabeta g ex le rootPly d p alpha beta st = alphabeta { g with hash := hash' } ex le rootPly d p alpha beta st := by
  apply function_of_game (R := fun p q => p = q) _ (ExRel.eq ex) (LeRel.eq le) rootPly d rfl alpha beta st htt
  refine ⟨?_, ?_, ?_, ?_, ?_, ?_⟩ <;> intro p1 p2
  · rintro rfl; rfl
  · rintro rfl; rfl
  · rintro rfl; rfl
  · rintro rfl; rfl
  · rintro rfl; rfl
  · intro m h _
    subst h
    show ORel _ (g.push p1 m) (g.push p1 m)
    cases g.push p1 m <;> simp [ORel]

/-! ## 2. the search on the arena board does not depend on the Zobrist table -/

/-- **The simulation step** (`SameGame` is preserved by `pushMove`, with equal reported result). Two boards, each
with a good history under its own table, show the same game; a move that is a `GoodStep` whenever
`Position.move` accepts it is refused by both boards or accepted by both, and afterwards the boards again show
the same game — in particular they report the *same result* — and have good histories. (Derived from C05
`draw_iff_good` on both sides; nothing about the verdict is assumed.) -/
theorem sameGame_step {z1 z2 : ZTable} (hz1 : z1.enpassant 0 = 0) (hz2 : z2.enpassant 0 = 0) {w1 w2 : World}
    {b1 b2 : Nat} (h : SeedBase z1 z2 w1 b1 w2 b2) {m : Move}
    (hstep : ∀ q, (w1.cur b1).pos.move m = some q → GoodStep (w1.cur b1).pos (w1.board b1).turn m q) :
    ORel (fun w1' w2' => SeedBase z1 z2 w1' b1 w2' b2 ∧ (w1'.board b1).result = (w2'.board b2).result)
      (w1.pushMove z1 b1 m) (w2.pushMove z2 b2 m) :=
  (sameGame_push hz1 hz2 h hstep).imp fun _ _ _ _ hb => ⟨hb, hb.same.result⟩

/-- Hence `SeedRel z1 z2` is a (depth-indexed) simulation between the search games of the two tables. -/
theorem seed_simulation {z1 z2 : ZTable} (hz1 : z1.enpassant 0 = 0) (hz2 : z2.enpassant 0 = 0)
    (ev : Position → Color → Int) : SimN (boardGame z1 ev) (boardGame z2 ev) (SeedRel z1 z2) :=
  seed_simN hz1 hz2 ev

/-- **seed_independent.** Let board 0 of `w1` (hashed with `z1`) and board 0 of `w2` (hashed with `z2`) show the
same game, each with a good history under its own table, and let every generated move accepted within the next
`n ≥ d + leafDepth le` plies be a good step (`SeedRel z1 z2 n w1 w2`). Then, without a table, the two searches
return the same result (halted or not, node count, score, PV) and the same final state. -/
theorem seed_independent {z1 z2 : ZTable} (hz1 : z1.enpassant 0 = 0) (hz2 : z2.enpassant 0 = 0)
    (ev : Position → Color → Int) (ex : World → Explore) (le : LeafEval World)
    (hex : ExRel (SeedRel z1 z2) ex ex) (hle : LeRel (SeedRel z1 z2) le le) {n : Nat} {w1 w2 : World}
    (h : SeedRel z1 z2 n w1 w2) (d : Nat) (hn : d + leafDepth le ≤ n) (a b : Score) (st : SState)
    (htt : st.tt.slots.size = 0) :
    alphaBetaSearch (boardGame z1 ev) ex le w1 d a b st = alphaBetaSearch (boardGame z2 ev) ex le w2 d a b st :=
  alphaBetaSearch_congr (seed_simN hz1 hz2 ev) (ttInv_empty _ _ _) hex hle h d hn a b st htt

/-- **seed_independent** for `alphabeta` itself (any root ply, any window). -/
theorem seed_independent_alphabeta {z1 z2 : ZTable} (hz1 : z1.enpassant 0 = 0) (hz2 : z2.enpassant 0 = 0)
    (ev : Position → Color → Int) (ex : World → Explore) (le : LeafEval World)
    (hex : ExRel (SeedRel z1 z2) ex ex) (hle : LeRel (SeedRel z1 z2) le le) (rootPly : Int) {n : Nat} {w1 w2 : World}
    (h : SeedRel z1 z2 n w1 w2) (d : Nat) (hn : d + leafDepth le ≤ n) (alpha beta : Score) (st : SState)
    (htt : st.tt.slots.size = 0) :
    alphabeta (boardGame z1 ev) ex le rootPly d w1 alpha beta st =
      alphabeta (boardGame z2 ev) ex le rootPly d w2 alpha beta st :=
  alphabeta_congr (seed_simN hz1 hz2 ev) (ttInv_empty _ _ _) hex hle rootPly d n w1 w2 h hn alpha beta st htt

/-- **seed_independent, worlds built by the same operations.** Set up a board on `pos` (clock `np ≥ 0`) in the
empty world with table `z1`, and another with table `z2`; play the same moves `ms` on both. If the moves are good
steps and so is every generated move within `n ≥ d + leafDepth le` plies of the position reached (`GoodPlay`),
then both move sequences are accepted or both refused, and in the former case the searches of the two worlds
return the same result and final state. -/
theorem seed_independent_play {z1 z2 : ZTable} (hz1 : z1.enpassant 0 = 0) (hz2 : z2.enpassant 0 = 0)
    (ev : Position → Color → Int) (ex : World → Explore) (le : LeafEval World)
    (hex : ExRel (SeedRel z1 z2) ex ex) (hle : LeRel (SeedRel z1 z2) le le) (pos : Position) (turn : Color) {np : Int}
    (hnp : 0 ≤ np) (fm : Int) (ms : List Move) (n : Nat) (hgood : GoodPlay n pos turn ms) (d : Nat)
    (hn : d + leafDepth le ≤ n) (a b : Score) (st : SState) (htt : st.tt.slots.size = 0) :
    ORel (fun w1 w2 => SeedRel z1 z2 n w1 w2 ∧
        alphaBetaSearch (boardGame z1 ev) ex le w1 d a b st = alphaBetaSearch (boardGame z2 ev) ex le w2 d a b st)
      (pushAll z1 0 (({} : World).newBoard z1 pos turn np fm).1 ms)
      (pushAll z2 0 (({} : World).newBoard z2 pos turn np fm).1 ms) := by
  have hbase := seedBase_newBoard z1 z2 wf_empty wf_empty pos turn fm hnp
  have hg : GoodPlay n ((({} : World).newBoard z1 pos turn np fm).1.cur 0).pos
      ((({} : World).newBoard z1 pos turn np fm).1.board 0).turn ms := by
    have hc := newBoard_cur ({} : World) z1 pos turn np fm
    have h0 : (({} : World).newBoard z1 pos turn np fm).2 = 0 := rfl
    rw [h0] at hc
    rw [hc.1, hc.2.1]
    exact hgood
  exact (seedRel_pushAll hz1 hz2 n ms hbase hg).imp fun w1 w2 _ _ hr =>
    ⟨hr, seed_independent hz1 hz2 ev ex le hex hle hr d hn a b st htt⟩

/-- The arena-level reading of `SameGame`: worlds that are literally equal — node by node (position, clock,
`next`, `prev`) and board by board (flags, counters, side, result, current index) — except for the node hashes and
the repetition maps (`SameArena`) show the same game on every board. (`SameGame` itself is weaker: it only
compares what a board can read, so unreachable nodes and arena indices do not matter.) -/
theorem sameGame_of_equal_up_to_hashes {w1 w2 : World} (h : SameArena w1 w2) (b : Nat) : SameGame w1 b w2 b :=
  sameGame_of_sameArena h b

/-- `SameGame` says nothing about hashes: it is reflexive, symmetric and transitive, and a board shows the same
game as itself whatever table it was hashed with. -/
theorem sameGame_equiv :
    (∀ (w : World) (b : Nat), SameGame w b w b) ∧
    (∀ {w1 w2 : World} {b1 b2 : Nat}, SameGame w1 b1 w2 b2 → SameGame w2 b2 w1 b1) ∧
    (∀ {w1 w2 w3 : World} {b1 b2 b3 : Nat}, SameGame w1 b1 w2 b2 → SameGame w2 b2 w3 b3 → SameGame w1 b1 w3 b3) :=
  ⟨fun _ _ => SameView.refl _, fun h => h.symm, fun h h' => h.trans h'⟩

/-! ## 3. the search is a function -/

/-- **repeatable.** `alphabeta` / `alphaBetaSearch` are functions of their arguments: the game, exploration, leaf
evaluation, depth, position, window and the state passed in (`SState`: table, counters, cancellation instant).
Repeating a search with the same arguments returns the same result; a search run before or alongside it — on this
or on another world, game or state — cannot influence it, because the model has no other state: whatever is to be
carried from one search to the next has to be passed in through `st`. -/
theorem repeatable (g : Game P) (ex : P → Explore) (le : LeafEval P) (d : Nat) {p p' : P} {a a' b b' : Score}
    {st st' : SState} (hp : p = p') (ha : a = a') (hb : b = b') (hst : st = st') :
    alphaBetaSearch g ex le p d a b st = alphaBetaSearch g ex le p' d a' b' st' := by
  subst hp ha hb hst; rfl

/-- **repeatable**, another search in between: running any search `other` (of any game, from any state) first and
then ours from `st` gives what ours gives alone — nothing but the arguments is shared. -/
theorem repeatable_after {Q : Type} (g' : Game Q) (ex' : Q → Explore) (le' : LeafEval Q) (q : Q) (d' : Nat) (a' b' : Score)
    (st' : SState) (g : Game P) (ex : P → Explore) (le : LeafEval P) (p : P) (d : Nat) (a b : Score) (st : SState) :
    (let _other := alphaBetaSearch g' ex' le' q d' a' b' st'
     alphaBetaSearch g ex le p d a b st) = alphaBetaSearch g ex le p d a b st := rfl

/-- **The state left by earlier searches does not matter** (no cancellation). A search state carries, besides the
table, only counters (`nodes`, `polls`) and the flag `fuelOut`; they are only ever added to / or-ed
(`Proofs.Det.alphabeta_shift`). So from any two states with the same table and no cancellation instant,
`alphaBetaSearch` reports the same result: halted or not, node count, score and PV. -/
theorem state_irrelevant (g : Game P) (ex : P → Explore) (le : LeafEval P) (p : P) (d : Nat) (a b : Score)
    {st1 st2 : SState} (htt : st1.tt = st2.tt) (h1 : st1.cancelAt = none) (h2 : st2.cancelAt = none) :
    (alphaBetaSearch g ex le p d a b st1).1 = (alphaBetaSearch g ex le p d a b st2).1 := by
  rw [alphaBetaSearch_fresh g ex le p d a b st1 h1, alphaBetaSearch_fresh g ex le p d a b st2 h2, htt]

/-- **repeatable, with the state threaded through.** Start without a table and without cancellation; run any
other search first (any game, position, depth, window) and hand the state it leaves to ours: ours reports exactly
what it reports when run first. (The other search leaves the table field untouched and the cancellation instant
unchanged; its counters are irrelevant by `state_irrelevant`.) -/
theorem repeatable_threaded {Q : Type} (g' : Game Q) (ex' : Q → Explore) (le' : LeafEval Q) (q : Q) (d' : Nat) (a' b' : Score)
    (g : Game P) (ex : P → Explore) (le : LeafEval P) (p : P) (d : Nat) (a b : Score) (st : SState)
    (htt : st.tt.slots.size = 0) (hc : st.cancelAt = none) :
    (alphaBetaSearch g ex le p d a b (alphaBetaSearch g' ex' le' q d' a' b' st).2).1 =
      (alphaBetaSearch g ex le p d a b st).1 :=
  state_irrelevant g ex le p d a b (alphaBetaSearch_tt_empty g' ex' le' q d' a' b' st htt)
    ((alphaBetaSearch_cancelAt g' ex' le' q d' a' b' st).trans hc) hc

/-- In particular a search repeated on the state its first run left behind reports the same again. -/
theorem repeatable_twice (g : Game P) (ex : P → Explore) (le : LeafEval P) (p : P) (d : Nat) (a b : Score) (st : SState)
    (htt : st.tt.slots.size = 0) (hc : st.cancelAt = none) :
    (alphaBetaSearch g ex le p d a b (alphaBetaSearch g ex le p d a b st).2).1 =
      (alphaBetaSearch g ex le p d a b st).1 :=
  repeatable_threaded g ex le p d a b g ex le p d a b st htt hc

/-- When a table *is* carried over (`st.tt` of a previous search), the result can differ only through it — and by
C11 the root score does not: over any sound table, without cancellation, at the full window, it is the score of
the search without a table (`C11.transparent`). -/
theorem carried_table_same_score (g : Game P) (ex : P → Explore) (le : LeafEval P) (rootPly : Int)
    (hev : Proofs.AB.EvalOk g) (hh : Proofs.AB.HashOK g ex le) (hrf : Proofs.AB.RootFree g rootPly) (d : Nat)
    (hd : Proofs.AB.leafGrade le + d ≤ 127) (p : P) (st : SState) (hs : Proofs.AB.Sound g ex le st.tt)
    (hc : st.cancelAt = none) (st0 : SState) (h0 : st0.tt.slots.size = 0) (hc0 : st0.cancelAt = none) :
    (alphabeta g ex le rootPly d p negInfScore infScore st).1 =
      (alphabeta g ex le rootPly d p negInfScore infScore st0).1 :=
  (C11.transparent g ex le rootPly hev hh hrf d hd p st hs hc st0 h0 hc0).2

/-- **seed_independent, with a table on each side.** Two engines show the same game, hashed with two different Zobrist
tables `z1`, `z2`, and each searches over its *own* transposition table (`st1.tt`, `st2.tt`: any size, any content that
is sound for its own game on the region `R1` / `R2` its search explores - C11's hypotheses, in the region form that chess
trees satisfy: `C11.transparent_on`, instantiated on chess in `Proofs/ABChessTree.lean` - e.g. what its earlier searches
left, `C11.sound_preserved_on`; a fresh table is sound). At the
full window and without cancellation the two root scores are equal: by `C11.transparent` each equals the score of its
table-free search, and those agree by `seed_independent_alphabeta`. (Node counts and PVs are not claimed: which entries
collide depends on the seed.) -/
theorem seed_independent_with_tables {z1 z2 : ZTable} (hz1 : z1.enpassant 0 = 0) (hz2 : z2.enpassant 0 = 0)
    (ev : Position → Color → Int) (ex : World → Explore) (le : LeafEval World)
    (hex : ExRel (SeedRel z1 z2) ex ex) (hle : LeRel (SeedRel z1 z2) le le) (rootPly : Int) {n : Nat} {w1 w2 : World}
    (h : SeedRel z1 z2 n w1 w2) (d : Nat) (hn : d + leafDepth le ≤ n)
    (hev1 : Proofs.AB.EvalOk (boardGame z1 ev)) (hev2 : Proofs.AB.EvalOk (boardGame z2 ev))
    {R1 R2 : Nat → World → Prop} (hcl1 : Proofs.AB.Closed (boardGame z1 ev) ex R1)
    (hcl2 : Proofs.AB.Closed (boardGame z2 ev) ex R2)
    (hh1 : Proofs.AB.HashOKOn (boardGame z1 ev) ex le R1) (hh2 : Proofs.AB.HashOKOn (boardGame z2 ev) ex le R2)
    (hrf1 : Proofs.AB.RootFreeOn (boardGame z1 ev) R1 rootPly) (hrf2 : Proofs.AB.RootFreeOn (boardGame z2 ev) R2 rootPly)
    (hp1 : R1 d w1) (hp2 : R2 d w2)
    (hd : Proofs.AB.leafGrade le + d ≤ 127) (st1 st2 : SState)
    (hs1 : Proofs.AB.SoundOn (boardGame z1 ev) ex le R1 st1.tt) (hs2 : Proofs.AB.SoundOn (boardGame z2 ev) ex le R2 st2.tt)
    (hc1 : st1.cancelAt = none) (hc2 : st2.cancelAt = none) :
    (alphabeta (boardGame z1 ev) ex le rootPly d w1 negInfScore infScore st1).1 =
      (alphabeta (boardGame z2 ev) ex le rootPly d w2 negInfScore infScore st2).1 := by
  have e1 := (C11.transparent_on (boardGame z1 ev) ex le rootPly hev1 hcl1 hh1 hrf1 d hd w1 hp1 st1 hs1 hc1 {} rfl rfl).2
  have e2 := (C11.transparent_on (boardGame z2 ev) ex le rootPly hev2 hcl2 hh2 hrf2 d hd w2 hp2 st2 hs2 hc2 {} rfl rfl).2
  rw [e1, e2, seed_independent_alphabeta hz1 hz2 ev ex le hex hle rootPly h d hn negInfScore infScore {} rfl]

/-! ## 4. analysis never alters the engine's game -/

/-- **analysis_isolated.** Fork board 0 of the engine's world `w` (as `Engine.Analyze` does) and let the search do
any sequence of moves and take-backs on the fork that never goes below the fork point (`above 0 ops`; C08). Then
everything board 0 reports (`obs`: position, side, hash, clocks, counters, flags, last moves, `hasMoved`, the whole
repetition map, `identicalPositionCount`, result class) and its result are unchanged. -/
theorem analysis_isolated {w w' : World} {z : ZTable} {ops : List Op} (hw : WFWorld w) (hb : 0 < w.boards.size)
    (habove : above 0 ops = true) (hrun : run z (w.fork 0).2 (w.fork 0).1 ops = some w') :
    obs w' 0 = obs w 0 ∧ (w'.board 0).result = (w.board 0).result :=
  C08.fork_isolated_original hw hb habove hrun

/-- A depth-first search pushes and pops in balance (`Balanced`), and may be interrupted at any moment: every
prefix of a balanced sequence stays above the fork point, so `analysis_isolated` applies to it. -/
theorem analysis_isolated_balanced {w w' : World} {z : ZTable} {ops rest : List Op} (hw : WFWorld w)
    (hb : 0 < w.boards.size) (hbal : Balanced (ops ++ rest)) (hrun : run z (w.fork 0).2 (w.fork 0).1 ops = some w') :
    obs w' 0 = obs w 0 ∧ (w'.board 0).result = (w.board 0).result :=
  analysis_isolated hw hb (above_prefix ops rest 0 (above_balanced hbal 0)) hrun

/-- Forking itself does not disturb board 0 either, and the fork starts out reporting what board 0 reports. -/
theorem fork_harmless {w : World} (hw : WFWorld w) (hb : 0 < w.boards.size) :
    obs (w.fork 0).1 0 = obs w 0 ∧ obs (w.fork 0).1 (w.fork 0).2 = obs w 0 ∧
      ((w.fork 0).1.board (w.fork 0).2).result = (w.board 0).result :=
  ⟨(C08.fork_shares_past hw hb).2.1, (C08.fork_shares_past hw hb).1, (C08.fork_shares_past hw hb).2.2.1⟩

/-- **The search sees the fork exactly as it would see the engine's own board.** The search world of
`uciGoDepth` — `rebase` of the forked world: the fork as board 0 — has, on board 0, the view of the engine's board 0;
so with any table and any cancellation instant the search returns what it would return on the engine's world
itself. -/
theorem analysis_sees_the_game (z : ZTable) (ev : Position → Color → Int) (ex : World → Explore) (le : LeafEval World)
    (hex : ExRel (fun _ => ViewRel) ex ex) (hle : LeRel (fun _ => ViewRel) le le) {w : World}
    (hw : WFWorld w) (hb : 0 < w.boards.size) (d : Nat) (a b : Score) (st : SState) :
    alphaBetaSearch (boardGame z ev) ex le (rebase (w.fork 0).1 (w.fork 0).2) d a b st =
      alphaBetaSearch (boardGame z ev) ex le w d a b st := by
  obtain ⟨hv, hwf, hlt⟩ := viewRel_fork hw 0
  exact search_of_view_eq z ev ex le hex hle ⟨hwf, hw, hlt, hb, hv⟩ d a b st

/-- The engine's analysis step in the model: fork board 0, hand the search the rebased world, keep the world. -/
def analyze (z : ZTable) (ev : Position → Color → Int) (ex : World → Explore) (le : LeafEval World) (w : World) (d : Nat)
    (st : SState) : (Option SearchResult × SState) × World :=
  (alphaBetaSearch (boardGame z ev) ex le (rebase (w.fork 0).1 (w.fork 0).2) d invalidScore invalidScore st, w)

/-- **The model search is pure**: `alphaBetaSearch` returns a result and a search state, no world. So the engine's
world after analysis is literally the world before — and what the analysis reports is what a search of the engine's
own board would report. -/
theorem analyze_pure (z : ZTable) (ev : Position → Color → Int) (ex : World → Explore) (le : LeafEval World)
    (hex : ExRel (fun _ => ViewRel) ex ex) (hle : LeRel (fun _ => ViewRel) le le) {w : World}
    (hw : WFWorld w) (hb : 0 < w.boards.size) (d : Nat) (st : SState) :
    (analyze z ev ex le w d st).2 = w ∧
    (analyze z ev ex le w d st).1 = alphaBetaSearch (boardGame z ev) ex le w d invalidScore invalidScore st :=
  ⟨rfl, analysis_sees_the_game z ev ex le hex hle hw hb d _ _ st⟩

/-! ## 5. the hypotheses are satisfiable -/

section Example
open C13 (tiny allMoves mv)

/-- The tiny game of C13 played on positions shifted by 100, with another hash function. -/
def tiny' : Game Nat where
  isDraw := fun q => q == 104
  hash := fun q => 7 * q + 3
  ply := fun q => if q = 100 then 0 else if q < 103 then 1 else 2
  moves := fun q => if q < 103 then [mv 0, mv 1, mv 2] else [mv 0]
  push := fun q m => if q < 103 ∧ m.to < 2 then some (2 * (q - 100) + 1 + m.to + 100) else none
  inCheck := fun q => q == 103
  eval := fun q => 10 * (((q - 100) % 8 : Nat) : Int) - 35

/-- `q = p + 100` is a simulation between `tiny` and `tiny'` (their hashes differ everywhere). -/
theorem tiny_sim : Sim tiny tiny' (fun p q => q = p + 100) := by
  refine ⟨?_, ?_, ?_, ?_, ?_, ?_⟩
  · rintro p q rfl; simp [tiny, tiny']
  · rintro p q rfl
    simp only [tiny, tiny']
    by_cases h0 : p = 0
    · simp [h0]
    · by_cases h3 : p < 3
      · have : p + 100 < 103 := by omega
        simp [h0, h3, this]
      · have : ¬ p + 100 < 103 := by omega
        simp [h0, h3, this]
  · rintro p q rfl
    simp only [tiny, tiny']
    by_cases h3 : p < 3
    · have : p + 100 < 103 := by omega
      simp [h3, this]
    · have : ¬ p + 100 < 103 := by omega
      simp [h3, this]
  · rintro p q rfl; simp [tiny, tiny']
  · rintro p q rfl; simp [tiny, tiny']
  · rintro p q m rfl _
    simp only [tiny, tiny']
    by_cases h3 : p < 3 ∧ m.to < 2
    · have : p + 100 < 103 ∧ m.to < 2 := ⟨by omega, h3.2⟩
      rw [if_pos h3, if_pos this]
      show _ = _
      omega
    · have : ¬ (p + 100 < 103 ∧ m.to < 2) := fun c => h3 ⟨by omega, c.2⟩
      rw [if_neg h3, if_neg this]
      trivial

/-- `function_of_game` instantiated: same score, PV and final state on `tiny` from 0 and on `tiny'` from 100 —
main search with quiescence leaves, any window — although no two related positions have the same hash. -/
example (alpha beta : Score) :
    alphabeta tiny allMoves (.quiescence allMoves 2) 0 2 0 alpha beta {} =
      alphabeta tiny' allMoves (.quiescence allMoves 2) 0 2 100 alpha beta {} :=
  function_of_game tiny_sim (fun _ _ _ _ => rfl) (.quiescence 2 (fun _ _ _ _ => rfl)) 0 2 rfl alpha beta {} rfl

example : ∀ p, tiny.hash p ≠ tiny'.hash (p + 100) := by
  intro p; simp only [tiny, tiny', id]; omega

/-- Evaluated cross-check of that instance. -/
example :
    (alphabeta tiny allMoves .static 0 3 0 negInfScore infScore {}).1 = heuristicScore 0 ∧
    (alphabeta tiny' allMoves .static 0 3 100 negInfScore infScore {}).1 = heuristicScore 0 ∧
    (alphabeta tiny allMoves .static 0 3 0 negInfScore infScore {}).2.1 =
      (alphabeta tiny' allMoves .static 0 3 100 negInfScore infScore {}).2.1 ∧
    (alphabeta tiny allMoves .static 0 3 0 negInfScore infScore {}).2.2.nodes =
      (alphabeta tiny' allMoves .static 0 3 100 negInfScore infScore {}).2.2.nodes := by decide

/-- `repeatable_threaded` instantiated, and evaluated: a depth-3 search of `tiny` run after a depth-2 search of
`tiny'` on the state that one left behind (its counters are not zero) reports what it reports alone. -/
example :
    (alphaBetaSearch tiny allMoves .static 0 3 invalidScore invalidScore
      (alphaBetaSearch tiny' allMoves .static 100 2 invalidScore invalidScore {}).2).1 =
    (alphaBetaSearch tiny allMoves .static 0 3 invalidScore invalidScore {}).1 :=
  repeatable_threaded tiny' allMoves .static 100 2 _ _ tiny allMoves .static 0 3 _ _ {} rfl rfl

example :
    (alphaBetaSearch tiny' allMoves .static 100 2 invalidScore invalidScore {}).2.nodes = 6 ∧
    (alphaBetaSearch tiny allMoves .static 0 3 invalidScore invalidScore
      (alphaBetaSearch tiny' allMoves .static 100 2 invalidScore invalidScore {}).2).1.map (·.nodes) =
    (alphaBetaSearch tiny allMoves .static 0 3 invalidScore invalidScore {}).1.map (·.nodes) := by decide

/-- A second toy Zobrist table (`enpassant 0 = 0`), unrelated to `exZ` of C07. -/
def exZ2 : ZTable where
  pieces c k sq := 31 * (64 * (7 * c.code + k.code) + sq) + 5
  castling c := 17 * c + 3
  enpassant e := 7 * e
  turn c := 1000 * (c.code + 1)

/-- The K + N v K + N board of C05 (`C05.wS`, hashed with `exZ`), and the same set-up hashed with `exZ2`. -/
def wS2 : World := (({} : World).newBoard exZ2 C05.exPos .white 0 1).1

/-- Every generated move within two plies of the start position passes the decidable criterion. -/
theorem ex_treeCheck : treeCheck 2 C05.exPos .white = true := by decide +kernel

/-- The two boards are related by the simulation relation (depth 2). -/
theorem ex_seedRel : SeedRel exZ exZ2 2 C05.wS wS2 := by
  refine ⟨seedBase_newBoard exZ exZ2 wf_empty wf_empty C05.exPos .white 1 (Int.le_refl 0), ?_⟩
  have hc := newBoard_cur ({} : World) exZ C05.exPos .white 0 1
  have h0 : (({} : World).newBoard exZ C05.exPos .white 0 1).2 = 0 := rfl
  rw [h0] at hc
  show GoodTree 2 (C05.wS.cur 0).pos (C05.wS.board 0).turn
  have e1 : C05.wS.cur 0 = { pos := C05.exPos, noprogress := 0, hash := exZ.hash C05.exPos .white } := hc.1
  have e2 : (C05.wS.board 0).turn = .white := hc.2.1
  rw [e1, e2]
  exact goodTree_of_treeCheck 2 C05.exPos .white C05.exPos_ok ex_treeCheck

/-- `seed_independent` instantiated: the depth-2 material search (as `uciGoDepth` runs it) returns the same on
both boards … -/
example :
    alphaBetaSearch (materialGame exZ) (constEx fullExploration) .static C05.wS 2 invalidScore invalidScore {} =
      alphaBetaSearch (materialGame exZ2) (constEx fullExploration) .static wS2 2 invalidScore invalidScore {} :=
  seed_independent (z1 := exZ) (z2 := exZ2) rfl rfl _ (constEx fullExploration) .static (ExRel.const _ _) .static ex_seedRel 2 (Nat.le_refl 2) _ _ {} rfl

/-- … although the hashes of the two start nodes differ. -/
example : (C05.wS.cur 0).hash ≠ (wS2.cur 0).hash := by decide +kernel

/-- Seven moves of knight shuffling (`1. Nf3 Nf6 2. Ng1 Ng8 3. Nf3 Nf6 4. Ng1`): the next `… Ng8` repeats the
start position for the third time. -/
def ms7 : List Move := C05.shuffle ++ [C05.nf3, C05.nf6, C05.ng1]

theorem ex_playCheck : playTreeCheck 1 C05.exPos .white ms7 = true := by decide +kernel

/-- `seed_independent_play` instantiated on that game: a search position where one generated move runs into a
three-fold repetition that `pushMove` finds through the (hash-keyed) repetition map. -/
example :
    ORel (fun w1 w2 => SeedRel exZ exZ2 1 w1 w2 ∧
        alphaBetaSearch (materialGame exZ) (constEx fullExploration) .static w1 1 invalidScore invalidScore {} =
          alphaBetaSearch (materialGame exZ2) (constEx fullExploration) .static w2 1 invalidScore invalidScore {})
      (pushAll exZ 0 C05.wS ms7) (pushAll exZ2 0 wS2 ms7) :=
  seed_independent_play (z1 := exZ) (z2 := exZ2) rfl rfl _ (constEx fullExploration) .static (ExRel.const _ _) .static C05.exPos .white (Int.le_refl 0) 1
    ms7 1 (goodPlay_of_check 1 ms7 C05.exPos .white C05.exPos_ok ex_playCheck) 1 (Nat.le_refl 1) _ _ {} rfl

/-- Evaluated cross-check: both move sequences are accepted; on both boards `… Ng8` is then reported as a draw by
three-fold repetition, and the depth-1 searches return the same node count, score and PV. -/
example :
    ((pushAll exZ 0 C05.wS ms7).bind fun w => (w.pushMove exZ 0 C05.ng8).map fun w' => (w'.board 0).result) =
      some { outcome := .draw, reason := .repetition3 } ∧
    ((pushAll exZ2 0 wS2 ms7).bind fun w => (w.pushMove exZ2 0 C05.ng8).map fun w' => (w'.board 0).result) =
      some { outcome := .draw, reason := .repetition3 } := by
  constructor <;> decide +kernel

example :
    ((pushAll exZ 0 C05.wS ms7).bind fun w =>
      (alphaBetaSearch (materialGame exZ) (constEx fullExploration) .static w 1 invalidScore invalidScore {}).1.map
        fun r => (r.nodes, r.score, r.pv.map fun m => (m.from, m.to))) = some (12, heuristicScore 0, [(42, 25)]) ∧
    ((pushAll exZ2 0 wS2 ms7).bind fun w =>
      (alphaBetaSearch (materialGame exZ2) (constEx fullExploration) .static w 1 invalidScore invalidScore {}).1.map
        fun r => (r.nodes, r.score, r.pv.map fun m => (m.from, m.to))) = some (12, heuristicScore 0, [(42, 25)]) := by
  constructor <;> decide +kernel

/-- `analysis_isolated` / `analyze_pure` instantiated on the world of C08's examples: the engine's board 0 after an
analysis of any depth is the board before, and the fork-and-rebase search returns what a search of board 0 returns. -/
example (d : Nat) (st : SState) :
    (analyze C08.z0 (fun _ _ => 0) (constEx fullExploration) .static C08.w0 d st).2 = C08.w0 ∧
    (analyze C08.z0 (fun _ _ => 0) (constEx fullExploration) .static C08.w0 d st).1 =
      alphaBetaSearch (boardGame C08.z0 fun _ _ => 0) (constEx fullExploration) .static C08.w0 d invalidScore invalidScore st :=
  analyze_pure C08.z0 _ (constEx fullExploration) .static (ExRel.const _ _) .static C08.w0_wf (by decide) d st

/-- A balanced run on the fork (`push m0, push m1, pop, pop`), and a prefix of one, in that world. -/
example : Balanced [Op.push C08.m0, Op.push C08.m1, Op.pop, Op.pop] :=
  Balanced.node C08.m0 (Balanced.node C08.m1 Balanced.nil Balanced.nil) Balanced.nil

example : ∀ w', run C08.z0 (C08.w0.fork 0).2 (C08.w0.fork 0).1 [Op.push C08.m0, Op.push C08.m1, Op.pop] = some w' →
    obs w' 0 = obs C08.w0 0 ∧ (w'.board 0).result = (C08.w0.board 0).result := fun w' h =>
  analysis_isolated_balanced (rest := [Op.pop]) C08.w0_wf (by decide)
    (Balanced.node C08.m0 (Balanced.node C08.m1 Balanced.nil Balanced.nil) Balanced.nil) h

example : (run C08.z0 (C08.w0.fork 0).2 (C08.w0.fork 0).1 [Op.push C08.m0, Op.push C08.m1, Op.pop]).isSome = true := by
  decide

end Example

/-! ## 6. seed independence from the start position alone

The hypothesis `GoodTree n` / `GoodPlay n` of §2 ("every generated move accepted within the next `n` plies is a good
step") is *derived* here from the generator's specification (C01) and the position update (C02): it holds at every
position satisfying `WFplay` (`Morlock/Proofs/ChainWF.lean`: C01 `WF` — views agree, at most one king per side,
`KingHome`, plausible en-passant target — and the side not to move is not in check), and `WFplay` is preserved by
generated moves. `GenPlay pos turn ms` (`Morlock/Proofs/ChainReach.lean`): the moves `ms`, played in turn from `pos`,
are generated moves.
-/
section Reachable
open Morlock.Proofs.Chain Morlock.Proofs.Gen

/-- **`goodGen_of_wf`.** `WFplay` is an invariant of positions under which the generator only produces good steps
(`GoodGen`): hence `GoodTree n` for every `n`, at every `WFplay` position and at every position reachable from one by
generated moves. -/
theorem goodGen_of_wf : GoodGen WFplay ∧
    (∀ (n : Nat) {p : Position} {t : Color}, WFplay p t → GoodTree n p t) ∧
    (∀ (n : Nat) {p q : Position} {t t' : Color}, WFplay p t → GenReach p t q t' → GoodTree n q t') ∧
    (∀ (n : Nat) (ms : List Move) {p : Position} {t : Color}, WFplay p t → GenPlay p t ms → GoodPlay n p t ms) :=
  ⟨goodGen_wfplay, fun n _ _ hw => goodTree_of_wfplay n hw, fun n _ _ _ _ hw hr => goodTree_reachable n hw hr,
   fun n ms _ _ hw hg => goodPlay_of_wfplay n ms _ _ hw hg⟩

/-- The decidable criterion `treeCheck` holds at every depth on `WFplay` positions (nothing to evaluate). -/
theorem treeCheck_of_wf (n : Nat) {p : Position} {t : Color} (hw : WFplay p t) : treeCheck n p t = true :=
  treeCheck_of_wfplay n hw

/-- **`seed_independent_reachable`: seed independence with only `WFplay` of the start position as hypothesis.** Set up
a board on `pos` (`WFplay pos turn`, clock `np ≥ 0`) in the empty world with table `z1`, and another with table `z2`;
play the same generated moves `ms` on both (`GenPlay`). Then both move sequences are accepted or both refused, and in
the former case the two worlds are related by the simulation relation at depth `d + leafDepth le` and, without a
table, the two searches of depth `d` return the same result (halted or not, node count, score, PV) and the same final
state. -/
theorem seed_independent_reachable {z1 z2 : ZTable} (hz1 : z1.enpassant 0 = 0) (hz2 : z2.enpassant 0 = 0)
    (ev : Position → Color → Int) (ex : World → Explore) (le : LeafEval World)
    (hex : ExRel (SeedRel z1 z2) ex ex) (hle : LeRel (SeedRel z1 z2) le le) {pos : Position} {turn : Color}
    (hpos : WFplay pos turn) {np : Int} (hnp : 0 ≤ np) (fm : Int) {ms : List Move} (hgen : GenPlay pos turn ms)
    (d : Nat) (a b : Score) (st : SState) (htt : st.tt.slots.size = 0) :
    ORel (fun w1 w2 => SeedRel z1 z2 (d + leafDepth le) w1 w2 ∧
        alphaBetaSearch (boardGame z1 ev) ex le w1 d a b st = alphaBetaSearch (boardGame z2 ev) ex le w2 d a b st)
      (pushAll z1 0 (({} : World).newBoard z1 pos turn np fm).1 ms)
      (pushAll z2 0 (({} : World).newBoard z2 pos turn np fm).1 ms) :=
  seed_independent_play hz1 hz2 ev ex le hex hle pos turn hnp fm ms (d + leafDepth le)
    (goodPlay_of_wfplay (d + leafDepth le) ms pos turn hpos hgen) d (Nat.le_refl _) a b st htt

/-- **seed independence at the start position itself** (no moves played): the two fresh boards on a `WFplay` position,
hashed with different tables, give the same search result at every depth. -/
theorem seed_independent_start {z1 z2 : ZTable} (hz1 : z1.enpassant 0 = 0) (hz2 : z2.enpassant 0 = 0)
    (ev : Position → Color → Int) (ex : World → Explore) (le : LeafEval World)
    (hex : ExRel (SeedRel z1 z2) ex ex) (hle : LeRel (SeedRel z1 z2) le le) {pos : Position} {turn : Color}
    (hpos : WFplay pos turn) {np : Int} (hnp : 0 ≤ np) (fm : Int) (d : Nat) (a b : Score) (st : SState)
    (htt : st.tt.slots.size = 0) :
    alphaBetaSearch (boardGame z1 ev) ex le (({} : World).newBoard z1 pos turn np fm).1 d a b st =
      alphaBetaSearch (boardGame z2 ev) ex le (({} : World).newBoard z2 pos turn np fm).1 d a b st :=
  (seed_independent_reachable hz1 hz2 ev ex le hex hle hpos hnp fm (ms := []) trivial d a b st htt).2

/-- **seed independence on any two boards showing the same game** whose (common) current position satisfies `WFplay`:
`SeedBase` (same game, both histories good) is all that is needed besides — `GoodTree` is derived. -/
theorem seed_independent_wf {z1 z2 : ZTable} (hz1 : z1.enpassant 0 = 0) (hz2 : z2.enpassant 0 = 0)
    (ev : Position → Color → Int) (ex : World → Explore) (le : LeafEval World)
    (hex : ExRel (SeedRel z1 z2) ex ex) (hle : LeRel (SeedRel z1 z2) le le) {w1 w2 : World} (hbase : SeedBase z1 z2 w1 0 w2 0)
    (hwf : WFplay (w1.cur 0).pos (w1.board 0).turn) (d : Nat) (a b : Score) (st : SState)
    (htt : st.tt.slots.size = 0) :
    alphaBetaSearch (boardGame z1 ev) ex le w1 d a b st = alphaBetaSearch (boardGame z2 ev) ex le w2 d a b st :=
  seed_independent hz1 hz2 ev ex le hex hle ⟨hbase, goodTree_of_wfplay (d + leafDepth le) hwf⟩ d (Nat.le_refl _) a b st htt

/-- `seed_independent_start` on the initial position: the material search of any depth returns the same on the board
hashed with `exZ` and on the board hashed with `exZ2` — nothing is evaluated. -/
example (d : Nat) :
    alphaBetaSearch (materialGame exZ) (constEx fullExploration) .static (({} : World).newBoard exZ startPos .white 0 1).1 d
        invalidScore invalidScore {} =
      alphaBetaSearch (materialGame exZ2) (constEx fullExploration) .static (({} : World).newBoard exZ2 startPos .white 0 1).1 d
        invalidScore invalidScore {} :=
  seed_independent_start (z1 := exZ) (z2 := exZ2) rfl rfl _ (constEx fullExploration) .static (ExRel.const _ _) .static startPos_wfplay (Int.le_refl 0) 1 d
    _ _ {} rfl

/-- `seed_independent_reachable` on the initial position after `1. Nf3 Nf6 2. Ng1 Ng8` (twice, minus the last move):
any depth, quiescence leaves included. -/
example (d fuel : Nat) :
    ORel (fun w1 w2 => SeedRel exZ exZ2 (d + leafDepth (P := World) (.quiescence (constEx fullExploration) fuel)) w1 w2 ∧
        alphaBetaSearch (materialGame exZ) (constEx fullExploration) (.quiescence (constEx fullExploration) fuel) w1 d invalidScore
            invalidScore {} =
          alphaBetaSearch (materialGame exZ2) (constEx fullExploration) (.quiescence (constEx fullExploration) fuel) w2 d invalidScore
            invalidScore {})
      (pushAll exZ 0 (({} : World).newBoard exZ startPos .white 0 1).1 ms7)
      (pushAll exZ2 0 (({} : World).newBoard exZ2 startPos .white 0 1).1 ms7) :=
  seed_independent_reachable (z1 := exZ) (z2 := exZ2) rfl rfl _ (constEx fullExploration) _ (ExRel.const _ _) (.quiescence fuel (ExRel.const _ _)) startPos_wfplay (Int.le_refl 0) 1
    (genPlay_of_check ms7 _ _ (by decide +kernel)) d _ _ {} rfl

end Reachable

end Morlock.Props.C18
