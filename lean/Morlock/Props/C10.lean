import Morlock.Model.UciSeq
/-!
# C10 — the engine game equals the one the last `position` command describes (text-handling lemmas)

The deterministic driver model (`Morlock.Driver.Uci`, tied to the real `uci.Driver` by the `ucidet`
stream) sets up the game from scratch unless `continuation` recognises the line as an extension of
the previous one *and* all extra words can be played. Proved here: the recogniser itself.
The refinement "state = denote(last command)" over command sequences is decided by the stream
(impl vs model exact; impl vs a game built from the last command alone).
-/
namespace Morlock.Props.C10
open Morlock.Model Morlock.Model.UciSeq

/-- A verbatim repeat is an extension with no extra words (it used to be split into one empty move). -/
theorem continuation_self (l : List Char) (h : Fen.trimSpace l ≠ []) : continuation l l = some [] := by
  have hp : ∀ (a : List Char), a.isPrefixOf a = true := by
    intro a; induction a with
    | nil => rfl
    | cons x xs ih => simp [List.isPrefixOf, ih]
  unfold continuation
  simp [h, hp, fields, Fen.splitSpaces, Fen.splitSpaces.go]

/-- An extension is only recognised at a word boundary: `… 0 1` does not extend to `… 0 10 moves e2e4`. -/
theorem continuation_word_boundary :
    continuation "position fen 4k3/8/8/8/8/8/4P3/4K3 w - - 0 1".toList
      "position fen 4k3/8/8/8/8/8/4P3/4K3 w - - 0 10 moves e2e4".toList = none := by decide

/-- … while a real extension yields exactly the extra words. -/
theorem continuation_extends :
    continuation "position startpos moves e2e4".toList "position startpos moves e2e4 e7e5 g1f3".toList
      = some ["e7e5".toList, "g1f3".toList] ∧
    continuation "position startpos".toList "position startpos moves e2e4".toList
      = some ["moves".toList, "e2e4".toList] := by decide

/-- No previous line: never an extension. -/
theorem continuation_none_of_empty (line : List Char) : continuation [] line = none := by
  simp [continuation, Fen.trimSpace]

/-- A shortened line is not an extension (the previous line is not a prefix of it). -/
theorem continuation_shorten :
    continuation "position startpos moves e2e4 e7e5".toList "position startpos moves e2e4".toList = none := by decide

example : continuation "a b".toList "a b c".toList = some ["c".toList] := by decide

end Morlock.Props.C10
