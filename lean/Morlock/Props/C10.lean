import Morlock.Model.UciSeq
import Morlock.Proofs.UciPosRobust
/-!
# C10 — the engine game equals the one the last `position` command describes (text-handling lemmas)

The deterministic driver model (`Morlock.Driver.Uci`, tied to the real `uci.Driver` by the `ucidet`
stream) sets up the game from scratch unless `continuation` recognises the line as an extension of
the previous one *and* all extra words can be played. Its `position` handler *is*
`Morlock.Model.UciPos.position` on the concrete engine model. Proved here, for every engine
(`UciPos.Eng E`: `Reset` and `Move` as partial functions):

* the recogniser (`continuation_*`); its extra words are cut by `strings.Fields`, i.e. at every `unicode.IsSpace` rune
  (`continuation_unicode_space`), while the new-position path cuts at single blanks — a *word* of a well-formed line
  (`UciPos.Word`) is therefore free of all white space, and on lines that are not well-formed the two paths can
  differ (`tab_paths_differ`, `double_space_paths_differ`);
* `fresh_eq_denote`, `fallback_eq_denote`: the new-position path sets up the game the line describes;
* `extend_eq_scratch`: a line extending the previous one has the effect of setting it up from scratch;
* `state_eq_last`: after any sequence of `ucinewgame` / well-formed playable `position` commands the
  engine holds the game of the last `position` command;
* `robust_state_eq_last`, `malformed_then_wellformed_partial`: the same after *arbitrary* earlier lines,
  for engines that refuse `startpos` and move numbers as moves (`Eng.Strict`) — and
  `malformed_then_wellformed_false_*`: without that (or from an unreachable state) it is false.
-/
namespace Morlock.Props.C10
open Morlock.Model Morlock.Model.UciSeq

/-- A verbatim repeat is an extension with no extra words (it used to be split into one empty move). -/
theorem continuation_self (l : List Char) (h : Fen.trimSpace l ≠ []) : continuation l l = some [] := by
  have hp : ∀ (a : List Char), a.isPrefixOf a = true := by
    intro a; induction a with
    | nil => rfl
    | cons x xs ih => simp [List.isPrefixOf, ih]
  unfold continuation
  simp [h, hp, fields, splitWs, splitWs.go]

/-- An extension is only recognised at a word boundary: `… 0 1` does not extend to `… 0 10 moves e2e4`. -/
theorem continuation_word_boundary :
    continuation "position fen 4k3/8/8/8/8/8/4P3/4K3 w - - 0 1".toList
      "position fen 4k3/8/8/8/8/8/4P3/4K3 w - - 0 10 moves e2e4".toList = none := by decide

/-- … while a real extension yields exactly the extra words. -/
theorem continuation_extends :
    continuation "position startpos moves e2e4".toList "position startpos moves e2e4 e7e5 g1f3".toList
      = some ["e7e5".toList, "g1f3".toList] ∧
    continuation "position startpos".toList "position startpos moves e2e4".toList
      = some ["moves".toList, "e2e4".toList] := by decide

/-- No previous line: never an extension. -/
theorem continuation_none_of_empty (line : List Char) : continuation [] line = none := by
  simp [continuation, Fen.trimSpace]

/-- A shortened line is not an extension (the previous line is not a prefix of it). -/
theorem continuation_shorten :
    continuation "position startpos moves e2e4 e7e5".toList "position startpos moves e2e4".toList = none := by decide

example : continuation "a b".toList "a b c".toList = some ["c".toList] := by decide

/-- The extra words are cut at every Unicode white space, as `strings.Fields` does (`unicode.IsSpace`): a tab, a
    no-break space U+00A0, an ideographic space U+3000, runs of them. (The audit's witness: the model used to
    answer `["e7e5\tg1f3"]`.) -/
theorem continuation_unicode_space :
    continuation "position startpos moves e2e4".toList "position startpos moves e2e4 e7e5\tg1f3".toList
      = some ["e7e5".toList, "g1f3".toList] ∧
    continuation "position startpos moves e2e4".toList
        ("position startpos moves e2e4 e7e5".toList ++ [Char.ofNat 0xa0] ++ "g1f3".toList ++ [Char.ofNat 0x3000, '\r', ' '] ++ "b8c6".toList)
      = some ["e7e5".toList, "g1f3".toList, "b8c6".toList] := by decide


/-! ## The handler -/

open Morlock.Model.UciPos Morlock.Proofs.UciPos Morlock.Proofs.UciPosText

variable {E : Type}

theorem playable_iff (eng : Eng E) (line : List Char) : Playable eng line ↔ ∃ d, denote eng line = some d := by
  unfold Playable; exact Option.isSome_iff_exists

/-- Whenever the handler takes the new-position path for a well-formed playable line — here: the line
    is not recognised as an extension — the engine ends in the game the line describes and the line is
    remembered. `e` and `last` are arbitrary. -/
theorem fresh_eq_denote (eng : Eng E) (e : E) (last line : List Char)
    (hw : WellFormed line) (hp : Playable eng line) (hc : continuation last line = none) :
    denote eng line = some (position eng (e, last) line).1 ∧ (position eng (e, last) line).2 = line := by
  obtain ⟨c, hok, rfl, ht⟩ := hw
  obtain ⟨d, hd⟩ := (playable_iff eng _).1 hp
  have hd' := hd
  rw [denote_render eng c hok] at hd'
  have : position eng (e, last) c.render = (d, c.render) := by
    unfold position; simp only [hc]; exact fresh_render eng e d c hok ht hd'
  rw [this]; exact ⟨hd, rfl⟩

/-- … in particular when there is no previous line (start, `ucinewgame`, or after a rejected line). -/
theorem fresh_eq_denote_nil (eng : Eng E) (e : E) (line : List Char) (hw : WellFormed line) (hp : Playable eng line) :
    denote eng line = some (position eng (e, []) line).1 ∧ (position eng (e, []) line).2 = line :=
  fresh_eq_denote eng e [] line hw hp (continuation_none_of_empty line)

/-- … and when the line is recognised as an extension but the extra words cannot all be played
    (the engine is then left advanced by some of them, and reset). -/
theorem fallback_eq_denote (eng : Eng E) (e : E) (last line : List Char) (rest : List (List Char))
    (hw : WellFormed line) (hp : Playable eng line) (hc : continuation last line = some rest)
    (hx : (extend eng e rest).2 = false) :
    denote eng line = some (position eng (e, last) line).1 ∧ (position eng (e, last) line).2 = line := by
  obtain ⟨c, hok, rfl, ht⟩ := hw
  obtain ⟨d, hd⟩ := (playable_iff eng _).1 hp
  have hd' := hd
  rw [denote_render eng c hok] at hd'
  have : position eng (e, last) c.render = (d, c.render) := by
    unfold position; simp only [hc, hx, Bool.false_eq_true, if_false]
    exact fresh_render eng _ d c hok ht hd'
  rw [this]; exact ⟨hd, rfl⟩

/-- **A command that extends the previous one has the same effect as setting the whole line up from
    scratch.** The previous line is well-formed and the engine holds its game (`he`; this includes that
    it is playable); the new line is well-formed, playable and recognised as an extension. Then — by
    whichever path — the engine ends in the game of the new line, and the new line is remembered. -/
theorem extend_eq_scratch (eng : Eng E) (e : E) (last line : List Char) (rest : List (List Char))
    (hwl : WellFormed last) (he : denote eng last = some e)
    (hw : WellFormed line) (hp : Playable eng line) (hc : continuation last line = some rest) :
    denote eng line = some (position eng (e, last) line).1 ∧ (position eng (e, last) line).2 = line := by
  obtain ⟨c1, hok1, rfl, ht1⟩ := hwl
  obtain ⟨c2, hok2, rfl, ht2⟩ := hw
  obtain ⟨d, hd⟩ := (playable_iff eng _).1 hp
  have hd' := hd
  rw [denote_render eng c2 hok2] at hd'
  rw [denote_render eng c1 hok1] at he
  rw [position_extends eng e d c1 c2 hok1 hok2 ht1 ht2 he hd' rest hc]
  exact ⟨hd, rfl⟩

/-- Both cases together: no previous line, or the engine holds the game of a well-formed previous line. -/
theorem position_wf (eng : Eng E) (st : E × List Char) (line : List Char)
    (hst : st.2 = [] ∨ (WellFormed st.2 ∧ denote eng st.2 = some st.1))
    (hw : WellFormed line) (hp : Playable eng line) :
    denote eng line = some (position eng st line).1 ∧ (position eng st line).2 = line := by
  obtain ⟨e, last⟩ := st
  rcases hst with h | ⟨hwl, he⟩
  · simp only at h; subst h; exact fresh_eq_denote_nil eng e line hw hp
  · cases hc : continuation last line with
    | none => exact fresh_eq_denote eng e last line hw hp hc
    | some rest => exact extend_eq_scratch eng e last line rest hwl he hw hp hc

/-- A command the property speaks about: `ucinewgame`, or a well-formed playable `position` line. -/
def Regular (eng : Eng E) (c : Command) : Prop :=
  c = .newgame ∨ ∃ l, c = .position l ∧ WellFormed l ∧ Playable eng l

/-- The invariant: `ll` is the line of the last `position` command so far. -/
def Inv (eng : Eng E) (st : E × List Char) (ll : Option (List Char)) : Prop :=
  (∀ l, ll = some l → WellFormed l ∧ denote eng l = some st.1) ∧ (st.2 = [] ∨ ll = some st.2)

theorem step_inv (eng : Eng E) (st : E × List Char) (ll : Option (List Char)) (c : Command)
    (hi : Inv eng st ll) (hc : Regular eng c) : Inv eng (step eng st c) (lastLineFrom ll [c]) := by
  rcases hc with rfl | ⟨l, rfl, hw, hp⟩
  · refine ⟨fun l hl => hi.1 l hl, Or.inl rfl⟩
  · have hst : st.2 = [] ∨ (WellFormed st.2 ∧ denote eng st.2 = some st.1) := by
      rcases hi.2 with h | h
      · exact Or.inl h
      · exact Or.inr (hi.1 _ h)
    have := position_wf eng st l hst hw hp
    refine ⟨fun l' hl' => ?_, Or.inr ?_⟩
    · have : l = l' := by simpa [lastLineFrom] using hl'
      subst this
      exact ⟨hw, by simpa [step] using this.1⟩
    · simp [lastLineFrom, step, this.2]

theorem run_inv (eng : Eng E) (st : E × List Char) (ll : Option (List Char)) (cmds : List Command)
    (hi : Inv eng st ll) (hc : ∀ c ∈ cmds, Regular eng c) : Inv eng (run eng st cmds) (lastLineFrom ll cmds) := by
  induction cmds generalizing st ll with
  | nil => exact hi
  | cons c cs ih =>
    have h1 := step_inv eng st ll c hi (hc c (by simp))
    exact ih (step eng st c) (lastLineFrom ll [c]) h1 (fun c' hc' => hc c' (by simp [hc']))

/-- **C10.** After any sequence of `ucinewgame` and well-formed playable `position` commands — fresh,
    extended, repeated verbatim, shortened, other position — starting with no remembered line and any
    engine state, the engine holds exactly the game the last `position` command describes; and the
    remembered line is empty or that last line. -/
theorem state_eq_last (eng : Eng E) (e0 : E) (cmds : List Command) (hc : ∀ c ∈ cmds, Regular eng c) :
    (∀ l, lastLine cmds = some l → denote eng l = some (run eng (e0, []) cmds).1) ∧
    ((run eng (e0, []) cmds).2 = [] ∨
      (lastLine cmds = some (run eng (e0, []) cmds).2 ∧
        denote eng (run eng (e0, []) cmds).2 = some (run eng (e0, []) cmds).1)) := by
  have h := run_inv eng (e0, []) none cmds ⟨fun l hl => by simp at hl, Or.inl rfl⟩ hc
  refine ⟨fun l hl => (h.1 l hl).2, ?_⟩
  rcases h.2 with h2 | h2
  · exact Or.inl h2
  · exact Or.inr ⟨h2, (h.1 _ h2).2⟩

/-! ## Arbitrary earlier lines -/

/-- Every state reachable from "no remembered line" by *arbitrary* commands (malformed, unplayable,
    garbage `position` lines included) handles a following well-formed playable line right — for a
    strict engine. -/
theorem robust_state_eq_last (eng : Eng E) (hS : eng.Strict) (e0 : E) (pre : List Command) (line : List Char)
    (hw : WellFormed line) (hp : Playable eng line) :
    denote eng line = some (run eng (e0, []) (pre ++ [.position line])).1 ∧
    (run eng (e0, []) (pre ++ [.position line])).2 = line := by
  obtain ⟨c, hok, rfl, ht⟩ := hw
  obtain ⟨d, hd⟩ := (playable_iff eng _).1 hp
  have hd' := hd
  rw [denote_render eng c hok] at hd'
  have hg := run_good eng hS (e0, []) (good_nil eng e0) pre
  have : run eng (e0, []) (pre ++ [.position c.render]) = (d, c.render) := by
    simp only [run, List.foldl_append, List.foldl_cons, List.foldl_nil, step]
    exact position_of_good eng _ hg c d hok ht hd'
  rw [this]; exact ⟨hd, rfl⟩

/-- After ANY line at all, a following well-formed playable line still ends in the game it describes.
    `_partial`: proved for a strict engine and an intermediate state reachable from "no remembered
    line" (by arbitrary commands) — not for an arbitrary `(e, last)`, and not for every engine: both
    restrictions are needed, see `malformed_then_wellformed_false_unrelated` / `_false_reachable`. -/
theorem malformed_then_wellformed_partial (eng : Eng E) (hS : eng.Strict) (e0 : E) (pre : List Command)
    (garbage line : List Char) (hw : WellFormed line) (hp : Playable eng line) :
    denote eng line = some (position eng (position eng (run eng (e0, []) pre) garbage) line).1 ∧
    (position eng (position eng (run eng (e0, []) pre) garbage) line).2 = line := by
  have := robust_state_eq_last eng hS e0 (pre ++ [.position garbage]) line hw hp
  simpa [run, List.foldl_append, step] using this

/-! ## A checker for well-formedness, tiny engines, instances and counterexamples -/

def wordB (w : List Char) : Bool := w ≠ [] && w.all (fun c => !Fen.isSpace c) && w ≠ kwMoves

def okB (c : Cmd) : Bool :=
  (match c.fen with
   | none => true
   | some fs => fs.length == 6 && fs.all wordB) && c.moves.all wordB

theorem wordB_spec (w : List Char) (h : wordB w = true) : Word w ∧ w ≠ kwMoves := by
  simp [wordB] at h
  exact ⟨⟨h.1.1, fun c hc => h.1.2 c hc⟩, h.2⟩

theorem ok_of_okB (c : Cmd) (h : okB c = true) : c.Ok := by
  unfold okB at h
  rw [Bool.and_eq_true] at h
  refine ⟨fun fs hf => ?_, fun m hm => wordB_spec m (List.all_eq_true.1 h.2 m hm)⟩
  have h1 := h.1
  rw [hf] at h1
  simp only [Bool.and_eq_true, beq_iff_eq] at h1
  exact ⟨h1.1, fun f hf' => wordB_spec f (List.all_eq_true.1 h1.2 f hf')⟩

/-- Well-formedness by evaluation. -/
theorem wellFormed_of_check (line : List Char) (c : Cmd) (h : okB c = true) (hr : line = c.render)
    (ht : Fen.trimSpace line = line) : WellFormed line := ⟨c, ok_of_okB c h, hr, ht⟩

/-- "No leading or trailing blanks" follows: the line starts with `p` and its last word ends in a character
    that is not white space. So every rendered `Ok` command is a well-formed line. -/
theorem wellFormed_render (c : Cmd) (hok : c.Ok) : WellFormed c.render := by
  have hb : ∀ w ∈ c.words, ∀ ch ∈ w, Fen.isSpace ch = false := fun w hw => (words_word c hok w hw).2
  refine ⟨c, hok, rfl, ?_⟩
  have hwords : c.words = kwPosition :: (c.header ++ c.tail) := rfl
  rcases List.eq_nil_or_concat (c.header ++ c.tail) with h | ⟨ini, w, h⟩
  · exact absurd (List.append_eq_nil_iff.1 h).1 (header_ne_nil c)
  · rw [List.concat_eq_append] at h
    have hw : c.words = (kwPosition :: ini) ++ [w] := by rw [hwords, h]; rfl
    have hwm : w ∈ c.words := by rw [hw]; simp
    have hwne : w ≠ [] := words_ne_nil_each c hok w hwm
    have hr : c.render = joinSp (kwPosition :: ini) ++ ' ' :: w := by
      unfold Cmd.render; rw [hw, joinSp_concat _ _ (by simp)]
    have hhead : ∃ t, c.render = 'p' :: t := by
      unfold Cmd.render; rw [hwords]
      cases hx : c.header ++ c.tail with
      | nil => rw [hx] at h; simp at h
      | cons x xs => exact ⟨_, rfl⟩
    obtain ⟨t, ht⟩ := hhead
    unfold Fen.trimSpace
    have h1 : c.render.dropWhile Fen.isSpace = c.render := by
      rw [ht, List.dropWhile_cons]; simp [show Fen.isSpace 'p' = false by decide]
    rw [h1]
    cases hrev : w.reverse with
    | nil => simp at hrev; exact absurd hrev hwne
    | cons l r =>
      have hl : Fen.isSpace l = false :=
        hb w hwm l (List.mem_reverse.1 (by rw [hrev]; simp))
      have h2 : c.render.reverse = l :: (r ++ (joinSp (kwPosition :: ini) ++ [' ']).reverse) := by
        rw [hr]; simp [hrev]
      rw [h2, List.dropWhile_cons]
      simp only [hl, Bool.false_eq_true, if_false]
      rw [← h2, List.reverse_reverse]

/-- A tiny engine: the state is the position text and the list of moves played; `Reset` accepts every
    text, `Move` every non-empty word. (Not `Strict`.) -/
def tiny : Eng (List Char × List (List Char)) where
  reset f := some (f, [])
  move s w := if w = [] then none else some (s.1, s.2 ++ [w])

/-- A tiny strict engine: `Reset` accepts only the initial position, moves are four-letter words. -/
def tinyStrict : Eng (List (List Char)) where
  reset f := if f = initialFen then some [] else none
  move s w := if w.length = 4 then some (s ++ [w]) else none

theorem tinyStrict_strict : tinyStrict.Strict := by
  refine ⟨fun e => by simp [tinyStrict, kwStartpos], fun fs f hl hr e => ?_⟩
  have hne : fs ≠ [] := by intro h; subst h; simp at hl
  simp only [tinyStrict] at hr ⊢
  split at hr
  · rename_i h
    rw [joinSp_concat fs f hne] at h
    have h1 : (joinSp fs).length + (1 + f.length) = 56 := by
      have hl56 : initialFen.length = 56 := by decide
      have := congrArg List.length h
      simp only [List.length_append, List.length_cons] at this
      omega
    have h2 : initialFen[(joinSp fs).length]? = some ' ' := by rw [← h]; simp
    by_cases h4 : f.length = 4
    · have : (joinSp fs).length = 51 := by omega
      rw [this] at h2
      exact absurd h2 (by decide)
    · simp [h4]
  · simp at hr

private def l0 := "position startpos".toList
private def l1 := "position startpos moves e2e4".toList
private def l2 := "position startpos moves e2e4 e7e5".toList
private def l3 := "position fen 4k3/8/8/8/8/8/4P3/4K3 w - - 0 1 moves e2e4".toList

theorem wf_l0 : WellFormed l0 := wellFormed_of_check l0 ⟨none, []⟩ (by decide) (by decide) (by decide)
theorem wf_l1 : WellFormed l1 := wellFormed_of_check l1 ⟨none, ["e2e4".toList]⟩ (by decide) (by decide) (by decide)
theorem wf_l2 : WellFormed l2 :=
  wellFormed_of_check l2 ⟨none, ["e2e4".toList, "e7e5".toList]⟩ (by decide) (by decide) (by decide)
theorem wf_l3 : WellFormed l3 :=
  wellFormed_of_check l3 ⟨some ["4k3/8/8/8/8/8/4P3/4K3".toList, ['w'], ['-'], ['-'], ['0'], ['1']], ["e2e4".toList]⟩
    (by decide) (by decide) (by decide)

/-- The meaning of the sample lines on the tiny engine. -/
example : denote tiny l2 = some (initialFen, ["e2e4".toList, "e7e5".toList]) := by decide
example : denote tiny l3 = some ("4k3/8/8/8/8/8/4P3/4K3 w - - 0 1".toList, ["e2e4".toList]) := by decide

/-- The handler evaluated: set up, extend (twice), repeat verbatim, shorten, other position, new game. -/
example :
    run tiny (([], []), []) [.position l0, .position l1, .position l2] = ((initialFen, ["e2e4".toList, "e7e5".toList]), l2) ∧
    run tiny (([], []), []) [.position l2, .position l2] = ((initialFen, ["e2e4".toList, "e7e5".toList]), l2) ∧
    run tiny (([], []), []) [.position l2, .position l1] = ((initialFen, ["e2e4".toList]), l1) ∧
    run tiny (([], []), []) [.position l2, .position l3] = (("4k3/8/8/8/8/8/4P3/4K3 w - - 0 1".toList, ["e2e4".toList]), l3) ∧
    run tiny (([], []), []) [.position l1, .newgame, .position l2] = ((initialFen, ["e2e4".toList, "e7e5".toList]), l2) := by
  decide

/-- `state_eq_last` instantiated (the hypotheses discharged by evaluation). -/
example : denote tiny l2 = some (run tiny (([], []), []) [.position l0, .newgame, .position l1, .position l2]).1 := by
  have hreg : ∀ c ∈ [Command.position l0, .newgame, .position l1, .position l2], Regular tiny c := by
    intro c hc
    simp only [List.mem_cons, List.not_mem_nil, or_false] at hc
    rcases hc with rfl | rfl | rfl | rfl
    · exact Or.inr ⟨l0, rfl, wf_l0, by decide⟩
    · exact Or.inl rfl
    · exact Or.inr ⟨l1, rfl, wf_l1, by decide⟩
    · exact Or.inr ⟨l2, rfl, wf_l2, by decide⟩
  exact (state_eq_last tiny ([], []) _ hreg).1 l2 (by decide)

/-- The engine is left advanced when the extension fails, then reset: `e2e4 e7e5` is remembered,
    the new line adds a word the strict engine refuses, the line is rejected as a whole and the
    engine is left where the from-scratch attempt stopped. -/
example : position tinyStrict (["e2e4".toList, "e7e5".toList], l2) "position startpos moves e2e4 e7e5 xx".toList
    = (["e2e4".toList, "e7e5".toList], []) := by decide

/-- `malformed_then_wellformed` is false for an arbitrary `(e, last)`: if the engine does not hold the
    game of the remembered line, a successful extension inherits the difference. -/
theorem malformed_then_wellformed_false_unrelated :
    position tiny ((initialFen, ["d2d4".toList]), l0) l1 = ((initialFen, ["d2d4".toList, "e2e4".toList]), l1) ∧
    denote tiny l1 = some (initialFen, ["e2e4".toList]) := by decide

/-- `malformed_then_wellformed` is false for a *reachable* state if the engine is not strict: the
    malformed line `position fen a b c d e` (five fields) is accepted as the start position and
    remembered; the well-formed line `position fen a b c d e f moves e2e4` extends it, and an engine
    that accepts the sixth field `f` as a move ends with the moves `f e2e4` played from the start
    position instead of `e2e4` from `a b c d e f`. (Likewise `position` followed by
    `position startpos moves …` if `startpos` is accepted as a move.) The real engine refuses such
    words (`board.ParseMove`), so there the fallback is taken: see `robust_state_eq_last`. -/
theorem malformed_then_wellformed_false_reachable :
    run tiny (([], []), []) [.position "position fen a b c d e".toList, .position "position fen a b c d e f moves e2e4".toList]
      = ((initialFen, [['f'], "e2e4".toList]), "position fen a b c d e f moves e2e4".toList) ∧
    denote tiny "position fen a b c d e f moves e2e4".toList = some ("a b c d e f".toList, ["e2e4".toList]) ∧
    run tiny (([], []), []) [.position "position".toList, .position l1]
      = ((initialFen, [kwStartpos, "e2e4".toList]), l1) := by decide

/-- `robust_state_eq_last` instantiated: garbage, an accepted malformed line and a half-accepted line
    first, then a well-formed playable line. -/
example : denote tinyStrict l2 = some (run tinyStrict ([], [])
    [.position "position fen a b c".toList, .position "position".toList, .position "hello world".toList,
     .position "position startpos moves e2e4 e7e5 toolong".toList, .position l2]).1 :=
  (robust_state_eq_last tinyStrict tinyStrict_strict []
    [.position "position fen a b c".toList, .position "position".toList, .position "hello world".toList,
     .position "position startpos moves e2e4 e7e5 toolong".toList] l2 wf_l2 (by decide)).1

/-- Why `Cmd.Ok` also asks the FEN fields not to be the word `moves`: the new-position path starts
    the move list at the first `moves`, also inside the position text. (No position text the real
    `fen.Decode` accepts has such a field.) -/
theorem fen_field_moves_differs :
    position tiny (([], []), []) "position fen moves b c d e f".toList
      = (("moves b c d e f".toList, [['b'], ['c'], ['d'], ['e'], ['f']]), "position fen moves b c d e f".toList) ∧
    denote tiny "position fen moves b c d e f".toList = some ("moves b c d e f".toList, []) := by decide

/-- Not covered by the theorems either (a tab is not a word separator of a well-formed line): the extension
    path (`strings.Fields`) cuts at the tab and plays both moves, the new-position path (`strings.Split(_, " ")`)
    sees the one move `e7e5\tg1f3` and rejects the line. The real driver does the same (`ucidet` stream,
    family `malformed`). -/
theorem tab_paths_differ :
    position tinyStrict (["e2e4".toList], l1) "position startpos moves e2e4 e7e5\tg1f3".toList
      = (["e2e4".toList, "e7e5".toList, "g1f3".toList], "position startpos moves e2e4 e7e5\tg1f3".toList) ∧
    position tinyStrict ([], []) "position startpos moves e2e4 e7e5\tg1f3".toList = (["e2e4".toList], []) := by decide

/-- Not covered by the theorems (the line is not well-formed): with two spaces between moves the
    extension path (`strings.Fields`) accepts the line, the new-position path (`strings.Split`) sees an
    empty move and rejects it — extending and setting up from scratch differ on such lines. -/
theorem double_space_paths_differ :
    position tinyStrict (["e2e4".toList], l1) "position startpos moves e2e4  e7e5".toList
      = (["e2e4".toList, "e7e5".toList], "position startpos moves e2e4  e7e5".toList) ∧
    position tinyStrict ([], []) "position startpos moves e2e4  e7e5".toList = (["e2e4".toList], []) := by decide

end Morlock.Props.C10
