import Morlock.Model.Turochamp
import Morlock.Gen.Engines
/-!
# Tie between `Model/Turochamp.lean` and the constants regenerated from `cmd/turochamp/turochamp`

Same form as `Props/GenTieEngines.lean`: each model function equals, on its whole domain, the same function written with
the constants of `Morlock.Gen.Engines` (rewritten from the Go source on every check) in the place of its literals.
A rational literal of the source (`3.5`, `0.2`) is generated as the exact pair `(numerator, denominator)`.

NB: needs `Model/Turochamp.lean` (written against the version of 30 Sep; the statements repeat its definitions).
-/
namespace Morlock.Props.GenTieTurochamp
open Morlock Morlock.Model Morlock.Model.Flt Morlock.Model.Turochamp

/-- the exact rational of a generated literal -/
def q (x : Int × Nat) : Q := ⟨x.1, x.2⟩

abbrev pcs (l : List Nat) : List Piece := l.map Piece.ofCode

/-- `pieceValue`: the whole switch; a piece without a `case` panics. -/
theorem pieceValue_tie : ∀ k : Piece, pieceValue k = (Gen.turochampPieceValue.lookup k.code).map q := by
  intro k; cases k <;> rfl

theorem pieceValue_keys_nodup : (Gen.turochampPieceValue.map (·.1)).Nodup := by decide

/-- the lists ranged over by `material` and by the two defender loops of `PositionPlay`. -/
theorem lists_tie : qrnbp = pcs Gen.turochampMaterialPieces ∧ kqrnb = pcs Gen.turochampDefenderOfficers ∧
    kqrnb = pcs Gen.turochampPawnDefenders := by decide

/-- `material`: `if score == 0 { return 0.5 }`. -/
theorem material_tie (pos : Position) (turn : Color) :
    material pos turn =
      (materialLoop pos turn (pcs Gen.turochampMaterialPieces) q0).map fun score =>
        if score.beq (q Gen.turochampMaterialZero) then q Gen.turochampMaterialBare else score := rfl

/-- `Material.Evaluate`: `return 0` for equal material. -/
theorem materialEvaluate_tie (pos : Position) (turn : Color) :
    materialEvaluate pos turn =
      (material pos turn).bind fun own =>
      (material pos turn.opp).bind fun opp =>
      if own.beq opp then some (q Gen.turochampRatioEqual)
      else if opp.lt own then div f32 own opp
      else div f32 opp.neg own := rfl

/-- `0.2` and `0.3`. -/
theorem pawnConstants_tie : c02 = rnd f32 (q Gen.turochampPawnRank) ∧ c03 = rnd f32 (q Gen.turochampPawnDefended) := ⟨rfl, rfl⟩

/-- `eval.Pawns(math.Round(10*math.Sqrt(float64(n)))) / 10`; the mobility and the king-safety term use the same literals. -/
theorem sqrtTerm_tie (n : Nat) :
    Gen.turochampSafetyScale = Gen.turochampSqrtScale ∧ Gen.turochampSafetyDiv = Gen.turochampSqrtDiv ∧
    sqrtTerm n =
      ((sqrt f64 (Q.ofNat n)).bind fun s =>
       (mul f64 (q Gen.turochampSqrtScale) s).bind fun t =>
       (pawnsOfInt t.roundAway).bind fun v =>
       div f32 v (q Gen.turochampSqrtDiv)) := ⟨rfl, rfl, rfl⟩

/-- loop (1): moves of every piece but the pawn count, captures twice. -/
theorem mobility_tie (pos : Position) (turn : Color) :
    mobility pos turn =
      (pos.legalMoves turn).foldl (fun mob m =>
        if m.piece != Piece.ofCode Gen.turochampMobilityExcluded && !m.isCastle then
          let mob := mobBump mob m.from
          if m.ty.code = Gen.turochampMobilityDouble then mobBump mob m.from else mob
        else mob) [] := by
  unfold mobility
  congr 1
  funext mob m
  obtain ⟨ty, fr, to, piece, promotion, capture⟩ := m
  cases ty <;> rfl

/-- the five bonuses before the mobility sum. -/
theorem prePlay_tie (pos : Position) (hasCastled : Bool) (turn : Color) :
    prePlay pos hasCastled turn =
      ((addIf (pos.castling &&& castlingRights turn != 0) (q Gen.turochampCastlingRights) q0).bind fun s =>
       (addIf hasCastled (q Gen.turochampHasCastled) s).bind fun s =>
       (addIf (pos.isChecked turn.opp) (q Gen.turochampGivesCheck) s).bind fun s =>
       (addIf (mayCheckMate pos turn) (q Gen.turochampMayMate) s).bind fun s =>
       addIf (mayCastle pos turn) (q Gen.turochampMayCastle) s) := rfl

/-- part (2): the pieces whose defence counts, the pawn defenders, the two thresholds and bonuses. -/
theorem middle_tie (pos : Position) (turn : Color) :
    Gen.turochampMiddle.length = 3 ∧
    middle pos turn =
      pos.pieces turn (Piece.ofCode (Gen.turochampMiddle.getD 0 0)) ||| pos.pieces turn (Piece.ofCode (Gen.turochampMiddle.getD 1 0)) |||
        pos.pieces turn (Piece.ofCode (Gen.turochampMiddle.getD 2 0)) := ⟨rfl, rfl⟩

theorem defenders_tie (pos : Position) (turn : Color) (sq : Nat) :
    defenders pos turn sq =
      (defendersLoop pos turn sq (pcs Gen.turochampDefenderOfficers) 0).map fun d =>
        let bb := pawnCaptureboard turn (pos.pieces turn (Piece.ofCode Gen.turochampDefenderPawn)) &&& bitMask sq
        if bb != 0 then d + popCount bb else d := rfl

theorem defenceLoop_tie (pos : Position) (turn : Color) (sq : Nat) (rest : List Nat) (score : Q) :
    defenceLoop pos turn (sq :: rest) score =
      ((defenders pos turn sq).bind fun d =>
       (addIf (decide ((d : Int) > Gen.turochampDefendedAbove)) (q Gen.turochampDefended) score).bind fun s =>
       (addIf (decide ((d : Int) > Gen.turochampDefendedTwiceAbove)) (q Gen.turochampDefendedTwice) s).bind
         (defenceLoop pos turn rest)) := by
  show ((defenders pos turn sq).bind fun d =>
       (addIf (decide (d > 0)) q1 score).bind fun s =>
       (addIf (decide (d > 1)) qHalf s).bind (defenceLoop pos turn rest)) = _
  congr 1
  funext d
  have h0 : decide (d > 0) = decide ((d : Int) > Gen.turochampDefendedAbove) := by
    unfold Gen.turochampDefendedAbove; rw [decide_eq_decide]; omega
  have h1 : decide (d > 1) = decide ((d : Int) > Gen.turochampDefendedTwiceAbove) := by
    unfold Gen.turochampDefendedTwiceAbove; rw [decide_eq_decide]; omega
  rw [h0, h1]; rfl

/-- part (3): the piece whose square the imaginary queen stands on. -/
theorem kingSafety_tie (pos : Position) (turn : Color) (score : Q) :
    kingSafety pos turn score =
      (if pos.pieces turn (Piece.ofCode Gen.turochampSafetyPiece) != 0 then
        ((sqrtTerm (popCount (andNot (queenAttackboard pos.rotated (lastPopSquare (pos.pieces turn (Piece.ofCode Gen.turochampSafetyPiece))))
            (pos.pieces turn .none)))).bind fun t => sub f32 score t)
       else some score) := rfl

/-- part (4): `from.Rank() - Rank2` / `Rank7 - from.Rank()` (in `uint8`). -/
theorem pawnRanks_tie (turn : Color) (sq : Nat) :
    pawnRanks turn sq =
      if turn.code = Gen.turochampPawnSide then (sqRank sq + 256 - Gen.turochampPawnHome) % 256
      else (Gen.turochampPawnHomeOpp + 256 - sqRank sq) % 256 := by
  cases turn <;> rfl

/-- parts (2)-(4): the pawns looped over. -/
theorem postPlay_tie (pos : Position) (turn : Color) (score : Q) :
    postPlay pos turn score =
      ((defenceLoop pos turn (toSquares (middle pos turn)) score).bind fun s =>
       (kingSafety pos turn s).bind fun s =>
       pawnLoop pos turn (toSquares (pos.pieces turn (Piece.ofCode Gen.turochampPawnPiece))) s) := rfl

/-- `Eval.Evaluate`: `math.Round(float64(mat)*100) * 10`, `math.Round(float64(pp)*100) / 1000`. -/
theorem combine_tie (mat pp : Q) :
    combine mat pp =
      ((mul f64 mat (q Gen.turochampMatScale)).bind fun m100 =>
       (mul f64 (Q.ofInt m100.roundAway) (q Gen.turochampMatShift)).bind fun m64 =>
       (rnd f32 m64).bind fun m =>
       (mul f64 pp (q Gen.turochampPlayScale)).bind fun p100 =>
       (div f64 (Q.ofInt p100.roundAway) (q Gen.turochampPlayDiv)).bind fun p64 =>
       (rnd f32 p64).bind fun p =>
       add f32 m p) := rfl

end Morlock.Props.GenTieTurochamp
