import Morlock.Props.C19
import Morlock.Props.C07Board
/-!
# C19 on every board an engine can hold: after any moves, take-backs and forks

`C19.move_accepted_iff` judges a move text on a *well-formed* current position (`WF`). A freshly decoded FEN need not be
well formed in that sense, and after `TakeBack` the position is the one an older history node holds. `C07Board.GenBoard`
describes the boards reachable from a well-formed set-up by generated moves, take-backs (`popMove`) and forks; its
invariant `LineWF` says that EVERY node of the current line holds a `WFplay` position, so the hypothesis of
`move_accepted_iff` is available after a take-back as well.
-/
namespace Morlock.Props.C19Board
open Morlock Morlock.Model Morlock.Model.Fen Morlock.Proofs Morlock.Proofs.Fen Morlock.Props.C07Board
open Morlock.Proofs.Gen Morlock.Proofs.Chain Morlock.Proofs.Arena Morlock.Model.World

/-- **C19 `move_accepted_iff` on reachable boards.** Board 0 of the engine's world descends from a well-formed set-up by
generated moves, take-backs and forks (`GenBoard`), and the game is not adjudicated (`Engine.Open`). Then `Engine.Move`
accepts a text iff `ParseMove` accepts it and the candidate is a legal move of the reference rules in the current
position - also right after `TakeBack`. -/
theorem move_accepted_iff_genBoard (z : ZTable) (hz : z.enpassant 0 = 0) (e : EngineM) (txt : List Char)
    (hg : GenBoard z e.w 0) (ho : Engine.Open e) :
    (e.move z txt).2 = true ↔
      ∃ cand, parseMove txt = some cand ∧ absMove cand ∈ Spec.legalMoves (abs e.pos e.turn) :=
  C19.move_accepted_iff z e txt (LineWF.cur (genBoard_inv hz hg).2.2.2).wf ho

end Morlock.Props.C19Board
