import Morlock.Proofs.SargonXray
import Morlock.Proofs.BernsteinWide
import Morlock.Props.C20Sargon
import Morlock.Props.C20Bernstein
/-!
# C20 (x-ray) — SARGON's attacker stacks are exactly the reference's x-ray chains; BERNSTEIN is finite for every `int` factor

Closes two items that `Props/C20Sargon.lean` and `Props/C20Bernstein.lean` list as partial.

## 1. SARGON: `findAttackers_stacks_eq_spec`

`Props/C20Sargon.lean` proves that every stack of `FindAttackers` is *sound* (`Chain`) and that the *fronts* are complete
(`findAttackers_fronts_eq_specDirect`). Here: the stack behind each front attacker **equals** `Spec.specStack`
(`Spec/Xray.lean`), the step-by-step walk on the mailbox board that the Go code documents —

  starting on the attacker's square, walk away from the target along the line through both; pass over empty squares; the
  first man met joins the stack iff it is of the **same side**, a **queen** or the **slider of the line** (rook on a rank or
  file, bishop on a diagonal; never a pawn or king), and **not pinned** away from the target; then go on behind it; the
  first man that does not qualify ends the stack. A king has nobody behind it; a knight stands on no line.

So the chain is complete, in order of distance, and nothing is skipped (no "queen behind a bishop" lost, no early stop).
No deviation of the code from this reference was found: the reference above is what the code does on every represented
position. `findAttackers_eq_specAttackers` puts it together with the fronts: the (front, stack) pairs of `FindAttackers`
are exactly `Spec.specAttackers`.

Observations (not findings; evaluated in §1c on concrete positions):
* only men of the attacker's **own side** are stacked: an enemy rook behind a queen is in neither side's list (it does not
  attack the square directly, and stacks never continue through or into enemy men);
* a **pawn** is never a stack member, even standing behind a bishop on the diagonal on which it captures; a pawn *front*
  attacker does get the bishop / queen behind it;
* a **pinned** man behind an attacker ends the stack: it is dropped together with everything behind it (`ret.Behind, _ =`
  discards the `false`), although the men behind it would be the next ones on the line.

## 2. BERNSTEIN: `eval_total_wide`

`eval_total_closed` covers `0 ≤ factor ≤ 10^4` (scores below `2^24`, exact conversion). The true bound has nothing to do with
float32: a score is a Go `int`, at most `2^63`, so `Pawns(score) ≤ 2^63`, `· 100 < 2^70`, and the divisor is `≥ 1` because
rounding is monotone — far from `2^128`. `ratio_total_int64` states this for **any** two scores in `[1, 2^63]`, i.e. for every
value `max(1, ·)` of an `int` can take, whatever `factor` was. What a huge factor breaks is only the model's use of unbounded
`Int` for Go's wrapping `int`: `evaluate_no_wrap` shows that for `|factor| ≤ 2^52` (in particular for every 32-bit factor,
`factor_int32`) no product or sum leaves the 64-bit range, so model and code agree, and `eval_total_wide` gives finiteness on
that range. In the *model* (no wrap) the first float32 overflow appears between `factor = 2^116` and `2^117`
(`model_overflow_beyond_int64`), 53 binary orders of magnitude beyond anything a Go `int` can hold.
-/
namespace Morlock.Props.C20Xray
open Morlock Morlock.Model Morlock.Model.Sargon Morlock.Proofs Morlock.Proofs.Sargon Morlock.Proofs.Gen
open Morlock.Model.Flt (Q f32)

/-! ## 1a. The reference, spelled out -/

/-- the line through target `t` and attacker `f`: kind and unit step from `t` towards `f` -/
theorem lineDir_def (t f : Nat) :
    Spec.lineDir t f =
      (let df : Int := (Spec.fileOf f : Int) - (Spec.fileOf t : Int)
       let dr : Int := (Spec.rankOf f : Int) - (Spec.rankOf t : Int)
       if df = 0 ∧ dr = 0 then none
       else if df = 0 ∨ dr = 0 then some (.rook, df.sign, dr.sign)
       else if df = dr ∨ df = -dr then some (.bishop, df.sign, dr.sign)
       else none) := rfl

/-- one step of the walk -/
theorem xrayWalk_succ (q : Spec.Pos) (pinned : Nat → Bool) (side : Spec.Color) (slider : Spec.Kind) (df dr : Int) (n s : Nat) :
    Spec.xrayWalk q pinned side slider df dr (n + 1) s =
      match Spec.step s df dr with
      | none => []
      | some s' =>
        match q.at s' with
        | none => Spec.xrayWalk q pinned side slider df dr n s'
        | some (c, k) =>
          if c = side ∧ (k = .queen ∨ k = slider) ∧ pinned s' = false then
            (s', k) :: Spec.xrayWalk q pinned side slider df dr n s'
          else [] := rfl

/-- the stack behind the attacker on `f` -/
theorem specStack_def (q : Spec.Pos) (pinned : Nat → Bool) (t : Nat) (side : Spec.Color) (f : Nat) :
    Spec.specStack q pinned t side f =
      match q.at f with
      | some (_, .king) => []
      | _ =>
        match Spec.lineDir t f with
        | none => []
        | some (slider, df, dr) => Spec.xrayWalk q pinned side slider df dr 8 f := rfl

/-- the model placement of a (square, kind) pair of the reference -/
theorem toPl_def (side : Color) (e : Nat × Spec.Kind) :
    toPl side e = { piece := kindPiece e.2, color := side, square := e.1 } := rfl

/-! ## 1b. The theorem -/

/-- **`findAttackers_stacks_eq_spec`.** On every represented position, for every target square, side and pin table: the stack
    `Behind, Behind.Behind, …` of every attacker returned by `FindAttackers(pos, pins, sq, side)` is the reference's x-ray
    chain behind that attacker — the same men, the same kinds, in the same order (nearest to the attacker first). -/
theorem findAttackers_stacks_eq_spec {p : Position} {b : Proofs.Board} (h : Rep p b) (turn : Color) (pins : Pins) {sq : Nat}
    (hsq : sq < 64) (side : Color) {l : List Attacker} (hl : findAttackers p pins sq side = .ok l) :
    ∀ a ∈ l, a.behind =
      (Spec.specStack (abs p turn) (fun s => isPinnedFor pins s sq) sq (absColor side) a.front.square).map (toPl side) :=
  Proofs.Sargon.findAttackers_stacks_eq_spec h turn pins hsq side hl

theorem map_toPl_back (side : Color) (L : List (Nat × Spec.Kind)) :
    (L.map (toPl side)).map (fun q => (q.square, kindOf q.piece)) = L := by
  rw [List.map_map]
  have : ((fun q : Sargon.Placement => (q.square, kindOf q.piece)) ∘ toPl side) = id := by
    funext e
    simp [toPl, kindOf_kindPiece]
  rw [this, List.map_id]

/-- **`findAttackers_eq_specAttackers`.** Fronts and stacks together: `(s, st)` is (front square, stack as squares and kinds)
    of an attacker returned by `FindAttackers` iff it is an entry of the reference list `Spec.specAttackers` (the direct,
    non-pinned attackers of `sq`, each with its x-ray chain). -/
theorem findAttackers_eq_specAttackers {p : Position} {b : Proofs.Board} (h : Rep p b) (turn : Color) (pins : Pins) {sq : Nat}
    (hsq : sq < 64) (side : Color) {l : List Attacker} (hl : findAttackers p pins sq side = .ok l)
    (s : Nat) (st : List (Nat × Spec.Kind)) :
    (∃ a ∈ l, a.front.square = s ∧ a.behind.map (fun q => (q.square, kindOf q.piece)) = st) ↔
      (s, st) ∈ Spec.specAttackers (abs p turn) (fun x => isPinnedFor pins x sq) sq (absColor side) := by
  have hfront := Props.C20Sargon.findAttackers_fronts_eq_specDirect h turn pins hsq side hl
  have hstack := findAttackers_stacks_eq_spec h turn pins hsq side hl
  unfold Spec.specAttackers
  simp only [List.mem_map, Prod.mk.injEq]
  constructor
  · rintro ⟨a, ha, rfl, rfl⟩
    refine ⟨a.front.square, (hfront _).mp ⟨a, ha, rfl⟩, rfl, ?_⟩
    rw [hstack a ha, map_toPl_back]
  · rintro ⟨f, hf, rfl, rfl⟩
    obtain ⟨a, ha, hfa⟩ := (hfront f).mpr hf
    refine ⟨a, ha, hfa, ?_⟩
    rw [hstack a ha, map_toPl_back, hfa]

/-- the number of attackers `NumAttackers` counts (SARGON's mobility term) is the reference's count: one per direct
    attacker plus the length of its x-ray chain -/
theorem numAttackers_eq_spec {p : Position} {b : Proofs.Board} (h : Rep p b) (turn : Color) (pins : Pins) {sq : Nat}
    (hsq : sq < 64) (side : Color) {l : List Attacker} (hl : findAttackers p pins sq side = .ok l) :
    numAttackers l = (l.map fun a =>
      1 + (Spec.specStack (abs p turn) (fun s => isPinnedFor pins s sq) sq (absColor side) a.front.square).length).sum := by
  have hstack := findAttackers_stacks_eq_spec h turn pins hsq side hl
  unfold numAttackers
  congr 1
  apply List.map_congr_left
  intro a ha
  rw [hstack a ha, List.length_map]

/-! ## 1c. Concrete positions (non-vacuity, and what the reference says in the doubtful cases) -/

/-- `6k1/8/8/r1R1p3/4P3/1B1R1B2/P2Q4/1K1R3Q` with the files mirrored as the engine numbers them (`h` = 0): target the black
    pawn d5 (36). White: rook d3 (20) with queen d2 (12) and rook d1 (4) behind it on the file; pawn e4 (27) with bishop f3
    (18) and queen h1 (0) behind it on the diagonal; bishop b3 (22) with the *pawn* a2 (15) behind it; rook g5 (33) with the
    *black* rook h5 (32) behind it. -/
def xrPl : List (Nat × Color × Piece) :=
  [(6, .white, .king), (57, .black, .king), (36, .black, .pawn), (32, .black, .rook),
   (20, .white, .rook), (12, .white, .queen), (4, .white, .rook),
   (27, .white, .pawn), (18, .white, .bishop), (0, .white, .queen),
   (22, .white, .bishop), (15, .white, .pawn), (33, .white, .rook)]
def xr : Position := (Position.newPosition xrPl 0 0).getD {}

theorem xr_eq : Position.newPosition xrPl 0 0 = some xr := by decide +kernel

theorem xr_rep : Rep xr xr.square := by
  have hv : ValidPlacements xrPl := by
    intro x hx
    have : (xrPl.all fun x => decide (x.1 < 64) && (x.2.2 != Piece.none)) = true := by decide +kernel
    have := List.all_eq_true.mp this x hx
    simpa using this
  exact (newPosition_rep hv xr_eq).1.self

theorem ok_of_toOption {α : Type} {x : Except SErr α} {l : α} (h : x.toOption = some l) : x = .ok l := by
  cases x with
  | error e => cases h
  | ok v => simp only [Except.toOption, Option.some.injEq] at h; rw [h]

/-- what the code returns for d5 -/
theorem xr_attackers :
    findAttackers xr (findKingQueenPins xr) 36 .white = .ok
      [{ front := ⟨.rook, .white, 20⟩, behind := [⟨.queen, .white, 12⟩, ⟨.rook, .white, 4⟩] },
       { front := ⟨.rook, .white, 33⟩ },
       { front := ⟨.bishop, .white, 22⟩ },
       { front := ⟨.pawn, .white, 27⟩, behind := [⟨.bishop, .white, 18⟩, ⟨.queen, .white, 0⟩] }] :=
  ok_of_toOption (by decide +kernel)

/-- the theorem applies to it (a queen behind a rook with a rook behind the queen; a queen behind a bishop behind a pawn) -/
example : ∀ a ∈ [({ front := ⟨.rook, .white, 20⟩, behind := [⟨.queen, .white, 12⟩, ⟨.rook, .white, 4⟩] } : Attacker),
       { front := ⟨.rook, .white, 33⟩ }, { front := ⟨.bishop, .white, 22⟩ },
       { front := ⟨.pawn, .white, 27⟩, behind := [⟨.bishop, .white, 18⟩, ⟨.queen, .white, 0⟩] }],
    a.behind = (Spec.specStack (abs xr .white) (fun s => isPinnedFor (findKingQueenPins xr) s 36) 36 .white a.front.square).map
      (toPl .white) :=
  findAttackers_stacks_eq_spec xr_rep .white (findKingQueenPins xr) (by decide) .white xr_attackers

/-- … and what the reference says, evaluated on the mailbox board: complete chains in order of distance; the pawn a2 behind
    the bishop b3 and the black rook h5 behind the rook g5 are not stacked -/
theorem xr_spec :
    Spec.specAttackers (abs xr .white) (fun s => isPinnedFor (findKingQueenPins xr) s 36) 36 .white =
      [(20, [(12, .queen), (4, .rook)]), (22, []), (27, [(18, .bishop), (0, .queen)]), (33, [])] := by decide +kernel

/-- the black rook h5 is in nobody's list: it does not attack d5 directly (the white rook g5 is in the way), and no stack
    continues into a man of the other side -/
example : findAttackers xr (findKingQueenPins xr) 36 .black = .ok [] := ok_of_toOption (by decide +kernel)

/-- the same with the white king on a2 and a black rook on h2 (8): the queen d2 is pinned to the king along the second rank.
    The stack behind the rook d3 is now **empty** — the pinned queen is dropped, and the rook d1 behind it with it. -/
def xpPl : List (Nat × Color × Piece) :=
  [(15, .white, .king), (57, .black, .king), (36, .black, .pawn), (32, .black, .rook), (8, .black, .rook),
   (20, .white, .rook), (12, .white, .queen), (4, .white, .rook),
   (27, .white, .pawn), (18, .white, .bishop), (0, .white, .queen),
   (22, .white, .bishop), (33, .white, .rook)]
def xp : Position := (Position.newPosition xpPl 0 0).getD {}

theorem xp_eq : Position.newPosition xpPl 0 0 = some xp := by decide +kernel

theorem xp_rep : Rep xp xp.square := by
  have hv : ValidPlacements xpPl := by
    intro x hx
    have : (xpPl.all fun x => decide (x.1 < 64) && (x.2.2 != Piece.none)) = true := by decide +kernel
    have := List.all_eq_true.mp this x hx
    simpa using this
  exact (newPosition_rep hv xp_eq).1.self

theorem xp_pins : findKingQueenPins xp = [(12, 8), (36, 22)] := by decide +kernel

theorem xp_attackers :
    findAttackers xp (findKingQueenPins xp) 36 .white = .ok
      [{ front := ⟨.rook, .white, 20⟩ }, { front := ⟨.rook, .white, 33⟩ }, { front := ⟨.bishop, .white, 22⟩ },
       { front := ⟨.pawn, .white, 27⟩, behind := [⟨.bishop, .white, 18⟩, ⟨.queen, .white, 0⟩] }] :=
  ok_of_toOption (by decide +kernel)

theorem xp_spec :
    Spec.specAttackers (abs xp .white) (fun s => isPinnedFor (findKingQueenPins xp) s 36) 36 .white =
      [(20, []), (22, []), (27, [(18, .bishop), (0, .queen)]), (33, [])] := by decide +kernel

example : (20, []) ∈ Spec.specAttackers (abs xp .white) (fun s => isPinnedFor (findKingQueenPins xp) s 36) 36 .white :=
  (findAttackers_eq_specAttackers xp_rep .white (findKingQueenPins xp) (by decide) .white xp_attackers 20 []).mp
    ⟨{ front := ⟨.rook, .white, 20⟩ }, by simp, rfl, rfl⟩

/-! ## 2. BERNSTEIN -/

section Bernstein
open Morlock.Model.Bernstein Morlock.Proofs.Bernstein

/-- **`ratio_total_int64`.** The float32 part of `Eval.Evaluate` — `Pawns(self) * 100 / Pawns(opp)` with either sign — is
    finite for **every** pair of scores in `[1, 2^63]`, i.e. for every value `max(1, score)` of a 64-bit `int` can take:
    no float32 overflow, no division by zero, no NaN, whatever the factor. -/
theorem ratio_total_int64 {s o : Int} (hs : 1 ≤ s) (hs' : s ≤ 2 ^ 63) (ho : 1 ≤ o) (ho' : o ≤ 2 ^ 63) (sign : Bool) :
    ((Flt.rnd f32 (Q.ofInt s)).bind fun a =>
      (Flt.mul f32 (if sign then a.neg else a) (Q.ofInt 100)).bind fun m =>
      (Flt.rnd f32 (Q.ofInt o)).bind fun b => Flt.div f32 m b).isSome = true :=
  ratio_isSome_wide hs hs' ho ho' sign

/-- **`evaluate_no_wrap`.** For `|factor| ≤ 2^52` nothing in `Evaluate` leaves the range of Go's 64-bit `int` (so the model's
    unbounded `Int` is faithful): the product `factor * material` is within `±2^63`, and the score is in
    `[1, 82304 + 1344·2^52] ⊂ [1, 2^63)`. -/
theorem evaluate_no_wrap {p : Position} {factor : Int} {side : Color} {v : Int}
    (hf0 : -(2 ^ 52) ≤ factor) (hf1 : factor ≤ 2 ^ 52) (h : evaluate p factor side = some v) :
    1 ≤ v ∧ v ≤ 82304 + 1344 * 2 ^ 52 ∧ v < 2 ^ 63 ∧
      -(2 ^ 63) < factor * material p side ∧ factor * material p side < 2 ^ 63 := by
  obtain ⟨h1, h2, h3, h4⟩ := evaluate_bounds_wide (p := p) (side := side) hf0 hf1 h
  have := scoreMax_lt
  exact ⟨h1, h2, by unfold scoreMax at h2 this; omega, h3, h4⟩

/-- **`eval_total_wide`.** `Eval.Evaluate` returns a finite float32 (no panic, no division by zero, no infinity, no NaN) on
    every represented position in which both sides have a king, for every factor with `|factor| ≤ 2^52`. -/
theorem eval_total_wide {p : Position} {b : Proofs.Board} (h : Rep p b) {factor : Int} {turn : Color}
    (hf0 : -(2 ^ 52) ≤ factor) (hf1 : factor ≤ 2 ^ 52)
    (hk1 : p.pieces turn .king ≠ 0) (hk2 : p.pieces turn.opp .king ≠ 0) :
    (evalEvaluate p factor turn).isSome = true :=
  evalEvaluate_isSome_wide hf0 hf1 ((kingSquare_lt_iff (h.piecesLt _ _)).mpr hk1) ((kingSquare_lt_iff (h.piecesLt _ _)).mpr hk2)

/-- in particular for every non-negative factor below `2^31` (the statement asked for), and for every 32-bit `int` -/
theorem factor_int32 {p : Position} {b : Proofs.Board} (h : Rep p b) {factor : Int} {turn : Color}
    (hf0 : -(2 ^ 31) ≤ factor) (hf1 : factor < 2 ^ 31)
    (hk1 : p.pieces turn .king ≠ 0) (hk2 : p.pieces turn.opp .king ≠ 0) :
    (evalEvaluate p factor turn).isSome = true :=
  eval_total_wide h (by have : (2:Int) ^ 31 ≤ 2 ^ 52 := by decide
                        omega) (by have : (2:Int) ^ 31 ≤ 2 ^ 52 := by decide
                                   omega) hk1 hk2

/-- Kiwipete with `factor = 2^31 − 1`: the hypotheses are met; the value is a float32 -/
example : (evalEvaluate kiwiPos (2 ^ 31 - 1) .white).isSome = true :=
  factor_int32 kiwiPos_rep (by decide) (by decide) (by decide +kernel) (by decide +kernel)

example : (evalEvaluate kiwiPos (2 ^ 52) .black).isSome = true :=
  eval_total_wide kiwiPos_rep (by decide) (by decide) (by decide +kernel) (by decide +kernel)

/-- **Where the model (without wrap-around) overflows**: Kiwipete, 39 points of material each. With `factor = 2^116` the
    ratio is still a float32; with `factor = 2^117` the product `Pawns(self) * 100 ≈ 3900 · 2^117 > 2^128` is infinite. No Go
    `int` holds such a factor: the bound of `eval_total_wide` is set by `int`, not by float32. -/
theorem model_overflow_beyond_int64 :
    (evalEvaluate kiwiPos (2 ^ 116) .white).isSome = true ∧ evalEvaluate kiwiPos (2 ^ 117) .white = none := by
  constructor <;> decide +kernel

end Bernstein

end Morlock.Props.C20Xray
