import Morlock.Proofs.ConcUciAns
/-!
# C04 — every `go` the GUI is still waiting on gets exactly one `bestmove` (UCI driver, finite-trace liveness)

Model: `Morlock/Model/UciConc.lean`; see `Props/C16.lean` for the vocabulary (`run`, `init`, schedules, the ghost
`log`, `bestCount`, `commitCount`). Liveness is stated on finite traces: a state is **quiescent** when no thread
can take a step (`Quiescent s := ∀ a, step s a = s`) — every searcher has exited, every forwarder has finished,
every timer has fired and its token was consumed, and the loop is blocked in `select` with no input, no ponder
info and no timeout pending (or has returned). No fairness assumption is needed: the theorem speaks about
every state in which the system has come to rest, for every command list and every schedule.

Vocabulary (defined in `Proofs/ConcUciLive.lean`, on the log, newest first):
* `cur log : Option GoArgs` — the arguments of the latest well-formed `go` consumed, provided no later consumed
  command superseded it: `position`, `ucinewgame`, another `go` (well-formed or malformed), `quit`, EOF all
  supersede (the loop calls `ensureInactive` for them); `isready`, `stop`, and unknown commands do not.
* `stopped log` — a `stop` was consumed after that `go`.
* `goConsumed log` — the number of well-formed `go`s consumed = the number `d.searches` gave to the latest one.
-/
namespace Morlock.Props.C04
open Morlock.Model.UciConc Morlock.Proofs.ConcUci

/-- **answered.** In every quiescent state of every run: if the latest well-formed `go` was not superseded
(`cur log = some g`), its book lookup did not fail, and
* it had a book move, or
* it was finite (not `go infinite`: its search ended by itself — in a quiescent state every search has ended), or
* it had a `movetime`, or
* a `stop` was consumed after it,

then exactly one `bestmove` line carrying its number was put on `out`, exactly one `searchCompleted` CAS
succeeded for it, nobody still owes a line, and the loop is alive in `select`. (Together with
`C16.at_most_one`/`no_stale_partial` this is: one answer, for the right go, decided while it was the latest.) -/
theorem answered (cmds : List Cmd) (pcap : Nat) (sched : List Act)
    (hq : Quiescent (run (init cmds pcap) sched)) (g : GoArgs)
    (hg : cur (run (init cmds pcap) sched).log = some g) (hb : g.book ≠ .err)
    (hwhy : g.book = .hit ∨ g.infinite = false ∨ g.movetime = true ∨
      stopped (run (init cmds pcap) sched).log = true) :
    let s := run (init cmds pcap) sched
    let id := goConsumed s.log
    id = s.searches ∧ 1 ≤ id ∧ bestCount id s.log = 1 ∧ commitCount id s.log = 1 ∧ s.loop = .select := by
  intro s id
  have hall := allInv_run cmds pcap sched
  obtain ⟨h1, h1', h2⟩ := answered_of_quiescent hall hq g hg hb hwhy
  have hid : id = s.searches := by
    have := hall.gocount
    unfold GoCountInv at this
    rw [h2] at this
    simpa [LPc.goPending] using this
  have hk := (hall.live g hg (by rw [h2]; rfl)).kpos
  refine ⟨hid, by rw [hid]; exact hk, by rw [hid]; exact h1, by rw [hid]; exact h1', h2⟩

/-- what a quiescent state is (used to read `answered`): all searchers have exited, all forwarders have finished,
and the loop has returned or is blocked in `select` with nothing to receive; if it is in `select`, all timers
have fired. -/
theorem quiescent_shape (cmds : List Cmd) (pcap : Nat) (sched : List Act)
    (hq : Quiescent (run (init cmds pcap) sched)) :
    let s := run (init cmds pcap) sched
    (∀ x ∈ s.srch, x.done = true) ∧ (∀ f ∈ s.fwds, f.pc = .finished) ∧
    (s.loop = .finished ∨ (s.loop = .select ∧ s.cmds = [] ∧ s.ponder = [] ∧ s.timeouts = none)) ∧
    (s.loop = .select → ∀ t ∈ s.timers, t.fired = true) := by
  intro s
  have hall := allInv_run cmds pcap sched
  refine ⟨?_, fun f hf => quiet_fwds hq hall.eng f hf, quiet_loop hq hall.eng hall.cls hall.srch, ?_⟩
  · intro x hx
    obtain ⟨j, hj⟩ := List.mem_iff_getElem?.1 hx
    exact quiet_searches hq j x hj
  · intro hsel t ht
    rcases quiet_loop hq hall.eng hall.cls hall.srch with hf | hs
    · rw [hf] at hsel; cases hsel
    · exact quiet_timers hq hs.2.2.2 t ht

/-! ## the hypotheses are satisfiable -/

/-- one step of the command loop (at `select`: receive the next command) -/
def L : Act := .loop .cmd

/-- `isready; go` (finite), the search completes depth 1 and ends, the forwarder reports: a quiescent state with
the go answered. -/
def session : State :=
  run (init [.isready, .go {}])
    ([L, L] ++ List.replicate 8 L ++ [.searchIter 0, .searchExit 0, .fwd 0, .fwd 0, .fwd 0, .fwd 0, .fwd 0, .fwd 0,
      .fwd 0, .loop .ponder, L, L])

example : session.log = [.send (.bestmove 1 1), .send (.info 1), .commit 1 1,
    .consume (.go {}), .send .readyok, .consume .isready] ∧ cur session.log = some {} := by
  decide

example : Quiescent session := by
  have hf : session.fwds.length = 1 := by decide
  have ht : session.timers.length = 0 := by decide
  have hs : session.srch.length = 1 := by decide
  intro a
  cases a with
  | loop c => cases c <;> decide
  | fwd j =>
    match j with
    | 0 => decide
    | j + 1 =>
      have : session.fwds[j + 1]? = none := List.getElem?_eq_none (by omega)
      simp [step, stepWith, stepFwd, this]
  | timerSend j =>
    have : session.timers[j]? = none := List.getElem?_eq_none (by omega)
    simp [step, stepWith, stepTimerSend, this]
  | timerDrop j =>
    have : session.timers[j]? = none := List.getElem?_eq_none (by omega)
    simp [step, stepWith, stepTimerDrop, this]
  | searchIter j =>
    match j with
    | 0 => decide
    | j + 1 =>
      have : session.srch[j + 1]? = none := List.getElem?_eq_none (by omega)
      simp [step, stepWith, stepIter, this]
  | searchExit j =>
    match j with
    | 0 => decide
    | j + 1 =>
      have : session.srch[j + 1]? = none := List.getElem?_eq_none (by omega)
      simp [step, stepWith, stepExit, this]

end Morlock.Props.C04
