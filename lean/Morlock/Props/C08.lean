import Morlock.Proofs.ArenaObs
/-!
# C08 — take-back and fork on the game-history arena are exact inverses and isolated

All theorems are about `Morlock.Model.World` (`Morlock/Model/Board.lean`), the transcription of
`pkg/board/board.go` on an arena of nodes. Vocabulary (defined in `Morlock/Proofs/Arena*.lean`):

* `WFWorld w` — every board's current node exists and every `prev` index is smaller than the node's own
  index (append-only arena). Preserved by `newBoard`, `fork`, `pushMove`, `popMove`,
  `adjudicateNoLegalMoves` (`wf_*`), and true of the empty world.
* `obsNoResult w b : ObsNR` — everything board `b` reports except its result: position, side to move,
  hash, half-move clock, ply and full-move counters, the two has-castled flags, `lastMove`,
  `secondToLastMove`, `hasMoved k` for every `k`, the repetition counter of the current hash, the whole
  repetition map (`repGet` for every hash) and `identicalPositionCount` of the current node for all
  arguments. `obs w b` adds the result *class*: `drawn` (outcome = draw) and `blocked` (reason is
  checkmate / stalemate, the only results that make `pushMove` refuse). `resultNotDrawn w b` is
  `drawn w b = false`.
* `CastleFresh w b m` — if `m` is a castling move, the mover's has-castled flag is not already set;
  `CastleOnce z b w ms` — the same for every move of the line `ms`. This is needed because
  `popMove` *clears* the flag of the side whose castling is taken back (`castled_flag_lost` shows the
  flag is lost otherwise). Chess guarantees it (castling forfeits the rights), the board does not check it.
* `pushAll`, `popN`, `run` (a list of `Op.push m` / `Op.pop` on one board), `run2` (interleaved on two
  boards), `above d ops` / `above2 da db ops` (no take-back goes below the starting point).
* `OptRel R o₁ o₂` — both `none`, or both `some` and related by `R`.
-/
namespace Morlock.Props.C08
open Morlock Morlock.Model Morlock.Model.World Morlock.Proofs.Arena

/-! ## 1. one move and its take-back -/

/-- **push_pop.** Taking back a move just played succeeds, returns that move, and restores everything
the board reports (all of `obsNoResult`, in particular the whole repetition map); the result is
`Undecided`, hence not drawn. The arena of `w''` has one more (unreachable) node than `w` and the `next`
field of the current node is cleared — no observation depends on either. -/
theorem push_pop {w w' : World} {z : ZTable} {b : Nat} {m : Move}
    (hw : WFWorld w) (hb : b < w.boards.size)
    (hpush : w.pushMove z b m = some w') (hc : CastleFresh w b m) :
    ∃ w'', w'.popMove b = some (w'', m) ∧
      obsNoResult w'' b = obsNoResult w b ∧
      resultNotDrawn w'' b ∧
      (∀ h, repGet (w''.board b).repetitions h = repGet (w.board b).repetitions h) ∧
      (w''.board b).result = { outcome := .undecided } := by
  have hw' := wf_push hw hb hpush
  have hb' : b < w'.boards.size := by rw [boards_size_push hpush]; exact hb
  have hv := viewPop_viewPush (push_view_some hw hb hpush) hc
  obtain ⟨w'', hpop, hview⟩ := pop_of_view hw' hb' hv
  have hw'' := wf_pop hw' hpop
  refine ⟨w'', hpop, ?_, ?_, ?_, ?_⟩
  · rw [obsNoResult_eq hw'', obsNoResult_eq hw, hview]; rfl
  · show drawnR (view w'' b).result = false
    rw [hview]; rfl
  · intro h
    exact congrFun (congrArg View.reps hview) h
  · exact congrArg View.result hview

/-- The hypothesis `CastleFresh` of `push_pop` is necessary: whenever a castling move is taken back, the
mover's has-castled flag reads `false` afterwards — also when it was already `true` before the move. -/
theorem castled_flag_lost {w w' w'' : World} {z : ZTable} {b : Nat} {m m' : Move}
    (hw : WFWorld w) (hb : b < w.boards.size)
    (hpush : w.pushMove z b m = some w') (hm : m.isCastle = true) (hpop : w'.popMove b = some (w'', m')) :
    ((w.board b).turn = .white → (w''.board b).castledW = false) ∧
    ((w.board b).turn = .black → (w''.board b).castledB = false) := by
  have hw' := wf_push hw hb hpush
  have hb' : b < w'.boards.size := by rw [boards_size_push hpush]; exact hb
  have h1 := push_view_some hw hb hpush
  have h2 := pop_view_some hw' hb' hpop
  unfold viewPush at h1
  split at h1
  · cases h1
  · split at h1
    · cases h1
    · simp only [Option.some.injEq] at h1
      rw [← h1] at h2
      simp only [viewPop, Option.some.injEq, Prod.mk.injEq] at h2
      have hW : (w''.board b).castledW = (view w'' b).castledW := rfl
      have hB : (w''.board b).castledB = (view w'' b).castledB := rfl
      have hT : (w.board b).turn = (view w b).turn := rfl
      rw [hW, hB, hT, ← h2.1]
      simp only [opp_opp, hm, Bool.true_and]
      constructor <;> intro ht <;> simp [ht]

/-! ## 2. any nesting depth -/

/-- **pushes_pops.** After the moves `ms` (all accepted) followed by as many take-backs, every take-back
succeeds, the moves come back in reverse order, and the board reports exactly what it reported at the
start (the result is `Undecided`, hence not drawn, as soon as one move was played). -/
theorem pushes_pops {w w' : World} {z : ZTable} {b : Nat} {ms : List Move}
    (hw : WFWorld w) (hb : b < w.boards.size)
    (hpush : pushAll z b w ms = some w') (hc : CastleOnce z b w ms) :
    ∃ w'', popN b w' ms.length = some (w'', ms.reverse) ∧
      obsNoResult w'' b = obsNoResult w b ∧
      (∀ h, repGet (w''.board b).repetitions h = repGet (w.board b).repetitions h) ∧
      (ms ≠ [] → (w''.board b).result = { outcome := .undecided } ∧ resultNotDrawn w'' b) ∧
      (ms = [] → w'' = w) := by
  have hwf := pushAll_wf ms hw hb hpush
  have hb' : b < w'.boards.size := by rw [hwf.2]; exact hb
  have hv : viewPushAll z (view w b) ms = some (view w' b) := by
    rw [← pushAll_view ms hw hb, hpush]; rfl
  have hp := viewPopN_viewPushAll hv (castleOnceV_of ms hw hb hc)
  rw [← popN_view ms.length hwf.1 hb'] at hp
  cases hpop : popN b w' ms.length with
  | none => rw [hpop] at hp; cases hp
  | some r =>
    obtain ⟨w'', l⟩ := r
    rw [hpop] at hp
    simp only [Option.map_some, Option.some.injEq, Prod.mk.injEq] at hp
    obtain ⟨hview, rfl⟩ := hp
    have hw'' : WFWorld w'' := popN_wf _ hwf.1 hpop
    refine ⟨w'', rfl, ?_, ?_, ?_, ?_⟩
    · rw [obsNoResult_eq hw'', obsNoResult_eq hw, hview]
      unfold View.afterDetour; split <;> rfl
    · intro h
      refine Eq.trans (congrFun (congrArg View.reps hview) h) ?_
      unfold View.afterDetour; split <;> rfl
    · intro hne
      have hr : (w''.board b).result = { outcome := .undecided } := by
        have := congrArg View.result hview
        simp only [View.afterDetour, if_neg hne] at this
        exact this
      exact ⟨hr, by show drawnR (w''.board b).result = false; rw [hr]; rfl⟩
    · intro he
      subst he
      simp only [pushAll, Option.some.injEq] at hpush
      simp only [List.length_nil, popN, Option.some.injEq, Prod.mk.injEq] at hpop
      rw [← hpop.1, ← hpush]

/-! ## 3. play continues identically after a detour -/

/-- **continue_identically** (any continuation). After a move and its take-back, *every* sequence of
further moves and take-backs succeeds exactly when it would have succeeded without the detour and leads
to the same observations; from the first operation on, the results are equal too. (For the empty
continuation only the result may differ: it is `Undecided` after the detour.) -/
theorem continue_identically {w w' w'' : World} {z : ZTable} {b : Nat} {m m' : Move}
    (hw : WFWorld w) (hb : b < w.boards.size)
    (hpush : w.pushMove z b m = some w') (hc : CastleFresh w b m) (hpop : w'.popMove b = some (w'', m'))
    (ops : List Op) :
    OptRel (fun wa wb => obsNoResult wa b = obsNoResult wb b ∧ blocked wa b = blocked wb b ∧
        (ops ≠ [] → obs wa b = obs wb b ∧ (wa.board b).result = (wb.board b).result))
      (run z b w ops) (run z b w'' ops) := by
  have hw' := wf_push hw hb hpush
  have hb' : b < w'.boards.size := by rw [boards_size_push hpush]; exact hb
  have hw'' := wf_pop hw' hpop
  have hb'' : b < w''.boards.size := by rw [boards_size_pop hpop]; exact hb'
  have hpv := push_view_some hw hb hpush
  have hview : view w'' b = (view w b).setResult { outcome := .undecided } := by
    have h1 := pop_view_some hw' hb' hpop
    rw [viewPop_viewPush hpv hc] at h1
    simp only [Option.some.injEq, Prod.mk.injEq] at h1
    exact h1.1.symm
  have hsim : SimW (view w b) (view w'' b) := by
    rw [hview]
    exact ⟨rfl, by rw [viewPush_some_not_blocked hpv]; rfl⟩
  exact run_sim hw hw'' hb hb'' hsim ops

/-- **continue_same.** After a move and its take-back, a further move `m2` is accepted exactly when it
would have been accepted without the detour, and then the board reports the same — all observations,
and even the very same result (`pushMove` recomputes the result from scratch). -/
theorem continue_same {w w' w'' : World} {z : ZTable} {b : Nat} {m m' : Move}
    (hw : WFWorld w) (hb : b < w.boards.size)
    (hpush : w.pushMove z b m = some w') (hc : CastleFresh w b m) (hpop : w'.popMove b = some (w'', m'))
    (m2 : Move) :
    OptRel (fun wa wb => obs wa b = obs wb b ∧ (wa.board b).result = (wb.board b).result)
      (w.pushMove z b m2) (w''.pushMove z b m2) := by
  have := continue_identically (z := z) hw hb hpush hc hpop [Op.push m2]
  simp only [run, step] at this
  cases h1 : w.pushMove z b m2 <;> cases h2 : w''.pushMove z b m2 <;> rw [h1, h2] at this <;>
    simp only [Option.bind_some, Option.bind_none, OptRel] at this ⊢
  exact this.2.2 (by simp)

/-! ## 4. a fork is isolated -/

/-- **fork_isolated** (interleaved form). Fork board `b`, then apply any interleaving of moves and
take-backs to the original (`true`) and to the fork (`false`) such that neither is ever taken back below
the fork point. Then what each board reports at the end is what it would report had the other board not
been touched at all: the original as if it had played its own operations in the world without the fork,
the fork as if it alone had played after forking. -/
theorem fork_isolated {w w' : World} {z : ZTable} {b : Nat} {ops : List (Bool × Op)}
    (hw : WFWorld w) (hb : b < w.boards.size)
    (habove : above2 0 0 ops = true)
    (hrun : run2 z b (w.fork b).2 (w.fork b).1 ops = some w') :
    (∃ wb, run z b w (proj true ops) = some wb ∧ obs w' b = obs wb b ∧
        (w'.board b).result = (wb.board b).result) ∧
    (∃ wf, run z (w.fork b).2 (w.fork b).1 (proj false ops) = some wf ∧
        obs w' (w.fork b).2 = obs wf (w.fork b).2 ∧
        (w'.board (w.fork b).2).result = (wf.board (w.fork b).2).result) := by
  have hw1 := wf_fork hw b
  have hb1 : b < (w.fork b).1.boards.size := by rw [fork_boards_size]; omega
  have hf1 : (w.fork b).2 < (w.fork b).1.boards.size := by rw [fork_boards_size, fork_id]; omega
  have hne : b ≠ (w.fork b).2 := by rw [fork_id]; omega
  obtain ⟨hs1, hs2⟩ := sep_fork hw hb
  have hwf' := (run2_wf ops hw1 hb1 hf1 hrun).1
  obtain ⟨hva, hvb⟩ := run2_view ops hw1 hb1 hf1 hne hs1 hs2 habove hrun
  constructor
  · rw [view_fork_old hw b hb, ← run_view _ hw hb] at hva
    cases hr : run z b w (proj true ops) with
    | none => rw [hr] at hva; cases hva
    | some wb =>
      rw [hr] at hva
      simp only [Option.map_some, Option.some.injEq] at hva
      have hwb := (run_wf _ hw hb hr).1
      exact ⟨wb, rfl, obs_of_view_eq hwf' hwb hva.symm, (congrArg View.result hva).symm⟩
  · rw [← run_view _ hw1 hf1] at hvb
    cases hr : run z (w.fork b).2 (w.fork b).1 (proj false ops) with
    | none => rw [hr] at hvb; cases hvb
    | some wf =>
      rw [hr] at hvb
      simp only [Option.map_some, Option.some.injEq] at hvb
      have hwf := (run_wf _ hw1 hf1 hr).1
      exact ⟨wf, rfl, obs_of_view_eq hwf' hwf hvb.symm, (congrArg View.result hvb).symm⟩

/-- **fork_isolated**, operations on the fork only: any sequence of moves and take-backs on the fork that
never goes below the fork point leaves what the original reports unchanged. -/
theorem fork_isolated_original {w w' : World} {z : ZTable} {b : Nat} {ops : List Op}
    (hw : WFWorld w) (hb : b < w.boards.size)
    (habove : above 0 ops = true)
    (hrun : run z (w.fork b).2 (w.fork b).1 ops = some w') :
    obs w' b = obs w b ∧ (w'.board b).result = (w.board b).result := by
  have h2 : run2 z b (w.fork b).2 (w.fork b).1 (ops.map fun o => (false, o)) = some w' := by
    rw [run2_snd]; exact hrun
  have ha : above2 0 0 (ops.map fun o => (false, o)) = true := by rw [above2_snd]; exact habove
  obtain ⟨⟨wb, hr, ho, hres⟩, _⟩ := fork_isolated hw hb ha h2
  rw [proj_map_other (by simp)] at hr
  simp only [run, Option.some.injEq] at hr
  subst hr
  exact ⟨ho, hres⟩

/-- **fork_isolated**, operations on the original only: any sequence of moves and take-backs on the
original that never goes below the fork point leaves what the fork reports unchanged (and that is what
the original reported when it was forked). -/
theorem fork_isolated_fork {w w' : World} {z : ZTable} {b : Nat} {ops : List Op}
    (hw : WFWorld w) (hb : b < w.boards.size)
    (habove : above 0 ops = true)
    (hrun : run z b (w.fork b).1 ops = some w') :
    obs w' (w.fork b).2 = obs (w.fork b).1 (w.fork b).2 ∧ obs w' (w.fork b).2 = obs w b ∧
      (w'.board (w.fork b).2).result = (w.board b).result := by
  have h2 : run2 z b (w.fork b).2 (w.fork b).1 (ops.map fun o => (true, o)) = some w' := by
    rw [run2_fst]; exact hrun
  have ha : above2 0 0 (ops.map fun o => (true, o)) = true := by rw [above2_fst]; exact habove
  obtain ⟨_, ⟨wf, hr, ho, hres⟩⟩ := fork_isolated hw hb ha h2
  rw [proj_map_other (by simp)] at hr
  simp only [run, Option.some.injEq] at hr
  subst hr
  have hv := view_fork_new hw b
  refine ⟨ho, ?_, ?_⟩
  · rw [ho]; exact obs_of_view_eq (wf_fork hw b) hw hv
  · rw [hres]; exact congrArg View.result hv

/-- The exclusion in `fork_isolated` is necessary: taking the fork back *below* the fork point clears the
shared `next` field, and the original then reports the zero move as its last move. -/
theorem pop_below_fork_clobbers {w w' : World} {b : Nat} {m : Move}
    (hw : WFWorld w) (hb : b < w.boards.size)
    (hpop : (w.fork b).1.popMove (w.fork b).2 = some (w', m)) :
    w'.lastMove b = some {} ∧ w.lastMove b = some m := by
  have hc := hw.cur_lt b hb
  have hne : (w.fork b).2 ≠ b := by rw [fork_id]; omega
  have hbd : w'.board b = w.board b := by
    rw [pop_board_other hpop hne, fork_board, if_neg (by omega)]
  obtain ⟨pi, hp, hm, rfl⟩ := popMove_some hpop
  have hcf : (w.fork b).1.cur (w.fork b).2 = forkNode w b := by
    unfold cur
    rw [fork_board, fork_id, if_pos rfl, fork_node]
    simp
  rw [hcf] at hp
  have hp' : (w.cur b).prev = some pi := hp
  have hlt : pi < (w.board b).current := hw.prev_lt _ _ hp'
  have hpi : (w.fork b).1.node pi = w.node pi := fork_node_old b (by omega)
  constructor
  · unfold lastMove cur
    rw [hbd, setBoard_node, setNode_node, if_neg (by omega), fork_node_old b hc]
    show ((w.cur b).prev).map _ = _
    rw [hp']
    simp only [Option.map_some, setBoard_node, setNode_node, fork_nodes_size]
    rw [if_pos ⟨trivial, by omega⟩]
  · unfold lastMove
    rw [hp', hm, hpi]
    rfl

/-! ## 5. a fork shares the past -/

/-- **fork_shares_past.** Right after forking, the fork reports exactly what the original reports —
including `identicalPositionCount` for every argument, i.e. the common history is visible to both — and
the original is unaffected by the fork. -/
theorem fork_shares_past {w : World} {b : Nat} (hw : WFWorld w) (hb : b < w.boards.size) :
    obs (w.fork b).1 (w.fork b).2 = obs w b ∧
    obs (w.fork b).1 b = obs w b ∧
    ((w.fork b).1.board (w.fork b).2).result = (w.board b).result ∧
    (∀ turn t0 limit,
      (w.fork b).1.identicalPositionCount ((w.fork b).1.cur (w.fork b).2) turn t0 limit =
        w.identicalPositionCount (w.cur b) turn t0 limit) ∧
    (∀ turn t0 limit,
      (w.fork b).1.identicalPositionCount ((w.fork b).1.cur b) turn t0 limit =
        w.identicalPositionCount (w.cur b) turn t0 limit) := by
  have hw1 := wf_fork hw b
  have h1 := obs_of_view_eq hw1 hw (view_fork_new hw b)
  have h2 := obs_of_view_eq hw1 hw (view_fork_old hw b hb)
  refine ⟨h1, h2, congrArg View.result (view_fork_new hw b), ?_, ?_⟩
  · intro turn t0 limit
    exact congrFun (congrFun (congrFun (congrArg (fun o => o.nr.identical) h1) turn) t0) limit
  · intro turn t0 limit
    exact congrFun (congrFun (congrFun (congrArg (fun o => o.nr.identical) h2) turn) t0) limit

/-- **fork_replays.** The fork continues exactly like the original would: any sequence of moves and
take-backs (also below the fork point) on the fork succeeds iff the same sequence succeeds on the
original in the world without the fork, and both report the same, result included — so the fork detects
every repetition against the common past that the original would detect. -/
theorem fork_replays {w : World} {z : ZTable} {b : Nat} (hw : WFWorld w) (hb : b < w.boards.size)
    (ops : List Op) :
    OptRel (fun wf wo => obs wf (w.fork b).2 = obs wo b ∧ (wf.board (w.fork b).2).result = (wo.board b).result)
      (run z (w.fork b).2 (w.fork b).1 ops) (run z b w ops) := by
  have hw1 := wf_fork hw b
  have hf1 : (w.fork b).2 < (w.fork b).1.boards.size := by rw [fork_boards_size, fork_id]; omega
  have hv := view_fork_new hw b
  have hrel : OptRel (fun wa wb => view wa (w.fork b).2 = view wb b)
      (run z (w.fork b).2 (w.fork b).1 ops) (run z b w ops) := by
    apply OptRel.map_view (R := fun x y => x = y)
    rw [run_view ops hw1 hf1, run_view ops hw hb, hv]
    cases viewRun z (view w b) ops <;> simp [OptRel]
  apply hrel.imp
  intro wa wb ea eb h
  have hwa := (run_wf ops hw1 hf1 ea).1
  have hwb := (run_wf ops hw hb eb).1
  exact ⟨obs_of_view_eq hwa hwb h, congrArg View.result h⟩

/-! ## the hypotheses are satisfiable -/

section Example

/-- a trivial Zobrist table -/
def z0 : ZTable := ⟨fun _ _ _ => 0, fun _ => 0, fun _ => 0, fun _ => 0⟩
/-- a lone white knight on H1 -/
def pos0 : Position := (Position.newPosition [(0, .white, .knight)] 0 0).getD {}
def m0 : Move := { ty := .normal, «from» := 0, to := 10, piece := .knight }
def m1 : Move := { ty := .normal, «from» := 10, to := 0, piece := .knight }
/-- one board on that position -/
def w0 : World := (({} : World).newBoard z0 pos0 .white 0 1).1

theorem w0_wf : WFWorld w0 := wf_newBoard wf_empty _ _ _ _ _

/-- The hypotheses of `push_pop`, `pushes_pops` (depth 2), `continue_same` and `fork_isolated` hold in a
concrete world: board 0 of `w0` accepts `m0` then `m1`, neither is a castling move, and after forking,
the interleaving "original plays `m0`, fork plays `m0`, fork takes back, original takes back" runs. -/
example :
    WFWorld w0 ∧ 0 < w0.boards.size ∧
    (∃ w', w0.pushMove z0 0 m0 = some w') ∧ CastleFresh w0 0 m0 ∧
    (∃ w', pushAll z0 0 w0 [m0, m1] = some w') ∧ CastleOnce z0 0 w0 [m0, m1] ∧
    above2 0 0 [(true, .push m0), (false, .push m0), (false, .pop), (true, .pop)] = true ∧
    (∃ w', run2 z0 0 (w0.fork 0).2 (w0.fork 0).1
      [(true, .push m0), (false, .push m0), (false, .pop), (true, .pop)] = some w') := by
  refine ⟨w0_wf, by decide, ?_, ?_, ?_, ?_, by decide, ?_⟩
  · exact Option.isSome_iff_exists.mp (by decide)
  · intro h; exact absurd h (by decide)
  · exact Option.isSome_iff_exists.mp (by decide)
  · refine ⟨fun h => absurd h (by decide), fun _ _ => ⟨fun h => absurd h (by decide), fun _ _ => trivial⟩⟩
  · exact Option.isSome_iff_exists.mp (by decide)

end Example

end Morlock.Props.C08
