import Morlock.Proofs.AttackGlue
import Morlock.Proofs.AttackLeapers
import Morlock.Proofs.AttackBounds
import Morlock.Proofs.AttackPawns
/-!
# C06 (part 1) — the bitboard attack tables equal ray geometry

All theorems are about `Morlock.Model.*Attackboard` / `pawnCaptureboard` / `newRotated` / `Rotated.xor`,
the transcription of `pkg/board/bitboard.go`, against the reference semantics `Spec.officerTargets`
and `Spec.pawnTargets`. The sliding-piece theorems hold for EVERY occupancy `occ < 2^64` (they are
proved symbolically, not by enumerating boards) and every square `sq < 64`.

Form proved: the exact bitboard equality `lhs = toBB (targets)`, where
`toBB l = l.foldl (fun acc s => acc ||| (1 <<< s)) 0` (`toBB_def`). The equivalent `testBit`
characterisation (`t` set iff `t ∈ targets`, and `lhs < 2^64`) follows from `testBit_toBB_iff` and
`toBB_lt_of_targets`, and is stated for the officers as `attack_testBit` / `attack_lt`.

The generated tables `Gen.rot90, rot45L, rot45R, off45L, off45R, mask45L, mask45R` enter only through
kernel-evaluated facts in `Morlock/Proofs/AttackGeo*.lean` and `AttackRot.lean`, so everything is
re-checked when they are regenerated.
-/
namespace Morlock.Props.C06
open Morlock Morlock.Proofs.Attack

/-- The bitboard of a list of squares, as used on the right-hand sides below. -/
theorem toBB_def (l : List Nat) : toBB l = l.foldl (fun acc s => acc ||| (1 <<< s)) 0 := rfl

/-- Bit `t` of `toBB l` is set iff `t` is listed. -/
theorem testBit_toBB_iff (l : List Nat) (t : Nat) : (toBB l).testBit t = true ↔ t ∈ l :=
  testBit_toBB l t

/-- Reference officer targets are on the board, so their bitboard has nothing set at or above bit 64. -/
theorem toBB_lt_of_targets (o : Nat → Bool) (k : Spec.Kind) (sq : Nat) :
    toBB (Spec.officerTargets o k sq) < 2 ^ 64 :=
  toBB_lt _ (officerTargets_lt o k sq)

/-! ## The rotated-bitboard invariant -/

/-- `Gen.rot90` maps `0..63` injectively into `0..63`. -/
theorem rot90_injective (a b : Nat) (ha : a < 64) (hb : b < 64) :
    Gen.rot90[a]! < 64 ∧ (Gen.rot90[a]! = Gen.rot90[b]! → a = b) :=
  ⟨tblOK_lt tblOK_90 ha, tblOK_inj tblOK_90 ha hb⟩

/-- `Gen.rot45L` maps `0..63` injectively into `0..63`. -/
theorem rot45L_injective (a b : Nat) (ha : a < 64) (hb : b < 64) :
    Gen.rot45L[a]! < 64 ∧ (Gen.rot45L[a]! = Gen.rot45L[b]! → a = b) :=
  ⟨tblOK_lt tblOK_45L ha, tblOK_inj tblOK_45L ha hb⟩

/-- `Gen.rot45R` maps `0..63` injectively into `0..63`. -/
theorem rot45R_injective (a b : Nat) (ha : a < 64) (hb : b < 64) :
    Gen.rot45R[a]! < 64 ∧ (Gen.rot45R[a]! = Gen.rot45R[b]! → a = b) :=
  ⟨tblOK_lt tblOK_45R ha, tblOK_inj tblOK_45R ha hb⟩

/-- What `RotInv occ r` says, spelled out: `r.rot` is the occupancy, each rotated board has bit
    `T[sq]` set iff bit `sq` of the occupancy is set, and nothing is set at or above bit 64. -/
theorem rotInv_iff (occ : Nat) (r : Model.Rotated) :
    RotInv occ r ↔
      occ < 2 ^ 64 ∧ r.rot = occ ∧ r.rot90 < 2 ^ 64 ∧ r.rot45L < 2 ^ 64 ∧ r.rot45R < 2 ^ 64 ∧
      (∀ s, s < 64 → r.rot90.testBit (Gen.rot90[s]!) = occ.testBit s) ∧
      (∀ s, s < 64 → r.rot45L.testBit (Gen.rot45L[s]!) = occ.testBit s) ∧
      (∀ s, s < 64 → r.rot45R.testBit (Gen.rot45R[s]!) = occ.testBit s) :=
  ⟨fun h => ⟨h.occ_lt, h.rot, h.lt90, h.lt45L, h.lt45R, h.bit90, h.bit45L, h.bit45R⟩,
   fun ⟨a, b, c, d, e, f, g, h⟩ => ⟨a, b, c, d, e, f, g, h⟩⟩

/-- `NewRotatedBitboard(occ)` satisfies the invariant, for every `occ < 2^64`. -/
theorem newRotated_rotInv (occ : Nat) (h : occ < 2 ^ 64) : RotInv occ (Model.newRotated occ) :=
  newRotated_inv occ h

/-- `NewRotatedBitboard(occ).rot = occ`. -/
theorem newRotated_rot (occ : Nat) (h : occ < 2 ^ 64) : (Model.newRotated occ).rot = occ :=
  (newRotated_inv occ h).rot

/-- `RotatedBitboard.Xor(sq)` preserves the invariant; the occupancy has square `sq` flipped. -/
theorem xor_rotInv (occ : Nat) (r : Model.Rotated) (sq : Nat) (hs : sq < 64) (h : RotInv occ r) :
    RotInv (occ ^^^ Model.bitMask sq) (r.xor sq) :=
  xor_inv hs h

/-! ## Sliding pieces, for every board satisfying the invariant (e.g. one maintained by `Xor`) -/

/-- `RookAttackboard` on any invariant-satisfying rotated board is the reference rook target set. -/
theorem rook_eq_of_rotInv (occ : Nat) (r : Model.Rotated) (sq : Nat) (h : RotInv occ r) (hs : sq < 64) :
    Model.rookAttackboard r sq = toBB (Spec.officerTargets (fun s => occ.testBit s) .rook sq) :=
  rook_of_inv h hs

/-- `BishopAttackboard` on any invariant-satisfying rotated board is the reference bishop target set. -/
theorem bishop_eq_of_rotInv (occ : Nat) (r : Model.Rotated) (sq : Nat) (h : RotInv occ r) (hs : sq < 64) :
    Model.bishopAttackboard r sq = toBB (Spec.officerTargets (fun s => occ.testBit s) .bishop sq) :=
  bishop_of_inv h hs

/-- `QueenAttackboard` on any invariant-satisfying rotated board is the reference queen target set. -/
theorem queen_eq_of_rotInv (occ : Nat) (r : Model.Rotated) (sq : Nat) (h : RotInv occ r) (hs : sq < 64) :
    Model.queenAttackboard r sq = toBB (Spec.officerTargets (fun s => occ.testBit s) .queen sq) :=
  queen_of_inv h hs

/-! ## The property as stated: every occupancy, every square -/

/-- Rook attacks equal the reference rays, for all `2^64` occupancies and all squares. -/
theorem rook_eq (occ sq : Nat) (h : occ < 2 ^ 64) (hs : sq < 64) :
    Model.rookAttackboard (Model.newRotated occ) sq =
      toBB (Spec.officerTargets (fun s => occ.testBit s) .rook sq) :=
  rook_of_inv (newRotated_inv occ h) hs

/-- Bishop attacks equal the reference rays, for all `2^64` occupancies and all squares. -/
theorem bishop_eq (occ sq : Nat) (h : occ < 2 ^ 64) (hs : sq < 64) :
    Model.bishopAttackboard (Model.newRotated occ) sq =
      toBB (Spec.officerTargets (fun s => occ.testBit s) .bishop sq) :=
  bishop_of_inv (newRotated_inv occ h) hs

/-- Queen attacks equal the reference rays, for all `2^64` occupancies and all squares. -/
theorem queen_eq (occ sq : Nat) (h : occ < 2 ^ 64) (hs : sq < 64) :
    Model.queenAttackboard (Model.newRotated occ) sq =
      toBB (Spec.officerTargets (fun s => occ.testBit s) .queen sq) :=
  queen_of_inv (newRotated_inv occ h) hs

/-- King attacks equal the reference one-step set (independent of the occupancy predicate `occF`). -/
theorem king_eq (occF : Nat → Bool) (sq : Nat) (hs : sq < 64) :
    Model.kingAttackboard sq = toBB (Spec.officerTargets occF .king sq) :=
  king_of_lt occF hs

/-- Knight attacks equal the reference jump set (independent of the occupancy predicate `occF`). -/
theorem knight_eq (occF : Nat → Bool) (sq : Nat) (hs : sq < 64) :
    Model.knightAttackboard sq = toBB (Spec.officerTargets occF .knight sq) :=
  knight_of_lt occF hs

/-- Capture targets of a single pawn of colour `c` on `sq` equal the reference pawn targets
    (`Model.absColor` maps the engine's colour enum to the reference one: white ↦ white, black ↦ black). -/
theorem pawn_eq (c : Model.Color) (sq : Nat) (hs : sq < 64) :
    Model.pawnCaptureboard c (Model.bitMask sq) = toBB (Spec.pawnTargets (Model.absColor c) sq) :=
  pawn_of_lt c hs

/-- Extra (stronger than `pawn_eq`): for EVERY set of pawns `< 2^64`, square `t` is in
    `PawnCaptureboard(c, pawns)` iff some pawn of the set attacks `t` by the rules (`testBit` form). -/
theorem pawnSet_testBit_iff (c : Model.Color) (pawns t : Nat) (hp : pawns < 2 ^ 64) :
    (Model.pawnCaptureboard c pawns).testBit t = true ↔
      ∃ s, s < 64 ∧ pawns.testBit s = true ∧ t ∈ Spec.pawnTargets (Model.absColor c) s :=
  pawnSet_testBit c pawns t hp

/-- `PawnCaptureboard` of any pawn set `< 2^64` has nothing set at or above bit 64. -/
theorem pawnSet_lt_two_pow (c : Model.Color) (pawns : Nat) (hp : pawns < 2 ^ 64) :
    Model.pawnCaptureboard c pawns < 2 ^ 64 :=
  pawnSet_lt c pawns hp

/-- The `Attackboard` dispatcher: every officer gets its reference target set; pawn / no piece panic. -/
theorem attackboard_eq (occ sq : Nat) (p : Model.Piece) (h : occ < 2 ^ 64) (hs : sq < 64) :
    Model.attackboard (Model.newRotated occ) sq p =
      match Model.absKind p with
      | some .pawn => none
      | some k => some (toBB (Spec.officerTargets (fun s => occ.testBit s) k sq))
      | none => none := by
  cases p <;> simp only [Model.attackboard, Model.absKind]
  · rw [bishop_eq occ sq h hs]
  · rw [knight_eq _ sq hs]
  · rw [rook_eq occ sq h hs]
  · rw [queen_eq occ sq h hs]
  · rw [king_eq _ sq hs]

/-- `testBit` form for the officers: square `t` is attacked iff it is a reference target. -/
theorem attack_testBit (occ sq t : Nat) (p : Model.Piece) (k : Spec.Kind) (b : Nat) (h : occ < 2 ^ 64)
    (hs : sq < 64) (hb : Model.attackboard (Model.newRotated occ) sq p = some b) (hk : Model.absKind p = some k) :
    b.testBit t = true ↔ t ∈ Spec.officerTargets (fun s => occ.testBit s) k sq := by
  rw [attackboard_eq occ sq p h hs, hk] at hb
  cases k <;> simp only [reduceCtorEq, Option.some.injEq] at hb <;> subst hb <;> exact testBit_toBB _ _

/-- Officer attack boards have nothing set at or above bit 64. -/
theorem attack_lt (occ sq : Nat) (p : Model.Piece) (b : Nat) (h : occ < 2 ^ 64) (hs : sq < 64)
    (hb : Model.attackboard (Model.newRotated occ) sq p = some b) : b < 2 ^ 64 := by
  rw [attackboard_eq occ sq p h hs] at hb
  cases p <;> simp only [Model.absKind, reduceCtorEq, Option.some.injEq] at hb <;> subst hb <;>
    exact toBB_lt_of_targets _ _ _

/-! ## Instances on concrete, non-trivial occupancies -/

/-- Rook on e4 (square 27) in the initial position: both sides agree, and the value is the expected one. -/
example : Model.rookAttackboard (Model.newRotated 0xFFFF00000000FFFF) 27 =
    toBB (Spec.officerTargets (fun s => (0xFFFF00000000FFFF : Nat).testBit s) .rook 27) :=
  rook_eq _ _ (by decide) (by decide)

example : toBB (Spec.officerTargets (fun s => (0xFFFF00000000FFFF : Nat).testBit s) .rook 27) =
    toBB [28, 29, 30, 31, 26, 25, 24, 35, 43, 51, 19, 11] := by decide +kernel

/-- Queen on e5 (square 35) on a scattered occupancy, after one incremental `Xor` update of square 36. -/
example : Model.queenAttackboard ((Model.newRotated 0x0042201008a41201).xor 36) 35 =
    toBB (Spec.officerTargets (fun s => ((0x0042201008a41201 : Nat) ^^^ Model.bitMask 36).testBit s) .queen 35) :=
  queen_eq_of_rotInv _ _ _ (xor_rotInv _ _ _ (by decide) (newRotated_rotInv _ (by decide))) (by decide)

end Morlock.Props.C06
