import Morlock.Proofs.BookSargon
import Morlock.Props.C01
import Morlock.Props.C19
/-!
# C20 — the opening books (`engine.NewBook`, `book.Find`, `fen.Strip`, SARGON's and BERNSTEIN's books)

Model: `Morlock/Model/Book.lean` (tied to the Go code by the `books` stream: the whole maps are read out of the real
books by reflection and compared entry by entry; `Find` on keys with every kind of clocks and damage; `NewBook` on
curated and random sets of lines, good and bad). Data of the two books: `Morlock/Gen/Books.lean`, regenerated from the
source on every run.

**Proved here**

* `newBook_eq` — `NewBook` re-decodes its own `Encode` output at every step, ignoring the error of `Decode`; the key it
  holds always decodes to the position just reached, so the function equals a loop over positions that never touches a
  string. Hence `newBook_no_panic`: the nil dereference / slice panic cannot happen, for EVERY list of lines.
* `newBook_sound` (every list of lines): every `(key, m)` of a book returned by `NewBook` comes from a prefix of one of the
  lines: the prefix plays from the initial position (by generated moves `Position.Move` accepts) to `(p, t)`, `key` is
  `Strip (Encode p t np fm)` for all clocks, the next text of the line parses to a move with `m`'s from/to/promotion, `m` is
  a legal move of `p` (generated and accepted), and its abstraction is a legal move of the reference (`C01`).
* `newBook_complete` — conversely every such prefix+move is in the book; `newBook_spec` — the iff; `newBook_wf` — keys
  distinct, replies distinct (so comparing the Go map with the model "as a set" loses nothing).
* `newBook_ok_iff`, `newBook_error`, `newBook_rejects` — `NewBook` succeeds iff every line can be played; otherwise it
  returns one of its three errors, located at the first text that does not parse / matches no generated move / matches a
  generated move that `Position.Move` refuses. A text that matches no LEGAL move always makes `NewBook` fail: it never
  returns a book with an illegal move.
* `find_strip`, `find_fields`, `find_encode`, `find_panic_iff` — `Find` depends only on the first four blank-separated
  fields; on the engine's own `Encode` output it does not depend on the clocks; it panics exactly below four fields.
* `bernstein_book_legal` — `NewBook` succeeds on the extracted BERNSTEIN lines; instance of `newBook_sound`.
* `sargon_book_legal` — `sargon.NewBook` (transcribed, on the extracted literals) does not panic; its keys are distinct, each
  the key of the initial position or of a position after one legal move, each with a non-empty reply list all of whose
  members have the from/to/promotion of a legal move there (a legal move of the reference). The SARGON literals carry
  `Type: Normal` and no `Piece`, so `e7e5`/`d7d5` are not *members* of the legal-move list (`sargon_reply_not_generated`):
  "legal" means `Move.Equals` some legal move. That is the notion that matters: the UCI driver only *prints* a book move
  (`bestmove` from From/To/Promotion: `uci.go` `searchCompleted`/`printMove`), it never pushes it on the board; the move
  comes back as text through `position ... moves`, where `Engine.Move` matches it against the pseudo-legal moves with `Equals`.
* `sargon_book_complete` — 21 entries; `Find` answers the engine's FEN of the initial position with `{e2e4, d2d4}` and of
  the position after EVERY legal first move with exactly the documented reply (`e7e5` after an a-, b-, c- or e-pawn move,
  else `d7d5`), whatever the clocks.
-/
-- kernel evaluation (`decide +kernel`) of several theorems at once is many times slower than one after the other here
set_option Elab.async false

namespace Morlock.Props.C20Books
open Morlock Morlock.Model Morlock.Model.Fen Morlock.Model.Book Morlock.Proofs Morlock.Proofs.Fen
open Morlock.Proofs.Gen Morlock.Proofs.Chain Morlock.Proofs.Book

/-! ## `NewBook` -/

/-- **`NewBook` is a loop over positions** (`posLines`: play the texts with `nextPos` = parse, first generated move with
    the same from/to/promotion, `Position.Move`; add `(keyOf p t, move)` to the map): inside `NewBook`, `Decode` of the
    key never fails and `Strip` never panics. -/
theorem newBook_eq (lines : List (List (List Char))) : newBook lines = posLines [] lines :=
  Book.newBook_eq lines

/-- `NewBook` never panics, whatever the lines. -/
theorem newBook_no_panic (lines : List (List (List Char))) : newBook lines ≠ .error .panic := by
  intro h
  rw [newBook_eq] at h
  obtain ⟨_, _, _, _, _, _, _, _, _, hn⟩ := posLines_error lines [] h
  exact nextPos_ne_panic hn

/-- What one step of a line is: `nextPos p t s = ok (m, q)` iff the text `s` parses to `nx`, `m` is the first generated
    move of `(p, t)` with `nx`'s from/to/promotion, and `Position.Move` accepts it, giving `q`. -/
theorem nextPos_ok_iff {p : Position} {t : Color} {s : List Char} {m : Move} {q : Position} :
    nextPos p t s = .ok (m, q) ↔
      ∃ nx, parseMove s = some nx ∧ (p.pseudoLegalMoves t).find? (fun c => c.equals nx) = some m ∧ p.move m = some q := by
  constructor
  · intro h
    obtain ⟨nx, h1, _, _, h4, h5⟩ := nextPos_ok h
    exact ⟨nx, h1, h5, h4⟩
  · rintro ⟨nx, h1, h2, h3⟩
    unfold nextPos
    rw [h1]; simp only; rw [h2]; simp only; rw [h3]

/-- **`newBook_sound`** — for EVERY list of lines. -/
theorem newBook_sound {lines : List (List (List Char))} {book : Table} (h : newBook lines = .ok book) :
    ∀ key ms, (key, ms) ∈ book → ∀ m ∈ ms,
      ∃ line ∈ lines, ∃ (pre : List (List Char)) (s : List Char) (post : List (List Char)) (p q : Position) (t : Color)
        (nx : Move),
        line = pre ++ s :: post ∧
        playStrs startPos .white pre = some (p, t) ∧ GenReach startPos .white p t ∧ WF p t ∧
        (∀ np fm : Int, strip (encode p t np fm).toList = some key) ∧
        parseMove s = some nx ∧ m.equals nx = true ∧
        m ∈ p.legalMoves t ∧ p.move m = some q ∧
        absMove m ∈ Spec.legalMoves (abs p t) := by
  rw [newBook_eq] at h
  intro key ms hk m hm
  obtain ⟨line, hl, pre, s, post, p, t, q, e1, e2, e3, e4⟩ :=
    posLines_sound lines [] (fun _ hl => hl) (tableAll_nil _) h key ms hk m hm
  obtain ⟨nx, h1, h2, h3, h4, _⟩ := nextPos_ok e3
  have hr := playStrs_reach pre startPos .white (GenReach.refl _ _) e2
  refine ⟨line, hl, pre, s, post, p, q, t, nx, e1, e2, hr, (wfplay_of_reach hr).1, ?_, h1, h2, ?_, h4, ?_⟩
  · intro np fm; rw [e4]; exact strip_encode_reach hr np fm
  · exact (C01.legal_iff p t m).mpr ⟨h3, by rw [h4]; rfl⟩
  · exact C01.reachable_legal startPos_wfplay hr h3 h4

/-- **`newBook_complete`**: every step of every line is recorded under the key of the position where it is made. -/
theorem newBook_complete {lines : List (List (List Char))} {book : Table} (h : newBook lines = .ok book)
    {line : List (List Char)} (hl : line ∈ lines) {pre : List (List Char)} {s : List Char} {post : List (List Char)}
    (he : line = pre ++ s :: post) {p q : Position} {t : Color} {m : Move}
    (hp : playStrs startPos .white pre = some (p, t)) (hn : nextPos p t s = .ok (m, q)) :
    m ∈ book.get (keyOf p t) ∧
    ∀ np fm : Int, ∃ ms, find book (encode p t np fm).toList = some ms ∧ m ∈ ms := by
  rw [newBook_eq] at h
  have hm := posLines_complete lines [] h ⟨line, hl, pre, s, post, p, t, q, he, hp, hn, rfl⟩
  refine ⟨hm, fun np fm => ⟨book.get (keyOf p t), ?_, hm⟩⟩
  have hr := playStrs_reach pre startPos .white (GenReach.refl _ _) hp
  unfold find
  rw [strip_encode_reach hr np fm]; rfl

/-- **`newBook_spec`**: the book holds exactly the entries the lines demand. -/
theorem newBook_spec {lines : List (List (List Char))} {book : Table} (h : newBook lines = .ok book) (k : List Char)
    (m : Move) : m ∈ book.get k ↔ Entry lines k m := by
  rw [newBook_eq] at h
  constructor
  · intro hm
    obtain ⟨ms, h1, h2⟩ := get_mem hm
    exact posLines_sound lines [] (fun _ hl => hl) (tableAll_nil _) h k ms h1 m h2
  · exact posLines_complete lines [] h

/-- Keys are distinct and every reply list is duplicate-free; `get` returns the entry. -/
theorem newBook_wf {lines : List (List (List Char))} {book : Table} (h : newBook lines = .ok book) :
    (book.map (·.1)).Nodup ∧ (∀ k ms, (k, ms) ∈ book → ms.Nodup ∧ book.get k = ms) := by
  rw [newBook_eq] at h
  obtain ⟨h1, h2⟩ := posLines_wf lines [] h tableWF_nil
  exact ⟨h1, fun k ms hk => ⟨h2 k ms hk, mem_get_of_mem h1 hk⟩⟩

/-- `NewBook` succeeds iff every line can be played from the initial position. -/
theorem newBook_ok_iff (lines : List (List (List Char))) :
    (∃ book, newBook lines = .ok book) ↔ ∀ line ∈ lines, (playStrs startPos .white line).isSome = true := by
  rw [newBook_eq]; exact posLines_isOk_iff lines []

/-- When `NewBook` fails: never by panic; some line, after a playable prefix reaching `(p, t)`, has a text that does not
    parse (`parse`), parses but has the from/to/promotion of no generated move (`notFound`), or of a generated move
    that `Position.Move` refuses (`notLegal`). -/
theorem newBook_error {lines : List (List (List Char))} {e : Err} (h : newBook lines = .error e) :
    e ≠ .panic ∧
    ∃ line ∈ lines, ∃ (pre : List (List Char)) (s : List Char) (post : List (List Char)) (p : Position) (t : Color),
      line = pre ++ s :: post ∧ playStrs startPos .white pre = some (p, t) ∧
      ((e = .parse ∧ parseMove s = none) ∨
       (e = .notFound ∧ ∃ nx, parseMove s = some nx ∧ ∀ c ∈ p.pseudoLegalMoves t, c.equals nx = false) ∨
       (e = .notLegal ∧ ∃ nx c, parseMove s = some nx ∧ c ∈ p.pseudoLegalMoves t ∧ c.equals nx = true ∧
          p.move c = none)) := by
  refine ⟨fun hp => newBook_no_panic lines (hp ▸ h), ?_⟩
  rw [newBook_eq] at h
  obtain ⟨line, hl, pre, s, post, p, t, h1, h2, h3⟩ := posLines_error lines [] h
  exact ⟨line, hl, pre, s, post, p, t, h1, h2, nextPos_error h3⟩

/-- **No book with an illegal move**: if, after a playable prefix of some line, the next text does not parse or has the
    from/to/promotion of no LEGAL move of the position reached, `NewBook` returns an error (and not a panic). -/
theorem newBook_rejects {lines : List (List (List Char))} {line : List (List Char)} (hl : line ∈ lines)
    {pre : List (List Char)} {s : List Char} {post : List (List Char)} (he : line = pre ++ s :: post)
    {p : Position} {t : Color} (hp : playStrs startPos .white pre = some (p, t))
    (hbad : parseMove s = none ∨ ∃ nx, parseMove s = some nx ∧ ∀ c ∈ p.legalMoves t, c.equals nx = false) :
    ∃ e, newBook lines = .error e ∧ e ≠ .panic := by
  cases hb : newBook lines with
  | error e => exact ⟨e, rfl, fun hp' => newBook_no_panic lines (hp' ▸ hb)⟩
  | ok book =>
    exfalso
    have hs := (newBook_ok_iff lines).mp ⟨book, hb⟩ line hl
    rw [he, playStrs_append, hp] at hs
    simp only [Option.bind_some, playStrs] at hs
    cases hn : nextPos p t s with
    | error e => rw [hn] at hs; cases hs
    | ok x =>
      obtain ⟨c, q⟩ := x
      obtain ⟨nx, h1, h2, h3, h4, _⟩ := nextPos_ok hn
      rcases hbad with hbad | ⟨nx', h1', hall⟩
      · rw [hbad] at h1; cases h1
      · rw [h1] at h1'
        cases h1'
        have := hall c ((C01.legal_iff p t c).mpr ⟨h3, by rw [h4]; rfl⟩)
        rw [h2] at this; cases this

/-! ## `Find` and `Strip` -/

/-- **`find_strip`**: `Find` depends only on the first four fields of `strings.Split(pos, " ")` (and on whether there are
    four). -/
theorem find_strip (t : Table) {a b : List Char} (h : (splitSpaces a).take 4 = (splitSpaces b).take 4)
    (hl : (splitSpaces a).length < 4 ↔ (splitSpaces b).length < 4) : find t a = find t b := by
  unfold find; rw [strip_congr h hl]

/-- `Find` panics (slice bounds out of range in `Strip`) exactly on strings with fewer than four fields. -/
theorem find_panic_iff (t : Table) (a : List Char) : find t a = none ↔ (splitSpaces a).length < 4 := by
  unfold find strip
  by_cases h : (splitSpaces a).length < 4 <;> simp [h]

/-- Four blank-free fields followed by anything: `Find` looks the four fields up, whatever follows. -/
theorem find_fields (t : Table) {f0 f1 f2 f3 : List Char} (h0 : NS f0) (h1 : NS f1) (h2 : NS f2) (h3 : NS f3)
    (rest : List Char) :
    find t (f0 ++ ' ' :: (f1 ++ ' ' :: (f2 ++ ' ' :: (f3 ++ ' ' :: rest)))) = some (t.get (join4 f0 f1 f2 f3)) ∧
    find t (join4 f0 f1 f2 f3) = some (t.get (join4 f0 f1 f2 f3)) := by
  unfold find
  rw [strip_fields rest h0 h1 h2 h3, strip_join4 h0 h1 h2 h3]
  exact ⟨rfl, rfl⟩

/-- **`find_encode`**: on the FEN the engine reports for a position (`Encode`; all views agreeing, rights among the four
    bits, en-passant target on the board — in particular every position `Decode` accepts, `C19.decoded_wellformed`, and
    every reachable position), `Find` does not depend on the two clocks: it returns the entry of the four-field key. -/
theorem find_encode (tb : Table) {p : Position} {b : Proofs.Board} (h : Rep p b) (hc : p.castling < 16)
    (he : p.enpassant < 64) (c : Color) (np fm : Int) :
    find tb (encode p c np fm).toList = some (tb.get (keyOf p c)) ∧
    find tb (keyOf p c) = some (tb.get (keyOf p c)) := by
  unfold find
  rw [strip_encode h hc he, strip_keyOf h hc he]
  exact ⟨rfl, rfl⟩

theorem find_clocks (tb : Table) {s : List Char} {d : Decoded} (hd : decode s = some d) (np fm np' fm' : Int) :
    find tb (encode d.pos d.turn np fm).toList = find tb (encode d.pos d.turn np' fm').toList := by
  obtain ⟨⟨b, hb⟩, hc, he, _⟩ := C19.decoded_wellformed hd
  rw [(find_encode tb hb hc he d.turn np fm).1, (find_encode tb hb hc he d.turn np' fm').1]

/-! ## BERNSTEIN -/

/-- `bernstein.NewBook`: `NewBook` succeeds on the extracted lines, and the book is sound (`newBook_sound`), has distinct
    keys and replies, and is found by `Find` whatever the clocks. -/
theorem bernstein_book_legal :
    ∃ book, bernsteinNewBook = .ok book ∧
      (book.map (·.1)).Nodup ∧
      ∀ key ms, (key, ms) ∈ book → ms.Nodup ∧ ms ≠ [] ∧ ∀ m ∈ ms,
        ∃ (p q : Position) (t : Color), GenReach startPos .white p t ∧ WF p t ∧
          (∀ np fm : Int, strip (encode p t np fm).toList = some key ∧ find book (encode p t np fm).toList = some ms) ∧
          m ∈ p.legalMoves t ∧ p.move m = some q ∧ absMove m ∈ Spec.legalMoves (abs p t) := by
  have hok : ∀ line ∈ bernsteinLines, (playStrs startPos .white line).isSome = true := by decide +kernel
  obtain ⟨book, hb⟩ := (newBook_ok_iff bernsteinLines).mpr hok
  refine ⟨book, hb, (newBook_wf hb).1, fun key ms hk => ?_⟩
  obtain ⟨hnd, hget⟩ := (newBook_wf hb).2 key ms hk
  have hne : ms ≠ [] := by
    intro e
    rw [newBook_eq] at hb
    -- an entry is only created together with its first reply
    have : ∀ (t : Table), (∀ k ms, (k, ms) ∈ t → ms ≠ []) → ∀ k mv, ∀ k' ms', (k', ms') ∈ t.add k mv → ms' ≠ [] := by
      intro t
      induction t with
      | nil =>
        intro _ k mv k' ms' hm
        simp only [Table.add, List.mem_singleton, Prod.mk.injEq] at hm
        rw [hm.2]; simp
      | cons x rest ih =>
        obtain ⟨k0, ms0⟩ := x
        intro hall k mv k' ms' hm
        unfold Table.add at hm
        by_cases hk0 : k0 = k
        · rw [if_pos hk0] at hm
          rcases List.mem_cons.mp hm with hm | hm
          · simp only [Prod.mk.injEq] at hm
            rw [hm.2]
            by_cases hin : mv ∈ ms0
            · rw [if_pos hin]; exact hall _ _ (List.mem_cons_self ..)
            · rw [if_neg hin]; simp
          · exact hall _ _ (List.mem_cons_of_mem _ hm)
        · rw [if_neg hk0] at hm
          rcases List.mem_cons.mp hm with hm | hm
          · simp only [Prod.mk.injEq] at hm
            rw [hm.2]; exact hall k0 ms0 (List.mem_cons_self ..)
          · exact ih (fun k ms h => hall k ms (List.mem_cons_of_mem _ h)) k mv k' ms' hm
    have hloop : ∀ (l : List (List Char)) (tb : Table) (p : Position) (t : Color) (tb' : Table),
        posLoop tb p t l = .ok tb' → (∀ k ms, (k, ms) ∈ tb → ms ≠ []) → ∀ k ms, (k, ms) ∈ tb' → ms ≠ [] := by
      intro l
      induction l with
      | nil => intro tb p t tb' h hall; simp only [posLoop, Except.ok.injEq] at h; rw [← h]; exact hall
      | cons s rest ih =>
        intro tb p t tb' h hall
        unfold posLoop at h
        cases hn : nextPos p t s with
        | error e => rw [hn] at h; cases h
        | ok x =>
          obtain ⟨c, q⟩ := x
          rw [hn] at h
          exact ih _ q t.opp tb' h (this tb hall _ c)
    have hlines : ∀ (ls : List (List (List Char))) (tb tb' : Table),
        posLines tb ls = .ok tb' → (∀ k ms, (k, ms) ∈ tb → ms ≠ []) → ∀ k ms, (k, ms) ∈ tb' → ms ≠ [] := by
      intro ls
      induction ls with
      | nil => intro tb tb' h hall; simp only [posLines, Except.ok.injEq] at h; rw [← h]; exact hall
      | cons line rest ih =>
        intro tb tb' h hall
        unfold posLines at h
        cases hl : posLoop tb startPos .white line with
        | error e => rw [hl] at h; cases h
        | ok tb1 =>
          rw [hl] at h
          exact ih tb1 tb' h (hloop line tb _ _ tb1 hl hall)
    exact hlines bernsteinLines [] book hb (fun _ _ h => by cases h) key ms hk e
  refine ⟨hnd, hne, fun m hm => ?_⟩
  obtain ⟨_, _, pre, _, _, p, q, t, _, _, _, hr, hw, hs, _, _, h5, h6, h7⟩ := newBook_sound hb key ms hk m hm
  refine ⟨p, q, t, hr, hw, fun np fm => ⟨hs np fm, ?_⟩, h5, h6, h7⟩
  unfold find
  rw [hs np fm, Option.map_some, hget]

/-! ## SARGON -/

/-- The three lists of literals `sargon.NewBook` uses, looked up in the generated data. -/
def sargonInit : List Move := (Gen.sargonInitialReplies.mapM sargonLiteral).getD []
def sargonD7D5 : Move := (sargonLiteral Gen.sargonDefaultResponse).getD default
def sargonE7E5 : Move := (sargonLiteral Gen.sargonFileResponse).getD default

theorem sargon_literals : Gen.sargonInitialReplies.mapM sargonLiteral = some sargonInit ∧
    sargonLiteral Gen.sargonDefaultResponse = some sargonD7D5 ∧
    sargonLiteral Gen.sargonFileResponse = some sargonE7E5 := by decide +kernel

/-- **`sargon.NewBook` is its loop** from the one-entry map over the legal moves of the initial position: the lookups
    of the literals, `Strip(Initial)` and `Decode(Initial)` succeed. -/
theorem sargonNewBook_eq : sargonNewBook =
    sargonLoop startDecoded sargonE7E5 sargonD7D5 [(keyOf startPos .white, sargonInit)] (startPos.legalMoves .white) := by
  unfold sargonNewBook
  rw [sargon_literals.1, sargon_literals.2.1, sargon_literals.2.2, keyOK_initial.str, keyOK_initial.dec]
  simp only [Option.bind_eq_bind, Option.bind_some]
  rfl

/-- The pawn double step of Black with the coordinates of a reply `r`, as the generator emits it. -/
def blackJump (r : Move) : Move := { ty := .jump, «from» := r.from, to := r.to, piece := .pawn }

/-- The check made after one first move `m`, on the successor `q`: the response `r` (`e7e5` after an a-, b-, c- or e-pawn
    move, else `d7d5`) goes from e7 to e5 or from d7 to d5 and names no promotion; a black pawn stands on its origin, the
    two squares in front of it are empty; `Position.Move` accepts the double step. (The generator is not run on `q`:
    that the double step is generated follows from `C01.pseudoLegalMoves_iff`.) -/
def sargonReplyOK (m : Move) : Bool :=
  match startPos.move m with
  | none => true
  | some q =>
    let r := sargonResponse sargonE7E5 sargonD7D5 m
    (r.from == 51 && r.to == 35 || r.from == 52 && r.to == 36) && r.promotion == .none &&
    q.square r.from == some (Color.black, Piece.pawn) && q.square (r.from - 8) == none && q.square r.to == none &&
    (q.move (blackJump r)).isSome

theorem blackJump_generated {q : Position} (hw : WF q .black) {r : Move}
    (hr : (r.from = 51 ∧ r.to = 35) ∨ (r.from = 52 ∧ r.to = 36))
    (h1 : q.square r.from = some (Color.black, Piece.pawn)) (h2 : q.square (r.from - 8) = none)
    (h3 : q.square r.to = none) : blackJump r ∈ q.pseudoLegalMoves .black := by
  rw [C01.pseudoLegalMoves_iff hw, C01.pseudoMove_iff]
  refine Or.inr (Or.inl ?_)
  rw [C01.pawnMove_iff]
  refine ⟨h1, rfl, Or.inr (Or.inl ⟨r.from - 8, ?_, ?_, ?_, h2, h3, rfl, rfl, rfl⟩)⟩
  all_goals
    rcases hr with ⟨a, b⟩ | ⟨a, b⟩ <;> simp only [blackJump, a, b] <;> decide

/-- Evaluation: every initial reply has the from/to/promotion of a legal move of the initial position; after every
    generated first move that `Position.Move` accepts, `sargonReplyOK`. -/
theorem sargon_replies_checked :
    (sargonInit.all fun r => (startPos.pseudoLegalMoves .white).any fun c => c.equals r && (startPos.move c).isSome) = true ∧
    (startPos.pseudoLegalMoves .white).all sargonReplyOK = true := by
  constructor <;> decide +kernel

/-- **`sargon_book_legal`.** `sargon.NewBook` does not panic; the keys of its book are distinct; every key is the
    four-field key of the initial position or of a position after one legal move (so `Find` returns the entry for the
    engine's FEN of that position, whatever the clocks); every entry is non-empty and every reply has the
    from/to/promotion (`Move.Equals`) of a legal move of that position, which is a legal move of the reference. The
    replies themselves are the hand-written literals (`Type: Normal`, no `Piece`): they are not members of the legal-move
    list (`sargon_reply_not_generated`). -/
theorem sargon_book_legal :
    ∃ book, sargonNewBook = some book ∧ (book.map (·.1)).Nodup ∧
      ∀ key ms, (key, ms) ∈ book → ms ≠ [] ∧
        ∃ (p : Position) (t : Color), GenReach startPos .white p t ∧ WF p t ∧
          (∀ np fm : Int, strip (encode p t np fm).toList = some key ∧ find book (encode p t np fm).toList = some ms) ∧
          ∀ r ∈ ms, ∃ m ∈ p.legalMoves t, m.equals r = true ∧ absMove m ∈ Spec.legalMoves (abs p t) := by
  obtain ⟨book, hb, hall, hnd⟩ := sargonLoop_spec sargonInit sargonE7E5 sargonD7D5 (startPos.legalMoves .white)
    [(keyOf startPos .white, sargonInit)] (fun _ h => h)
    (fun k ms h => by
      simp only [List.mem_singleton, Prod.mk.injEq] at h
      exact Or.inl h)
    (by simp)
  refine ⟨book, by rw [sargonNewBook_eq]; exact hb, hnd, fun key ms hk => ?_⟩
  -- from a generated, accepted move with the reply's coordinates to the statement
  have legal_of : ∀ {p : Position} {t : Color} (_ : GenReach startPos .white p t) {r : Move},
      ((p.pseudoLegalMoves t).any fun c => c.equals r && (p.move c).isSome) = true →
      ∃ m ∈ p.legalMoves t, m.equals r = true ∧ absMove m ∈ Spec.legalMoves (abs p t) := by
    intro p t hr r h
    simp only [List.any_eq_true, Bool.and_eq_true] at h
    obtain ⟨c, hc, heq, hsome⟩ := h
    obtain ⟨q, hq⟩ := Option.isSome_iff_exists.mp hsome
    exact ⟨c, (C01.legal_iff p t c).mpr ⟨hc, hsome⟩, heq, C01.reachable_legal startPos_wfplay hr hc hq⟩
  have finish : ∀ {p : Position} {t : Color} (hr : GenReach startPos .white p t), key = keyOf p t →
      ∀ np fm : Int, strip (encode p t np fm).toList = some key ∧ find book (encode p t np fm).toList = some ms := by
    intro p t hr hkey np fm
    have hs : strip (encode p t np fm).toList = some key := by rw [hkey]; exact strip_encode_reach hr np fm
    refine ⟨hs, ?_⟩
    unfold find
    rw [hs, Option.map_some, mem_get_of_mem hnd hk]
  rcases hall key ms hk with ⟨hkey, hms⟩ | ⟨m, hm, q, hq, hkey, hms⟩
  · have hr : GenReach startPos .white startPos .white := GenReach.refl _ _
    refine ⟨?_, startPos, .white, hr, (wfplay_of_reach hr).1, finish hr hkey, fun r hr' => ?_⟩
    · rw [hms]; decide +kernel
    · rw [hms] at hr'
      exact legal_of hr (List.all_eq_true.mp sargon_replies_checked.1 r hr')
  · have hr := reach_first hm hq
    refine ⟨by rw [hms]; simp, q, .black, hr, (wfplay_of_reach hr).1, finish hr hkey, fun r hr' => ?_⟩
    rw [hms] at hr'
    simp only [List.mem_singleton] at hr'
    have h2 := List.all_eq_true.mp sargon_replies_checked.2 m (mem_pseudo_of_legal hm)
    unfold sargonReplyOK at h2
    rw [hq] at h2
    simp only [Bool.and_eq_true, Bool.or_eq_true, beq_iff_eq] at h2
    obtain ⟨⟨⟨⟨⟨hco, hpr⟩, s1⟩, s2⟩, s3⟩, hmv⟩ := h2
    rw [hr']
    have hgen := blackJump_generated (wfplay_of_reach hr).1 hco s1 s2 s3
    obtain ⟨q', hq'⟩ := Option.isSome_iff_exists.mp hmv
    refine ⟨_, (C01.legal_iff _ _ _).mpr ⟨hgen, hmv⟩, ?_, C01.reachable_legal startPos_wfplay hr hgen hq'⟩
    simp only [Move.equals, blackJump, hpr, decide_true, Bool.and_self]

/-- Evaluation: twenty accepted first moves, leading to twenty different positions. -/
theorem sargon_first_moves : (firstSucc (startPos.legalMoves .white)).length = 20 ∧
    ((firstSucc (startPos.legalMoves .white)).map (·.2)).Nodup := by decide +kernel

/-- The literals, spelled out: `e2e4`, `d2d4`; `e7e5`; `d7d5` — `Type: Normal`, no piece. -/
theorem sargon_literal_values :
    sargonInit = [{ ty := .normal, «from» := 11, to := 27 }, { ty := .normal, «from» := 12, to := 28 }] ∧
    sargonE7E5 = { ty := .normal, «from» := 51, to := 35 } ∧ sargonD7D5 = { ty := .normal, «from» := 52, to := 36 } := by
  decide +kernel

/-- `isQueenSideOrKingPawn` with the generated constants: a pawn move from the a-, b-, c- or e-file
    (files are numbered h = 0 … a = 7). -/
theorem isQueenSideOrKingPawn_iff (m : Move) :
    isQueenSideOrKingPawn m = true ↔
      m.piece = .pawn ∧ (sqFile m.from = 7 ∨ sqFile m.from = 6 ∨ sqFile m.from = 5 ∨ sqFile m.from = 3) := by
  unfold isQueenSideOrKingPawn
  have hp : (m.piece.code != Gen.sargonFilePiece) = !decide (m.piece = .pawn) := by
    cases m.piece <;> rfl
  rw [hp]
  by_cases h : m.piece = .pawn
  · simp [h, Gen.sargonFiles]
  · simp [h]

/-- **`sargon_book_complete`** — the book is what its comment says. It has 21 entries. For the engine's FEN of the
    initial position (any clocks) `Find` returns `{e2e4, d2d4}`; for the engine's FEN of the position after ANY legal first
    move `m` (any clocks) it returns exactly one reply: `e7e5` if `m` is a pawn move from the a-, b-, c- or e-file
    (`isQueenSideOrKingPawn`), `d7d5` otherwise. (Twenty different successor positions have twenty different keys:
    `keyOf_inj`; so no entry overwrites another in the map.) -/
theorem sargon_book_complete :
    ∃ book, sargonNewBook = some book ∧ book.length = 21 ∧
      (∀ np fm : Int, find book (encode startPos .white np fm).toList = some sargonInit) ∧
      ∀ m ∈ startPos.legalMoves .white, ∀ q, startPos.move m = some q → ∀ np fm : Int,
        find book (encode q .black np fm).toList = some [if isQueenSideOrKingPawn m then sargonE7E5 else sargonD7D5] := by
  obtain ⟨book, hb, hkeys, h0, hall⟩ := sargonLoop_full sargonInit sargonE7E5 sargonD7D5 (startPos.legalMoves .white) []
    [(keyOf startPos .white, sargonInit)] (fun _ h => h) (fun _ h => by cases h)
    (by simpa using sargon_first_moves.2) (by simp) (by simp [Table.get]) (fun _ h => by cases h)
  refine ⟨book, by rw [sargonNewBook_eq]; exact hb, ?_, fun np fm => ?_, fun m hm q hq np fm => ?_⟩
  · have := congrArg List.length hkeys
    simp only [List.length_map, List.length_cons, List.nil_append, sargon_first_moves.1] at this
    exact this
  · unfold find
    rw [strip_encode_reach (GenReach.refl _ _) np fm, Option.map_some, h0]
  · unfold find
    rw [strip_encode_reach (reach_first hm hq) np fm, Option.map_some]
    have hmem : (m, q) ∈ [] ++ firstSucc (startPos.legalMoves .white) := by
      simp only [List.nil_append, firstSucc, List.mem_filterMap]
      exact ⟨m, hm, by rw [hq]; rfl⟩
    rw [hall (m, q) hmem]; rfl

/-- The replies of the SARGON book are not themselves generated moves: `e7e5` carries `Type: Normal` and `Piece: NoPiece`,
    the generated move with the same coordinates is a `Jump` of a `Pawn`. Harmless — the UCI driver only prints the
    from/to/promotion of a book move — but a consumer pushing `Find`'s result with `Board.PushMove` would corrupt the
    position (wrong en-passant status: a `Normal` move sets no en-passant target). -/
theorem sargon_reply_not_generated :
    sargonE7E5 = { ty := .normal, «from» := 51, to := 35 } ∧
    ∀ (p : Position) (t : Color), WF p t → sargonE7E5 ∉ p.pseudoLegalMoves t := by
  refine ⟨by decide +kernel, fun p t hw h => ?_⟩
  -- every generated move records the piece it moves, and the board never holds `NoPiece`
  have hp : sargonE7E5.piece = .none := by decide +kernel
  have hsq := C01.pseudo_mover hw _ h
  rw [hp] at hsq
  exact hw.rep.wf _ _ hsq

/-! ## The hypotheses are satisfiable -/

/-- A set of lines with a shared prefix, a castling line and a capture-promotion line: `NewBook` succeeds. -/
def exLines : List (List (List Char)) :=
  [["e2e4", "e7e5", "g1f3", "g8f6", "f1c4", "f8c5", "e1g1"], ["e2e4", "c7c5"],
   ["h2h4", "g7g5", "h4g5", "h7h6", "g5h6", "f8g7", "h6g7", "g8f6", "g7h8n"]].map fun l => l.map String.toList

example : ∃ book, newBook exLines = .ok book :=
  (newBook_ok_iff exLines).mpr (by decide +kernel)

/-- `r` is the error `e` (a decidable form: `Except` has no `DecidableEq`). -/
def isError (r : Except Err Table) (e : Err) : Bool :=
  match r with
  | .error e' => e' == e
  | .ok _ => false

theorem eq_error_of_isError {r : Except Err Table} {e : Err} (h : isError r e = true) : r = .error e := by
  cases r with
  | error e' => simp only [isError, beq_iff_eq] at h; rw [h]
  | ok _ => cases h

/-- The three errors occur: an unparsable text, a move that is not generated, a pinned pawn's push. -/
example : newBook [["e2e9".toList]] = .error .parse ∧
    newBook [["e2e4".toList, "e7e5".toList, "e4e5".toList]] = .error .notFound ∧
    newBook [["e2e4", "e7e5", "f1b5", "d7d6"].map String.toList] = .error .notLegal :=
  ⟨eq_error_of_isError (by rw [newBook_eq]; decide +kernel), eq_error_of_isError (by rw [newBook_eq]; decide +kernel),
    eq_error_of_isError (by rw [newBook_eq]; decide +kernel)⟩

/-- `find_fields` / `find_panic_iff` on concrete strings. -/
example (t : Table) : find t "a b c".toList = none ∧
    find t "8/8 w - - 3 9".toList = find t "8/8 w - - 0 1 and more".toList := by
  refine ⟨(find_panic_iff t _).mpr (by decide), ?_⟩
  exact find_strip t (by decide) (by decide)

end Morlock.Props.C20Books
