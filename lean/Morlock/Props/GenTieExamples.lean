import Morlock.Props.GenTie
import Morlock.Props.C07
open Morlock Morlock.Model Morlock.Proofs
-- stronger enum ties that mention the model's code functions
example : Gen.enumPiece = [("NoPiece", Piece.none.code), ("Pawn", Piece.pawn.code), ("Bishop", Piece.bishop.code),
    ("Knight", Piece.knight.code), ("Rook", Piece.rook.code), ("Queen", Piece.queen.code), ("King", Piece.king.code)] := by decide
example : Gen.enumMoveType = [("Normal", MoveType.normal.code), ("Push", MoveType.push.code), ("Jump", MoveType.jump.code),
    ("EnPassant", MoveType.enPassant.code), ("QueenSideCastle", MoveType.queenSideCastle.code),
    ("KingSideCastle", MoveType.kingSideCastle.code), ("Capture", MoveType.capture.code),
    ("Promotion", MoveType.promotion.code), ("CapturePromotion", MoveType.capturePromotion.code)] := by decide
example : Gen.enumColor = [("White", Color.white.code), ("Black", Color.black.code)] := by decide
-- instantiation of C07.differs_castling / differs_turn / differs_enpassant on exPos
example : exZ.hash exPos .white ≠ exZ.hash exPos .black :=
  (Props.C07.differs_turn exZ exPos .white .black).2 (by decide +kernel)
example : exZ.hash exPos .white ≠ exZ.hash { exPos with castling := 3 } .white :=
  (Props.C07.differs_castling exZ (p := exPos) (q := { exPos with castling := 3 }) exPos_rep
    ⟨exPos_rep.rot, exPos_rep.all, exPos_rep.one, exPos_rep.wf, exPos_rep.out, exPos_rep.piecesLt, exPos_rep.rotLt,
     exPos_rep.rot90Lt, exPos_rep.rot45LLt, exPos_rep.rot45RLt, exPos_rep.r90, exPos_rep.r45L, exPos_rep.r45R⟩ rfl .white).2
    (by decide +kernel)
