import Morlock.Driver.Uci
import Morlock.Props.C10
import Morlock.Proofs.RepExample
/-!
# C10 on the concrete engine model: it is `Strict`

`Engine.Move` refuses the word `startpos` and the move number of any position text `Engine.Reset`
accepts (`board.ParseMove` wants a file letter first, `strconv.Atoi` a sign or digit). Hence
`robust_state_eq_last` applies to `Driver.uciPosition`'s engine `Driver.engOf`.
-/
namespace Morlock.Props.C10
open Morlock Morlock.Model Morlock.Model.UciPos Morlock.Proofs.UciPosText

theorem decode_lastField (t : List Char) (d : Fen.Decoded) (h : Fen.decode t = some d) :
    ∃ pre p5, Fen.splitSpaces (Fen.trimSpace t) = pre ++ [p5] ∧ (Fen.atoi p5).isSome := by
  unfold Fen.decode at h
  split at h
  · rename_i p0 p1 p2 p3 p4 p5 heq
    refine ⟨[p0, p1, p2, p3, p4], p5, by simpa using heq, ?_⟩
    cases hat : Fen.atoi p5 with
    | some v => rfl
    | none =>
      exfalso
      simp only [hat] at h
      simp at h
  · simp at h

theorem parseFile_not_space (a : Char) (h : (Fen.parseFile a).isSome) : Fen.isSpace a = false := by
  unfold Fen.parseFile at h
  split at h <;> first | decide | simp at h

theorem parsePieceLetter_not_space (a : Char) (h : (Fen.parsePieceLetter a).isSome) : Fen.isSpace a = false := by
  unfold Fen.parsePieceLetter at h
  split at h <;> first | decide | simp at h

theorem parseRank_not_space (b : Char) (h : (Fen.parseRank b).isSome) : Fen.isSpace b = false := by
  unfold Fen.parseRank at h
  split at h
  · rename_i hb
    simp only [Bool.and_eq_true, decide_eq_true_eq] at hb
    have h1 : 49 ≤ b.toNat := by have := hb.1; rw [Char.le_def] at this; simpa [UInt32.le_iff_toNat_le] using this
    have h2 : b.toNat ≤ 56 := by have := hb.2; rw [Char.le_def] at this; simpa [UInt32.le_iff_toNat_le] using this
    unfold Fen.isSpace
    simp
    omega
  · simp at h

theorem parseFile_not_digit (a : Char) (h : (Fen.parseFile a).isSome) : Fen.isAsciiDigit a = false ∧ a ≠ '+' ∧ a ≠ '-' := by
  unfold Fen.parseFile at h
  split at h <;> first | decide | simp at h

theorem parseSquare_isSome (f r : Char) (h : (Fen.parseSquare f r).isSome) :
    (Fen.parseFile f).isSome ∧ (Fen.parseRank r).isSome := by
  unfold Fen.parseSquare at h
  cases h1 : Fen.parseFile f <;> cases h2 : Fen.parseRank r <;> simp [h1, h2] at h ⊢

/-- What `board.ParseMove` accepts starts with a file letter and contains no blank. -/
theorem parseMove_shape (f : List Char) (m : Move) (h : Fen.parseMove f = some m) :
    (∀ c ∈ f, Fen.isSpace c = false) ∧ ∃ a t, f = a :: t ∧ (Fen.parseFile a).isSome := by
  unfold Fen.parseMove at h
  split at h
  · rename_i a b c d
    cases h1 : Fen.parseSquare a b with
    | none => simp [h1] at h
    | some s1 =>
      cases h2 : Fen.parseSquare c d with
      | none => simp [h1, h2] at h
      | some s2 =>
        have q1 := parseSquare_isSome a b (by simp [h1])
        have q2 := parseSquare_isSome c d (by simp [h2])
        refine ⟨?_, a, [b, c, d], rfl, q1.1⟩
        intro x hx
        simp only [List.mem_cons, List.not_mem_nil, or_false] at hx
        rcases hx with rfl | rfl | rfl | rfl
        · exact parseFile_not_space _ q1.1
        · exact parseRank_not_space _ q1.2
        · exact parseFile_not_space _ q2.1
        · exact parseRank_not_space _ q2.2
  · rename_i a b c d e
    cases h1 : Fen.parseSquare a b with
    | none => simp [h1] at h
    | some s1 =>
      cases h2 : Fen.parseSquare c d with
      | none => simp [h1, h2] at h
      | some s2 =>
        cases h3 : Fen.parsePieceLetter e with
        | none => simp [h1, h2, h3] at h
        | some pc =>
          have q1 := parseSquare_isSome a b (by simp [h1])
          have q2 := parseSquare_isSome c d (by simp [h2])
          refine ⟨?_, a, [b, c, d, e], rfl, q1.1⟩
          intro x hx
          simp only [List.mem_cons, List.not_mem_nil, or_false] at hx
          rcases hx with rfl | rfl | rfl | rfl | rfl
          · exact parseFile_not_space _ q1.1
          · exact parseRank_not_space _ q1.2
          · exact parseFile_not_space _ q2.1
          · exact parseRank_not_space _ q2.2
          · exact parsePieceLetter_not_space _ (by simp [h3])
  · simp at h

theorem atoi_none_of_file (a : Char) (t : List Char) (h : (Fen.parseFile a).isSome) : Fen.atoi (a :: t) = none := by
  obtain ⟨hd, hplus, hminus⟩ := parseFile_not_digit a h
  unfold Fen.atoi
  split
  rename_i neg ds heq
  split at heq
  · rename_i r h1; exact absurd (List.cons.inj h1).1 hplus
  · rename_i r h1; exact absurd (List.cons.inj h1).1 hminus
  · cases heq
    simp [hd]

theorem dropWhile_space_append (x f : List Char) (a : Char) (t : List Char) (hf : f = a :: t) (ha : Fen.isSpace a = false) :
    ∃ p, (x ++ ' ' :: f).dropWhile Fen.isSpace = p ++ f ∧ (p = [] ∨ ∃ p', p = p' ++ [' ']) := by
  induction x with
  | nil =>
    refine ⟨[], ?_, Or.inl rfl⟩
    subst hf
    have : Fen.isSpace ' ' = true := by decide
    simp [this, ha]
  | cons c x ih =>
    by_cases hc : Fen.isSpace c = true
    · obtain ⟨p, hp, hsh⟩ := ih
      exact ⟨p, by simp [hc, hp], hsh⟩
    · refine ⟨(c :: x) ++ [' '], ?_, Or.inr ⟨c :: x, rfl⟩⟩
      simp [hc]

theorem trimSpace_append_word (x f : List Char) (hne : f ≠ []) (hsp : ∀ c ∈ f, Fen.isSpace c = false) :
    ∃ p, Fen.trimSpace (x ++ ' ' :: f) = p ++ f ∧ (p = [] ∨ ∃ p', p = p' ++ [' ']) := by
  cases f with
  | nil => exact absurd rfl hne
  | cons a t =>
    obtain ⟨p, hp, hsh⟩ := dropWhile_space_append x (a :: t) a t rfl (hsp a (by simp))
    refine ⟨p, ?_, hsh⟩
    unfold Fen.trimSpace
    rw [hp, List.reverse_append]
    cases hrev : (a :: t).reverse with
    | nil => simp at hrev
    | cons l r =>
      have hl : l ∈ a :: t := by
        have : l ∈ (a :: t).reverse := by rw [hrev]; simp
        exact List.mem_reverse.1 this
      have : Fen.isSpace l = false := hsp l hl
      rw [List.cons_append, List.dropWhile_cons]
      simp only [this, Bool.false_eq_true, if_false]
      rw [← List.cons_append, ← hrev, ← List.reverse_append, List.reverse_reverse]

/-- The concrete engine of `Driver.uciPosition` is strict. -/
theorem engOf_strict (z : ZTable) (hashMB : Nat) : (Driver.engOf z hashMB).Strict := by
  constructor
  · intro e
    simp [Driver.engOf, Model.EngineM.move, Fen.parseMove, kwStartpos]
  · intro fs f hl hr e
    have hne : fs ≠ [] := by intro h; subst h; simp at hl
    cases hp : Fen.parseMove f with
    | none => simp [Driver.engOf, Model.EngineM.move, hp]
    | some m =>
      exfalso
      obtain ⟨hsp, a, t, hf, hfile⟩ := parseMove_shape f m hp
      have hfne : f ≠ [] := by rw [hf]; simp
      have hdec : ∃ d, Fen.decode (joinSp (fs ++ [f])) = some d := by
        simp only [Driver.engOf, Model.EngineM.reset] at hr
        cases hd : Fen.decode (joinSp (fs ++ [f])) with
        | none => simp [hd] at hr
        | some d => exact ⟨d, rfl⟩
      obtain ⟨d, hd⟩ := hdec
      obtain ⟨pre, p5, hsplit, hat⟩ := decode_lastField _ d hd
      rw [joinSp_concat fs f hne] at hsplit
      obtain ⟨p, hp1, hsh⟩ := trimSpace_append_word (joinSp fs) f hfne hsp
      have hnosp : ' ' ∉ f := fun hmem => by
        have := hsp ' ' hmem
        exact absurd this (by decide)
      rw [hp1] at hsplit
      have hlast : p5 = f := by
        rcases hsh with h | ⟨p', h⟩
        · subst h
          rw [List.nil_append, splitSpaces_word f hnosp] at hsplit
          have := List.append_inj_right' (s₁ := []) hsplit rfl
          simpa using this.symm
        · subst h
          rw [List.append_assoc, List.singleton_append, splitSpaces_append_space, splitSpaces_word f hnosp] at hsplit
          have := List.append_inj_right' hsplit rfl
          simpa using this.symm
      rw [hlast, hf, atoi_none_of_file a t hfile] at hat
      simp at hat

/-- `Driver.uciPosition` (the function the `ucidet` stream compares with the real driver) is the
    proved-about handler on the concrete engine — by definition. -/
theorem uciPosition_is_model (z : ZTable) (u : Driver.UciM) (line : String) :
    (Driver.uciPosition z u line).eng
      = (position (Driver.engOf z u.hashMB) ((u.eng, u.tt), u.lastPosition.toList) line.toList).1.1 ∧
    (Driver.uciPosition z u line).tt
      = (position (Driver.engOf z u.hashMB) ((u.eng, u.tt), u.lastPosition.toList) line.toList).1.2 ∧
    (Driver.uciPosition z u line).lastPosition
      = String.ofList (position (Driver.engOf z u.hashMB) ((u.eng, u.tt), u.lastPosition.toList) line.toList).2 :=
  ⟨rfl, rfl, rfl⟩

/-- C10 with arbitrary earlier lines, on the concrete engine model. -/
theorem engine_robust_state_eq_last (z : ZTable) (hashMB : Nat) (e0 : Model.EngineM × TTState)
    (pre : List Command) (line : List Char) (hw : WellFormed line) (hp : Playable (Driver.engOf z hashMB) line) :
    denote (Driver.engOf z hashMB) line = some (run (Driver.engOf z hashMB) (e0, []) (pre ++ [.position line])).1 ∧
    (run (Driver.engOf z hashMB) (e0, []) (pre ++ [.position line])).2 = line :=
  robust_state_eq_last _ (engOf_strict z hashMB) e0 pre line hw hp

/-! ## The theorems instantiated on the concrete engine

`Driver.engOf exZ 0`: the engine model with the sample Zobrist table `Proofs.exZ`, hash table off. The
hypotheses (`WellFormed`, `Playable`, what `continuation` answers, that the extra words cannot be played)
are discharged by evaluation in the kernel. -/

section Instances
open Morlock.Proofs (exZ)

abbrev eng0 := Driver.engOf exZ 0
def p0 := "position startpos".toList
def p1 := "position startpos moves e2e4".toList
def p2 := "position startpos moves e2e4 e7e5 g1f3".toList
def pF := "position fen r3k2r/1P6/8/3pP3/8/8/8/R3K2R w KQkq d6 0 1 moves e5d6 a8a1 e1e2".toList

theorem wf_p0 : WellFormed p0 := wellFormed_of_check p0 ⟨none, []⟩ (by decide) (by decide) (by decide)
theorem wf_p1 : WellFormed p1 := wellFormed_of_check p1 ⟨none, ["e2e4".toList]⟩ (by decide) (by decide) (by decide)
theorem wf_p2 : WellFormed p2 :=
  wellFormed_of_check p2 ⟨none, ["e2e4".toList, "e7e5".toList, "g1f3".toList]⟩ (by decide) (by decide) (by decide)
theorem wf_pF : WellFormed pF :=
  wellFormed_of_check pF ⟨some ["r3k2r/1P6/8/3pP3/8/8/8/R3K2R".toList, ['w'], "KQkq".toList, "d6".toList, ['0'], ['1']],
    ["e5d6".toList, "a8a1".toList, "e1e2".toList]⟩ (by decide) (by decide) (by decide)

/-- The sample lines are playable on the concrete engine (en passant, a rook capture on a rook home square
    and a king move in `pF`), an illegal move is not, nor is a position text `fen.Decode` refuses. -/
theorem playable_p1 : Playable eng0 p1 := by decide +kernel
theorem playable_p2 : Playable eng0 p2 := by decide +kernel
theorem playable_pF : Playable eng0 pF := by decide +kernel
example : ¬ Playable eng0 "position startpos moves e2e5".toList := by decide +kernel
example : ¬ Playable eng0 "position fen 8/8 w - - 0 1".toList := by decide +kernel

/-- `fresh_eq_denote` on the concrete engine: another game was remembered (`p2` does not extend `pF`); whatever the
    engine state `e`, the handler ends in the game `pF` describes. -/
example (e : Model.EngineM × TTState) :
    denote eng0 pF = some (position eng0 (e, p2) pF).1 ∧ (position eng0 (e, p2) pF).2 = pF :=
  fresh_eq_denote eng0 e p2 pF wf_pF playable_pF (by decide)

/-- `extend_eq_scratch` on the concrete engine: the engine holds the game of `p1`, the line `p2` extends it by
    `e7e5 g1f3`: same as setting `p2` up from scratch. -/
example (e : Model.EngineM × TTState) (he : denote eng0 p1 = some e) :
    denote eng0 p2 = some (position eng0 (e, p1) p2).1 ∧ (position eng0 (e, p1) p2).2 = p2 :=
  extend_eq_scratch eng0 e p1 p2 ["e7e5".toList, "g1f3".toList] wf_p1 he wf_p2 playable_p2 (by decide)

/-- … and such an `e` exists. -/
example : ∃ e, denote eng0 p1 = some e := (playable_iff eng0 p1).1 playable_p1

/-- `position_wf` on the concrete engine, both cases of its hypothesis. -/
example (e : Model.EngineM × TTState) :
    denote eng0 p2 = some (position eng0 (e, []) p2).1 ∧ (position eng0 (e, []) p2).2 = p2 :=
  position_wf eng0 (e, []) p2 (Or.inl rfl) wf_p2 playable_p2
example (e : Model.EngineM × TTState) (he : denote eng0 p0 = some e) :
    denote eng0 p2 = some (position eng0 (e, p0) p2).1 ∧ (position eng0 (e, p0) p2).2 = p2 :=
  position_wf eng0 (e, p0) p2 (Or.inr ⟨wf_p0, he⟩) wf_p2 playable_p2

/-- `fallback_eq_denote` on the concrete engine: `p0` is remembered but the engine stands after `1. e4`
    (it does not hold the game of the remembered line); `p1` is recognised as an extension by `moves e2e4`,
    `e2e4` cannot be played there, and the handler sets `p1` up from scratch. -/
example (e : Model.EngineM × TTState) (he : denote eng0 p1 = some e) :
    denote eng0 p1 = some (position eng0 (e, p0) p1).1 ∧ (position eng0 (e, p0) p1).2 = p1 := by
  have hx : (denote eng0 p1).all (fun e => (extend eng0 e ["moves".toList, "e2e4".toList]).2 = false) = true := by
    decide +kernel
  rw [he] at hx
  exact fallback_eq_denote eng0 e p0 p1 ["moves".toList, "e2e4".toList] wf_p1 playable_p1 (by decide) (by simpa using hx)

/-- `engine_robust_state_eq_last` on the concrete engine: garbage, an accepted malformed line (five fields:
    the start position), a half-played line and a tab-separated line first, then `pF`. -/
example (e0 : Model.EngineM × TTState) :
    denote eng0 pF = some (run eng0 (e0, [])
      [.position "hello world".toList, .position "position fen a b c d e".toList, .position "position startpos moves e2e4 e2e4".toList,
       .newgame, .position "position startpos moves e2e4\te7e5".toList, .position pF]).1 :=
  (engine_robust_state_eq_last exZ 0 e0
    [.position "hello world".toList, .position "position fen a b c d e".toList, .position "position startpos moves e2e4 e2e4".toList,
     .newgame, .position "position startpos moves e2e4\te7e5".toList] pF wf_pF playable_pF).1

end Instances

end Morlock.Props.C10
