import Morlock.Model.Search
import Morlock.Props.C09
/-!
# C13 — the child window is the exact inverse image of the parent window

A parent sees a child value `s` as `lift s = (incMate s).negate`. `childBound` (the repaired window
mapping of `alphabeta.go` / `quiescence.go`) is its inverse on every score a parent can see, and the
window the code used before the repair (`negate` alone) is not - which is the one-ply shift that
made mate-score windows clip wrongly.
-/
namespace Morlock.Props.C13Window
open Morlock Morlock.Model Morlock.Model.Score Morlock.Spec

/-- How a parent sees a child score. -/
def lift (s : Score) : Score := (incMate s).negate

/-- Scores a parent can see from a child: everything but `±inf`, with the mate distance inside `int8`. -/
def Liftable (a : Score) : Prop :=
  Valid a ∧ a.ty ≠ .inf ∧ a.ty ≠ .negInf ∧ (a.ty = .mateInX → -127 ≤ a.mate ∧ a.mate ≤ 127)

theorem lift_childBound_mate_fin : ∀ k : Nat, k < 255 → (((k : Nat) : Int) - 127 ≠ 0) →
    lift (childBound (mateInXScore (((k : Nat) : Int) - 127))) = mateInXScore (((k : Nat) : Int) - 127) := by decide +kernel

/-- `lift ∘ childBound = id` on the image of `lift`. -/
theorem lift_childBound (a : Score) (h : Liftable a) : lift (childBound a) = a := by
  obtain ⟨ta, ma, pa⟩ := a
  obtain ⟨hv, h1, h2, h3⟩ := h
  cases ta <;> simp [Valid] at hv h1 h2 h3
  · -- heuristic
    simp [lift, childBound, decMate, negate, incMate, heuristicScore, hv.1]
  · -- mateInX: 255 cases, evaluated
    have := lift_childBound_mate_fin (ma + 127).toNat (by omega) (by
      have : (((ma + 127).toNat : Nat) : Int) = ma + 127 := by omega
      rw [this]; omega)
    have e : (((ma + 127).toNat : Nat) : Int) - 127 = ma := by omega
    rw [e] at this
    simpa [mateInXScore, hv.1] using this

/-- The window mapping used before the repair is off by one ply on mate scores: with alpha = `M-4`
    a child worth `M4` is seen as `M-5 < alpha` by the parent, yet lies below the child's beta. -/
theorem old_window_wrong :
    ¬ (rank (mateInXScore (-4)) < rank (lift (mateInXScore 4)) ↔
       rank (mateInXScore 4) < rank ((mateInXScore (-4)).negate)) := by decide

/-- … and the repaired mapping is right on that witness. -/
theorem new_window_right :
    (rank (mateInXScore (-4)) < rank (lift (mateInXScore 4)) ↔
       rank (mateInXScore 4) < rank (childBound (mateInXScore (-4)))) := by decide

example : Liftable (mateInXScore (-4)) ∧ Liftable (heuristicScore 7) := by
  simp [Liftable, Valid, mateInXScore, heuristicScore]

end Morlock.Props.C13Window
