import Morlock.Model.TimeCtl
/-!
# C15 — under a time control the hard limit never exceeds the time left on the clock

`Model.limits` is the transcription of `TimeControl.Limits` (int64 arithmetic made explicit).
-/
namespace Morlock.Props.C15Limits
open Morlock Morlock.Model

/-- For a clock that has not run out (`0 ≤ remaining < 2^62` ns ≈ 146 years) and any number of
    moves to go that fits an `int32`: `0 ≤ soft ≤ hard ≤ remaining`. -/
theorem hard_le_remaining (remaining moves : Int) (h0 : 0 ≤ remaining) (h1 : remaining < 4611686018427387904)
    (m0 : 0 ≤ moves) (m1 : moves < 2147483648) :
    0 ≤ (limits remaining moves).1 ∧ (limits remaining moves).1 ≤ (limits remaining moves).2 ∧
    (limits remaining moves).2 ≤ remaining := by
  unfold limits
  by_cases hm : moves > 0
  · simp only [hm, if_true]
    have w1 : wrap64 (moves + 1) = moves + 1 := by unfold wrap64; omega
    have w2 : wrap64 (2 * (moves + 1)) = 2 * (moves + 1) := by unfold wrap64; omega
    rw [w1, w2]
    have hden : (2 * (moves + 1) : Int) ≠ 0 := by omega
    simp only [hden, if_false]
    have hq0 : 0 ≤ Int.tdiv remaining (2 * (moves + 1)) := Int.tdiv_nonneg h0 (by omega)
    have hq : Int.tdiv remaining (2 * (moves + 1)) * (2 * (moves + 1)) ≤ remaining := by
      have := Int.tdiv_mul_le remaining (b := 2 * (moves + 1)) hden
      simpa [h0] using this
    have hle : Int.tdiv remaining (2 * (moves + 1)) ≤ remaining := Int.tdiv_le_self _ h0
    have w3 : wrap64 (Int.tdiv remaining (2 * (moves + 1))) = Int.tdiv remaining (2 * (moves + 1)) := by
      unfold wrap64; omega
    rw [w3]
    -- 4q ≤ q·2(m+1) ≤ remaining since m ≥ 1
    have h4 : 4 * Int.tdiv remaining (2 * (moves + 1)) ≤ remaining := by
      have : 4 * Int.tdiv remaining (2 * (moves + 1)) ≤ Int.tdiv remaining (2 * (moves + 1)) * (2 * (moves + 1)) := by
        have hm2 : (4 : Int) ≤ 2 * (moves + 1) := by omega
        calc 4 * Int.tdiv remaining (2 * (moves + 1)) = Int.tdiv remaining (2 * (moves + 1)) * 4 := by rw [Int.mul_comm]
          _ ≤ Int.tdiv remaining (2 * (moves + 1)) * (2 * (moves + 1)) := Int.mul_le_mul_of_nonneg_left hm2 hq0
      omega
    have w4 : wrap64 (3 * Int.tdiv remaining (2 * (moves + 1))) = 3 * Int.tdiv remaining (2 * (moves + 1)) := by
      unfold wrap64; omega
    rw [w4]
    omega
  · simp only [hm, if_false]
    have w2 : wrap64 (2 * 40) = 80 := by decide
    rw [w2]
    simp only [show (80 : Int) ≠ 0 by decide, if_false]
    have hq0 : 0 ≤ Int.tdiv remaining 80 := Int.tdiv_nonneg h0 (by omega)
    have hq : Int.tdiv remaining 80 * 80 ≤ remaining := by
      have := Int.tdiv_mul_le remaining (b := 80) (by decide)
      simpa [h0] using this
    have w3 : wrap64 (Int.tdiv remaining 80) = Int.tdiv remaining 80 := by unfold wrap64; omega
    rw [w3]
    have w4 : wrap64 (3 * Int.tdiv remaining 80) = 3 * Int.tdiv remaining 80 := by unfold wrap64; omega
    rw [w4]
    omega

/-- The one-move-to-go case a divisor without the `+ 1` would get wrong: half the clock soft, … -/
theorem one_move_to_go : limits 1000000000 1 = (250000000, 750000000) := by decide

example : (limits 60000000000 0).2 ≤ 60000000000 := by decide

end Morlock.Props.C15Limits
