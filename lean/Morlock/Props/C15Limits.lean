import Morlock.Model.TimeCtl
/-!
# C15 — under a time control the hard limit never exceeds the time left on the clock

`Model.limits` is the transcription of `TimeControl.Limits` (int64 arithmetic made explicit).
-/
namespace Morlock.Props.C15Limits
open Morlock Morlock.Model

/-- The two divisions and the tripling, for a divisor `m ≥ 2`. -/
theorem core (remaining m : Int) (h0 : 0 ≤ remaining) (h1 : remaining < 4611686018427387904) (hm : 2 ≤ m) :
    let soft := wrap64 (Int.tdiv (wrap64 (Int.tdiv remaining m)) 2)
    0 ≤ soft ∧ soft ≤ wrap64 (3 * soft) ∧ wrap64 (3 * soft) ≤ remaining := by
  intro soft
  have hm0 : m ≠ 0 := by omega
  have q1n : 0 ≤ Int.tdiv remaining m := Int.tdiv_nonneg h0 (by omega)
  have q1le : Int.tdiv remaining m ≤ remaining := Int.tdiv_le_self _ h0
  have q1m : Int.tdiv remaining m * m ≤ remaining := by
    have := Int.tdiv_mul_le remaining (b := m) hm0
    simpa [h0] using this
  have w1 : wrap64 (Int.tdiv remaining m) = Int.tdiv remaining m := by unfold wrap64; omega
  have q2n : 0 ≤ Int.tdiv (Int.tdiv remaining m) 2 := Int.tdiv_nonneg q1n (by omega)
  have q2m : Int.tdiv (Int.tdiv remaining m) 2 * 2 ≤ Int.tdiv remaining m := by
    have := Int.tdiv_mul_le (Int.tdiv remaining m) (b := 2) (by omega)
    simpa [q1n] using this
  have two : Int.tdiv remaining m * 2 ≤ Int.tdiv remaining m * m := Int.mul_le_mul_of_nonneg_left hm q1n
  have hs : soft = Int.tdiv (Int.tdiv remaining m) 2 := by
    show wrap64 (Int.tdiv (wrap64 (Int.tdiv remaining m)) 2) = _
    rw [w1]; unfold wrap64; omega
  have w3 : wrap64 (3 * soft) = 3 * soft := by rw [hs]; unfold wrap64; omega
  rw [w3, hs]
  omega


/-- the assumed number of moves to the end of the game, as it is in the source now, is a legitimate divisor -/
theorem horizon_ok : 2 ≤ Gen.defaultHorizon ∧ Gen.defaultHorizon < 4611686018427387904 := by decide

/-- **For a clock that has not run out (`0 ≤ remaining < 2^62` ns ≈ 146 years) and EVERY `int64` number of moves to go**
    (negative, zero, `2^63 - 1`, … - the uci parser accepts any integer): `0 ≤ soft ≤ hard ≤ remaining`, and no operation
    of `Limits` can panic (the model has no error value to return: its divisors are never zero, see `limits`). -/
theorem hard_le_remaining (remaining moves : Int) (h0 : 0 ≤ remaining) (h1 : remaining < 4611686018427387904)
    (m0 : -9223372036854775808 ≤ moves) (m1 : moves < 9223372036854775808) :
    0 ≤ (limits remaining moves).1 ∧ (limits remaining moves).1 ≤ (limits remaining moves).2 ∧
    (limits remaining moves).2 ≤ remaining := by
  unfold limits
  by_cases hm : moves > 0
  · simp only [hm, if_true]
    by_cases hmax : moves = 9223372036854775807
    · subst hmax
      have hw : wrap64 (9223372036854775807 + 1) = -9223372036854775808 := by decide
      rw [hw]
      have hz : Int.tdiv remaining (-9223372036854775808) = 0 := by
        rw [show (-9223372036854775808 : Int) = -(9223372036854775808 : Int) by rfl, Int.tdiv_neg,
          Int.tdiv_eq_zero_of_lt h0 (by omega)]
        rfl
      rw [hz]
      have : wrap64 (Int.tdiv (wrap64 0) 2) = 0 := by decide
      rw [this]
      have : wrap64 (3 * 0) = 0 := by decide
      rw [this]
      omega
    · have w1 : wrap64 (moves + 1) = moves + 1 := by unfold wrap64; omega
      rw [w1]
      exact core remaining (moves + 1) h0 h1 (by omega)
  · simp only [hm, if_false]
    exact core remaining Gen.defaultHorizon h0 h1 horizon_ok.1

/-- the formula before the repair (`remainder / (2 * moves)`) divides by zero for `movestogo = 2^63 - 1` -/
theorem old_divisor_zero : wrap64 (2 * wrap64 (9223372036854775807 + 1)) = 0 := by decide


/-- The divisors of `limits`: never `0`, never `-1` (so no `int64` division can panic or overflow). -/
theorem divisor_ok (moves : Int) (m0 : -9223372036854775808 ≤ moves) (m1 : moves < 9223372036854775808) :
    let m : Int := if moves > 0 then wrap64 (moves + 1) else Gen.defaultHorizon
    m ≠ 0 ∧ m ≠ -1 := by
  intro m
  show (if moves > 0 then wrap64 (moves + 1) else Gen.defaultHorizon) ≠ 0 ∧
    (if moves > 0 then wrap64 (moves + 1) else Gen.defaultHorizon) ≠ -1
  have hh := horizon_ok.1
  by_cases hm : moves > 0
  · simp only [hm, if_true]; unfold wrap64; omega
  · simp only [hm, if_false]; omega

/-- The one-move-to-go case a divisor without the `+ 1` would get wrong: half the clock soft, … -/
theorem one_move_to_go : limits 1000000000 1 = (250000000, 750000000) := by decide

example : (limits 60000000000 0).2 ≤ 60000000000 := (hard_le_remaining 60000000000 0 (by decide) (by decide) (by decide) (by decide)).2.2

/-- `go wtime 1000 btime 1000 movestogo 9223372036854775807` (the input that crashed the engine before 552dec5). -/
example : limits 1000000000 9223372036854775807 = (0, 0) := by decide

end Morlock.Props.C15Limits
