import Morlock.Proofs.ConcIter
import Morlock.Props.C15Limits
/-!
# C15 — iterative deepening (`pkg/search/searchctl/iterative.go`) under every interleaving, and the
arithmetic of `TimeControl.Limits`

Model: `Morlock/Model/IterConc.lean` (its header says what one step is and what is abstracted). One search:
the searcher goroutine `handle.process`, the watcher that turns `quit` into a cancelled context, any number `n`
of `handle.Halt()` calls starting at arbitrary times (the hard-limit timer is one of them), and a consumer of
`out`. `run cfg (init n) sched` is the state after the schedule `sched` (a list of `Act`s; the searcher's `Act`
carries the bit that resolves "did the search notice the cancellation" / "is the soft limit exceeded").
`cfg : Cfg` gives the depth limit, the abstract search result and mate distance per depth, and whether a soft
time limit is in force. Every theorem is for ALL `cfg`, `n`, and schedules (induction over the schedule).

`cfg.pv d` = the PV of depth `d` (`(d, cfg.search d)`); `cfg.hardStop d` = `depth == limit ∨ mateDistance ≤ depth`
at depth `d`; `State.sent` = every PV ever sent on `out`, oldest first (ghost); `State.pv` = `h.pv`;
`HPc.done snap res` = a Halt call that has returned `res` and had `snap = sent.length` when it started.
-/
namespace Morlock.Props.C15
open Morlock.Model.IterConc Morlock.Proofs.ConcIter

/-- **reports_in_order.** The PVs ever sent on `out` are exactly `search 1, search 2, …, search k` in this order
(`k` = how many were sent): increasing depth, no gap, no repeat, each the abstract PV of its depth. -/
theorem reports_in_order (cfg : Cfg) (n : Nat) (sched : List Act) :
    (run cfg (init n) sched).sent =
      (List.range' 1 (run cfg (init n) sched).sent.length).map cfg.pv :=
  (iterInv_run cfg n sched).sent

/-- The PV stored for `Halt` never lags the channel: `h.pv` is written before the send, so the number of PVs sent
(= the depth of the last one) is at most the depth of `h.pv`. (Nothing is claimed about what the consumer
*receives*: the drop-oldest channel may lose intermediate PVs.) -/
theorem sent_le_stored (cfg : Cfg) (n : Nat) (sched : List Act) :
    (run cfg (init n) sched).sent.length ≤ (run cfg (init n) sched).pv.depth :=
  (iterInv_run cfg n sched).sentLe

/-- **stops_at_limit.** As long as nobody has called `Halt` (`quit` not closed):
* if the searcher is running its deferred calls or has returned, then it completed some depth `D ≥ 1`
  (`h.pv` is the PV of depth `D`), all of `search 1 … search D` were sent, `D` satisfies a stop condition
  (`depth = limit`, or `mateDistance ≤ depth`, or a soft time limit is in force) and no earlier depth satisfied a
  hard one (limit / mate): it stopped right after the first such depth;
* otherwise it is working on some depth `d ≥ 1`, no depth before `d` was a hard stop, and its next step is
  enabled unless it waits for `h.mu` (it keeps going).
With `useSoft = false` the first case says exactly: `D` is the first depth with `depth = limit ∨ mate ≤ depth`. -/
theorem stops_at_limit (cfg : Cfg) (n : Nat) (sched : List Act)
    (hq : (run cfg (init n) sched).quit = false) :
    let s := run cfg (init n) sched
    (s.spc.exiting = true →
      1 ≤ s.pv.depth ∧ s.pv = cfg.pv s.pv.depth ∧ s.sent = (List.range' 1 s.pv.depth).map cfg.pv ∧
      (cfg.hardStop s.pv.depth = true ∨ cfg.useSoft = true) ∧
      ∀ d', 1 ≤ d' → d' < s.pv.depth → cfg.hardStop d' = false) ∧
    (s.spc.exiting = false →
      ∃ d, s.spc.depth? = some d ∧ 1 ≤ d ∧ (∀ d', 1 ≤ d' → d' < d → cfg.hardStop d' = false) ∧
        ∀ b, (∀ d, s.spc = .lock d → s.mu = none) → (step cfg s (.searcher b)).spc ≠ s.spc) :=
  stops_at_limit_of cfg _ (iterInv_run cfg n sched) (sendInv_run cfg n sched) hq

/-- **halt_after_depth1.** A `Halt` call that has got past `<-h.init.Closed()` (in particular one that has
returned) implies that depth 1 was stored in `h.pv` (`pv.depth ≥ 1`) or the searcher has returned. -/
theorem halt_after_depth1 (cfg : Cfg) (n : Nat) (sched : List Act) (k : Nat) (hp : HPc)
    (hk : (run cfg (init n) sched).halts[k]? = some hp)
    (hpast : hp ≠ .idle ∧ ∀ snap, hp ≠ .await snap) :
    1 ≤ (run cfg (init n) sched).pv.depth ∨ (run cfg (init n) sched).spc = .exited := by
  have h := iterInv_run cfg n sched
  have hok := h.halts hp (List.mem_of_getElem? hk)
  apply h.initOk
  cases hp with
  | idle => exact absurd rfl hpast.1
  | await snap => exact absurd rfl (hpast.2 snap)
  | closeQuit snap => exact hok.2
  | lock snap => exact hok.2.1
  | read snap => exact hok.2.1
  | unlock snap r => exact hok.2.2.2.1
  | done snap r => exact hok.2.2.2.1

/-- **halt_monotone.** If a `Halt` call has returned `res`, then `res` is at least as deep as every PV that had
been sent on `out` before the call started (`sent.take snap`), and it is a completed iteration: the zero `PV{}`
(only possible if nothing had been sent before the call started) or `search d` for a depth `d ≥ 1` that the
searcher has stored. -/
theorem halt_monotone (cfg : Cfg) (n : Nat) (sched : List Act) (k snap : Nat) (res : PV)
    (hk : (run cfg (init n) sched).halts[k]? = some (.done snap res)) :
    (∀ pv ∈ (run cfg (init n) sched).sent.take snap, pv.depth ≤ res.depth) ∧
    ((res = {} ∧ snap = 0) ∨ (1 ≤ res.depth ∧ res = cfg.pv res.depth)) ∧
    res.depth ≤ (run cfg (init n) sched).pv.depth := by
  have h := iterInv_run cfg n sched
  obtain ⟨a1, a2, a3, _, _⟩ := h.halts _ (List.mem_of_getElem? hk)
  refine ⟨?_, ?_, a2⟩
  · intro pv hpv
    have hs := h.sent
    unfold Cfg.SentOk at hs
    rw [hs] at hpv
    have := (mem_take_pvs hpv).2
    omega
  · unfold Cfg.IsPv at a3
    by_cases h0 : res.depth = 0
    · rw [if_pos h0] at a3; exact .inl ⟨a3, by omega⟩
    · rw [if_neg h0] at a3; exact .inr ⟨by omega, a3⟩

/-- The search context is cancelled only because of a `Halt` (`quit` closed, then the watcher) or by the searcher's
own deferred `cancel()` on its way out: a search never returns `ErrHalted` unless somebody called `Halt`. -/
theorem cancelled_only_after_quit (cfg : Cfg) (n : Nat) (sched : List Act)
    (hc : (run cfg (init n) sched).cancelled = true) :
    (run cfg (init n) sched).quit = true ∨ (run cfg (init n) sched).spc.afterCancel = true :=
  (iterInv_run cfg n sched).cancelOk hc

/-! ## `TimeControl.Limits`

The arithmetic of the time control is `Model.limits` (the transcription the `limits` stream ties to the code, every
operation in wrapped `int64`); its theorems are in `Props/C15Limits.lean`: `hard_le_remaining` (for a clock
`0 ≤ remaining < 2^62` and EVERY `int64` moves-to-go: `0 ≤ soft ≤ hard ≤ remaining`) and `divisor_ok` (no division of
`Limits` can panic). Restated here for the property. -/

/-- **limits.** `0 ≤ soft ≤ hard ≤ remaining` for every clock that has not run out and every `int64` moves-to-go. -/
theorem limits_ordered (remaining moves : Int) (hr0 : 0 ≤ remaining) (hr1 : remaining < 4611686018427387904)
    (hm0 : -9223372036854775808 ≤ moves) (hm1 : moves < 9223372036854775808) :
    0 ≤ (Morlock.Model.limits remaining moves).1 ∧
    (Morlock.Model.limits remaining moves).1 ≤ (Morlock.Model.limits remaining moves).2 ∧
    (Morlock.Model.limits remaining moves).2 ≤ remaining :=
  Morlock.Props.C15Limits.hard_le_remaining remaining moves hr0 hr1 hm0 hm1

/-! ## the hypotheses are satisfiable: small concrete systems -/

/-- example configuration: depth limit 3 -/
def cfg3 : Cfg := { limit := some 3, search := fun d => 10 * d }

/-- depth limit 3, nobody halts: the searcher sends depths 1, 2, 3 and returns; the consumer saw only what it
happened to pick up (drop-oldest lost depth 2). -/
example :
    let s := run cfg3 (init 0)
      (List.replicate 8 (.searcher false) ++ [.consumer] ++ List.replicate 16 (.searcher false) ++ [.consumer] ++
       List.replicate 3 (.searcher false))
    s.sent = [⟨1, 10⟩, ⟨2, 20⟩, ⟨3, 30⟩] ∧ s.received = [⟨1, 10⟩, ⟨3, 30⟩] ∧ s.spc = .exited ∧
    s.outClosed = true ∧ s.quit = false := by
  decide

/-- two Halt callers on an unlimited search: the first call starts before anything was sent and waits for depth 1;
the second starts after depth 2 was sent. Both return a PV at least as deep as what had been sent when they started;
the searcher notices the cancellation inside the search of depth 3 and returns. -/
example :
    let s := run { search := fun d => 10 * d } (init 2)
      ([.halt 0, .halt 0] ++ List.replicate 8 (.searcher false) ++ [.halt 0] ++
       List.replicate 7 (.searcher false) ++ [.halt 1, .halt 1] ++
       [.halt 0, .halt 0, .halt 0, .halt 0, .watcher, .halt 1, .halt 1, .halt 1, .halt 1] ++
       List.replicate 6 (.searcher true))
    s.halts = [.done 0 ⟨2, 20⟩, .done 2 ⟨2, 20⟩] ∧ s.sent = [⟨1, 10⟩, ⟨2, 20⟩] ∧ s.spc = .exited := by
  decide

-- with moves to go the horizon assumed for sudden death plays no role; in sudden death the limits follow the horizon read from the source
example : Morlock.Model.limits 60000 9 = (3000, 9000) := by decide
example : Morlock.Model.limits 60000 0 =
    (Int.tdiv (Int.tdiv 60000 Gen.defaultHorizon) 2, 3 * Int.tdiv (Int.tdiv 60000 Gen.defaultHorizon) 2) := by decide

end Morlock.Props.C15
