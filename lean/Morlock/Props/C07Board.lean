import Morlock.Props.C05
/-!
Proposed addition to C05 §10: the draw verdict for generated play on a board that has also been taken back and
forked (not only `newBoard` + pushes). Invariant: every node of the line satisfies `WFplay` for the side to move there.
-/
namespace Morlock.Props.C07Board
open Morlock Morlock.Model Morlock.Model.World Morlock.Proofs Morlock.Proofs.Arena Morlock.Proofs.Draw
  Morlock.Proofs.Chain Morlock.Proofs.Gen Morlock.Props.C05

/-- Every node of the line of board `b` satisfies `WFplay` for the side to move there. -/
def LineWF (w : World) (b : Nat) : Prop :=
  ∀ e ∈ sided (w.board b).turn (lineK w b), WFplay e.1.pos e.2

theorem LineWF.cur {w : World} {b : Nat} (h : LineWF w b) : WFplay (w.cur b).pos (w.board b).turn := by
  have := h (key (w.cur b), (w.board b).turn) (by rw [lineK_head, sided_cons]; exact List.mem_cons_self)
  simpa using this

theorem lineWF_newBoard (w : World) (z : ZTable) {pos : Position} {turn : Color} (np fm : Int)
    (hpos : WFplay pos turn) : LineWF (w.newBoard z pos turn np fm).1 (w.newBoard z pos turn np fm).2 := by
  intro e he
  rw [newBoard_line, (newBoard_cur w z pos turn np fm).2.1] at he
  simp only [sided_cons, sided_nil, List.mem_singleton] at he
  subst he
  exact hpos

theorem lineWF_push {w w' : World} {z : ZTable} {b : Nat} {m : Move} (hw : WFWorld w) (hb : b < w.boards.size)
    (hl : LineWF w b) (hm : m ∈ (w.cur b).pos.pseudoLegalMoves (w.board b).turn)
    (h : w.pushMove z b m = some w') : LineWF w' b := by
  obtain ⟨hline, ht, _⟩ := push_line hw hb h
  have hcur := (push_wfplay hw hb hl.cur hm h).2
  intro e he
  rw [hline, sided_cons, List.mem_cons] at he
  rcases he with rfl | he
  · simpa using hcur
  · rw [ht, opp_opp] at he
    exact hl e he

theorem lineWF_pop {w w' : World} {b : Nat} {m : Move} (hw : WFWorld w) (hb : b < w.boards.size)
    (hl : LineWF w b) (h : w.popMove b = some (w', m)) : LineWF w' b := by
  obtain ⟨hline, ht, _⟩ := pop_line hw hb h
  intro e he
  apply hl e
  rw [hline, sided_cons, ← ht]
  exact List.mem_cons_of_mem _ he

theorem lineWF_fork {w : World} (hw : WFWorld w) (b : Nat) (hl : LineWF w b) :
    LineWF (w.fork b).1 (w.fork b).2 := by
  obtain ⟨hline, ht, _⟩ := fork_same hw b
  intro e he
  rw [hline, ht] at he
  exact hl e he

/-- **draw_iff for generated moves after any take-backs / forks.** The pair of invariants `GoodHistory ∧ LineWF` is
established by `newBoard` on a `WFplay` position with clock `≥ 0`, preserved by take-backs and forking, and after every
generated move the board reports exactly the verdict the history dictates and the invariants hold again. -/
theorem draw_iff_generated_line {w w' : World} {z : ZTable} {b : Nat} {m : Move} (hz : z.enpassant 0 = 0)
    (hw : WFWorld w) (hb : b < w.boards.size) (hg : GoodHistory z w b) (hl : LineWF w b)
    (hm : m ∈ (w.cur b).pos.pseudoLegalMoves (w.board b).turn) (h : w.pushMove z b m = some w') :
    DrawVerdict w' b m ∧ GoodHistory z w' b ∧ LineWF w' b := by
  obtain ⟨hv, hg', _⟩ := draw_iff_generated hz hw hb hg hl.cur hm h
  exact ⟨hv, hg', lineWF_push hw hb hl hm h⟩

theorem invariants_newBoard {w : World} (z : ZTable) {pos : Position} {turn : Color} (hpos : WFplay pos turn)
    {np : Int} (hnp : 0 ≤ np) (fm : Int) :
    GoodHistory z (w.newBoard z pos turn np fm).1 (w.newBoard z pos turn np fm).2 ∧
    LineWF (w.newBoard z pos turn np fm).1 (w.newBoard z pos turn np fm).2 :=
  ⟨goodHistory_newBoard w z pos turn fm hnp, lineWF_newBoard w z np fm hpos⟩

theorem invariants_pop {w w' : World} {z : ZTable} {b : Nat} {m : Move} (hw : WFWorld w) (hb : b < w.boards.size)
    (hg : GoodHistory z w b) (hl : LineWF w b) (h : w.popMove b = some (w', m)) :
    GoodHistory z w' b ∧ LineWF w' b :=
  ⟨goodHistory_pop hw hb h hg, lineWF_pop hw hb hl h⟩

theorem invariants_fork {w : World} {z : ZTable} (hw : WFWorld w) (b : Nat)
    (hg : GoodHistory z w b) (hl : LineWF w b) :
    GoodHistory z (w.fork b).1 (w.fork b).2 ∧ LineWF (w.fork b).1 (w.fork b).2 :=
  ⟨goodHistory_fork hw b hg, lineWF_fork hw b hl⟩


/-- Board `b` of `w` descends from a board set up on a `WFplay` position with clock `≥ 0` by generated moves,
take-backs and forks (following the fork), in any order. -/
inductive GenBoard (z : ZTable) : World → Nat → Prop
  | new {w : World} {pos : Position} {turn : Color} {np : Int} (fm : Int) :
      WFWorld w → WFplay pos turn → 0 ≤ np → GenBoard z (w.newBoard z pos turn np fm).1 (w.newBoard z pos turn np fm).2
  | push {w w' : World} {b : Nat} {m : Move} :
      GenBoard z w b → m ∈ (w.cur b).pos.pseudoLegalMoves (w.board b).turn → w.pushMove z b m = some w' → GenBoard z w' b
  | pop {w w' : World} {b : Nat} {m : Move} : GenBoard z w b → w.popMove b = some (w', m) → GenBoard z w' b
  | fork {w : World} {b : Nat} : GenBoard z w b → GenBoard z (w.fork b).1 (w.fork b).2
  | stay {w : World} {b : Nat} : GenBoard z w b → GenBoard z (w.fork b).1 b

/-- `GoodHistory` and `LineWF` only depend on the view of the board. -/
theorem invariants_of_view {z : ZTable} {w w' : World} {a a' : Nat} (hv : view w' a' = view w a)
    (hg : GoodHistory z w a) (hl : LineWF w a) : GoodHistory z w' a' ∧ LineWF w' a' := by
  refine ⟨⟨?_, ?_, ?_, ?_, ?_⟩, ?_⟩
  · rw [repMapOK_view, hv, ← repMapOK_view]; exact hg.reps
  · rw [hashFaithful_view, hv, ← hashFaithful_view]; exact hg.hash
  · rw [clockOK_view, hv, ← clockOK_view]; exact hg.clock
  · rw [rootClockOK_view, hv, ← rootClockOK_view]; exact hg.root
  · rw [goodLine_view, hv, ← goodLine_view]; exact hg.line
  · have ht : (w'.board a').turn = (w.board a).turn := congrArg View.turn hv
    intro e he
    rw [lineK_view, hv, ← lineK_view, ht] at he
    exact hl e he

theorem genBoard_inv {z : ZTable} (hz : z.enpassant 0 = 0) {w : World} {b : Nat} (h : GenBoard z w b) :
    WFWorld w ∧ b < w.boards.size ∧ GoodHistory z w b ∧ LineWF w b := by
  induction h with
  | @new w pos turn np fm hw hpos hnp =>
    obtain ⟨h1, h2, h3, _, _⟩ := newBoard_facts hw z pos turn hnp fm
    exact ⟨h1, h2, h3, lineWF_newBoard w z np fm hpos⟩
  | @push w w' b m _ hm hp ih =>
    obtain ⟨hw, hb, hg, hl⟩ := ih
    obtain ⟨_, hg', hl'⟩ := draw_iff_generated_line hz hw hb hg hl hm hp
    exact ⟨wf_push hw hb hp, by rw [boards_size_push hp]; exact hb, hg', hl'⟩
  | @pop w w' b m _ hp ih =>
    obtain ⟨hw, hb, hg, hl⟩ := ih
    exact ⟨wf_pop hw hp, by rw [boards_size_pop hp]; exact hb, goodHistory_pop hw hb hp hg, lineWF_pop hw hb hl hp⟩
  | @fork w b _ ih =>
    obtain ⟨hw, hb, hg, hl⟩ := ih
    exact ⟨wf_fork hw b, by rw [fork_boards_size, fork_id]; omega, goodHistory_fork hw b hg, lineWF_fork hw b hl⟩
  | @stay w b _ ih =>
    obtain ⟨hw, hb, hg, hl⟩ := ih
    obtain ⟨hg', hl'⟩ := invariants_of_view (view_fork_old hw b hb) hg hl
    exact ⟨wf_fork hw b, by rw [fork_boards_size]; omega, hg', hl'⟩

/-- **The draw verdict after every generated move on any board descending from a well-formed set-up by generated
moves, take-backs and forks.** -/
theorem draw_iff_genBoard {z : ZTable} (hz : z.enpassant 0 = 0) {w w' : World} {b : Nat} {m : Move}
    (hgb : GenBoard z w b) (hm : m ∈ (w.cur b).pos.pseudoLegalMoves (w.board b).turn)
    (h : w.pushMove z b m = some w') : DrawVerdict w' b m := by
  obtain ⟨hw, hb, hg, hl⟩ := genBoard_inv hz hgb
  exact (draw_iff_generated_line hz hw hb hg hl hm h).1


/-- **C07 at board level**: on every such board, after any generated moves, take-backs and forks, the hash the board
maintains is the from-scratch hash of the position and side to move it has reached … -/
theorem hash_eq_scratch {z : ZTable} (hz : z.enpassant 0 = 0) {w : World} {b : Nat} (h : GenBoard z w b) :
    (w.cur b).hash = z.hash (w.cur b).pos (w.board b).turn := by
  obtain ⟨_, _, hg, _⟩ := genBoard_inv hz h
  have := hg.hash (key (w.cur b), (w.board b).turn) (by rw [lineK_head, sided_cons]; exact List.mem_cons_self)
  simpa using this

/-- … hence path-independent: two boards (any worlds, any histories, clocks) that have reached the same position
with the same side to move report the same hash. -/
theorem hash_path_independent {z : ZTable} (hz : z.enpassant 0 = 0) {w1 w2 : World} {b1 b2 : Nat}
    (h1 : GenBoard z w1 b1) (h2 : GenBoard z w2 b2) (hp : (w1.cur b1).pos = (w2.cur b2).pos)
    (ht : (w1.board b1).turn = (w2.board b2).turn) : (w1.cur b1).hash = (w2.cur b2).hash := by
  rw [hash_eq_scratch hz h1, hash_eq_scratch hz h2, hp, ht]

end Morlock.Props.C07Board

namespace Morlock.Props.C07Board
open Morlock Morlock.Model Morlock.Model.World Morlock.Proofs Morlock.Proofs.Arena Morlock.Proofs.Draw
  Morlock.Proofs.Chain Morlock.Proofs.Gen Morlock.Props.C05

/-- The premises are satisfiable: a board set up on the initial position is a `GenBoard` (for every table), and so is every
board obtained from it by generated moves, take-backs and forks. -/
example (z : ZTable) : GenBoard z (({} : World).newBoard z startPos .white 0 1).1 (({} : World).newBoard z startPos .white 0 1).2 :=
  GenBoard.new 1 wf_empty startPos_wfplay (by decide)

end Morlock.Props.C07Board
