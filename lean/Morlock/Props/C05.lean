import Morlock.Proofs.DrawSync
import Morlock.Proofs.RepExample
import Morlock.Proofs.ChainArena
/-!
# C05 — the game board reports a draw exactly when the history says so

Subject: `Morlock.Model.World.pushMove` step (3) (`Morlock/Model/Board.lean`), the transcription of the draw
logic of `Board.PushMove` in `pkg/board/board.go`, together with `identicalPositionCount`,
`updateNoProgress`, the repetition map, and `adjudicateNoLegalMoves`.

Vocabulary (`Morlock/Proofs/Draw*.lean`):

* `line w b : List Node` — the ancestor line of board `b`: current node first, following `prev` to the
  start node. `lineK w b` is the same list with the links `next`/`prev` erased (position, hash, clock).
  `sided t l` pairs the entries with the side to move there (`t` at the head, alternating) —
  `lineSides w b`; `linePositions w b` are the positions.
* `occurrences w b : Nat` — the number of entries of the *whole* line (current node and start node
  included) whose position (placement, castling rights, en-passant target: `Position` equality) and side to
  move are those of the current node.
* `RepMapOK w b` — for every hash, the repetition map holds the number of nodes of the line with that hash.
  Invariant of every reachable world (`repMap_invariant`).
* `HashFaithful z w b` — every node of the line carries `z.hash pos side`. This is what C07 gives for moves
  with accurate metadata made by the side to move (`hashFaithful_step`); `pushMove` itself accepts any move
  `Position.move` accepts, so it stays a hypothesis.
* `Irreversible w b` — no entry more than `noprogress` plies back has the current position and side. Chess
  guarantees it (a pawn move or capture cannot be undone). It is a hypothesis of `repetition_count_exact` /
  `draw_iff`, and *proved from the rules* in `irreversible_from_rules` for lines of good steps.
* `ClockOK w b` — clocks along the line are chained by `updateNoProgress` and the stored moves.
* `materialTrigger m` — `m` is a capture, or a (capture-)promotion to bishop or knight.
* `isReset m` — `m.ty` is neither `normal` nor a castling type: the moves after which `updateNoProgress`
  restarts the clock.
* `GoodStep p t m q` — in `p` (all views agree: `Rep`), with `t` to move, `m` has accurate metadata (`MetaOK`),
  moves a piece of `t`, is `MoveSound` (its type resets the clock iff a pawn moves or the destination is
  occupied; pawns move towards promotion; only pawns promote), and `p.move m = some q`. `GoodLine`: every step
  of the line is good. `GoodHistory z w b` bundles `RepMapOK`, `HashFaithful`, `ClockOK`, start clock `≥ 0`,
  `GoodLine`. `FullStep` adds `ClassOK` (typed as the rules classify it) and "no king is captured".
* `PosOK p` — views agree, `KingHome`, castling field `< 16`, exactly two kings.
* `Sync z g w b` — the reference game `g : Spec.Game` and board `b` are in lock-step (§8).

Sections: 1 result · 2 clock · 3 repetition count, pre-filter, invariants · 4 soundness / completeness ·
5 adjudication · 6 material · 7 irreversibility from the rules · 8 link to `Spec.Game.drawReasons` · 9 examples.
-/
namespace Morlock.Props.C05
open Morlock Morlock.Model Morlock.Model.World Morlock.Proofs Morlock.Proofs.Arena Morlock.Proofs.Draw
  Morlock.Proofs.Material

/-! ## 1. the result after a move is determined by three facts about the new node -/

/-- `R k`: the pre-filter passes (hash counter of the new hash ≥ 3) and `identicalPositionCount` of the new
node — side to move now, looking back `noprogress` plies — is at least `k`. -/
def RepHit (w : World) (b : Nat) (k : Int) : Prop :=
  repGet (w.board b).repetitions (w.cur b).hash ≥ 3 ∧
  w.identicalPositionCount (w.cur b) (w.board b).turn (w.board b).turn.opp (w.cur b).noprogress ≥ k

/-- `N`: the clock of the new node has reached 100. -/
def ClockHit (w : World) (b : Nat) : Prop := (w.cur b).noprogress ≥ 100

/-- `M`: the move was a capture or an under-promotion to a minor piece, and the new position has
insufficient material. -/
def MaterialHit (w : World) (b : Nat) (m : Move) : Prop :=
  materialTrigger m = true ∧ (w.cur b).pos.hasInsufficientMaterial = true

/-- **result_characterisation.** After an accepted move the result of the board is a draw iff `R 3 ∨ N ∨ M`
holds of the new node; the reason is chosen by the precedence `M` > `N` > `R 5` > `R 3`; and if none holds the
result is the zero result `{}` (not drawn — whatever the result was before the move). -/
theorem result_characterisation {w w' : World} {z : ZTable} {b : Nat} {m : Move}
    (hw : WFWorld w) (hb : b < w.boards.size) (h : w.pushMove z b m = some w') :
    ((w'.board b).result.outcome = .draw ↔ RepHit w' b 3 ∨ ClockHit w' b ∨ MaterialHit w' b m) ∧
    (MaterialHit w' b m → (w'.board b).result = { outcome := .draw, reason := .insufficientMaterial }) ∧
    (¬ MaterialHit w' b m → ClockHit w' b → (w'.board b).result = { outcome := .draw, reason := .noProgress }) ∧
    (¬ MaterialHit w' b m → ¬ ClockHit w' b → RepHit w' b 5 →
      (w'.board b).result = { outcome := .draw, reason := .repetition5 }) ∧
    (¬ MaterialHit w' b m → ¬ ClockHit w' b → RepHit w' b 3 → ¬ RepHit w' b 5 →
      (w'.board b).result = { outcome := .draw, reason := .repetition3 }) ∧
    (¬ MaterialHit w' b m → ¬ ClockHit w' b → ¬ RepHit w' b 3 → (w'.board b).result = {}) := by
  rw [push_result hw hb h, pushResult_spec]
  unfold RepHit ClockHit MaterialHit
  simp only [Bool.and_eq_true]
  by_cases hM : materialTrigger m = true ∧ (w'.cur b).pos.hasInsufficientMaterial = true
  · simp only [hM, and_self, if_true, not_true_eq_false, false_implies, implies_true, or_true]
  · rw [if_neg hM]
    by_cases hN : (w'.cur b).noprogress ≥ 100
    · simp only [hN, if_true, hM, not_false_eq_true, not_true_eq_false, false_implies,
        implies_true, or_true, true_or, and_true]
    · rw [if_neg hN]
      by_cases h5 : repGet (w'.board b).repetitions (w'.cur b).hash ≥ 3 ∧
          w'.identicalPositionCount (w'.cur b) (w'.board b).turn (w'.board b).turn.opp (w'.cur b).noprogress ≥ 5
      · have h3 : repGet (w'.board b).repetitions (w'.cur b).hash ≥ 3 ∧
            w'.identicalPositionCount (w'.cur b) (w'.board b).turn (w'.board b).turn.opp (w'.cur b).noprogress ≥ 3 :=
          ⟨h5.1, by omega⟩
        rw [if_pos h5]
        refine ⟨⟨fun _ => Or.inl h3, fun _ => rfl⟩, fun x => absurd x hM, fun _ x => absurd x hN,
          fun _ _ _ => rfl, fun _ _ _ x => absurd h5 x, fun _ _ x => absurd h3 x⟩
      · rw [if_neg h5]
        by_cases h3 : repGet (w'.board b).repetitions (w'.cur b).hash ≥ 3 ∧
            w'.identicalPositionCount (w'.cur b) (w'.board b).turn (w'.board b).turn.opp (w'.cur b).noprogress ≥ 3
        · rw [if_pos h3]
          refine ⟨⟨fun _ => Or.inl h3, fun _ => rfl⟩, fun x => absurd x hM, fun _ x => absurd x hN,
            fun _ _ x => absurd x h5, fun _ _ _ _ => rfl, fun _ _ x => absurd h3 x⟩
        · rw [if_neg h3]
          refine ⟨⟨fun x => (by cases x), fun x => ?_⟩, fun x => absurd x hM, fun _ x => absurd x hN,
            fun _ _ x => absurd x h5, fun _ _ x => absurd x h3, fun _ _ _ => rfl⟩
          rcases x with x | x | x
          · exact absurd x h3
          · exact absurd x hN
          · exact absurd x hM

/-! ## 2. the clock -/

/-- **clock_exact.** On a new board set up with clock `np0`, after the moves `ms` (all accepted) the clock
of the current node is the number of moves since the last resetting move (type neither `normal` nor
castling: pawn push or jump, en passant, capture, promotion), counting on from `np0` if there was none. -/
theorem clock_exact {w w' : World} {z : ZTable} {pos : Position} {turn : Color} {np0 fm : Int} {ms : List Move}
    (hw : WFWorld w)
    (h : pushAll z (w.newBoard z pos turn np0 fm).2 (w.newBoard z pos turn np0 fm).1 ms = some w') :
    (w'.cur (w.newBoard z pos turn np0 fm).2).noprogress =
      (if ms.any isReset then 0 else np0) + ((ms.reverse.takeWhile fun m => !isReset m).length : Nat) := by
  have hw1 := wf_newBoard hw z pos turn np0 fm
  have hb1 : (w.newBoard z pos turn np0 fm).2 < (w.newBoard z pos turn np0 fm).1.boards.size := by
    simp [World.newBoard]
  rw [pushAll_clock ms hw1 hb1 h, (newBoard_cur w z pos turn np0 fm).1, foldl_updateNoProgress]

/-- **clock_exact**, for any board whose clocks are chained (`ClockOK`: established by `newBoard`, preserved
by `pushMove`, `popMove`, `fork` — `clockOK_invariant`): the clock of the current node is the number of moves
of the line since the last resetting move, counting on from the clock of the start node if there was none.
The moves of the line, latest first, are the `next` fields of the strict ancestors. -/
theorem clock_exact_line {w : World} {b : Nat} (hc : ClockOK w b) :
    (w.cur b).noprogress =
      (if (((line w b).tail).map (·.next)).any isReset then 0 else rootClock (w.cur b).noprogress (line w b).tail) +
      (((((line w b).tail).map (·.next)).takeWhile fun m => !isReset m).length : Nat) :=
  clockChain_exact _ _ hc

/-- `ClockOK` holds on a new board and survives moves, take-backs (on that board) and forking. -/
theorem clockOK_invariant :
    (∀ (w : World) (z : ZTable) (pos : Position) (turn : Color) (np fm : Int),
      ClockOK (w.newBoard z pos turn np fm).1 (w.newBoard z pos turn np fm).2) ∧
    (∀ {w w' : World} {z : ZTable} {b : Nat} {m : Move}, WFWorld w → b < w.boards.size →
      w.pushMove z b m = some w' → ClockOK w b → ClockOK w' b) ∧
    (∀ {w w' : World} {b : Nat} {m : Move}, WFWorld w → b < w.boards.size →
      w.popMove b = some (w', m) → ClockOK w b → ClockOK w' b) ∧
    (∀ {w : World} (b : Nat), WFWorld w → ClockOK w b → ClockOK (w.fork b).1 (w.fork b).2) :=
  ⟨clockOK_newBoard, fun hw hb h hc => clockOK_push hw hb h hc, fun hw hb h hc => clockOK_pop hw hb h hc,
   fun b hw hc => clockOK_fork hw b hc⟩

/-! ## 3. the repetition count -/

/-- **repetition_count_exact.** Under hash faithfulness and irreversibility, `identicalPositionCount` of the
current node (called as `pushMove` calls it: side to move now, limit = the current clock) is the number of
nodes on the whole line — current and start included — with the same position and side to move. The loop
bound is `i ≤ limit`: the node exactly `noprogress` plies back is compared. -/
theorem repetition_count_exact {z : ZTable} {w : World} {b : Nat} (hw : WFWorld w)
    (hf : HashFaithful z w b) (hirr : Irreversible w b) :
    w.identicalPositionCount (w.cur b) (w.board b).turn (w.board b).turn.opp (w.cur b).noprogress =
      (occurrences w b : Nat) :=
  ipc_eq_occurrences hw b hf hirr

/-- Without any hypothesis `identicalPositionCount` never over-counts. -/
theorem repetition_count_le {w : World} {b : Nat} (hw : WFWorld w) (limit : Int) :
    w.identicalPositionCount (w.cur b) (w.board b).turn (w.board b).turn.opp limit ≤ (occurrences w b : Nat) :=
  ipc_le_occurrences hw b limit

/-- **The pre-filter never hides a repetition**: the hash counter of the current hash is at least the
whole-line occurrence count (so `occurrences ≥ 3 → repGet … ≥ 3`). -/
theorem prefilter_complete {z : ZTable} {w : World} {b : Nat} (hr : RepMapOK w b) (hf : HashFaithful z w b) :
    (occurrences w b : Int) ≤ repGet (w.board b).repetitions (w.cur b).hash :=
  occurrences_le_rep b hr hf

/-- **`RepMapOK` is an invariant**: it holds for every board of every world built from the empty world by
`newBoard`, `fork`, `pushMove`, `popMove`, `adjudicateNoLegalMoves` in any interleaving (`Reach`), and such
worlds are well-formed. -/
theorem repMap_invariant {z : ZTable} {w : World} (h : Reach z w) :
    WFWorld w ∧ ∀ b, b < w.boards.size → RepMapOK w b :=
  reach_inv h

/-- `RepMapOK`, operation by operation: established by `newBoard`, preserved by `pushMove`, `popMove`, `fork`
(for the board operated on / created; for all other boards nothing the draw logic reads changes). -/
theorem repMapOK_steps :
    (∀ (w : World) (z : ZTable) (pos : Position) (turn : Color) (np fm : Int),
      RepMapOK (w.newBoard z pos turn np fm).1 (w.newBoard z pos turn np fm).2) ∧
    (∀ {w w' : World} {z : ZTable} {b : Nat} {m : Move}, WFWorld w → b < w.boards.size →
      w.pushMove z b m = some w' → RepMapOK w b → RepMapOK w' b) ∧
    (∀ {w w' : World} {b : Nat} {m : Move}, WFWorld w → b < w.boards.size →
      w.popMove b = some (w', m) → RepMapOK w b → RepMapOK w' b) ∧
    (∀ {w : World} (b : Nat), WFWorld w → RepMapOK w b → RepMapOK (w.fork b).1 (w.fork b).2) :=
  ⟨repMapOK_newBoard, fun hw hb h hr => repMapOK_push hw hb h hr, fun hw hb h hr => repMapOK_pop hw hb h hr,
   fun b hw hr => repMapOK_fork hw b hr⟩

/-- **`HashFaithful` from C07**: it holds on a new board, survives take-backs and forking, and survives every
move with accurate metadata made by the side to move on a position whose views agree (`GoodMove`), for tables
with `enpassant 0 = 0`. -/
theorem hashFaithful_step :
    (∀ (w : World) (z : ZTable) (pos : Position) (turn : Color) (np fm : Int),
      HashFaithful z (w.newBoard z pos turn np fm).1 (w.newBoard z pos turn np fm).2) ∧
    (∀ {w w' : World} {z : ZTable} {b : Nat} {m : Move}, z.enpassant 0 = 0 → WFWorld w → b < w.boards.size →
      w.pushMove z b m = some w' → HashFaithful z w b → GoodMove w b m → HashFaithful z w' b) ∧
    (∀ {w w' : World} {z : ZTable} {b : Nat} {m : Move}, WFWorld w → b < w.boards.size →
      w.popMove b = some (w', m) → HashFaithful z w b → HashFaithful z w' b) ∧
    (∀ {z : ZTable} {w : World} (b : Nat), WFWorld w → HashFaithful z w b →
      HashFaithful z (w.fork b).1 (w.fork b).2) :=
  ⟨hashFaithful_newBoard, fun hz hw hb h hf hg => hashFaithful_push_good hz hw hb h hf hg,
   fun hw hb h hf => hashFaithful_pop hw hb h hf, fun b hw hf => hashFaithful_fork hw b hf⟩

/-! ## 4. soundness and completeness of the reported draw -/

/-- **draw_sound** (no hypothesis on hashes or history): a reported draw always has a cause in the history —
the whole-line occurrence count of the new position is ≥ 3, or the clock is ≥ 100, or `M`; and the reasons
`repetition3` / `repetition5` are only given with at least 3 / 5 occurrences. -/
theorem draw_sound {w w' : World} {z : ZTable} {b : Nat} {m : Move}
    (hw : WFWorld w) (hb : b < w.boards.size) (h : w.pushMove z b m = some w') :
    ((w'.board b).result.outcome = .draw → occurrences w' b ≥ 3 ∨ ClockHit w' b ∨ MaterialHit w' b m) ∧
    ((w'.board b).result.reason = .repetition3 → occurrences w' b ≥ 3) ∧
    ((w'.board b).result.reason = .repetition5 → occurrences w' b ≥ 5) ∧
    ((w'.board b).result.reason = .noProgress → ClockHit w' b) ∧
    ((w'.board b).result.reason = .insufficientMaterial → MaterialHit w' b m) ∧
    ((w'.board b).result.outcome ≠ .draw → (w'.board b).result = {}) := by
  have hw' := wf_push hw hb h
  obtain ⟨h0, hM, hN, h5, h3, hnone⟩ := result_characterisation hw hb h
  have hle := repetition_count_le (b := b) hw' (w'.cur b).noprogress
  have hrep : ∀ k : Nat, RepHit w' b k → occurrences w' b ≥ k := by
    intro k hk
    have := hk.2
    omega
  by_cases cM : MaterialHit w' b m
  · have hr := hM cM
    rw [hr]
    exact ⟨fun _ => Or.inr (Or.inr cM), fun x => (by cases x), fun x => (by cases x), fun x => (by cases x),
      fun _ => cM, fun x => absurd rfl x⟩
  · by_cases cN : ClockHit w' b
    · have hr := hN cM cN
      rw [hr]
      exact ⟨fun _ => Or.inr (Or.inl cN), fun x => (by cases x), fun x => (by cases x), fun _ => cN,
        fun x => (by cases x), fun x => absurd rfl x⟩
    · by_cases c5 : RepHit w' b 5
      · have hr := h5 cM cN c5
        rw [hr]
        have := hrep 5 c5
        exact ⟨fun _ => Or.inl (by omega), fun x => (by cases x), fun _ => this, fun x => (by cases x),
          fun x => (by cases x), fun x => absurd rfl x⟩
      · by_cases c3 : RepHit w' b 3
        · have hr := h3 cM cN c3 c5
          rw [hr]
          have := hrep 3 c3
          exact ⟨fun _ => Or.inl this, fun _ => this, fun x => (by cases x), fun x => (by cases x),
            fun x => (by cases x), fun x => absurd rfl x⟩
        · have hr := hnone cM cN c3
          rw [hr]
          exact ⟨fun x => (by cases x), fun x => (by cases x), fun x => (by cases x), fun x => (by cases x),
            fun x => (by cases x), fun _ => rfl⟩

/-- Under the three hypotheses on the line after the move, `R k` is "at least `k` occurrences on the whole
line" (`k ≥ 3`). -/
theorem repHit_iff {z : ZTable} {w : World} {b : Nat} (hw : WFWorld w) (hr : RepMapOK w b)
    (hf : HashFaithful z w b) (hirr : Irreversible w b) {k : Nat} (hk : 3 ≤ k) :
    RepHit w b k ↔ occurrences w b ≥ k := by
  unfold RepHit
  rw [repetition_count_exact hw hf hirr]
  have := prefilter_complete hr hf
  constructor
  · intro h; have := h.2; omega
  · intro h; exact ⟨by omega, by omega⟩

/-- The verdict the history dictates, read off board `b` of `w` right after the move `m`: drawn iff the
position has now occurred at least three times on the whole line (start position included), or the clock has
reached 100, or `M`; reason `insufficientMaterial` iff `M`, `noProgress` iff `N` without `M`, `repetition5`
iff ≥ 5 occurrences without `N`, `M`, `repetition3` iff 3 or 4 occurrences without `N`, `M`; and a board that
does not report a draw reports the zero result. -/
def DrawVerdict (w : World) (b : Nat) (m : Move) : Prop :=
  ((w.board b).result.outcome = .draw ↔ occurrences w b ≥ 3 ∨ ClockHit w b ∨ MaterialHit w b m) ∧
  ((w.board b).result.reason = .insufficientMaterial ↔ MaterialHit w b m) ∧
  ((w.board b).result.reason = .noProgress ↔ ClockHit w b ∧ ¬ MaterialHit w b m) ∧
  ((w.board b).result.reason = .repetition5 ↔ occurrences w b ≥ 5 ∧ ¬ ClockHit w b ∧ ¬ MaterialHit w b m) ∧
  ((w.board b).result.reason = .repetition3 ↔
    (occurrences w b = 3 ∨ occurrences w b = 4) ∧ ¬ ClockHit w b ∧ ¬ MaterialHit w b m) ∧
  ((w.board b).result.outcome ≠ .draw → (w.board b).result = {})

/-- **draw_iff** (soundness and completeness). Let the repetition map be exact before the move (an
invariant, `repMap_invariant`), and let the line after the move be hash-faithful and irreversible. Then the
board reports exactly the verdict the history dictates (`DrawVerdict`). -/
theorem draw_iff {w w' : World} {z : ZTable} {b : Nat} {m : Move}
    (hw : WFWorld w) (hb : b < w.boards.size) (h : w.pushMove z b m = some w')
    (hr : RepMapOK w b) (hf : HashFaithful z w' b) (hirr : Irreversible w' b) : DrawVerdict w' b m := by
  have hw' := wf_push hw hb h
  have hr' := repMapOK_push hw hb h hr
  obtain ⟨h0, hM, hN, h5, h3, hnone⟩ := result_characterisation hw hb h
  have e3 : RepHit w' b 3 ↔ occurrences w' b ≥ 3 := repHit_iff hw' hr' hf hirr (k := 3) (Nat.le_refl 3)
  have e5 : RepHit w' b 5 ↔ occurrences w' b ≥ 5 := repHit_iff hw' hr' hf hirr (k := 5) (by omega)
  rw [e3] at h0 h3 hnone
  rw [e5] at h5 h3
  refine ⟨h0, ?_⟩
  by_cases cM : MaterialHit w' b m
  · rw [hM cM]
    simp [cM]
  · by_cases cN : ClockHit w' b
    · rw [hN cM cN]
      simp [cM, cN]
    · by_cases c5 : occurrences w' b ≥ 5
      · rw [h5 cM cN c5]
        simp [cM, cN, c5]
        omega
      · by_cases c3 : occurrences w' b ≥ 3
        · rw [h3 cM cN c3 c5]
          simp [cM, cN, c5]
          omega
        · rw [hnone cM cN c3]
          simp [cM, cN, c5]
          omega

/-- **draw_complete.** Under the hypotheses of `draw_iff`: whenever the position just reached has occurred
three times on the whole line, or the clock has reached 100, or `M`, the board reports a draw. -/
theorem draw_complete {w w' : World} {z : ZTable} {b : Nat} {m : Move}
    (hw : WFWorld w) (hb : b < w.boards.size) (h : w.pushMove z b m = some w')
    (hr : RepMapOK w b) (hf : HashFaithful z w' b) (hirr : Irreversible w' b)
    (hc : occurrences w' b ≥ 3 ∨ ClockHit w' b ∨ MaterialHit w' b m) :
    (w'.board b).result.outcome = .draw :=
  (draw_iff hw hb h hr hf hirr).1.mpr hc

/-! ## 5. adjudication with no legal move -/

/-- **adjudicate.** `adjudicateNoLegalMoves` reports checkmate — a loss for the side to move — iff the side
to move is in check, and a stalemate draw otherwise; it writes that result on the board and changes nothing
else. -/
theorem adjudicate (w : World) (b : Nat) :
    ((w.cur b).pos.isChecked (w.board b).turn = true →
      (w.adjudicateNoLegalMoves b).2 =
        { outcome := (match (w.board b).turn with | .white => .blackWins | .black => .whiteWins),
          reason := .checkmate }) ∧
    ((w.cur b).pos.isChecked (w.board b).turn = false →
      (w.adjudicateNoLegalMoves b).2 = { outcome := .draw, reason := .stalemate }) ∧
    (((w.adjudicateNoLegalMoves b).2.reason = .checkmate ↔ (w.cur b).pos.isChecked (w.board b).turn = true) ∧
     ((w.adjudicateNoLegalMoves b).2.reason = .stalemate ↔ (w.cur b).pos.isChecked (w.board b).turn = false)) ∧
    (w.adjudicateNoLegalMoves b).1 = w.setBoard b { w.board b with result := (w.adjudicateNoLegalMoves b).2 } := by
  unfold adjudicateNoLegalMoves
  cases hc : (w.cur b).pos.isChecked (w.board b).turn <;> simp [hc]
  cases (w.board b).turn <;> rfl

/-- After adjudication the board is terminal: `pushMove` refuses every move. -/
theorem adjudicate_blocks (w : World) (z : ZTable) {b : Nat} (hb : b < w.boards.size) (m : Move) :
    (w.adjudicateNoLegalMoves b).1.pushMove z b m = none := by
  rw [pushMove_eq]
  have : pushBlocked (w.adjudicateNoLegalMoves b).1 b = true := by
    unfold pushBlocked adjudicateNoLegalMoves
    rw [setBoard_board, if_pos ⟨rfl, hb⟩]
    cases (w.cur b).pos.isChecked (w.board b).turn <;> simp
  rw [this]
  rfl

/-! ## 6. insufficient material on the mailbox board -/

/-- **material_iff.** For a position whose views agree with a mailbox board `b` (`Rep`) holding exactly two
kings, `hasInsufficientMaterial` is `insufficientB b`: the men other than the kings (`others b`, in square
order) are none; or one, a bishop or knight; or two, both bishops (of any colours) on squares of one colour —
`(file + rank) % 2` agree (this uses `GenTie.whiteSquareMask_is_a_colour`). Without the two-kings hypothesis
the statement is false: the Go code only counts men (`popCount = 2` is "insufficient" also for K+Q with the
other king missing). -/
theorem material_iff {p : Position} {b : Proofs.Board} (h : Rep p b) (hk : kingCount b = 2) :
    p.hasInsufficientMaterial = insufficientB b :=
  material_eq h hk

/-- `insufficientB`, unfolded. -/
theorem insufficientB_def (b : Proofs.Board) :
    insufficientB b =
      match others b with
      | [] => true
      | [(_, _, k)] => k = .bishop || k = .knight
      | [(s1, _, k1), (s2, _, k2)] =>
        k1 = .bishop && k2 = .bishop && ((s1 % 8 + s1 / 8) % 2 == (s2 % 8 + s2 / 8) % 2)
      | _ => false := rfl

/-- The men of `others b` are exactly the non-king men of the board, on squares `< 64`. -/
theorem others_spec {b : Proofs.Board} {x : Nat × Color × Piece} (h : x ∈ others b) :
    x.1 < 64 ∧ b x.1 = some x.2 ∧ x.2.2 ≠ .king :=
  others_mem h

/-- **material_iff, against the reference**: under the same hypotheses `hasInsufficientMaterial` is
`Spec.insufficientMaterial` of the abstraction (whoever is to move). -/
theorem material_iff_spec {p : Position} {b : Proofs.Board} (h : Rep p b) (hk : kingCount b = 2) (turn : Color) :
    p.hasInsufficientMaterial = Spec.insufficientMaterial (abs p turn) := by
  rw [material_eq h hk, spec_insufficient h turn]

/-! ## 7. irreversibility from the rules -/

/-- **The measure.** `mu b` — the sum over the 64 squares of: 1 for an officer or king, `8 - rank` for a
white pawn, `1 + rank` for a black pawn (0-based ranks, so a pawn weighs 1 + the number of steps to its
promotion rank) — is never increased by a move with accurate metadata that is `MoveSound`, and is strictly
decreased by every clock-resetting one (capture: a man disappears; pawn move: a step forward; promotion: a
pawn of weight ≥ 2 becomes an officer of weight 1). -/
theorem measure_decreases {b : Proofs.Board} {m : Move} (hout : ∀ sq, 64 ≤ sq → b sq = none)
    (hok : MetaOKb b m = true) (hs : MoveSound b m = true) :
    mu (boardAfter b m) ≤ mu b ∧ (isReset m = true → mu (boardAfter b m) < mu b) :=
  mu_boardAfter hout hok hs

/-- **irreversible_from_rules.** If every step of the line is good (`GoodLine`), the clocks are chained
(`ClockOK`) and the start clock is not negative, then no node more than `noprogress` plies back has the
current position: `Irreversible` holds. -/
theorem irreversible_from_rules {w : World} {b : Nat} (hg : GoodLine w b) (hc : ClockOK w b)
    (hr : RootClockOK w b) : Irreversible w b :=
  irreversible_of_good hg hc hr

/-- **`GoodHistory` is an invariant**: it holds on a new board set up with a clock `≥ 0`, survives every good
move (for tables with `enpassant 0 = 0`), every take-back and forking. -/
theorem goodHistory_invariant :
    (∀ (w : World) (z : ZTable) (pos : Position) (turn : Color) {np : Int} (fm : Int), 0 ≤ np →
      GoodHistory z (w.newBoard z pos turn np fm).1 (w.newBoard z pos turn np fm).2) ∧
    (∀ {w w' : World} {z : ZTable} {b : Nat} {m : Move}, z.enpassant 0 = 0 → WFWorld w → b < w.boards.size →
      w.pushMove z b m = some w' → GoodHistory z w b →
      GoodStep (w.cur b).pos (w.board b).turn m (w'.cur b).pos → GoodHistory z w' b) ∧
    (∀ {w w' : World} {z : ZTable} {b : Nat} {m : Move}, WFWorld w → b < w.boards.size →
      w.popMove b = some (w', m) → GoodHistory z w b → GoodHistory z w' b) ∧
    (∀ {w : World} {z : ZTable} (b : Nat), WFWorld w → GoodHistory z w b →
      GoodHistory z (w.fork b).1 (w.fork b).2) :=
  ⟨fun w z pos turn _ fm hnp => goodHistory_newBoard w z pos turn fm hnp,
   fun hz hw hb h hg hs => goodHistory_push hz hw hb h hg hs,
   fun hw hb h hg => goodHistory_pop hw hb h hg, fun b hw hg => goodHistory_fork hw b hg⟩

/-- **draw_iff without hypotheses on hashes or irreversibility**: on a board with a good history, after a
good move the board reports exactly the verdict the history dictates, and the history stays good. -/
theorem draw_iff_good {w w' : World} {z : ZTable} {b : Nat} {m : Move} (hz : z.enpassant 0 = 0)
    (hw : WFWorld w) (hb : b < w.boards.size) (h : w.pushMove z b m = some w') (hg : GoodHistory z w b)
    (hs : GoodStep (w.cur b).pos (w.board b).turn m (w'.cur b).pos) :
    DrawVerdict w' b m ∧ GoodHistory z w' b := by
  have hg' := goodHistory_push hz hw hb h hg hs
  exact ⟨draw_iff hw hb h hg.reps hg'.hash hg'.irreversible, hg'⟩

/-! ## 8. link to the reference `Spec.Game.drawReasons` -/

/-- The board's result against the reference's list of draw reasons: drawn iff the list is not empty, and
the reason is the one of highest precedence in the list (material > clock > five-fold > three-fold). -/
def SpecVerdict (r : Result) (dr : List Spec.DrawReason) : Prop :=
  (r.outcome = .draw ↔ dr ≠ []) ∧
  (r.reason = .insufficientMaterial ↔ Spec.DrawReason.material ∈ dr) ∧
  (r.reason = .noProgress ↔ Spec.DrawReason.noProgress ∈ dr ∧ Spec.DrawReason.material ∉ dr) ∧
  (r.reason = .repetition5 ↔
    Spec.DrawReason.repetition5 ∈ dr ∧ Spec.DrawReason.noProgress ∉ dr ∧ Spec.DrawReason.material ∉ dr) ∧
  (r.reason = .repetition3 ↔
    Spec.DrawReason.repetition3 ∈ dr ∧ Spec.DrawReason.noProgress ∉ dr ∧ Spec.DrawReason.material ∉ dr) ∧
  (r.outcome ≠ .draw → r = {})

/-- **spec_link, one move.** If board `b` is in lock-step with the reference game `g` (`Sync`) and a fully
sound move `m` is accepted, then the board stays in lock-step with `g` continued by `m`; repetition count,
half-move clock and material test of the reference are the board's `occurrences`, `noprogress` and `M`; and
the board's result is the reference's verdict (`SpecVerdict` of `drawReasons`). -/
theorem spec_link {z : ZTable} {g : Spec.Game} {w w' : World} {b : Nat} {m : Move} (hz : z.enpassant 0 = 0)
    (hw : WFWorld w) (hb : b < w.boards.size) (h : w.pushMove z b m = some w') (hs : Sync z g w b)
    (hstep : FullStep (w.cur b).pos (w.board b).turn m (w'.cur b).pos) :
    Sync z (gsnoc g (absMove m)) w' b ∧
    (gsnoc g (absMove m)).repetitions = occurrences w' b ∧
    ((gsnoc g (absMove m)).halfmove : Int) = (w'.cur b).noprogress ∧
    SpecVerdict (w'.board b).result (gsnoc g (absMove m)).drawReasons := by
  have hs' := sync_push hz hw hb h hs hstep
  obtain ⟨q1, q2, q3⟩ := sync_quantities hz hw hb h hs hstep
  refine ⟨hs', q1, q2, ?_⟩
  obtain ⟨v0, vM, vN, v5, v3, vnone⟩ := (draw_iff_good hz hw hb h hs.hist hstep.good).1
  have hN : (gsnoc g (absMove m)).halfmove ≥ 100 ↔ ClockHit w' b := by
    unfold ClockHit; rw [← q2]; omega
  have hM : ((g.current.occ (absMove m).to ||
        ((absMove m).promo.isSome && decide ((absMove m).promo ≠ some Spec.Kind.queen))) &&
      Spec.insufficientMaterial (gsnoc g (absMove m)).current) = true ↔ MaterialHit w' b m := by
    rw [q3]; unfold MaterialHit; simp
  obtain ⟨f0, fM, fN, f5, f3⟩ := reasons_facts (gsnoc g (absMove m)).repetitions
    ((gsnoc g (absMove m)).halfmove ≥ 100)
    (((g.current.occ (absMove m).to ||
        ((absMove m).promo.isSome && decide ((absMove m).promo ≠ some Spec.Kind.queen))) &&
      Spec.insufficientMaterial (gsnoc g (absMove m)).current) = true)
  rw [← drawReasons_snoc] at f0 fM fN f5 f3
  rw [q1, hN, hM] at f0
  rw [hM] at fM
  rw [hN] at fN
  rw [q1] at f5 f3
  unfold SpecVerdict
  rw [f0, fM, fN, f5, f3]
  exact ⟨v0, vM, vN, v5, v3, vnone⟩

/-- **game_link, whole games.** Set up a board on a position `pos` (`PosOK`) with half-move clock `n0`, play
the moves `ms` and then `m`, all accepted and all fully sound (`FullPlay`; decidable sufficient criterion:
`playCheck`, see `fullPlay_of_playCheck`). Then the result the board reports is the reference's verdict on the
game "start position `abs pos turn` with clock `n0`, moves `ms ++ [m]`": drawn iff `Spec.Game.drawReasons` is
not empty, with the reason of highest precedence — repetition counted over the whole game, start position
included; fifty-move rule counting on from the set-up clock; insufficient material after a capture or
under-promotion. -/
theorem game_link {z : ZTable} (hz : z.enpassant 0 = 0) {w0 w' : World} (hw0 : WFWorld w0)
    {pos : Position} (hpos : PosOK pos) (turn : Color) (n0 f : Nat) (fm : Int) {ms : List Move} {m : Move}
    (hplay : FullPlay z (w0.newBoard z pos turn (n0 : Int) fm).2 (w0.newBoard z pos turn (n0 : Int) fm).1 (ms ++ [m]))
    (h : pushAll z (w0.newBoard z pos turn (n0 : Int) fm).2 (w0.newBoard z pos turn (n0 : Int) fm).1 (ms ++ [m])
      = some w') :
    SpecVerdict (w'.board (w0.newBoard z pos turn (n0 : Int) fm).2).result
      (Spec.Game.drawReasons
        { start := { pos := abs pos turn, halfmove := n0, fullmove := f }, moves := (ms ++ [m]).map absMove }) := by
  have hw1 := wf_newBoard hw0 z pos turn (n0 : Int) fm
  have hb1 : (w0.newBoard z pos turn (n0 : Int) fm).2 < (w0.newBoard z pos turn (n0 : Int) fm).1.boards.size := by
    simp [World.newBoard]
  have hs0 := sync_newBoard w0 z turn n0 f fm hpos
  rw [pushAll_snoc] at h
  cases hms : pushAll z (w0.newBoard z pos turn (n0 : Int) fm).2 (w0.newBoard z pos turn (n0 : Int) fm).1 ms with
  | none => rw [hms] at h; cases h
  | some w1 =>
    rw [hms] at h
    simp only [Option.bind_some] at h
    obtain ⟨hp1, hlast⟩ := fullPlay_snoc ms m hplay hms
    have hwf1 := pushAll_wf ms hw1 hb1 hms
    have hs1 := sync_pushAll hz ms hw1 hb1 hms hs0 hp1
    have hlink := spec_link hz hwf1.1 (by rw [hwf1.2]; exact hb1) h hs1 (hlast w' h)
    have hg : gsnoc (gappend { start := { pos := abs pos turn, halfmove := n0, fullmove := f }, moves := [] }
          (ms.map absMove)) (absMove m) =
        { start := { pos := abs pos turn, halfmove := n0, fullmove := f }, moves := (ms ++ [m]).map absMove } := by
      unfold gsnoc gappend; simp
    rw [hg] at hlink
    exact hlink.2.2.2

/-! ## 9. the hypotheses are satisfiable -/

section Example

/-- K + N v K + N: kings on e1 / e8, knights on g1 / g8. -/
def exPl : List (Nat × Color × Piece) :=
  [(3, .white, .king), (59, .black, .king), (1, .white, .knight), (57, .black, .knight)]
def exPos : Position := (Position.newPosition exPl 0 0).getD {}
def nf3 : Move := { ty := .normal, «from» := 1, to := 18, piece := .knight }
def nf6 : Move := { ty := .normal, «from» := 57, to := 42, piece := .knight }
def ng1 : Move := { ty := .normal, «from» := 18, to := 1, piece := .knight }
def ng8 : Move := { ty := .normal, «from» := 42, to := 57, piece := .knight }
/-- 1. Nf3 Nf6 2. Ng1 Ng8 -/
def shuffle : List Move := [nf3, nf6, ng1, ng8]
/-- one board on that position, White to move, clock 0, with the sample Zobrist table of C07 -/
def wS : World := (({} : World).newBoard exZ exPos .white 0 1).1

theorem exPos_eq : Position.newPosition exPl 0 0 = some exPos := by decide +kernel

theorem exPos_ok : PosOK exPos := by
  have hv : ValidPlacements exPl := by
    intro x hx
    simp only [exPl, List.mem_cons, List.not_mem_nil, or_false] at hx
    rcases hx with rfl | rfl | rfl | rfl <;> simp
  exact ⟨(newPosition_rep hv exPos_eq).1.self, by decide +kernel, by decide +kernel, by decide +kernel⟩

/-- The knights shuffle twice: eight accepted moves; the board then reports a draw by three-fold repetition,
the start position has occurred 3 times on the line, the clock is 8; the line is hash-faithful and
irreversible (so the hypotheses of `repetition_count_exact` / `draw_iff` hold), `identicalPositionCount` and
the hash counter are both 3. Evaluated by the kernel. -/
example :
    (pushAll exZ 0 wS (shuffle ++ shuffle)).map (fun w =>
      ((w.board 0).result, occurrences w 0, (w.cur 0).noprogress)) =
    some ({ outcome := .draw, reason := .repetition3 }, 3, 8) := by decide +kernel

example :
    (pushAll exZ 0 wS (shuffle ++ shuffle)).map (fun w =>
      (w.identicalPositionCount (w.cur 0) (w.board 0).turn (w.board 0).turn.opp (w.cur 0).noprogress,
       repGet (w.board 0).repetitions (w.cur 0).hash)) = some (3, 3) ∧
    (pushAll exZ 0 wS (shuffle ++ shuffle)).all (fun w =>
      decide (HashFaithful exZ w 0) && decide (Irreversible w 0)) = true := by
  constructor <;> decide +kernel

/-- After the first shuffle (four moves) the start position has occurred twice and nothing is reported. -/
example :
    (pushAll exZ 0 wS shuffle).map (fun w => ((w.board 0).result, occurrences w 0, (w.cur 0).noprogress)) =
    some ({}, 2, 4) := by decide +kernel

/-- The eight moves pass the decidable criterion `playCheck`, so (`fullPlay_of_playCheck`) they are a
`FullPlay` on `wS`: all hypotheses of `game_link`, `spec_link`, `draw_iff_good`, `irreversible_from_rules`
hold along this game. -/
theorem ex_playCheck : playCheck exPos .white (shuffle ++ shuffle) = true := by decide +kernel

theorem ex_fullPlay : FullPlay exZ 0 wS (shuffle ++ shuffle) := by
  have hw : WFWorld wS := wf_newBoard wf_empty _ _ _ _ _
  have hb : 0 < wS.boards.size := by decide
  have hc := (newBoard_cur ({} : World) exZ exPos .white 0 1)
  apply fullPlay_of_playCheck _ hw hb
  · show PosOK (wS.cur 0).pos
    have : wS.cur 0 = { pos := exPos, noprogress := 0, hash := exZ.hash exPos .white } := hc.1
    rw [this]; exact exPos_ok
  · have h1 : wS.cur 0 = { pos := exPos, noprogress := 0, hash := exZ.hash exPos .white } := hc.1
    have h2 : (wS.board 0).turn = .white := hc.2.1
    rw [h1, h2]; exact ex_playCheck

/-- `game_link` instantiated on that game: the board's result is the reference's verdict … -/
example : ∀ w', pushAll exZ 0 wS (shuffle ++ shuffle) = some w' →
    SpecVerdict (w'.board 0).result
      (Spec.Game.drawReasons
        { start := { pos := abs exPos .white, halfmove := 0, fullmove := 1 },
          moves := (shuffle ++ shuffle).map absMove }) := by
  intro w' h
  have hsplit : shuffle ++ shuffle = (shuffle ++ [nf3, nf6, ng1]) ++ [ng8] := by decide
  have hplay := ex_fullPlay
  rw [hsplit] at hplay h ⊢
  exact game_link (z := exZ) rfl wf_empty exPos_ok .white 0 1 1 hplay h

/-- … and the reference, evaluated on its own, says: three-fold repetition, nothing else. -/
example : Spec.Game.drawReasons
    { start := { pos := abs exPos .white, halfmove := 0, fullmove := 1 },
      moves := (shuffle ++ shuffle).map absMove } = [.repetition3] := by decide +kernel

/-- `material_iff` instantiated: K + N v K + N is sufficient material, and the mailbox predicate agrees. -/
example : exPos.hasInsufficientMaterial = insufficientB exPos.square ∧ exPos.hasInsufficientMaterial = false :=
  ⟨material_iff exPos_ok.rep exPos_ok.kings, by decide +kernel⟩

/-- `adjudicate` on a concrete board: no check in the start position, so "no legal moves" would be stalemate. -/
example : (wS.adjudicateNoLegalMoves 0).2 = { outcome := .draw, reason := .stalemate } := by decide +kernel

/-- The two-kings hypothesis of `material_iff` is necessary: with a lone white king and queen (no black
king) the bitboard test says "insufficient" (two men), the mailbox predicate does not (the other man is a queen). -/
example :
    let p := (Position.newPosition [(3, .white, .king), (4, .white, .queen)] 0 0).getD {}
    p.hasInsufficientMaterial = true ∧ insufficientB p.square = false ∧ kingCount p.square = 1 := by
  decide +kernel

/-- Castling does not restart the clock, a pawn push does (`updateNoProgress`). -/
example : updateNoProgress 10 { ty := .kingSideCastle, «from» := 3, to := 1, piece := .king } = 11 ∧
    updateNoProgress 10 { ty := .push, «from» := 11, to := 19, piece := .pawn } = 0 := by decide

/-- Two bishops on squares of one colour: `6k1/8/8/8/2b5/8/3p4/3K1B2 w`, Kxd2 leaves K+B v K+B with bishops
on c4 and f1 (both light) — reported drawn for insufficient material; in `2b3k1/8/8/8/8/8/3p4/2BK4 w`, Kxd2
leaves bishops on c8 and c1 (opposite colours) — not drawn. (The colour mask is a checkerboard, not a file mask.) -/
example :
    let kxd2 : Move := { ty := .capture, «from» := 4, to := 12, piece := .king, capture := .pawn }
    let pA := (Position.newPosition
      [(57, .black, .king), (29, .black, .bishop), (12, .black, .pawn), (4, .white, .king), (2, .white, .bishop)] 0 0).getD {}
    let pB := (Position.newPosition
      [(57, .black, .king), (61, .black, .bishop), (12, .black, .pawn), (4, .white, .king), (5, .white, .bishop)] 0 0).getD {}
    ((({} : World).newBoard exZ pA .white 0 1).1.pushMove exZ 0 kxd2).map (fun w => (w.board 0).result) =
      some { outcome := .draw, reason := .insufficientMaterial } ∧
    ((({} : World).newBoard exZ pB .white 0 1).1.pushMove exZ 0 kxd2).map (fun w => (w.board 0).result) =
      some {} := by
  decide +kernel

end Example

/-! ## 10. games played with generated moves from a well-formed start position: no hypothesis on the history left

The hypotheses `GoodStep` / `GoodHistory` / `FullPlay` of §7 – §8 are *derived* here from the start position
alone, through the generator's specification (C01) and the position update (C02):
`WFplay pos turn` (`Morlock/Proofs/ChainWF.lean`) = C01 `WF pos turn` (views agree, at most one king per side,
`KingHome`, plausible en-passant target) and the side not to move is not in check. It is preserved by every
generated move that `Position.Move` accepts (`C01.wf_preserved`), and under it every generated move is a
`FullStep`. `GenPlay pos turn ms` (`Morlock/Proofs/ChainReach.lean`): each move of `ms`, played in turn from
`pos`, is in the generator output (`pseudoLegalMoves`) of the position where it is played.
-/
section Reachable
open Morlock.Proofs.Chain Morlock.Proofs.Gen

/-- **`pseudo_moveSound`.** On a well-formed position (C01 `WF`) every generated move is `MoveSound`: its type
resets the half-move clock iff a pawn moves or the destination is occupied, a pawn moves towards its promotion
rank, only pawns carry a promotion type; and it moves a piece of the side to move (the one it records). -/
theorem pseudo_moveSound {p : Position} {turn : Color} (hw : WF p turn) :
    ∀ m ∈ p.pseudoLegalMoves turn,
      MoveSound p.square m = true ∧ p.square m.from = some (turn, m.piece) :=
  fun m hm => ⟨Chain.pseudo_moveSound hw m hm, Chain.pseudo_mover hw m hm⟩

/-- **The C05 step conditions hold for every generated move.** In a `WFplay` position every generated move that
`Position.Move` accepts is a `FullStep` (so a `GoodStep`: views agree, `MetaOK`, moved by the side to move,
`MoveSound`; and `ClassOK`, no king capture), and the new position satisfies `WFplay` for the other side. -/
theorem generated_fullStep {p q : Position} {turn : Color} {m : Move} (hw : WFplay p turn)
    (hm : m ∈ p.pseudoLegalMoves turn) (hq : p.move m = some q) : FullStep p turn m q ∧ WFplay q turn.opp :=
  step_wfplay hw hm hq

/-- … hence at every position reachable from a `WFplay` position by generated moves (`GenReach`). -/
theorem reachable_fullStep {p q r : Position} {t t' : Color} {m : Move} (hw : WFplay p t)
    (hr : GenReach p t q t') (hm : m ∈ q.pseudoLegalMoves t') (hq : q.move m = some r) :
    FullStep q t' m r ∧ WFplay r t'.opp :=
  step_wfplay (reach_wfplay hw hr) hm hq

/-- The decidable criteria of §9 / C18 hold outright: `stepCheck` for every generated move of a `WFplay` position. -/
theorem generated_stepCheck {p : Position} {turn : Color} (hw : WFplay p turn) :
    ∀ m ∈ p.pseudoLegalMoves turn, stepCheck p turn m = true := stepCheck_of_wfplay hw

/-- On the arena: a generated move on a board whose current position satisfies `WFplay` (for the board's side to
move) is a `GoodMove` — in particular **the piece moved has the colour of the board's turn**. -/
theorem generated_goodMove {w : World} {b : Nat} {m : Move} (hwf : WFplay (w.cur b).pos (w.board b).turn)
    (hm : m ∈ (w.cur b).pos.pseudoLegalMoves (w.board b).turn) : GoodMove w b m :=
  ⟨⟨_, hwf.1.rep⟩, (((mem_pseudoLegalMoves hwf.1.rep hwf.1.wfb m).mp hm).metaOK_classOK hwf.1.rep hwf.1.wfb).1,
    ⟨_, Chain.pseudo_mover hwf.1 m hm⟩⟩

/-- **draw_iff, one generated move.** On a board with a good history whose current position satisfies `WFplay`,
after a generated move the board reports exactly the verdict the history dictates, the history stays good and
the new current position satisfies `WFplay`. -/
theorem draw_iff_generated {w w' : World} {z : ZTable} {b : Nat} {m : Move} (hz : z.enpassant 0 = 0)
    (hw : WFWorld w) (hb : b < w.boards.size) (hg : GoodHistory z w b)
    (hwf : WFplay (w.cur b).pos (w.board b).turn)
    (hm : m ∈ (w.cur b).pos.pseudoLegalMoves (w.board b).turn) (h : w.pushMove z b m = some w') :
    DrawVerdict w' b m ∧ GoodHistory z w' b ∧ WFplay (w'.cur b).pos (w'.board b).turn := by
  obtain ⟨hfull, hwf'⟩ := push_wfplay hw hb hwf hm h
  obtain ⟨hv, hg'⟩ := draw_iff_good hz hw hb h hg hfull.good
  exact ⟨hv, hg', hwf'⟩

/-- **`draw_iff_reachable`: the exact draw verdict for every game played with generated moves from a
well-formed start position.** Set up a board on `pos` with `turn` to move and half-move clock `np ≥ 0`, where
`WFplay pos turn`; play generated moves `ms` and then `m` (`GenPlay`), all accepted. Then the board reports
exactly the verdict the history dictates (`DrawVerdict`: drawn iff the position has occurred at least three times
on the whole line, or the clock has reached 100, or `M`; with the reasons by precedence; the zero result
otherwise). No hypothesis on hashes, irreversibility, metadata or the history is left; the invariants
(`GoodHistory`, `WFplay` of the current position) hold again after the move. -/
theorem draw_iff_reachable {z : ZTable} (hz : z.enpassant 0 = 0) {w0 w' : World} (hw0 : WFWorld w0)
    {pos : Position} {turn : Color} (hpos : WFplay pos turn) {np : Int} (hnp : 0 ≤ np) (fm : Int)
    {ms : List Move} {m : Move} (hgen : GenPlay pos turn (ms ++ [m]))
    (h : pushAll z (w0.newBoard z pos turn np fm).2 (w0.newBoard z pos turn np fm).1 (ms ++ [m]) = some w') :
    DrawVerdict w' (w0.newBoard z pos turn np fm).2 m ∧ GoodHistory z w' (w0.newBoard z pos turn np fm).2 ∧
      WFplay (w'.cur (w0.newBoard z pos turn np fm).2).pos (w'.board (w0.newBoard z pos turn np fm).2).turn := by
  obtain ⟨hw1, hb1, hg1, hp1, ht1⟩ := newBoard_facts hw0 z pos turn hnp fm
  rw [pushAll_snoc] at h
  cases hms : pushAll z (w0.newBoard z pos turn np fm).2 (w0.newBoard z pos turn np fm).1 ms with
  | none => rw [hms] at h; cases h
  | some w1 =>
    rw [hms] at h
    simp only [Option.bind_some] at h
    obtain ⟨hw, hb, hg, hwf, hgm⟩ := play_invariant hz ms [m] hw1 hb1 hg1 (by rw [hp1, ht1]; exact hpos)
      (by rw [hp1, ht1]; exact hgen) hms
    exact draw_iff_generated hz hw hb hg hwf hgm.1 h

/-- **`game_link` from the start conditions only.** With in addition the castling field holding only the four
rights bits and exactly two kings on the board (`PosOK`, needed for the material rule and for identifying
positions), the result the board reports after generated moves `ms ++ [m]` is the reference's verdict
(`Spec.Game.drawReasons`) on the game "start position `abs pos turn` with clock `n0`, moves `ms ++ [m]`". The
hypothesis `FullPlay` of `game_link` is discharged by `fullPlay_of_genPlay`. -/
theorem game_link_reachable {z : ZTable} (hz : z.enpassant 0 = 0) {w0 w' : World} (hw0 : WFWorld w0)
    {pos : Position} {turn : Color} (hpos : WFplay pos turn) (hc : pos.castling < 16)
    (hk : kingCount pos.square = 2) (n0 f : Nat) (fm : Int) {ms : List Move} {m : Move}
    (hgen : GenPlay pos turn (ms ++ [m]))
    (h : pushAll z (w0.newBoard z pos turn (n0 : Int) fm).2 (w0.newBoard z pos turn (n0 : Int) fm).1 (ms ++ [m])
      = some w') :
    SpecVerdict (w'.board (w0.newBoard z pos turn (n0 : Int) fm).2).result
      (Spec.Game.drawReasons
        { start := { pos := abs pos turn, halfmove := n0, fullmove := f }, moves := (ms ++ [m]).map absMove }) := by
  obtain ⟨hw1, hb1, _, hp1, ht1⟩ := newBoard_facts hw0 z pos turn (Int.natCast_nonneg n0) fm
  have hplay : FullPlay z (w0.newBoard z pos turn (n0 : Int) fm).2 (w0.newBoard z pos turn (n0 : Int) fm).1
      (ms ++ [m]) :=
    fullPlay_of_genPlay (ms ++ [m]) hw1 hb1 (by rw [hp1, ht1]; exact hpos) (by rw [hp1, ht1]; exact hgen)
  exact game_link hz hw0 (posOK_of_wfplay hpos hc hk) turn n0 f fm hplay h

/-- The initial position satisfies all start conditions. -/
example : WFplay startPos .white ∧ startPos.castling < 16 ∧ kingCount startPos.square = 2 :=
  ⟨startPos_wfplay, startPos_posOK.castling, startPos_posOK.kings⟩

/-- `1. Nf3 Nf6 2. Ng1 Ng8`, twice, from the initial position: generated moves (checked by evaluation). -/
theorem start_genPlay : GenPlay startPos .white (shuffle ++ shuffle) :=
  genPlay_of_check _ _ _ (by decide +kernel)

/-- `draw_iff_reachable` instantiated on the initial position: after those eight moves the board reports the
verdict of the history — and, evaluated, that verdict is a draw by three-fold repetition (3 occurrences). -/
example : ∀ w', pushAll exZ 0 (({} : World).newBoard exZ startPos .white 0 1).1 (shuffle ++ shuffle) = some w' →
    DrawVerdict w' 0 ng8 ∧ GoodHistory exZ w' 0 := by
  intro w' h
  have hsplit : shuffle ++ shuffle = (shuffle ++ [nf3, nf6, ng1]) ++ [ng8] := by decide
  have hgen := start_genPlay
  rw [hsplit] at hgen h
  have := draw_iff_reachable (z := exZ) rfl wf_empty startPos_wfplay (Int.le_refl 0) 1 hgen h
  exact ⟨this.1, this.2.1⟩

example :
    (pushAll exZ 0 (({} : World).newBoard exZ startPos .white 0 1).1 (shuffle ++ shuffle)).map (fun w =>
      ((w.board 0).result, occurrences w 0, (w.cur 0).noprogress)) =
    some ({ outcome := .draw, reason := .repetition3 }, 3, 8) := by decide +kernel

/-- `game_link_reachable` instantiated on the same game: the board's result is the reference's verdict on the
game from the initial position. -/
example : ∀ w', pushAll exZ 0 (({} : World).newBoard exZ startPos .white 0 1).1 (shuffle ++ shuffle) = some w' →
    SpecVerdict (w'.board 0).result
      (Spec.Game.drawReasons
        { start := { pos := abs startPos .white, halfmove := 0, fullmove := 1 },
          moves := (shuffle ++ shuffle).map absMove }) := by
  intro w' h
  have hsplit : shuffle ++ shuffle = (shuffle ++ [nf3, nf6, ng1]) ++ [ng8] := by decide
  have hgen := start_genPlay
  rw [hsplit] at hgen h ⊢
  exact game_link_reachable (z := exZ) rfl wf_empty startPos_wfplay startPos_posOK.castling startPos_posOK.kings
    0 1 1 hgen h

end Reachable

end Morlock.Props.C05
