import Morlock.Props.C08
import Morlock.Proofs.ForkMany
/-!
# C08, continued — any number of boards, forks of forks, adjudication

`Props/C08.lean` proves isolation for ONE fork (`fork_isolated`). Here the same for any number of boards,
forks made at any time during the run (forks of forks included) and `AdjudicateNoLegalMoves`.

Vocabulary (`Morlock/Proofs/ForkMany.lean`):

* `OpN` = `push m | pop | fork | adjudicate`; `runN z w ops` runs `ops : List (Nat × OpN)` (board id,
  operation) on the arena `w`; it is `none` iff some `PushMove` / `PopMove` returned false. A `fork`
  creates a new board whose id is the number of boards at that moment (as `World.fork` does).
* `D : Nat → Option Nat` — the boards that take part (`D b ≠ none`) and how many moves each is above its
  *floor*; `Separated w D` — they exist and are pairwise separated in `w` (no board's floor node, or
  anything above it, lies on another's chain). `separated_only`: a single participating board is always
  separated; `separated_after`: the boards at the end of an allowed run are separated again, so runs compose.
* `aboveN n D ops` — the side condition: every operation is addressed to a participating board, and no
  board is taken back below its floor. The floor of a board is the node at which it stood when the run
  started, when it was created by a fork, or when it was last forked (a fork shares everything *below*
  the current node with the new board, so the forked board's height is reset to 0 as well:
  `OpN.depth .fork _ = some 0`). This is exactly the condition `above2 0 0` of `fork_isolated`, per board;
  `pop_below_fork_clobbers` (C08) shows it cannot be dropped.
* `rootOf n ops b` / `lineOf n ops b` — the board of the initial world that `b` descends from, and the
  operations of its lineage: those addressed to its ancestors up to (and including) the fork, followed by
  its own. For a board of the initial world this is just the sub-list of the operations addressed to it
  (`lineage_initial`). `soloOps` addresses the lineage to the root.
-/
namespace Morlock.Props.C08Many
open Morlock Morlock.Model Morlock.Model.World Morlock.Proofs.Arena

/-- The lineage of board `b`, addressed to the board of the initial world it descends from. -/
def soloOps (n : Nat) (ops : List (Nat × OpN)) (b : Nat) : List (Nat × OpN) :=
  (lineOf n ops b).map fun o => (rootOf n ops b, o)

/-- For a board of the initial world, the lineage is the list of the operations addressed to it. -/
theorem lineage_initial {n b : Nat} (ops : List (Nat × OpN)) (hb : b < n) :
    rootOf n ops b = b ∧ soloOps n ops b = ops.filter (fun p => p.1 == b) := by
  obtain ⟨h1, h2⟩ := lineages_initial ops n id (fun _ => []) b hb
  have hr : rootOf n ops b = b := h1
  refine ⟨hr, ?_⟩
  unfold soloOps lineOf
  rw [hr, h2, List.nil_append]
  exact filter_map_addr b ops

/-- From the view level back to a solo run on the arena. -/
theorem solo_of_view {z : ZTable} {ws w' : World} {r b : Nat} {l : List OpN} (hws : WFWorld ws)
    (hr : r < ws.boards.size) (hw' : WFWorld w') (h : viewRunN z (view ws r) l = some (view w' b)) :
    ∃ wb, runN z ws (l.map fun o => (r, o)) = some wb ∧ view w' b = view wb r ∧ obs w' b = obs wb r ∧
      (w'.board b).result = (wb.board r).result := by
  rw [← runN_view_one l hws hr] at h
  cases hrun : runN z ws (l.map fun o => (r, o)) with
  | none => rw [hrun] at h; cases h
  | some wb =>
    rw [hrun] at h
    simp only [Option.map_some, Option.some.injEq] at h
    have hwb : WFWorld wb := by
      refine (runN_wf _ hws ?_ hrun).1
      intro p hp
      simp only [List.mem_map] at hp
      obtain ⟨o, _, rfl⟩ := hp
      exact hr
    exact ⟨wb, rfl, h.symm, obs_of_view_eq hw' hwb h.symm, (congrArg View.result h).symm⟩

/-! ## 1. the general isolation theorem -/

/-- View-level core of `isolated_many`: the final world is well-formed, its participating boards are
separated again, and every board that descends from a participating board sees exactly what the pure
view-run of its lineage, started from its root's view in the initial world, produces. -/
theorem isolated_many_view {w w' : World} {z : ZTable} {D : Nat → Option Nat} {ops : List (Nat × OpN)}
    (hw : WFWorld w) (hD : Separated w D)
    (habove : aboveN w.boards.size D ops = true)
    (hrun : runN z w ops = some w') :
    WFWorld w' ∧ w'.boards.size = boardsAfter w.boards.size ops ∧
    Separated w' (depthsAfter w.boards.size D ops) ∧
    ∀ b, b < w'.boards.size → D (rootOf w.boards.size ops b) ≠ none →
      rootOf w.boards.size ops b < w.boards.size ∧
      viewRunN z (view w (rootOf w.boards.size ops b)) (lineOf w.boards.size ops b) = some (view w' b) := by
  obtain ⟨hI, hsz⟩ := runN_inv ops (inv_init (z := z) hw hD) habove hrun
  refine ⟨hI.wf, hsz, hI.separated, ?_⟩
  intro b hb hroot
  have hact : depthsAfter w.boards.size D ops b ≠ none := by
    rw [depthsAfter_active D ops w.boards.size D id (fun _ => []) ?_ habove]
    · exact ⟨by rw [← hsz]; exact hb, hroot⟩
    · intro i
      constructor
      · intro hi
        cases hDi : D i with
        | none => exact absurd hDi hi
        | some d => exact ⟨hD.act_lt i d hDi, by simp [hDi]⟩
      · intro hi; exact hi.2
  cases hd : depthsAfter w.boards.size D ops b with
  | none => exact absurd hd hact
  | some d => exact ⟨hI.root_lt b d hd, hI.hist b d hd⟩

/-- **isolated_many.** Let `w` be a well-formed world whose participating boards `D` are separated (for
instance a single board, `separated_only`, or the boards left by a previous allowed run, `separated_after`).
Run ANY list of operations - moves, take-backs, forks, adjudications, addressed to any participating board
or to any board forked off during the run - such that no board is taken back below its floor (`aboveN`).
Then every board `b` of the final world that descends from a participating board reports exactly what the
board it descends from would report after a *solo* run in the initial world: only the operations of `b`'s
lineage (its ancestors' operations up to the fork, then its own; for a board of the initial world just the
operations addressed to it, `lineage_initial`), with nobody else touching the arena. The solo run succeeds,
all observations (`obs`: position, side to move, hash, clocks, castled flags, last moves, `hasMoved k`, the
whole repetition map, `identicalPositionCount` for all arguments, result class) and the result itself agree. -/
theorem isolated_many {w w' : World} {z : ZTable} {D : Nat → Option Nat} {ops : List (Nat × OpN)}
    (hw : WFWorld w) (hD : Separated w D)
    (habove : aboveN w.boards.size D ops = true)
    (hrun : runN z w ops = some w') :
    ∀ b, b < w'.boards.size → D (rootOf w.boards.size ops b) ≠ none →
      ∃ wb, runN z w (soloOps w.boards.size ops b) = some wb ∧
        obs w' b = obs wb (rootOf w.boards.size ops b) ∧
        (w'.board b).result = (wb.board (rootOf w.boards.size ops b)).result := by
  obtain ⟨hw', _, _, hall⟩ := isolated_many_view hw hD habove hrun
  intro b hb hroot
  obtain ⟨hr, hv⟩ := hall b hb hroot
  obtain ⟨wb, h1, _, h3, h4⟩ := solo_of_view hw hr hw' hv
  exact ⟨wb, h1, h3, h4⟩

/-- **isolated_many** for the boards of the initial world: each reports what it would report had only the
operations addressed to it been run. -/
theorem isolated_many_initial {w w' : World} {z : ZTable} {D : Nat → Option Nat} {ops : List (Nat × OpN)}
    (hw : WFWorld w) (hD : Separated w D)
    (habove : aboveN w.boards.size D ops = true)
    (hrun : runN z w ops = some w') {b : Nat} (hb : D b ≠ none) :
    ∃ wb, runN z w (ops.filter fun p => p.1 == b) = some wb ∧ obs w' b = obs wb b ∧
      (w'.board b).result = (wb.board b).result := by
  have hlt : b < w.boards.size := by
    cases hDb : D b with
    | none => exact absurd hDb hb
    | some d => exact hD.act_lt b d hDb
  obtain ⟨hroot, hsolo⟩ := lineage_initial ops hlt
  obtain ⟨_, hsz, _, _⟩ := isolated_many_view hw hD habove hrun
  have hle : w.boards.size ≤ w'.boards.size := by
    rw [hsz]; exact boardsAfter_ge ops _
  have := isolated_many hw hD habove hrun b (by omega) (by rw [hroot]; exact hb)
  rw [hroot, hsolo] at this
  exact this

/-- Runs compose: after an allowed run the participating boards are separated again (at their new
heights), and the world is well-formed, so `isolated_many` applies to a further run from there. -/
theorem separated_after {w w' : World} {z : ZTable} {D : Nat → Option Nat} {ops : List (Nat × OpN)}
    (hw : WFWorld w) (hD : Separated w D)
    (habove : aboveN w.boards.size D ops = true)
    (hrun : runN z w ops = some w') :
    WFWorld w' ∧ Separated w' (depthsAfter w.boards.size D ops) :=
  let h := isolated_many_view hw hD habove hrun
  ⟨h.1, h.2.2.1⟩

/-! ## 2. a fork of a fork -/

/-- The three participating boards of `fork_of_fork_isolated`: `b`, its fork `n`, and the fork's fork `n + 1`,
all at their floor. -/
def three (b n : Nat) : Nat → Option Nat := fun i => if i = b ∨ i = n ∨ i = n + 1 then some 0 else none

/-- After `f = fork b` and `ff = fork f` the three boards are pairwise separated. -/
theorem separated_three {w : World} {b : Nat} (hw : WFWorld w) (hb : b < w.boards.size) :
    WFWorld ((w.fork b).1.fork w.boards.size).1 ∧
    Separated ((w.fork b).1.fork w.boards.size).1 (three b w.boards.size) := by
  have h0 : Inv ⟨fun _ _ _ => 0, fun _ => 0, fun _ => 0, fun _ => 0⟩ w w (only b) id (fun _ => []) :=
    inv_init hw (separated_only hb)
  have h1 := stepN_inv_fork h0 (x := b) (d := 0) (by simp [only])
  have h2 := stepN_inv_fork h1 (x := w.boards.size) (d := 0) (by simp [upd])
  refine ⟨h2.wf, ?_⟩
  have hs := h2.separated
  have hD : upd (upd (upd (upd (only b) b (some 0)) w.boards.size (some 0)) w.boards.size (some 0))
      (w.fork b).1.boards.size (some 0) = three b w.boards.size := by
    funext i
    simp only [upd, only, three, fork_boards_size]
    by_cases e1 : i = w.boards.size + 1
    · simp [e1]
    · by_cases e2 : i = w.boards.size
      · simp [e2]
      · by_cases e3 : i = b
        · simp [e3]
        · simp [e1, e2, e3]
  rw [hD] at hs
  exact hs

/-- **fork_of_fork_isolated.** Fork board `b` (giving `f`, id `w.boards.size`), fork `f` (giving `ff`, id
`w.boards.size + 1`), then apply any interleaving of moves, take-backs, adjudications - and further forks -
to the three boards (and to the boards forked off later) in which no board is taken back below its floor.
Then each of the three reports at the end what it would report had the others not been touched at all: `b` as
if only its operations had been run in the world without any fork, `f` as if only its operations had been
run after the first fork, `ff` as if only its operations had been run after the second fork. -/
theorem fork_of_fork_isolated {w w' : World} {z : ZTable} {b : Nat} {ops : List (Nat × OpN)}
    (hw : WFWorld w) (hb : b < w.boards.size)
    (habove : aboveN (w.boards.size + 2) (three b w.boards.size) ops = true)
    (hrun : runN z ((w.fork b).1.fork (w.fork b).2).1 ops = some w') :
    (∃ wb, runN z w (ops.filter fun p => p.1 == b) = some wb ∧ obs w' b = obs wb b ∧
        (w'.board b).result = (wb.board b).result) ∧
    (∃ wf, runN z (w.fork b).1 (ops.filter fun p => p.1 == (w.fork b).2) = some wf ∧
        obs w' (w.fork b).2 = obs wf (w.fork b).2 ∧
        (w'.board (w.fork b).2).result = (wf.board (w.fork b).2).result) ∧
    (∃ wff, runN z ((w.fork b).1.fork (w.fork b).2).1
          (ops.filter fun p => p.1 == ((w.fork b).1.fork (w.fork b).2).2) = some wff ∧
        obs w' ((w.fork b).1.fork (w.fork b).2).2 = obs wff ((w.fork b).1.fork (w.fork b).2).2 ∧
        (w'.board ((w.fork b).1.fork (w.fork b).2).2).result =
          (wff.board ((w.fork b).1.fork (w.fork b).2).2).result) := by
  simp only [fork_id, fork_boards_size] at hrun ⊢
  have hw1 := wf_fork hw b
  obtain ⟨hw2, hsep⟩ := separated_three hw hb
  have hsz2 : ((w.fork b).1.fork w.boards.size).1.boards.size = w.boards.size + 2 := by
    simp only [fork_boards_size]
  rw [← hsz2] at habove
  obtain ⟨hw', hsz', _, hall⟩ := isolated_many_view hw2 hsep habove hrun
  have hle : w.boards.size + 2 ≤ w'.boards.size := by
    rw [hsz', hsz2]
    exact boardsAfter_ge ops _
  -- each of the three is a board of the world after the two forks
  have key : ∀ x, x < w.boards.size + 2 → three b w.boards.size x ≠ none →
      viewRunN z (view ((w.fork b).1.fork w.boards.size).1 x)
        ((ops.filter fun p => p.1 == x).map (·.2)) = some (view w' x) := by
    intro x hx hact
    obtain ⟨h1, h2⟩ := lineages_initial ops (w.boards.size + 2) id (fun _ => []) x hx
    have hr : rootOf (w.boards.size + 2) ops x = x := h1
    have hl : lineOf (w.boards.size + 2) ops x = (ops.filter fun p => p.1 == x).map (·.2) := by
      unfold lineOf; rw [h2, List.nil_append]
    have := (hall x (by omega) (by rw [hsz2, hr]; exact hact)).2
    rw [hsz2, hr, hl] at this
    exact this
  refine ⟨?_, ?_, ?_⟩
  · have hk := key b (by omega) (by simp [three])
    rw [view_fork_old hw1 _ (by rw [fork_boards_size]; omega), view_fork_old hw b hb] at hk
    obtain ⟨wb, h1, _, h3, h4⟩ := solo_of_view hw hb hw' hk
    rw [filter_map_addr] at h1
    exact ⟨wb, h1, h3, h4⟩
  · have hk := key w.boards.size (by omega) (by simp [three])
    rw [view_fork_old hw1 _ (by rw [fork_boards_size]; omega)] at hk
    obtain ⟨wf, h1, _, h3, h4⟩ := solo_of_view hw1 (by rw [fork_boards_size]; omega) hw' hk
    rw [filter_map_addr] at h1
    exact ⟨wf, h1, h3, h4⟩
  · have hk := key (w.boards.size + 1) (by omega) (by simp [three])
    obtain ⟨wff, h1, _, h3, h4⟩ := solo_of_view hw2 (by rw [hsz2]; omega) hw' hk
    rw [filter_map_addr] at h1
    exact ⟨wff, h1, h3, h4⟩

/-- The fork of a fork continues like the ORIGINAL would: with the hypotheses of `fork_of_fork_isolated`, the
fork's fork reports what board `b` itself would report in the world without any fork after playing the
operations addressed to the fork's fork (instance of `isolated_many` for the whole run, forks included:
`soloOps` is `fork, fork`, then those operations, all addressed to `b`). -/
theorem fork_of_fork_replays {w w' : World} {z : ZTable} {b : Nat} {ops : List (Nat × OpN)}
    (hw : WFWorld w) (hb : b < w.boards.size)
    (habove : aboveN w.boards.size (only b) ((b, .fork) :: (w.boards.size, .fork) :: ops) = true)
    (hrun : runN z ((w.fork b).1.fork (w.fork b).2).1 ops = some w') :
    ∃ wb, runN z w (soloOps w.boards.size ((b, .fork) :: (w.boards.size, .fork) :: ops) (w.boards.size + 1))
        = some wb ∧
      rootOf w.boards.size ((b, .fork) :: (w.boards.size, .fork) :: ops) (w.boards.size + 1) = b ∧
      obs w' (w.boards.size + 1) = obs wb b ∧
      (w'.board (w.boards.size + 1)).result = (wb.board b).result := by
  have hrun' : runN z w ((b, .fork) :: (w.boards.size, .fork) :: ops) = some w' := hrun
  have hroot : rootOf w.boards.size ((b, .fork) :: (w.boards.size, .fork) :: ops) (w.boards.size + 1) = b := by
    unfold rootOf
    simp only [lineages, OpN.grow]
    rw [(lineages_initial ops (w.boards.size + 1 + 1) _ _ (w.boards.size + 1) (by omega)).1]
    simp [forkUpd, upd]
  obtain ⟨hw', hsz, _, _⟩ := isolated_many_view hw (separated_only hb) habove hrun'
  have hlt : w.boards.size + 1 < w'.boards.size := by
    rw [hsz]
    simp only [boardsAfter, OpN.grow]
    have := boardsAfter_ge ops (w.boards.size + 1 + 1)
    omega
  obtain ⟨wb, h1, h2, h3⟩ := isolated_many hw (separated_only hb) habove hrun' (w.boards.size + 1) hlt
    (by rw [hroot]; simp [only])
  rw [hroot] at h2 h3
  exact ⟨wb, h1, hroot, h2, h3⟩

/-! ## 3. adjudication -/

/-- **adjudicate_isolated.** `AdjudicateNoLegalMoves` on board `b` changes nothing any other board reports -
neither its board record, nor any observation, nor its result. (Inside runs this is part of
`isolated_many`: `OpN.adjudicate` is one of the operations.) -/
theorem adjudicate_isolated {w : World} {a b : Nat} (hw : WFWorld w) (hab : b ≠ a) :
    (w.adjudicateNoLegalMoves b).1.board a = w.board a ∧
    (w.adjudicateNoLegalMoves b).1.nodes = w.nodes ∧
    obs (w.adjudicateNoLegalMoves b).1 a = obs w a ∧
    ((w.adjudicateNoLegalMoves b).1.board a).result = (w.board a).result := by
  have hbd : (w.adjudicateNoLegalMoves b).1.board a = w.board a := by
    rw [adjudicate_eq, setBoard_board, if_neg (fun c => hab c.1)]
  refine ⟨hbd, rfl, ?_, by rw [hbd]⟩
  exact obs_of_view_eq (wf_adjudicate' hw b) hw (view_adjudicate_other w hab)

/-- On the adjudicated board itself only the result changes: every other observation stays, the result is
the one returned - checkmate against the side to move if it is in check, stalemate otherwise - and the
board refuses further moves (`blocked`). -/
theorem adjudicate_own {w : World} {b : Nat} (hw : WFWorld w) (hb : b < w.boards.size) :
    obsNoResult (w.adjudicateNoLegalMoves b).1 b = obsNoResult w b ∧
    ((w.adjudicateNoLegalMoves b).1.board b).result = (w.adjudicateNoLegalMoves b).2 ∧
    (w.adjudicateNoLegalMoves b).2 = adjResult (w.cur b).pos (w.board b).turn ∧
    blocked (w.adjudicateNoLegalMoves b).1 b = true := by
  have hv := view_adjudicate_self w hb
  have hres : ((w.adjudicateNoLegalMoves b).1.board b).result = adjResult (w.cur b).pos (w.board b).turn :=
    congrArg View.result hv
  refine ⟨?_, hres, rfl, ?_⟩
  · rw [obsNoResult_eq (wf_adjudicate' hw b), obsNoResult_eq hw, hv]
    rfl
  · show blockedR ((w.adjudicateNoLegalMoves b).1.board b).result = true
    rw [hres]
    unfold adjResult
    split <;> rfl

/-! ## 4. the hypotheses are satisfiable: three boards, a fork of a fork -/

section Example
open Morlock.Props.C08

/-- Board 0 of `w0` (lone knight) is forked (board 1), the fork is forked (board 2); each of the three plays
`m0`, the first fork takes it back, and the fork's fork is adjudicated. -/
def ops3 : List (Nat × OpN) :=
  [(0, .fork), (1, .fork), (0, .push m0), (1, .push m0), (2, .push m0), (1, .pop), (2, .adjudicate)]

/-- The hypotheses of `isolated_many` hold for `ops3` on `w0`. -/
theorem ops3_ok :
    WFWorld w0 ∧ Separated w0 (only 0) ∧ aboveN w0.boards.size (only 0) ops3 = true ∧
    (runN z0 w0 ops3).isSome = true :=
  ⟨w0_wf, separated_only (by decide), by decide, by decide⟩

/-- ... and so do those of `fork_of_fork_isolated` (the same run without its two leading forks). -/
example :
    aboveN (w0.boards.size + 2) (three 0 w0.boards.size) (ops3.drop 2) = true ∧
    (runN z0 ((w0.fork 0).1.fork (w0.fork 0).2).1 (ops3.drop 2)).isSome = true :=
  ⟨by decide, by decide⟩

/-- The lineages of the three boards, computed: all descend from board 0; board 2's lineage is the two forks,
its move and its adjudication. -/
example :
    soloOps 1 ops3 0 = [(0, .fork), (0, .push m0)] ∧
    soloOps 1 ops3 1 = [(0, .fork), (0, .fork), (0, .push m0), (0, .pop)] ∧
    soloOps 1 ops3 2 = [(0, .fork), (0, .fork), (0, .push m0), (0, .adjudicate)] := by
  decide

/-- What the three boards report at the end, checked directly on the arena: the original and the fork's fork
have played `m0`, the first fork has nothing left to take back, and only the fork's fork is decided. -/
example :
    (runN z0 w0 ops3).map (fun w => decide (w.boards.size = 3 ∧
        w.lastMove 0 = some m0 ∧ w.lastMove 1 = none ∧ w.lastMove 2 = some m0 ∧
        (w.board 0).result = {} ∧ (w.board 1).result = { outcome := .undecided } ∧
        (w.board 2).result = { outcome := .draw, reason := .stalemate })) = some true := by
  decide

/-- The same by applying `isolated_many`: board 2 reports what board 0 of `w0` reports after the solo run
`fork, fork, m0, adjudicate`. -/
example : ∃ w' wb, runN z0 w0 ops3 = some w' ∧ runN z0 w0 (soloOps 1 ops3 2) = some wb ∧
    obs w' 2 = obs wb 0 ∧ (w'.board 2).result = (wb.board 0).result := by
  obtain ⟨hw, hD, habove, hsome⟩ := ops3_ok
  obtain ⟨w', hrun⟩ := Option.isSome_iff_exists.mp hsome
  have hsz : w'.boards.size = 3 := by
    rw [(isolated_many_view hw hD habove hrun).2.1]
    decide
  obtain ⟨wb, h1, h2, h3⟩ := isolated_many hw hD habove hrun 2 (by omega) (by decide)
  exact ⟨w', wb, hrun, h1, h2, h3⟩

/-- The side condition resets the height of the FORKED board too, and it has to: board 0 plays `m0`, is
forked, and takes `m0` back (below the point where it was forked, so `aboveN` is false). The fork (board 1)
then reports the zero move as its last move, not `m0`. -/
example :
    aboveN 1 (only 0) [(0, .push m0), (0, .fork), (0, .pop)] = false ∧
    aboveN 1 (only 0) [(0, .push m0), (0, .fork)] = true ∧
    (runN z0 w0 [(0, .push m0), (0, .fork)]).map (fun w => decide (w.lastMove 1 = some m0)) = some true ∧
    (runN z0 w0 [(0, .push m0), (0, .fork), (0, .pop)]).map (fun w => decide (w.lastMove 1 = some {})) = some true := by
  decide

/-- Two independent games (`NewBoard` twice) are separated, so `isolated_many` applies to worlds with
several unrelated boards as well. -/
example : WFWorld ((w0.newBoard z0 pos0 .black 3 7).1) ∧
    Separated ((w0.newBoard z0 pos0 .black 3 7).1) (upd (only 0) 1 (some 0)) :=
  ⟨wf_newBoard w0_wf _ _ _ _ _, separated_newBoard w0_wf (separated_only (by decide)) _ _ _ _ _⟩

end Example

end Morlock.Props.C08Many
