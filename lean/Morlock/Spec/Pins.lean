import Morlock.Spec.Chess
/-!
# Reference semantics of pins and of "who attacks this square", on the mailbox board

Written with no regard for how the Go code works (no bitboards, no rotated occupancy, no attack tables): rays are
walked one step at a time by `Spec.ray`.

* A **pin** on `target` (a man of `side`): looking from `target` along one of the eight directions, the first man
  seen is a man of `side` (the *pinned* one); with that man lifted from the board, the first man seen along the same
  direction is an enemy queen, or an enemy rook (orthogonal directions) / bishop (diagonal directions): the *attacker*.
* The **direct attackers** of a square: the men of `side` that attack it by the rules (`pawnTargets`, `officerTargets`),
  except those a given predicate declares pinned away from it.
-/
namespace Morlock.Spec

/-- the first man seen from `sq` in direction `(df, dr)`: the last square of the ray, if it is occupied -/
def firstPiece (occ : Sq → Bool) (sq : Sq) (df dr : Int) : Option Sq :=
  match (ray occ sq df dr 8).getLast? with
  | some s => if occ s then some s else none
  | none => none

/-- the occupancy with the man on `f` lifted -/
def lifted (occ : Sq → Bool) (f : Sq) : Sq → Bool := fun s => occ s && decide (s ≠ f)

/-- the pin on `target` along direction `d`, if any: `(attacker, pinned, target)` -/
def pinOnRay (p : Pos) (side : Color) (slider : Kind) (target : Sq) (d : Int × Int) : Option (Sq × Sq × Sq) :=
  match firstPiece p.occ target d.1 d.2 with
  | none => none
  | some f =>
    match p.at f with
    | some (c, _) =>
      if c = side then
        match firstPiece (lifted p.occ f) target d.1 d.2 with
        | none => none
        | some a =>
          match p.at a with
          | some (c', k) => if c' = side.opp ∧ (k = .queen ∨ k = slider) then some (a, f, target) else none
          | none => none
      else none
    | none => none

/-- all pins on the men of kind `kind` of `side`: `(attacker, pinned, target)` -/
def specPins (p : Pos) (side : Color) (kind : Kind) : List (Sq × Sq × Sq) :=
  allSquares.flatMap fun t =>
    if p.at t = some (side, kind) then
      rookDirs.filterMap (pinOnRay p side .rook t) ++ bishopDirs.filterMap (pinOnRay p side .bishop t)
    else []

/-- does the man of colour `c` and kind `k` on `s` attack `t`? -/
def attacksSq (p : Pos) (c : Color) (k : Kind) (s t : Sq) : Bool :=
  if k = .pawn then (pawnTargets c s).contains t else (officerTargets p.occ k s).contains t

/-- the squares of the men of `side` that attack `t`, except those `pinned` declares pinned away from `t` -/
def specDirect (p : Pos) (pinned : Sq → Bool) (t : Sq) (side : Color) : List Sq :=
  allSquares.filter fun s =>
    match p.at s with
    | some (c, k) => decide (c = side) && !pinned s && attacksSq p c k s t
    | none => false

end Morlock.Spec
