import Morlock.Spec.Chess
/-!
# Reference FEN reader / writer (standard grammar only)

Strict: eight ranks separated by `/`, each describing exactly eight squares with digits 1–8 and
piece letters, `w|b`, rights as a subsequence of `KQkq` or `-`, target square or `-`, two decimal
natural numbers. Used to hand positions to the reference semantics and to state C14.
-/
namespace Morlock.Spec

def kindLetter : Kind → Char
  | .pawn => 'p' | .bishop => 'b' | .knight => 'n' | .rook => 'r' | .queen => 'q' | .king => 'k'

def cellChar : Color × Kind → Char
  | (.white, k) => (kindLetter k).toUpper
  | (.black, k) => kindLetter k

def charCell (c : Char) : Option (Color × Kind) :=
  match c with
  | 'P' => some (.white, .pawn) | 'B' => some (.white, .bishop) | 'N' => some (.white, .knight)
  | 'R' => some (.white, .rook) | 'Q' => some (.white, .queen) | 'K' => some (.white, .king)
  | 'p' => some (.black, .pawn) | 'b' => some (.black, .bishop) | 'n' => some (.black, .knight)
  | 'r' => some (.black, .rook) | 'q' => some (.black, .queen) | 'k' => some (.black, .king)
  | _ => none

/-- One rank string, a-file first, to eight cells (a-file first). -/
def parseRankStr (s : List Char) : Option (List (Option (Color × Kind))) :=
  let cells := s.foldl (fun (acc : Option (List (Option (Color × Kind)))) c =>
    match acc with
    | none => none
    | some l =>
      if '1' ≤ c && c ≤ '8' then some (l ++ List.replicate (c.toNat - '0'.toNat) none)
      else match charCell c with
        | some x => some (l ++ [some x])
        | none => none) (some [])
  match cells with
  | some l => if l.length = 8 then some l else none
  | none => none

def fileLetter (f : Nat) : Char := Char.ofNat ('a'.toNat + (7 - f))

def sqName (sq : Sq) : String := (String.singleton (fileLetter (fileOf sq))) ++ toString (rankOf sq + 1)

def parseSqName (s : List Char) : Option Sq :=
  match s with
  | [f, r] =>
    if 'a' ≤ f && f ≤ 'h' && '1' ≤ r && r ≤ '8' then
      some (mkSq (7 - (f.toNat - 'a'.toNat)) (r.toNat - '1'.toNat))
    else none
  | _ => none

def parseNat (s : List Char) : Option Nat :=
  if s.isEmpty || !(s.all fun c => '0' ≤ c && c ≤ '9') then none
  else some (s.foldl (fun acc c => acc * 10 + (c.toNat - '0'.toNat)) 0)

structure FenGame where
  pos : Pos
  halfmove : Nat
  fullmove : Nat
deriving DecidableEq, Repr, Inhabited

def parseFen (s : String) : Option FenGame :=
  match s.splitOn " " with
  | [pl, turn, rights, ep, hm, fm] => do
    let ranks := pl.splitOn "/"
    if ranks.length ≠ 8 then none
    -- ranks come 8th first; within a rank the a-file first. Cell index = 8*rank + fileIdx, h = 0.
    let rows ← ranks.mapM fun r => parseRankStr r.toList
    -- rows[0] is rank 8 (index 7)
    let cells : List (Option (Color × Kind)) := (rows.reverse.map fun row => row.reverse).flatten
    let t ← match turn with | "w" => some Color.white | "b" => some Color.black | _ => none
    let rl := rights.toList
    let okRights := rights = "-" || (rl ≠ [] && rl.all (fun c => c = 'K' || c = 'Q' || c = 'k' || c = 'q') &&
      (rl.filter (· = 'K')).length ≤ 1 && (rl.filter (· = 'Q')).length ≤ 1 &&
      (rl.filter (· = 'k')).length ≤ 1 && (rl.filter (· = 'q')).length ≤ 1)
    if !okRights then none
    let e ← if ep = "-" then some none else (parseSqName ep.toList).map some
    let h ← parseNat hm.toList
    let f ← parseNat fm.toList
    pure { pos := { board := cells.toArray, turn := t, wk := rl.contains 'K', wq := rl.contains 'Q',
                    bk := rl.contains 'k', bq := rl.contains 'q', ep := e },
           halfmove := h, fullmove := f }
  | _ => none

def printPlacement (p : Pos) : String :=
  let rankStr (r : Nat) : String :=
    let (s, blanks) := (List.range 8).foldl (fun (acc : String × Nat) i =>
      match p.at (mkSq (7 - i) r) with
      | none => (acc.1, acc.2 + 1)
      | some x => ((if acc.2 > 0 then acc.1 ++ toString acc.2 else acc.1).push (cellChar x), 0)) ("", 0)
    if blanks > 0 then s ++ toString blanks else s
  String.intercalate "/" ((List.range 8).map fun i => rankStr (7 - i))

def printRights (p : Pos) : String :=
  let s := (if p.wk then "K" else "") ++ (if p.wq then "Q" else "") ++ (if p.bk then "k" else "") ++ (if p.bq then "q" else "")
  if s = "" then "-" else s

/-- placement, side, rights, target — the four fields that identify a position for repetition. -/
def printPosKey (p : Pos) : String :=
  let ep := match p.ep with | some s => sqName s | none => "-"
  s!"{printPlacement p} {match p.turn with | .white => "w" | .black => "b"} {printRights p} {ep}"

def printFen (g : FenGame) : String := s!"{printPosKey g.pos} {g.halfmove} {g.fullmove}"

def moveName (m : SMove) : String :=
  sqName m.from ++ sqName m.to ++ (match m.promo with | some k => String.singleton (kindLetter k) | none => "")

end Morlock.Spec
