import Morlock.Spec.Fen
/-!
# Reference semantics of a game history (C05, C08, C14)

A game is a start position with its clocks and the list of moves played; everything a board
reports is *recomputed from the whole history*: standard clocks, repetition count over the whole
line (start position included), fifty-move rule, insufficient material.
-/
namespace Morlock.Spec

structure Game where
  start : FenGame
  moves : List SMove := []      -- oldest first
deriving DecidableEq, Repr, Inhabited

/-- All positions of the line, start first. -/
def Game.positions (g : Game) : List Pos :=
  g.moves.foldl (fun (acc : List Pos) m => acc ++ [apply (acc.getLastD g.start.pos) m]) [g.start.pos]

def Game.current (g : Game) : Pos := g.positions.getLastD g.start.pos

def isPawnMoveOrCapture (p : Pos) (m : SMove) : Bool :=
  match p.at m.from with
  | some (_, .pawn) => true
  | _ => p.occ m.to

/-- Half-move clock: half-moves since the last pawn move or capture, counting on from the set-up clock. -/
def Game.halfmove (g : Game) : Nat :=
  (g.moves.foldl (fun (acc : Pos × Nat) m =>
    (apply acc.1 m, if isPawnMoveOrCapture acc.1 m then 0 else acc.2 + 1)) (g.start.pos, g.start.halfmove)).2

/-- Full-move number: incremented after each Black move. -/
def Game.fullmove (g : Game) : Nat :=
  (g.moves.foldl (fun (acc : Pos × Nat) m =>
    (apply acc.1 m, if acc.1.turn = .black then acc.2 + 1 else acc.2)) (g.start.pos, g.start.fullmove)).2

def Game.fen (g : Game) : String := printFen { pos := g.current, halfmove := g.halfmove, fullmove := g.fullmove }

/-- How often the current position (placement, side, rights, target) has occurred in the whole line. -/
def Game.repetitions (g : Game) : Nat := (g.positions.filter (· == g.current)).length

def squareIsLight (sq : Sq) : Bool := (fileOf sq + rankOf sq) % 2 == 0

def men (p : Pos) : List (Sq × Color × Kind) :=
  allSquares.filterMap fun s => (p.at s).map fun (c, k) => (s, c, k)

/-- K v K, K + minor v K, or kings with two bishops on squares of one colour. -/
def insufficientMaterial (p : Pos) : Bool :=
  let ms := men p
  let others := ms.filter fun (_, _, k) => k ≠ .king
  match others with
  | [] => true
  | [(_, _, k)] => k = .bishop || k = .knight
  | [(s1, _, k1), (s2, _, k2)] => k1 = .bishop && k2 = .bishop && squareIsLight s1 == squareIsLight s2
  | _ => false

inductive DrawReason | repetition3 | repetition5 | noProgress | material
deriving DecidableEq, Repr, Inhabited

/-- The draw conditions of C05 that hold right after the last move of the line. -/
def Game.drawReasons (g : Game) : List DrawReason :=
  match g.moves.getLast? with
  | none => []
  | some m =>
    let before := (g.positions.dropLast).getLastD g.start.pos
    let n := g.repetitions
    (if n ≥ 5 then [.repetition5] else if n ≥ 3 then [.repetition3] else []) ++
    (if g.halfmove ≥ 100 then [.noProgress] else []) ++
    (if (before.occ m.to || (m.promo.isSome && m.promo ≠ some .queen)) && insufficientMaterial g.current
      then [.material] else [])

def Game.hasCastled (g : Game) (c : Color) : Bool :=
  (g.moves.foldl (fun (acc : Pos × Bool) m =>
    (apply acc.1 m, acc.2 || (acc.1.turn = c && isCastle acc.1 m))) (g.start.pos, false)).2

/-- Squares moved to by the last `limit` moves that are occupied now. -/
def Game.hasMoved (g : Game) (limit : Nat) : List Sq :=
  let tos := (g.moves.reverse.take limit).map (·.to)
  (allSquares.filter fun s => tos.contains s && g.current.occ s)

end Morlock.Spec
