import Morlock.Spec.Pins
/-!
# Reference semantics of SARGON's attacker stacks ("x-ray chains"), on the mailbox board

`cmd/sargon/sargon/exchange.go` documents an `Attacker` as "a non-pinned attacker of some square. The attacker may potentially
have others stacked behind it. For example, if we have Rook -> Queen -> Target then the Rook is "behind" the queen. The Rook can
only attack after the Queen has attacked in an exchange", and: "nobody can be behind the King in an exchange".

Written with no regard for how the Go code works (no bitboards, no rotated occupancy, no "newly visible squares"): starting
on the square of the front attacker one walks **away from the target**, one step at a time, along the line through target and
attacker. Empty squares are passed over. The first man met joins the stack if it is

* of the **same side** as the front attacker,
* a man that moves along that line: a **queen**, or a **rook** on a rank or file / a **bishop** on a diagonal
  (never a pawn, even on the diagonal on which it captures; never a king),
* and **not pinned** away from the target (the predicate `pinned`),

and then the walk goes on behind it. The first man that does not qualify ends the stack (so nothing standing behind an
enemy man, a knight, a pawn, a king, a rook on a diagonal, a pinned man … is ever looked at). A king has nobody behind it;
a knight stands on no line with its target.
-/
namespace Morlock.Spec

/-- The line through the target `t` and a man on `f`: its kind (`rook` = rank or file, `bishop` = diagonal) and the unit step
    that leads from `t` towards `f` (and on, away from `t`); `none` if the two squares are not on one line. -/
def lineDir (t f : Sq) : Option (Kind × Int × Int) :=
  let df : Int := (fileOf f : Int) - (fileOf t : Int)
  let dr : Int := (rankOf f : Int) - (rankOf t : Int)
  if df = 0 ∧ dr = 0 then none
  else if df = 0 ∨ dr = 0 then some (.rook, df.sign, dr.sign)
  else if df = dr ∨ df = -dr then some (.bishop, df.sign, dr.sign)
  else none

/-- walk from `s` (exclusive) in direction `(df, dr)`; `slider` is the rook or bishop of the line -/
def xrayWalk (p : Pos) (pinned : Sq → Bool) (side : Color) (slider : Kind) (df dr : Int) : Nat → Sq → List (Sq × Kind)
  | 0, _ => []
  | n + 1, s =>
    match step s df dr with
    | none => []
    | some s' =>
      match p.at s' with
      | none => xrayWalk p pinned side slider df dr n s'
      | some (c, k) =>
        if c = side ∧ (k = .queen ∨ k = slider) ∧ pinned s' = false then
          (s', k) :: xrayWalk p pinned side slider df dr n s'
        else []

/-- **The stack behind the attacker standing on `f`** of the target `t`: squares and kinds, nearest first. -/
def specStack (p : Pos) (pinned : Sq → Bool) (t : Sq) (side : Color) (f : Sq) : List (Sq × Kind) :=
  match p.at f with
  | some (_, .king) => []
  | _ =>
    match lineDir t f with
    | none => []
    | some (slider, df, dr) => xrayWalk p pinned side slider df dr 8 f

/-- All attackers of `t` with their stacks: the direct attackers (`specDirect`), each with `specStack`. -/
def specAttackers (p : Pos) (pinned : Sq → Bool) (t : Sq) (side : Color) : List (Sq × List (Sq × Kind)) :=
  (specDirect p pinned t side).map fun f => (f, specStack p pinned t side f)

end Morlock.Spec
