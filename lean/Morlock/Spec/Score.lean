import Morlock.Model.Score
/-!
# Reference order on scores (C09)

`rank` embeds the documented chain
`lost < mated sooner < mated later < heuristics < mating later < mating sooner < won` into `Int`.
-/
namespace Morlock.Spec
open Morlock.Model

/-- Scores the constructors can build (Invalid and NaN excluded). -/
def Valid (s : Score) : Prop :=
  match s.ty with
  | .heuristic => s.mate = 0 ∧ -2147483648 < s.pawns ∧ s.pawns < 2147483648
  | .mateInX => s.pawns = 0 ∧ s.mate ≠ 0 ∧ -128 ≤ s.mate ∧ s.mate ≤ 127
  | .inf | .negInf => s.mate = 0 ∧ s.pawns = 0
  | .invalid => False

instance (s : Score) : Decidable (Valid s) := by unfold Valid; split <;> infer_instance

/-- Order embedding of the documented chain. -/
def rank (s : Score) : Int :=
  match s.ty with
  | .negInf => -1099511627776
  | .mateInX => if s.mate < 0 then -34359738368 - s.mate else 34359738368 - s.mate
  | .heuristic => s.pawns
  | .inf => 1099511627776
  | .invalid => 0

/-- `int8` has no `+128`: negation is order-reversing away from `Mate = -128`. -/
def NoMin (s : Score) : Prop := s.ty = .mateInX → s.mate ≠ -128
instance (s : Score) : Decidable (NoMin s) := by unfold NoMin; infer_instance

/-- Mate distances that can still be incremented inside `int8`. -/
def Incable (s : Score) : Prop := s.ty = .mateInX → -127 ≤ s.mate ∧ s.mate ≤ 126
instance (s : Score) : Decidable (Incable s) := by unfold Incable; infer_instance

end Morlock.Spec
