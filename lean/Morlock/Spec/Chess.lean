/-!
# Reference semantics of chess (FIDE Laws, articles 3 and 5), on a mailbox board

Written with no regard for how the Go code works: a board is 64 optional (colour, piece) cells,
rays are walked one step at a time in (file, rank) coordinates. Only the *numbering* of squares
is shared with the implementation, so that positions can be compared: `sq = 8·rank + fileIdx`,
`fileIdx = 0` is the h-file … `7` is the a-file, `rank = 0` is White's first rank.
-/
namespace Morlock.Spec

inductive Color | white | black
deriving DecidableEq, Repr, Inhabited

def Color.opp : Color → Color
  | .white => .black
  | .black => .white

inductive Kind | pawn | bishop | knight | rook | queen | king
deriving DecidableEq, Repr, Inhabited

abbrev Sq := Nat

structure Pos where
  board : Array (Option (Color × Kind))   -- 64 cells
  turn : Color
  /-- castling rights: White king-side, White queen-side, Black king-side, Black queen-side -/
  wk : Bool
  wq : Bool
  bk : Bool
  bq : Bool
  ep : Option Sq
deriving DecidableEq, Repr, Inhabited

def fileOf (sq : Sq) : Nat := sq % 8
def rankOf (sq : Sq) : Nat := sq / 8
def mkSq (f r : Nat) : Sq := 8 * r + f

def Pos.at (p : Pos) (sq : Sq) : Option (Color × Kind) := p.board.getD sq none

/-- One step on the 8×8 grid; `none` off the board. -/
def step (sq : Sq) (df dr : Int) : Option Sq :=
  let f : Int := (fileOf sq : Nat) + df
  let r : Int := (rankOf sq : Nat) + dr
  if 0 ≤ f ∧ f < 8 ∧ 0 ≤ r ∧ r < 8 then some (mkSq f.toNat r.toNat) else none

/-- Squares on a ray from `sq` (exclusive) until the edge or the first occupied square (inclusive). -/
def ray (occ : Sq → Bool) (sq : Sq) (df dr : Int) : Nat → List Sq
  | 0 => []
  | fuel + 1 =>
    match step sq df dr with
    | none => []
    | some s => if occ s then [s] else s :: ray occ s df dr fuel

def rookDirs : List (Int × Int) := [(1, 0), (-1, 0), (0, 1), (0, -1)]
def bishopDirs : List (Int × Int) := [(1, 1), (1, -1), (-1, 1), (-1, -1)]
def knightJumps : List (Int × Int) := [(1, 2), (2, 1), (2, -1), (1, -2), (-1, -2), (-2, -1), (-2, 1), (-1, 2)]
def kingSteps : List (Int × Int) := rookDirs ++ bishopDirs

/-- The squares an officer of the given kind on `sq` attacks, given the occupancy. -/
def officerTargets (occ : Sq → Bool) (k : Kind) (sq : Sq) : List Sq :=
  match k with
  | .knight => knightJumps.filterMap fun (df, dr) => step sq df dr
  | .king => kingSteps.filterMap fun (df, dr) => step sq df dr
  | .rook => rookDirs.flatMap fun (df, dr) => ray occ sq df dr 8
  | .bishop => bishopDirs.flatMap fun (df, dr) => ray occ sq df dr 8
  | .queen => (rookDirs ++ bishopDirs).flatMap fun (df, dr) => ray occ sq df dr 8
  | .pawn => []

/-- Forward direction of a colour's pawns. -/
def fwd : Color → Int
  | .white => 1
  | .black => -1

/-- The (up to two) squares a pawn of colour `c` on `sq` attacks. -/
def pawnTargets (c : Color) (sq : Sq) : List Sq :=
  [step sq 1 (fwd c), step sq (-1) (fwd c)].filterMap id

def Pos.occ (p : Pos) (sq : Sq) : Bool := (p.at sq).isSome

def allSquares : List Sq := List.range 64

/-- Does a piece of colour `by` attack square `sq`? (En passant is not an attack on a square.) -/
def attackedBy (p : Pos) (c : Color) (sq : Sq) : Bool :=
  allSquares.any fun s =>
    match p.at s with
    | some (c', k) =>
      c' = c && (if k = .pawn then (pawnTargets c s).contains sq else (officerTargets p.occ k s).contains sq)
    | none => false

def kingSquare? (p : Pos) (c : Color) : Option Sq :=
  allSquares.find? fun s => p.at s = some (c, .king)

def inCheck (p : Pos) (c : Color) : Bool :=
  match kingSquare? p c with
  | some s => attackedBy p c.opp s
  | none => false

/-- A move as the rules see it: origin, destination, promotion piece. -/
structure SMove where
  «from» : Sq
  to : Sq
  promo : Option Kind := none
deriving DecidableEq, Repr, Inhabited

def promoKinds : List Kind := [.queen, .rook, .knight, .bishop]

def lastRank : Color → Nat
  | .white => 7
  | .black => 0

def startRank : Color → Nat
  | .white => 1
  | .black => 6

def homeRank : Color → Nat
  | .white => 0
  | .black => 7

-- file indices (h = 0 … a = 7)
def fA : Nat := 7
def fB : Nat := 6
def fC : Nat := 5
def fD : Nat := 4
def fE : Nat := 3
def fF : Nat := 2
def fG : Nat := 1
def fH : Nat := 0

def Pos.right (p : Pos) (c : Color) (kingSide : Bool) : Bool :=
  match c, kingSide with
  | .white, true => p.wk | .white, false => p.wq | .black, true => p.bk | .black, false => p.bq

/-- Moves of the side to move that obey the piece movement rules (article 3), before the
    "own king not left in check" condition. Castling here already requires: right present, king
    and rook on their home squares, squares between them empty. -/
def pseudoMoves (p : Pos) : List SMove :=
  let c := p.turn
  allSquares.flatMap fun s =>
    match p.at s with
    | some (c', k) =>
      if c' ≠ c then [] else
      match k with
      | .pawn =>
        let withPromo (t : Sq) : List SMove :=
          if rankOf t = lastRank c then promoKinds.map fun k => ⟨s, t, some k⟩ else [⟨s, t, none⟩]
        let pushes : List SMove :=
          match step s 0 (fwd c) with
          | some t =>
            if p.occ t then [] else
              withPromo t ++
              (if rankOf s = startRank c then
                match step t 0 (fwd c) with
                | some t2 => if p.occ t2 then [] else [⟨s, t2, none⟩]
                | none => []
               else [])
          | none => []
        let caps : List SMove :=
          (pawnTargets c s).flatMap fun t =>
            match p.at t with
            | some (c2, _) => if c2 = c.opp then withPromo t else []
            | none => if p.ep = some t then [⟨s, t, none⟩] else []
        pushes ++ caps
      | _ =>
        let normal : List SMove :=
          (officerTargets p.occ k s).filterMap fun t =>
            match p.at t with
            | some (c2, _) => if c2 = c then none else some ⟨s, t, none⟩
            | none => some ⟨s, t, none⟩
        let castles : List SMove :=
          if k = .king ∧ s = mkSq fE (homeRank c) then
            (if p.right c true ∧ p.at (mkSq fH (homeRank c)) = some (c, .rook) ∧
                ¬ p.occ (mkSq fF (homeRank c)) ∧ ¬ p.occ (mkSq fG (homeRank c))
              then [⟨s, mkSq fG (homeRank c), none⟩] else []) ++
            (if p.right c false ∧ p.at (mkSq fA (homeRank c)) = some (c, .rook) ∧
                ¬ p.occ (mkSq fD (homeRank c)) ∧ ¬ p.occ (mkSq fC (homeRank c)) ∧ ¬ p.occ (mkSq fB (homeRank c))
              then [⟨s, mkSq fC (homeRank c), none⟩] else [])
          else []
        normal ++ castles
    | none => []

def isCastle (p : Pos) (m : SMove) : Bool :=
  match p.at m.from with
  | some (_, .king) => (fileOf m.from = fE) && (fileOf m.to = fG || fileOf m.to = fC) && rankOf m.from = rankOf m.to
  | _ => false

def isEnPassant (p : Pos) (m : SMove) : Bool :=
  match p.at m.from with
  | some (_, .pawn) => fileOf m.from ≠ fileOf m.to && !(p.occ m.to)
  | _ => false

def isDoubleStep (p : Pos) (m : SMove) : Bool :=
  match p.at m.from with
  | some (_, .pawn) => (rankOf m.from + 2 = rankOf m.to) || (rankOf m.to + 2 = rankOf m.from)
  | _ => false

def setCell (b : Array (Option (Color × Kind))) (sq : Sq) (v : Option (Color × Kind)) :=
  b.setIfInBounds sq v

/-- The position after a (pseudo-legal) move. -/
def apply (p : Pos) (m : SMove) : Pos :=
  match p.at m.from with
  | none => p
  | some (c, k) =>
    let b := p.board
    -- en passant: remove the pawn that has just made the double step
    let b := if isEnPassant p m then setCell b (mkSq (fileOf m.to) (rankOf m.from)) none else b
    -- castling: the rook hops over the king
    let b :=
      if isCastle p m then
        if fileOf m.to = fG then
          setCell (setCell b (mkSq fH (rankOf m.from)) none) (mkSq fF (rankOf m.from)) (some (c, .rook))
        else
          setCell (setCell b (mkSq fA (rankOf m.from)) none) (mkSq fD (rankOf m.from)) (some (c, .rook))
      else b
    let b := setCell b m.from none
    let b := setCell b m.to (some (c, match m.promo with | some pk => pk | none => k))
    -- castling rights go when the king or a rook leaves, or anything lands on, a home square
    let touches (sq : Sq) : Bool := m.from = sq || m.to = sq
    { board := b
      turn := c.opp
      wk := p.wk && !(touches (mkSq fE 0)) && !(touches (mkSq fH 0))
      wq := p.wq && !(touches (mkSq fE 0)) && !(touches (mkSq fA 0))
      bk := p.bk && !(touches (mkSq fE 7)) && !(touches (mkSq fH 7))
      bq := p.bq && !(touches (mkSq fE 7)) && !(touches (mkSq fA 7))
      ep := if isDoubleStep p m then some (mkSq (fileOf m.from) ((rankOf m.from + rankOf m.to) / 2)) else none }

/-- Article 3.8/3.9: castling is not allowed out of, through or into check; no move may leave
    the mover's king attacked. -/
def isLegal (p : Pos) (m : SMove) : Bool :=
  let c := p.turn
  (if isCastle p m then
    !(inCheck p c) && !(attackedBy p c.opp (mkSq ((fileOf m.from + fileOf m.to) / 2) (rankOf m.from)))
   else true) &&
  !(inCheck (apply p m) c)

def legalMoves (p : Pos) : List SMove := (pseudoMoves p).filter (isLegal p)

def perft : Nat → Pos → Nat
  | 0, _ => 1
  | d + 1, p => (legalMoves p).foldl (fun acc m => acc + perft d (apply p m)) 0

/-- What a move does, in the vocabulary the engine reports with each move. -/
inductive MoveClass
  | normal | push | jump | enPassant | queenSideCastle | kingSideCastle | capture | promotion | capturePromotion
deriving DecidableEq, Repr, Inhabited

/-- (class, moving piece, captured piece if on the destination square). -/
def describe (p : Pos) (m : SMove) : Option (MoveClass × Kind × Option Kind) :=
  match p.at m.from with
  | none => none
  | some (_, k) =>
    let captured := (p.at m.to).map (·.2)
    let cls : MoveClass :=
      if isCastle p m then (if fileOf m.to = fG then .kingSideCastle else .queenSideCastle)
      else if isEnPassant p m then .enPassant
      else if m.promo.isSome then (if captured.isSome then .capturePromotion else .promotion)
      else if captured.isSome then .capture
      else if k = .pawn then (if isDoubleStep p m then .jump else .push)
      else .normal
    some (cls, k, captured)

end Morlock.Spec
