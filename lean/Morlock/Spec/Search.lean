import Morlock.Spec.Game
import Morlock.Spec.Score
/-!
# Reference search value: exhaustive negamax over the game history (C03, C13)

No window, no table, no move ordering: the value of a node is 0 if a draw condition holds for
the line just played, "lost"/0 if there is no legal move (check / stalemate), the leaf value at depth
0, and otherwise the best over the explored legal moves of the child value seen from the other side
with one ply of mate distance added. The root itself is always searched (a move is wanted there).

A `Line` is the game history in the form the search needs (current position, earlier positions,
half-move clock, what the last move was); `Line.ofGame` builds it from a `Game`, `Line.push` extends it.
-/
namespace Morlock.Spec
open Morlock.Model (Score)
open Morlock.Model.Score

structure Line where
  cur : Pos
  past : List Pos          -- earlier positions of the game, most recent first
  halfmove : Nat
  /-- the last move was a capture or an under-promotion (insufficient material is only adjudicated then) -/
  lastReduces : Bool
  moved : Bool             -- at least one move has been played (no draw is declared for the set-up position)

def Line.push (l : Line) (m : SMove) : Line :=
  { cur := apply l.cur m
    past := l.cur :: l.past
    halfmove := if isPawnMoveOrCapture l.cur m then 0 else l.halfmove + 1
    lastReduces := l.cur.occ m.to || (m.promo.isSome && m.promo ≠ some .queen)
    moved := true }

def Line.ofGame (g : Game) : Line :=
  g.moves.foldl Line.push { cur := g.start.pos, past := [], halfmove := g.start.halfmove, lastReduces := false, moved := false }

/-- A draw condition of C05 holds for the position just reached. -/
def Line.drawn (l : Line) : Bool :=
  l.moved && ((1 + (l.past.filter (· == l.cur)).length ≥ 3) || l.halfmove ≥ 100 ||
    (l.lastReduces && insufficientMaterial l.cur))

def kindValue : Kind → Int
  | .pawn => 1 | .bishop => 3 | .knight => 3 | .rook => 5 | .queen => 9 | .king => 100

/-- Material balance in pawns for the side to move. -/
def material (p : Pos) : Int :=
  (men p).foldl (fun acc (_, c, k) => if c = p.turn then acc + kindValue k else acc - kindValue k) 0

def better (a b : Score) : Score := if rank a < rank b then b else a

def lift (s : Score) : Score := (incMate s).negate

/-- Full-window quiescence value: stand pat, or better by an explored capture sequence. -/
def quiesceRef (explore : Pos → SMove → Bool) (leaf : Pos → Int) : Nat → Line → Score
  | 0, _ => zeroScore
  | fuel + 1, l =>
    if l.drawn then zeroScore else
    let ms := legalMoves l.cur
    if ms.isEmpty then (if inCheck l.cur l.cur.turn then negInfScore else zeroScore) else
    (ms.filter (explore l.cur)).foldl (fun acc m =>
      better acc (lift (quiesceRef explore leaf fuel (l.push m)))) (heuristicScore (leaf l.cur))

structure SearchCfg where
  explore : Pos → SMove → Bool          -- moves explored by the main search
  quiet : Option (Pos → SMove → Bool)   -- `none`: static leaf; `some e`: quiescence exploring `e`
  leaf : Pos → Int                      -- static evaluation key

def leafValue (cfg : SearchCfg) (l : Line) : Score :=
  match cfg.quiet with
  | none => heuristicScore (cfg.leaf l.cur)
  | some e => quiesceRef e cfg.leaf 64 l

def negamaxL (cfg : SearchCfg) : Nat → Line → Bool → Score
  | d, l, root =>
    if !root && l.drawn then zeroScore else
    match d with
    | 0 => leafValue cfg l
    | d + 1 =>
      let ms := legalMoves l.cur
      if ms.isEmpty then (if inCheck l.cur l.cur.turn then negInfScore else zeroScore) else
      (ms.filter (cfg.explore l.cur)).foldl (fun acc m =>
        better acc (lift (negamaxL cfg d (l.push m) false))) negInfScore

def negamax (cfg : SearchCfg) (d : Nat) (g : Game) : Score := negamaxL cfg d (Line.ofGame g) true

/-- Root value together with the explored legal root moves that attain it. -/
def negamaxWithBest (cfg : SearchCfg) (d : Nat) (g : Game) : Score × List SMove :=
  let l := Line.ofGame g
  match d with
  | 0 => (negamaxL cfg 0 l true, [])
  | d + 1 =>
    let ms := legalMoves l.cur
    if ms.isEmpty then (negamaxL cfg (d + 1) l true, []) else
    let vals := (ms.filter (cfg.explore l.cur)).map fun m => (m, lift (negamaxL cfg d (l.push m) false))
    let v := vals.foldl (fun acc e => better acc e.2) negInfScore
    (v, (vals.filter fun e => rank e.2 == rank v).map (·.1))

end Morlock.Spec
