import Morlock.Proofs.FltRhe
/-! # The exponent chosen by `rndPos`, and the decomposition of `rndPos` -/
namespace Morlock.Model.Flt

/-- the formats for which the lemmas hold: at least one bit of precision, and the smallest normal binade is finite -/
structure Fmt.WF (f : Fmt) : Prop where
  p_pos : 1 ≤ f.p
  range : f.emin + ((f.p : Int) - 1) ≤ f.emax

theorem f32_wf : f32.WF := ⟨by decide, by decide⟩
theorem f64_wf : f64.WF := ⟨by decide, by decide⟩

/-- the exponent (of the last place) chosen by `rndPos` -/
def expo (f : Fmt) (a b : Nat) : Int :=
  let e0 : Int := (Nat.log2 a : Int) - (Nat.log2 b : Int) - ((f.p : Int) - 1)
  let s0 := scaled a b e0
  let e1 : Int := if s0.1 < s0.2 * 2 ^ (f.p - 1) then e0 - 1 else e0
  if e1 < f.emin then f.emin else e1

/-- renormalisation after rounding up to `2^p` -/
def carry (f : Fmt) (m : Nat) (e : Int) : Nat × Int :=
  if m == 2 ^ f.p then (2 ^ (f.p - 1), e + 1) else (m, e)

theorem rndPos_eq (f : Fmt) (a b : Nat) :
    rndPos f a b =
      (let me := carry f (roundHalfEven (a * pd (expo f a b)) (b * pn (expo f a b))) (expo f a b)
       if me.2 + ((f.p : Int) - 1) > f.emax then none else some me) := by
  simp only [rndPos, expo, carry, scaled_eq]

theorem two_pow_pred {p : Nat} (hp : 1 ≤ p) : 2 * 2 ^ (p - 1) = 2 ^ p := by
  obtain ⟨k, rfl⟩ : ∃ k, p = k + 1 := ⟨p - 1, by omega⟩
  simp [Nat.pow_succ, Nat.mul_comm]

theorem log2_bounds {a : Nat} (ha : 0 < a) : 2 ^ Nat.log2 a ≤ a ∧ a < 2 ^ (Nat.log2 a + 1) :=
  ⟨Nat.log2_self_le (by omega), Nat.lt_log2_self⟩

/-- `a / b < 2^(la - lb + 1)` -/
theorem log_upper {a b : Nat} (ha : 0 < a) (hb : 0 < b) (e : Int) (p : Nat)
    (he : e + p = (Nat.log2 a : Int) - (Nat.log2 b : Int) + 1) : a * pd e < 2 ^ p * b * pn e := by
  have ⟨_, ha2⟩ := log2_bounds ha
  have ⟨hb1, _⟩ := log2_bounds hb
  calc a * pd e < 2 ^ (Nat.log2 a + 1) * pd e := (Nat.mul_lt_mul_right (pd_pos _)).mpr ha2
    _ = 2 ^ (Nat.log2 a + 1 + (-e).toNat) := by unfold pd; rw [Nat.pow_add 2 (Nat.log2 a + 1)]
    _ ≤ 2 ^ (p + Nat.log2 b + e.toNat) := Nat.pow_le_pow_right (by decide) (by omega)
    _ = 2 ^ p * 2 ^ Nat.log2 b * pn e := by unfold pn; rw [Nat.pow_add, Nat.pow_add]
    _ ≤ 2 ^ p * b * pn e := Nat.mul_le_mul_right _ (Nat.mul_le_mul_left _ hb1)

/-- `2^(la - lb - 1) ≤ a / b` -/
theorem log_lower {a b : Nat} (ha : 0 < a) (hb : 0 < b) (e : Int) (p : Nat)
    (he : e + p = (Nat.log2 a : Int) - (Nat.log2 b : Int) - 1) : 2 ^ p * b * pn e ≤ a * pd e := by
  have ⟨ha1, _⟩ := log2_bounds ha
  have ⟨_, hb2⟩ := log2_bounds hb
  calc 2 ^ p * b * pn e ≤ 2 ^ p * 2 ^ (Nat.log2 b + 1) * pn e :=
        Nat.mul_le_mul_right _ (Nat.mul_le_mul_left _ (Nat.le_of_lt hb2))
    _ = 2 ^ (p + (Nat.log2 b + 1) + e.toNat) := by unfold pn; rw [Nat.pow_add 2 (p + (Nat.log2 b + 1)), Nat.pow_add 2 p]
    _ ≤ 2 ^ (Nat.log2 a + (-e).toNat) := Nat.pow_le_pow_right (by decide) (by omega)
    _ = 2 ^ Nat.log2 a * pd e := by unfold pd; rw [Nat.pow_add]
    _ ≤ a * pd e := Nat.mul_le_mul_right _ ha1

/-- what characterises the exponent `e` of the rounding grid for `a / b`:
`a/b < 2^(e+p)`, and `e` is the smallest exponent of the format or `2^(e+p-1) ≤ a/b` -/
structure IsExpo (f : Fmt) (a b : Nat) (e : Int) : Prop where
  ge : f.emin ≤ e
  upper : a * pd e < 2 ^ f.p * b * pn e
  lower : e = f.emin ∨ 2 ^ (f.p - 1) * b * pn e ≤ a * pd e

theorem expo_spec (f : Fmt) (hp : 1 ≤ f.p) {a b : Nat} (ha : 0 < a) (hb : 0 < b) : IsExpo f a b (expo f a b) := by
  -- the unclamped exponent e1
  have key : ∀ e1 : Int, e1 = (if (scaled a b ((Nat.log2 a : Int) - (Nat.log2 b : Int) - ((f.p : Int) - 1))).1 <
        (scaled a b ((Nat.log2 a : Int) - (Nat.log2 b : Int) - ((f.p : Int) - 1))).2 * 2 ^ (f.p - 1)
        then (Nat.log2 a : Int) - (Nat.log2 b : Int) - ((f.p : Int) - 1) - 1
        else (Nat.log2 a : Int) - (Nat.log2 b : Int) - ((f.p : Int) - 1)) →
      a * pd e1 < 2 ^ f.p * b * pn e1 ∧ 2 ^ (f.p - 1) * b * pn e1 ≤ a * pd e1 := by
    intro e1 he1
    generalize he0 : (Nat.log2 a : Int) - (Nat.log2 b : Int) - ((f.p : Int) - 1) = e0 at he1
    rw [scaled_eq] at he1
    simp only [] at he1
    have hU : a * pd e0 < 2 ^ f.p * b * pn e0 := log_upper ha hb e0 f.p (by omega)
    split at he1
    · rename_i hlt
      subst he1
      constructor
      · -- shift by one
        have := (lt_shift a (2 ^ (f.p - 1) * b) (e0 - 1) 1).mpr (by
          have : e0 - 1 + (1 : Nat) = e0 := by omega
          rw [this]
          calc a * pd e0 < b * pn e0 * 2 ^ (f.p - 1) := hlt
            _ = 2 ^ (f.p - 1) * b * pn e0 := by grind)
        calc a * pd (e0 - 1) < 2 ^ 1 * (2 ^ (f.p - 1) * b) * pn (e0 - 1) := this
          _ = 2 ^ f.p * b * pn (e0 - 1) := by rw [← two_pow_pred hp]; grind
      · exact log_lower ha hb (e0 - 1) (f.p - 1) (by omega)
    · rename_i hnlt
      subst he1
      refine ⟨hU, ?_⟩
      have := Nat.not_lt.mp hnlt
      calc 2 ^ (f.p - 1) * b * pn e1 = b * pn e1 * 2 ^ (f.p - 1) := by grind
        _ ≤ a * pd e1 := this
  unfold expo
  simp only []
  generalize hE : (if (scaled a b ((Nat.log2 a : Int) - (Nat.log2 b : Int) - ((f.p : Int) - 1))).1 <
        (scaled a b ((Nat.log2 a : Int) - (Nat.log2 b : Int) - ((f.p : Int) - 1))).2 * 2 ^ (f.p - 1)
        then (Nat.log2 a : Int) - (Nat.log2 b : Int) - ((f.p : Int) - 1) - 1
        else (Nat.log2 a : Int) - (Nat.log2 b : Int) - ((f.p : Int) - 1)) = e1
  obtain ⟨hu, hl⟩ := key e1 hE.symm
  split
  · rename_i hlt
    exact ⟨Int.le_refl _, lt_mono_exp (Int.le_of_lt hlt) hu, Or.inl rfl⟩
  · rename_i hge
    exact ⟨by omega, hu, Or.inr hl⟩

/-- the exponent is determined by its characterisation -/
theorem isExpo_le_of_ratio_le {f : Fmt} (hp : 1 ≤ f.p) {a b a' b' : Nat} {e e' : Int} (hb : 0 < b)
    (h : IsExpo f a b e) (h' : IsExpo f a' b' e') (hr : a * b' ≤ a' * b) : e ≤ e' := by
  rcases Int.lt_or_le e' e with hlt | hle
  case inr => exact hle
  exfalso
  -- e' < e, so e > emin and 2^(p-1) 2^e ≤ a/b ≤ a'/b' < 2^p 2^e' ≤ 2^(p-1) 2^e
  have hl : 2 ^ (f.p - 1) * b * pn e ≤ a * pd e := by
    rcases h.lower with h0 | h0
    · have := h'.ge; omega
    · exact h0
  have h1 : a' * pd (e - 1) < 2 ^ f.p * b' * pn (e - 1) := lt_mono_exp (by omega) h'.upper
  have h2 : a' * pd e < 2 ^ (f.p - 1) * b' * pn e := by
    have := (lt_shift a' (2 ^ (f.p - 1) * b') (e - 1) 1).mp (by
      calc a' * pd (e - 1) < 2 ^ f.p * b' * pn (e - 1) := h1
        _ = 2 ^ 1 * (2 ^ (f.p - 1) * b') * pn (e - 1) := by rw [← two_pow_pred hp]; grind)
    have he : e - 1 + (1 : Nat) = e := by omega
    rwa [he] at this
  have h3 := lt_of_ratio_le hb hr h2
  omega

theorem isExpo_unique {f : Fmt} (hp : 1 ≤ f.p) {a b a' b' : Nat} {e e' : Int} (hb : 0 < b) (hb' : 0 < b')
    (h : IsExpo f a b e) (h' : IsExpo f a' b' e') (hr : a * b' = a' * b) : e = e' :=
  Int.le_antisymm (isExpo_le_of_ratio_le hp hb h h' (Nat.le_of_eq hr))
    (isExpo_le_of_ratio_le hp hb' h' h (Nat.le_of_eq hr.symm))

theorem expo_mono {f : Fmt} (hp : 1 ≤ f.p) {a b a' b' : Nat} (ha : 0 < a) (hb : 0 < b) (ha' : 0 < a') (hb' : 0 < b')
    (hr : a * b' ≤ a' * b) : expo f a b ≤ expo f a' b' :=
  isExpo_le_of_ratio_le hp hb (expo_spec f hp ha hb) (expo_spec f hp ha' hb') hr

theorem expo_congr {f : Fmt} (hp : 1 ≤ f.p) {a b a' b' : Nat} (ha : 0 < a) (hb : 0 < b) (ha' : 0 < a') (hb' : 0 < b')
    (hr : a * b' = a' * b) : expo f a b = expo f a' b' :=
  isExpo_unique hp hb hb' (expo_spec f hp ha hb) (expo_spec f hp ha' hb') hr

end Morlock.Model.Flt
