import Morlock.Model.Fen
/-!
# Lexical layer of the FEN codec

`trimSpace` / `splitSpaces` on six space-free fields joined by single spaces, and the integer
reader `atoi` on the decimal numerals `itoa` produces (`atoi ∘ itoa = id` on `0 … 2^63-1`).
-/
namespace Morlock.Proofs.Fen
open Morlock Morlock.Model Morlock.Model.Fen

/-! ## Characters -/

theorem char_le_iff (a b : Char) : a ≤ b ↔ a.toNat ≤ b.toNat := by
  rw [Char.le_def, UInt32.le_iff_toNat_le]; rfl

theorem char_eq_ofNat {c : Char} {n : Nat} (h : c.toNat = n) : c = Char.ofNat n := by
  rw [← h, Char.ofNat_toNat]

theorem isDigit_iff (c : Char) : c.isDigit = true ↔ 48 ≤ c.toNat ∧ c.toNat ≤ 57 := by
  simp only [Char.isDigit, ge_iff_le, Bool.and_eq_true, decide_eq_true_eq, UInt32.le_iff_toNat_le]
  exact Iff.rfl

theorem isAsciiDigit_iff (c : Char) : isAsciiDigit c = true ↔ 48 ≤ c.toNat ∧ c.toNat ≤ 57 := by
  simp only [isAsciiDigit, Bool.and_eq_true, decide_eq_true_eq, char_le_iff]
  exact Iff.rfl

theorem isAsciiDigit_eq_isDigit (c : Char) : isAsciiDigit c = c.isDigit := by
  rw [Bool.eq_iff_iff, isAsciiDigit_iff, isDigit_iff]

/-- A character in `'1'..'8'` (the test of the placement loop). -/
theorem rank18_iff (c : Char) : ('1' ≤ c && c ≤ '8') = true ↔ 49 ≤ c.toNat ∧ c.toNat ≤ 56 := by
  simp only [Bool.and_eq_true, decide_eq_true_eq, char_le_iff]
  exact Iff.rfl

theorem isSpace_of_range {c : Char} (h1 : 0x21 ≤ c.toNat) (h2 : c.toNat ≤ 0x7e) : isSpace c = false := by
  simp [isSpace]; omega

theorem isSpace_digit {c : Char} (h : c.isDigit = true) : isSpace c = false := by
  rw [isDigit_iff] at h; exact isSpace_of_range (by omega) (by omega)

/-- Space-free lists. -/
def NS (l : List Char) : Prop := ∀ c ∈ l, isSpace c = false

theorem NS.nil : NS [] := fun _ h => by cases h
theorem NS.cons {c : Char} {l : List Char} (hc : isSpace c = false) (hl : NS l) : NS (c :: l) := by
  intro x hx
  rcases List.mem_cons.mp hx with rfl | hx
  · exact hc
  · exact hl x hx
theorem NS.append {a b : List Char} (ha : NS a) (hb : NS b) : NS (a ++ b) := by
  intro x hx
  rcases List.mem_append.mp hx with hx | hx
  · exact ha x hx
  · exact hb x hx

theorem NS.ne_space {l : List Char} (h : NS l) : ∀ c ∈ l, c ≠ ' ' := by
  intro c hc e
  have := h c hc
  rw [e] at this
  revert this; decide

/-! ## `trimSpace` -/

theorem trimSpace_id {s : List Char} (hne : s ≠ [])
    (hhead : ∀ a t, s = a :: t → isSpace a = false)
    (hlast : ∀ z t, s = t ++ [z] → isSpace z = false) : trimSpace s = s := by
  unfold trimSpace
  have h1 : s.dropWhile isSpace = s := by
    cases s with
    | nil => rfl
    | cons a t => rw [List.dropWhile_cons, hhead a t rfl]; simp
  rw [h1]
  have h2 : s.reverse.dropWhile isSpace = s.reverse := by
    cases hr : s.reverse with
    | nil => rfl
    | cons z t =>
      have hs : s = t.reverse ++ [z] := by
        have := congrArg List.reverse hr
        simpa using this
      rw [List.dropWhile_cons, hlast z _ hs]; simp
  rw [h2, List.reverse_reverse]

/-! ## `splitSpaces` -/

theorem go_field (f rest cur : List Char) (hf : ∀ c ∈ f, c ≠ ' ') :
    splitSpaces.go (f ++ ' ' :: rest) cur = (cur.reverse ++ f) :: splitSpaces.go rest [] := by
  induction f generalizing cur with
  | nil => simp [splitSpaces.go]
  | cons a t ih =>
    have ha : a ≠ ' ' := hf a (List.mem_cons_self ..)
    simp only [List.cons_append, splitSpaces.go, if_neg ha]
    rw [ih _ (fun c hc => hf c (List.mem_cons_of_mem _ hc))]
    simp

theorem go_last (f cur : List Char) (hf : ∀ c ∈ f, c ≠ ' ') :
    splitSpaces.go f cur = [cur.reverse ++ f] := by
  induction f generalizing cur with
  | nil => simp [splitSpaces.go]
  | cons a t ih =>
    have ha : a ≠ ' ' := hf a (List.mem_cons_self ..)
    simp only [splitSpaces.go, if_neg ha]
    rw [ih _ (fun c hc => hf c (List.mem_cons_of_mem _ hc))]
    simp

theorem getLast?_append_cons (x : List Char) (a : Char) (t : List Char) :
    (x ++ a :: t).getLast? = (a :: t).getLast? := by
  induction x with
  | nil => rfl
  | cons b x ih =>
    cases hx : x ++ a :: t with
    | nil => simp at hx
    | cons c u => rw [List.cons_append, hx, List.getLast?_cons_cons, ← hx, ih]

/-- The six-field line, as a list. -/
def join6 (f0 f1 f2 f3 f4 f5 : List Char) : List Char :=
  f0 ++ ' ' :: (f1 ++ ' ' :: (f2 ++ ' ' :: (f3 ++ ' ' :: (f4 ++ ' ' :: f5))))

theorem splitSpaces_join6 {f0 f1 f2 f3 f4 f5 : List Char}
    (h0 : NS f0) (h1 : NS f1) (h2 : NS f2) (h3 : NS f3) (h4 : NS f4) (h5 : NS f5) :
    splitSpaces (join6 f0 f1 f2 f3 f4 f5) = [f0, f1, f2, f3, f4, f5] := by
  unfold splitSpaces join6
  rw [go_field _ _ _ h0.ne_space, go_field _ _ _ h1.ne_space, go_field _ _ _ h2.ne_space,
    go_field _ _ _ h3.ne_space, go_field _ _ _ h4.ne_space, go_last _ _ h5.ne_space]
  simp

theorem trimSpace_join6 {f0 f1 f2 f3 f4 f5 : List Char}
    (h0 : NS f0) (h5 : NS f5) (n0 : f0 ≠ []) (n5 : f5 ≠ []) :
    trimSpace (join6 f0 f1 f2 f3 f4 f5) = join6 f0 f1 f2 f3 f4 f5 := by
  apply trimSpace_id
  · unfold join6; cases f0 with
    | nil => exact absurd rfl n0
    | cons a t => simp
  · intro a t e
    cases f0 with
    | nil => exact absurd rfl n0
    | cons a' t' =>
      unfold join6 at e
      simp only [List.cons_append, List.cons.injEq] at e
      rw [← e.1]; exact h0 a' (List.mem_cons_self ..)
  · intro z t e
    have hz : (join6 f0 f1 f2 f3 f4 f5).getLast? = some z := by rw [e]; simp
    have hl : (join6 f0 f1 f2 f3 f4 f5).getLast? = f5.getLast? := by
      cases f5 with
      | nil => exact absurd rfl n5
      | cons a t =>
        have : join6 f0 f1 f2 f3 f4 (a :: t) =
            (f0 ++ ' ' :: (f1 ++ ' ' :: (f2 ++ ' ' :: (f3 ++ ' ' :: (f4 ++ [' ']))))) ++ a :: t := by
          simp [join6]
        rw [this, getLast?_append_cons]
    rw [hl] at hz
    exact h5 z (List.mem_of_getLast? hz)

theorem decode_split {f0 f1 f2 f3 f4 f5 : List Char}
    (h0 : NS f0) (h1 : NS f1) (h2 : NS f2) (h3 : NS f3) (h4 : NS f4) (h5 : NS f5)
    (n0 : f0 ≠ []) (n5 : f5 ≠ []) :
    splitSpaces (trimSpace (join6 f0 f1 f2 f3 f4 f5)) = [f0, f1, f2, f3, f4, f5] := by
  rw [trimSpace_join6 h0 h5 n0 n5, splitSpaces_join6 h0 h1 h2 h3 h4 h5]

/-! ## `atoi` / `itoa` -/

theorem atoi_foldl_eq (ds : List Char) :
    ds.foldl (fun acc c => acc * 10 + (c.toNat - '0'.toNat)) 0 = Nat.ofDigitChars 10 ds 0 := by
  unfold Nat.ofDigitChars
  congr 1
  funext acc c
  rw [Nat.mul_comm]

/-- `atoi` on a nonempty list of digits: the value, if it fits `int64`. -/
theorem atoi_digits (ds : List Char) (hne : ds ≠ []) (hd : ∀ c ∈ ds, c.isDigit = true) :
    atoi ds = if Nat.ofDigitChars 10 ds 0 ≤ 9223372036854775807
      then some ((Nat.ofDigitChars 10 ds 0 : Nat) : Int) else none := by
  have hall : ds.all isAsciiDigit = true := by
    rw [List.all_eq_true]; intro c hc; rw [isAsciiDigit_eq_isDigit]; exact hd c hc
  have hemp : ds.isEmpty = false := by cases ds with
    | nil => exact absurd rfl hne
    | cons _ _ => rfl
  have hplus : ∀ r, ds ≠ '+' :: r := by
    intro r e
    have := (isDigit_iff '+').mp (hd '+' (e ▸ List.mem_cons_self ..))
    revert this; decide
  have hminus : ∀ r, ds ≠ '-' :: r := by
    intro r e
    have := (isDigit_iff '-').mp (hd '-' (e ▸ List.mem_cons_self ..))
    revert this; decide
  unfold atoi
  split
  rename_i x neg ds' heq
  split at heq
  · exact absurd rfl (hplus _)
  · exact absurd rfl (hminus _)
  · cases heq
    simp only [hemp, hall, atoi_foldl_eq]
    simp

theorem toString_natCast (n : Nat) : (toString ((n : Nat) : Int)).toList = Nat.toDigits 10 n := by
  show (Int.repr (Int.ofNat n)).toList = _
  simp [Int.repr]

theorem itoa_natCast (n : Nat) : (itoa (n : Int)).toList = Nat.toDigits 10 n := toString_natCast n

theorem toDigits_isDigit (n : Nat) : ∀ c ∈ Nat.toDigits 10 n, c.isDigit = true :=
  fun _ hc => Nat.isDigit_of_mem_toDigits (by decide) (by decide) hc

theorem toDigits_NS (n : Nat) : NS (Nat.toDigits 10 n) :=
  fun c hc => isSpace_digit (toDigits_isDigit n c hc)

/-- (c) `Atoi(Itoa(n)) = n` for `0 ≤ n ≤ MaxInt64`. -/
theorem atoi_itoa (n : Nat) (h : n ≤ 9223372036854775807) : atoi (itoa (n : Int)).toList = some (n : Int) := by
  rw [itoa_natCast, atoi_digits _ Nat.toDigits_ne_nil (toDigits_isDigit n), Nat.ofDigitChars_ten_toDigits,
    if_pos h]

end Morlock.Proofs.Fen
