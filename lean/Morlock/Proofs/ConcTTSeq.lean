import Morlock.Proofs.ConcTT
/-!
# Non-overlapping runs of the concurrent table agree with the sequential model `Model/TT.lean`
-/
namespace Morlock.Proofs.ConcTT
open Morlock Morlock.Model Morlock.Model.TTConc

variable {π : Type}

/-! ## a thread running alone -/

/-- `k` consecutive steps of thread `i`, on the pair (shared state, thread) -/
def iterT (i : Nat) : Nat → State π × Thread π → State π × Thread π
  | 0, x => x
  | k + 1, x => iterT i k (stepT true x.1 i x.2)

theorem stepT_withThreads (b : Bool) (s : State π) (i : Nat) (t : Thread π) (x : List (Thread π)) :
    stepT b { s with threads := x } i t =
      ({ (stepT b s i t).1 with threads := x }, (stepT b s i t).2) := by
  cases hpc : t.pc with
  | call =>
    cases hc : t.calls with
    | nil => simp [stepT, hpc, hc]
    | cons c cs => cases c <;> simp [stepT, hpc, hc, slotAt, key]
  | w0 f => simp [stepT, hpc, slotAt, key]
  | w1 f p => simp only [stepT, hpc]; split <;> simp [logWrite]
  | w2 f p =>
    simp only [stepT, hpc]
    have : casOk { s with threads := x } f p = casOk s f p := rfl
    rw [this]
    cases casOk s f p
    · rfl
    · cases p <;> rfl
  | w3 f => cases b <;> simp [stepT, hpc, logWrite]
  | w3b f tmp => simp [stepT, hpc, logWrite]

theorem iterT_withThreads (i : Nat) (k : Nat) (s : State π) (t : Thread π) (x : List (Thread π)) :
    iterT i k ({ s with threads := x }, t) =
      ({ (iterT i k (s, t)).1 with threads := x }, (iterT i k (s, t)).2) := by
  induction k generalizing s t with
  | zero => rfl
  | succ k ih =>
    simp only [iterT]
    rw [stepT_withThreads]
    exact ih _ _

theorem set_self_of_getElem? {α : Type} {l : List α} {i : Nat} {a : α} (h : l[i]? = some a) : l.set i a = l := by
  induction l generalizing i with
  | nil => rfl
  | cons x xs ih =>
    cases i with
    | zero => simp at h; simp [h]
    | succ j => simp at h; simp [ih h]

/-- consecutive steps of one thread only touch that thread -/
theorem run_replicate (s : State π) (i : Nat) (t : Thread π) (ht : s.threads[i]? = some t) (k : Nat) :
    run s (List.replicate k i) =
      { (iterT i k (s, t)).1 with threads := s.threads.set i (iterT i k (s, t)).2 } := by
  induction k generalizing s t with
  | zero =>
    simp only [List.replicate, run_nil, iterT]
    rw [set_self_of_getElem? ht]
  | succ k ih =>
    have hlt : i < s.threads.length := by
      rcases List.getElem?_eq_some_iff.1 ht with ⟨h, _⟩; exact h
    rw [List.replicate_succ, run_cons]
    rcases step_eq s i with ⟨hn, _⟩ | ⟨t', ht', he⟩
    · rw [hn] at ht; cases ht
    rw [ht] at ht'; cases ht'
    rw [he]
    have hth : ({ (stepT true s i t).1 with threads := s.threads.set i (stepT true s i t).2 } : State π).threads[i]? =
        some (stepT true s i t).2 := List.getElem?_set_self hlt
    rw [ih _ _ hth]
    simp only [iterT]
    rw [iterT_withThreads]
    simp only [List.set_set]

/-! ## the four ways a call runs when nobody interferes -/

theorem samePtr_self (a : Option (Node π)) : samePtr a a = true := by simp [samePtr]

/-- number of steps the call `c` takes when run without interference from state `s` -/
def callLen (s : State π) : Call π → Nat
  | .read _ => 1
  | .write h _ v =>
    if valOf (slotAt s (key s h)) > v then 3
    else if (slotAt s (key s h)).isNone then 5 else 4

theorem stepT_call_read (s : State π) (i h : Nat) (cs : List (Call π)) :
    stepT true s i ⟨.call, .read h :: cs⟩ =
      ({ s with trace := .readRet i h (readResult (slotAt s (key s h)) h) :: s.trace }, ⟨.call, cs⟩) := rfl

theorem stepT_call_write (s : State π) (i h : Nat) (p : π) (v : Nat) (cs : List (Call π)) :
    stepT true s i ⟨.call, .write h p v :: cs⟩ =
      ({ s with nextId := s.nextId + 1 }, ⟨.w0 ⟨s.nextId, h, p, v⟩, .write h p v :: cs⟩) := rfl

theorem stepT_w0 (s : State π) (i : Nat) (f : Node π) (cs : List (Call π)) :
    stepT true s i ⟨.w0 f, cs⟩ = (s, ⟨.w1 f (slotAt s (key s f.hash)), cs⟩) := rfl

theorem stepT_w1_gt (s : State π) (i : Nat) (f : Node π) (q : Option (Node π)) (cs : List (Call π))
    (h : valOf q > f.val) : stepT true s i ⟨.w1 f q, cs⟩ = (logWrite s i f false, ⟨.call, cs.tail⟩) := by
  simp [stepT, h, Thread.ret]

theorem stepT_w1_le (s : State π) (i : Nat) (f : Node π) (q : Option (Node π)) (cs : List (Call π))
    (h : ¬ valOf q > f.val) : stepT true s i ⟨.w1 f q, cs⟩ = (s, ⟨.w2 f q, cs⟩) := by
  simp [stepT, h]

theorem stepT_w2_none (s : State π) (i : Nat) (f : Node π) (cs : List (Call π))
    (h : slotAt s (key s f.hash) = none) :
    stepT true s i ⟨.w2 f none, cs⟩ = (publish s i f, ⟨.w3 f, cs⟩) := by
  simp [stepT, casOk, h, samePtr_self]

theorem stepT_w2_some (s : State π) (i : Nat) (f m : Node π) (cs : List (Call π))
    (h : slotAt s (key s f.hash) = some m) :
    stepT true s i ⟨.w2 f (some m), cs⟩ = (logWrite (publish s i f) i f true, ⟨.call, cs.tail⟩) := by
  simp [stepT, casOk, h, samePtr_self, Thread.ret]

theorem stepT_w3 (s : State π) (i : Nat) (f : Node π) (cs : List (Call π)) :
    stepT true s i ⟨.w3 f, cs⟩ = (logWrite { s with used := s.used + 1 } i f true, ⟨.call, cs.tail⟩) := rfl

theorem iterT_read (s : State π) (i : Nat) (h : Nat) (cs : List (Call π)) :
    iterT i 1 (s, ⟨.call, .read h :: cs⟩) =
      ({ s with trace := .readRet i h (readResult (slotAt s (key s h)) h) :: s.trace }, ⟨.call, cs⟩) := rfl

theorem iterT_write_skip (s : State π) (i : Nat) (h : Nat) (p : π) (v : Nat) (cs : List (Call π))
    (hv : valOf (slotAt s (key s h)) > v) :
    iterT i 3 (s, ⟨.call, .write h p v :: cs⟩) =
      ({ s with nextId := s.nextId + 1, trace := .writeRet i h p v false :: s.trace }, ⟨.call, cs⟩) := by
  simp only [iterT]
  rw [stepT_call_write]; simp only
  rw [stepT_w0]; simp only
  rw [stepT_w1_gt _ _ _ _ _ (by exact hv)]
  rfl

theorem iterT_write_empty (s : State π) (i : Nat) (h : Nat) (p : π) (v : Nat) (cs : List (Call π))
    (he : slotAt s (key s h) = none) :
    iterT i 5 (s, ⟨.call, .write h p v :: cs⟩) =
      ({ s with slots := s.slots.set (key s h) (some ⟨s.nextId, h, p, v⟩), used := s.used + 1,
                nextId := s.nextId + 1,
                trace := .writeRet i h p v true :: .cas i (key s h) none ⟨s.nextId, h, p, v⟩ :: s.trace },
       ⟨.call, cs⟩) := by
  simp only [iterT]
  rw [stepT_call_write]; simp only
  rw [stepT_w0]; simp only
  have he' : slotAt { s with nextId := s.nextId + 1 } (key { s with nextId := s.nextId + 1 } h) = none := he
  rw [he']
  rw [stepT_w1_le _ _ _ _ _ (by simp [valOf])]; simp only
  rw [stepT_w2_none _ _ _ _ (by exact he)]; simp only
  rw [stepT_w3]
  simp only [publish, logWrite, List.tail_cons]
  rw [he']
  rfl

theorem iterT_write_replace (s : State π) (i : Nat) (h : Nat) (p : π) (v : Nat) (cs : List (Call π))
    (m : Node π) (he : slotAt s (key s h) = some m) (hv : ¬ m.val > v) :
    iterT i 4 (s, ⟨.call, .write h p v :: cs⟩) =
      ({ s with slots := s.slots.set (key s h) (some ⟨s.nextId, h, p, v⟩),
                nextId := s.nextId + 1,
                trace := .writeRet i h p v true :: .cas i (key s h) (some m) ⟨s.nextId, h, p, v⟩ :: s.trace },
       ⟨.call, cs⟩) := by
  simp only [iterT]
  rw [stepT_call_write]; simp only
  rw [stepT_w0]; simp only
  have he' : slotAt { s with nextId := s.nextId + 1 } (key { s with nextId := s.nextId + 1 } h) = some m := he
  rw [he']
  rw [stepT_w1_le _ _ _ _ _ (by simpa [valOf] using hv)]; simp only
  rw [stepT_w2_some _ _ _ _ _ (by exact he)]
  simp only [publish, logWrite, List.tail_cons]
  rw [he']
  rfl

/-! ## abstraction to `Model/TT.lean` -/

/-- a call whose arguments are consistent: the node's `hash` and `val` are those of its payload -/
def WFCall : Call TTEntry → Prop
  | .write h e v => e.hash = h ∧ v = TTState.val (some e)
  | .read _ => True

/-- the sequential model treats a negative depth as filtered (`depth < minDepth = 0`); Go's bare table has no
such test, so the comparison is stated for non-negative depths (all depths the search passes) -/
def Op.Valid : Op → Prop
  | .write _ _ _ depth _ _ => 0 ≤ depth
  | .read _ => True

theorem wfCall_ofOp (op : Op) : WFCall (Call.ofOp op) := by
  cases op <;> simp [Call.ofOp, WFCall, Op.entry]

theorem abs_size (s : State TTEntry) : (absState s).slots.size = s.slots.length := by
  simp [absState]

theorem abs_getD (s : State TTEntry) (k : Nat) :
    (absState s).slots.getD k none = (slotAt s k).map (·.payload) := by
  simp only [absState, slotAt, Array.getD_eq_getD_getElem?, List.getElem?_toArray, List.getElem?_map,
    List.getD_eq_getElem?_getD]
  cases s.slots[k]? <;> simp

theorem abs_read (s : State TTEntry) (hn : 0 < s.slots.length) (h : Nat)
    (hwf : ∀ n, slotAt s (key s h) = some n → n.payload.hash = n.hash) :
    (absState s).read h = (readResult (slotAt s (key s h)) h).map (·.payload) := by
  unfold TTState.read
  rw [abs_size, if_neg (by omega), abs_getD]
  show (match Option.map (·.payload) (slotAt s (key s h)) with
        | some e => if e.hash = h then some e else none | none => none) = _
  cases hs : slotAt s (key s h) with
  | none => simp [readResult]
  | some n =>
    have := hwf n hs
    simp only [Option.map, readResult, this]
    split <;> simp

theorem abs_val (s : State TTEntry) (k : Nat)
    (hwf : ∀ n, slotAt s k = some n → n.val = TTState.val (some n.payload)) :
    TTState.val ((absState s).slots.getD k none) = valOf (slotAt s k) := by
  rw [abs_getD]
  cases hs : slotAt s k with
  | none => simp [TTState.val, valOf]
  | some n => simp [valOf, hwf n hs]

theorem abs_set (s : State TTEntry) (k : Nat) (n : Node TTEntry) (u : Nat) (id : Nat) (tr : List (Event TTEntry))
    (ts : List (Thread TTEntry)) :
    absState { slots := s.slots.set k (some n), used := u, nextId := id, threads := ts, trace := tr } =
      { slots := (absState s).slots.setIfInBounds k (some n.payload), used := u, minDepth := 0 } := by
  simp [absState, List.map_set]

theorem abs_write (s : State TTEntry) (hn : 0 < s.slots.length) (hash bound : Nat) (ply depth : Int)
    (score : Score) (m : Move) (hd : 0 ≤ depth)
    (hwf : ∀ n, slotAt s (key s hash) = some n → n.val = TTState.val (some n.payload)) :
    (absState s).write hash bound ply depth score m =
      if valOf (slotAt s (key s hash)) > TTState.val (some (Op.entry hash bound ply depth score m)) then
        (absState s, false)
      else
        ({ slots := (absState s).slots.setIfInBounds (key s hash) (some (Op.entry hash bound ply depth score m)),
           used := if (slotAt s (key s hash)).isNone then s.used + 1 else s.used, minDepth := 0 }, true) := by
  unfold TTState.write
  rw [abs_size, if_neg (by omega)]
  have hmd : (absState s).minDepth = 0 := rfl
  rw [hmd, if_neg (by omega)]
  simp only
  have hk : hash % s.slots.length = key s hash := rfl
  rw [hk, abs_val s _ hwf, abs_getD]
  have : (Option.map (·.payload) (slotAt s (key s hash))).isNone = (slotAt s (key s hash)).isNone := by
    cases slotAt s (key s hash) <;> rfl
  rw [this]
  rfl

/-- **one call, run alone.** From a state in which thread `i` is about to make the call `op`, running thread `i`
for `callLen` consecutive steps completes exactly that call; the table then stands for the result of the
sequential `TTState.read`/`TTState.write`, and the events logged by the call carry the sequential result. -/
theorem call_seq (s : State TTEntry) (hn : 0 < s.slots.length) (hinv : NodeInv WFCall s) (i : Nat) (op : Op)
    (cs : List (Call TTEntry)) (ht : s.threads[i]? = some ⟨.call, Call.ofOp op :: cs⟩) (hv : Op.Valid op) :
    (run s (List.replicate (callLen s (Call.ofOp op)) i)).threads = s.threads.set i ⟨.call, cs⟩ ∧
    absState (run s (List.replicate (callLen s (Call.ofOp op)) i)) = (seqCall (absState s) op).1 ∧
    ∃ evs, (run s (List.replicate (callLen s (Call.ofOp op)) i)).trace = evs ++ s.trace ∧
      evs.reverse.filterMap Event.result = [(seqCall (absState s) op).2] := by
  have hwf : ∀ k n, slotAt s k = some n → n.payload.hash = n.hash ∧ n.val = TTState.val (some n.payload) :=
    fun k n hk => hinv.nodes n (.inl (slotAt_mem hk))
  rw [run_replicate s i _ ht]
  cases op with
  | read h =>
    simp only [Call.ofOp, callLen]
    rw [iterT_read]
    refine ⟨rfl, rfl, [_], rfl, ?_⟩
    simp [Event.result, seqCall, abs_read s hn h (fun n hk => (hwf _ n hk).1)]
  | write hash bound ply depth score m =>
    have hw := abs_write s hn hash bound ply depth score m hv (fun n hk => (hwf _ n hk).2)
    simp only [Call.ofOp, callLen, seqCall]
    rw [hw]
    by_cases hgt : valOf (slotAt s (key s hash)) > TTState.val (some (Op.entry hash bound ply depth score m))
    · rw [if_pos hgt, if_pos hgt, iterT_write_skip _ _ _ _ _ _ hgt]
      refine ⟨rfl, rfl, [_], rfl, ?_⟩
      simp [Event.result]
    · rw [if_neg hgt, if_neg hgt]
      cases hs : slotAt s (key s hash) with
      | none =>
        simp only [Option.isNone_none, if_true]
        rw [iterT_write_empty _ _ _ _ _ _ hs]
        refine ⟨rfl, ?_, [_, _], rfl, ?_⟩
        · exact abs_set s _ _ _ _ _ _
        · simp [List.filterMap, Event.result]
      | some n =>
        rw [hs] at hgt
        simp only [Option.isNone_some, Bool.false_eq_true, if_false]
        rw [iterT_write_replace _ _ _ _ _ _ n hs (by simpa [valOf] using hgt)]
        refine ⟨rfl, ?_, [_, _], rfl, ?_⟩
        · exact abs_set s _ _ _ _ _ _
        · simp [List.filterMap, Event.result]

/-! ## whole non-overlapping runs -/

theorem slots_length_step (s : State π) (i : Nat) : (step s i).slots.length = s.slots.length := by
  rcases step_eq s i with ⟨_, he⟩ | ⟨t, ht, he⟩
  · rw [he]
  rw [he]
  simp only
  rcases stepT_effect s i t with ⟨_, e2⟩ | ⟨_, _, _, _, e2, _⟩ | ⟨_, _, e2, _⟩ | ⟨f, p, _, _, e2, _⟩ <;> rw [e2]
  simp

theorem slots_length_run (sched : List Nat) (s : State π) : (run s sched).slots.length = s.slots.length := by
  induction sched generalizing s with
  | nil => rfl
  | cons i is ih => rw [run_cons, ih, slots_length_step]

/-- The schedule in which the threads named in `order` run one complete call each, one after the other:
each call's steps are consecutive (`List.replicate (callLen ..) i`), so calls do not overlap. An entry of
`order` naming a thread with no call left (or no thread) contributes nothing. -/
def seqSched : State π → List Nat → List Nat
  | _, [] => []
  | s, i :: order =>
    match s.threads[i]? with
    | some ⟨.call, c :: _⟩ =>
      List.replicate (callLen s c) i ++ seqSched (run s (List.replicate (callLen s c) i)) order
    | _ => seqSched s order

/-- The same calls on the sequential model: `progs[i]` is the list of calls thread `i` still has to make. -/
def specRun : TTState → List (List Op) → List Nat → TTState × List SeqResult
  | t, _, [] => (t, [])
  | t, progs, i :: order =>
    match progs[i]? with
    | some (op :: rest) =>
      ((specRun (seqCall t op).1 (progs.set i rest) order).1,
       (seqCall t op).2 :: (specRun (seqCall t op).1 (progs.set i rest) order).2)
    | _ => specRun t progs order

/-- thread list of a state in which thread `i` is about to run the calls `progs[i]` -/
def threadsOf (progs : List (List Op)) : List (Thread TTEntry) :=
  progs.map (fun ops => ⟨.call, ops.map Call.ofOp⟩)

theorem seq_run (order : List Nat) (s : State TTEntry) (progs : List (List Op)) (hn : 0 < s.slots.length)
    (hinv : NodeInv WFCall s) (hth : s.threads = threadsOf progs)
    (hvalid : ∀ ops ∈ progs, ∀ op ∈ ops, Op.Valid op) :
    absState (run s (seqSched s order)) = (specRun (absState s) progs order).1 ∧
    AllIdle (run s (seqSched s order)) ∧
    ∃ evs, (run s (seqSched s order)).trace = evs ++ s.trace ∧
      evs.reverse.filterMap Event.result = (specRun (absState s) progs order).2 := by
  induction order generalizing s progs with
  | nil =>
    refine ⟨rfl, ?_, [], rfl, rfl⟩
    intro t ht
    simp only [seqSched, run_nil, hth, threadsOf, List.mem_map] at ht
    obtain ⟨_, _, rfl⟩ := ht; rfl
  | cons i order ih =>
    have hti : s.threads[i]? = (progs[i]?).map (fun ops => ⟨.call, ops.map Call.ofOp⟩) := by
      rw [hth, threadsOf, List.getElem?_map]
    cases hp : progs[i]? with
    | none =>
      rw [hp] at hti
      simp only [seqSched, hti, specRun, hp]
      exact ih s progs hn hinv hth hvalid
    | some ops =>
      rw [hp] at hti
      cases ops with
      | nil =>
        simp only [seqSched, hti, specRun, hp, Option.map, List.map_nil]
        exact ih s progs hn hinv hth hvalid
      | cons op rest =>
        simp only [Option.map, List.map_cons] at hti
        have hmem : (op :: rest) ∈ progs := List.mem_of_getElem? hp
        have hvop : Op.Valid op := hvalid _ hmem op (by simp)
        obtain ⟨c1, c2, evs1, c3, c4⟩ := call_seq s hn hinv i op (rest.map Call.ofOp) hti hvop
        simp only [seqSched, hti, specRun, hp, run_append]
        have hth' : (run s (List.replicate (callLen s (Call.ofOp op)) i)).threads = threadsOf (progs.set i rest) := by
          rw [c1, hth, threadsOf, threadsOf, List.map_set]
        have hvalid' : ∀ ops ∈ progs.set i rest, ∀ op ∈ ops, Op.Valid op := by
          intro ops hops o ho
          rcases List.mem_or_eq_of_mem_set hops with h | h
          · exact hvalid ops h o ho
          · subst h; exact hvalid _ hmem o (List.mem_cons_of_mem _ ho)
        obtain ⟨d1, d2, evs2, d3, d4⟩ := ih (run s (List.replicate (callLen s (Call.ofOp op)) i)) (progs.set i rest)
          (by rw [slots_length_run]; exact hn) (nodeInv_run _ s hinv) hth' hvalid'
        rw [c2] at d1 d4
        refine ⟨d1, d2, evs2 ++ evs1, ?_, ?_⟩
        · rw [d3, c3, List.append_assoc]
        · rw [List.reverse_append, List.filterMap_append, c4, d4]; rfl

end Morlock.Proofs.ConcTT
