import Morlock.Props.C09
/-!
# Rank-space arithmetic for the alpha-beta window transformation (helper for C13 / C03)

Everything here is about `Int` ranks (`Spec.rank`): `fR` is how `lift = negate ∘ incMate` acts on ranks,
`cwR` is how `childBound = decMate ∘ negate` acts on ranks. `rankN n` is the set of ranks of valid scores
whose mate distance is at most `n`. The lemmas are the weak Galois-connection facts (`H1a … H4`) that hold
even at the extremes of the order, and the one-child "key" step of the alpha-beta loop invariant.
-/
namespace Morlock.Proofs.AB
open Morlock.Props.C09

/-- `a < v < b → r = v`, `v ≤ a → v ≤ r ≤ a`, `b ≤ v → b ≤ r ≤ v`: `r` is `v` clipped into the window, or
    any value between the bound that was hit and `v`. -/
def Clip (a b v r : Int) : Prop :=
  (a < v ∧ v < b → r = v) ∧ (v ≤ a → v ≤ r ∧ r ≤ a) ∧ (b ≤ v → b ≤ r ∧ r ≤ v)

/-- Ranks of valid scores with mate distance `≤ n`. -/
def rankN (n : Nat) (r : Int) : Prop :=
  r = -1099511627776 ∨ (-34359738368 + 1 ≤ r ∧ r ≤ -34359738368 + n) ∨
  (-2147483648 < r ∧ r < 2147483648) ∨
  (34359738368 - n ≤ r ∧ r ≤ 34359738368 - 1) ∨ r = 1099511627776

theorem rankN_mono {n m : Nat} {r : Int} (h : rankN n r) (hnm : n ≤ m) : rankN m r := by
  unfold rankN at *; omega

/-- rank of `lift s` as a function of the rank of `s`. -/
def fR (r : Int) : Int := -(incR r)

/-- rank of `decMate s` as a function of the rank of `s`. -/
def decR (r : Int) : Int :=
  if r = 34359738368 - 1 then 1099511627776
  else if r = -34359738368 + 1 then -1099511627776
  else if r = 1099511627776 then r
  else if r = -1099511627776 then r
  else if r > 2147483648 then r + 1
  else if r < -2147483648 then r - 1
  else r

/-- rank of `childBound s` as a function of the rank of `s`. -/
def cwR (r : Int) : Int := decR (-r)

theorem fR_rankN {n : Nat} {x : Int} (hx : rankN n x) (hn : n ≤ 126) : rankN (n + 1) (fR x) := by
  unfold rankN at *; unfold fR incR; (repeat' split) <;> omega

theorem cwR_rankN {n : Nat} {x : Int} (hx : rankN (n + 1) x) (hn : n + 1 ≤ 127) : rankN n (cwR x) := by
  unfold rankN at *; unfold cwR decR; (repeat' split) <;> omega

theorem cwR_rankN' {n : Nat} {x : Int} (hx : rankN n x) (hn : n ≤ 127) : rankN n (cwR x) := by
  unfold rankN at *; unfold cwR decR; (repeat' split) <;> omega

theorem H1a {a x : Int} (ha : rankN 127 a) (hx : rankN 126 x) : a < fR x → x ≤ cwR a := by
  unfold rankN at *; unfold fR incR cwR decR; (repeat' split) <;> omega

theorem H1b {a x : Int} (ha : rankN 127 a) (hx : rankN 126 x) : x < cwR a → a < fR x := by
  unfold rankN at *; unfold fR incR cwR decR; (repeat' split) <;> omega

theorem H2a {b x : Int} (hb : rankN 127 b) (hx : rankN 126 x) : fR x < b → cwR b ≤ x := by
  unfold rankN at *; unfold fR incR cwR decR; (repeat' split) <;> omega

theorem H2b {b x : Int} (hb : rankN 127 b) (hx : rankN 126 x) : cwR b < x → fR x < b := by
  unfold rankN at *; unfold fR incR cwR decR; (repeat' split) <;> omega

theorem fR_anti {x y : Int} (hx : rankN 126 x) (hy : rankN 126 y) : x ≤ y → fR y ≤ fR x := by
  unfold rankN at *; unfold fR incR; (repeat' split) <;> omega

/-- `fR (cwR a) = a` except at the two infinities. -/
theorem fR_cwR {a : Int} (ha : rankN 127 a) :
    (a = -1099511627776 ∧ fR (cwR a) = -34359738368 + 1) ∨
    (a = 1099511627776 ∧ fR (cwR a) = 34359738368 - 1) ∨ fR (cwR a) = a := by
  unfold rankN at *; unfold fR incR cwR decR; (repeat' split) <;> omega

theorem fR_bounds {x : Int} (hx : rankN 126 x) : -34359738368 + 1 ≤ fR x ∧ fR x ≤ 34359738368 - 1 := by
  unfold rankN at *; unfold fR incR; (repeat' split) <;> omega

theorem cwR_anti {a b : Int} (ha : rankN 127 a) (hb : rankN 127 b) (hab : a < b) : cwR b ≤ cwR a := by
  unfold rankN at *; unfold cwR decR; (repeat' split) <;> omega

/-- The child window of a proper window is degenerate in exactly two cases. -/
theorem cwR_degenerate {a b : Int} (ha : rankN 127 a) (hb : rankN 127 b) (hab : a < b) (h : cwR a ≤ cwR b) :
    (a = 34359738368 - 1 ∧ b = 1099511627776 ∧ cwR b = -1099511627776) ∨
    (a = -1099511627776 ∧ b = -34359738368 + 1 ∧ cwR b = 1099511627776) := by
  unfold rankN at *; unfold cwR decR at *; (repeat' split at h) <;> (repeat' split) <;> omega

/-- One child of a proper window: how the lifted returned value `fR r` relates to the lifted true value
    `fR v`, given `Clip` on the child window when it is proper and the weak fact for every window. -/
theorem key_proper {a b v r : Int} (ha : rankN 127 a) (hb : rankN 127 b) (hv : rankN 126 v) (hr : rankN 126 r)
    (hab : a < b) (hclip : cwR b < cwR a → Clip (cwR b) (cwR a) v r) (hweak : r = v ∨ cwR b ≤ r) :
    (a < fR v ∧ fR v < b → fR r = fR v) ∧ (fR v ≤ a → fR r ≤ a) ∧ (b ≤ fR v → b ≤ fR r ∧ fR r ≤ fR v) := by
  have k1a := H1a ha hv
  have k1b := H1b ha hv
  have k2a := H2a hb hv
  have k2b := H2b hb hv
  have r1a := H1a ha hr
  have r2a := H2a hb hr
  have an1 := fR_anti hv hr
  have an2 := fR_anti hr hv
  have h3 := fR_cwR ha
  have h4 := fR_cwR hb
  have bv := fR_bounds hv
  have br := fR_bounds hr
  by_cases hw : cwR b < cwR a
  · obtain ⟨c1, c2, c3⟩ := hclip hw
    refine ⟨?_, ?_, ?_⟩
    · intro ⟨h1, h2⟩
      have e1 := k2a h2
      have e2 := k1a h1
      have : r = v := by
        by_cases q1 : v ≤ cwR b
        · have := c2 q1; omega
        · by_cases q2 : cwR a ≤ v
          · have := c3 q2; omega
          · exact c1 ⟨by omega, by omega⟩
      rw [this]
    · intro h
      have hge : cwR a ≤ v := by
        have : ¬ v < cwR a := fun c => by have := k1b c; omega
        omega
      have q := c3 hge
      have : ¬ a < fR r := by
        intro c
        have := r1a c
        have e : r = cwR a := by omega
        rw [e] at c
        rcases h3 with h3 | h3 | h3 <;> omega
      omega
    · intro h
      have hle : v ≤ cwR b := by
        have : ¬ cwR b < v := fun c => by have := k2b c; omega
        omega
      have q := c2 hle
      have e1 := an1 (by omega)
      refine ⟨?_, e1⟩
      have : ¬ fR r < b := by
        intro c
        have := r2a c
        have e : r = cwR b := by omega
        rw [e] at c
        rcases h4 with h4 | h4 | h4 <;> omega
      omega
  · have hd := cwR_degenerate ha hb hab (by omega)
    rcases hd with ⟨e1, e2, e3⟩ | ⟨e1, e2, e3⟩
    · refine ⟨?_, ?_, ?_⟩ <;> intro h <;> omega
    · refine ⟨?_, ?_, ?_⟩
      · intro h; omega
      · intro h; omega
      · intro _
        rcases hweak with e | e
        · rw [e]; omega
        · have hr' : r = 1099511627776 := by unfold rankN at hr; omega
          have : fR r = -34359738368 + 1 := by rw [hr']; decide
          omega

/-- One child of an improper window `b ≤ a` (with `b` not the bottom): the lifted returned value cannot
    exceed both `a` and the lifted true value. -/
theorem key_improper {a b v r : Int} (hb : rankN 127 b) (hr : rankN 126 r)
    (hba : b ≤ a) (hbot : b ≠ -1099511627776) (hweak : r = v ∨ cwR b ≤ r) :
    fR r ≤ a ∨ fR r = fR v := by
  rcases hweak with e | e
  · right; rw [e]
  · left
    have hcb : rankN 126 (cwR b) := by
      have := cwR_rankN (n := 126) hb (by omega); exact this
    have := fR_anti hcb hr e
    have h3 := fR_cwR hb
    have br := fR_bounds hr
    rcases h3 with h3 | h3 | h3 <;> omega

theorem clip_full {v r : Int} (hv : rankN 127 v) (hr : rankN 127 r)
    (h : Clip (-1099511627776) 1099511627776 v r) : r = v := by
  obtain ⟨c1, c2, c3⟩ := h
  unfold rankN at *
  by_cases q1 : v ≤ -1099511627776
  · have := c2 q1; omega
  · by_cases q2 : 1099511627776 ≤ v
    · have := c3 q2; omega
    · exact c1 ⟨by omega, by omega⟩

theorem fR_inj {x y : Int} (hx : rankN 126 x) (hy : rankN 126 y) : fR x = fR y → x = y := by
  unfold rankN at *; unfold fR incR; (repeat' split) <;> omega

/-- Whenever a child raises alpha (on any window, proper or not), the lifted returned value is at most the
    lifted true value of that child. -/
theorem key_raise {a b v r : Int} (ha : rankN 127 a) (hb : rankN 127 b) (hv : rankN 126 v) (hr : rankN 126 r)
    (hclip : cwR b < cwR a → Clip (cwR b) (cwR a) v r) (hweak : r = v ∨ cwR b ≤ r) (hraise : a < fR r) :
    fR r ≤ fR v := by
  by_cases hab : a < b
  · obtain ⟨q1, q2, q3⟩ := key_proper ha hb hv hr hab hclip hweak
    by_cases h1 : fR v ≤ a
    · have := q2 h1; omega
    · by_cases h2 : fR v < b
      · have := q1 ⟨by omega, h2⟩; omega
      · exact (q3 (by omega)).2
  · by_cases hbot : b = -1099511627776
    · rcases hweak with e | e
      · rw [e]; omega
      · have bv := fR_bounds hv
        have hr' : r = 1099511627776 := by
          subst hbot
          have : cwR (-1099511627776) = 1099511627776 := by decide
          rw [this] at e
          unfold rankN at hr; omega
        have : fR r = -34359738368 + 1 := by rw [hr']; decide
        omega
    · rcases key_improper (a := a) (v := v) hb hr (by omega) hbot hweak with h | h <;> omega

end Morlock.Proofs.AB
