import Morlock.Props.C01
import Morlock.Proofs.PromoLegal
/-!
# C20: the "no under-promotion" exploration filter on the model's legal moves

`Driver.noUnderPromo.pick m = !m.isUnderPromotion`. On generated moves (accurate metadata, C01 stage E)
this is the reference filter `Spec.notUnderPromo` read through `absMove`; with `C01.legal_perm` the filtered
model list is, move for move, the filtered reference list, which is non-empty whenever a legal move exists
(`Spec.filter_notUnderPromo_ne_nil`).
-/
namespace Morlock.Proofs.Promo
open Morlock Morlock.Model Morlock.Proofs Morlock.Proofs.Gen

/-- The predicate of the `nup-*` explorations (`Driver.noUnderPromo.pick`). -/
def pick (m : Move) : Bool := !m.isUnderPromotion

/-- On a move whose type says "promotion" exactly when it carries a promotion piece, the engine's
    under-promotion test is the reference's. -/
theorem pick_eq_of_class {m : Move} (h : m.isPromotion = (m.promotion != .none)) :
    pick m = Spec.notUnderPromo (absMove m) := by
  unfold pick Move.isUnderPromotion Spec.notUnderPromo absMove
  rw [h]
  cases m.promotion <;> rfl

theorem pick_eq {p : Position} {turn : Color} (hw : WF p turn) {m : Move} (hm : m ∈ p.pseudoLegalMoves turn) :
    pick m = Spec.notUnderPromo (absMove m) := by
  have hc := (Props.C01.pseudo_metaOK hw m hm).2
  unfold ClassOK at hc
  simp only [Bool.and_eq_true] at hc
  exact pick_eq_of_class (by simpa using hc.1.1.1.2)

theorem legalMoves_nodup {p : Position} {b : Board} (h : Rep p b) (turn : Color) : (p.legalMoves turn).Nodup := by
  unfold Position.legalMoves
  exact (Props.C01.pseudoLegalMoves_nodup h turn).filter _

/-- The filtered model list is, through `absMove`, a permutation of the filtered reference list. -/
theorem filter_pick_perm {p : Position} {turn : Color} (hw : WF p turn) :
    (((p.legalMoves turn).filter pick).map absMove).Perm
      ((Spec.legalMoves (abs p turn)).filter Spec.notUnderPromo) := by
  have h1 : (p.legalMoves turn).filter pick = (p.legalMoves turn).filter (Spec.notUnderPromo ∘ absMove) := by
    apply List.filter_congr
    intro m hm
    exact pick_eq hw ((Props.C01.legal_iff p turn m).mp hm).1
  rw [h1, ← List.filter_map]
  exact (Props.C01.legal_perm hw).filter _

/-- **The main-search filter keeps a legal move whenever there is one** (model, `WF` positions). -/
theorem filter_pick_ne_nil {p : Position} {turn : Color} (hw : WF p turn) (h : p.legalMoves turn ≠ []) :
    (p.legalMoves turn).filter pick ≠ [] := by
  intro he
  have hp := filter_pick_perm hw
  rw [he, List.map_nil] at hp
  have hs : Spec.legalMoves (abs p turn) ≠ [] := fun e => h ((Props.C01.legal_nil_iff hw).mpr e)
  exact Spec.filter_notUnderPromo_ne_nil hs hp.nil_eq.symm

/-- Every selected move is legal; the selection keeps the generator order and has no duplicates. -/
theorem filter_pick_sound {p : Position} {b : Board} (h : Rep p b) (turn : Color) :
    ((p.legalMoves turn).filter pick).Sublist (p.legalMoves turn) ∧ ((p.legalMoves turn).filter pick).Nodup :=
  ⟨List.filter_sublist, (legalMoves_nodup h turn).filter _⟩

end Morlock.Proofs.Promo
