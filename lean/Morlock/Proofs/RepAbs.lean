import Morlock.Proofs.RepMove
import Morlock.Model.Abs
/-!
# From `Rep` to the mailbox reference position (`abs`), helpers for the C02 link
-/
namespace Morlock.Proofs
open Morlock Morlock.Model

/-- Abstraction of one cell. -/
def absCellB (v : Option (Color × Piece)) : Option (Spec.Color × Spec.Kind) :=
  match v with
  | some (c, k) => (absKind k).map fun k' => (absColor c, k')
  | none => none

/-- Abstraction of a board to the reference's 64-cell array. -/
def absBoard (b : Board) : Array (Option (Spec.Color × Spec.Kind)) :=
  ((List.range 64).map fun sq => absCellB (b sq)).toArray

theorem absCell_eq (p : Position) (sq : Nat) : absCell p sq = absCellB (p.square sq) := by
  unfold absCell absCellB; cases p.square sq <;> rfl

theorem abs_board (p : Position) (turn : Color) : (abs p turn).board = absBoard p.square := by
  have : absCell p = fun sq => absCellB (p.square sq) := funext (absCell_eq p)
  unfold abs absBoard; rw [this]

@[simp] theorem absBoard_size (b : Board) : (absBoard b).size = 64 := by simp [absBoard]

theorem absBoard_get (b : Board) (i : Nat) (hi : i < (absBoard b).size) :
    (absBoard b)[i] = absCellB (b i) := by
  simp [absBoard]

theorem absBoard_getD (b : Board) (hout : ∀ sq, 64 ≤ sq → b sq = none) (i : Nat) :
    (absBoard b).getD i none = absCellB (b i) := by
  by_cases hi : i < 64
  · rw [Array.getD, dif_pos (by simpa using hi)]; exact absBoard_get b i _
  · rw [Array.getD, dif_neg (by simpa using hi), hout i (by omega)]; rfl

theorem absBoard_upd (b : Board) (sq : Nat) (v : Option (Color × Piece)) :
    absBoard (upd b sq v) = Spec.setCell (absBoard b) sq (absCellB v) := by
  unfold Spec.setCell
  apply Array.ext
  · simp
  · intro i h1 h2
    have h3 : i < (absBoard b).size := by rw [absBoard_size] at h1 ⊢; exact h1
    rw [absBoard_get, Array.getElem_setIfInBounds h3, absBoard_get]
    by_cases e : sq = i
    · subst e; simp
    · rw [if_neg e, upd_other _ _ (Ne.symm e)]

theorem Rep.abs_at {p : Position} {b : Board} (h : Rep p b) (turn : Color) (sq : Nat) :
    (abs p turn).at sq = absCellB (b sq) := by
  unfold Spec.Pos.at
  rw [abs_board, ← h.board_eq, absBoard_getD b h.out]

/-- The move type recorded in `m` is the class the rules assign to `(from, to, promo)` in `s`,
    and the auxiliary squares the engine derives from the type are the ones the rules use. -/
def ClassOK (s : Spec.Pos) (m : Move) : Bool :=
  let sm := absMove m
  (Spec.isEnPassant s sm == (m.ty == .enPassant)) &&
  (Spec.isCastle s sm == m.isCastle) &&
  (Spec.isDoubleStep s sm == (m.ty == .jump)) &&
  (m.isPromotion == (m.promotion != .none)) &&
  (m.ty != .enPassant || m.enPassantCapture == Spec.mkSq (Spec.fileOf m.to) (Spec.rankOf m.from)) &&
  (m.ty != .jump ||
    m.enPassantTarget == Spec.mkSq (Spec.fileOf m.from) ((Spec.rankOf m.from + Spec.rankOf m.to) / 2)) &&
  (!m.isCastle || m.castlingRookMove ==
      if Spec.fileOf m.to = Spec.fG
      then (Spec.mkSq Spec.fH (Spec.rankOf m.from), Spec.mkSq Spec.fF (Spec.rankOf m.from))
      else (Spec.mkSq Spec.fA (Spec.rankOf m.from), Spec.mkSq Spec.fD (Spec.rankOf m.from)))

/-- Nothing lands on a king's home square while that side still has a castling right (the engine
    drops rights only when E1/E8 is *left*; the rules also when something lands there — which can
    only be the capture of a king that never moved). Follows from `KingHome` and "no king capture",
    see `landOK_of_kingHome`. -/
def LandOK (s : Spec.Pos) (m : Move) : Bool :=
  (m.to != E1 || !s.wk && !s.wq) && (m.to != E8 || !s.bk && !s.bq)

def kindOf : Piece → Spec.Kind
  | .pawn => .pawn | .bishop => .bishop | .knight => .knight
  | .rook => .rook | .queen => .queen | .king => .king | .none => .pawn

theorem absKind_of_ne {k : Piece} (h : k ≠ .none) : absKind k = some (kindOf k) := by
  cases k <;> simp [absKind, kindOf] at h ⊢

theorem absCellB_some (c : Color) {k : Piece} (h : k ≠ .none) :
    absCellB (some (c, k)) = some (absColor c, kindOf k) := by
  simp [absCellB, absKind_of_ne h]

theorem absColor_opp (c : Color) : absColor c.opp = (absColor c).opp := by cases c <;> rfl

theorem upd_swap2 (b : Board) {s1 s2 s : Nat} (v1 v2 v) (h1 : s ≠ s1) (h2 : s ≠ s2) :
    upd (upd (upd b s1 v1) s2 v2) s v = upd (upd (upd b s v) s1 v1) s2 v2 := by
  rw [upd_comm _ v2 v (Ne.symm h2), upd_comm _ v1 v (Ne.symm h1)]

theorem cell_moved (m : Move) (turn : Color) {pc : Piece} (hpcne : pc ≠ .none)
    (hP : m.isPromotion = (m.promotion != Piece.none)) :
    absCellB (some (turn, movedPiece m pc)) =
      some (absColor turn, (absKind m.promotion).getD (kindOf pc)) := by
  unfold movedPiece
  by_cases hp : m.isPromotion = true
  · have : m.promotion ≠ .none := by rw [hp] at hP; simpa using hP.symm
    rw [if_pos hp, absCellB_some _ this, absKind_of_ne this]; rfl
  · have : m.promotion = .none := by
      rw [Bool.not_eq_true] at hp; rw [hp] at hP; simpa using hP.symm
    rw [if_neg hp, absCellB_some _ hpcne, this]; rfl

theorem rights_agree (X a b c : Bool) (h : b = false ∨ X = false) :
    (X && !a && !c) = (X && !(a || b) && !c) := by
  rcases h with h | h <;> subst h <;> cases a <;> simp

theorem abs_move {p p' : Position} {b : Board} {m : Move} {turn : Color} {pc : Piece}
    (h : Rep p b) (hok : MetaOK p m = true) (hsq : p.square m.from = some (turn, pc))
    (hcl : ClassOK (abs p turn) m = true) (hland : LandOK (abs p turn) m = true)
    (hm : p.move m = some p') :
    abs p' turn.opp = Spec.apply (abs p turn) (absMove m) := by
  obtain ⟨hrep', hc', he'⟩ := move_rep h hok hm
  rw [h.metaOK_iff] at hok
  have hsqb : b m.from = some (turn, pc) := by rw [← h.square_eq]; exact hsq
  have hpcne : pc ≠ .none := h.ne_none_of_some hsqb
  have hat : (abs p turn).at m.from = some (absColor turn, kindOf pc) := by
    rw [h.abs_at, hsqb, absCellB_some _ hpcne]
  unfold ClassOK at hcl
  unfold LandOK at hland
  simp only [Bool.and_eq_true, beq_iff_eq, Bool.or_eq_true, bne_iff_ne, ne_eq,
    Bool.not_eq_eq_eq_not, Bool.not_true] at hcl hland
  obtain ⟨⟨⟨⟨⟨⟨hE, hC⟩, hD⟩, hP⟩, hEsq⟩, hDsq⟩, hCsq⟩ := hcl
  obtain ⟨hW, hB⟩ := hland
  have hbp : (List.map (absCell p) (List.range 64)).toArray = absBoard b := by
    have := abs_board p turn; rw [← h.board_eq] at this; exact this
  have hbp' : (List.map (absCell p') (List.range 64)).toArray = absBoard (boardAfter b m) := by
    have := abs_board p' turn; rw [← hrep'.board_eq] at this; exact this
  unfold Spec.apply
  simp only [absMove] at hat hE hC hD ⊢
  rw [hat]
  simp only [hE, hC, hD]
  unfold abs at hW hB ⊢
  simp only [Spec.Pos.mk.injEq]
  simp only at hW hB
  have e1 : Spec.mkSq Spec.fE 0 = E1 := rfl
  have e2 : Spec.mkSq Spec.fH 0 = H1 := rfl
  have e3 : Spec.mkSq Spec.fA 0 = A1 := rfl
  have e4 : Spec.mkSq Spec.fE 7 = E8 := rfl
  have e5 : Spec.mkSq Spec.fH 7 = H8 := rfl
  have e6 : Spec.mkSq Spec.fA 7 = A8 := rfl
  refine ⟨?board, absColor_opp turn, ?wk, ?wq, ?bk, ?bq, ?ep⟩
  case wk =>
    rw [hc', right_wK, e1, e2]; unfold touches
    apply rights_agree
    rcases hW with hW | hW
    · left; exact decide_eq_false hW
    · right; exact hW.1
  case wq =>
    rw [hc', right_wQ, e1, e3]; unfold touches
    apply rights_agree
    rcases hW with hW | hW
    · left; exact decide_eq_false hW
    · right; exact hW.2
  case bk =>
    rw [hc', right_bK, e4, e5]; unfold touches
    apply rights_agree
    rcases hB with hB | hB
    · left; exact decide_eq_false hB
    · right; exact hB.1
  case bq =>
    rw [hc', right_bQ, e4, e6]; unfold touches
    apply rights_agree
    rcases hB with hB | hB
    · left; exact decide_eq_false hB
    · right; exact hB.2
  case ep =>
    rw [he']
    by_cases hj : m.ty = .jump
    · have hne : m.enPassantTarget ≠ 0 := by
        unfold Move.enPassantTarget
        simp only [hj, bne_self_eq_false, Bool.false_eq_true, if_false, newSquare_eq]
        split <;> omega
      rcases hDsq with hDsq | hDsq
      · exact absurd hj hDsq
      · rw [← hDsq]; simp [hj, hne]
    · have : m.enPassantTarget = 0 := by
        unfold Move.enPassantTarget; simp [hj]
      simp [hj, this]
  case board =>
    rw [hbp, hbp']
    have hcell := cell_moved m turn hpcne hP
    cases hk : absKind m.promotion <;> rw [hk] at hcell <;>
      simp only [Option.getD_none, Option.getD_some] at hcell ⊢
    all_goals (
      unfold MetaOKb at hok; rw [hsqb] at hok
      simp only [Bool.and_eq_true, beq_iff_eq, decide_eq_true_eq] at hok
      obtain ⟨⟨hpc, hto⟩, hty⟩ := hok
      unfold boardAfter; rw [hsqb]; simp only
      rw [← hcell]
      cases ety : m.ty <;> rw [ety] at hty <;>
        simp only [Bool.and_eq_true, beq_iff_eq, bne_iff_ne, ne_eq] at hty <;>
        simp only [Move.isCastle, ety, reduceCtorEq, decide_false, decide_true, Bool.or_false,
          Bool.or_true, Bool.false_eq_true, if_false, if_true, beq_iff_eq, not_true_eq_false,
          false_or] at hEsq hCsq ⊢
      case enPassant =>
        have hne1 : m.enPassantCapture ≠ m.to := by
          intro e; rw [e, hty.1] at hty; cases hty.2
        have hne2 : m.enPassantCapture ≠ m.from := by
          intro e; rw [e, hsqb] at hty
          exact Color.opp_ne turn (Prod.mk.inj (Option.some.inj hty.2)).1.symm
        rw [← hEsq, upd_swap2 _ _ _ _ hne2 hne1, absBoard_upd, absBoard_upd, absBoard_upd]
        rfl
      case kingSideCastle | queenSideCastle =>
        obtain ⟨⟨⟨hto0, hrf⟩, hrt⟩, hne⟩ := hty
        have hrr : m.castlingRookMove.1 ≠ m.castlingRookMove.2 := by
          intro e; rw [e, hrt] at hrf; cases hrf
        obtain ⟨f1, f2, f3, f4⟩ := castlingRookMove_facts m hrr
        have hne1 : m.castlingRookMove.1 ≠ m.to := by
          intro e; rw [e, hto0] at hrf; cases hrf
        rw [upd_swap2 _ _ _ _ f1 hne1, upd_swap2 _ _ _ _ f2 hne]
        simp only [absBoard_upd]
        split <;> rename_i hf <;> simp only [hf, if_true, if_false] at hCsq <;> rw [hCsq] <;> rfl
      all_goals (rw [absBoard_upd, absBoard_upd]; rfl))

/-- While a side has a castling right, its king stands on its home square. -/
def KingHome (p : Position) : Bool :=
  (!(p.castling &&& wK != 0 || p.castling &&& wQ != 0) || p.square E1 == some (Color.white, Piece.king)) &&
  (!(p.castling &&& bK != 0 || p.castling &&& bQ != 0) || p.square E8 == some (Color.black, Piece.king))

/-- A king that is neither moved nor captured stays where it is. -/
theorem boardAfter_king {b : Board} {m : Move} {sq : Nat} {c : Color}
    (hok : MetaOKb b m = true) (hcap : m.capture ≠ .king)
    (hk : b sq = some (c, Piece.king)) : sq ≠ m.to ∧ (sq ≠ m.from → boardAfter b m sq = b sq) := by
  unfold MetaOKb at hok
  unfold boardAfter
  cases hsq : b m.from with
  | none => rw [hsq] at hok; cases hok
  | some x =>
    obtain ⟨turn, pc⟩ := x
    rw [hsq] at hok
    simp only [Bool.and_eq_true, beq_iff_eq, decide_eq_true_eq] at hok
    obtain ⟨⟨hpc, hto⟩, hty⟩ := hok
    simp only
    have key : ∀ s, (b s = none ∨ ∃ c' k', b s = some (c', k') ∧ k' ≠ Piece.king) → sq ≠ s := by
      intro s hs e; subst e; rw [hk] at hs
      rcases hs with hs | ⟨c', k', hs, hne⟩
      · cases hs
      · cases hs; exact hne rfl
    cases ety : m.ty <;> rw [ety] at hty <;>
      simp only [Bool.and_eq_true, beq_iff_eq, bne_iff_ne, ne_eq] at hty <;> simp only []
    case capture =>
      have h2 := key m.to (Or.inr ⟨_, _, hty, hcap⟩)
      exact ⟨h2, fun hfr => by rw [upd_other _ _ h2, upd_other _ _ hfr]⟩
    case capturePromotion =>
      have h2 := key m.to (Or.inr ⟨_, _, hty.1, hcap⟩)
      exact ⟨h2, fun hfr => by rw [upd_other _ _ h2, upd_other _ _ hfr]⟩
    case enPassant =>
      have h2 := key m.to (Or.inl hty.1)
      have h3 := key m.enPassantCapture (Or.inr ⟨_, _, hty.2, by simp⟩)
      exact ⟨h2, fun hfr => by rw [upd_other _ _ h3, upd_other _ _ h2, upd_other _ _ hfr]⟩
    case promotion =>
      have h2 := key m.to (Or.inl hty.1)
      exact ⟨h2, fun hfr => by rw [upd_other _ _ h2, upd_other _ _ hfr]⟩
    case kingSideCastle | queenSideCastle =>
      have h2 := key m.to (Or.inl hty.1.1.1)
      have h3 := key m.castlingRookMove.1 (Or.inr ⟨_, _, hty.1.1.2, by simp⟩)
      have h4 := key m.castlingRookMove.2 (Or.inl hty.1.2)
      exact ⟨h2, fun hfr => by rw [upd_other _ _ h4, upd_other _ _ h3, upd_other _ _ h2, upd_other _ _ hfr]⟩
    all_goals
      have h2 := key m.to (Or.inl hty)
      exact ⟨h2, fun hfr => by rw [upd_other _ _ h2, upd_other _ _ hfr]⟩

theorem landOK_of_kingHome {p : Position} {b : Board} {m : Move} (h : Rep p b)
    (hok : MetaOK p m = true) (hkh : KingHome p = true) (hcap : m.capture ≠ .king) (turn : Color) :
    LandOK (abs p turn) m = true := by
  rw [h.metaOK_iff] at hok
  unfold KingHome at hkh
  unfold LandOK abs
  simp only [Bool.and_eq_true, Bool.or_eq_true, Bool.not_eq_true', beq_iff_eq, bne_iff_ne, ne_eq,
    Bool.or_eq_false_iff, h.square_eq] at hkh ⊢
  refine ⟨?_, ?_⟩
  · rcases hkh.1 with h1 | h1
    · right; exact h1
    · left; exact fun e => (boardAfter_king hok hcap h1).1 e.symm
  · rcases hkh.2 with h1 | h1
    · right; exact h1
    · left; exact fun e => (boardAfter_king hok hcap h1).1 e.symm

theorem kingHome_move {p p' : Position} {b : Board} {m : Move} (h : Rep p b)
    (hok : MetaOK p m = true) (hkh : KingHome p = true) (hcap : m.capture ≠ .king)
    (hm : p.move m = some p') : KingHome p' = true := by
  obtain ⟨hrep', hc', he'⟩ := move_rep h hok hm
  rw [h.metaOK_iff] at hok
  unfold KingHome at hkh ⊢
  rw [hc', right_wK, right_wQ, right_bK, right_bQ]
  simp only [Bool.and_eq_true, Bool.or_eq_true, Bool.not_eq_true', beq_iff_eq, bne_iff_ne, ne_eq,
    Bool.or_eq_false_iff, h.square_eq, hrep'.square_eq, Bool.and_eq_false_imp, Bool.not_eq_false',
    decide_eq_false_iff_not] at hkh ⊢
  refine ⟨?_, ?_⟩
  · by_cases hfr : E1 = m.from
    · left; simp [← hfr]
    · rcases hkh.1 with h1 | h1
      · obtain ⟨a1, a2⟩ := h1; simp at a1 a2
        left; exact ⟨fun x => absurd a1 x.1, fun x => absurd a2 x.1⟩
      · right; rw [(boardAfter_king hok hcap h1).2 hfr]; exact h1
  · by_cases hfr : E8 = m.from
    · left; simp [← hfr]
    · rcases hkh.2 with h1 | h1
      · obtain ⟨a1, a2⟩ := h1; simp at a1 a2
        left; exact ⟨fun x => absurd a1 x.1, fun x => absurd a2 x.1⟩
      · right; rw [(boardAfter_king hok hcap h1).2 hfr]; exact h1

/-- Everything `abs_move` needs of one move played by `turn`. -/
def StepOK (p : Position) (turn : Color) (m : Move) : Bool :=
  MetaOK p m && ClassOK (abs p turn) m && m.capture != Piece.king &&
  (match p.square m.from with
   | some (c, _) => c == turn
   | none => false)

/-- Play a list of moves with alternating colours, insisting on `StepOK` at every step. -/
def playS (p : Position) (turn : Color) : List Move → Option (Position × Color)
  | [] => some (p, turn)
  | m :: ms =>
    if StepOK p turn m then
      match p.move m with
      | some q => playS q turn.opp ms
      | none => none
    else none

theorem play_refines_aux (ms : List Move) :
    ∀ (p : Position) (turn : Color) (b : Board) (q : Position) (t : Color),
      Rep p b → KingHome p = true → playS p turn ms = some (q, t) →
      Rep q q.square ∧ KingHome q = true ∧
        abs q t = ms.foldl (fun s m => Spec.apply s (absMove m)) (abs p turn) := by
  induction ms with
  | nil =>
    intro p turn b q t h hk hp
    simp only [playS, Option.some.injEq, Prod.mk.injEq] at hp
    obtain ⟨rfl, rfl⟩ := hp
    exact ⟨h.self, hk, rfl⟩
  | cons m ms ih =>
    intro p turn b q t h hk hp
    simp only [playS] at hp
    split at hp
    · rename_i hstep
      unfold StepOK at hstep
      simp only [Bool.and_eq_true, bne_iff_ne, ne_eq] at hstep
      obtain ⟨⟨⟨hok, hcl⟩, hcap⟩, hcol⟩ := hstep
      cases hsq : p.square m.from with
      | none => rw [hsq] at hcol; cases hcol
      | some x =>
        obtain ⟨c, pc⟩ := x
        rw [hsq] at hcol
        have hc : c = turn := by simpa using hcol
        subst hc
        cases hm : p.move m with
        | none => rw [hm] at hp; cases hp
        | some r =>
          rw [hm] at hp
          simp only at hp
          have hrep' := (move_rep h hok hm).1
          have hk' := kingHome_move h hok hk hcap hm
          have habs := abs_move h hok hsq hcl (landOK_of_kingHome h hok hk hcap c) hm
          obtain ⟨g1, g2, g3⟩ := ih r c.opp _ q t hrep' hk' hp
          refine ⟨g1, g2, ?_⟩
          rw [g3, habs]; rfl
    · cases hp

end Morlock.Proofs
