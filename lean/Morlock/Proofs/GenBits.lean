import Morlock.Proofs.RepBits
import Morlock.Proofs.AttackPawns
/-!
# Stage A of C01: `toSquares` enumerates exactly the set bits, and generic bitboard facts

`toSquares b` (Go `Bitboard.ToSquares`) pops the least significant set bit 64 times. For `b < 2^64`
it lists exactly the squares `sq` with `b.testBit sq`, each once, in increasing order.
-/
namespace Morlock.Proofs.Gen
open Morlock Morlock.Model

/-- `tzAux` finds the least set bit of a non-zero `b < 2^fuel`. -/
theorem tzAux_spec : ∀ (fuel b n : Nat), b ≠ 0 → b < 2 ^ fuel →
    ∃ k, tzAux fuel b n = n + k ∧ k < fuel ∧ b.testBit k = true ∧ ∀ j, j < k → b.testBit j = false := by
  intro fuel
  induction fuel with
  | zero => intro b n h0 hlt; simp at hlt; exact absurd hlt h0
  | succ fuel ih =>
    intro b n h0 hlt
    unfold tzAux
    by_cases hodd : b % 2 = 1
    · rw [if_pos hodd]
      exact ⟨0, rfl, by omega, by simp [hodd], fun j hj => by omega⟩
    · rw [if_neg hodd]
      have h1 : b / 2 ≠ 0 := by omega
      have h2 : b / 2 < 2 ^ fuel := by rw [Nat.pow_succ] at hlt; omega
      obtain ⟨k, hk, hkf, hbit, hlow⟩ := ih (b / 2) (n + 1) h1 h2
      refine ⟨k + 1, by rw [hk]; omega, by omega, by rw [Nat.testBit_add_one]; exact hbit, ?_⟩
      intro j hj
      cases j with
      | zero => simp [hodd]
      | succ j => rw [Nat.testBit_add_one]; exact hlow j (by omega)

/-- `lastPopSquare` of a non-zero 64-bit board is its least set bit. -/
theorem lastPopSquare_spec {b : Nat} (h0 : b ≠ 0) (hlt : b < 2 ^ 64) :
    lastPopSquare b < 64 ∧ b.testBit (lastPopSquare b) = true ∧
      ∀ j, j < lastPopSquare b → b.testBit j = false := by
  unfold lastPopSquare
  rw [if_neg h0]
  obtain ⟨k, hk, hkf, hbit, hlow⟩ := tzAux_spec 64 b 0 h0 hlt
  rw [hk, Nat.zero_add]
  exact ⟨hkf, hbit, hlow⟩

theorem testBit_high {x i : Nat} (hx : x < 2 ^ 64) (hi : 64 ≤ i) : x.testBit i = false :=
  Nat.testBit_lt_two_pow (Nat.lt_of_lt_of_le hx (Nat.pow_le_pow_right (by decide : 2 > 0) hi))

theorem lt_of_testBit {x i : Nat} (hx : x < 2 ^ 64) (h : x.testBit i = true) : i < 64 := by
  apply Classical.byContradiction
  intro hn
  rw [testBit_high hx (by omega)] at h
  cases h

theorem eq_zero_of_no_bits {x : Nat} (h : ∀ i, x.testBit i = false) : x = 0 := by
  apply Nat.eq_of_testBit_eq
  intro i; rw [h i, Nat.zero_testBit]

theorem toSquaresAux_spec : ∀ (fuel lo b : Nat), b < 2 ^ 64 → (∀ j, j < lo → b.testBit j = false) →
    64 ≤ fuel + lo →
    (∀ sq, sq ∈ toSquaresAux fuel b ↔ b.testBit sq = true) ∧
    (toSquaresAux fuel b).Pairwise (· < ·) ∧ (∀ sq ∈ toSquaresAux fuel b, lo ≤ sq) := by
  intro fuel
  induction fuel with
  | zero =>
    intro lo b hlt hlow hf
    have hb : b = 0 := by
      apply eq_zero_of_no_bits
      intro i
      by_cases hi : i < 64
      · exact hlow i (by omega)
      · exact testBit_high hlt (by omega)
    subst hb
    simp [toSquaresAux]
  | succ fuel ih =>
    intro lo b hlt hlow hf
    unfold toSquaresAux
    by_cases h0 : b = 0
    · subst h0; simp
    · rw [if_neg h0]
      obtain ⟨hk64, hbit, hleast⟩ := lastPopSquare_spec h0 hlt
      generalize lastPopSquare b = k at hk64 hbit hleast
      have hlok : lo ≤ k := by
        apply Classical.byContradiction; intro hn
        rw [hlow k (by omega)] at hbit; cases hbit
      have hlt' : b ^^^ bitMask k < 2 ^ 64 := xor_bitMask_lt hlt k
      have hlow' : ∀ j, j < k + 1 → (b ^^^ bitMask k).testBit j = false := by
        intro j hj
        rw [testBit_xor_bitMask _ hk64]
        by_cases e : j = k
        · subst e; simp [hbit]
        · simp [e, hleast j (by omega)]
      obtain ⟨hmem, hpw, hge⟩ := ih (k + 1) (b ^^^ bitMask k) hlt' hlow' (by omega)
      refine ⟨?_, ?_, ?_⟩
      · intro sq
        simp only [List.mem_cons, hmem, testBit_xor_bitMask _ hk64]
        by_cases e : sq = k
        · subst e; simp [hbit]
        · simp [e]
      · simp only [List.pairwise_cons]
        exact ⟨fun a ha => by have := hge a ha; omega, hpw⟩
      · intro sq hsq
        simp only [List.mem_cons] at hsq
        rcases hsq with rfl | hsq
        · exact hlok
        · have := hge sq hsq; omega

/-- **Stage A.** Membership in `toSquares`. -/
theorem mem_toSquares {b : Nat} (hb : b < 2 ^ 64) (sq : Nat) : sq ∈ toSquares b ↔ b.testBit sq = true :=
  (toSquaresAux_spec 64 0 b hb (fun j hj => by omega) (by omega)).1 sq

/-- **Stage A.** `toSquares` is strictly increasing. -/
theorem toSquares_sorted {b : Nat} (hb : b < 2 ^ 64) : (toSquares b).Pairwise (· < ·) :=
  (toSquaresAux_spec 64 0 b hb (fun j hj => by omega) (by omega)).2.1

/-- **Stage A.** `toSquares` lists every square once. -/
theorem toSquares_nodup {b : Nat} (hb : b < 2 ^ 64) : (toSquares b).Nodup :=
  (toSquares_sorted hb).imp (fun h => Nat.ne_of_lt h)

/-- **Stage A.** Everything listed by `toSquares` is a square of the board. -/
theorem toSquares_lt {b : Nat} (hb : b < 2 ^ 64) {sq : Nat} (h : sq ∈ toSquares b) : sq < 64 :=
  lt_of_testBit hb ((mem_toSquares hb sq).mp h)

/-! ## Bit tests of the generator's mask operations -/

theorem and_lt_left {x : Nat} (y : Nat) (hx : x < 2 ^ 64) : x &&& y < 2 ^ 64 :=
  Nat.lt_of_le_of_lt Nat.and_le_left hx

theorem and_lt_right (x : Nat) {y : Nat} (hy : y < 2 ^ 64) : x &&& y < 2 ^ 64 :=
  Nat.lt_of_le_of_lt Nat.and_le_right hy

theorem andNot_lt {x : Nat} (y : Nat) (hx : x < 2 ^ 64) : andNot x y < 2 ^ 64 := by
  apply Nat.lt_pow_two_of_testBit
  intro i hi
  rw [Attack.andNot_testBit, testBit_high hx hi]; rfl

theorem not64_testBit (x i : Nat) : (not64 x).testBit i = (decide (i < 64) && !x.testBit i) := by
  unfold not64 allOnes u64
  rw [Nat.testBit_xor, M64_eq, Nat.testBit_two_pow_sub_one, Nat.testBit_mod_two_pow]
  by_cases h : i < 64 <;> simp [h]

theorem not64_lt (x : Nat) : not64 x < 2 ^ 64 := by
  apply Nat.lt_pow_two_of_testBit
  intro i hi
  rw [not64_testBit]
  have : ¬ i < 64 := by omega
  simp [this]

theorem shl64_lt (x n : Nat) : shl64 x n < 2 ^ 64 := by
  unfold shl64 u64; rw [M64_eq]; exact Nat.mod_lt _ (by decide)

theorem shiftRight_lt {x : Nat} (n : Nat) (hx : x < 2 ^ 64) : x >>> n < 2 ^ 64 :=
  Nat.lt_of_le_of_lt (Nat.shiftRight_le x n) hx

theorem bitMask_testBit {k : Nat} (hk : k < 64) (i : Nat) : (bitMask k).testBit i = decide (i = k) := by
  rw [bitMask_lt hk, Nat.testBit_two_pow]
  by_cases e : k = i <;> simp [e, eq_comm]

theorem bitMask_testBit' (k i : Nat) : (bitMask k).testBit i = (decide (k < 64) && decide (i = k)) := by
  by_cases hk : k < 64
  · rw [bitMask_testBit hk]; simp [hk]
  · rw [bitMask_ge (by omega)]; simp [hk]

/-- `x &&& y ≠ 0` iff the two boards share a square. -/
theorem and_ne_zero_iff (x y : Nat) : ((x &&& y) != 0) = true ↔ ∃ t, x.testBit t = true ∧ y.testBit t = true := by
  rw [bne_iff_ne]
  constructor
  · intro h
    obtain ⟨i, hi⟩ := Nat.exists_testBit_of_ne_zero h
    rw [Nat.testBit_and, Bool.and_eq_true] at hi
    exact ⟨i, hi⟩
  · rintro ⟨t, h1, h2⟩ e
    have := congrArg (fun z => z.testBit t) e
    simp [h1, h2] at this

theorem bitRank_testBit {r : Nat} (hr : r < 8) (i : Nat) :
    (bitRank r).testBit i = decide (i / 8 = r) := by
  unfold bitRank
  rw [Attack.shl64_testBit]
  have e : (r <<< 3) % 256 = 8 * r := by rw [Nat.shiftLeft_eq]; omega
  rw [e]
  have h255 : (255 : Nat) = 2 ^ 8 - 1 := by decide
  rw [h255, Nat.testBit_two_pow_sub_one]
  by_cases h : i / 8 = r
  · have h1 : i < 64 := by omega
    have h2 : 8 * r ≤ i := by omega
    have h3 : i - 8 * r < 8 := by omega
    simp [h, h1, h2, h3]
  · simp only [h, decide_false]
    by_cases h1 : i < 64 <;> by_cases h2 : 8 * r ≤ i <;> simp [h1, h2]
    omega

end Morlock.Proofs.Gen
