import Morlock.Proofs.GenSpec
import Morlock.Proofs.GenSpecNodup
/-!
# C20: the legality of a promotion does not depend on the piece chosen (reference side)

If `⟨s, t, some k⟩` is a legal move then so is `⟨s, t, some k'⟩` for every promotion piece `k'`: the two
are generated together (`withPromo`), neither is a castle, and the positions after them differ only in
the kind of the mover's own non-king man on `t` — which changes neither the occupancy, nor the enemy men,
nor the mover's king, hence not whether that king is attacked.

Consequently the "no under-promotion" filter (`nup-*` explorations, the SARGON filter) keeps a legal move
whenever there is one.
-/
namespace Morlock.Spec
open Morlock.Proofs.Gen

/-- The "no under-promotion" filter on reference moves: not a promotion, or a promotion to a queen. -/
def notUnderPromo (m : SMove) : Bool :=
  match m.promo with
  | none => true
  | some k => k == .queen

/-- The same move promoting to `k`. -/
def withPiece (m : SMove) (k : Kind) : SMove := { m with promo := some k }

/-! ## reading cells of updated boards -/

theorem getD_setCell (b : Array (Option (Color × Kind))) (sq s : Nat) (v : Option (Color × Kind)) :
    (setCell b sq v).getD s none = if sq = s ∧ s < b.size then v else b.getD s none := by
  unfold setCell
  rw [Array.getD_eq_getD_getElem?, Array.getElem?_setIfInBounds, Array.getD_eq_getD_getElem?]
  by_cases h : sq = s
  · subst h
    by_cases h2 : sq < b.size
    · simp [h2]
    · simp [h2]
  · simp [h]

@[simp] theorem size_setCell (b : Array (Option (Color × Kind))) (sq : Nat) (v : Option (Color × Kind)) :
    (setCell b sq v).size = b.size := by
  unfold setCell; simp

/-! ## what `attackedBy` and `kingSquare?` look at -/

theorem find?_congr' {α : Type} {f g : α → Bool} {l : List α} (h : ∀ a ∈ l, f a = g a) :
    l.find? f = l.find? g := by
  induction l with
  | nil => rfl
  | cons a r ih =>
    rw [List.find?_cons, List.find?_cons, h a List.mem_cons_self,
      ih (fun x hx => h x (List.mem_cons_of_mem _ hx))]

theorem any_congr' {α : Type} {f g : α → Bool} {l : List α} (h : ∀ a ∈ l, f a = g a) :
    l.any f = l.any g := by
  induction l with
  | nil => rfl
  | cons a r ih =>
    rw [List.any_cons, List.any_cons, h a List.mem_cons_self,
      ih (fun x hx => h x (List.mem_cons_of_mem _ hx))]

/-- `kingSquare? · c` only looks at which squares hold the king of colour `c`. -/
theorem kingSquare_congr {q1 q2 : Pos} {c : Color}
    (h : ∀ s, q1.at s = some (c, .king) ↔ q2.at s = some (c, .king)) :
    kingSquare? q1 c = kingSquare? q2 c := by
  unfold kingSquare?
  apply find?_congr'
  intro s _
  exact decide_eq_decide.mpr (h s)

/-- `attackedBy · c` only looks at the occupancy and at the men of colour `c`. -/
theorem attackedBy_congr {q1 q2 : Pos} {c : Color}
    (hocc : ∀ s, q1.occ s = q2.occ s)
    (hmen : ∀ s k, q1.at s = some (c, k) ↔ q2.at s = some (c, k)) (t : Sq) :
    attackedBy q1 c t = attackedBy q2 c t := by
  unfold attackedBy
  have ho : q1.occ = q2.occ := funext hocc
  apply any_congr'
  intro s _
  cases h1 : q1.at s with
  | none =>
    cases h2 : q2.at s with
    | none => rfl
    | some v2 =>
      obtain ⟨c2, k2⟩ := v2
      by_cases hc : c2 = c
      · subst hc
        have := (hmen s k2).mpr h2
        rw [h1] at this; cases this
      · simp [hc]
  | some v1 =>
    obtain ⟨c1, k1⟩ := v1
    by_cases hc : c1 = c
    · subst hc
      rw [(hmen s k1).mp h1, ho]
    · cases h2 : q2.at s with
      | none => simp [hc]
      | some v2 =>
        obtain ⟨c2, k2⟩ := v2
        by_cases hc2 : c2 = c
        · subst hc2
          have := (hmen s k2).mpr h2
          rw [h1] at this
          simp only [Option.some.injEq, Prod.mk.injEq] at this
          exact absurd this.1 hc
        · simp [hc, hc2]

/-- Two positions that agree except for the kinds of some non-king men of colour `c`: the king of `c`
    is in check in both or in neither. -/
theorem inCheck_congr_own {q1 q2 : Pos} {c : Color}
    (h : ∀ s, q1.at s = q2.at s ∨
      ∃ k1 k2, q1.at s = some (c, k1) ∧ q2.at s = some (c, k2) ∧ k1 ≠ .king ∧ k2 ≠ .king) :
    inCheck q1 c = inCheck q2 c := by
  unfold inCheck
  have hk : kingSquare? q1 c = kingSquare? q2 c := by
    apply kingSquare_congr
    intro s
    rcases h s with e | ⟨k1, k2, e1, e2, n1, n2⟩
    · rw [e]
    · rw [e1, e2]
      simp only [Option.some.injEq, Prod.mk.injEq, true_and]
      exact ⟨fun e => absurd e n1, fun e => absurd e n2⟩
  rw [hk]
  cases kingSquare? q2 c with
  | none => rfl
  | some ks =>
    apply attackedBy_congr
    · intro s
      unfold Pos.occ
      rcases h s with e | ⟨k1, k2, e1, e2, _, _⟩
      · rw [e]
      · rw [e1, e2]; rfl
    · intro s k
      rcases h s with e | ⟨k1, k2, e1, e2, _, _⟩
      · rw [e]
      · rw [e1, e2]
        simp only [Option.some.injEq, Prod.mk.injEq]
        have : c ≠ c.opp := by cases c <;> decide
        exact ⟨fun e => absurd e.1 this, fun e => absurd e.1 this⟩

/-! ## a promotion and its siblings -/

theorem mem_promoKinds {k : Kind} : k ∈ promoKinds ↔ k = .queen ∨ k = .rook ∨ k = .knight ∨ k = .bishop := by
  simp [promoKinds]

theorem ne_king_of_mem_promoKinds {k : Kind} (h : k ∈ promoKinds) : k ≠ .king := by
  intro e; subst e; simp [promoKinds] at h

/-- A pseudo-legal move carrying a promotion piece is a pawn move onto the last rank, the piece is one of
    Q, R, N, B, and its siblings with the other pieces are pseudo-legal as well. -/
theorem pseudo_promo {p : Pos} {m : SMove} {k : Kind} (hm : m ∈ pseudoMoves p) (hk : m.promo = some k) :
    p.at m.from = some (p.turn, .pawn) ∧ k ∈ promoKinds ∧
      ∀ k' ∈ promoKinds, withPiece m k' ∈ pseudoMoves p := by
  obtain ⟨hlt, hmf⟩ := mem_pseudoMoves.mp hm
  obtain ⟨k0, hat⟩ := at_of_mem_movesFrom hmf
  -- the siblings of a `withPromo` member
  have sib : ∀ {t : Sq}, m ∈ withPromo p.turn m.from t →
      k ∈ promoKinds ∧ ∀ k' ∈ promoKinds, withPiece m k' ∈ withPromo p.turn m.from t := by
    intro t hw
    obtain ⟨_, h2, h3⟩ := mem_withPromo.mp hw
    rcases h3 with ⟨hr, k1, hk1, hp1⟩ | ⟨_, hp1⟩
    · rw [hk] at hp1
      simp only [Option.some.injEq] at hp1
      subst hp1
      refine ⟨hk1, fun k' hk' => mem_withPromo.mpr ⟨rfl, h2, Or.inl ⟨hr, k', hk', rfl⟩⟩⟩
    · rw [hk] at hp1; cases hp1
  by_cases hpawn : k0 = .pawn
  · subst hpawn
    refine ⟨hat, ?_⟩
    rw [movesFrom_pawn hat, List.mem_append] at hmf
    have lift : ∀ k' ∈ promoKinds, withPiece m k' ∈ movesFrom p m.from →
        withPiece m k' ∈ pseudoMoves p := fun k' _ h => mem_pseudoMoves.mpr ⟨hlt, h⟩
    rcases hmf with hmf | hmf
    · obtain ⟨t, hst, hocc, hw | ⟨_, t2, _, _, he⟩⟩ := mem_pawnPushes.mp hmf
      · obtain ⟨h1, h2⟩ := sib hw
        refine ⟨h1, fun k' hk' => lift k' hk' ?_⟩
        rw [movesFrom_pawn hat, List.mem_append]
        exact Or.inl (mem_pawnPushes.mpr ⟨t, hst, hocc, Or.inl (h2 k' hk')⟩)
      · rw [he] at hk; cases hk
    · obtain ⟨t, ht, ⟨hen, hw⟩ | ⟨_, _, he⟩⟩ := mem_pawnCaps.mp hmf
      · obtain ⟨h1, h2⟩ := sib hw
        refine ⟨h1, fun k' hk' => lift k' hk' ?_⟩
        rw [movesFrom_pawn hat, List.mem_append]
        exact Or.inr (mem_pawnCaps.mpr ⟨t, ht, Or.inl ⟨hen, h2 k' hk'⟩⟩)
      · rw [he] at hk; cases hk
  · exfalso
    rw [movesFrom_officer hat hpawn, List.mem_append] at hmf
    rcases hmf with hmf | hmf
    · have := (mem_officerNormal.mp hmf).2.1
      rw [hk] at this; cases this
    · unfold castlesFrom at hmf
      split at hmf
      · rw [List.mem_append] at hmf
        rcases hmf with hmf | hmf <;> split at hmf <;>
          first
          | (simp only [List.mem_singleton] at hmf; rw [hmf] at hk; cases hk)
          | cases hmf
      · cases hmf

/-- The board after a move, before the moved (or promoted) man is put on the destination square. It
    does not depend on the promotion piece. -/
def baseBoard (p : Pos) (m : SMove) (c : Color) : Array (Option (Color × Kind)) :=
  let b := p.board
  let b := if isEnPassant p m then setCell b (mkSq (fileOf m.to) (rankOf m.from)) none else b
  let b :=
    if isCastle p m then
      if fileOf m.to = fG then
        setCell (setCell b (mkSq fH (rankOf m.from)) none) (mkSq fF (rankOf m.from)) (some (c, .rook))
      else
        setCell (setCell b (mkSq fA (rankOf m.from)) none) (mkSq fD (rankOf m.from)) (some (c, .rook))
    else b
  setCell b m.from none

theorem apply_board_eq {p : Pos} {m : SMove} {c : Color} {k : Kind} (hat : p.at m.from = some (c, k)) :
    (apply p m).board =
      setCell (baseBoard p m c) m.to (some (c, match m.promo with | some pk => pk | none => k)) := by
  unfold apply
  simp only [hat]
  rfl

theorem baseBoard_withPiece (p : Pos) (m : SMove) (c : Color) (k : Kind) :
    baseBoard p (withPiece m k) c = baseBoard p m c := rfl

/-- After a pawn move, the positions reached with two different promotion pieces agree on every cell
    except that the destination holds the mover's colour with the respective kinds. -/
theorem apply_withPiece_at {p : Pos} {m : SMove} {c : Color} (hat : p.at m.from = some (c, .pawn))
    (k1 k2 : Kind) (s : Sq) :
    (apply p (withPiece m k1)).at s = (apply p (withPiece m k2)).at s ∨
      ((apply p (withPiece m k1)).at s = some (c, k1) ∧ (apply p (withPiece m k2)).at s = some (c, k2)) := by
  have e1 : (apply p (withPiece m k1)).board = setCell (baseBoard p m c) m.to (some (c, k1)) :=
    apply_board_eq (p := p) (m := withPiece m k1) (c := c) (k := .pawn) hat
  have e2 : (apply p (withPiece m k2)).board = setCell (baseBoard p m c) m.to (some (c, k2)) :=
    apply_board_eq (p := p) (m := withPiece m k2) (c := c) (k := .pawn) hat
  unfold Pos.at
  rw [e1, e2, getD_setCell, getD_setCell]
  by_cases hs : m.to = s ∧ s < (baseBoard p m c).size
  · right
    rw [if_pos hs, if_pos hs]
    exact ⟨rfl, rfl⟩
  · left
    rw [if_neg hs, if_neg hs]

theorem isCastle_withPiece (p : Pos) (m : SMove) (k : Kind) : isCastle p (withPiece m k) = isCastle p m := rfl

theorem withPiece_self {m : SMove} {k : Kind} (h : m.promo = some k) : withPiece m k = m := by
  cases m; simp only [withPiece] at h ⊢; rw [h]

/-- **Legality of a promotion does not depend on the piece chosen.** -/
theorem isLegal_withPiece {p : Pos} {m : SMove} (hat : p.at m.from = some (p.turn, .pawn))
    {k1 k2 : Kind} (h1 : k1 ≠ .king) (h2 : k2 ≠ .king) :
    isLegal p (withPiece m k1) = isLegal p (withPiece m k2) := by
  have hc : ∀ k, isCastle p (withPiece m k) = false := by intro k; simp [isCastle, withPiece, hat]
  unfold isLegal
  simp only [hc, Bool.false_eq_true, if_false, Bool.true_and]
  congr 1
  apply inCheck_congr_own
  intro s
  rcases apply_withPiece_at hat k1 k2 s with e | ⟨e1, e2⟩
  · exact Or.inl e
  · exact Or.inr ⟨k1, k2, e1, e2, h1, h2⟩

/-- If a promotion is legal, the promotion of the same pawn to the same square to any of Q, R, N, B is legal. -/
theorem legal_promo_any {p : Pos} {m : SMove} {k : Kind} (hm : m ∈ legalMoves p) (hk : m.promo = some k) :
    ∀ k' ∈ promoKinds, withPiece m k' ∈ legalMoves p := by
  unfold legalMoves at hm ⊢
  rw [List.mem_filter] at hm
  obtain ⟨hat, hkin, hsib⟩ := pseudo_promo hm.1 hk
  intro k' hk'
  rw [List.mem_filter]
  refine ⟨hsib k' hk', ?_⟩
  rw [isLegal_withPiece (m := m) hat (ne_king_of_mem_promoKinds hk') (ne_king_of_mem_promoKinds hkin),
    withPiece_self hk]
  exact hm.2

/-- In particular the queen promotion is legal. -/
theorem legal_promo_queen {p : Pos} {m : SMove} {k : Kind} (hm : m ∈ legalMoves p) (hk : m.promo = some k) :
    (⟨m.from, m.to, some .queen⟩ : SMove) ∈ legalMoves p :=
  legal_promo_any hm hk .queen (by simp [promoKinds])

/-- For every legal move there is a legal move with the same origin and destination that passes the
    "no under-promotion" filter. -/
theorem exists_notUnderPromo {p : Pos} {m : SMove} (hm : m ∈ legalMoves p) :
    ∃ m' ∈ legalMoves p, m'.from = m.from ∧ m'.to = m.to ∧ notUnderPromo m' = true := by
  cases hp : m.promo with
  | none => exact ⟨m, hm, rfl, rfl, by simp [notUnderPromo, hp]⟩
  | some k => exact ⟨_, legal_promo_queen hm hp, rfl, rfl, rfl⟩

/-- **The no-under-promotion filter keeps a legal move whenever there is one.** -/
theorem filter_notUnderPromo_ne_nil {p : Pos} (h : legalMoves p ≠ []) :
    (legalMoves p).filter notUnderPromo ≠ [] := by
  obtain ⟨m, hm⟩ := List.exists_mem_of_ne_nil _ h
  obtain ⟨m', hm', _, _, hn⟩ := exists_notUnderPromo hm
  exact List.ne_nil_of_mem (List.mem_filter.mpr ⟨hm', hn⟩)

/-- The reference legal-move list has no duplicates. -/
theorem legalMoves_nodup (p : Pos) : (legalMoves p).Nodup :=
  (pseudoMoves_nodup p).filter _

/-- The filter selects legal moves only, each once, in the order of the legal-move list. -/
theorem filter_notUnderPromo_sound (p : Pos) :
    ((legalMoves p).filter notUnderPromo).Sublist (legalMoves p) ∧
    ((legalMoves p).filter notUnderPromo).Nodup :=
  ⟨List.filter_sublist, (legalMoves_nodup p).filter _⟩

end Morlock.Spec
