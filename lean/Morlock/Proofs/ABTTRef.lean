import Morlock.Proofs.ABTTQuiesce
import Morlock.Proofs.ABFuel
/-!
# Table soundness: definitions and the `TTState.read` / `TTState.write` lemmas (helper for C11 / C12)

The hypotheses about draws and hashes are stated **on a region**: a depth-indexed set of positions
`R : Nat → P → Prop` (`R n p`: the search may visit `p` with remaining depth `n`) that is `Closed` under the
steps the search makes (an explored legal move from a position of `R (n+1)` leads into `R n`). The smallest
such region containing the root is `Tree g ex root d` (positions reached from `root` by `k ≤ d` explored legal
moves, at remaining depth `d - k`). The global forms `RootFree` / `NoDraw` / `HashOK` / `Sound` (quantifying over
the whole state type - false for state types with junk states such as `World`) are the special case
`R = Everywhere`.
-/
namespace Morlock.Proofs.AB
open Morlock Morlock.Model Morlock.Model.Score Morlock.Spec
open Morlock.Props.C09
variable {P : Type}

/-- Plain negamax without the root exception: a drawn position is worth 0 wherever it occurs. This is the
    position-determined value the table stores. -/
def V' (g : Game P) (ex : P → Explore) (le : LeafEval P) : Nat → P → Score
  | 0, p => if g.isDraw p then zeroScore else leafV g le p
  | d + 1, p =>
    if g.isDraw p then zeroScore
    else if !legalAny g p (g.moves p) then terminal g p
    else ((kids g ex p (g.moves p)).map fun c => lift (V' g ex le d c)).foldl Score.max negInfScore

/-! ## Regions -/

/-- One step of the search: an explored legal move of the generated list. -/
def Step (g : Game P) (ex : P → Explore) (p c : P) : Prop :=
  ∃ m, m ∈ g.moves p ∧ (ex p).pick m = true ∧ g.push p m = some c

/-- A depth-indexed set of positions closed under the steps of the search. -/
def Closed (g : Game P) (ex : P → Explore) (R : Nat → P → Prop) : Prop :=
  ∀ n p m c, R (n + 1) p → m ∈ g.moves p → (ex p).pick m = true → g.push p m = some c → R n c

/-- The trivial region: every state at every depth. -/
def Everywhere : Nat → P → Prop := fun _ _ => True

theorem closed_everywhere (g : Game P) (ex : P → Explore) : Closed g ex (Everywhere (P := P)) :=
  fun _ _ _ _ _ _ _ _ => trivial

/-- `q` is reached from `p` by exactly `k` steps. -/
def Reach (g : Game P) (ex : P → Explore) : Nat → P → P → Prop
  | 0, p, q => q = p
  | k + 1, p, q => ∃ q', Reach g ex k p q' ∧ Step g ex q' q

/-- The search tree of depth `d` below `root`: `Tree g ex root d n q` iff `q` is reached from `root` by
    `d - n` explored legal moves (`n ≤ d` is the remaining depth at `q`). -/
def Tree (g : Game P) (ex : P → Explore) (root : P) (d : Nat) : Nat → P → Prop :=
  fun n q => ∃ k, k + n = d ∧ Reach g ex k root q

theorem tree_root (g : Game P) (ex : P → Explore) (root : P) (d : Nat) : Tree g ex root d d root :=
  ⟨0, by omega, rfl⟩

theorem tree_closed (g : Game P) (ex : P → Explore) (root : P) (d : Nat) : Closed g ex (Tree g ex root d) := by
  intro n p m c ⟨k, hk, hr⟩ hm hp hpush
  exact ⟨k + 1, by omega, p, hr, m, hm, hp, hpush⟩

/-- The tree is the smallest closed region containing the root at depth `d`. -/
theorem tree_least {g : Game P} {ex : P → Explore} {R : Nat → P → Prop} (hcl : Closed g ex R) {root : P} {d : Nat}
    (hroot : R d root) : ∀ n q, Tree g ex root d n q → R n q := by
  intro n q ⟨k, hk, hr⟩
  induction k generalizing n q with
  | zero => cases hr; have : n = d := by omega
            rw [this]; exact hroot
  | succ k ih =>
    obtain ⟨q', hq', m, hm, hp, hpush⟩ := hr
    exact hcl n q' m q (ih (n + 1) q' (by omega) hq') hm hp hpush

/-- The union of the trees of a list of searches `(root, depth)`. -/
def Trees (g : Game P) (ex : P → Explore) (l : List (P × Nat)) : Nat → P → Prop :=
  fun n q => ∃ pd ∈ l, Tree g ex pd.1 pd.2 n q

theorem trees_closed (g : Game P) (ex : P → Explore) (l : List (P × Nat)) : Closed g ex (Trees g ex l) := by
  intro n p m c ⟨pd, hpd, ht⟩ hm hp hpush
  exact ⟨pd, hpd, tree_closed g ex pd.1 pd.2 n p m c ht hm hp hpush⟩

/-- The positions `k` steps below `root`, as a list (in search order, with multiplicity). -/
def level (g : Game P) (ex : P → Explore) (root : P) : Nat → List P
  | 0 => [root]
  | k + 1 => (level g ex root k).flatMap fun q => kids g ex q (g.moves q)

theorem kids_iff {g : Game P} {ex : P → Explore} {p c : P} : c ∈ kids g ex p (g.moves p) ↔ Step g ex p c := by
  constructor
  · exact mem_kids
  · rintro ⟨m, hm, hp, hpush⟩
    unfold kids
    simp only [List.mem_filterMap]
    exact ⟨m, hm, by simp [hp, hpush]⟩

theorem reach_iff_level (g : Game P) (ex : P → Explore) (root : P) :
    ∀ k q, Reach g ex k root q ↔ q ∈ level g ex root k := by
  intro k
  induction k with
  | zero => intro q; simp [Reach, level]
  | succ k ih =>
    intro q
    simp only [Reach, level, List.mem_flatMap]
    constructor
    · rintro ⟨q', h1, h2⟩; exact ⟨q', (ih q').1 h1, kids_iff.2 h2⟩
    · rintro ⟨q', h1, h2⟩; exact ⟨q', (ih q').2 h1, kids_iff.1 h2⟩

/-- All positions of the tree of depth `d`, as a list. -/
def treeList (g : Game P) (ex : P → Explore) (root : P) (d : Nat) : List P :=
  (List.range (d + 1)).flatMap (level g ex root)

theorem reach_trans {g : Game P} {ex : P → Explore} {root p : P} {k : Nat} (h : Reach g ex k root p) :
    ∀ (j : Nat) (q : P), Reach g ex j p q → Reach g ex (k + j) root q := by
  intro j
  induction j with
  | zero => intro q hq; cases hq; exact h
  | succ j ih =>
    intro q ⟨q', hq', hs⟩
    exact ⟨q', ih q' hq', hs⟩

/-- The tree below a position `k` steps below `root` is part of the tree below `root`, `k` levels deeper. -/
theorem tree_sub {g : Game P} {ex : P → Explore} {root p : P} {k : Nat} (h : Reach g ex k root p) (d : Nat) :
    ∀ n q, Tree g ex p d n q → Tree g ex root (k + d) n q := by
  intro n q ⟨j, hj, hr⟩
  exact ⟨k + j, by omega, reach_trans h j q hr⟩

theorem tree_mem_treeList {g : Game P} {ex : P → Explore} {root : P} {d n : Nat} {q : P}
    (h : Tree g ex root d n q) {D : Nat} (hD : d ≤ D) : q ∈ treeList g ex root D := by
  obtain ⟨k, hk, hr⟩ := h
  simp only [treeList, List.mem_flatMap, List.mem_range]
  exact ⟨k, by omega, (reach_iff_level g ex root k q).1 hr⟩

/-- Cover of the tree below a position of the tree. -/
theorem tree_mem_treeList_of_reach {g : Game P} {ex : P → Explore} {root p : P} {k : Nat} (h : Reach g ex k root p)
    {d n : Nat} {q : P} (ht : Tree g ex p d n q) {D : Nat} (hD : k + d ≤ D) : q ∈ treeList g ex root D :=
  tree_mem_treeList (tree_sub h d n q ht) hD

/-- All positions of the trees of a list of searches, as a list. -/
def treesList (g : Game P) (ex : P → Explore) (l : List (P × Nat)) : List P :=
  l.flatMap fun pd => treeList g ex pd.1 pd.2

theorem trees_mem_treesList {g : Game P} {ex : P → Explore} {l : List (P × Nat)} {n : Nat} {q : P}
    (h : Trees g ex l n q) : q ∈ treesList g ex l := by
  obtain ⟨pd, hpd, ht⟩ := h
  simp only [treesList, List.mem_flatMap]
  exact ⟨pd, hpd, tree_mem_treeList ht (Nat.le_refl _)⟩

/-! ## Draws and hashes on a region -/

/-- No position of the region can be claimed drawn. -/
def NoDrawOn (g : Game P) (R : Nat → P → Prop) : Prop := ∀ n p, R n p → g.isDraw p = false

/-- No drawn position of the region sits at the ply of the search root (so the root exception of `V` never
    fires inside the region). -/
def RootFreeOn (g : Game P) (R : Nat → P → Prop) (rootPly : Int) : Prop :=
  ∀ n p, R n p → g.isDraw p = true → g.ply p ≠ rootPly

theorem NoDrawOn.rootFreeOn {g : Game P} {R : Nat → P → Prop} (h : NoDrawOn g R) (r : Int) : RootFreeOn g R r := by
  intro n p hR hp; rw [h n p hR] at hp; cases hp

theorem RootFreeOn.mono {g : Game P} {R R' : Nat → P → Prop} {r : Int} (h : RootFreeOn g R r)
    (hsub : ∀ n q, R' n q → R n q) : RootFreeOn g R' r := fun n p hp => h n p (hsub n p hp)

theorem NoDrawOn.mono {g : Game P} {R R' : Nat → P → Prop} (h : NoDrawOn g R)
    (hsub : ∀ n q, R' n q → R n q) : NoDrawOn g R' := fun n p hp => h n p (hsub n p hp)

/-- No draw can be claimed anywhere (global form: the whole state type). -/
def NoDraw (g : Game P) : Prop := ∀ p, g.isDraw p = false

/-- No drawn position sits at the ply of the search root (global form: the whole state type). -/
def RootFree (g : Game P) (rootPly : Int) : Prop := ∀ p, g.isDraw p = true → g.ply p ≠ rootPly

theorem NoDraw.rootFree {g : Game P} (h : NoDraw g) (r : Int) : RootFree g r := by
  intro p hp; rw [h p] at hp; cases hp

theorem RootFree.on {g : Game P} {r : Int} (h : RootFree g r) (R : Nat → P → Prop) : RootFreeOn g R r :=
  fun _ p _ hp => h p hp

theorem NoDraw.on {g : Game P} (h : NoDraw g) (R : Nat → P → Prop) : NoDrawOn g R := fun _ p _ => h p

theorem draw_cond {g : Game P} {R : Nat → P → Prop} {r : Int} (h : RootFreeOn g R r) {n : Nat} {p : P}
    (hp : R n p) : (!(g.ply p == r) && g.isDraw p) = g.isDraw p := by
  cases hd : g.isDraw p with
  | false => simp
  | true =>
    have := h n p hp hd
    simp [this]

/-- Under `RootFreeOn` the reference value `V` does not depend on the root ply inside the region: it is `V'`. -/
theorem V_eq_V'_on {g : Game P} (ex : P → Explore) (le : LeafEval P) {R : Nat → P → Prop} {r : Int}
    (hcl : Closed g ex R) (h : RootFreeOn g R r) :
    ∀ d p, R d p → V g ex le r d p = V' g ex le d p := by
  intro d
  induction d with
  | zero => intro p hp; simp only [V, V', draw_cond h hp]
  | succ d ih =>
    intro p hp
    simp only [V, V', draw_cond h hp]
    have : (kids g ex p (g.moves p)).map (fun c => lift (V g ex le r d c)) =
        (kids g ex p (g.moves p)).map (fun c => lift (V' g ex le d c)) := by
      apply List.map_congr_left
      intro c hc
      obtain ⟨m, hm, hpk, hpush⟩ := mem_kids hc
      rw [ih c (hcl d p m c hp hm hpk hpush)]
    rw [this]

/-- Global form of `V_eq_V'_on`. -/
theorem V_eq_V' {g : Game P} (ex : P → Explore) (le : LeafEval P) {r : Int} (h : RootFree g r) :
    ∀ d p, V g ex le r d p = V' g ex le d p :=
  fun d p => V_eq_V'_on ex le (closed_everywhere g ex) (h.on _) d p trivial

/-- Two positions of the region with the same hash have the same value at every remaining depth at which
    both occur. -/
def HashOKOn (g : Game P) (ex : P → Explore) (le : LeafEval P) (U : Nat → P → Prop) : Prop :=
  ∀ n p q, U n p → U n q → g.hash p = g.hash q → V' g ex le n p = V' g ex le n q

/-- Positions with the same hash have the same value at every depth (global form). -/
def HashOK (g : Game P) (ex : P → Explore) (le : LeafEval P) : Prop :=
  ∀ p q, g.hash p = g.hash q → ∀ d, V' g ex le d p = V' g ex le d q

theorem HashOK.on {g : Game P} {ex : P → Explore} {le : LeafEval P} (h : HashOK g ex le) (U : Nat → P → Prop) :
    HashOKOn g ex le U := fun n p q _ _ hpq => h p q hpq n

theorem HashOKOn.mono {g : Game P} {ex : P → Explore} {le : LeafEval P} {U U' : Nat → P → Prop}
    (h : HashOKOn g ex le U) (hsub : ∀ n q, U' n q → U n q) : HashOKOn g ex le U' :=
  fun n p q hp hq => h n p q (hsub n p hp) (hsub n q hq)

theorem hashOK_of_injective {g : Game P} (ex : P → Explore) (le : LeafEval P)
    (h : ∀ p q, g.hash p = g.hash q → p = q) : HashOK g ex le := by
  intro p q hpq d; rw [h p q hpq]

/-- The hash is injective on the region. -/
theorem hashOKOn_of_injOn {g : Game P} (ex : P → Explore) (le : LeafEval P) {U : Nat → P → Prop}
    (h : ∀ n p q, U n p → U n q → g.hash p = g.hash q → p = q) : HashOKOn g ex le U := by
  intro n p q hp hq hpq; rw [h n p q hp hq hpq]

theorem inj_of_nodup_map {α β : Type} (f : α → β) : ∀ (l : List α), (l.map f).Nodup →
    ∀ a ∈ l, ∀ b ∈ l, f a = f b → a = b := by
  intro l
  induction l with
  | nil => intro _ a ha; cases ha
  | cons x xs ih =>
    intro hnd a ha b hb hab
    simp only [List.map_cons, List.nodup_cons, List.mem_map, not_exists, not_and] at hnd
    rcases List.mem_cons.1 ha with rfl | ha' <;> rcases List.mem_cons.1 hb with rfl | hb'
    · rfl
    · exact absurd hab.symm (hnd.1 b hb')
    · exact absurd hab (hnd.1 a ha')
    · exact ih hnd.2 a ha' b hb' hab

/-- **Checkable sufficient condition for `HashOKOn`**: the region is covered by a list of positions with
    pairwise distinct hashes. -/
theorem hashOKOn_of_list {g : Game P} (ex : P → Explore) (le : LeafEval P) {U : Nat → P → Prop} (L : List P)
    (hcov : ∀ n q, U n q → q ∈ L) (hnd : (L.map g.hash).Nodup) : HashOKOn g ex le U :=
  hashOKOn_of_injOn ex le fun n p q hp hq hpq => inj_of_nodup_map g.hash L hnd p (hcov n p hp) q (hcov n q hq) hpq

/-- **Checkable sufficient condition for `NoDrawOn`**: the region is covered by a list of positions none of
    which is drawn. -/
theorem noDrawOn_of_list {g : Game P} {U : Nat → P → Prop} (L : List P)
    (hcov : ∀ n q, U n q → q ∈ L) (hall : (L.all fun q => !g.isDraw q) = true) : NoDrawOn g U := by
  intro n q hq
  have := List.all_eq_true.1 hall q (hcov n q hq)
  simpa using this

/-- Every exact entry of the table is the true value, at the stored depth, of every position of the region
    (at that remaining depth) with the stored hash. -/
def SoundOn (g : Game P) (ex : P → Explore) (le : LeafEval P) (U : Nat → P → Prop) (t : TTState) : Prop :=
  ∀ e, some e ∈ t.slots → e.bound = 0 → ∀ p, U e.depth p → g.hash p = e.hash → e.score = V' g ex le e.depth p

/-- Every exact entry of the table is the true value, at the stored depth, of every position with the
    stored hash (global form). -/
def Sound (g : Game P) (ex : P → Explore) (le : LeafEval P) (t : TTState) : Prop :=
  ∀ e, some e ∈ t.slots → e.bound = 0 → ∀ p, g.hash p = e.hash → e.score = V' g ex le e.depth p

theorem sound_iff_on {g : Game P} {ex : P → Explore} {le : LeafEval P} {t : TTState} :
    Sound g ex le t ↔ SoundOn g ex le Everywhere t :=
  ⟨fun h e he hb p _ hp => h e he hb p hp, fun h e he hb p hp => h e he hb p trivial hp⟩

theorem Sound.on {g : Game P} {ex : P → Explore} {le : LeafEval P} {t : TTState} (h : Sound g ex le t)
    (U : Nat → P → Prop) : SoundOn g ex le U t := fun e he hb p _ hp => h e he hb p hp

theorem SoundOn.mono {g : Game P} {ex : P → Explore} {le : LeafEval P} {t : TTState} {U U' : Nat → P → Prop}
    (h : SoundOn g ex le U t) (hsub : ∀ n q, U' n q → U n q) : SoundOn g ex le U' t :=
  fun e he hb p hp => h e he hb p (hsub _ p hp)

theorem soundOn_new (g : Game P) (ex : P → Explore) (le : LeafEval P) (U : Nat → P → Prop) (size : Nat) (minDepth : Int) :
    SoundOn g ex le U (TTState.new size minDepth) := by
  intro e he
  simp [TTState.new] at he

theorem sound_new (g : Game P) (ex : P → Explore) (le : LeafEval P) (size : Nat) (minDepth : Int) :
    Sound g ex le (TTState.new size minDepth) := by
  intro e he
  simp [TTState.new] at he

theorem soundOn_empty (g : Game P) (ex : P → Explore) (le : LeafEval P) (U : Nat → P → Prop) {t : TTState}
    (h : t.slots.size = 0) : SoundOn g ex le U t := by
  intro e he
  have : t.slots = #[] := Array.eq_empty_of_size_eq_zero h
  rw [this] at he
  simp at he

theorem sound_empty (g : Game P) (ex : P → Explore) (le : LeafEval P) {t : TTState} (h : t.slots.size = 0) :
    Sound g ex le t := sound_iff_on.2 (soundOn_empty g ex le _ h)

theorem read_some {t : TTState} {h : Nat} {e : TTEntry} (hr : t.read h = some e) :
    some e ∈ t.slots ∧ e.hash = h := by
  unfold TTState.read at hr
  split at hr
  · cases hr
  · rename_i hsz
    have hlt : h % t.slots.size < t.slots.size := Nat.mod_lt _ (by omega)
    split at hr
    · rename_i e' heq
      split at hr
      · rename_i hh
        cases hr
        refine ⟨?_, hh⟩
        rw [Array.getD_eq_getD_getElem?, Array.getElem?_eq_getElem hlt] at heq
        simp only [Option.getD_some] at heq
        rw [← heq]
        exact Array.getElem_mem hlt
      · cases hr
    · cases hr

theorem u16_nat (n : Nat) (h : n < 65536) : u16 ((n : Nat) : Int) = n := by
  unfold u16; omega

/-- Writing a true value keeps the table sound. -/
theorem write_soundOn {g : Game P} {ex : P → Explore} {le : LeafEval P} {U : Nat → P → Prop} {t : TTState}
    (hs : SoundOn g ex le U t)
    (h : Nat) (ply depth : Int) (s : Score) (m : Move)
    (hv : ∀ p, U (u16 depth) p → g.hash p = h → s = V' g ex le (u16 depth) p) :
    SoundOn g ex le U (t.write h 0 ply depth s m).1 := by
  unfold TTState.write
  split
  · exact hs
  · split
    · exact hs
    · dsimp only
      split
      · exact hs
      · intro e he hb p hU hp
        dsimp only at he
        rcases Array.mem_or_eq_of_mem_setIfInBounds he with he | he
        · exact hs e he hb p hU hp
        · cases he
          exact hv p hU hp

theorem write_sound {g : Game P} {ex : P → Explore} {le : LeafEval P} {t : TTState} (hs : Sound g ex le t)
    (h : Nat) (ply depth : Int) (s : Score) (m : Move)
    (hv : ∀ p, g.hash p = h → s = V' g ex le (u16 depth) p) :
    Sound g ex le (t.write h 0 ply depth s m).1 :=
  sound_iff_on.2 (write_soundOn (sound_iff_on.1 hs) h ply depth s m (fun p _ hp => hv p hp))

end Morlock.Proofs.AB
