import Morlock.Proofs.ABTTQuiesce
/-!
# Table soundness: definitions and the `TTState.read` / `TTState.write` lemmas (helper for C11 / C12)
-/
namespace Morlock.Proofs.AB
open Morlock Morlock.Model Morlock.Model.Score Morlock.Spec
open Morlock.Props.C09
variable {P : Type}

/-- Plain negamax without the root exception: a drawn position is worth 0 wherever it occurs. This is the
    position-determined value the table stores. -/
def V' (g : Game P) (ex : Explore) (le : LeafEval) : Nat → P → Score
  | 0, p => if g.isDraw p then zeroScore else leafV g le p
  | d + 1, p =>
    if g.isDraw p then zeroScore
    else if !legalAny g p (g.moves p) then terminal g p
    else ((kids g ex p (g.moves p)).map fun c => lift (V' g ex le d c)).foldl Score.max negInfScore

/-- No draw can be claimed anywhere. -/
def NoDraw (g : Game P) : Prop := ∀ p, g.isDraw p = false

/-- No drawn position sits at the ply of the search root (so the root exception of `V` never fires). -/
def RootFree (g : Game P) (rootPly : Int) : Prop := ∀ p, g.isDraw p = true → g.ply p ≠ rootPly

theorem NoDraw.rootFree {g : Game P} (h : NoDraw g) (r : Int) : RootFree g r := by
  intro p hp; rw [h p] at hp; cases hp

theorem draw_cond {g : Game P} {r : Int} (h : RootFree g r) (p : P) :
    (!(g.ply p == r) && g.isDraw p) = g.isDraw p := by
  cases hd : g.isDraw p with
  | false => simp
  | true =>
    have := h p hd
    simp [this]

/-- Under `RootFree` the reference value `V` does not depend on the root ply: it is `V'`. -/
theorem V_eq_V' {g : Game P} (ex : Explore) (le : LeafEval) {r : Int} (h : RootFree g r) :
    ∀ d p, V g ex le r d p = V' g ex le d p := by
  intro d
  induction d with
  | zero => intro p; simp only [V, V', draw_cond h]
  | succ d ih =>
    intro p
    simp only [V, V', draw_cond h]
    have : (fun c => lift (V g ex le r d c)) = fun c => lift (V' g ex le d c) := by
      funext c; rw [ih c]
    rw [this]

/-- Positions with the same hash have the same value at every depth. -/
def HashOK (g : Game P) (ex : Explore) (le : LeafEval) : Prop :=
  ∀ p q, g.hash p = g.hash q → ∀ d, V' g ex le d p = V' g ex le d q

theorem hashOK_of_injective {g : Game P} (ex : Explore) (le : LeafEval)
    (h : ∀ p q, g.hash p = g.hash q → p = q) : HashOK g ex le := by
  intro p q hpq d; rw [h p q hpq]

/-- Every exact entry of the table is the true value, at the stored depth, of every position with the
    stored hash. -/
def Sound (g : Game P) (ex : Explore) (le : LeafEval) (t : TTState) : Prop :=
  ∀ e, some e ∈ t.slots → e.bound = 0 → ∀ p, g.hash p = e.hash → e.score = V' g ex le e.depth p

theorem sound_new (g : Game P) (ex : Explore) (le : LeafEval) (size : Nat) (minDepth : Int) :
    Sound g ex le (TTState.new size minDepth) := by
  intro e he
  simp [TTState.new] at he

theorem sound_empty (g : Game P) (ex : Explore) (le : LeafEval) {t : TTState} (h : t.slots.size = 0) :
    Sound g ex le t := by
  intro e he
  have : t.slots = #[] := Array.eq_empty_of_size_eq_zero h
  rw [this] at he
  simp at he

theorem read_some {t : TTState} {h : Nat} {e : TTEntry} (hr : t.read h = some e) :
    some e ∈ t.slots ∧ e.hash = h := by
  unfold TTState.read at hr
  split at hr
  · cases hr
  · rename_i hsz
    have hlt : h % t.slots.size < t.slots.size := Nat.mod_lt _ (by omega)
    split at hr
    · rename_i e' heq
      split at hr
      · rename_i hh
        cases hr
        refine ⟨?_, hh⟩
        rw [Array.getD_eq_getD_getElem?, Array.getElem?_eq_getElem hlt] at heq
        simp only [Option.getD_some] at heq
        rw [← heq]
        exact Array.getElem_mem hlt
      · cases hr
    · cases hr

theorem u16_nat (n : Nat) (h : n < 65536) : u16 ((n : Nat) : Int) = n := by
  unfold u16; omega

/-- Writing a true value keeps the table sound. -/
theorem write_sound {g : Game P} {ex : Explore} {le : LeafEval} {t : TTState} (hs : Sound g ex le t)
    (h : Nat) (ply depth : Int) (s : Score) (m : Move)
    (hv : ∀ p, g.hash p = h → s = V' g ex le (u16 depth) p) :
    Sound g ex le (t.write h 0 ply depth s m).1 := by
  unfold TTState.write
  split
  · exact hs
  · split
    · exact hs
    · dsimp only
      split
      · exact hs
      · intro e he hb p hp
        dsimp only at he
        rcases Array.mem_or_eq_of_mem_setIfInBounds he with he | he
        · exact hs e he hb p hp
        · cases he
          exact hv p hp

end Morlock.Proofs.AB
