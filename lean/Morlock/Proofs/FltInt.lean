import Morlock.Proofs.FltRnd
/-! # Conversions to integers: `Q.roundAway` (`math.Round`), `Q.floor`, `Q.trunc` -/
namespace Morlock.Model.Flt
namespace Q

/-- the magnitude of `roundAway`: `q = ⌊|x| + 1/2⌋` -/
theorem roundAway_abs (x : Q) (hd : 0 < x.den) :
    2 * x.den * (x.roundAway).natAbs ≤ 2 * x.num.natAbs + x.den ∧
      2 * x.num.natAbs + x.den < 2 * x.den * (x.roundAway).natAbs + 2 * x.den := by
  have hq : (x.roundAway).natAbs = (2 * x.num.natAbs + x.den) / (2 * x.den) := by
    unfold roundAway
    simp only []
    split
    · rw [Int.natAbs_neg, Int.natAbs_natCast]
    · rw [Int.natAbs_natCast]
  rw [hq]
  have h1 := Nat.div_add_mod (2 * x.num.natAbs + x.den) (2 * x.den)
  have h2 := Nat.mod_lt (2 * x.num.natAbs + x.den) (show 0 < 2 * x.den by omega)
  generalize (2 * x.num.natAbs + x.den) / (2 * x.den) = q at *
  generalize (2 * x.num.natAbs + x.den) % (2 * x.den) = r at *
  omega

theorem roundAway_eq (x : Q) :
    x.roundAway = if x.num < 0 then -(((2 * x.num.natAbs + x.den) / (2 * x.den) : Nat) : Int)
      else (((2 * x.num.natAbs + x.den) / (2 * x.den) : Nat) : Int) := rfl

theorem roundAway_zero (x : Q) (h : x.num = 0) : x.roundAway = 0 := by
  rw [roundAway_eq, if_neg (by omega), h]
  simp only [Int.natAbs_zero, Nat.mul_zero, Nat.zero_add]
  rcases Nat.eq_zero_or_pos x.den with hd | hd
  · simp [hd]
  · rw [Nat.div_eq_of_lt (by omega)]; rfl

theorem roundAway_sign (x : Q) : (0 ≤ x.num → 0 ≤ x.roundAway) ∧ (x.num ≤ 0 → x.roundAway ≤ 0) := by
  constructor
  · intro h
    rw [roundAway_eq, if_neg (by omega)]
    exact Int.natCast_nonneg _
  · intro h
    rcases Int.lt_or_eq_of_le h with h1 | h1
    · rw [roundAway_eq, if_pos h1]
      have := Int.natCast_nonneg ((2 * x.num.natAbs + x.den) / (2 * x.den)); omega
    · rw [roundAway_zero x h1]; exact Int.le_refl _

theorem roundAway_neg (x : Q) : x.neg.roundAway = -x.roundAway := by
  rcases Int.lt_trichotomy x.num 0 with h | h | h
  · have h1 : ¬ (x.neg.num < 0) := by simp [Q.neg]; omega
    rw [roundAway_eq, roundAway_eq, if_pos h, if_neg h1]
    simp [Q.neg]
  · rw [roundAway_zero x h, roundAway_zero x.neg (by simp [Q.neg, h])]; rfl
  · have h1 : x.neg.num < 0 := by simp [Q.neg]; omega
    rw [roundAway_eq, roundAway_eq, if_neg (show ¬ x.num < 0 by omega), if_pos h1]
    simp [Q.neg]

/-- integers are fixed -/
theorem roundAway_ofInt (n : Int) : (Q.ofInt n).roundAway = n := by
  unfold roundAway Q.ofInt
  simp only []
  have : (2 * n.natAbs + 1) / (2 * 1) = n.natAbs := by omega
  rw [this]
  split <;> omega

theorem floor_ofInt (n : Int) : (Q.ofInt n).floor = n := by
  unfold floor Q.ofInt; simp

theorem trunc_ofInt (n : Int) : (Q.ofInt n).trunc = n := by
  unfold trunc Q.ofInt; simp

/-- `⌊x⌋ ≤ x < ⌊x⌋ + 1` -/
theorem floor_spec (x : Q) (hd : 0 < x.den) :
    x.floor * x.den ≤ x.num ∧ x.num < (x.floor + 1) * x.den := by
  unfold floor
  have hd' : (0 : Int) < x.den := by omega
  exact ⟨Int.ediv_mul_le _ (by omega), Int.lt_ediv_add_one_mul_self _ hd'⟩

/-- `|x − round x| ≤ 1/2` -/
theorem roundAway_spec (x : Q) (hd : 0 < x.den) :
    2 * x.roundAway * x.den ≤ 2 * x.num + x.den ∧ 2 * x.num ≤ 2 * x.roundAway * x.den + x.den := by
  obtain ⟨h1, h2⟩ := roundAway_abs x hd
  obtain ⟨s1, s2⟩ := roundAway_sign x
  have c1 : ((2 * x.den * x.roundAway.natAbs : Nat) : Int) = 2 * (x.den : Int) * (x.roundAway.natAbs : Int) := by
    simp [Int.natCast_mul]
  have h1' : 2 * (x.den : Int) * (x.roundAway.natAbs : Int) ≤ 2 * (x.num.natAbs : Int) + x.den := by
    rw [← c1]; exact_mod_cast h1
  have h2' : 2 * (x.num.natAbs : Int) + x.den < 2 * (x.den : Int) * (x.roundAway.natAbs : Int) + 2 * x.den := by
    rw [← c1]; exact_mod_cast h2
  rcases Int.lt_or_le x.num 0 with hn | hn
  · have r0 := s2 (by omega)
    have e1 : (x.roundAway.natAbs : Int) = -x.roundAway := by omega
    have e2 : (x.num.natAbs : Int) = -x.num := by omega
    rw [e1, e2] at h1' h2'
    have e3 : 2 * (x.den : Int) * -x.roundAway = -(2 * x.roundAway * x.den) := by grind
    rw [e3] at h1' h2'
    omega
  · have r0 := s1 hn
    have e1 : (x.roundAway.natAbs : Int) = x.roundAway := by omega
    have e2 : (x.num.natAbs : Int) = x.num := by omega
    rw [e1, e2] at h1' h2'
    have e3 : 2 * (x.den : Int) * x.roundAway = 2 * x.roundAway * x.den := by grind
    rw [e3] at h1' h2'
    omega

end Q
end Morlock.Model.Flt
