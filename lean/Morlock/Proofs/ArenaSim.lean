import Morlock.Proofs.ArenaView
/-!
# `pushMove` / `popMove` act on views as pure functions

`push_view`, `pop_view`: the arena operations commute with `view`; `frame_view`: the general frame rule
for `view` (only the board record, the current node minus `next`, and the strict ancestors matter).
-/
namespace Morlock.Proofs.Arena
open Morlock Morlock.Model Morlock.Model.World

/-- `pushMove` on a view. -/
def viewPush (z : ZTable) (v : View) (m : Move) : Option View :=
  if blockedR v.result then none else
  match v.pos.move m with
  | none => none
  | some next =>
    some { pos := next, hash := z.move v.hash v.pos m, noprogress := updateNoProgress v.noprogress m,
           past := { pos := v.pos, hash := v.hash, noprogress := v.noprogress, next := m, prev := none } :: v.past,
           turn := v.turn.opp, ply := v.ply + 1,
           moves := if v.turn.opp = .white then v.moves + 1 else v.moves,
           castledW := if m.isCastle && v.turn = .white then true else v.castledW,
           castledB := if m.isCastle && v.turn = .black then true else v.castledB,
           reps := fun h => if h = z.move v.hash v.pos m then v.reps (z.move v.hash v.pos m) + 1 else v.reps h,
           result := pushResult (v.reps (z.move v.hash v.pos m) + 1)
             (ipcList (z.move v.hash v.pos m) next v.turn.opp (updateNoProgress v.noprogress m)
               ({ pos := v.pos, hash := v.hash, noprogress := v.noprogress, next := m, prev := none } :: v.past)
               1 v.turn.opp.opp 1)
             (updateNoProgress v.noprogress m) next m }

/-- `popMove` on a view. -/
def viewPop (v : View) : Option (View × Move) :=
  match v.past with
  | [] => none
  | p :: r =>
    some ({ pos := p.pos, hash := p.hash, noprogress := p.noprogress, past := r, turn := v.turn.opp,
            ply := v.ply - 1, moves := if v.turn.opp = .black then v.moves - 1 else v.moves,
            castledW := if p.next.isCastle && v.turn.opp = .white then false else v.castledW,
            castledB := if p.next.isCastle && v.turn.opp = .black then false else v.castledB,
            reps := fun h => if h = v.hash then v.reps v.hash - 1 else v.reps h,
            result := { outcome := .undecided } }, p.next)

/-! ## frame rule -/

/-- `view w' b = view w b` as soon as `w'` has the same board record, the same current node up to `next`,
and the same strict ancestors. -/
theorem frame_view {w w' : World} {b : Nat}
    (hbd : w'.board b = w.board b)
    (hpos : (w'.cur b).pos = (w.cur b).pos) (hhash : (w'.cur b).hash = (w.cur b).hash)
    (hnp : (w'.cur b).noprogress = (w.cur b).noprogress) (hprev : (w'.cur b).prev = (w.cur b).prev)
    (hanc : ∀ j ∈ ancIdx w (w.cur b).prev, w'.node j = w.node j) :
    view w' b = view w b := by
  unfold view
  rw [hbd, hpos, hhash, hnp, hprev, (anc_congr hanc).2]

theorem view_setBoard_other {w : World} {b f : Nat} (bd : Board) (h : f ≠ b) :
    view (w.setBoard f bd) b = view w b := by
  have hbd : (w.setBoard f bd).board b = w.board b := by
    rw [setBoard_board, if_neg (fun c => h c.1)]
  exact frame_view hbd (by simp [cur, hbd]) (by simp [cur, hbd]) (by simp [cur, hbd]) (by simp [cur, hbd])
    (fun j _ => rfl)

/-! ## push -/

theorem anc_pushArena {w : World} (hw : WFWorld w) {b : Nat} (hb : b < w.boards.size) (m : Move) {n : Node}
    (hn : n.prev = some (w.board b).current) :
    anc (pushArena w b m n) (some (w.board b).current) = { w.cur b with next := m } :: anc w (w.cur b).prev := by
  have hA := wf_pushArena hw hb m hn
  have hc := hw.cur_lt b hb
  rw [anc_some hA, pushArena_node_old _ _ _ _ hc, if_pos rfl]
  show { w.cur b with next := m } :: anc (pushArena w b m n) (w.cur b).prev = _
  congr 1
  apply (anc_congr _).2
  intro j hj
  have h1 := ancIdx_lt hw hj
  have h2 := bound_prev_le hw.prev_lt (w.board b).current
  have h3 : bound (w.cur b).prev ≤ (w.board b).current := h2
  rw [pushArena_node_old _ _ _ _ (by omega), if_neg (by omega)]

theorem view_pushed {w : World} (hw : WFWorld w) {b : Nat} (hb : b < w.boards.size) (m : Move)
    {n : Node} (hn : n.prev = some (w.board b).current) :
    view ((pushArena w b m n).setBoard b (pushBoard w b m n)) b =
      { pos := n.pos, hash := n.hash, noprogress := n.noprogress,
        past := { pos := (view w b).pos, hash := (view w b).hash, noprogress := (view w b).noprogress,
                  next := m, prev := none } :: (view w b).past,
        turn := (view w b).turn.opp, ply := (view w b).ply + 1,
        moves := if (view w b).turn.opp = .white then (view w b).moves + 1 else (view w b).moves,
        castledW := if m.isCastle && (view w b).turn = .white then true else (view w b).castledW,
        castledB := if m.isCastle && (view w b).turn = .black then true else (view w b).castledB,
        reps := fun h => if h = n.hash then (view w b).reps n.hash + 1 else (view w b).reps h,
        result := pushResult ((view w b).reps n.hash + 1)
          (ipcList n.hash n.pos (view w b).turn.opp n.noprogress
            ({ pos := (view w b).pos, hash := (view w b).hash, noprogress := (view w b).noprogress,
               next := m, prev := none } :: (view w b).past)
            1 (view w b).turn.opp.opp 1)
          n.noprogress n.pos m } := by
  have hA := wf_pushArena hw hb m hn
  have hbA : b < (pushArena w b m n).boards.size := hb
  -- the board record and the current node of the new world
  have hbd : ((pushArena w b m n).setBoard b (pushBoard w b m n)).board b = pushBoard w b m n := by
    rw [setBoard_board, if_pos ⟨rfl, hbA⟩]
  have hcur : ((pushArena w b m n).setBoard b (pushBoard w b m n)).cur b = n := by
    unfold cur
    rw [hbd]
    show (pushArena w b m n).node w.nodes.size = _
    exact pushArena_node_new _ _ _ _
  -- the strict ancestors of the new current node
  have hanc : anc ((pushArena w b m n).setBoard b (pushBoard w b m n)) (some (w.board b).current)
      = { w.cur b with next := m } :: anc w (w.cur b).prev := by
    rw [← anc_pushArena hw hb m hn]
    exact (anc_congr (w1 := pushArena w b m n) (w2 := (pushArena w b m n).setBoard b (pushBoard w b m n))
      (fun j _ => rfl)).2
  -- the identical-position count of the new node
  have hipc : identicalPositionCount (pushArena w b m n) n (w.board b).turn.opp (w.board b).turn.opp.opp n.noprogress =
      ipcList n.hash n.pos (w.board b).turn.opp n.noprogress
        ({ pos := (w.cur b).pos, hash := (w.cur b).hash, noprogress := (w.cur b).noprogress, next := m, prev := none }
          :: (anc w (w.cur b).prev).map eraseNode) 1 (w.board b).turn.opp.opp 1 := by
    have hbnd : bound n.prev ≤ (pushArena w b m n).nodes.size := by
      have := hw.cur_lt b hb
      rw [hn]
      simp only [bound, pushArena_size]; omega
    rw [ipc_eq hA _ _ _ _ hbnd, hn, anc_pushArena hw hb m hn, ← ipcList_erase]
    rfl
  unfold view
  rw [hbd, hcur, hn, hanc]
  simp only [pushBoard, repGet_repSet, if_true, List.map_cons]
  rw [hipc]
  rfl

/-- `pushMove` commutes with `view`. -/
theorem push_view {w : World} (hw : WFWorld w) {z : ZTable} {b : Nat} (hb : b < w.boards.size) (m : Move) :
    (w.pushMove z b m).map (fun w' => view w' b) = viewPush z (view w b) m := by
  rw [pushMove_eq]
  unfold viewPush
  have hbl : pushBlocked w b = blockedR (view w b).result := rfl
  rw [hbl]
  by_cases hblk : blockedR (view w b).result = true
  · rw [if_pos hblk, if_pos hblk]; rfl
  · rw [if_neg hblk, if_neg hblk]
    have hpos : (view w b).pos = (w.cur b).pos := rfl
    rw [hpos]
    cases hm : (w.cur b).pos.move m with
    | none => rfl
    | some next =>
      simp only [Option.map_some]
      rw [view_pushed hw hb m (n := pushNode w z b m next) rfl]
      rfl

theorem push_view_some {w w' : World} (hw : WFWorld w) {z : ZTable} {b : Nat} (hb : b < w.boards.size) {m : Move}
    (h : w.pushMove z b m = some w') : viewPush z (view w b) m = some (view w' b) := by
  rw [← push_view hw hb, h]; rfl

theorem push_view_none {w : World} (hw : WFWorld w) {z : ZTable} {b : Nat} (hb : b < w.boards.size) {m : Move}
    (h : w.pushMove z b m = none) : viewPush z (view w b) m = none := by
  rw [← push_view hw hb, h]; rfl

theorem push_of_view {w : World} (hw : WFWorld w) {z : ZTable} {b : Nat} (hb : b < w.boards.size) {m : Move}
    {v' : View} (h : viewPush z (view w b) m = some v') : ∃ w', w.pushMove z b m = some w' ∧ view w' b = v' := by
  rw [← push_view hw hb] at h
  cases hp : w.pushMove z b m with
  | none => rw [hp] at h; cases h
  | some w' => rw [hp] at h; exact ⟨w', rfl, by simpa using h⟩

/-! ## pop -/

theorem view_popped {w : World} (hw : WFWorld w) {b : Nat} (hb : b < w.boards.size) {pi : Nat}
    (hp : (w.cur b).prev = some pi) :
    view ((w.setNode pi { w.node pi with next := {} }).setBoard b (popBoard w b pi)) b =
      { pos := (w.node pi).pos, hash := (w.node pi).hash, noprogress := (w.node pi).noprogress,
        past := (anc w (w.node pi).prev).map eraseNode, turn := (view w b).turn.opp,
        ply := (view w b).ply - 1,
        moves := if (view w b).turn.opp = .black then (view w b).moves - 1 else (view w b).moves,
        castledW := if (w.node pi).next.isCastle && (view w b).turn.opp = .white then false else (view w b).castledW,
        castledB := if (w.node pi).next.isCastle && (view w b).turn.opp = .black then false else (view w b).castledB,
        reps := fun h => if h = (view w b).hash then (view w b).reps (view w b).hash - 1 else (view w b).reps h,
        result := { outcome := .undecided } } := by
  have hlt : pi < w.nodes.size := by
    have h1 := hw.prev_lt _ _ hp
    have h2 := hw.lt_size hp
    omega
  have hbS : b < (w.setNode pi { w.node pi with next := {} }).boards.size := hb
  have hbd : ((w.setNode pi { w.node pi with next := {} }).setBoard b (popBoard w b pi)).board b = popBoard w b pi := by
    rw [setBoard_board, if_pos ⟨rfl, hbS⟩]
  have hcur : ((w.setNode pi { w.node pi with next := {} }).setBoard b (popBoard w b pi)).cur b
      = { w.node pi with next := {} } := by
    unfold cur
    rw [hbd]
    show (w.setNode pi { w.node pi with next := {} }).node pi = _
    rw [setNode_node, if_pos ⟨rfl, hlt⟩]
  have hanc : anc ((w.setNode pi { w.node pi with next := {} }).setBoard b (popBoard w b pi)) (w.node pi).prev
      = anc w (w.node pi).prev := by
    apply (anc_congr _).2
    intro j hj
    have h1 := ancIdx_lt hw hj
    have h2 := bound_prev_le hw.prev_lt pi
    show (w.setNode pi { w.node pi with next := {} }).node j = _
    rw [setNode_node, if_neg (by omega)]
  unfold view
  rw [hbd, hcur]
  simp only [hanc]
  simp only [popBoard, repGet_repSet]

/-- `popMove` commutes with `view`. -/
theorem pop_view {w : World} (hw : WFWorld w) {b : Nat} (hb : b < w.boards.size) :
    (w.popMove b).map (fun r => (view r.1 b, r.2)) = viewPop (view w b) := by
  rw [popMove_eq]
  unfold viewPop
  cases hp : (w.cur b).prev with
  | none =>
    have : (view w b).past = [] := by simp [view, hp]
    rw [this]; rfl
  | some pi =>
    have : (view w b).past = eraseNode (w.node pi) :: (anc w (w.node pi).prev).map eraseNode := by
      simp [view, hp, anc_some hw]
    rw [this]
    simp only [Option.map_some]
    rw [view_popped hw hb hp]
    rfl

theorem pop_view_some {w w' : World} (hw : WFWorld w) {b : Nat} (hb : b < w.boards.size) {m : Move}
    (h : w.popMove b = some (w', m)) : viewPop (view w b) = some (view w' b, m) := by
  rw [← pop_view hw hb, h]; rfl

theorem pop_of_view {w : World} (hw : WFWorld w) {b : Nat} (hb : b < w.boards.size) {m : Move}
    {v' : View} (h : viewPop (view w b) = some (v', m)) : ∃ w', w.popMove b = some (w', m) ∧ view w' b = v' := by
  rw [← pop_view hw hb] at h
  cases hp : w.popMove b with
  | none => rw [hp] at h; cases h
  | some r =>
    rw [hp] at h
    simp only [Option.map_some, Option.some.injEq, Prod.mk.injEq] at h
    obtain ⟨w', m'⟩ := r
    exact ⟨w', by simp_all, h.1⟩

end Morlock.Proofs.Arena
