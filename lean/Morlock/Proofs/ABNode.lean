import Morlock.Proofs.ABRef
namespace Morlock.Proofs.AB
open Morlock Morlock.Model Morlock.Model.Score Morlock.Spec
open Morlock.Props.C09
variable {P : Type}

theorem poll_quiet' {st : SState} (h : Quiet st) : poll st = (false, { st with polls := st.polls + 1 }) := by
  obtain ⟨h1, h2⟩ := h
  simp [poll, h2]

theorem quiet_polls {st : SState} (h : Quiet st) (k : Nat) : Quiet { st with polls := k } := h
theorem quiet_nodes {st : SState} (h : Quiet st) (k : Nat) : Quiet { st with nodes := k } := h

/-- the recursive searcher of the quiescence loop, seen as an `abLoop` searcher (empty PV) -/
def wrapQ (rec : P → Score → Score → SState → Score × SState) :
    P → Score → Score → SState → Score × List Move × SState :=
  fun c a b st => ((rec c a b st).1, [], (rec c a b st).2)

def projQ (r : Score × List Move × Bool × Bool × SState) : Score × Bool × SState := (r.1, r.2.2.1, r.2.2.2.2)

theorem quiesceLoop_eq (g : Game P) (ex : P → Explore) (rec) (p : P) (b : Score) :
    ∀ (l : List Move) (a : Score) (pv : List Move) (hl : Bool) (st : SState),
      quiesceLoop g ex rec p b l a hl st = projQ (abLoop g ex (wrapQ rec) p b l a pv hl st) := by
  intro l
  induction l with
  | nil => intro a pv hl st; rfl
  | cons m rest ih =>
    intro a pv hl st
    cases hpush : g.push p m with
    | none => rw [abLoop_none hpush, ← ih]; simp [quiesceLoop, childOf, hpush]
    | some c =>
      cases hp : (ex p).pick m with
      | false =>
        rw [abLoop_skip hpush hp, apply_ite projQ, ← ih]
        simp only [quiesceLoop, childOf, hpush, hp, Bool.false_eq_true, if_false]
        rfl
      | true =>
        rw [abLoop_pick hpush hp]
        dsimp only
        rw [apply_ite projQ, ← ih]
        simp only [quiesceLoop, childOf, hpush, hp, if_true, wrapQ, scoreMax_eq, lift]
        rfl

theorem quiesce_succ {g : Game P} {ex : P → Explore} {fuel : Nat} {p : P} {a b : Score} {st : SState} (hst : Quiet st) :
    quiesce g ex (fuel + 1) p a b st =
      if g.isDraw p then (zeroScore, { st with polls := st.polls + 1 }) else
      (let r := quiesceLoop g ex (quiesce g ex fuel) p b (heapOrder (g.moves p) (ex p).prio)
          (Score.max a (heuristicScore (g.eval p))) false { st with polls := st.polls + 1, nodes := st.nodes + 1 }
       if !r.2.1 then (terminal g p, r.2.2) else (r.1, r.2.2)) := by
  simp only [quiesce, poll_quiet' hst, Bool.false_eq_true, if_false, terminal]

/-- One node of `quiesce` with fuel left, given the node contract one level down. Besides the contract it
    records the stand-pat bound and the terminal value. -/
theorem quiesce_succ_spec {g : Game P} (hev : EvalOk g) (ex : P → Explore) (K fuel : Nat) (hf : K + fuel + 1 ≤ 127)
    (IH : RecOK (K + fuel) (Q g ex fuel) (fun _ _ _ => True) (wrapQ (quiesce g ex fuel)))
    (p : P) (a b : Score) (st : SState) (hst : Quiet st) (ha : okN (K + fuel + 1) a) (hb : okN (K + fuel + 1) b) :
    ∀ r, quiesce g ex (fuel + 1) p a b st = r →
      Quiet r.2 ∧ okN (K + fuel + 1) r.1 ∧
      (r.1 = Q g ex (fuel + 1) p ∨ rank a ≤ rank r.1) ∧
      (rank a < rank b → Clip (rank a) (rank b) (rank (Q g ex (fuel + 1) p)) (rank r.1)) ∧
      (g.isDraw p = false → legalAny g p (g.moves p) = true →
        rank (heuristicScore (g.eval p)) ≤ rank r.1 ∧ rank a ≤ rank r.1) ∧
      (g.isDraw p = false → legalAny g p (g.moves p) = false → r.1 = terminal g p) := by
  intro r hr
  rw [quiesce_succ hst] at hr
  by_cases hd : g.isDraw p = true
  · simp only [hd, if_true] at hr
    subst hr
    have hQ : Q g ex (fuel + 1) p = zeroScore := by simp only [Q, hd, if_true]
    rw [hQ]
    exact ⟨hst, okN_mono okN_zero (by omega), Or.inl rfl, fun _ => clip_self _ _ _,
      fun h => by simp [hd] at h, fun h => by simp [hd] at h⟩
  · have hd' : g.isDraw p = false := by simpa using hd
    simp only [hd', Bool.false_eq_true, if_false] at hr
    have hsc : okN (K + fuel + 1) (heuristicScore (g.eval p)) :=
      okN_mono (okN_heuristic (hev p).1 (hev p).2) (by omega)
    obtain ⟨_, ha1, ra1⟩ := raise_spec ha hsc
    rw [← scoreMax_eq] at ha1 ra1
    have hst1 : Quiet { st with polls := st.polls + 1, nodes := st.nodes + 1 } := hst
    have hperm := ABHeap.heapOrder_perm (g.moves p) (ex p).prio
    rw [quiesceLoop_eq g ex _ p b _ _ []] at hr
    obtain ⟨h1, h2, h3, h4, h5, h6, _⟩ := abLoop_spec (g := g) (ex := ex) (p := p) IH (by omega) hb
      (heapOrder (g.moves p) (ex p).prio) _ [] false _ ha1 hst1 _ rfl
    generalize abLoop g ex (wrapQ (quiesce g ex fuel)) p b (heapOrder (g.moves p) (ex p).prio)
      (Score.max a (heuristicScore (g.eval p))) [] false
      { st with polls := st.polls + 1, nodes := st.nodes + 1 } = res at hr h1 h2 h3 h4 h5 h6
    simp only [projQ] at hr
    rw [legalAny_perm g p hperm, Bool.false_or] at h4
    rw [maxR_perm (kidsR_perm g ex p (Q g ex fuel) hperm)] at h5 h6
    by_cases hl : legalAny g p (g.moves p) = true
    · rw [hl] at h4
      simp only [h4, Bool.not_true, Bool.false_eq_true, if_false] at hr
      subst hr
      have rQ := rank_Q_succ hev ex fuel p (by omega) hd' hl
      rw [ra1, maxR_max, ← rQ] at h5 h6
      have hge := maxR_ge (kidsR g ex p (Q g ex fuel) (g.moves p)) (rank (heuristicScore (g.eval p)))
      rw [← rQ] at hge
      rw [ra1] at h3
      refine ⟨h1, h2, Or.inr (by dsimp only; omega), ?_, fun _ _ => ⟨by dsimp only; omega, by dsimp only; omega⟩,
        fun _ h => by simp [hl] at h⟩
      intro hab
      have Nb := okN_rankN hb
      have Na := okN_rankN ha
      unfold rankN at Na Nb
      dsimp only
      by_cases hp : Max.max (rank a) (rank (heuristicScore (g.eval p))) < rank b
      · have := h5 hp
        unfold Clip; omega
      · have := h6 (by omega) (by omega)
        unfold Clip; omega
    · have hl' : legalAny g p (g.moves p) = false := by simpa using hl
      rw [hl'] at h4
      simp only [h4, Bool.not_false, if_true] at hr
      subst hr
      have : Q g ex (fuel + 1) p = terminal g p := by simp [Q, hd', hl']
      rw [this]
      exact ⟨h1, okN_mono (okN_terminal g p) (by omega), Or.inl rfl, fun _ => clip_self _ _ _,
        fun _ h => by simp [hl'] at h, fun _ _ => rfl⟩

/-- Node contract of `quiesce` by induction on the fuel. -/
theorem quiesce_recOK {g : Game P} (hev : EvalOk g) (ex : P → Explore) (K : Nat) :
    ∀ fuel, K + fuel ≤ 127 →
      RecOK (K + fuel) (Q g ex fuel) (fun _ _ _ => True) (wrapQ (quiesce g ex fuel)) := by
  intro fuel
  induction fuel with
  | zero =>
    intro _
    refine ⟨fun c => okN_mono okN_zero (by omega), ?_⟩
    intro c a b st hst ha hb
    simp only [wrapQ, quiesce, Q]
    exact ⟨hst, okN_mono okN_zero (by omega), Or.inl trivial, fun _ => clip_self _ _ _, trivial⟩
  | succ fuel ih =>
    intro hf
    have IH := ih (by omega)
    refine ⟨fun c => okN_mono (Q_ok hev ex (fuel + 1) c (by omega)) (by omega), ?_⟩
    intro p a b st hst ha hb
    obtain ⟨h1, h2, h3, h4, _⟩ := quiesce_succ_spec hev ex K fuel (by omega) IH p a b st hst ha hb _ rfl
    exact ⟨h1, h2, h3, h4, trivial⟩

theorem abEnter_quiet {g : Game P} {rootPly : Int} {depth : Nat} {p : P} {st : SState} (hst : Quiet st) :
    abEnter g rootPly depth p st =
      if !(g.ply p == rootPly) && g.isDraw p then .inl (zeroScore, [], { st with polls := st.polls + 1 })
      else .inr ({}, { st with polls := st.polls + 1 }) := by
  have hst1 : Quiet { st with polls := st.polls + 1 } := hst
  simp only [abEnter, poll_quiet' hst, Bool.false_eq_true, if_false, read_quiet hst1]

theorem quiet_ttwrite {st : SState} (h : Quiet st) (k b : Nat) (ply depth : Int) (s : Score) (m : Move) :
    Quiet { st with tt := (st.tt.write k b ply depth s m).1 } := by
  have := write_quiet h k b ply depth s m
  simp only [Quiet, this]
  exact h

theorem maxR_mem {l : List Int} {y : Int} (x : Int) (h : y ∈ l) : y ≤ maxR x l := by
  induction l generalizing x with
  | nil => simp at h
  | cons z zs ih =>
    rw [maxR_cons]
    rcases List.mem_cons.1 h with e | e
    · have := maxR_ge zs (Max.max x z); omega
    · exact ih _ e

theorem mem_kidsR {g : Game P} {ex : P → Explore} {p : P} {vc : P → Score} {l : List Move} {m : Move} {c : P}
    (hm : m ∈ l) (hpush : g.push p m = some c) (hp : (ex p).pick m = true) :
    rank (lift (vc c)) ∈ kidsR g ex p vc l := by
  unfold kidsR kids
  simp only [List.mem_map, List.mem_filterMap]
  exact ⟨c, ⟨m, hm, by simp [hp, hpush]⟩, rfl⟩

theorem pathOK_nil (g : Game P) (ex : P → Explore) (le : LeafEval P) (rootPly : Int) (d : Nat) (p : P) (s : Score) :
    PathOK g ex le rootPly d p s [] := by
  cases d <;> simp [PathOK, Path, Principal]

/-- One inner node of `alphabeta`, given the node contract one level down. -/
theorem alphabeta_succ_spec {g : Game P} (hev : EvalOk g) (ex : P → Explore) (le : LeafEval P) (rootPly : Int) (K : Nat)
    (hK : leafGrade le ≤ K) (d : Nat) (hKd : K + d + 1 ≤ 127)
    (IH : RecOK (K + d) (V g ex le rootPly d) (PathOK g ex le rootPly d) (alphabeta g ex le rootPly d))
    (p : P) (a b : Score) (st : SState) (hst : Quiet st) (ha : okN (K + d + 1) a) (hb : okN (K + d + 1) b) :
    ∀ r, alphabeta g ex le rootPly (d + 1) p a b st = r →
      Quiet r.2.2 ∧ okN (K + d + 1) r.1 ∧
      (r.1 = V g ex le rootPly (d + 1) p ∨ rank a ≤ rank r.1) ∧
      (rank a < rank b → Clip (rank a) (rank b) (rank (V g ex le rootPly (d + 1) p)) (rank r.1)) ∧
      PathOK g ex le rootPly (d + 1) p r.1 r.2.1 ∧
      (rank a < rank b → ∀ m rest, r.2.1 = m :: rest →
        ∃ c, g.push p m = some c ∧ rank r.1 ≤ rank (lift (V g ex le rootPly d c)) ∧
          rank (lift (V g ex le rootPly d c)) ≤ rank (V g ex le rootPly (d + 1) p)) ∧
      ((!(g.ply p == rootPly) && g.isDraw p) = false → legalAny g p (g.moves p) = true → r.2.1 = [] → r.1 = a) := by
  intro r hr
  have hst1 : Quiet { st with polls := st.polls + 1 } := hst
  simp only [alphabeta, abEnter_quiet hst] at hr
  by_cases hdraw : (!(g.ply p == rootPly) && g.isDraw p) = true
  · simp only [hdraw, if_true] at hr
    subst hr
    have hV : V g ex le rootPly (d + 1) p = zeroScore := by rw [V]; simp only [hdraw, if_true]
    rw [hV]
    refine ⟨hst1, okN_mono okN_zero (by omega), Or.inl rfl, fun _ => clip_self _ _ _, pathOK_nil _ _ _ _ _ _ _, ?_,
      fun h => by rw [hdraw] at h; cases h⟩
    intro _ m rest h; simp at h
  · have hdraw' : (!(g.ply p == rootPly) && g.isDraw p) = false := by simpa using hdraw
    simp only [hdraw', Bool.false_eq_true, if_false] at hr
    generalize hres : abLoop _ _ _ _ _ _ _ _ _ _ = res at hr
    have hperm := ABHeap.heapOrder_perm (g.moves p) (firstPrio {} (ex p).prio)
    obtain ⟨h1, h2, h3, h4, h5, h6, h7⟩ := abLoop_spec IH (by omega) hb _ _ _ _ _ ha
      (show Quiet { st with polls := st.polls + 1, nodes := st.nodes + 1 } from hst) res hres
    rw [legalAny_perm g p hperm, Bool.false_or] at h4
    rw [maxR_perm (kidsR_perm g ex p (V g ex le rootPly d) hperm)] at h5
    have hp := poll_quiet' h1
    simp only [hp, Bool.false_eq_true, if_false] at hr
    by_cases hl : legalAny g p (g.moves p) = true
    · rw [hl] at h4
      simp only [h4, Bool.not_true, Bool.false_eq_true, if_false] at hr
      subst hr
      have rV := rank_V_succ hev ex le rootPly K hK d p hKd hdraw' hl
      have Na := okN_rankN ha
      have hmax : Max.max (rank a) (-1099511627776) = rank a := by unfold rankN at Na; omega
      have hM : maxR (rank a) (kidsR g ex p (V g ex le rootPly d) (g.moves p)) =
          Max.max (rank a) (rank (V g ex le rootPly (d + 1) p)) := by
        rw [rV, ← maxR_max, hmax]
      rw [hM] at h5
      refine ⟨?_, h2, Or.inr h3, ?_, ?_, ?_, ?_⟩
      · dsimp only
        split
        · exact quiet_ttwrite (quiet_polls h1 _) _ _ _ _ _ _
        · exact quiet_polls h1 _
      · intro hab
        obtain ⟨q1, q2⟩ := h5 hab
        dsimp only
        unfold Clip; omega
      · dsimp only
        rcases h7 with ⟨e, _⟩ | ⟨m, c, s, rem, e1, e2, e3, e4, e5, e6, e7, e8⟩
        · rw [e]; exact pathOK_nil _ _ _ _ _ _ _
        · rw [e1]
          refine ⟨⟨c, e3, e4, e5.1⟩, ?_⟩
          intro hex
          have hle : rank (lift (V g ex le rootPly d c)) ≤ rank (V g ex le rootPly (d + 1) p) := by
            rw [rV]; exact maxR_mem _ (mem_kidsR (hperm.mem_iff.1 e2) e3 e4)
          have hvc := IH.vok c
          have hv1 := V_ok hev ex le rootPly K hK (d + 1) p hKd
          have heq : rank (lift s) = rank (lift (V g ex le rootPly d c)) := by
            rw [← e7]; rw [hex] at e8 ⊢; omega
          have hs : s = V g ex le rootPly d c := lift_inj e6 hvc (by omega) heq
          refine ⟨c, e3, e4, ?_, e5.2 hs⟩
          exact rank_injective _ _ (okN_lift hvc (by omega)).1 hv1.1 (by rw [hex] at e8; omega)
      · intro hab m rest hpv
        dsimp only at hpv ⊢
        rcases h7 with ⟨e, _⟩ | ⟨m', c, s, rem, e1, e2, e3, e4, _, _, _, e8⟩
        · rw [e] at hpv; simp at hpv
        · rw [e1] at hpv
          obtain ⟨rfl, rfl⟩ := List.cons.inj hpv
          refine ⟨c, e3, e8, ?_⟩
          rw [rV]
          exact maxR_mem _ (mem_kidsR (hperm.mem_iff.1 e2) e3 e4)
      · intro _ _ hnil
        dsimp only at hnil ⊢
        rcases h7 with ⟨_, e⟩ | ⟨m', c, s, rem, e1, _⟩
        · exact e
        · rw [e1] at hnil; cases hnil
    · have hl' : legalAny g p (g.moves p) = false := by simpa using hl
      rw [hl'] at h4
      simp only [h4, Bool.not_false, if_true] at hr
      subst hr
      have hV : V g ex le rootPly (d + 1) p = terminal g p := by
        rw [V]; simp only [hdraw', hl', Bool.false_eq_true, if_false, Bool.not_false, if_true]
      rw [hV]
      refine ⟨quiet_polls h1 _, okN_mono (okN_terminal g p) (by omega), Or.inl rfl, fun _ => clip_self _ _ _,
        pathOK_nil _ _ _ _ _ _ _, ?_, fun _ h => by rw [hl'] at h; cases h⟩
      intro _ m rest h; simp at h

/-- Node contract of `alphabeta` (no table, no cancellation) by induction on the depth. -/
theorem alphabeta_recOK {g : Game P} (hev : EvalOk g) (ex : P → Explore) (le : LeafEval P) (rootPly : Int) (K : Nat)
    (hK : leafGrade le ≤ K) :
    ∀ d, K + d ≤ 127 →
      RecOK (K + d) (V g ex le rootPly d) (PathOK g ex le rootPly d) (alphabeta g ex le rootPly d) := by
  intro d
  induction d with
  | zero =>
    intro hKd
    refine ⟨fun c => V_ok hev ex le rootPly K hK 0 c hKd, ?_⟩
    intro p a b st hst ha hb
    have hst1 : Quiet { st with polls := st.polls + 1 } := hst
    simp only [alphabeta, abEnter_quiet hst]
    by_cases hdraw : (!(g.ply p == rootPly) && g.isDraw p) = true
    · simp only [hdraw, if_true]
      have hV : V g ex le rootPly 0 p = zeroScore := by rw [V]; simp only [hdraw, if_true]
      rw [hV]
      exact ⟨hst1, okN_mono okN_zero (by omega), Or.inl rfl, fun _ => clip_self _ _ _, pathOK_nil _ _ _ _ _ _ _⟩
    · have hdraw' : (!(g.ply p == rootPly) && g.isDraw p) = false := by simpa using hdraw
      have hV : V g ex le rootPly 0 p = leafV g le p := by
        rw [V]; simp only [hdraw', Bool.false_eq_true, if_false]
      rw [hV]
      simp only [hdraw', Bool.false_eq_true, if_false]
      cases le with
      | static =>
        have hst2 : Quiet { st with polls := st.polls + 1, nodes := st.nodes + 1 } := hst
        simp only [quietSearch, poll_quiet' hst2, Bool.false_eq_true, if_false, leafV]
        refine ⟨?_, okN_mono (okN_heuristic (hev p).1 (hev p).2) (by omega), Or.inl trivial,
          fun _ => clip_self _ _ _, pathOK_nil _ _ _ _ _ _ _⟩
        split
        · exact quiet_ttwrite (quiet_polls hst2 _) _ _ _ _ _ _
        · exact quiet_polls hst2 _
      | quiescence ex' fuel =>
        have hfK : fuel ≤ K := hK
        have e : K - fuel + fuel = K := by omega
        have HQ := quiesce_recOK hev ex' (K - fuel) fuel (by omega)
        rw [e] at HQ
        obtain ⟨q1, q2, q3, q4, _⟩ := HQ.spec p a b _ hst1 ha hb
        simp only [wrapQ] at q1 q2 q3 q4
        simp only [quietSearch, poll_quiet' q1, Bool.false_eq_true, if_false, leafV]
        refine ⟨?_, q2, q3, q4, pathOK_nil _ _ _ _ _ _ _⟩
        split
        · exact quiet_ttwrite (quiet_polls q1 _) _ _ _ _ _ _
        · exact quiet_polls q1 _
  | succ d ih =>
    intro hKd
    have IH := ih (by omega)
    refine ⟨fun c => V_ok hev ex le rootPly K hK (d + 1) c hKd, ?_⟩
    intro p a b st hst ha hb
    obtain ⟨h1, h2, h3, h4, h5, _⟩ :=
      alphabeta_succ_spec hev ex le rootPly K hK d (by omega) IH p a b st hst ha hb _ rfl
    exact ⟨h1, h2, h3, h4, h5⟩

end Morlock.Proofs.AB
