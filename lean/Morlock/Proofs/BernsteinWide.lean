import Morlock.Proofs.BernsteinRnd
import Morlock.Proofs.FltOrder
/-!
# BERNSTEIN: `Eval.Evaluate` is finite for every factor that keeps Go's `int` from wrapping

`Proofs/BernsteinFlt.lean` proves totality for `0 ≤ factor ≤ 10^4`, where both scores are below `2^24` and convert to
float32 exactly. Here the scores are only known to lie in `[1, 2^63]`: the conversion `eval.Pawns(score)` rounds, but

* it is finite and at most `2^63` (`rnd32_facts_abs_le`: a power of two survives rounding),
* the divisor is at least `1`, because rounding is monotone and `1` is a float32 (`rnd_mono`, `rnd32_int`),
* the product with `100` is at most `100 · 2^63 < 2^70`, the quotient by something `≥ 1` likewise: far below `2^127`.
-/
namespace Morlock.Proofs.Bernstein
open Morlock Morlock.Model Morlock.Model.Bernstein
open Morlock.Model.Flt

/-- `eval.Pawns(n)` for `1 ≤ n ≤ 2^63`: finite, between `1` and `2^63` -/
theorem rnd_score {n : Int} (h1 : 1 ≤ n) (h2 : n ≤ 2 ^ 63) :
    ∃ a, rnd f32 (Q.ofInt n) = some a ∧ 0 < a.den ∧ a.num.natAbs ≤ 2 ^ 63 * a.den ∧ (a.den : Int) ≤ a.num := by
  have hd : 0 < (Q.ofInt n).den := Nat.one_pos
  have hb : (Q.ofInt n).num.natAbs ≤ 2 ^ 63 * (Q.ofInt n).den := by
    show n.natAbs ≤ 2 ^ 63 * 1
    omega
  have hsome := rnd32_isSome_of_le (Q.ofInt n) hd (Nat.le_trans hb (Nat.mul_le_mul_right _ (by decide)))
  obtain ⟨a, ha⟩ := Option.isSome_iff_exists.mp hsome
  have had := rnd_den_pos ha
  have habs := rnd32_facts_abs_le _ _ 63 (by decide) hd hb ha
  have hone : rnd f32 (Q.ofInt 1) = some (Q.ofInt 1) := rnd32_int 1 (by decide)
  have hle : Q.Le (Q.ofInt 1) (Q.ofInt n) := by
    show (1 : Int) * ((1 : Nat) : Int) ≤ n * ((1 : Nat) : Int)
    omega
  have hmono := rnd_mono f32 f32_wf (x := Q.ofInt 1) (y := Q.ofInt n) Nat.one_pos hd hle hone ha
  refine ⟨a, ha, had, habs, ?_⟩
  have : (1 : Int) * (a.den : Int) ≤ a.num * ((1 : Nat) : Int) := hmono
  omega

/-- `± Pawns(s) * 100 / Pawns(o)` is a finite float32 for `1 ≤ s, o ≤ 2^63` -/
theorem ratio_isSome_wide {s o : Int} (hs : 1 ≤ s) (hs' : s ≤ 2 ^ 63) (ho : 1 ≤ o) (ho' : o ≤ 2 ^ 63) (sign : Bool) :
    ((rnd f32 (Q.ofInt s)).bind fun a =>
      (Flt.mul f32 (if sign then a.neg else a) (Q.ofInt 100)).bind fun m =>
      (rnd f32 (Q.ofInt o)).bind fun b => Flt.div f32 m b).isSome = true := by
  obtain ⟨a, ha, had, habs, _⟩ := rnd_score hs hs'
  obtain ⟨b, hb, hbd, _, hbge⟩ := rnd_score ho ho'
  rw [ha, Option.bind_some]
  generalize ha' : (if sign then a.neg else a) = a'
  have ha'd : a'.den = a.den := by subst ha'; cases sign <;> rfl
  have ha'n : a'.num.natAbs = a.num.natAbs := by
    subst ha'; cases sign
    · rfl
    · simp [Q.neg]
  -- the product
  have hxd : 0 < (a'.mul (Q.ofInt 100)).den := by
    unfold Q.mul
    apply norm_den_pos
    show 0 < a'.den * (Q.ofInt 100).den
    rw [ha'd]; exact Nat.mul_pos had Nat.one_pos
  have hxa : (a'.mul (Q.ofInt 100)).num.natAbs ≤ 2 ^ 70 * (a'.mul (Q.ofInt 100)).den := by
    unfold Q.mul
    apply norm_abs_le
    · show 0 < a'.den * (Q.ofInt 100).den
      rw [ha'd]; exact Nat.mul_pos had Nat.one_pos
    · show (a'.num * (Q.ofInt 100).num).natAbs ≤ 2 ^ 70 * (a'.den * (Q.ofInt 100).den)
      rw [Int.natAbs_mul, ha'n, ha'd]
      show a.num.natAbs * 100 ≤ 2 ^ 70 * (a.den * 1)
      have h2 : a.num.natAbs * 100 ≤ 2 ^ 63 * a.den * 100 := Nat.mul_le_mul_right _ habs
      have h3 : 2 ^ 63 * a.den * 100 ≤ 2 ^ 70 * (a.den * 1) := by
        have : (2 : Nat) ^ 63 * 100 ≤ 2 ^ 70 := by decide
        calc 2 ^ 63 * a.den * 100 = (2 ^ 63 * 100) * a.den := by rw [Nat.mul_right_comm]
          _ ≤ 2 ^ 70 * a.den := Nat.mul_le_mul_right _ this
          _ = 2 ^ 70 * (a.den * 1) := by rw [Nat.mul_one]
      exact Nat.le_trans h2 h3
  have hsome := rnd32_isSome_of_le _ hxd (Nat.le_trans hxa (Nat.mul_le_mul_right _ (by decide)))
  unfold Flt.mul
  obtain ⟨m, hm⟩ := Option.isSome_iff_exists.mp hsome
  rw [hm, Option.bind_some, hb, Option.bind_some]
  have hmd := rnd_den_pos hm
  have hma := rnd32_facts_abs_le _ _ 70 (by decide) hxd hxa hm
  -- the divisor is at least one
  have hbpos : 0 < b.num := by omega
  unfold Flt.div
  have hne : (b.num == 0) = false := by
    rw [beq_eq_false_iff_ne]; omega
  rw [hne]
  simp only [Bool.false_eq_true, if_false]
  have hbn : b.den ≤ b.num.toNat := by omega
  have hqd : 0 < (m.div b).den := by
    unfold Q.div
    rw [if_pos hbpos]
    apply norm_den_pos
    show 0 < m.den * b.num.toNat
    exact Nat.mul_pos hmd (by omega)
  have hqa : (m.div b).num.natAbs ≤ 2 ^ 70 * (m.div b).den := by
    unfold Q.div
    rw [if_pos hbpos]
    apply norm_abs_le
    · show 0 < m.den * b.num.toNat
      exact Nat.mul_pos hmd (by omega)
    · show (m.num * (b.den : Int)).natAbs ≤ 2 ^ 70 * (m.den * b.num.toNat)
      rw [Int.natAbs_mul, Int.natAbs_natCast]
      calc m.num.natAbs * b.den ≤ (2 ^ 70 * m.den) * b.num.toNat := Nat.mul_le_mul hma hbn
        _ = 2 ^ 70 * (m.den * b.num.toNat) := Nat.mul_assoc _ _ _
  exact rnd32_isSome_of_le _ hqd (Nat.le_trans hqa (Nat.mul_le_mul_right _ (by decide)))

/-- the bound on `|factor|` up to which Go's 64-bit `int` provably does not wrap: `2^52` (`1344 · 2^52 + 82304 < 2^63`) -/
def factorMax : Int := 2 ^ 52

/-- the largest score for `|factor| ≤ 2^52` -/
def scoreMax : Int := 82304 + 1344 * 2 ^ 52

theorem scoreMax_lt : scoreMax < 2 ^ 63 := by decide

/-- **No `int` wraps**: for `|factor| ≤ 2^52` the product `factor * material`, the sum before `max(1, ·)` and the score are
    64-bit integers, and the score lies in `[1, 82304 + 1344·2^52]`. -/
theorem evaluate_bounds_wide {p : Position} {factor : Int} {side : Color} {v : Int}
    (hf0 : -factorMax ≤ factor) (hf1 : factor ≤ factorMax) (h : evaluate p factor side = some v) :
    1 ≤ v ∧ v ≤ scoreMax ∧ -(2 ^ 63) < factor * material p side ∧ factor * material p side < 2 ^ 63 := by
  refine ⟨evaluate_ge_one h, ?_⟩
  unfold evaluate at h
  cases hk : kingDefense p side with
  | none => rw [hk] at h; cases h
  | some d =>
    rw [hk] at h
    simp only [Option.some.injEq] at h
    have hm := mobility_bounds p side
    have hc := control_bounds p side
    have hd := kingDefense_bounds hk
    have hmat := material_bounds p side
    unfold factorMax at hf0 hf1
    have hprod : factor * material p side ≤ 2 ^ 52 * 1344 := by
      calc factor * material p side ≤ 2 ^ 52 * material p side := Int.mul_le_mul_of_nonneg_right hf1 hmat.1
        _ ≤ 2 ^ 52 * 1344 := Int.mul_le_mul_of_nonneg_left hmat.2 (by decide)
    have hprod0 : -(2 ^ 52 * 1344) ≤ factor * material p side := by
      have h1 : (-(2 ^ 52)) * material p side ≤ factor * material p side := Int.mul_le_mul_of_nonneg_right hf0 hmat.1
      have h2 : (2 : Int) ^ 52 * material p side ≤ 2 ^ 52 * 1344 := Int.mul_le_mul_of_nonneg_left hmat.2 (by decide)
      have h3 : (-(2 ^ 52)) * material p side = -((2 : Int) ^ 52 * material p side) := Int.neg_mul _ _
      omega
    have e1 : (2 : Int) ^ 52 * 1344 = 6052837899185946624 := by decide
    have e2 : (2 : Int) ^ 63 = 9223372036854775808 := by decide
    have e3 : scoreMax = 6052837899186028928 := by decide
    rw [e1] at hprod hprod0
    rw [e2, e3]
    omega

/-- **`Eval.Evaluate` returns a finite float32** whenever both `Evaluate` calls return (both sides have a king) and
    `|factor| ≤ 2^52`. -/
theorem evalEvaluate_isSome_wide {p : Position} {factor : Int} {turn : Color}
    (hf0 : -factorMax ≤ factor) (hf1 : factor ≤ factorMax)
    (hk1 : p.kingSquare turn < 64) (hk2 : p.kingSquare turn.opp < 64) :
    (evalEvaluate p factor turn).isSome = true := by
  obtain ⟨s, hs⟩ := Option.isSome_iff_exists.mp ((evaluate_isSome_iff p factor turn).mpr hk1)
  obtain ⟨o, ho⟩ := Option.isSome_iff_exists.mp ((evaluate_isSome_iff p factor turn.opp).mpr hk2)
  have bs := evaluate_bounds_wide hf0 hf1 hs
  have bo := evaluate_bounds_wide hf0 hf1 ho
  have hmax := scoreMax_lt
  unfold evalEvaluate
  rw [hs, ho]
  simp only
  split
  · rfl
  · split
    · have := ratio_isSome_wide (s := s) (o := o) bs.1 (by omega) bo.1 (by omega) false
      simpa using this
    · have := ratio_isSome_wide (s := o) (o := s) bo.1 (by omega) bs.1 (by omega) true
      simpa using this

end Morlock.Proofs.Bernstein
