import Morlock.Proofs.SargonAttackers
/-!
# SARGON, part 3: `findSide` and `Exchange` are total, with bounds

For every sorter that returns a permutation of its input (`SortOK`; every implementation of `sort.Slice` does):
the flattening loop of `findSide` ends within its budget, the `Exchange` loop ends within its budget and never
indexes the empty `defenders`, and the exchange value is bounded.
-/
namespace Morlock.Proofs.Sargon
open Morlock Morlock.Model Morlock.Model.Sargon Morlock.Proofs.Attack Morlock.Proofs.Gen

/-- what is assumed of `sort.Slice`: the result is a rearrangement of the input -/
def SortOK (srt : List Attacker → List Attacker) : Prop := ∀ l, (srt l).Perm l

theorem numAttackers_nil : numAttackers [] = 0 := rfl
theorem numAttackers_cons (a : Attacker) (l : List Attacker) :
    numAttackers (a :: l) = 1 + a.behind.length + numAttackers l := by
  simp [numAttackers]

theorem numAttackers_append (l l' : List Attacker) : numAttackers (l ++ l') = numAttackers l + numAttackers l' := by
  induction l with
  | nil => simp [numAttackers_nil]
  | cons a l ih => simp only [List.cons_append, numAttackers_cons, ih]; omega

theorem numAttackers_perm {l l' : List Attacker} (h : l.Perm l') : numAttackers l = numAttackers l' := by
  induction h with
  | nil => rfl
  | cons a _ ih => simp only [numAttackers_cons, ih]
  | swap a b l => simp only [numAttackers_cons]; omega
  | trans _ _ ih1 ih2 => exact ih1.trans ih2

theorem numAttackers_filter_le (q : Attacker → Bool) (l : List Attacker) : numAttackers (l.filter q) ≤ numAttackers l := by
  induction l with
  | nil => simp
  | cons a l ih =>
    by_cases h : q a = true
    · simp only [List.filter_cons, h, if_true, numAttackers_cons]; omega
    · simp only [List.filter_cons, h, numAttackers_cons]; simp; omega

theorem length_le_numAttackers (l : List Attacker) : l.length ≤ numAttackers l := by
  induction l with
  | nil => simp
  | cons a l ih => simp only [List.length_cons, numAttackers_cons]; omega

theorem numAttackers_le {l : List Attacker} {n : Nat} (hl : l.length ≤ n) (hd : DepthOK l) :
    numAttackers l ≤ n * stackFuel := by
  induction l generalizing n with
  | nil => simp [numAttackers_nil]
  | cons a l ih =>
    cases n with
    | zero => simp at hl
    | succ n =>
      have h1 := hd a (List.mem_cons_self ..)
      have h2 := ih (n := n) (by simpa using hl) (fun x hx => hd x (List.mem_cons_of_mem _ hx))
      rw [numAttackers_cons, Nat.succ_mul]
      omega

theorem insertByVal_perm (x : Attacker) : ∀ l, (insertByVal x l).Perm (x :: l) := by
  intro l
  induction l with
  | nil => exact List.Perm.refl _
  | cons y ys ih =>
    unfold insertByVal
    split
    · exact List.Perm.refl _
    · exact (List.Perm.cons y ih).trans (List.Perm.swap x y ys)

theorem stableSort_ok : SortOK stableSort := by
  intro l
  unfold stableSort
  suffices h : ∀ (acc : List Attacker), (l.foldl (fun acc x => insertByVal x acc) acc).Perm (acc ++ l) by
    simpa using h []
  induction l with
  | nil => intro acc; simp
  | cons x l ih =>
    intro acc
    simp only [List.foldl_cons]
    refine (ih _).trans ?_
    have h1 : (insertByVal x acc ++ l).Perm ((x :: acc) ++ l) := List.Perm.append_right l (insertByVal_perm x acc)
    refine h1.trans ?_
    simp only [List.cons_append]
    exact (List.perm_middle).symm

/-! ## `findSide` -/

theorem flattenW_ok {srt : List Attacker → List Attacker} (hs : SortOK srt) :
    ∀ fuel l, numAttackers l ≤ fuel → ∃ out, flattenW srt fuel l = .ok out ∧ out.length = numAttackers l := by
  intro fuel
  induction fuel with
  | zero =>
    intro l hl
    cases l with
    | nil => exact ⟨[], rfl, rfl⟩
    | cons a l => rw [numAttackers_cons] at hl; omega
  | succ n ih =>
    intro l hl
    cases l with
    | nil => exact ⟨[], rfl, rfl⟩
    | cons a rest =>
      rw [numAttackers_cons] at hl
      cases hb : a.behind with
      | nil =>
        have hnext : a.next = none := by simp [Attacker.next, hb]
        obtain ⟨out, hout, hlen⟩ := ih rest (by omega)
        refine ⟨a :: out, ?_, ?_⟩
        · simp only [flattenW, hnext, hout]
        · rw [numAttackers_cons, List.length_cons, hlen, hb]; simp; omega
      | cons q bs =>
        have hnext : a.next = some { front := q, behind := bs } := by simp [Attacker.next, hb]
        have hn : numAttackers (srt (rest ++ [{ front := q, behind := bs }])) = a.behind.length + numAttackers rest := by
          rw [numAttackers_perm (hs _), numAttackers_append, numAttackers_cons, numAttackers_nil, hb]
          simp; omega
        obtain ⟨out, hout, hlen⟩ := ih (srt (rest ++ [{ front := q, behind := bs }])) (by omega)
        refine ⟨a :: out, ?_, ?_⟩
        · simp only [flattenW, hnext, hout]
        · rw [numAttackers_cons, List.length_cons, hlen, hn]; omega

theorem findSideW_ok {srt : List Attacker → List Attacker} (hs : SortOK srt) (l : List Attacker) (c : Color) :
    ∃ out, findSideW srt l c = .ok out ∧ out.length ≤ numAttackers l := by
  unfold findSideW
  obtain ⟨out, hout, hlen⟩ := flattenW_ok hs _ (srt (l.filter fun a => a.front.color == c)) (Nat.le_refl _)
  refine ⟨out, hout, ?_⟩
  rw [hlen, numAttackers_perm (hs _)]
  exact numAttackers_filter_le _ _

/-! ## the `Exchange` loop -/

theorem nominalValue_range (k : Piece) : 0 ≤ nominalValue k ∧ nominalValue k ≤ 100 := by
  cases k <;> decide

theorem val_range (a : Attacker) : 0 ≤ val a ∧ val a ≤ 100 := nominalValue_range _

theorem exchangeLoop_ok :
    ∀ fuel (a d : List Attacker) (residue defender : Int) (cur : Color) (R : Int),
      a.length + d.length ≤ fuel → 0 ≤ defender → defender ≤ 100 → -R ≤ residue → residue ≤ R →
      ∃ res cur', exchangeLoop fuel a d residue defender cur = .ok (res, cur') ∧
        -(R + 100 * ((a.length + d.length : Nat) : Int)) ≤ res ∧ res ≤ R + 100 * ((a.length + d.length : Nat) : Int) := by
  intro fuel
  induction fuel with
  | zero =>
    intro a d residue defender cur R hlen _ _ h1 h2
    cases a with
    | nil => exact ⟨residue, cur, by simp [exchangeLoop], by omega, by omega⟩
    | cons x xs => simp at hlen
  | succ n ih =>
    intro a d residue defender cur R hlen hd0 hd1 h1 h2
    cases a with
    | nil => exact ⟨residue, cur, by simp [exchangeLoop], by omega, by omega⟩
    | cons x xs =>
      have hv := val_range x
      -- the recursive call, when the attack happens
      have hrec := ih d xs (-(residue + defender)) (val x) cur.opp (R + 100) (by simp at hlen ⊢; omega) hv.1 hv.2
        (by omega) (by omega)
      obtain ⟨res, cur', hres, hb1, hb2⟩ := hrec
      have hstop : ∃ res cur', (Except.ok (residue, cur) : Except SErr (Int × Color)) = .ok (res, cur') ∧
          -(R + 100 * (((x :: xs).length + d.length : Nat) : Int)) ≤ res ∧
          res ≤ R + 100 * (((x :: xs).length + d.length : Nat) : Int) := ⟨residue, cur, rfl, by omega, by omega⟩
      have hgo : ∃ res cur', exchangeLoop n d xs (-(residue + defender)) (val x) cur.opp = .ok (res, cur') ∧
          -(R + 100 * (((x :: xs).length + d.length : Nat) : Int)) ≤ res ∧
          res ≤ R + 100 * (((x :: xs).length + d.length : Nat) : Int) := by
        refine ⟨res, cur', hres, ?_, ?_⟩
        · simp only [List.length_cons] at hb1 ⊢; omega
        · simp only [List.length_cons] at hb2 ⊢; omega
      unfold exchangeLoop
      by_cases hw1 : (d.isEmpty || decide (val x ≤ defender)) = true
      · simp only [hw1, if_true]
        exact hgo
      · simp only [hw1]
        have hdne : d.isEmpty = false := by
          cases hde : d.isEmpty
          · rfl
          · simp [hde] at hw1
        cases xs with
        | nil => simpa using hstop
        | cons a2 xs' =>
          cases d with
          | nil => simp at hdne
          | cons d0 ds =>
            by_cases hw2 : decide (val x + val a2 ≤ defender + val d0) = true
            · simp only [hw2]; exact hgo
            · have : decide (val x + val a2 ≤ defender + val d0) = false := by simpa using hw2
              simp only [this]; simpa using hstop

/-- bound on the number of flattened attackers of one side -/
def sideMax : Nat := 384 * stackFuel

/-- **`Exchange` is total and bounded** on every represented position, for every sorter. -/
theorem exchangeW_ok {p : Position} {b : Board} (hrep : Rep p b) {srt : List Attacker → List Attacker} (hs : SortOK srt)
    (pins : Pins) (side : Color) {sq : Nat} (hsq : sq < 64) :
    ∃ v, exchangeW srt p pins side sq = .ok v ∧ -(200 * (sideMax : Int)) ≤ v ∧ v ≤ 200 * (sideMax : Int) := by
  unfold exchangeW
  cases hsqr : p.square sq with
  | none => exact ⟨0, rfl, by unfold sideMax stackFuel; omega, by unfold sideMax stackFuel; omega⟩
  | some cp =>
    obtain ⟨cur, piece⟩ := cp
    simp only []
    by_cases hk : piece = .king
    · simp only [hk, if_true]
      exact ⟨0, rfl, by unfold sideMax stackFuel; omega, by unfold sideMax stackFuel; omega⟩
    · simp only [hk, if_false]
      obtain ⟨da, hda, nda, dda⟩ := findAttackers_ok hrep pins hsq cur
      obtain ⟨aa, haa, naa, daa⟩ := findAttackers_ok hrep pins hsq cur.opp
      obtain ⟨defenders, hdef, ndef⟩ := findSideW_ok hs da cur
      obtain ⟨attackers, hatt, natt⟩ := findSideW_ok hs aa cur.opp
      have hnd := numAttackers_le nda dda
      have hna := numAttackers_le naa daa
      have hnv := nominalValue_range piece
      obtain ⟨res, cur', hloop, hb1, hb2⟩ := exchangeLoop_ok (attackers.length + defenders.length) attackers defenders 0
        (nominalValue piece) cur 0 (Nat.le_refl _) hnv.1 hnv.2 (by omega) (by omega)
      simp only [hda, hdef, haa, hatt, hloop]
      have hL : ((attackers.length + defenders.length : Nat) : Int) ≤ 2 * (sideMax : Int) := by
        unfold sideMax; omega
      by_cases hc : cur' = side
      · exact ⟨-res, by simp [hc], by omega, by omega⟩
      · exact ⟨res, by simp [hc], by omega, by omega⟩

end Morlock.Proofs.Sargon
