import Morlock.Proofs.FltLemmas
/-!
# Absolute error of one rounding: `|x| ≤ 2^k ⟹ |rnd f x − x| ≤ 2^(k − p)`

Half an ulp of the binade of `x` (the grid exponent before renormalisation), from `rhe_spec`, `expo_spec`, `carry_val`,
`ofME_spec` of the floating-point lemmas. Stated by cross-multiplication.
-/
namespace Morlock.Proofs.Turochamp
open Morlock.Model.Flt

/-- the positive core: `|a/b| ≤ 2^k`, `rndPos f a b = (m, e)`, `vn/vd = m·2^e` ⟹ `|vn/vd − a/b|·2^p ≤ 2^k` -/
theorem rndPos_err (f : Fmt) (wf : f.WF) (hmin : 2 ^ (f.p - 1) ≤ pd f.emin) (hmin0 : f.emin ≤ 0)
    {a b m vn vd k : Nat} {e : Int} (ha : 0 < a) (hb : 0 < b) (hab : a ≤ 2 ^ k * b)
    (h : rndPos f a b = some (m, e)) (hv : vn * pd e = m * pn e * vd) :
    ((vn * b - a * vd) + (a * vd - vn * b)) * 2 ^ f.p ≤ 2 ^ k * (b * vd) := by
  have hp := wf.p_pos
  rw [rndPos_eq'] at h
  split at h
  · cases h
  have hme : carry f (sig0 f a b) (expo f a b) = (m, e) := by simpa using h
  have hcv := carry_val f hp (sig0 f a b) (expo f a b)
  rw [hme] at hcv
  simp only [] at hcv
  -- abbreviations
  generalize he0 : expo f a b = e0 at hcv
  have hexp := expo_spec f hp ha hb
  rw [he0] at hexp
  have hrhe := rhe_spec (a * pd e0) (b * pn e0) (Nat.mul_pos hb (pn_pos _))
  have hs0 : sig0 f a b = roundHalfEven (a * pd e0) (b * pn e0) := by unfold sig0; rw [he0]
  rw [hs0] at hcv
  generalize roundHalfEven (a * pd e0) (b * pn e0) = m0 at hcv hrhe
  -- vn * pd e0 = m0 * pn e0 * vd
  have key1 : vn * pd e0 = m0 * pn e0 * vd := by
    have h1 : vn * pd e0 * pd e = m0 * pn e0 * vd * pd e := by
      calc vn * pd e0 * pd e = (vn * pd e) * pd e0 := by rw [Nat.mul_right_comm]
        _ = (m * pn e * vd) * pd e0 := by rw [hv]
        _ = (m * pn e * pd e0) * vd := by rw [Nat.mul_right_comm]
        _ = (m0 * pn e0 * pd e) * vd := by rw [hcv]
        _ = m0 * pn e0 * vd * pd e := by rw [Nat.mul_right_comm]
    exact Nat.eq_of_mul_eq_mul_right (pd_pos e) h1
  -- 2^(p-1) * pn e0 ≤ 2^k * pd e0
  have key2 : 2 ^ (f.p - 1) * pn e0 ≤ 2 ^ k * pd e0 := by
    rcases hexp.lower with hl | hl
    · rw [hl, pn_of_nonpos hmin0, Nat.mul_one]
      calc 2 ^ (f.p - 1) ≤ pd f.emin := hmin
        _ ≤ 2 ^ k * pd f.emin := Nat.le_mul_of_pos_left _ (Nat.two_pow_pos k)
    · have h1 : 2 ^ (f.p - 1) * pn e0 * b ≤ 2 ^ k * pd e0 * b := by
        calc 2 ^ (f.p - 1) * pn e0 * b = 2 ^ (f.p - 1) * b * pn e0 := by rw [Nat.mul_right_comm]
          _ ≤ a * pd e0 := hl
          _ ≤ (2 ^ k * b) * pd e0 := Nat.mul_le_mul_right _ hab
          _ = 2 ^ k * pd e0 * b := by rw [Nat.mul_right_comm]
      exact Nat.le_of_mul_le_mul_right h1 hb
  -- with A = a * pd e0, B = b * pn e0:  vn * b * pd e0 = m0 * B * vd,  a * vd * pd e0 = A * vd
  have e1 : vn * b * pd e0 = m0 * (b * pn e0) * vd := by
    calc vn * b * pd e0 = (vn * pd e0) * b := by rw [Nat.mul_right_comm]
      _ = (m0 * pn e0 * vd) * b := by rw [key1]
      _ = m0 * (b * pn e0) * vd := by
        rw [Nat.mul_right_comm (m0 * pn e0) vd b, Nat.mul_assoc m0 (pn e0) b, Nat.mul_comm (pn e0) b]
  have e2 : a * vd * pd e0 = (a * pd e0) * vd := Nat.mul_right_comm _ _ _
  -- 2 * D * pd e0 ≤ B * vd
  have hD : 2 * ((vn * b - a * vd) + (a * vd - vn * b)) * pd e0 ≤ (b * pn e0) * vd := by
    have hA1 : 2 * m0 * (b * pn e0) * vd ≤ (2 * (a * pd e0) + b * pn e0) * vd := Nat.mul_le_mul_right _ hrhe.1
    have hA2 : 2 * (a * pd e0) * vd ≤ (2 * m0 * (b * pn e0) + b * pn e0) * vd := Nat.mul_le_mul_right _ hrhe.2
    have x1 : 2 * ((vn * b - a * vd) + (a * vd - vn * b)) * pd e0 =
        2 * ((vn * b * pd e0 - a * vd * pd e0) + (a * vd * pd e0 - vn * b * pd e0)) := by
      rw [Nat.mul_assoc, Nat.add_mul, Nat.sub_mul, Nat.sub_mul]
    rw [x1, e1, e2]
    have y1 : 2 * m0 * (b * pn e0) * vd = 2 * (m0 * (b * pn e0) * vd) := by
      rw [Nat.mul_assoc 2 m0, Nat.mul_assoc 2]
    have y2 : 2 * (a * pd e0) * vd = 2 * (a * pd e0 * vd) := Nat.mul_assoc _ _ _
    rw [Nat.add_mul, y1] at hA2
    rw [Nat.add_mul, y2] at hA1
    rw [y1] at hA1
    rw [y2] at hA2
    omega
  -- conclude
  have h2p : 2 ^ f.p = 2 ^ (f.p - 1) * 2 := by rw [Nat.mul_comm]; exact (two_pow_pred hp).symm
  have fin : ((vn * b - a * vd) + (a * vd - vn * b)) * 2 ^ f.p * pd e0 ≤ 2 ^ k * (b * vd) * pd e0 := by
    calc ((vn * b - a * vd) + (a * vd - vn * b)) * 2 ^ f.p * pd e0
        = 2 ^ (f.p - 1) * (2 * ((vn * b - a * vd) + (a * vd - vn * b)) * pd e0) := by
          rw [h2p]
          generalize ((vn * b - a * vd) + (a * vd - vn * b)) = D
          ac_rfl
      _ ≤ 2 ^ (f.p - 1) * ((b * pn e0) * vd) := Nat.mul_le_mul_left _ hD
      _ = (2 ^ (f.p - 1) * pn e0) * (b * vd) := by ac_rfl
      _ ≤ (2 ^ k * pd e0) * (b * vd) := Nat.mul_le_mul_right _ key2
      _ = 2 ^ k * (b * vd) * pd e0 := by rw [Nat.mul_right_comm]
  exact Nat.le_of_mul_le_mul_right fin (pd_pos e0)

/-- **One rounding errs by at most `2^(k−p)` on `|x| ≤ 2^k`.** -/
theorem rnd_err (f : Fmt) (wf : f.WF) (hmin : 2 ^ (f.p - 1) ≤ pd f.emin) (hmin0 : f.emin ≤ 0) {x v : Q} {k : Nat}
    (hd : 0 < x.den) (hb : x.num.natAbs ≤ 2 ^ k * x.den) (h : rnd f x = some v) :
    (v.num * x.den - x.num * v.den).natAbs * 2 ^ f.p ≤ 2 ^ k * (x.den * v.den) := by
  by_cases h0 : x.num = 0
  · rw [rnd_of_num_eq_zero f h0] at h
    have : v = ⟨0, 1⟩ := by simpa using h.symm
    subst this
    simp [h0]
  · rw [rnd_of_num_ne_zero f h0] at h
    cases hr : rndPos f x.num.natAbs x.den with
    | none => rw [hr] at h; cases h
    | some me =>
      obtain ⟨m, e⟩ := me
      rw [hr] at h
      have hv : v = ofME (decide (x.num < 0)) m e := by simpa using h.symm
      obtain ⟨_, hval, hneg, _⟩ := ofME_spec (decide (x.num < 0)) m e
      rw [← hv] at hval hneg
      have ha : 0 < x.num.natAbs := by omega
      have core := rndPos_err f wf hmin hmin0 ha hd hb hr hval
      -- the signs agree
      have hsign : (v.num * x.den - x.num * v.den).natAbs =
          (v.num.natAbs * x.den - x.num.natAbs * v.den) + (x.num.natAbs * v.den - v.num.natAbs * x.den) := by
        have c1 : ((v.num.natAbs * x.den : Nat) : Int) = (v.num.natAbs : Int) * x.den := Int.natCast_mul _ _
        have c2 : ((x.num.natAbs * v.den : Nat) : Int) = (x.num.natAbs : Int) * v.den := Int.natCast_mul _ _
        rcases Int.lt_or_lt_of_ne h0 with hx | hx
        · -- x negative: v.num ≤ 0
          have hvn : v.num ≤ 0 := by
            rcases Int.lt_or_le 0 v.num with hp | hp
            · exfalso
              have : ¬ (v.num < 0) := by omega
              by_cases hm : 0 < m
              · exact this (hneg.mpr ⟨by simpa using hx, hm⟩)
              · have hm0 : m = 0 := by omega
                rw [hm0] at hval
                simp only [Nat.zero_mul] at hval
                have := pd_pos e
                have : v.num.natAbs = 0 := by
                  rcases Nat.mul_eq_zero.mp hval with h1 | h1 <;> omega
                omega
            · exact hp
          have a1 : (v.num.natAbs : Int) = -v.num := by omega
          have a2 : (x.num.natAbs : Int) = -x.num := by omega
          have b1 : v.num * x.den = -((v.num.natAbs * x.den : Nat) : Int) := by rw [c1, a1]; simp [Int.neg_mul]
          have b2 : x.num * v.den = -((x.num.natAbs * v.den : Nat) : Int) := by rw [c2, a2]; simp [Int.neg_mul]
          rw [b1, b2]
          omega
        · -- x positive: v.num ≥ 0
          have hvn : 0 ≤ v.num := by
            rcases Int.lt_or_le v.num 0 with hp | hp
            · have := (hneg.mp hp).1
              simp at this
              omega
            · exact hp
          have a1 : (v.num.natAbs : Int) = v.num := by omega
          have a2 : (x.num.natAbs : Int) = x.num := by omega
          have b1 : v.num * x.den = ((v.num.natAbs * x.den : Nat) : Int) := by rw [c1, a1]
          have b2 : x.num * v.den = ((x.num.natAbs * v.den : Nat) : Int) := by rw [c2, a2]
          rw [b1, b2]
          omega
      rw [hsign]
      exact core

set_option exponentiation.threshold 2048 in
theorem f64_hmin : 2 ^ (f64.p - 1) ≤ pd f64.emin := by
  show 2 ^ 52 ≤ 2 ^ 1074
  exact Nat.pow_le_pow_right (by decide) (by decide)

theorem f32_hmin : 2 ^ (f32.p - 1) ≤ pd f32.emin := by decide

/-- float32: `|x| ≤ 2^k ⟹ |rnd x − x| ≤ 2^(k−24)` -/
theorem rnd_err32 {x v : Q} {k : Nat} (hd : 0 < x.den) (hb : x.num.natAbs ≤ 2 ^ k * x.den) (h : rnd f32 x = some v) :
    (v.num * x.den - x.num * v.den).natAbs * 2 ^ 24 ≤ 2 ^ k * (x.den * v.den) :=
  rnd_err f32 f32_wf f32_hmin (by decide) hd hb h

/-- float64: `|x| ≤ 2^k ⟹ |rnd x − x| ≤ 2^(k−53)` -/
theorem rnd_err64 {x v : Q} {k : Nat} (hd : 0 < x.den) (hb : x.num.natAbs ≤ 2 ^ k * x.den) (h : rnd f64 x = some v) :
    (v.num * x.den - x.num * v.den).natAbs * 2 ^ 53 ≤ 2 ^ k * (x.den * v.den) :=
  rnd_err f64 f64_wf f64_hmin (by decide) hd hb h

end Morlock.Proofs.Turochamp
