import Morlock.Spec.Chess
import Morlock.Proofs.AttackBounds
/-!
# The reference attack relation is symmetric ("look from the target square")

`t ∈ officerTargets occ k sq ↔ sq ∈ officerTargets occ k t` for squares of the board: a step can be
walked backwards, hence so can a ray (same squares in between), and every direction set is closed
under negation. Pure reference-side geometry, used for `isAttacked`.
-/
namespace Morlock.Proofs.Gen
open Morlock Morlock.Spec Morlock.Proofs.Attack

/-- A step can be walked backwards. -/
theorem step_rev {sq t : Nat} {df dr : Int} (hs : sq < 64) (h : step sq df dr = some t) :
    step t (-df) (-dr) = some sq := by
  unfold step at h ⊢
  simp only [] at h ⊢
  split at h
  · rename_i hc
    injection h with h
    subst h
    unfold fileOf rankOf mkSq at *
    have h1 : (8 * ((↑(sq / 8) + dr : Int).toNat) + ((↑(sq % 8) + df : Int).toNat)) % 8 = ((↑(sq % 8) + df : Int).toNat) := by omega
    have h2 : (8 * ((↑(sq / 8) + dr : Int).toNat) + ((↑(sq % 8) + df : Int).toNat)) / 8 = ((↑(sq / 8) + dr : Int).toNat) := by omega
    rw [h1, h2]
    have e1 : (((↑(sq / 8) + dr : Int).toNat : Nat) : Int) = ↑(sq / 8) + dr := Int.toNat_of_nonneg hc.2.2.1
    have e2 : (((↑(sq % 8) + df : Int).toNat : Nat) : Int) = ↑(sq % 8) + df := Int.toNat_of_nonneg hc.1
    rw [e1, e2]
    rw [if_pos (by omega)]
    congr 1
    have e3 : (↑(sq / 8) + dr + -dr : Int) = ↑(sq / 8) := by omega
    have e4 : (↑(sq % 8) + df + -df : Int) = ↑(sq % 8) := by omega
    rw [e3, e4, Int.toNat_natCast, Int.toNat_natCast]
    exact Nat.div_add_mod sq 8
  · cases h

/-- `IsPath df dr s l`: `l` is walked from `s` by repeated `(df, dr)` steps. -/
def IsPath (df dr : Int) : Sq → List Sq → Prop
  | _, [] => True
  | s, u :: rest => step s df dr = some u ∧ IsPath df dr u rest

theorem isPath_snoc {df dr : Int} {x y : Sq} (hxy : step x df dr = some y) :
    ∀ (l : List Sq) (a : Sq), IsPath df dr a (l ++ [x]) → IsPath df dr a (l ++ [x] ++ [y]) := by
  intro l
  induction l with
  | nil => intro a h; exact ⟨h.1, hxy, trivial⟩
  | cons u rest ih => intro a h; exact ⟨h.1, ih u h.2⟩

/-- Membership in a ray: a path of empty squares leads to the target. -/
theorem mem_ray_iff (occ : Sq → Bool) (df dr : Int) (t : Sq) :
    ∀ (fuel : Nat) (sq : Sq), t ∈ ray occ sq df dr fuel ↔
      ∃ path : List Sq, path.length < fuel ∧ IsPath df dr sq (path ++ [t]) ∧ ∀ u ∈ path, occ u = false := by
  intro fuel
  induction fuel with
  | zero => intro sq; simp [ray]
  | succ fuel ih =>
    intro sq
    unfold ray
    cases hst : step sq df dr with
    | none =>
      simp only [List.not_mem_nil, false_iff]
      rintro ⟨path, _, hp, _⟩
      cases path with
      | nil => simp only [List.nil_append, IsPath] at hp; rw [hst] at hp; cases hp.1
      | cons u rest => simp only [List.cons_append, IsPath] at hp; rw [hst] at hp; cases hp.1
    | some s =>
      simp only
      by_cases ho : occ s = true
      · rw [if_pos ho]
        simp only [List.mem_singleton]
        constructor
        · rintro rfl
          exact ⟨[], by simp, ⟨hst, trivial⟩, by simp⟩
        · rintro ⟨path, _, hp, hocc⟩
          cases path with
          | nil =>
            simp only [List.nil_append, IsPath] at hp
            rw [hst] at hp; exact (Option.some.inj hp.1).symm
          | cons u rest =>
            simp only [List.cons_append, IsPath] at hp
            rw [hst] at hp
            have : s = u := Option.some.inj hp.1
            subst this
            rw [hocc s (by simp)] at ho; cases ho
      · rw [if_neg ho]
        simp only [List.mem_cons, ih s]
        constructor
        · rintro (rfl | ⟨path, hl, hp, hocc⟩)
          · exact ⟨[], by simp, ⟨hst, trivial⟩, by simp⟩
          · refine ⟨s :: path, by simp; omega, ⟨hst, hp⟩, ?_⟩
            intro u hu
            simp only [List.mem_cons] at hu
            rcases hu with rfl | hu
            · simpa using ho
            · exact hocc u hu
        · rintro ⟨path, hl, hp, hocc⟩
          cases path with
          | nil =>
            simp only [List.nil_append, IsPath] at hp
            rw [hst] at hp; exact Or.inl (Option.some.inj hp.1).symm
          | cons u rest =>
            simp only [List.cons_append, IsPath] at hp
            rw [hst] at hp
            have : s = u := Option.some.inj hp.1
            subst this
            right
            exact ⟨rest, by simp at hl; omega, hp.2, fun v hv => hocc v (by simp [hv])⟩

/-- A path walked backwards. -/
theorem isPath_rev {df dr : Int} {t : Sq} :
    ∀ (path : List Sq) (sq : Sq), sq < 64 → IsPath df dr sq (path ++ [t]) →
      IsPath (-df) (-dr) t (path.reverse ++ [sq]) := by
  intro path
  induction path with
  | nil =>
    intro sq hs h
    simp only [List.nil_append, IsPath] at h
    exact ⟨step_rev hs h.1, trivial⟩
  | cons u rest ih =>
    intro sq hs h
    simp only [List.cons_append, IsPath] at h
    have hu : u < 64 := step_lt h.1
    have := ih u hu h.2
    rw [List.reverse_cons]
    exact isPath_snoc (step_rev hs h.1) _ _ this

/-- Rays are symmetric: `t` is seen from `sq` iff `sq` is seen from `t` in the opposite direction. -/
theorem ray_symm {occ : Sq → Bool} {df dr : Int} {fuel : Nat} {sq t : Sq} (hs : sq < 64)
    (h : t ∈ ray occ sq df dr fuel) : sq ∈ ray occ t (-df) (-dr) fuel := by
  rw [mem_ray_iff] at h ⊢
  obtain ⟨path, hl, hp, hocc⟩ := h
  exact ⟨path.reverse, by simpa using hl, isPath_rev path sq hs hp, fun u hu => hocc u (by simpa using hu)⟩

theorem neg_mem_rookDirs {d : Int × Int} (h : d ∈ rookDirs) : (-d.1, -d.2) ∈ rookDirs := by
  simp only [rookDirs, List.mem_cons, List.not_mem_nil, or_false] at h ⊢
  rcases h with rfl | rfl | rfl | rfl <;> simp

theorem neg_mem_bishopDirs {d : Int × Int} (h : d ∈ bishopDirs) : (-d.1, -d.2) ∈ bishopDirs := by
  simp only [bishopDirs, List.mem_cons, List.not_mem_nil, or_false] at h ⊢
  rcases h with rfl | rfl | rfl | rfl <;> simp

theorem neg_mem_knightJumps {d : Int × Int} (h : d ∈ knightJumps) : (-d.1, -d.2) ∈ knightJumps := by
  simp only [knightJumps, List.mem_cons, List.not_mem_nil, or_false] at h ⊢
  rcases h with rfl | rfl | rfl | rfl | rfl | rfl | rfl | rfl <;> simp

theorem neg_mem_kingSteps {d : Int × Int} (h : d ∈ kingSteps) : (-d.1, -d.2) ∈ kingSteps := by
  simp only [kingSteps, List.mem_append] at h ⊢
  rcases h with h | h
  · exact Or.inl (neg_mem_rookDirs h)
  · exact Or.inr (neg_mem_bishopDirs h)

theorem slide_symm {occ : Sq → Bool} {dirs : List (Int × Int)}
    (hneg : ∀ d, d ∈ dirs → (-d.1, -d.2) ∈ dirs) {sq t : Sq} (hs : sq < 64)
    (h : t ∈ dirs.flatMap fun (df, dr) => ray occ sq df dr 8) :
    sq ∈ dirs.flatMap fun (df, dr) => ray occ t df dr 8 := by
  simp only [List.mem_flatMap] at h ⊢
  obtain ⟨⟨df, dr⟩, hd, hm⟩ := h
  exact ⟨(-df, -dr), hneg _ hd, ray_symm hs hm⟩

theorem leap_symm {dirs : List (Int × Int)}
    (hneg : ∀ d, d ∈ dirs → (-d.1, -d.2) ∈ dirs) {sq t : Sq} (hs : sq < 64)
    (h : t ∈ dirs.filterMap fun (df, dr) => step sq df dr) :
    sq ∈ dirs.filterMap fun (df, dr) => step t df dr := by
  simp only [List.mem_filterMap] at h ⊢
  obtain ⟨⟨df, dr⟩, hd, hm⟩ := h
  exact ⟨(-df, -dr), hneg _ hd, step_rev hs hm⟩

/-- **Symmetry of the officer attack relation**, for every occupancy. -/
theorem officerTargets_symm {occ : Sq → Bool} {k : Kind} {sq t : Sq} (hs : sq < 64)
    (h : t ∈ officerTargets occ k sq) : sq ∈ officerTargets occ k t := by
  cases k <;> simp only [officerTargets] at h ⊢
  · cases h
  · exact slide_symm (fun d => neg_mem_bishopDirs) hs h
  · exact leap_symm (fun d => neg_mem_knightJumps) hs h
  · exact slide_symm (fun d => neg_mem_rookDirs) hs h
  · refine slide_symm (fun d hd => ?_) hs h
    have := neg_mem_kingSteps (d := d) (by simpa [kingSteps] using hd)
    simpa [kingSteps] using this
  · exact leap_symm (fun d => neg_mem_kingSteps) hs h

theorem officerTargets_symm_iff {occ : Sq → Bool} {k : Kind} {sq t : Sq} (hs : sq < 64) (ht : t < 64) :
    t ∈ officerTargets occ k sq ↔ sq ∈ officerTargets occ k t :=
  ⟨officerTargets_symm hs, officerTargets_symm ht⟩

end Morlock.Proofs.Gen
