import Morlock.Proofs.Arena
/-!
# The view of a board: everything it can read, with arena indices erased

`view w b` collects the board record of `b` (repetition map as a function), the contents of its current
node (without `next`, which no query reads) and the list of its strict ancestors (with `prev` erased -
the list structure replaces it). Under `WFWorld`:

* every observation (`obsNoResult`) is a function of the view (`obsNoResult_eq`),
* `pushMove` / `popMove` act on views as the pure functions `viewPush` / `viewPop`
  (`push_view`, `pop_view`).

All of C08 is then list reasoning about `viewPush` / `viewPop` plus frame lemmas for `view`.
-/
namespace Morlock.Proofs.Arena
open Morlock Morlock.Model Morlock.Model.World

/-! ## observations -/

/-- Everything a board reports, except its result. `hasMoved`, `reps` and `identical` are the whole
query functions (`HasMoved(k)` for every `k`, the repetition counter of every hash, and the private
`identicalPositionCount` of the current node for every argument). -/
structure ObsNR where
  pos : Position
  turn : Color
  hash : Nat
  noprogress : Int
  ply : Int
  moves : Int
  castledW : Bool
  castledB : Bool
  lastMove : Option Move
  secondToLastMove : Option Move
  hasMoved : Nat → Bitboard
  repCount : Int
  reps : Nat → Int
  identical : Color → Color → Int → Int

def obsNoResult (w : World) (b : Nat) : ObsNR :=
  { pos := (w.cur b).pos, turn := (w.board b).turn, hash := (w.cur b).hash, noprogress := (w.cur b).noprogress,
    ply := (w.board b).ply, moves := (w.board b).moves,
    castledW := (w.board b).castledW, castledB := (w.board b).castledB,
    lastMove := w.lastMove b, secondToLastMove := w.secondToLastMove b,
    hasMoved := fun k => w.hasMoved b k,
    repCount := repGet (w.board b).repetitions (w.cur b).hash,
    reps := fun h => repGet (w.board b).repetitions h,
    identical := fun turn t0 limit => w.identicalPositionCount (w.cur b) turn t0 limit }

/-- Result class "drawn". -/
def drawnR (r : Result) : Bool := r.outcome = .draw
/-- Result class "terminal" (checkmate / stalemate was adjudicated): `pushMove` refuses to move. -/
def blockedR (r : Result) : Bool := r.reason = .checkmate || r.reason = .stalemate

def drawn (w : World) (b : Nat) : Bool := drawnR (w.board b).result
def blocked (w : World) (b : Nat) : Bool := blockedR (w.board b).result
def resultNotDrawn (w : World) (b : Nat) : Prop := drawn w b = false

/-- Everything a board reports; of the result only its class (drawn or not, terminal or not). -/
structure Obs where
  nr : ObsNR
  drawn : Bool
  blocked : Bool

def obs (w : World) (b : Nat) : Obs := { nr := obsNoResult w b, drawn := drawn w b, blocked := blocked w b }

/-! ## views -/

def eraseNode (n : Node) : Node := { n with prev := none }

@[simp] theorem eraseNode_next (n : Node) : (eraseNode n).next = n.next := rfl
@[simp] theorem eraseNode_pos (n : Node) : (eraseNode n).pos = n.pos := rfl
@[simp] theorem eraseNode_hash (n : Node) : (eraseNode n).hash = n.hash := rfl
@[simp] theorem eraseNode_noprogress (n : Node) : (eraseNode n).noprogress = n.noprogress := rfl

structure View where
  pos : Position
  hash : Nat
  noprogress : Int
  /-- strict ancestors of the current node, nearest first, `prev` erased -/
  past : List Node
  turn : Color
  ply : Int
  moves : Int
  castledW : Bool
  castledB : Bool
  reps : Nat → Int
  result : Result

def view (w : World) (b : Nat) : View :=
  { pos := (w.cur b).pos, hash := (w.cur b).hash, noprogress := (w.cur b).noprogress,
    past := (anc w (w.cur b).prev).map eraseNode,
    turn := (w.board b).turn, ply := (w.board b).ply, moves := (w.board b).moves,
    castledW := (w.board b).castledW, castledB := (w.board b).castledB,
    reps := fun h => repGet (w.board b).repetitions h,
    result := (w.board b).result }

/-- `HasMoved` on a list of ancestors. -/
def hmList : List Node → Nat → Bitboard → Bitboard
  | [], _, ret => ret
  | _ :: _, 0, ret => ret
  | n :: r, l + 1, ret => hmList r l (ret ||| bitMask n.next.to)

/-- `identicalPositionCount` on a list of ancestors. -/
def ipcList (hash : Nat) (pos : Position) (turn : Color) (limit : Int) : List Node → Int → Color → Int → Int
  | [], _, _, ret => ret
  | tn :: r, i, t, ret =>
    if i ≤ limit then
      ipcList hash pos turn limit r (i + 1) t.opp
        (if tn.hash == hash && turn == t && tn.pos == pos then ret + 1 else ret)
    else ret

theorem hmList_erase (l : List Node) : ∀ (k : Nat) (ret : Bitboard), hmList (l.map eraseNode) k ret = hmList l k ret := by
  induction l with
  | nil => intro k ret; rfl
  | cons n r ih =>
    intro k ret
    cases k with
    | zero => rfl
    | succ k => simp only [List.map_cons, hmList, eraseNode_next, ih]

theorem ipcList_erase (hash : Nat) (pos : Position) (turn : Color) (limit : Int) (l : List Node) :
    ∀ (i : Int) (t : Color) (ret : Int),
      ipcList hash pos turn limit (l.map eraseNode) i t ret = ipcList hash pos turn limit l i t ret := by
  induction l with
  | nil => intro i t ret; rfl
  | cons n r ih =>
    intro i t ret
    simp only [List.map_cons, ipcList]
    rw [ih]
    rfl

theorem hasMoved_go_eq (w : World) :
    ∀ (fuel : Nat) (cur : Option Nat) (limit : Nat) (ret : Bitboard),
      hasMoved.go w fuel cur limit ret = hmList ((path w fuel cur).map w.node) limit ret := by
  intro fuel
  induction fuel with
  | zero => intro cur limit ret; simp [hasMoved.go, hmList]
  | succ f ih =>
    intro cur limit ret
    cases cur with
    | none => simp [hasMoved.go, hmList]
    | some ci =>
      cases limit with
      | zero => simp [hasMoved.go, hmList]
      | succ l => simp [hasMoved.go, hmList, ih]

theorem ipc_go_eq (w : World) (n : Node) (turn : Color) (limit : Int) :
    ∀ (fuel : Nat) (i : Int) (tmp : Option Nat) (t : Color) (ret : Int),
      identicalPositionCount.go w n turn limit fuel i tmp t ret =
        ipcList n.hash n.pos turn limit ((path w fuel tmp).map w.node) i t ret := by
  intro fuel
  induction fuel with
  | zero => intro i tmp t ret; simp [identicalPositionCount.go, ipcList]
  | succ f ih =>
    intro i tmp t ret
    cases tmp with
    | none => simp [identicalPositionCount.go, ipcList]
    | some ti =>
      simp only [identicalPositionCount.go, path_succ_some, List.map_cons, ipcList, ih]

theorem bound_prev_le_size {w : World} (hw : WFWorld w) (i : Nat) : bound (w.node i).prev ≤ w.nodes.size := by
  cases h : (w.node i).prev with
  | none => simp [bound]
  | some p =>
    have h1 := hw.prev_lt _ _ h
    have h2 := hw.lt_size h
    simp only [bound]; omega

theorem bound_cur_prev_le_size {w : World} (hw : WFWorld w) (b : Nat) : bound (w.cur b).prev ≤ w.nodes.size :=
  bound_prev_le_size hw _

/-- `identicalPositionCount` for a probe node `n` whose `prev` chain lies inside the arena. -/
theorem ipc_eq {w : World} (hw : WFWorld w) (n : Node) (turn t0 : Color) (limit : Int)
    (hn : bound n.prev ≤ w.nodes.size) :
    w.identicalPositionCount n turn t0 limit = ipcList n.hash n.pos turn limit (anc w n.prev) 1 t0 1 := by
  unfold identicalPositionCount
  rw [ipc_go_eq, path_eq_ancIdx hw hn]
  rfl

theorem hasMoved_eq {w : World} (hw : WFWorld w) (b k : Nat) :
    w.hasMoved b k = hmList (anc w (w.cur b).prev) k 0 &&& (w.cur b).pos.all := by
  unfold hasMoved
  rw [hasMoved_go_eq, path_eq_ancIdx hw (bound_cur_prev_le_size hw b)]
  rfl

/-- The observations as a function of the view. -/
def obsOfView (v : View) : ObsNR :=
  { pos := v.pos, turn := v.turn, hash := v.hash, noprogress := v.noprogress, ply := v.ply, moves := v.moves,
    castledW := v.castledW, castledB := v.castledB,
    lastMove := v.past.head?.map (·.next),
    secondToLastMove := v.past[1]?.map (·.next),
    hasMoved := fun k => hmList v.past k 0 &&& v.pos.all,
    repCount := v.reps v.hash,
    reps := v.reps,
    identical := fun turn t0 limit => ipcList v.hash v.pos turn limit v.past 1 t0 1 }

theorem lastMove_eq {w : World} (hw : WFWorld w) (b : Nat) :
    w.lastMove b = ((anc w (w.cur b).prev).map eraseNode).head?.map (·.next) := by
  unfold lastMove
  cases h : (w.cur b).prev with
  | none => simp
  | some pi => simp [anc_some hw]

theorem secondToLastMove_eq {w : World} (hw : WFWorld w) (b : Nat) :
    w.secondToLastMove b = ((anc w (w.cur b).prev).map eraseNode)[1]?.map (·.next) := by
  unfold secondToLastMove
  cases h : (w.cur b).prev with
  | none => simp
  | some pi =>
    simp only [anc_some hw]
    cases h2 : (w.node pi).prev with
    | none => simp
    | some ppi => simp [anc_some hw]

theorem obsNoResult_eq {w : World} (hw : WFWorld w) (b : Nat) : obsNoResult w b = obsOfView (view w b) := by
  unfold obsNoResult obsOfView
  congr 1
  · exact lastMove_eq hw b
  · exact secondToLastMove_eq hw b
  · funext k
    rw [hasMoved_eq hw]
    simp only [view, hmList_erase]
  · funext turn t0 limit
    rw [ipc_eq hw _ _ _ _ (bound_cur_prev_le_size hw b)]
    simp only [view, ipcList_erase]

theorem obs_eq {w : World} (hw : WFWorld w) (b : Nat) :
    obs w b = { nr := obsOfView (view w b), drawn := drawnR (view w b).result, blocked := blockedR (view w b).result } := by
  unfold obs
  rw [obsNoResult_eq hw]
  rfl

end Morlock.Proofs.Arena
