import Morlock.Proofs.SargonAttackers
import Morlock.Proofs.GenSpecNodup
/-!
# SARGON, part 6: `eval.FindPins` is sound

What lifting one piece does to a ray of the reference geometry (`ray_without_not_mem`, `ray_without_mem`), and from
it: every pin returned by `FindPins` is a real pin — on one line from the target, the pinned piece is the first piece,
and the attacker the next one.
-/
namespace Morlock.Proofs.Sargon
open Morlock Morlock.Model Morlock.Model.Sargon Morlock.Proofs.Attack Morlock.Proofs.Gen

/-- the occupancy with square `f` lifted -/
def without (o : Nat → Bool) (f : Nat) : Nat → Bool := fun s => o s && decide (s ≠ f)

theorem without_apply (o : Nat → Bool) (f s : Nat) : without o f s = (o s && decide (s ≠ f)) := rfl

theorem ray_succ (o : Nat → Bool) (sq : Nat) (df dr : Int) (n : Nat) :
    Spec.ray o sq df dr (n + 1) =
      match Spec.step sq df dr with
      | none => []
      | some s => if o s then [s] else s :: Spec.ray o s df dr n := rfl

/-- lifting a piece that is not on the ray does not change the ray -/
theorem ray_without_not_mem (o : Nat → Bool) (f : Nat) (df dr : Int) :
    ∀ (n sq : Nat), f ∉ Spec.ray o sq df dr n → Spec.ray (without o f) sq df dr n = Spec.ray o sq df dr n := by
  intro n
  induction n with
  | zero => intro sq _; simp [Spec.ray]
  | succ n ih =>
    intro sq hf
    unfold Spec.ray at hf ⊢
    cases hs : Spec.step sq df dr with
    | none => rfl
    | some s =>
      simp only [hs] at hf ⊢
      by_cases ho : o s = true
      · rw [if_pos ho] at hf
        have hne : s ≠ f := fun c => hf (by simp [c])
        have : without o f s = true := by simp [without, ho, hne]
        rw [if_pos ho, if_pos this]
      · rw [if_neg ho] at hf
        have : ¬ without o f s = true := by simp [without, ho]
        rw [if_neg ho, if_neg this]
        congr 1
        exact ih s (fun c => hf (List.mem_cons_of_mem _ c))

/-- lifting the piece that ends the ray: the ray continues behind it -/
theorem ray_without_mem (o : Nat → Bool) (f : Nat) (hof : o f = true) (df dr : Int) :
    ∀ (n sq : Nat), f ∈ Spec.ray o sq df dr n →
      ∃ pre m, Spec.ray o sq df dr n = pre ++ [f] ∧ (∀ x ∈ pre, o x = false) ∧
        Spec.ray (without o f) sq df dr n = pre ++ f :: Spec.ray (without o f) f df dr m := by
  intro n
  induction n with
  | zero => intro sq hf; simp [Spec.ray] at hf
  | succ n ih =>
    intro sq hf
    simp only [ray_succ] at hf ⊢
    cases hs : Spec.step sq df dr with
    | none => simp [hs] at hf
    | some s =>
      simp only [hs] at hf ⊢
      by_cases ho : o s = true
      · rw [if_pos ho] at hf
        have hsf : f = s := by simpa using hf
        subst hsf
        have : ¬ without o f f = true := by simp [without]
        rw [if_pos ho, if_neg this]
        exact ⟨[], n, rfl, by simp, rfl⟩
      · rw [if_neg ho] at hf
        have hne : f ≠ s := fun c => ho (c ▸ hof)
        have hf' : f ∈ Spec.ray o s df dr n := by
          rcases List.mem_cons.mp hf with h | h
          · exact absurd h hne
          · exact h
        obtain ⟨pre, m, h1, h2, h3⟩ := ih s hf'
        have : ¬ without o f s = true := by simp [without, ho]
        rw [if_neg ho, if_neg this]
        refine ⟨s :: pre, m, by rw [h1]; rfl, ?_, by rw [h3]; rfl⟩
        intro x hx
        rcases List.mem_cons.mp hx with rfl | hx
        · simpa using ho
        · exact h2 x hx

/-- an occupied square on a ray is its last square, everything before it is empty -/
theorem ray_split (o : Nat → Bool) (df dr : Int) :
    ∀ (n sq s : Nat), s ∈ Spec.ray o sq df dr n → o s = true →
      ∃ pre, Spec.ray o sq df dr n = pre ++ [s] ∧ ∀ x ∈ pre, o x = false := by
  intro n
  induction n with
  | zero => intro sq s hs; simp [Spec.ray] at hs
  | succ n ih =>
    intro sq s hs hos
    simp only [ray_succ] at hs ⊢
    cases hst : Spec.step sq df dr with
    | none => simp [hst] at hs
    | some u =>
      simp only [hst] at hs ⊢
      by_cases ho : o u = true
      · rw [if_pos ho] at hs
        have : s = u := by simpa using hs
        subst this
        rw [if_pos ho]
        exact ⟨[], rfl, by simp⟩
      · rw [if_neg ho] at hs
        have hne : s ≠ u := fun c => ho (c ▸ hos)
        have hs' : s ∈ Spec.ray o u df dr n := by
          rcases List.mem_cons.mp hs with h | h
          · exact absurd h hne
          · exact h
        obtain ⟨pre, h1, h2⟩ := ih u s hs' hos
        rw [if_neg ho]
        refine ⟨u :: pre, by rw [h1]; rfl, ?_⟩
        intro x hx
        rcases List.mem_cons.mp hx with rfl | hx
        · simpa using ho
        · exact h2 x hx

/-- rays of the eight directions have no repeated square (empty board: by evaluation; any board: sublist) -/
theorem ray_empty_nodup : ∀ sq, sq < 64 → ∀ d ∈ Spec.rookDirs ++ Spec.bishopDirs,
    (Spec.ray (fun _ => false) sq d.1 d.2 8).Nodup := by decide +kernel

theorem ray_nodup (o : Nat → Bool) {sq : Nat} (hsq : sq < 64) {d : Int × Int} (hd : d ∈ Spec.rookDirs ++ Spec.bishopDirs) :
    (Spec.ray o sq d.1 d.2 8).Nodup :=
  (ray_sublist_empty o d.1 d.2 8 sq).nodup (ray_empty_nodup sq hsq d hd)

/-- The line of a pin, read from the target in direction `d` on the board with the pinned piece lifted:
    empty squares, the pinned piece, empty squares, the attacker. On the board as it is the ray ends at the pinned piece. -/
def PinLine (o : Nat → Bool) (target : Nat) (d : Int × Int) (pinned attacker : Nat) : Prop :=
  ∃ pre mid, Spec.ray (without o pinned) target d.1 d.2 8 = pre ++ pinned :: (mid ++ [attacker]) ∧
    Spec.ray o target d.1 d.2 8 = pre ++ [pinned] ∧
    (∀ x ∈ pre, o x = false) ∧ (∀ x ∈ mid, o x = false) ∧ o pinned = true ∧ o attacker = true

/-- directions of a line kind -/
def dirsOf : Spec.Kind → List (Int × Int)
  | .rook => Spec.rookDirs
  | .bishop => Spec.bishopDirs
  | _ => []

theorem mem_lineTargets {o : Nat → Bool} {k : Spec.Kind} (hk : IsLine k) {t x : Nat} :
    x ∈ Spec.officerTargets o k t ↔ ∃ d ∈ dirsOf k, x ∈ Spec.ray o t d.1 d.2 8 := by
  rcases hk with rfl | rfl <;> simp only [Spec.officerTargets, dirsOf, List.mem_flatMap, Prod.exists]

theorem dirsOf_sub {k : Spec.Kind} (hk : IsLine k) {d : Int × Int} (hd : d ∈ dirsOf k) : d ∈ Spec.rookDirs ++ Spec.bishopDirs := by
  rcases hk with rfl | rfl
  · exact List.mem_append_left _ hd
  · exact List.mem_append_right _ hd

/-- **The geometry of "became visible".** If `a` is a line target of `t` once the occupied square `f` is lifted, but
    not before, and `a` is occupied, then `f` and `a` are the first and the second piece on one line from `t`. -/
theorem pinLine_of_new {o : Nat → Bool} {k : Spec.Kind} (hk : IsLine k) {t f a : Nat} (ht : t < 64) (hof : o f = true)
    (hoa : o a = true) (hnew : a ∈ Spec.officerTargets (without o f) k t) (hold : a ∉ Spec.officerTargets o k t) :
    ∃ d ∈ dirsOf k, PinLine o t d f a := by
  obtain ⟨d, hd, ha⟩ := (mem_lineTargets hk).mp hnew
  have hold' : a ∉ Spec.ray o t d.1 d.2 8 := fun c => hold ((mem_lineTargets hk).mpr ⟨d, hd, c⟩)
  have hf : f ∈ Spec.ray o t d.1 d.2 8 := by
    apply Classical.byContradiction
    intro hn
    rw [ray_without_not_mem o f d.1 d.2 8 t hn] at ha
    exact hold' ha
  obtain ⟨pre, m, h1, h2, h3⟩ := ray_without_mem o f hof d.1 d.2 8 t hf
  have haf : a ≠ f := fun c => hold' (c ▸ hf)
  have hapre : a ∉ pre := fun c => hold' (by rw [h1]; exact List.mem_append_left _ c)
  have harest : a ∈ Spec.ray (without o f) f d.1 d.2 m := by
    rw [h3] at ha
    rcases List.mem_append.mp ha with h | h
    · exact absurd h hapre
    · rcases List.mem_cons.mp h with h | h
      · exact absurd h haf
      · exact h
  have hoa' : without o f a = true := by simp [without, hoa, haf]
  obtain ⟨mid, hm1, hm2⟩ := ray_split (without o f) d.1 d.2 m f a harest hoa'
  have hfull : Spec.ray (without o f) t d.1 d.2 8 = pre ++ f :: (mid ++ [a]) := by rw [h3, hm1]
  -- no square twice on the lifted ray, so `f` is not among the squares behind it
  have hnd := ray_nodup (without o f) ht (dirsOf_sub hk hd)
  rw [hfull] at hnd
  have hfmid : f ∉ mid := by
    have := (List.nodup_append.mp hnd).2.1
    have h4 := (List.nodup_cons.mp this).1
    exact fun c => h4 (List.mem_append_left _ c)
  refine ⟨d, hd, pre, mid, hfull, h1, h2, ?_, hof, hoa⟩
  intro x hx
  have := hm2 x hx
  have hxf : x ≠ f := fun c => hfmid (c ▸ hx)
  simpa [without, hxf] using this

/-! ## `FindPins` -/

theorem xor_bits_without {occ f : Nat} (hf : f < 64) (hin : occ.testBit f = true) :
    (fun x => (occ ^^^ bitMask f).testBit x) = without (fun x => occ.testBit x) f := by
  funext s
  rw [xor_bits hf hin, without_apply]

/-- a colour bit means a piece of that colour -/
theorem piece_of_colour {p : Position} {b : Board} (h : Rep p b) (c : Color) {s : Nat} (hs : (p.pieces c .none).testBit s = true) :
    s < 64 ∧ ∃ k, b s = some (c, k) := by
  have hlt : s < 64 := lt_of_testBit (h.piecesLt c .none) hs
  rw [h.all c s hlt] at hs
  unfold colAt at hs
  cases hb : b s with
  | none => rw [hb] at hs; cases hs
  | some ck =>
    obtain ⟨c', k⟩ := ck
    rw [hb] at hs
    have : c' = c := by simpa using hs
    subst this
    exact ⟨hlt, k, rfl⟩

/-- kind of line ↦ the sliding piece of that line -/
def sliderOf : Spec.Kind → Piece
  | .rook => .rook
  | .bishop => .bishop
  | _ => .none

/-- one of the two inner loops of `FindPins` -/
theorem findPinsLine_sound {p : Position} {b : Board} (hrep : Rep p b) (side : Color) {target : Nat} (ht : target < 64)
    {k : Spec.Kind} (hk : IsLine k) (ab : Rotated → Nat → Bitboard)
    (hab : ∀ occ r, RotInv occ r → ab r target = toBB (Spec.officerTargets (fun x => occ.testBit x) k target))
    {pin : Pin} (hpin : pin ∈ findPinsLine p side target ab (sliderOf k)) :
    pin.target = target ∧ (∃ kp, b pin.pinned = some (side, kp)) ∧
      (b pin.attacker = some (side.opp, .queen) ∨ b pin.attacker = some (side.opp, sliderOf k)) ∧
      ∃ d ∈ dirsOf k, PinLine (occB b) target d pin.pinned pin.attacker := by
  unfold findPinsLine at hpin
  simp only [List.mem_filterMap] at hpin
  obtain ⟨pinned, hmem, hsome⟩ := hpin
  have hinv := hrep.rotInv
  have hcol := hrep.piecesLt side .none
  have hbit := (mem_toSquares (and_lt_right _ hcol) pinned).mp hmem
  rw [Nat.testBit_and, Bool.and_eq_true, hab _ _ hinv] at hbit
  obtain ⟨hline, hcolour⟩ := hbit
  obtain ⟨h64, kp, hbp⟩ := piece_of_colour hrep side hcolour
  have hocc : p.rotated.rot.testBit pinned = true := by rw [hrep.rot pinned h64, hbp]; rfl
  have hinv' := xor_inv h64 hinv
  split at hsome
  · rename_i hcand
    have hne : andNot (ab (p.rotated.xor pinned) target) (ab p.rotated target) &&&
        (p.pieces side.opp .queen ||| p.pieces side.opp (sliderOf k)) ≠ 0 := by simpa using hcand
    have hlt : andNot (ab (p.rotated.xor pinned) target) (ab p.rotated target) &&&
        (p.pieces side.opp .queen ||| p.pieces side.opp (sliderOf k)) < 2 ^ 64 :=
      and_lt_right _ (Nat.or_lt_two_pow (hrep.piecesLt _ _) (hrep.piecesLt _ _))
    obtain ⟨a64, abit, _⟩ := lastPopSquare_spec hne hlt
    have hpin' : pin = { attacker := lastPopSquare (andNot (ab (p.rotated.xor pinned) target) (ab p.rotated target) &&&
        (p.pieces side.opp .queen ||| p.pieces side.opp (sliderOf k))), pinned := pinned, target := target } := by
      simpa using hsome.symm
    generalize lastPopSquare (andNot (ab (p.rotated.xor pinned) target) (ab p.rotated target) &&&
        (p.pieces side.opp .queen ||| p.pieces side.opp (sliderOf k))) = A at a64 abit hpin'
    subst hpin'
    rw [Nat.testBit_and, andNot_testBit, Nat.testBit_or, hab _ _ hinv', hab _ _ hinv] at abit
    simp only [Bool.and_eq_true, Bool.not_eq_true', Bool.or_eq_true] at abit
    obtain ⟨⟨hin, hout⟩, hqs⟩ := abit
    have hnew := (testBit_toBB _ _).mp hin
    have hold : A ∉ Spec.officerTargets (fun x => p.rotated.rot.testBit x) k target := by
      intro c; rw [(testBit_toBB _ _).mpr c] at hout; cases hout
    have hslider : sliderOf k ≠ .none := by rcases hk with rfl | rfl <;> simp [sliderOf]
    have hbA : b A = some (side.opp, .queen) ∨ b A = some (side.opp, sliderOf k) := by
      rcases hqs with hq | hq
      · exact Or.inl (occupied_of_piece hrep side.opp (by decide) hq).2.2
      · exact Or.inr (occupied_of_piece hrep side.opp hslider hq).2.2
    have hoccA : p.rotated.rot.testBit A = true := by
      rw [hrep.rot A a64]
      rcases hbA with h | h <;> rw [h] <;> rfl
    rw [xor_bits_without h64 hocc] at hnew
    obtain ⟨d, hd, hpl⟩ := pinLine_of_new hk ht hocc hoccA hnew hold
    have e : (Nat.testBit p.rotated.rot) = occB b := hrep.occ_eq
    rw [e] at hpl
    exact ⟨rfl, ⟨kp, hbp⟩, hbA, d, hd, hpl⟩
  · cases hsome

/-- **`FindPins` is sound.** -/
theorem findPins_sound {p : Position} {b : Board} (hrep : Rep p b) (side : Color) {piece : Piece} (hk : piece ≠ .none)
    {pin : Pin} (hpin : pin ∈ findPins p side piece) :
    b pin.target = some (side, piece) ∧ (∃ kp, b pin.pinned = some (side, kp)) ∧
      ∃ line, IsLine line ∧
        (b pin.attacker = some (side.opp, .queen) ∨ b pin.attacker = some (side.opp, sliderOf line)) ∧
        ∃ d ∈ dirsOf line, PinLine (occB b) pin.target d pin.pinned pin.attacker := by
  unfold findPins at hpin
  simp only [List.mem_flatMap] at hpin
  obtain ⟨target, htm, hpin⟩ := hpin
  have htb := (mem_toSquares (hrep.piecesLt side piece) target).mp htm
  obtain ⟨ht, _, hbt⟩ := occupied_of_piece hrep side hk htb
  unfold findPinsAt at hpin
  rcases List.mem_append.mp hpin with h | h
  · obtain ⟨e, h1, h2, d, hd, hl⟩ := findPinsLine_sound hrep side ht (Or.inl rfl) rookAttackboard
      (fun occ r hi => rook_of_inv hi ht) (pin := pin) h
    rw [e]
    exact ⟨hbt, h1, .rook, Or.inl rfl, h2, d, hd, hl⟩
  · obtain ⟨e, h1, h2, d, hd, hl⟩ := findPinsLine_sound hrep side ht (Or.inr rfl) bishopAttackboard
      (fun occ r hi => bishop_of_inv hi ht) (pin := pin) h
    rw [e]
    exact ⟨hbt, h1, .bishop, Or.inr rfl, h2, d, hd, hl⟩

/-! ## completeness -/

/-- rays of two different directions from one square share no square (empty board: by evaluation) -/
theorem rays_disjoint_empty : ∀ t, t < 64 → ∀ d ∈ Spec.rookDirs ++ Spec.bishopDirs, ∀ d' ∈ Spec.rookDirs ++ Spec.bishopDirs, d ≠ d' →
    ∀ s ∈ Spec.ray (fun _ => false) t d.1 d.2 8, s ∉ Spec.ray (fun _ => false) t d'.1 d'.2 8 := by decide +kernel

theorem rays_disjoint (o o' : Nat → Bool) {t : Nat} (ht : t < 64) {d d' : Int × Int} (hd : d ∈ Spec.rookDirs ++ Spec.bishopDirs)
    (hd' : d' ∈ Spec.rookDirs ++ Spec.bishopDirs) {s : Nat} (h1 : s ∈ Spec.ray o t d.1 d.2 8) (h2 : s ∈ Spec.ray o' t d'.1 d'.2 8) :
    d = d' := by
  apply Classical.byContradiction
  intro hne
  exact rays_disjoint_empty t ht d hd d' hd' hne s ((ray_sublist_empty o d.1 d.2 8 t).subset h1)
    ((ray_sublist_empty o' d'.1 d'.2 8 t).subset h2)

/-- the attacker of a pin line is determined by target, direction and pinned piece -/
theorem PinLine.attacker_unique {o : Nat → Bool} {t : Nat} {d : Int × Int} {f a a' : Nat}
    (h : PinLine o t d f a) (h' : PinLine o t d f a') : a = a' := by
  obtain ⟨pre, mid, h1, h2, _⟩ := h
  obtain ⟨pre', mid', h1', h2', _⟩ := h'
  have hp : pre = pre' := by
    have := h2.symm.trans h2'
    exact List.append_inj_left' this rfl
  subst hp
  have := h1.symm.trans h1'
  have h3 : mid ++ [a] = mid' ++ [a'] := by
    have := List.append_cancel_left this
    exact List.cons.inj this |>.2
  have := congrArg List.getLast? h3
  simpa using this

/-- membership in one inner loop of `FindPins`, from the geometry -/
theorem findPinsLine_complete {p : Position} {b : Board} (hrep : Rep p b) (side : Color) {target : Nat} (ht : target < 64)
    {k : Spec.Kind} (hk : IsLine k) (ab : Rotated → Nat → Bitboard)
    (hab : ∀ occ r, RotInv occ r → ab r target = toBB (Spec.officerTargets (fun x => occ.testBit x) k target))
    {pinned att : Nat} {kp : Piece} (hbp : b pinned = some (side, kp))
    (hba : b att = some (side.opp, .queen) ∨ b att = some (side.opp, sliderOf k))
    {d : Int × Int} (hd : d ∈ dirsOf k) (hpl : PinLine (occB b) target d pinned att) :
    { attacker := att, pinned := pinned, target := target } ∈ findPinsLine p side target ab (sliderOf k) := by
  have hinv := hrep.rotInv
  have hocceq : (Nat.testBit p.rotated.rot) = occB b := hrep.occ_eq
  have h64 : pinned < 64 := hrep.lt_of_some hbp
  have a64 : att < 64 := by rcases hba with h | h <;> exact hrep.lt_of_some h
  have hocc : p.rotated.rot.testBit pinned = true := by rw [hrep.rot pinned h64, hbp]; rfl
  have hinv' := xor_inv h64 hinv
  have hdd := dirsOf_sub hk hd
  have hslider : sliderOf k ≠ .none := by rcases hk with rfl | rfl <;> simp [sliderOf]
  obtain ⟨pre, mid, h1, h2, hpre, hmid, hop, hoa⟩ := hpl
  have hnd := ray_nodup (without (occB b) pinned) ht hdd
  -- the pinned square is listed
  have hpin_in : pinned ∈ Spec.officerTargets (occB b) k target :=
    (mem_lineTargets hk).mpr ⟨d, hd, by rw [h2]; simp⟩
  have hmem : pinned ∈ toSquares (ab p.rotated target &&& p.pieces side .none) := by
    rw [mem_toSquares (and_lt_right _ (hrep.piecesLt side .none)), Nat.testBit_and, Bool.and_eq_true, hab _ _ hinv]
    constructor
    · rw [hocceq]; exact (testBit_toBB _ _).mpr hpin_in
    · rw [hrep.all side pinned h64]; simp [colAt, hbp]
  -- the candidate board
  have hlt : andNot (ab (p.rotated.xor pinned) target) (ab p.rotated target) &&&
      (p.pieces side.opp .queen ||| p.pieces side.opp (sliderOf k)) < 2 ^ 64 :=
    and_lt_right _ (Nat.or_lt_two_pow (hrep.piecesLt _ _) (hrep.piecesLt _ _))
  have hocc'eq : (fun x => (p.rotated.rot ^^^ bitMask pinned).testBit x) = without (occB b) pinned := by
    rw [xor_bits_without h64 hocc]; exact congrArg (fun o => without o pinned) hocceq
  have bitiff : ∀ s, (andNot (ab (p.rotated.xor pinned) target) (ab p.rotated target) &&&
      (p.pieces side.opp .queen ||| p.pieces side.opp (sliderOf k))).testBit s = true ↔
      (s ∈ Spec.officerTargets (without (occB b) pinned) k target ∧ s ∉ Spec.officerTargets (occB b) k target ∧
        ((p.pieces side.opp .queen).testBit s = true ∨ (p.pieces side.opp (sliderOf k)).testBit s = true)) := by
    intro s
    rw [Nat.testBit_and, andNot_testBit, Nat.testBit_or, hab _ _ hinv', hab _ _ hinv, hocc'eq, hocceq]
    simp only [Bool.and_eq_true, Bool.not_eq_true', Bool.or_eq_true]
    constructor
    · rintro ⟨⟨hin, hout⟩, hq⟩
      exact ⟨(testBit_toBB _ _).mp hin, (fun c => by rw [(testBit_toBB _ _).mpr c] at hout; cases hout), hq⟩
    · rintro ⟨hin, hout, hq⟩
      refine ⟨⟨(testBit_toBB _ _).mpr hin, ?_⟩, hq⟩
      cases hc : (toBB (Spec.officerTargets (occB b) k target)).testBit s
      · rfl
      · exact absurd ((testBit_toBB _ _).mp hc) hout
  -- the attacker is a candidate
  have hatt_new : att ∈ Spec.officerTargets (without (occB b) pinned) k target :=
    (mem_lineTargets hk).mpr ⟨d, hd, by rw [h1]; simp⟩
  have hatt_old : att ∉ Spec.officerTargets (occB b) k target := by
    intro c
    obtain ⟨d', hd', hc⟩ := (mem_lineTargets hk).mp c
    have hatt_d : att ∈ Spec.ray (without (occB b) pinned) target d.1 d.2 8 := by rw [h1]; simp
    have e := rays_disjoint _ _ ht hdd (dirsOf_sub hk hd') hatt_d hc
    subst e
    rw [h2] at hc
    rw [h1] at hnd
    have hnd' := List.nodup_append.mp hnd
    rcases List.mem_append.mp hc with hc | hc
    · exact hnd'.2.2 att hc att (by simp) rfl
    · have : att = pinned := by simpa using hc
      have h4 := (List.nodup_cons.mp hnd'.2.1).1
      exact h4 (by rw [← this]; simp)
  have hatt_bit : (p.pieces side.opp .queen).testBit att = true ∨ (p.pieces side.opp (sliderOf k)).testBit att = true := by
    rcases hba with h | h
    · left; rw [hrep.one _ _ att (by decide) a64, decide_eq_true_eq]; exact h
    · right; rw [hrep.one _ _ att hslider a64, decide_eq_true_eq]; exact h
  have hcand_att := (bitiff att).mpr ⟨hatt_new, hatt_old, hatt_bit⟩
  have hne : andNot (ab (p.rotated.xor pinned) target) (ab p.rotated target) &&&
      (p.pieces side.opp .queen ||| p.pieces side.opp (sliderOf k)) ≠ 0 := by
    intro c; rw [c] at hcand_att; simp at hcand_att
  obtain ⟨l64, lbit, _⟩ := lastPopSquare_spec hne hlt
  -- every candidate is the attacker
  have huniq : lastPopSquare (andNot (ab (p.rotated.xor pinned) target) (ab p.rotated target) &&&
      (p.pieces side.opp .queen ||| p.pieces side.opp (sliderOf k))) = att := by
    generalize lastPopSquare (andNot (ab (p.rotated.xor pinned) target) (ab p.rotated target) &&&
      (p.pieces side.opp .queen ||| p.pieces side.opp (sliderOf k))) = s at l64 lbit
    obtain ⟨hsnew, hsold, hsbit⟩ := (bitiff s).mp lbit
    have hos : occB b s = true := by
      unfold occB
      rcases hsbit with hq | hq
      · rw [(occupied_of_piece hrep side.opp (by decide) hq).2.2]; rfl
      · rw [(occupied_of_piece hrep side.opp hslider hq).2.2]; rfl
    obtain ⟨d', hd', hpl'⟩ := pinLine_of_new hk ht hop hos hsnew hsold
    have hpin_d : pinned ∈ Spec.ray (occB b) target d.1 d.2 8 := by rw [h2]; simp
    have hpin_d' : pinned ∈ Spec.ray (occB b) target d'.1 d'.2 8 := by
      obtain ⟨_, _, _, h2', _⟩ := hpl'; rw [h2']; simp
    have e := rays_disjoint _ _ ht hdd (dirsOf_sub hk hd') hpin_d hpin_d'
    subst e
    exact (PinLine.attacker_unique ⟨pre, mid, h1, h2, hpre, hmid, hop, hoa⟩ hpl').symm
  unfold findPinsLine
  simp only [List.mem_filterMap]
  refine ⟨pinned, hmem, ?_⟩
  have hb : (andNot (ab (p.rotated.xor pinned) target) (ab p.rotated target) &&&
      (p.pieces side.opp .queen ||| p.pieces side.opp (sliderOf k)) != 0) = true := by simpa using hne
  simp only [hb, if_true, huniq]

/-- **`FindPins` is complete.** -/
theorem findPins_complete {p : Position} {b : Board} (hrep : Rep p b) (side : Color) {piece : Piece} (hk : piece ≠ .none)
    {target pinned att : Nat} (hbt : b target = some (side, piece)) {kp : Piece} (hbp : b pinned = some (side, kp))
    {line : Spec.Kind} (hline : IsLine line)
    (hba : b att = some (side.opp, .queen) ∨ b att = some (side.opp, sliderOf line))
    {d : Int × Int} (hd : d ∈ dirsOf line) (hpl : PinLine (occB b) target d pinned att) :
    { attacker := att, pinned := pinned, target := target } ∈ findPins p side piece := by
  have ht : target < 64 := hrep.lt_of_some hbt
  unfold findPins
  simp only [List.mem_flatMap]
  refine ⟨target, ?_, ?_⟩
  · rw [mem_toSquares (hrep.piecesLt side piece), hrep.one side piece target hk ht, decide_eq_true_eq]; exact hbt
  · unfold findPinsAt
    rcases hline with rfl | rfl
    · exact List.mem_append_left _ (findPinsLine_complete hrep side ht (Or.inl rfl) rookAttackboard
        (fun occ r hi => rook_of_inv hi ht) hbp hba hd hpl)
    · exact List.mem_append_right _ (findPinsLine_complete hrep side ht (Or.inr rfl) bishopAttackboard
        (fun occ r hi => bishop_of_inv hi ht) hbp hba hd hpl)

end Morlock.Proofs.Sargon
