import Morlock.Proofs.GenOfficers
import Morlock.Proofs.AttackPawns
/-!
# Stage C of C01: pawn moves (pushes, double pushes, captures, promotions, en passant)
-/
namespace Morlock.Proofs.Gen
open Morlock Morlock.Model Morlock.Proofs.Attack

/-! ## Straight steps in square numbers -/

/-- `Spec.step` in integer coordinates. -/
theorem step_eq_some_iff {s t : Nat} {df dr : Int} :
    Spec.step s df dr = some t ↔
      0 ≤ (↑(s % 8) : Int) + df ∧ (↑(s % 8) : Int) + df < 8 ∧
      0 ≤ (↑(s / 8) : Int) + dr ∧ (↑(s / 8) : Int) + dr < 8 ∧
      (t : Int) = 8 * (↑(s / 8) + dr) + (↑(s % 8) + df) := by
  unfold Spec.step Spec.fileOf Spec.rankOf Spec.mkSq
  simp only []
  split
  · rename_i hc
    obtain ⟨h1, h2, h3, h4⟩ := hc
    simp only [Option.some.injEq]
    generalize (↑(s % 8) : Int) + df = f at *
    generalize (↑(s / 8) : Int) + dr = r at *
    have e1 := Int.toNat_of_nonneg h1
    have e2 := Int.toNat_of_nonneg h3
    generalize f.toNat = fn at *
    generalize r.toNat = rn at *
    subst e1 e2
    constructor
    · intro hh
      have hh' : (8 * rn + fn : Nat) = t := hh
      refine ⟨h1, h2, h3, h4, ?_⟩; omega
    · intro hh
      show (8 * rn + fn : Nat) = t
      omega
  · rename_i hc
    simp only [reduceCtorEq, false_iff]
    intro hh
    exact hc ⟨hh.1, hh.2.1, hh.2.2.1, hh.2.2.2.1⟩

theorem step_up_iff {s t : Nat} (hs : s < 64) : Spec.step s 0 1 = some t ↔ t = s + 8 ∧ t < 64 := by
  rw [step_eq_some_iff]; omega

theorem step_down_iff {s t : Nat} (hs : s < 64) : Spec.step s 0 (-1) = some t ↔ t + 8 = s := by
  rw [step_eq_some_iff]; omega

/-- One square forward for a pawn of colour `turn`, in square numbers. -/
theorem step_fwd_iff {turn : Color} {s t : Nat} (hs : s < 64) :
    Spec.step s 0 (Spec.fwd (absColor turn)) = some t ↔
      match turn with
      | .white => t = s + 8 ∧ t < 64
      | .black => t + 8 = s := by
  cases turn
  · exact step_up_iff hs
  · exact step_down_iff hs

/-! ## The generator's pawn boards, bit by bit -/

theorem pawnCaptureboard_lt (c : Color) (x : Nat) : pawnCaptureboard c (bitMask x) < 2 ^ 64 :=
  pawnSet_lt c _ (bitMask_lt_M64 x)

theorem pawnMoveboard_lt (all : Nat) (c : Color) (x : Nat) : pawnMoveboard all c x < 2 ^ 64 := by
  cases c <;> exact and_lt_right _ (not64_lt _)

/-- Capture targets of the pawn on `fr` that do not hold an own piece. -/
theorem captureboard_testBit {p : Position} {b : Board} (h : Rep p b) (turn : Color) {fr : Nat}
    (hfr : fr < 64) (t : Nat) :
    (pawnCaptureboard turn (bitMask fr) &&& not64 (p.pieces turn .none)).testBit t = true ↔
      t ∈ Spec.pawnTargets (absColor turn) fr ∧ colAt b t turn = false := by
  rw [pawn_of_lt turn hfr, Nat.testBit_and, Bool.and_eq_true, testBit_toBB, not64_testBit]
  constructor
  · rintro ⟨ht, hm⟩
    have ht64 := pawnTargets_lt _ _ _ ht
    simp only [ht64, decide_true, Bool.true_and, Bool.not_eq_true', h.all _ _ ht64] at hm
    exact ⟨ht, hm⟩
  · rintro ⟨ht, hm⟩
    have ht64 := pawnTargets_lt _ _ _ ht
    simp only [ht64, decide_true, Bool.true_and, Bool.not_eq_true', h.all _ _ ht64]
    exact ⟨ht, hm⟩

/-- `PawnMoveboard` of any pawn set: the empty squares one step ahead of a pawn of the set. -/
theorem moveboard_testBit {p : Position} {b : Board} (h : Rep p b) (turn : Color) {x : Nat}
    (hx : x < 2 ^ 64) (t : Nat) :
    (pawnMoveboard p.rotated.rot turn x).testBit t = true ↔
      ∃ s, x.testBit s = true ∧ Spec.step s 0 (Spec.fwd (absColor turn)) = some t ∧ b t = none := by
  have hrot : ∀ t, t < 64 → (p.rotated.rot.testBit t = false ↔ b t = none) := by
    intro t ht; rw [h.rot t ht]; cases b t <;> simp
  cases turn
  · simp only [pawnMoveboard, Nat.testBit_and, Bool.and_eq_true, shl64_testBit, not64_testBit,
      decide_eq_true_eq, Bool.not_eq_true']
    constructor
    · rintro ⟨⟨ht64, h8, hbit⟩, _, hr⟩
      have hs : t - 8 < 64 := by omega
      exact ⟨t - 8, hbit, (step_fwd_iff (turn := .white) hs).mpr ⟨by omega, ht64⟩, (hrot t ht64).mp hr⟩
    · rintro ⟨s, hbit, hst, hb⟩
      have hs := lt_of_testBit hx hbit
      obtain ⟨rfl, ht64⟩ := (step_fwd_iff (turn := .white) hs).mp hst
      exact ⟨⟨ht64, by omega, by simpa using hbit⟩, ht64, (hrot _ ht64).mpr hb⟩
  · simp only [pawnMoveboard, Nat.testBit_and, Bool.and_eq_true, Nat.testBit_shiftRight, not64_testBit,
      decide_eq_true_eq, Bool.not_eq_true']
    constructor
    · rintro ⟨hbit, ht64, hr⟩
      have hs := lt_of_testBit hx hbit
      exact ⟨8 + t, hbit, (step_fwd_iff (turn := .black) hs).mpr (by omega), (hrot t ht64).mp hr⟩
    · rintro ⟨s, hbit, hst, hb⟩
      have hs := lt_of_testBit hx hbit
      have e := (step_fwd_iff (turn := .black) hs).mp hst
      simp only at e
      have ht64 : t < 64 := by omega
      have e' : 8 + t = s := by omega
      exact ⟨by rw [e']; exact hbit, ht64, (hrot _ ht64).mpr hb⟩

/-- The single-push board of the pawn on `fr`. -/
theorem pushboard_testBit {p : Position} {b : Board} (h : Rep p b) (turn : Color) {fr : Nat}
    (hfr : fr < 64) (t : Nat) :
    (pawnMoveboard p.rotated.rot turn (bitMask fr)).testBit t = true ↔
      Spec.step fr 0 (Spec.fwd (absColor turn)) = some t ∧ b t = none := by
  rw [moveboard_testBit h turn (bitMask_lt_M64 fr)]
  constructor
  · rintro ⟨s, hbit, hst, hb⟩
    rw [bitMask_testBit hfr, decide_eq_true_eq] at hbit
    subst hbit; exact ⟨hst, hb⟩
  · rintro ⟨hst, hb⟩
    exact ⟨fr, by rw [bitMask_testBit hfr]; simp, hst, hb⟩

theorem promoRank_testBit (turn : Color) (t : Nat) :
    (pawnPromotionRank turn).testBit t = decide (Spec.rankOf t = Spec.lastRank (absColor turn)) := by
  cases turn <;> simp only [pawnPromotionRank, absColor, Spec.lastRank, Spec.rankOf]
  · exact bitRank_testBit (by decide) t
  · exact bitRank_testBit (by decide) t

/-- The rank (0-based) a double push lands on. -/
def jumpRankOf : Color → Nat
  | .white => 3
  | .black => 4

theorem jumpRank_testBit (turn : Color) (t : Nat) :
    (pawnJumpRank turn).testBit t = decide (Spec.rankOf t = jumpRankOf turn) := by
  cases turn <;> simp only [pawnJumpRank, Spec.rankOf, jumpRankOf]
  · exact bitRank_testBit (by decide) t
  · exact bitRank_testBit (by decide) t

/-- Two steps ahead lands on the jump rank iff the pawn started on its start rank. -/
theorem jump_rank_iff {turn : Color} {fr t1 t : Nat} (hfr : fr < 64)
    (h1 : Spec.step fr 0 (Spec.fwd (absColor turn)) = some t1)
    (h2 : Spec.step t1 0 (Spec.fwd (absColor turn)) = some t) :
    Spec.rankOf t = jumpRankOf turn ↔ Spec.rankOf fr = Spec.startRank (absColor turn) := by
  have ht1 : t1 < 64 := step_lt h1
  have e1 := (step_fwd_iff hfr).mp h1
  have e2 := (step_fwd_iff ht1).mp h2
  cases turn <;> simp only [Spec.rankOf, Spec.startRank, absColor, jumpRankOf] at e1 e2 ⊢ <;> omega

/-! ## Stage C: the moves of one pawn -/

/-- A pawn move of `turn` with its metadata, as the generator emits it. The en-passant clause is
    literally the generator's test: the en-passant target is a capture target of the pawn and holds
    no own piece (`WF` makes it empty and puts the victim behind it). -/
def PawnMove (b : Board) (ep : Nat) (turn : Color) (m : Move) : Prop :=
  b m.from = some (turn, .pawn) ∧ m.piece = .pawn ∧
  ( -- single push, possibly promoting
    (Spec.step m.from 0 (Spec.fwd (absColor turn)) = some m.to ∧ b m.to = none ∧ m.capture = .none ∧
      ((Spec.rankOf m.to ≠ Spec.lastRank (absColor turn) ∧ m.ty = .push ∧ m.promotion = .none) ∨
       (Spec.rankOf m.to = Spec.lastRank (absColor turn) ∧ m.ty = .promotion ∧
          m.promotion ∈ Position.promoPieces))) ∨
    -- double push
    (∃ t1, Spec.step m.from 0 (Spec.fwd (absColor turn)) = some t1 ∧
      Spec.step t1 0 (Spec.fwd (absColor turn)) = some m.to ∧
      Spec.rankOf m.from = Spec.startRank (absColor turn) ∧ b t1 = none ∧ b m.to = none ∧
      m.ty = .jump ∧ m.promotion = .none ∧ m.capture = .none) ∨
    -- capture, possibly promoting
    (m.to ∈ Spec.pawnTargets (absColor turn) m.from ∧ ∃ k, b m.to = some (turn.opp, k) ∧ m.capture = k ∧
      ((Spec.rankOf m.to ≠ Spec.lastRank (absColor turn) ∧ m.ty = .capture ∧ m.promotion = .none) ∨
       (Spec.rankOf m.to = Spec.lastRank (absColor turn) ∧ m.ty = .capturePromotion ∧
          m.promotion ∈ Position.promoPieces))) ∨
    -- en passant
    (ep ≠ 0 ∧ m.to = ep ∧ m.to ∈ Spec.pawnTargets (absColor turn) m.from ∧ colAt b m.to turn = false ∧
      m.ty = .enPassant ∧ m.promotion = .none ∧ m.capture = .none))

theorem mem_emit_pawnCapture {p : Position} {b : Board} (h : Rep p b) (turn : Color) {fr : Nat}
    (hfr : fr < 64) (m : Move) :
    m ∈ p.emitMove turn .capture .pawn fr
        (andNot (pawnCaptureboard turn (bitMask fr) &&& not64 (p.pieces turn .none) &&& p.pieces turn.opp .none)
          (pawnPromotionRank turn)) ↔
      m.from = fr ∧ m.piece = .pawn ∧ m.to ∈ Spec.pawnTargets (absColor turn) fr ∧
        (∃ k, b m.to = some (turn.opp, k) ∧ m.capture = k) ∧
        Spec.rankOf m.to ≠ Spec.lastRank (absColor turn) ∧ m.ty = .capture ∧ m.promotion = .none := by
  rw [mem_emitMove (andNot_lt _ (and_lt_left _ (and_lt_left _ (pawnCaptureboard_lt turn fr)))),
    andNot_testBit, Bool.and_eq_true, Nat.testBit_and, Bool.and_eq_true, captureboard_testBit h turn hfr,
    promoRank_testBit, captureAt_of_rep h]
  simp only [Bool.not_eq_true', decide_eq_false_iff_not, if_true]
  constructor
  · rintro ⟨⟨⟨⟨ht, hown⟩, hopp⟩, hrank⟩, hty, hpc, hf, hpr, hcap⟩
    have ht64 := pawnTargets_lt _ _ _ ht
    rw [h.all _ _ ht64] at hopp
    obtain ⟨k, hk⟩ := colAt_enemy_iff.mp hopp
    exact ⟨hf, hpc, ht, ⟨k, hk, by rw [hcap, capAt_enemy hk]⟩, hrank, hty, hpr⟩
  · rintro ⟨hf, hpc, ht, ⟨k, hk, hcap⟩, hrank, hty, hpr⟩
    have ht64 := pawnTargets_lt _ _ _ ht
    have hopp := colAt_enemy_iff.mpr ⟨k, hk⟩
    refine ⟨⟨⟨⟨ht, colAt_enemy_not_own hopp⟩, ?_⟩, hrank⟩, hty, hpc, hf, hpr, ?_⟩
    · rw [h.all _ _ ht64]; exact hopp
    · rw [hcap, capAt_enemy hk]

theorem mem_emit_pawnCapPromo {p : Position} {b : Board} (h : Rep p b) (turn : Color) {fr : Nat}
    (hfr : fr < 64) (m : Move) :
    m ∈ p.emitPromo turn .capturePromotion .pawn fr
        (pawnCaptureboard turn (bitMask fr) &&& not64 (p.pieces turn .none) &&& p.pieces turn.opp .none &&&
          pawnPromotionRank turn) ↔
      m.from = fr ∧ m.piece = .pawn ∧ m.to ∈ Spec.pawnTargets (absColor turn) fr ∧
        (∃ k, b m.to = some (turn.opp, k) ∧ m.capture = k) ∧
        Spec.rankOf m.to = Spec.lastRank (absColor turn) ∧ m.ty = .capturePromotion ∧
        m.promotion ∈ Position.promoPieces := by
  rw [mem_emitPromo (and_lt_left _ (and_lt_left _ (and_lt_left _ (pawnCaptureboard_lt turn fr)))),
    Nat.testBit_and, Bool.and_eq_true, Nat.testBit_and, Bool.and_eq_true, captureboard_testBit h turn hfr,
    promoRank_testBit, captureAt_of_rep h]
  simp only [decide_eq_true_eq, if_true]
  constructor
  · rintro ⟨⟨⟨⟨ht, hown⟩, hopp⟩, hrank⟩, hty, hpc, hf, hpr, hcap⟩
    have ht64 := pawnTargets_lt _ _ _ ht
    rw [h.all _ _ ht64] at hopp
    obtain ⟨k, hk⟩ := colAt_enemy_iff.mp hopp
    exact ⟨hf, hpc, ht, ⟨k, hk, by rw [hcap, capAt_enemy hk]⟩, hrank, hty, hpr⟩
  · rintro ⟨hf, hpc, ht, ⟨k, hk, hcap⟩, hrank, hty, hpr⟩
    have ht64 := pawnTargets_lt _ _ _ ht
    have hopp := colAt_enemy_iff.mpr ⟨k, hk⟩
    refine ⟨⟨⟨⟨ht, colAt_enemy_not_own hopp⟩, ?_⟩, hrank⟩, hty, hpc, hf, hpr, ?_⟩
    · rw [h.all _ _ ht64]; exact hopp
    · rw [hcap, capAt_enemy hk]

theorem mem_emit_pawnPush {p : Position} {b : Board} (h : Rep p b) (turn : Color) {fr : Nat}
    (hfr : fr < 64) (m : Move) :
    m ∈ p.emitMove turn .push .pawn fr
        (andNot (pawnMoveboard p.rotated.rot turn (bitMask fr)) (pawnPromotionRank turn)) ↔
      m.from = fr ∧ m.piece = .pawn ∧ Spec.step fr 0 (Spec.fwd (absColor turn)) = some m.to ∧ b m.to = none ∧
        m.capture = .none ∧ Spec.rankOf m.to ≠ Spec.lastRank (absColor turn) ∧ m.ty = .push ∧
        m.promotion = .none := by
  rw [mem_emitMove (andNot_lt _ (pawnMoveboard_lt _ _ _)), andNot_testBit, Bool.and_eq_true,
    pushboard_testBit h turn hfr, promoRank_testBit]
  simp only [Bool.not_eq_true', decide_eq_false_iff_not, reduceCtorEq, if_false]
  constructor
  · rintro ⟨⟨⟨hst, hb⟩, hrank⟩, hty, hpc, hf, hpr, hcap⟩
    exact ⟨hf, hpc, hst, hb, hcap, hrank, hty, hpr⟩
  · rintro ⟨hf, hpc, hst, hb, hcap, hrank, hty, hpr⟩
    exact ⟨⟨⟨hst, hb⟩, hrank⟩, hty, hpc, hf, hpr, hcap⟩

theorem mem_emit_pawnPromo {p : Position} {b : Board} (h : Rep p b) (turn : Color) {fr : Nat}
    (hfr : fr < 64) (m : Move) :
    m ∈ p.emitPromo turn .promotion .pawn fr
        (pawnMoveboard p.rotated.rot turn (bitMask fr) &&& pawnPromotionRank turn) ↔
      m.from = fr ∧ m.piece = .pawn ∧ Spec.step fr 0 (Spec.fwd (absColor turn)) = some m.to ∧ b m.to = none ∧
        m.capture = .none ∧ Spec.rankOf m.to = Spec.lastRank (absColor turn) ∧ m.ty = .promotion ∧
        m.promotion ∈ Position.promoPieces := by
  rw [mem_emitPromo (and_lt_left _ (pawnMoveboard_lt _ _ _)), Nat.testBit_and, Bool.and_eq_true,
    pushboard_testBit h turn hfr, promoRank_testBit]
  simp only [decide_eq_true_eq, reduceCtorEq, if_false]
  constructor
  · rintro ⟨⟨⟨hst, hb⟩, hrank⟩, hty, hpc, hf, hpr, hcap⟩
    exact ⟨hf, hpc, hst, hb, hcap, hrank, hty, hpr⟩
  · rintro ⟨hf, hpc, hst, hb, hcap, hrank, hty, hpr⟩
    exact ⟨⟨⟨hst, hb⟩, hrank⟩, hty, hpc, hf, hpr, hcap⟩

theorem mem_emit_pawnJump {p : Position} {b : Board} (h : Rep p b) (turn : Color) {fr : Nat}
    (hfr : fr < 64) (m : Move) :
    m ∈ p.emitMove turn .jump .pawn fr
        (pawnMoveboard p.rotated.rot turn (pawnMoveboard p.rotated.rot turn (bitMask fr)) &&& pawnJumpRank turn) ↔
      m.from = fr ∧ m.piece = .pawn ∧
        (∃ t1, Spec.step fr 0 (Spec.fwd (absColor turn)) = some t1 ∧
          Spec.step t1 0 (Spec.fwd (absColor turn)) = some m.to ∧
          Spec.rankOf fr = Spec.startRank (absColor turn) ∧ b t1 = none ∧ b m.to = none) ∧
        m.ty = .jump ∧ m.promotion = .none ∧ m.capture = .none := by
  rw [mem_emitMove (and_lt_left _ (pawnMoveboard_lt _ _ _)), Nat.testBit_and, Bool.and_eq_true,
    moveboard_testBit h turn (pawnMoveboard_lt _ _ _), jumpRank_testBit, decide_eq_true_eq]
  simp only [pushboard_testBit h turn hfr, reduceCtorEq, if_false]
  constructor
  · rintro ⟨⟨⟨t1, ⟨hst1, hb1⟩, hst2, hb2⟩, hrank⟩, hty, hpc, hf, hpr, hcap⟩
    exact ⟨hf, hpc, ⟨t1, hst1, hst2, (jump_rank_iff hfr hst1 hst2).mp hrank, hb1, hb2⟩, hty, hpr, hcap⟩
  · rintro ⟨hf, hpc, ⟨t1, hst1, hst2, hstart, hb1, hb2⟩, hty, hpr, hcap⟩
    exact ⟨⟨⟨t1, ⟨hst1, hb1⟩, hst2, hb2⟩, (jump_rank_iff hfr hst1 hst2).mpr hstart⟩, hty, hpc, hf, hpr, hcap⟩

theorem mem_emit_pawnEP {p : Position} {b : Board} (h : Rep p b) (turn : Color) {fr : Nat}
    (hfr : fr < 64) (m : Move) :
    m ∈ (if (p.enpassant != 0) = true then
        p.emitMove turn .enPassant .pawn fr
          (pawnCaptureboard turn (bitMask fr) &&& not64 (p.pieces turn .none) &&& bitMask p.enpassant)
        else []) ↔
      m.from = fr ∧ m.piece = .pawn ∧ p.enpassant ≠ 0 ∧ m.to = p.enpassant ∧
        m.to ∈ Spec.pawnTargets (absColor turn) fr ∧ colAt b m.to turn = false ∧
        m.ty = .enPassant ∧ m.promotion = .none ∧ m.capture = .none := by
  by_cases he : p.enpassant = 0
  · simp [he]
  · have : (p.enpassant != 0) = true := by simpa using he
    rw [if_pos this, mem_emitMove (and_lt_left _ (and_lt_left _ (pawnCaptureboard_lt turn fr))),
      Nat.testBit_and, Bool.and_eq_true, captureboard_testBit h turn hfr, bitMask_testBit']
    simp only [reduceCtorEq, if_false, Bool.and_eq_true, decide_eq_true_eq]
    constructor
    · rintro ⟨⟨⟨ht, hown⟩, _, hto⟩, hty, hpc, hf, hpr, hcap⟩
      exact ⟨hf, hpc, he, hto, ht, hown, hty, hpr, hcap⟩
    · rintro ⟨hf, hpc, _, hto, ht, hown, hty, hpr, hcap⟩
      exact ⟨⟨⟨ht, hown⟩, by rw [← hto]; exact pawnTargets_lt _ _ _ ht, hto⟩, hty, hpc, hf, hpr, hcap⟩

/-- The moves generated for the pawn on `fr`. -/
theorem mem_genPawn {p : Position} {b : Board} (h : Rep p b) {turn : Color} {fr : Nat}
    (hsq : b fr = some (turn, .pawn)) (m : Move) :
    m ∈ genPawn p turn fr ↔ m.from = fr ∧ PawnMove b p.enpassant turn m := by
  have hfr : fr < 64 := h.lt_of_some hsq
  unfold genPawn PawnMove
  simp only [List.mem_append]
  rw [mem_emit_pawnCapture h turn hfr, mem_emit_pawnPush h turn hfr, mem_emit_pawnJump h turn hfr,
    mem_emit_pawnCapPromo h turn hfr, mem_emit_pawnPromo h turn hfr, mem_emit_pawnEP h turn hfr]
  constructor
  · rintro (((((hA | hA) | hA) | hA) | hA) | hA)
    · obtain ⟨hf, hpc, ht, ⟨k, hk, hcap⟩, hrank, hty, hpr⟩ := hA
      subst hf
      exact ⟨rfl, hsq, hpc, Or.inr (Or.inr (Or.inl ⟨ht, k, hk, hcap, Or.inl ⟨hrank, hty, hpr⟩⟩))⟩
    · obtain ⟨hf, hpc, hst, hb, hcap, hrank, hty, hpr⟩ := hA
      subst hf
      exact ⟨rfl, hsq, hpc, Or.inl ⟨hst, hb, hcap, Or.inl ⟨hrank, hty, hpr⟩⟩⟩
    · obtain ⟨hf, hpc, ⟨t1, hst1, hst2, hstart, hb1, hb2⟩, hty, hpr, hcap⟩ := hA
      subst hf
      exact ⟨rfl, hsq, hpc, Or.inr (Or.inl ⟨t1, hst1, hst2, hstart, hb1, hb2, hty, hpr, hcap⟩)⟩
    · obtain ⟨hf, hpc, ht, ⟨k, hk, hcap⟩, hrank, hty, hpr⟩ := hA
      subst hf
      exact ⟨rfl, hsq, hpc, Or.inr (Or.inr (Or.inl ⟨ht, k, hk, hcap, Or.inr ⟨hrank, hty, hpr⟩⟩))⟩
    · obtain ⟨hf, hpc, hst, hb, hcap, hrank, hty, hpr⟩ := hA
      subst hf
      exact ⟨rfl, hsq, hpc, Or.inl ⟨hst, hb, hcap, Or.inr ⟨hrank, hty, hpr⟩⟩⟩
    · obtain ⟨hf, hpc, he, hto, ht, hown, hty, hpr, hcap⟩ := hA
      subst hf
      exact ⟨rfl, hsq, hpc, Or.inr (Or.inr (Or.inr ⟨he, hto, ht, hown, hty, hpr, hcap⟩))⟩
  · rintro ⟨hf, _, hpc, hk⟩
    subst hf
    rcases hk with ⟨hst, hb, hcap, hr | hr⟩ | ⟨t1, hst1, hst2, hstart, hb1, hb2, hty, hpr, hcap⟩ |
      ⟨ht, k, hk, hcap, hr | hr⟩ | ⟨he, hto, ht, hown, hty, hpr, hcap⟩
    · exact Or.inl (Or.inl (Or.inl (Or.inl (Or.inr ⟨rfl, hpc, hst, hb, hcap, hr.1, hr.2.1, hr.2.2⟩))))
    · exact Or.inl (Or.inr ⟨rfl, hpc, hst, hb, hcap, hr.1, hr.2.1, hr.2.2⟩)
    · exact Or.inl (Or.inl (Or.inl (Or.inr ⟨rfl, hpc, ⟨t1, hst1, hst2, hstart, hb1, hb2⟩, hty, hpr, hcap⟩)))
    · exact Or.inl (Or.inl (Or.inl (Or.inl (Or.inl ⟨rfl, hpc, ht, ⟨k, hk, hcap⟩, hr.1, hr.2.1, hr.2.2⟩))))
    · exact Or.inl (Or.inl (Or.inr ⟨rfl, hpc, ht, ⟨k, hk, hcap⟩, hr.1, hr.2.1, hr.2.2⟩))
    · exact Or.inr ⟨rfl, hpc, he, hto, ht, hown, hty, hpr, hcap⟩

/-- **Stage C.** A move is in the pawns part of the generator output iff it is a pawn move of the
    side to move. -/
theorem mem_genPawns {p : Position} {b : Board} (h : Rep p b) (turn : Color) (m : Move) :
    m ∈ genPawns p turn ↔ PawnMove b p.enpassant turn m := by
  unfold genPawns
  simp only [List.mem_flatMap]
  constructor
  · rintro ⟨fr, hfr, hm⟩
    have hbit := (mem_toSquares (h.piecesLt turn .pawn) fr).mp hfr
    have hfr64 := toSquares_lt (h.piecesLt turn .pawn) hfr
    rw [h.one turn .pawn fr (by simp) hfr64, decide_eq_true_eq] at hbit
    exact ((mem_genPawn h hbit m).mp hm).2
  · intro hm
    have hsq := hm.1
    have hfr64 := h.lt_of_some hsq
    refine ⟨m.from, ?_, (mem_genPawn h hsq m).mpr ⟨rfl, hm⟩⟩
    rw [mem_toSquares (h.piecesLt turn .pawn), h.one turn .pawn _ (by simp) hfr64, decide_eq_true_eq]
    exact hsq

end Morlock.Proofs.Gen
