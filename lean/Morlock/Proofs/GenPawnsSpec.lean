import Morlock.Proofs.GenPawns
import Morlock.Proofs.GenWF
/-!
# Stage C of C01 (continued): generated pawn moves are exactly the reference pawn moves
-/
namespace Morlock.Proofs.Gen
open Morlock Morlock.Model Morlock.Proofs.Attack

/-- The engine piece of an optional promotion kind. -/
def promoPiece : Option Spec.Kind → Piece
  | none => .none
  | some k => kindPiece k

theorem absKind_kindPiece (k : Spec.Kind) : absKind (kindPiece k) = some k := by cases k <;> rfl

theorem absKind_promoPiece (o : Option Spec.Kind) : absKind (promoPiece o) = o := by
  cases o with
  | none => rfl
  | some k => exact absKind_kindPiece k

theorem promoPieces_abs {pc : Piece} (h : pc ∈ Position.promoPieces) :
    ∃ k, k ∈ Spec.promoKinds ∧ absKind pc = some k := by
  rw [mem_promoPieces] at h
  rcases h with rfl | rfl | rfl | rfl
  · exact ⟨.queen, by simp [Spec.promoKinds], rfl⟩
  · exact ⟨.rook, by simp [Spec.promoKinds], rfl⟩
  · exact ⟨.knight, by simp [Spec.promoKinds], rfl⟩
  · exact ⟨.bishop, by simp [Spec.promoKinds], rfl⟩

theorem promoKinds_piece {k : Spec.Kind} (h : k ∈ Spec.promoKinds) : kindPiece k ∈ Position.promoPieces := by
  rw [mem_promoPieces]
  simp only [Spec.promoKinds, List.mem_cons, List.not_mem_nil, or_false] at h
  rcases h with rfl | rfl | rfl | rfl <;> simp [kindPiece]

theorem abs_ep (p : Position) (turn : Color) :
    (abs p turn).ep = if p.enpassant = 0 then none else some p.enpassant := rfl

theorem occ_false_iff {p : Position} {b : Board} (h : Rep p b) (turn : Color) (t : Nat) :
    (abs p turn).occ t = false ↔ b t = none := by
  rw [h.abs_occ]; unfold occB; cases b t <;> simp

/-- Generated pawn moves are reference pawn moves. -/
theorem PawnMove.abs_mem {p : Position} {b : Board} (h : Rep p b) {turn : Color}
    (hw : WFb b p.castling p.enpassant turn) {m : Move} (hm : PawnMove b p.enpassant turn m) :
    absMove m ∈ pawnPushes (abs p turn) (absColor turn) m.from ++
      pawnCaps (abs p turn) (absColor turn) m.from := by
  obtain ⟨hsq, hpc, hk⟩ := hm
  rw [List.mem_append, mem_pawnPushes, mem_pawnCaps]
  have hwp : ∀ {pr : Piece},
      ((Spec.rankOf m.to ≠ Spec.lastRank (absColor turn) ∧ pr = .none) ∨
       (Spec.rankOf m.to = Spec.lastRank (absColor turn) ∧ pr ∈ Position.promoPieces)) →
      (⟨m.from, m.to, absKind pr⟩ : Spec.SMove) ∈ withPromo (absColor turn) m.from m.to := by
    intro pr hpr
    rw [mem_withPromo]
    refine ⟨rfl, rfl, ?_⟩
    rcases hpr with ⟨h1, h2⟩ | ⟨h1, h2⟩
    · right; exact ⟨h1, by rw [h2]; rfl⟩
    · left
      obtain ⟨k, hk1, hk2⟩ := promoPieces_abs h2
      exact ⟨h1, k, hk1, hk2⟩
  rcases hk with ⟨hst, hb, hcap, hr⟩ | ⟨t1, hst1, hst2, hstart, hb1, hb2, hty, hpr, hcap⟩ |
    ⟨ht, k, hk, hcap, hr⟩ | ⟨he, hto, ht, hown, hty, hpr, hcap⟩
  · left
    refine ⟨m.to, hst, (occ_false_iff h turn _).mpr hb, Or.inl ?_⟩
    apply hwp
    rcases hr with ⟨h1, _, h3⟩ | ⟨h1, _, h3⟩
    · exact Or.inl ⟨h1, h3⟩
    · exact Or.inr ⟨h1, h3⟩
  · left
    refine ⟨t1, hst1, (occ_false_iff h turn _).mpr hb1, Or.inr ⟨hstart, m.to, hst2,
      (occ_false_iff h turn _).mpr hb2, ?_⟩⟩
    simp [absMove, hpr, absKind]
  · right
    refine ⟨m.to, ht, Or.inl ⟨⟨kindOf k, ?_⟩, ?_⟩⟩
    · rw [← absColor_opp]
      exact (h.abs_at_iff turn m.to turn.opp _).mpr (by rw [kindPiece_kindOf (h.ne_none_of_some hk)]; exact hk)
    · apply hwp
      rcases hr with ⟨h1, _, h3⟩ | ⟨h1, _, h3⟩
      · exact Or.inl ⟨h1, h3⟩
      · exact Or.inr ⟨h1, h3⟩
  · right
    obtain ⟨_, hempty, _, _⟩ := hw.ep_ok he
    refine ⟨m.to, ht, Or.inr ⟨(h.abs_at_none_iff turn _).mpr (hto ▸ hempty), ?_, ?_⟩⟩
    · rw [abs_ep, if_neg he, hto]
    · simp [absMove, hpr, absKind]

/-- **Stage C.** Generated pawn moves are pseudo-legal moves of the reference. -/
theorem PawnMove.abs_mem_pseudoMoves {p : Position} {b : Board} (h : Rep p b) {turn : Color}
    (hw : WFb b p.castling p.enpassant turn) {m : Move} (hm : PawnMove b p.enpassant turn m) :
    absMove m ∈ Spec.pseudoMoves (abs p turn) := by
  rw [mem_pseudoMoves]
  refine ⟨h.lt_of_some hm.1, ?_⟩
  have hat : (abs p turn).at (absMove m).from = some ((abs p turn).turn, .pawn) :=
    (h.abs_at_iff turn m.from turn .pawn).mpr hm.1
  rw [movesFrom_pawn hat]
  exact hm.abs_mem h hw

/-- Every reference pawn move from a square holding a `turn` pawn is the abstraction of a generated
    pawn move. -/
theorem exists_pawnMove {p : Position} {b : Board} (h : Rep p b) {turn : Color}
    {fr : Nat} (hsq : b fr = some (turn, .pawn)) {sm : Spec.SMove}
    (hsm : sm ∈ pawnPushes (abs p turn) (absColor turn) fr ++ pawnCaps (abs p turn) (absColor turn) fr) :
    ∃ m, PawnMove b p.enpassant turn m ∧ absMove m = sm := by
  have habs : ∀ (ty : MoveType) (cap : Piece), sm.from = fr → absMove
      ({ ty := ty, «from» := fr, to := sm.to, piece := .pawn, promotion := promoPiece sm.promo,
         capture := cap } : Move) = sm := by
    intro ty cap h1
    cases sm; simp only at h1; subst h1
    simp [absMove, absKind_promoPiece]
  have hpromo : ∀ {t : Nat}, sm ∈ withPromo (absColor turn) fr t →
      sm.from = fr ∧ sm.to = t ∧
      ((Spec.rankOf t ≠ Spec.lastRank (absColor turn) ∧ promoPiece sm.promo = .none) ∨
       (Spec.rankOf t = Spec.lastRank (absColor turn) ∧ promoPiece sm.promo ∈ Position.promoPieces)) := by
    intro t hm
    rw [mem_withPromo] at hm
    obtain ⟨h1, h2, h3⟩ := hm
    refine ⟨h1, h2, ?_⟩
    rcases h3 with ⟨hr, k, hk, hp⟩ | ⟨hr, hp⟩
    · right; rw [hp]; exact ⟨hr, promoKinds_piece hk⟩
    · left; rw [hp]; exact ⟨hr, rfl⟩
  rw [List.mem_append, mem_pawnPushes, mem_pawnCaps] at hsm
  rcases hsm with ⟨t, hst, hocc, hm | ⟨hstart, t2, hst2, hocc2, hm⟩⟩ | ⟨t, ht, ⟨⟨K, hK⟩, hm⟩ | ⟨hnone, hep, hm⟩⟩
  · -- push / promotion
    obtain ⟨h1, h2, h3⟩ := hpromo hm
    have hb := (occ_false_iff h turn _).mp hocc
    rcases h3 with ⟨hr, hp⟩ | ⟨hr, hp⟩
    · exact ⟨_, ⟨hsq, rfl, Or.inl ⟨h2 ▸ hst, h2 ▸ hb, rfl, Or.inl ⟨h2 ▸ hr, rfl, hp⟩⟩⟩, habs .push .none h1⟩
    · exact ⟨_, ⟨hsq, rfl, Or.inl ⟨h2 ▸ hst, h2 ▸ hb, rfl, Or.inr ⟨h2 ▸ hr, rfl, hp⟩⟩⟩, habs .promotion .none h1⟩
  · -- jump
    have hb1 := (occ_false_iff h turn _).mp hocc
    have hb2 := (occ_false_iff h turn _).mp hocc2
    subst hm
    exact ⟨_, ⟨hsq, rfl, Or.inr (Or.inl ⟨t, hst, hst2, hstart, hb1, hb2, rfl, rfl, rfl⟩)⟩, habs .jump .none rfl⟩
  · -- capture / capture promotion
    obtain ⟨h1, h2, h3⟩ := hpromo hm
    rw [← absColor_opp] at hK
    have hb := (h.abs_at_iff turn t turn.opp K).mp hK
    rcases h3 with ⟨hr, hp⟩ | ⟨hr, hp⟩
    · exact ⟨_, ⟨hsq, rfl, Or.inr (Or.inr (Or.inl ⟨h2 ▸ ht, kindPiece K, h2 ▸ hb, rfl,
        Or.inl ⟨h2 ▸ hr, rfl, hp⟩⟩))⟩, habs .capture _ h1⟩
    · exact ⟨_, ⟨hsq, rfl, Or.inr (Or.inr (Or.inl ⟨h2 ▸ ht, kindPiece K, h2 ▸ hb, rfl,
        Or.inr ⟨h2 ▸ hr, rfl, hp⟩⟩))⟩, habs .capturePromotion _ h1⟩
  · -- en passant
    subst hm
    rw [abs_ep] at hep
    by_cases he : p.enpassant = 0
    · rw [if_pos he] at hep; cases hep
    · rw [if_neg he] at hep
      have hto : t = p.enpassant := (Option.some.inj hep).symm
      have hb := (h.abs_at_none_iff turn _).mp hnone
      refine ⟨_, ⟨hsq, rfl, Or.inr (Or.inr (Or.inr ⟨he, hto, ht, ?_, rfl, rfl, rfl⟩))⟩, habs .enPassant .none rfl⟩
      simp [colAt, hb]

end Morlock.Proofs.Gen
