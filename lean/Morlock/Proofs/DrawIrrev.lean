import Morlock.Proofs.DrawMeasure
import Morlock.Proofs.DrawHash
/-!
# C05: irreversibility from the rules

`GoodStep p t m q`: in position `p` (all views agreeing), the side `t` plays `m` - accurate metadata, sound
type, pawns forward - and `Position.move` yields `q`. Along a line of good steps (`GoodChain`) the measure
`mu` never increases going forward and drops at every clock-resetting move; with chained clocks
(`ClockChain`) and a non-negative start clock this gives `Irreversible`.
-/
namespace Morlock.Proofs.Draw
open Morlock Morlock.Model Morlock.Model.World Morlock.Proofs Morlock.Proofs.Arena

/-- One good step of a line: from `p`, with `t` to move, the move `m` leads to `q`. -/
structure GoodStep (p : Position) (t : Color) (m : Move) (q : Position) : Prop where
  rep : Rep p p.square
  ok : MetaOK p m = true
  mover : ∃ pc, p.square m.from = some (t, pc)
  sound : MoveSound p.square m = true
  moved : p.move m = some q

/-- Every step of the line (current position `q` with `t` to move, strict ancestors `past` holding the
moves in `next`) is good. -/
def GoodChain : Position → Color → List Node → Prop
  | _, _, [] => True
  | q, t, p :: r => GoodStep p.pos t.opp p.next q ∧ GoodChain p.pos t.opp r

/-- The measure of a position: that of the board it reads back. -/
def muP (p : Position) : Nat := mu p.square

theorem GoodStep.rep' {p q : Position} {t : Color} {m : Move} (h : GoodStep p t m q) : Rep q q.square :=
  (move_rep h.rep h.ok h.moved).1.self

theorem GoodStep.mu_le {p q : Position} {t : Color} {m : Move} (h : GoodStep p t m q) :
    muP q ≤ muP p ∧ (isReset m = true → muP q < muP p) := by
  have hq := (move_rep h.rep h.ok h.moved).1
  have hb : q.square = boardAfter p.square m := hq.board_eq.symm
  unfold muP
  rw [hb]
  exact mu_boardAfter h.rep.out (by rw [← h.rep.metaOK_iff]; exact h.ok) h.sound

theorem goodChain_erase : ∀ (q : Position) (t : Color) (l : List Node),
    GoodChain q t (l.map eraseNode) ↔ GoodChain q t l
  | _, _, [] => Iff.rfl
  | q, t, p :: r => by
    simp only [List.map_cons, GoodChain, eraseNode_pos, eraseNode_next]
    rw [goodChain_erase p.pos t.opp r]

/-- Going back along a good line the measure never decreases. -/
theorem goodChain_mono : ∀ (past : List Node) (q : Position) (t : Color), GoodChain q t past →
    ∀ n ∈ past, muP q ≤ muP n.pos
  | [], _, _, _ => by intro n hn; cases hn
  | p :: r, q, t, h => by
    intro n hn
    have h1 := h.1.mu_le.1
    rcases List.mem_cons.mp hn with rfl | hn
    · exact h1
    · exact Nat.le_trans h1 (goodChain_mono r p.pos t.opp h.2 n hn)

theorem clockChain_nonneg : ∀ (past : List Node) (np : Int), ClockChain np past → 0 ≤ rootClock np past → 0 ≤ np
  | [], np, _, h => h
  | p :: r, np, hc, h => by
    rw [rootClock_cons] at h
    have := clockChain_nonneg r p.noprogress hc.2 h
    have h1 := hc.1
    rw [updateNoProgress_eq] at h1
    split at h1 <;> omega

/-- **Key lemma.** On a good line with chained clocks and a non-negative start clock, an ancestor `j + 1`
plies back with the measure of the current position is at most `noprogress` plies back. -/
theorem same_measure_within_clock : ∀ (past : List Node) (q : Position) (t : Color) (np : Int) (j : Nat) (n : Node),
    GoodChain q t past → ClockChain np past → 0 ≤ rootClock np past →
    past[j]? = some n → muP n.pos = muP q → ((j : Int) + 1) ≤ np
  | [], _, _, _, _, _, _, _, _, hj, _ => by simp at hj
  | p :: r, q, t, np, j, n, hg, hc, hroot, hj, hmu => by
    rw [rootClock_cons] at hroot
    have hnn := clockChain_nonneg r p.noprogress hc.2 hroot
    have hstep := hg.1.mu_le
    have hc1 := hc.1
    rw [updateNoProgress_eq] at hc1
    cases j with
    | zero =>
      simp only [List.getElem?_cons_zero, Option.some.injEq] at hj
      subst hj
      have hnr : ¬ isReset p.next = true := fun hr => by have := hstep.2 hr; omega
      rw [if_neg hnr] at hc1
      omega
    | succ j' =>
      simp only [List.getElem?_cons_succ] at hj
      have hmem : n ∈ r := List.mem_of_getElem? hj
      have hmono := goodChain_mono r p.pos t.opp hg.2 n hmem
      have hnr : ¬ isReset p.next = true := fun hr => by have := hstep.2 hr; omega
      rw [if_neg hnr] at hc1
      have ih := same_measure_within_clock r p.pos t.opp p.noprogress j' n hg.2 hc.2 hroot hj (by omega)
      omega

theorem mem_drop_sided : ∀ (l : List Node) (t : Color) (k : Nat) (e : Node × Color),
    e ∈ (sided t l).drop k → ∃ j n, k ≤ j ∧ l[j]? = some n ∧ e.1 = n
  | [], _, _, e, h => by simp at h
  | n :: r, t, 0, e, h => by
    simp only [List.drop_zero, sided_cons, List.mem_cons] at h
    rcases h with rfl | h
    · exact ⟨0, n, Nat.le_refl 0, rfl, rfl⟩
    · obtain ⟨j, n', _, hj, he⟩ := mem_drop_sided r t.opp 0 e (by simpa using h)
      exact ⟨j + 1, n', Nat.zero_le _, by simpa using hj, he⟩
  | n :: r, t, k + 1, e, h => by
    simp only [sided_cons, List.drop_succ_cons] at h
    obtain ⟨j, n', hk, hj, he⟩ := mem_drop_sided r t.opp k e h
    exact ⟨j + 1, n', by omega, by simpa using hj, he⟩

/-! ## on the arena -/

/-- Every step of the line of board `b` is good. -/
def GoodLine (w : World) (b : Nat) : Prop := GoodChain (w.cur b).pos (w.board b).turn (anc w (w.cur b).prev)

/-- The clock of the start node of the line is not negative. -/
def RootClockOK (w : World) (b : Nat) : Prop := 0 ≤ rootClock (w.cur b).noprogress (anc w (w.cur b).prev)

/-- **Irreversibility from the rules.** -/
theorem irreversible_of_good {w : World} {b : Nat} (hg : GoodLine w b) (hc : ClockOK w b) (hr : RootClockOK w b) :
    Irreversible w b := by
  intro e he
  rw [lineK_head, sided_cons, List.drop_succ_cons] at he
  obtain ⟨j, n', hk, hj, hen⟩ := mem_drop_sided _ _ _ e he
  rw [List.getElem?_map] at hj
  cases hanc : (anc w (w.cur b).prev)[j]? with
  | none => rw [hanc] at hj; cases hj
  | some n =>
    rw [hanc] at hj
    simp only [Option.map_some, Option.some.injEq] at hj
    cases hs : samePos (w.cur b).pos (w.board b).turn e with
    | false => rfl
    | true =>
      exfalso
      rw [samePos_iff] at hs
      have hpos : n.pos = (w.cur b).pos := by
        rw [← hs.1, hen, ← hj]; rfl
      have := same_measure_within_clock _ _ _ _ j n hg hc hr hanc (by rw [hpos])
      omega

/-! view-level versions and preservation -/

def GoodLineV (v : View) : Prop := GoodChain v.pos v.turn v.past
def RootClockOKV (v : View) : Prop := 0 ≤ rootClock v.noprogress v.past

theorem goodLine_view (w : World) (b : Nat) : GoodLine w b ↔ GoodLineV (view w b) :=
  (goodChain_erase _ _ _).symm

theorem rootClock_erase (np : Int) (l : List Node) : rootClock np (l.map eraseNode) = rootClock np l := by
  unfold rootClock
  rw [List.getLast?_map]
  cases l.getLast? <;> rfl

theorem rootClockOK_view (w : World) (b : Nat) : RootClockOK w b ↔ RootClockOKV (view w b) := by
  unfold RootClockOK RootClockOKV
  show _ ↔ 0 ≤ rootClock _ ((anc w (w.cur b).prev).map eraseNode)
  rw [rootClock_erase]
  rfl

theorem goodLine_push {w w' : World} {z : ZTable} {b : Nat} {m : Move} (hw : WFWorld w) (hb : b < w.boards.size)
    (h : w.pushMove z b m = some w') (hg : GoodLine w b)
    (hs : GoodStep (w.cur b).pos (w.board b).turn m (w'.cur b).pos) : GoodLine w' b := by
  rw [goodLine_view] at hg ⊢
  obtain ⟨_, ht, _, _, _, _, hpast⟩ := vlineK_push (push_view_some hw hb h)
  unfold GoodLineV
  rw [hpast, ht]
  refine ⟨?_, ?_⟩
  · rw [opp_opp]; exact hs
  · rw [opp_opp]; exact hg

theorem rootClockOK_push {w w' : World} {z : ZTable} {b : Nat} {m : Move} (hw : WFWorld w) (hb : b < w.boards.size)
    (h : w.pushMove z b m = some w') (hr : RootClockOK w b) : RootClockOK w' b := by
  rw [rootClockOK_view] at hr ⊢
  obtain ⟨_, _, _, _, _, _, hpast⟩ := vlineK_push (push_view_some hw hb h)
  unfold RootClockOKV
  rw [hpast, rootClock_cons]
  exact hr

theorem goodLine_pop {w w' : World} {b : Nat} {m : Move} (hw : WFWorld w) (hb : b < w.boards.size)
    (h : w.popMove b = some (w', m)) (hg : GoodLine w b) : GoodLine w' b := by
  rw [goodLine_view] at hg ⊢
  obtain ⟨p, r, hp, _, hv'⟩ := viewPop_some (pop_view_some hw hb h)
  unfold GoodLineV at hg ⊢
  rw [hp] at hg
  rw [hv']
  exact hg.2

theorem rootClockOK_pop {w w' : World} {b : Nat} {m : Move} (hw : WFWorld w) (hb : b < w.boards.size)
    (h : w.popMove b = some (w', m)) (hr : RootClockOK w b) : RootClockOK w' b := by
  rw [rootClockOK_view] at hr ⊢
  obtain ⟨p, r, hp, _, hv'⟩ := viewPop_some (pop_view_some hw hb h)
  unfold RootClockOKV at hr ⊢
  rw [hp, rootClock_cons] at hr
  rw [hv']
  exact hr

theorem goodLine_fork {w : World} (hw : WFWorld w) (b : Nat) (hg : GoodLine w b) :
    GoodLine (w.fork b).1 (w.fork b).2 := by
  rw [goodLine_view] at hg ⊢
  rw [view_fork_new hw b]
  exact hg

theorem rootClockOK_fork {w : World} (hw : WFWorld w) (b : Nat) (hr : RootClockOK w b) :
    RootClockOK (w.fork b).1 (w.fork b).2 := by
  rw [rootClockOK_view] at hr ⊢
  rw [view_fork_new hw b]
  exact hr

theorem goodLine_newBoard (w : World) (z : ZTable) (pos : Position) (turn : Color) (np fm : Int) :
    GoodLine (w.newBoard z pos turn np fm).1 (w.newBoard z pos turn np fm).2 := by
  unfold GoodLine
  rw [(newBoard_cur w z pos turn np fm).1]
  exact trivial

theorem rootClockOK_newBoard (w : World) (z : ZTable) (pos : Position) (turn : Color) {np : Int} (fm : Int)
    (hnp : 0 ≤ np) : RootClockOK (w.newBoard z pos turn np fm).1 (w.newBoard z pos turn np fm).2 := by
  unfold RootClockOK
  rw [(newBoard_cur w z pos turn np fm).1]
  exact hnp

end Morlock.Proofs.Draw
