import Morlock.Proofs.MirrorSpec
import Morlock.Proofs.DrawMaterial
import Morlock.Model.BoardGame
/-!
# C20: `eval.Material` on bitboards is the reference material balance, and is colour-blind

Under `Rep p b` every `popCount` of a piece set is a count over the 64 squares of the mailbox board `b`;
summing `(own − opponent) · nominal value` over the six piece kinds is the sum over the squares of the
signed value of the man standing there, which is `Spec.material` of the abstraction.
-/
namespace Morlock.Proofs.Mirror
open Morlock Morlock.Model Morlock.Proofs Morlock.Proofs.Material

/-! ## the generated value table -/

theorem nominalValue_pawn : nominalValue .pawn = 1 := by decide
theorem nominalValue_bishop : nominalValue .bishop = 3 := by decide
theorem nominalValue_knight : nominalValue .knight = 3 := by decide
theorem nominalValue_rook : nominalValue .rook = 5 := by decide
theorem nominalValue_queen : nominalValue .queen = 9 := by decide
theorem nominalValue_king : nominalValue .king = 100 := by decide
theorem nominalValue_none : nominalValue .none = 0 := by decide

/-- `eval.NominalValue` is the reference's `kindValue`. -/
theorem nominalValue_eq_kindValue {k : Piece} (hk : k ≠ .none) : nominalValue k = Spec.kindValue (kindOf k) := by
  cases k
  · exact absurd rfl hk
  · exact nominalValue_pawn
  · exact nominalValue_bishop
  · exact nominalValue_knight
  · exact nominalValue_rook
  · exact nominalValue_queen
  · exact nominalValue_king

/-! ## counts -/

/-- Number of squares of `l` holding `(c, k)`. -/
def cntB (b : Board) (c : Color) (k : Piece) (l : List Nat) : Int :=
  ((l.countP fun sq => decide (b sq = some (c, k)) : Nat) : Int)

theorem cntB_nil (b : Board) (c : Color) (k : Piece) : cntB b c k [] = 0 := rfl

theorem cntB_cons (b : Board) (c : Color) (k : Piece) (x : Nat) (l : List Nat) :
    cntB b c k (x :: l) = (if b x = some (c, k) then 1 else 0) + cntB b c k l := by
  unfold cntB
  rw [List.countP_cons]
  by_cases h : b x = some (c, k)
  · simp [h]; omega
  · simp [h]

theorem popCount_pieces {p : Position} {b : Board} (h : Rep p b) (c : Color) {k : Piece} (hk : k ≠ .none) :
    (popCount (p.pieces c k) : Int) = cntB b c k (List.range 64) := by
  unfold cntB
  rw [popCount_eq]
  congr 1
  exact countP_range_congr fun i hi => h.one c k i hk hi

/-- Signed value of the man on a cell of a mailbox board, for the colour `t`. -/
def cellValueB (t : Color) : Option (Color × Piece) → Int
  | some (c, k) => if c = t then nominalValue k else - nominalValue k
  | none => 0

/-- The material sum of `eval.Material` over a list of squares of a mailbox board. -/
def matB (b : Board) (t : Color) (l : List Nat) : Int :=
  (cntB b t .pawn l - cntB b t.opp .pawn l) * 1 +
  (cntB b t .bishop l - cntB b t.opp .bishop l) * 3 +
  (cntB b t .knight l - cntB b t.opp .knight l) * 3 +
  (cntB b t .rook l - cntB b t.opp .rook l) * 5 +
  (cntB b t .queen l - cntB b t.opp .queen l) * 9 +
  (cntB b t .king l - cntB b t.opp .king l) * 100

theorem matB_eq_sum (b : Board) (t : Color) (hwf : ∀ sq c, b sq ≠ some (c, .none)) (l : List Nat) :
    matB b t l = Spec.sumOver (fun s => cellValueB t (b s)) l := by
  induction l with
  | nil => simp [matB, cntB_nil]
  | cons x r ih =>
    rw [Spec.sumOver_cons, ← ih]
    unfold matB
    simp only [cntB_cons]
    cases hb : b x with
    | none => simp [cellValueB]
    | some v =>
      obtain ⟨c, k⟩ := v
      have hk : k ≠ .none := fun e => hwf x c (by rw [hb, e])
      cases c <;> cases t <;> cases k <;>
        first
        | exact absurd rfl hk
        | (simp [cellValueB, Color.opp, nominalValue_pawn, nominalValue_bishop, nominalValue_knight,
            nominalValue_rook, nominalValue_queen, nominalValue_king] <;> omega)

theorem materialPawns_eq_matB {p : Position} {b : Board} (h : Rep p b) (t : Color) :
    materialPawns p t = matB b t (List.range 64) := by
  unfold materialPawns matB Position.piecesInOrder
  simp only [List.foldl_cons, List.foldl_nil, nominalValue_pawn, nominalValue_bishop, nominalValue_knight,
    nominalValue_rook, nominalValue_queen, nominalValue_king]
  rw [popCount_pieces h t (by decide : Piece.pawn ≠ .none), popCount_pieces h t.opp (by decide : Piece.pawn ≠ .none),
    popCount_pieces h t (by decide : Piece.bishop ≠ .none), popCount_pieces h t.opp (by decide : Piece.bishop ≠ .none),
    popCount_pieces h t (by decide : Piece.knight ≠ .none), popCount_pieces h t.opp (by decide : Piece.knight ≠ .none),
    popCount_pieces h t (by decide : Piece.rook ≠ .none), popCount_pieces h t.opp (by decide : Piece.rook ≠ .none),
    popCount_pieces h t (by decide : Piece.queen ≠ .none), popCount_pieces h t.opp (by decide : Piece.queen ≠ .none),
    popCount_pieces h t (by decide : Piece.king ≠ .none), popCount_pieces h t.opp (by decide : Piece.king ≠ .none)]
  omega

theorem absColor_inj {a b : Color} : absColor a = absColor b ↔ a = b := by
  cases a <;> cases b <;> decide

theorem cellValue_absCellB (t : Color) {v : Option (Color × Piece)} (hv : ∀ c, v ≠ some (c, .none)) :
    Spec.cellValue (absColor t) (absCellB v) = cellValueB t v := by
  cases v with
  | none => rfl
  | some x =>
    obtain ⟨c, k⟩ := x
    have hk : k ≠ .none := fun e => hv c (by rw [e])
    rw [absCellB_some c hk]
    simp only [Spec.cellValue, cellValueB, absColor_inj, nominalValue_eq_kindValue hk]

/-- **material_eq_spec.** The transcription of `eval.Material.Evaluate` computes the reference material
    balance of the abstracted position. -/
theorem materialPawns_eq_material {p : Position} {b : Board} (h : Rep p b) (t : Color) :
    materialPawns p t = Spec.material (abs p t) := by
  rw [materialPawns_eq_matB h, matB_eq_sum b t h.wf, Spec.material_eq_sum]
  show _ = Spec.sumOver _ (List.range 64)
  apply Spec.sumOver_congr
  intro s _
  show _ = Spec.cellValue (absColor t) ((abs p t).at s)
  rw [h.abs_at, cellValue_absCellB t (fun c => h.wf s c)]

/-! ## the mirrored mailbox board -/

/-- Colour-swapped vertical mirror image of a mailbox board. -/
def mirrorBoard (b : Board) : Board := fun sq =>
  match b (Spec.mirrorSq sq) with
  | some (c, k) => some (c.opp, k)
  | none => none

theorem absColor_opp' (c : Color) : absColor c.opp = (absColor c).opp := by cases c <;> rfl

theorem absCellB_mirrorBoard (b : Board) (sq : Nat) :
    absCellB (mirrorBoard b sq) = Spec.mirrorCell (absCellB (b (Spec.mirrorSq sq))) := by
  unfold mirrorBoard
  cases b (Spec.mirrorSq sq) with
  | none => rfl
  | some v =>
    obtain ⟨c, k⟩ := v
    cases k <;> simp [absCellB, absKind, absColor_opp']

/-- A position representing the mirrored board abstracts, cell by cell, to the mirror image of the abstraction. -/
theorem abs_at_mirror {p q : Position} {b : Board} (hp : Rep p b) (hq : Rep q (mirrorBoard b)) (t : Color)
    {s : Nat} (hs : s < 64) : (abs q t.opp).at s = (Spec.mirror (abs p t)).at s := by
  rw [hq.abs_at, Spec.mirror_at hs, hp.abs_at, absCellB_mirrorBoard]

/-- **material_mirror_model.** `eval.Material` is colour-blind: on the position representing the mirrored,
    colour-swapped board, the opponent colour gets the value the original colour got. -/
theorem materialPawns_mirror {p q : Position} {b : Board} (hp : Rep p b) (hq : Rep q (mirrorBoard b)) (t : Color) :
    materialPawns q t.opp = materialPawns p t := by
  rw [materialPawns_eq_material hq, materialPawns_eq_material hp, ← Spec.material_mirror (abs p t)]
  apply Spec.material_congr
  · intro s hs; exact abs_at_mirror hp hq t hs
  · show absColor t.opp = (absColor t).opp
    exact absColor_opp' t

end Morlock.Proofs.Mirror

namespace Morlock.Proofs.Mirror
open Morlock Morlock.Model Morlock.Proofs

/-! ## every well-formed mailbox board is represented by some bitboard position -/

/-- The men of a mailbox board as a `NewPosition` placement list. -/
def placements (b : Board) (l : List Nat) : List (Nat × Color × Piece) :=
  l.filterMap fun sq => (b sq).map fun v => (sq, v.1, v.2)

theorem mem_placements {b : Board} {l : List Nat} {x : Nat × Color × Piece} :
    x ∈ placements b l ↔ x.1 ∈ l ∧ b x.1 = some x.2 := by
  unfold placements
  rw [List.mem_filterMap]
  constructor
  · rintro ⟨sq, hsq, hx⟩
    cases hb : b sq with
    | none => rw [hb] at hx; cases hx
    | some v =>
      rw [hb] at hx
      simp only [Option.map_some, Option.some.injEq] at hx
      subst hx
      exact ⟨hsq, hb⟩
  · rintro ⟨h1, h2⟩
    refine ⟨x.1, h1, ?_⟩
    rw [h2]; rfl

theorem placements_fst (b : Board) (l : List Nat) :
    (placements b l).map (·.1) = l.filter fun sq => (b sq).isSome := by
  induction l with
  | nil => rfl
  | cons x r ih =>
    unfold placements at ih ⊢
    rw [List.filterMap_cons, List.filter_cons]
    cases hb : b x with
    | none => simpa using ih
    | some v => simpa using ih

/-- A mailbox board without `NoPiece` men and without men off the board is represented by a position
    (the one `NewPosition` builds), with any status fields. -/
theorem exists_rep (b : Board) (hwf : ∀ sq c, b sq ≠ some (c, .none)) (hout : ∀ sq, 64 ≤ sq → b sq = none)
    (castling ep : Nat) : ∃ q : Position, Rep q b ∧ q.castling = castling ∧ q.enpassant = ep := by
  have hv : ValidPlacements (placements b (List.range 64)) := by
    intro x hx
    obtain ⟨h1, h2⟩ := mem_placements.mp hx
    refine ⟨List.mem_range.mp h1, fun e => hwf x.1 x.2.1 ?_⟩
    rw [h2, ← e]
  have hnd : ((placements b (List.range 64)).map (·.1)).Nodup := by
    rw [placements_fst]; exact List.nodup_range.filter _
  have hs := (newPosition_isSome_iff castling ep hv).mpr hnd
  obtain ⟨q, hq⟩ := Option.isSome_iff_exists.mp hs
  obtain ⟨h1, h2, h3⟩ := newPosition_rep hv hq
  refine ⟨q, ?_, h2, h3⟩
  have hb : placeAll emptyBoard (placements b (List.range 64)) = b := by
    funext sq
    cases hsq : b sq with
    | none =>
      rw [placeAll_not_mem]
      · rfl
      · rw [placements_fst, List.mem_filter]
        rintro ⟨_, h⟩
        rw [hsq] at h; cases h
    | some v =>
      obtain ⟨c, k⟩ := v
      apply placeAll_mem hnd
      apply mem_placements.mpr
      refine ⟨List.mem_range.mpr ?_, hsq⟩
      apply Classical.byContradiction
      intro hge
      rw [hout sq (by omega)] at hsq; cases hsq
  rw [hb] at h1
  exact h1

theorem mirrorBoard_wf {b : Board} (hwf : ∀ sq c, b sq ≠ some (c, .none)) :
    ∀ sq c, mirrorBoard b sq ≠ some (c, .none) := by
  intro sq c h
  unfold mirrorBoard at h
  cases hb : b (Spec.mirrorSq sq) with
  | none => rw [hb] at h; cases h
  | some v =>
    obtain ⟨c', k⟩ := v
    rw [hb] at h
    simp only [Option.some.injEq, Prod.mk.injEq] at h
    exact hwf _ c' (by rw [hb, h.2])

theorem mirrorBoard_out {b : Board} (hout : ∀ sq, 64 ≤ sq → b sq = none) :
    ∀ sq, 64 ≤ sq → mirrorBoard b sq = none := by
  intro sq h
  unfold mirrorBoard
  rw [Spec.mirrorSq_of_ge h, hout sq h]

/-- The mirrored board of a represented position is represented (so `materialPawns_mirror` is not vacuous). -/
theorem exists_mirror_rep {p : Position} {b : Board} (h : Rep p b) (castling ep : Nat) :
    ∃ q : Position, Rep q (mirrorBoard b) ∧ q.castling = castling ∧ q.enpassant = ep :=
  exists_rep _ (mirrorBoard_wf h.wf) (mirrorBoard_out h.out) castling ep

end Morlock.Proofs.Mirror
