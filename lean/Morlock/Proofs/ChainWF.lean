import Morlock.Proofs.GenLegal
/-!
# Chain (C01 + C02): the play invariant `WFplay` and its preservation by generated moves

`WF p turn` alone is **not** preserved by `Position.move` on generated moves: when the side *not* to move is
in check, the generator emits the capture of its king, `Position.move` accepts it (the mover's king is safe),
and afterwards a castling right may survive without its king (`KingHome` fails; see `wf_not_preserved`).

`WFplay p turn := WF p turn ∧ p.isChecked turn.opp = false` — the side not to move is not in check — *is*
preserved (`wf_preserved`):

* no generated move captures a king (`pseudo_noKingCapture`: a capture of the king is an attack on its square);
* `Rep` by C02 `move_rep`; at most one king per side because no king appears (promotion pieces are Q, R, N, B)
  and the moved king leaves its origin; `KingHome` by C02 `kingHome_move`;
* the en-passant clause: the only type-`jump` moves are double pushes from the start rank, whose skipped square is
  empty, on rank 3 / 6, with the pawn just moved directly behind it;
* after an accepted move the mover's king is not attacked: that is the test `Position.move` makes.
-/
namespace Morlock.Proofs.Chain
open Morlock Morlock.Model Morlock.Proofs Morlock.Proofs.Gen Morlock.Proofs.Attack

theorem color_opp_opp (c : Color) : c.opp.opp = c := by cases c <;> rfl

/-- **The play invariant.** `WF` (C01) and the side not to move is not in check. -/
def WFplay (p : Position) (turn : Color) : Prop := WF p turn ∧ p.isChecked turn.opp = false

theorem WFplay.wf {p : Position} {turn : Color} (h : WFplay p turn) : WF p turn := h.1

/-! ## no generated move captures a king -/

/-- A generated move that records a captured piece lands on an enemy piece of that kind, and its origin
attacks the destination square. -/
theorem pseudoMove_capture_att {b : Board} {castling ep : Nat} {turn : Color} {m : Move}
    (hm : PseudoMove b castling ep turn m) (hcap : m.capture ≠ .none) :
    b m.to = some (turn.opp, m.capture) ∧ Att b turn m.to := by
  rcases hm with ⟨pc, hpc, hs⟩ | hp | hs | ⟨_, hc⟩
  · have hpw : pc ≠ .pawn := by
      rcases (mem_promoPieces pc).mp hpc with rfl | rfl | rfl | rfl <;> simp
    obtain ⟨hsq, _, _, ht, hd⟩ := hs
    rcases hd with ⟨_, _, hc⟩ | ⟨k, hk, _, hc⟩
    · exact absurd hc hcap
    · exact ⟨by rw [hc]; exact hk, m.from, pc, hsq, Or.inr ⟨hpw, ht⟩⟩
  · obtain ⟨hsq, _, hk⟩ := hp
    rcases hk with ⟨_, _, hc, _⟩ | ⟨_, _, _, _, _, _, _, _, hc⟩ | ⟨ht, k, hk, hc, _⟩ | ⟨_, _, _, _, _, _, hc⟩
    · exact absurd hc hcap
    · exact absurd hc hcap
    · exact ⟨by rw [hc]; exact hk, m.from, .pawn, hsq, Or.inl ⟨rfl, ht⟩⟩
    · exact absurd hc hcap
  · obtain ⟨hsq, _, _, ht, hd⟩ := hs
    rcases hd with ⟨_, _, hc⟩ | ⟨k, hk, _, hc⟩
    · exact absurd hc hcap
    · exact ⟨by rw [hc]; exact hk, m.from, .king, hsq, Or.inr ⟨by simp, ht⟩⟩
  · obtain ⟨_, _, _, _, _, _, _, _, _, hc⟩ := hc
    exact absurd hc hcap

/-- A side whose (unique) king stands on an attacked square is in check. -/
theorem isChecked_of_att {p : Position} {b : Board} (h : Rep p b) {c : Color} {sq : Nat}
    (hu : ∀ s1 s2, b s1 = some (c, Piece.king) → b s2 = some (c, Piece.king) → s1 = s2)
    (hk : b sq = some (c, Piece.king)) (hatt : Att b c.opp sq) : p.isChecked c = true := by
  have h0 : p.pieces c .king ≠ 0 := fun e => (king_zero_iff h c).mp e sq hk
  have hsq : lastPopSquare (p.pieces c .king) = sq := hu _ _ (kingSquare_spec h c h0).1 hk
  have h64 : sq < 64 := h.lt_of_some hk
  unfold Position.isChecked
  simp only [hsq]
  rw [if_pos (by rw [bne_iff_ne]; omega)]
  exact (isAttacked_iff_att h c h64).mpr hatt

/-- **No king capture.** In a well-formed position where the side not to move is not in check, no generated
move captures a king. -/
theorem pseudo_noKingCapture {p : Position} {turn : Color} (hw : WFplay p turn) :
    ∀ m ∈ p.pseudoLegalMoves turn, m.capture ≠ .king := by
  intro m hm hcap
  have hps := (mem_pseudoLegalMoves hw.1.rep hw.1.wfb m).mp hm
  obtain ⟨hto, hatt⟩ := pseudoMove_capture_att hps (by rw [hcap]; simp)
  rw [hcap] at hto
  have := isChecked_of_att hw.1.rep (c := turn.opp) (hw.1.wfb.king_unique turn.opp) hto
    (by rw [color_opp_opp]; exact hatt)
  rw [hw.2] at this
  cases this

/-! ## re-assembling `WFc` -/

theorem length_le_one_of_all_eq {α : Type} {l : List α} (hnd : l.Nodup) (h : ∀ a ∈ l, ∀ b ∈ l, a = b) :
    l.length ≤ 1 := by
  match l, hnd, h with
  | [], _, _ => simp
  | [_], _, _ => simp
  | x :: y :: r, hnd, h =>
    have e : x = y := h x List.mem_cons_self y (List.mem_cons_of_mem _ List.mem_cons_self)
    subst e
    simp at hnd

/-- At most one `c` king on the mailbox board: the king bitboard has at most one bit. -/
theorem king_length_le_one {p : Position} {b : Board} (h : Rep p b) (c : Color)
    (hu : ∀ s1 s2, b s1 = some (c, Piece.king) → b s2 = some (c, Piece.king) → s1 = s2) :
    (toSquares (p.pieces c .king)).length ≤ 1 := by
  have hlt := h.piecesLt c .king
  apply length_le_one_of_all_eq (toSquares_nodup hlt)
  intro s1 h1 s2 h2
  have b1 := (mem_toSquares hlt s1).mp h1
  have b2 := (mem_toSquares hlt s2).mp h2
  rw [h.one c .king s1 (by simp) (toSquares_lt hlt h1), decide_eq_true_eq] at b1
  rw [h.one c .king s2 (by simp) (toSquares_lt hlt h2), decide_eq_true_eq] at b2
  exact hu s1 s2 b1 b2

/-- `WFc` from its mailbox-level content (converse of `wfb_of_wfc`). -/
theorem wfc_intro {p : Position} {b : Board} (h : Rep p b) (t : Color)
    (hu : ∀ c s1 s2, b s1 = some (c, Piece.king) → b s2 = some (c, Piece.king) → s1 = s2)
    (hkh : KingHome p = true)
    (hep : p.enpassant ≠ 0 → p.enpassant < 64 ∧ b p.enpassant = none ∧ p.enpassant / 8 = epRank t ∧
      b (epVictim t p.enpassant) = some (t.opp, Piece.pawn)) : WFc p t = true := by
  unfold WFc
  simp only [Bool.and_eq_true, decide_eq_true_eq, Bool.or_eq_true, beq_iff_eq, h.square_eq]
  refine ⟨⟨⟨king_length_le_one h .white (hu .white), king_length_le_one h .black (hu .black)⟩, hkh⟩, ?_⟩
  by_cases h0 : p.enpassant = 0
  · exact Or.inl h0
  · obtain ⟨a, b', c, d⟩ := hep h0
    exact Or.inr ⟨⟨⟨a, b'⟩, c⟩, d⟩

/-! ## kings after a move -/

/-- A king on the board after a move with accurate metadata was there before (and is not on the origin
square), or is the moved king on the destination square (a promotion piece is never a king: `promoOK`). -/
theorem boardAfter_king_inv {b : Board} {m : Move} {turn : Color} {pc : Piece} (hok : MetaOKb b m = true)
    (hsq : b m.from = some (turn, pc)) {sq : Nat} {c : Color}
    (hk : boardAfter b m sq = some (c, Piece.king)) :
    (sq ≠ m.from ∧ sq ≠ m.to ∧ b sq = some (c, Piece.king)) ∨ (sq = m.to ∧ c = turn ∧ pc = .king) := by
  obtain ⟨a1, a2, a3, a4, a5⟩ := boardAfter_spec hok hsq
  have hok' := hok
  unfold MetaOKb at hok'; rw [hsq] at hok'
  simp only [Bool.and_eq_true, beq_iff_eq, decide_eq_true_eq] at hok'
  obtain ⟨_, hty⟩ := hok'
  by_cases e1 : sq = m.from
  · rw [e1, a1] at hk; cases hk
  by_cases e2 : sq = m.to
  · right
    rw [e2, a2] at hk
    have hk' := Prod.mk.inj (Option.some.inj hk)
    refine ⟨e2, hk'.1.symm, ?_⟩
    have hmp := hk'.2
    unfold movedPiece at hmp
    by_cases hp : m.isPromotion = true
    · exfalso
      rw [if_pos hp] at hmp
      cases ety : m.ty <;> rw [ety] at hty <;>
        simp only [Bool.and_eq_true, beq_iff_eq, bne_iff_ne, ne_eq] at hty <;>
        simp [Move.isPromotion, ety] at hp
      · have := hty.2; simp [promoOK, hmp] at this
      · have := hty.2; simp [promoOK, hmp] at this
    · rw [if_neg hp] at hmp; exact hmp
  · left
    refine ⟨e1, e2, ?_⟩
    by_cases e3 : m.ty = .enPassant ∧ sq = m.enPassantCapture
    · rw [e3.2, a3 e3.1] at hk; cases hk
    by_cases e4 : m.isCastle = true ∧ (sq = m.castlingRookMove.1 ∨ sq = m.castlingRookMove.2)
    · obtain ⟨r1, r2⟩ := a4 e4.1
      rcases e4.2 with e | e
      · rw [e, r1] at hk; cases hk
      · rw [e, r2] at hk; cases hk
    rw [a5 sq e1 e2 (fun hty' hsq' => e3 ⟨hty', hsq'⟩)
      (fun hc => ⟨fun e => e4 ⟨hc, Or.inl e⟩, fun e => e4 ⟨hc, Or.inr e⟩⟩)] at hk
    exact hk

/-- At most one king per side is kept by every move with accurate metadata. -/
theorem king_unique_boardAfter {b : Board} {m : Move} (hok : MetaOKb b m = true)
    (hu : ∀ c s1 s2, b s1 = some (c, Piece.king) → b s2 = some (c, Piece.king) → s1 = s2) :
    ∀ c s1 s2, boardAfter b m s1 = some (c, Piece.king) → boardAfter b m s2 = some (c, Piece.king) → s1 = s2 := by
  intro c s1 s2 h1 h2
  cases hsq : b m.from with
  | none => unfold MetaOKb at hok; rw [hsq] at hok; cases hok
  | some x =>
    obtain ⟨turn, pc⟩ := x
    rcases boardAfter_king_inv hok hsq h1 with ⟨n1, _, k1⟩ | ⟨e1, c1, p1⟩ <;>
      rcases boardAfter_king_inv hok hsq h2 with ⟨n2, _, k2⟩ | ⟨e2, c2, p2⟩
    · exact hu c s1 s2 k1 k2
    · exfalso
      subst c2 p2
      exact n1 (hu c s1 m.from k1 hsq)
    · exfalso
      subst c1 p1
      exact n2 (hu c s2 m.from k2 hsq)
    · rw [e1, e2]

/-! ## the en-passant clause after a move -/

theorem castleMove_isCastle {b : Board} {castling : Nat} {turn : Color} {m : Move}
    (hm : CastleMove b castling turn m) : m.isCastle = true := by
  obtain ⟨cs, hcs, _, _, _, hty, _⟩ := hm
  cases turn <;> simp only [castleParams, List.mem_cons, List.not_mem_nil, or_false] at hcs <;>
    rcases hcs with rfl | rfl <;> simp [Move.isCastle, hty]

/-- Only the double push carries the type `jump`. -/
theorem pseudoMove_jump {b : Board} {castling ep : Nat} {turn : Color} {m : Move}
    (hm : PseudoMove b castling ep turn m) (hj : m.ty = .jump) :
    b m.from = some (turn, .pawn) ∧ ∃ t1, Spec.step m.from 0 (Spec.fwd (absColor turn)) = some t1 ∧
      Spec.step t1 0 (Spec.fwd (absColor turn)) = some m.to ∧
      Spec.rankOf m.from = Spec.startRank (absColor turn) ∧ b t1 = none ∧ b m.to = none := by
  rcases hm with ⟨pc, _, hs⟩ | hp | hs | ⟨_, hc⟩
  · rcases hs.2.2.2.2 with ⟨_, hty, _⟩ | ⟨_, _, hty, _⟩ <;> rw [hj] at hty <;> cases hty
  · obtain ⟨hsq, _, hk⟩ := hp
    rcases hk with ⟨_, _, _, ⟨_, hty, _⟩ | ⟨_, hty, _⟩⟩ | ⟨t1, h1, h2, h3, h4, h5, _⟩ |
      ⟨_, _, _, _, ⟨_, hty, _⟩ | ⟨_, hty, _⟩⟩ | ⟨_, _, _, _, hty, _⟩
    · rw [hj] at hty; cases hty
    · rw [hj] at hty; cases hty
    · exact ⟨hsq, t1, h1, h2, h3, h4, h5⟩
    · rw [hj] at hty; cases hty
    · rw [hj] at hty; cases hty
    · rw [hj] at hty; cases hty
  · rcases hs.2.2.2.2 with ⟨_, hty, _⟩ | ⟨_, _, hty, _⟩ <;> rw [hj] at hty <;> cases hty
  · have := castleMove_isCastle hc
    simp [Move.isCastle, hj] at this

/-- The squares of a double push, in numbers. -/
theorem jump_geometry {turn : Color} {fr t1 to : Nat} (hfr : fr < 64)
    (h1 : Spec.step fr 0 (Spec.fwd (absColor turn)) = some t1)
    (h2 : Spec.step t1 0 (Spec.fwd (absColor turn)) = some to)
    (hstart : Spec.rankOf fr = Spec.startRank (absColor turn)) :
    match turn with
    | .white => t1 = fr + 8 ∧ to = fr + 16 ∧ fr / 8 = 1
    | .black => t1 + 8 = fr ∧ to + 16 = fr ∧ fr / 8 = 6 := by
  have ht1 : t1 < 64 := step_lt h1
  have e1 := (step_fwd_iff hfr).mp h1
  have e2 := (step_fwd_iff ht1).mp h2
  cases turn <;> simp only [Spec.rankOf, Spec.startRank, absColor] at e1 e2 hstart ⊢ <;> omega

/-- The en-passant target recorded by a double push is the skipped square. -/
theorem jump_target {turn : Color} {m : Move} {t1 : Nat} (hj : m.ty = .jump) (hfr : m.from < 64)
    (h1 : Spec.step m.from 0 (Spec.fwd (absColor turn)) = some t1)
    (h2 : Spec.step t1 0 (Spec.fwd (absColor turn)) = some m.to)
    (hstart : Spec.rankOf m.from = Spec.startRank (absColor turn)) :
    m.enPassantTarget = t1 ∧ t1 ≠ 0 ∧ t1 < 64 ∧ t1 ≠ m.from ∧ t1 ≠ m.to ∧ t1 / 8 = epRank turn.opp ∧
      epVictim turn.opp t1 = m.to := by
  have hg := jump_geometry hfr h1 h2 hstart
  unfold Move.enPassantTarget
  simp only [hj, bne_self_eq_false, Bool.false_eq_true, if_false, sqRank_eq, newSquare_eq, sqFile_eq]
  cases turn <;> simp only [epRank, epVictim, Color.opp] at hg ⊢
  · rw [if_pos (by omega)]; omega
  · rw [if_neg (by omega)]; omega

/-! ## preservation -/

/-- `KingHome` is part of `WF`. -/
theorem kingHome_of_wf {p : Position} {t : Color} (hw : WF p t) : KingHome p = true := by
  have := hw.2
  unfold WFc at this
  simp only [Bool.and_eq_true] at this
  exact this.1.2

/-- **`pseudo_mover`.** On a well-formed position every generated move moves a piece of the side to move,
and that piece is the one recorded in the move. -/
theorem pseudo_mover {p : Position} {turn : Color} (hw : WF p turn) :
    ∀ m ∈ p.pseudoLegalMoves turn, p.square m.from = some (turn, m.piece) :=
  fun m hm => (((mem_pseudoLegalMoves hw.rep hw.wfb m).mp hm).features hw.wfb).1

/-- **`wf_preserved`.** The invariant `WFplay` (well-formed, and the side not to move is not in check) is
preserved by every generated move that `Position.move` accepts. -/
theorem wf_preserved {p q : Position} {turn : Color} {m : Move} (hw : WFplay p turn)
    (hm : m ∈ p.pseudoLegalMoves turn) (hq : p.move m = some q) : WFplay q turn.opp := by
  have hrep := hw.1.rep
  have hwfb := hw.1.wfb
  have hps := (mem_pseudoLegalMoves hrep hwfb m).mp hm
  obtain ⟨hok, _⟩ := hps.metaOK_classOK hrep hwfb
  have hsq : p.square m.from = some (turn, m.piece) := (hps.features hwfb).1
  have hcap := pseudo_noKingCapture hw m hm
  refine ⟨?_, ?_⟩
  · -- `WF q turn.opp`
    obtain ⟨hrep', _, hep'⟩ := move_rep hrep hok hq
    have hokb : MetaOKb p.square m = true := by rw [← hrep.metaOK_iff]; exact hok
    refine ⟨hrep'.self, ?_⟩
    apply wfc_intro hrep' turn.opp (king_unique_boardAfter hokb hwfb.king_unique)
      (kingHome_move hrep hok (kingHome_of_wf hw.1) hcap hq)
    intro hne
    rw [hep'] at hne ⊢
    have hj : m.ty = .jump := by
      apply Classical.byContradiction
      intro hnj
      apply hne
      unfold Move.enPassantTarget
      simp [hnj]
    obtain ⟨hpawn, t1, h1, h2, hstart, hb1, hb2⟩ := pseudoMove_jump hps hj
    have hfr : m.from < 64 := hrep.lt_of_some hpawn
    obtain ⟨g1, _, g3, g4, g5, g6, g7⟩ := jump_target hj hfr h1 h2 hstart
    obtain ⟨_, a2, _, _, a5⟩ := boardAfter_spec hokb hpawn
    rw [g1, g7]
    refine ⟨g3, ?_, g6, ?_⟩
    · rw [a5 t1 g4 g5 (fun h => by rw [hj] at h; cases h) (fun h => by simp [Move.isCastle, hj] at h)]
      exact hb1
    · rw [a2, color_opp_opp]
      have : m.isPromotion = false := by simp [Move.isPromotion, hj]
      simp [movedPiece, this]
  · -- the mover's king is not attacked afterwards: the test `Position.move` makes
    rw [color_opp_opp]
    have e := move_eq_some hsq hq
    have hs : (p.move m).isSome = true := by rw [hq]; rfl
    rw [move_isSome_eq hsq] at hs
    simp only [Bool.and_eq_true, Bool.not_eq_true'] at hs
    rw [e]
    exact hs.2

/-- In particular `WF` holds after the move. -/
theorem wf_after {p q : Position} {turn : Color} {m : Move} (hw : WFplay p turn)
    (hm : m ∈ p.pseudoLegalMoves turn) (hq : p.move m = some q) : WF q turn.opp :=
  (wf_preserved hw hm hq).1

end Morlock.Proofs.Chain
