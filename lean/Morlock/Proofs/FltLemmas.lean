import Morlock.Proofs.FltPow
import Morlock.Proofs.FltRhe
import Morlock.Proofs.FltExpo
import Morlock.Proofs.FltRndPos
import Morlock.Proofs.FltQ
import Morlock.Proofs.FltRnd
import Morlock.Proofs.FltDyadic
import Morlock.Proofs.FltMono
import Morlock.Proofs.FltOrder
import Morlock.Proofs.FltBits
import Morlock.Proofs.FltOps
import Morlock.Proofs.FltSqrt
import Morlock.Proofs.FltSqrtMono
import Morlock.Proofs.FltSqrtNearest
import Morlock.Proofs.FltOverflow
import Morlock.Proofs.FltNearest
import Morlock.Proofs.FltInt
/-!
# Lemmas about the floating-point model `Model/Flt.lean`

Aggregator.  Everything is core Lean (no Mathlib).  Conventions:

* `pn e / pd e = 2^e` for an integer exponent `e` (`FltPow`); comparisons of `X / Y` with `2^e` are written by
  cross-multiplication `X * pd e < Y * pn e`.
* `Q.Eqv`, `Q.Le`, `Q.Lt`: equality and order of rationals by cross-multiplication (`Q.beq_iff`, `Q.le_iff`, `Q.lt_iff`
  connect them to the Boolean functions of the model); `Q.Canon x`: positive denominator and lowest terms.
* `Fmt.WF f`: `1 ≤ p` and `emin + (p-1) ≤ emax`; `f32_wf`, `f64_wf`.
* `Rep f x`: `x` is a finite number of the format.
-/
