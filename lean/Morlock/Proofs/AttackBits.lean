import Morlock.Model.Attack
import Morlock.Spec.Chess
/-!
# Bit-level helper lemmas for property C06 (attack tables = ray geometry)

`toBB` turns a list of squares into a bitboard; the lemmas here are the generic `Nat.testBit`
facts about `bitMask`, `isSet`, line-state extraction and `toBB` used by the other `Attack*` files.
-/
namespace Morlock.Proofs.Attack
open Morlock Morlock.Model

/-- The bitboard with exactly the listed squares set. -/
def toBB (l : List Nat) : Nat := l.foldl (fun acc s => acc ||| (1 <<< s)) 0

theorem M64_eq : M64 = 2 ^ 64 := by decide

theorem bitMask_eq {sq : Nat} (h : sq < 64) : bitMask sq = 2 ^ sq := by
  unfold bitMask shl64 u64
  rw [Nat.one_shiftLeft, M64_eq]
  exact Nat.mod_eq_of_lt (Nat.pow_lt_pow_right (by decide) h)

theorem bitMask_eq' {sq : Nat} (h : sq < 64) : bitMask sq = 1 <<< sq := by
  rw [bitMask_eq h, Nat.one_shiftLeft]

theorem two_pow_and (x b : Nat) : 2 ^ b &&& x = if x.testBit b then 2 ^ b else 0 := by
  apply Nat.eq_of_testBit_eq; intro i
  rw [Nat.testBit_and, Nat.testBit_two_pow]
  by_cases e : b = i
  · subst e; cases h : x.testBit b <;> simp
  · cases h : x.testBit b <;> simp [e]

theorem two_pow_and_ne_zero (x b : Nat) : (2 ^ b &&& x != 0) = x.testBit b := by
  rw [two_pow_and]
  cases x.testBit b <;> simp

/-- `BitMask(b) & x != 0` is the test of bit `b` (for `b < 64`). -/
theorem bitMask_and_ne_zero {b : Nat} (x : Nat) (h : b < 64) : (bitMask b &&& x != 0) = x.testBit b := by
  rw [bitMask_eq h, two_pow_and_ne_zero]

theorem isSet_eq {sq : Nat} (bb : Nat) (h : sq < 64) : isSet bb sq = bb.testBit sq := by
  unfold isSet
  rw [Nat.and_comm, bitMask_and_ne_zero _ h]

theorem bitMask_lt {sq : Nat} (h : sq < 64) : bitMask sq < 2 ^ 64 := by
  rw [bitMask_eq h]; exact Nat.pow_lt_pow_right (by decide) h

/-- xor with a single bit flips exactly that bit. -/
theorem xor_bitMask_testBit {k : Nat} (a j : Nat) (h : k < 64) :
    (a ^^^ bitMask k).testBit j = (a.testBit j != decide (j = k)) := by
  rw [bitMask_eq h, Nat.testBit_xor, Nat.testBit_two_pow]
  cases a.testBit j <;> by_cases e : k = j <;> simp [e, eq_comm]

/-- Line-state extraction: bit `i` of `(x >>> off) &&& mask`. -/
theorem lineState_testBit (x off mask i : Nat) :
    ((x >>> off) &&& mask).testBit i = (x.testBit (off + i) && mask.testBit i) := by
  rw [Nat.testBit_and, Nat.testBit_shiftRight]

/-! ### `toBB` -/

theorem foldl_toBB (l : List Nat) (acc : Nat) :
    l.foldl (fun acc s => acc ||| (1 <<< s)) acc = acc ||| toBB l := by
  unfold toBB
  induction l generalizing acc with
  | nil => simp
  | cons s l ih =>
    simp only [List.foldl_cons]
    rw [ih (acc ||| 1 <<< s), ih (0 ||| 1 <<< s)]
    simp [Nat.or_assoc]

@[simp] theorem toBB_nil : toBB [] = 0 := rfl

theorem toBB_cons (s : Nat) (l : List Nat) : toBB (s :: l) = (1 <<< s) ||| toBB l := by
  show List.foldl _ _ _ = _
  rw [List.foldl_cons, foldl_toBB]; simp

theorem toBB_singleton (s : Nat) : toBB [s] = 1 <<< s := by
  rw [toBB_cons]; simp

theorem toBB_append (a b : List Nat) : toBB (a ++ b) = toBB a ||| toBB b := by
  induction a with
  | nil => simp
  | cons s a ih => simp [toBB_cons, ih, Nat.or_assoc]

/-- A square is set in `toBB l` iff it is listed. -/
theorem testBit_toBB (l : List Nat) (t : Nat) : (toBB l).testBit t = true ↔ t ∈ l := by
  induction l with
  | nil => simp
  | cons s l ih =>
    rw [toBB_cons, Nat.testBit_or, Nat.one_shiftLeft, Nat.testBit_two_pow, Bool.or_eq_true, ih]
    simp [eq_comm]

theorem toBB_lt (l : List Nat) (h : ∀ s ∈ l, s < 64) : toBB l < 2 ^ 64 := by
  induction l with
  | nil => simp
  | cons s l ih =>
    rw [toBB_cons, Nat.one_shiftLeft]
    apply Nat.or_lt_two_pow
    · exact Nat.pow_lt_pow_right (by decide) (h s (by simp))
    · exact ih fun x hx => h x (by simp [hx])

/-! ### Bounded universal quantification by structural recursion (cheap for `decide +kernel`) -/

/-- `p 0 && p 1 && … && p (n-1)`. -/
def allBelow : Nat → (Nat → Bool) → Bool
  | 0, _ => true
  | n + 1, p => p n && allBelow n p

theorem allBelow_spec {n : Nat} {p : Nat → Bool} (h : allBelow n p = true) : ∀ i, i < n → p i = true := by
  induction n with
  | zero => intro i hi; omega
  | succ n ih =>
    simp only [allBelow, Bool.and_eq_true] at h
    intro i hi
    by_cases e : i = n
    · subst e; exact h.1
    · exact ih h.2 i (by omega)

end Morlock.Proofs.Attack
