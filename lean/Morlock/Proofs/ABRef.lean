import Morlock.Proofs.ABLoop
import Morlock.Proofs.ABHeap
/-!
# Reference values for C13 / C03: plain negamax `V` and full-window quiescence `Q` over a `Game`

No window, no table, no move ordering, no state. `V` and `Q` range over `g.moves p` in generator order;
the searches range over `heapOrder (g.moves p) …`, a permutation of it (`ABHeap.heapOrder_perm`), and the
maximum does not depend on the order.
-/
namespace Morlock.Proofs.AB
open Morlock Morlock.Model Morlock.Model.Score Morlock.Spec
open Morlock.Props.C09
variable {P : Type}

/-- Value of a position without a legal move: mated or stalemate. -/
def terminal (g : Game P) (p : P) : Score := if g.inCheck p then negInfScore else zeroScore

/-- Full-window quiescence value, cut off (value 0) after `fuel` plies exactly like `Model.quiesce`:
    0 if drawn; mated/stalemate if no move is legal; otherwise the better of the static evaluation
    (stand pat) and the lifted values of the explored legal children. -/
def Q (g : Game P) (ex : P → Explore) : Nat → P → Score
  | 0, _ => zeroScore
  | fuel + 1, p =>
    if g.isDraw p then zeroScore
    else if !legalAny g p (g.moves p) then terminal g p
    else ((kids g ex p (g.moves p)).map fun c => lift (Q g ex fuel c)).foldl Score.max (heuristicScore (g.eval p))

/-- Leaf value of the main search. -/
def leafV (g : Game P) : LeafEval P → P → Score
  | .static, p => heuristicScore (g.eval p)
  | .quiescence ex fuel, p => Q g ex fuel p

/-- Mate distance a leaf value can carry. -/
def leafGrade : LeafEval P → Nat
  | .static => 0
  | .quiescence _ fuel => fuel

/-- Plain negamax to depth `d`: 0 if drawn (except at the root of the search, `g.ply p = rootPly`);
    mated/stalemate if no move is legal; the leaf value at depth 0; otherwise the maximum over the explored
    legal children of the lifted child value (`negInf` if none is explored). -/
def V (g : Game P) (ex : P → Explore) (le : LeafEval P) (rootPly : Int) : Nat → P → Score
  | 0, p => if !(g.ply p == rootPly) && g.isDraw p then zeroScore else leafV g le p
  | d + 1, p =>
    if !(g.ply p == rootPly) && g.isDraw p then zeroScore
    else if !legalAny g p (g.moves p) then terminal g p
    else ((kids g ex p (g.moves p)).map fun c => lift (V g ex le rootPly d c)).foldl Score.max negInfScore

/-- `pv` is a sequence of at most `n` explored legal moves playable from `p`. -/
def Path (g : Game P) (ex : P → Explore) : Nat → P → List Move → Prop
  | _, _, [] => True
  | 0, _, _ :: _ => False
  | n + 1, p, m :: rest => ∃ c, g.push p m = some c ∧ (ex p).pick m = true ∧ Path g ex n c rest

/-- `pv` is a principal variation of the depth-`n` negamax from `p`: a path each of whose moves attains
    the negamax value of the position it is played in. -/
def Principal (g : Game P) (ex : P → Explore) (le : LeafEval P) (rootPly : Int) : Nat → P → List Move → Prop
  | _, _, [] => True
  | 0, _, _ :: _ => False
  | n + 1, p, m :: rest => ∃ c, g.push p m = some c ∧ (ex p).pick m = true ∧
      lift (V g ex le rootPly n c) = V g ex le rootPly (n + 1) p ∧ Principal g ex le rootPly n c rest

/-- What the main search promises about the PV it returns together with score `s`: always a path; a
    principal variation whenever the score is the exact negamax value. -/
def PathOK (g : Game P) (ex : P → Explore) (le : LeafEval P) (rootPly : Int) (d : Nat) (p : P) (s : Score)
    (pv : List Move) : Prop :=
  Path g ex d p pv ∧ (s = V g ex le rootPly d p → Principal g ex le rootPly d p pv)

/-- The static evaluation key is the key of a (non-NaN) `float32`. -/
def EvalOk (g : Game P) : Prop := ∀ p, -2147483648 < g.eval p ∧ g.eval p < 2147483648

theorem okN_terminal (g : Game P) (p : P) : okN 0 (terminal g p) := by
  unfold terminal; split
  · exact okN_negInf
  · exact okN_zero

theorem clip_self (a b v : Int) : Clip a b v v := by unfold Clip; omega

/-- `foldl Score.max` in rank space. -/
theorem foldMax_spec {n : Nat} (l : List Score) (x : Score) (hx : okN n x) (hl : ∀ y ∈ l, okN n y) :
    okN n (l.foldl Score.max x) ∧ rank (l.foldl Score.max x) = maxR (rank x) (l.map rank) := by
  induction l generalizing x with
  | nil => simp [hx, maxR]
  | cons y ys ih =>
    have hy := hl y (by simp)
    obtain ⟨_, hok, hr⟩ := raise_spec hx hy
    have ih' := ih (Score.max x y) (by rw [scoreMax_eq]; exact hok) (fun z hz => hl z (by simp [hz]))
    simp only [List.foldl, List.map, maxR_cons]
    rw [scoreMax_eq] at ih' ⊢
    rw [hr] at ih'
    exact ih'

theorem maxR_perm {l₁ l₂ : List Int} (h : l₁.Perm l₂) (x : Int) : maxR x l₁ = maxR x l₂ := by
  unfold maxR
  exact h.foldl_eq' (fun a _ b _ z => by omega) x

theorem kidsR_perm (g : Game P) (ex : P → Explore) (p : P) (vc : P → Score) {l₁ l₂ : List Move} (h : l₁.Perm l₂) :
    (kidsR g ex p vc l₁).Perm (kidsR g ex p vc l₂) := by
  unfold kidsR kids
  exact (h.filterMap _).map _

theorem legalAny_perm (g : Game P) (p : P) {l₁ l₂ : List Move} (h : l₁.Perm l₂) :
    legalAny g p l₁ = legalAny g p l₂ := by
  unfold legalAny
  rw [Bool.eq_iff_iff]
  simp only [List.any_eq_true]
  constructor
  · rintro ⟨m, hm, e⟩; exact ⟨m, h.mem_iff.1 hm, e⟩
  · rintro ⟨m, hm, e⟩; exact ⟨m, h.mem_iff.2 hm, e⟩

theorem kids_map_rank (g : Game P) (ex : P → Explore) (p : P) (vc : P → Score) (l : List Move) :
    ((kids g ex p l).map fun c => lift (vc c)).map rank = kidsR g ex p vc l := by
  simp [kidsR, List.map_map, Function.comp_def]

/-- Grade of the quiescence reference value. -/
theorem Q_ok {g : Game P} (hev : EvalOk g) (ex : P → Explore) :
    ∀ fuel p, fuel ≤ 127 → okN fuel (Q g ex fuel p) := by
  intro fuel
  induction fuel with
  | zero => intro p _; exact okN_zero
  | succ fuel ih =>
    intro p hf
    unfold Q
    split
    · exact okN_mono okN_zero (by omega)
    · split
      · exact okN_mono (okN_terminal g p) (by omega)
      · refine (foldMax_spec _ _ (okN_mono (okN_heuristic (hev p).1 (hev p).2) (by omega)) ?_).1
        intro y hy
        simp only [List.mem_map] at hy
        obtain ⟨c, _, rfl⟩ := hy
        exact okN_lift (ih c (by omega)) (by omega)

theorem leafV_ok {g : Game P} (hev : EvalOk g) (le : LeafEval P) (p : P) (h : leafGrade le ≤ 127) :
    okN (leafGrade le) (leafV g le p) := by
  cases le with
  | static => exact okN_heuristic (hev p).1 (hev p).2
  | quiescence ex fuel => exact Q_ok hev ex fuel p h

/-- Grade of the negamax reference value. -/
theorem V_ok {g : Game P} (hev : EvalOk g) (ex : P → Explore) (le : LeafEval P) (rootPly : Int) (K : Nat)
    (hK : leafGrade le ≤ K) :
    ∀ d p, K + d ≤ 127 → okN (K + d) (V g ex le rootPly d p) := by
  intro d
  induction d with
  | zero =>
    intro p hd
    unfold V
    split
    · exact okN_mono okN_zero (by omega)
    · exact okN_mono (leafV_ok hev le p (by omega)) (by omega)
  | succ d ih =>
    intro p hd
    unfold V
    split
    · exact okN_mono okN_zero (by omega)
    · split
      · exact okN_mono (okN_terminal g p) (by omega)
      · refine (foldMax_spec _ _ (okN_mono okN_negInf (by omega)) ?_).1
        intro y hy
        simp only [List.mem_map] at hy
        obtain ⟨c, _, rfl⟩ := hy
        have h1 : okN (K + d) (V g ex le rootPly d c) := ih c (by omega)
        have h2 : okN (K + d + 1) (lift (V g ex le rootPly d c)) := okN_lift h1 (by omega)
        exact h2

/-- Rank of `Q` at a node with a legal move. -/
theorem rank_Q_succ {g : Game P} (hev : EvalOk g) (ex : P → Explore) (fuel : Nat) (p : P) (hf : fuel + 1 ≤ 127)
    (hd : g.isDraw p = false) (hl : legalAny g p (g.moves p) = true) :
    rank (Q g ex (fuel + 1) p) =
      maxR (rank (heuristicScore (g.eval p))) (kidsR g ex p (Q g ex fuel) (g.moves p)) := by
  rw [Q]
  simp only [hd, hl, Bool.false_eq_true, if_false, Bool.not_true]
  have := (foldMax_spec (n := fuel + 1) ((kids g ex p (g.moves p)).map fun c => lift (Q g ex fuel c))
    (heuristicScore (g.eval p)) (okN_mono (okN_heuristic (hev p).1 (hev p).2) (by omega)) (by
      intro y hy
      simp only [List.mem_map] at hy
      obtain ⟨c, _, rfl⟩ := hy
      exact okN_lift (Q_ok hev ex fuel c (by omega)) (by omega))).2
  rw [this, kids_map_rank]

/-- Rank of `V` at an inner node with a legal move. -/
theorem rank_V_succ {g : Game P} (hev : EvalOk g) (ex : P → Explore) (le : LeafEval P) (rootPly : Int) (K : Nat)
    (hK : leafGrade le ≤ K) (d : Nat) (p : P) (hf : K + d + 1 ≤ 127)
    (hd : (!(g.ply p == rootPly) && g.isDraw p) = false) (hl : legalAny g p (g.moves p) = true) :
    rank (V g ex le rootPly (d + 1) p) =
      maxR (-1099511627776) (kidsR g ex p (V g ex le rootPly d) (g.moves p)) := by
  rw [V]
  simp only [hd, hl, Bool.false_eq_true, if_false, Bool.not_true]
  have := (foldMax_spec (n := K + d + 1) ((kids g ex p (g.moves p)).map fun c => lift (V g ex le rootPly d c))
    negInfScore (okN_mono okN_negInf (by omega)) (by
      intro y hy
      simp only [List.mem_map] at hy
      obtain ⟨c, _, rfl⟩ := hy
      exact okN_lift (V_ok hev ex le rootPly K hK d c (by omega)) (by omega))).2
  rw [this, kids_map_rank, rank_negInf]

end Morlock.Proofs.AB
