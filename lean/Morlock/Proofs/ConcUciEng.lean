import Morlock.Proofs.ConcUciReady
/-!
# UCI driver model: engine-side invariants (mutex, `e.active`, indices), shutdown flags, and what a
quiescent state looks like
-/
namespace Morlock.Model.UciConc

/-- the loop is inside `e.Halt` with `e.mu` held -/
def LPc.holdsMu : LPc → Bool
  | .haltAwait _ _ | .haltQuit _ _ | .haltRead _ _ | .haltUnlock _ _ => true
  | _ => false

/-- between the `ensureInactive` of a `go` and `Analyze`: no search is registered with the engine -/
def LPc.eIdle : LPc → Bool
  | .goStart _ | .bookStore _ | .analyze _ _ => true
  | _ => false

/-- the search the loop pc refers to: the one `e.active` points to -/
def LPc.sidx? : LPc → Option Nat
  | .haltAwait _ j | .haltQuit _ j | .haltRead _ j => some j
  | .goStore _ _ j | .goSpawn _ _ j => some j
  | _ => none

/-- a `quit` or an EOF was consumed -/
def quitSeen : List Ev → Bool
  | [] => false
  | .consume .quit :: _ => true
  | .consume .eof :: _ => true
  | _ :: es => quitSeen es

/-- the loop is on its way out (`return` with the deferred calls) -/
def LPc.exitPath : LPc → Bool
  | .ensureStore .exit => true
  | .haltLock (.ensure .exit) | .haltAwait (.ensure .exit) _ | .haltQuit (.ensure .exit) _
  | .haltRead (.ensure .exit) _ | .haltUnlock (.ensure .exit) _ => true
  | .waitFwd | .closeOut | .closeDriver | .finished => true
  | _ => false

end Morlock.Model.UciConc

namespace Morlock.Proofs.ConcUci
open Morlock.Model.UciConc

structure EngInv (s : State) : Prop where
  emuOk : s.emu = s.loop.holdsMu
  idle : s.loop.eIdle = true → s.eactive = none
  sidxOk : ∀ j, s.loop.sidx? = some j → s.eactive = some j
  eidx : ∀ j, s.eactive = some j → j < s.srch.length
  fidx : ∀ f ∈ s.fwds, f.sidx < s.srch.length

theorem engInv_init (cmds : List Cmd) (pcap : Nat) : EngInv (init cmds pcap) := by
  refine ⟨rfl, ?_, ?_, ?_, ?_⟩ <;> simp [init, LPc.eIdle, LPc.sidx?]

/-- steps that keep the engine fields, the number of searches and the forwarders' search indices, and the
loop's engine-related classification -/
theorem engInv_frame {s s' : State} (h : EngInv s) (h1 : s'.emu = s.emu) (h2 : s'.eactive = s.eactive)
    (h3 : s'.srch.length = s.srch.length) (h4 : ∀ f ∈ s'.fwds, ∃ f' ∈ s.fwds, f.sidx = f'.sidx)
    (h7 : s'.loop.holdsMu = s.loop.holdsMu) (h8 : s'.loop.eIdle = true → s.loop.eIdle = true)
    (h9 : ∀ j, s'.loop.sidx? = some j → s.loop.sidx? = some j) : EngInv s' := by
  obtain ⟨a1, a2, a3, a5, a6⟩ := h
  refine ⟨by rw [h1, h7]; exact a1, fun hh => by rw [h2]; exact a2 (h8 hh),
    fun j hj => by rw [h2]; exact a3 j (h9 j hj), fun j hj => by rw [h3]; exact a5 j (h2 ▸ hj), ?_⟩
  intro f hf; obtain ⟨f', hf', he⟩ := h4 f hf; rw [he, h3]; exact a6 f' hf'

theorem fwds_same {s s' : State} (h : s'.fwds = s.fwds) : ∀ f ∈ s'.fwds, ∃ f' ∈ s.fwds, f.sidx = f'.sidx := by
  intro f hf; exact ⟨f, h ▸ hf, rfl⟩

@[simp] theorem dispatch_holdsMu (c : Cmd) : (dispatch c).holdsMu = false := by cases c <;> rfl
@[simp] theorem dispatch_eIdle (c : Cmd) : (dispatch c).eIdle = false := by cases c <;> rfl
@[simp] theorem dispatch_sidx (c : Cmd) : (dispatch c).sidx? = none := by cases c <;> rfl
@[simp] theorem afterHalt_holdsMu (k : HaltK) (res : Option Nat) : (afterHalt .repaired k res).holdsMu = false := by
  cases k with
  | ensure a => cases a <;> rfl
  | stop i => cases res <;> rfl
@[simp] theorem afterHalt_sidx (k : HaltK) (res : Option Nat) : (afterHalt .repaired k res).sidx? = none := by
  cases k with
  | ensure a => cases a <;> rfl
  | stop i => cases res <;> rfl

theorem engInv_loop (s : State) (c : Sel) (h : EngInv s) : EngInv (stepLoop .repaired s c) := by
  unfold stepLoop
  cases hpc : s.loop <;> simp only
  all_goals (repeat' split)
  all_goals (first
    | exact h
    | (refine engInv_frame h ?_ ?_ ?_ (fwds_same ?_) ?_ ?_ ?_ <;> simp [hpc, LPc.holdsMu, LPc.eIdle, LPc.sidx?]; done)
    | (cases ‹Cmd› <;> refine engInv_frame h ?_ ?_ ?_ (fwds_same ?_) ?_ ?_ ?_ <;>
        simp [hpc, dispatch, LPc.holdsMu, LPc.eIdle, LPc.sidx?]; done)
    | skip)
  · -- haltLock, no active search: the mutex is taken
    obtain ⟨a1, a2, a3, a5, a6⟩ := h
    refine ⟨rfl, fun _ => by assumption, by simp [LPc.sidx?], a5, a6⟩
  · -- haltLock, search `j` is active
    obtain ⟨a1, a2, a3, a5, a6⟩ := h
    refine ⟨rfl, by simp [LPc.eIdle], ?_, a5, a6⟩
    intro j hj; simp [LPc.sidx?] at hj; subst hj; assumption
  · -- haltUnlock: `e.active = nil`, mutex released
    obtain ⟨a1, a2, a3, a5, a6⟩ := h
    refine ⟨by simp, fun _ => rfl, by simp, by simp, a6⟩
  · -- Analyze launches search `srch.length`
    obtain ⟨a1, a2, a3, a5, a6⟩ := h
    refine ⟨by simpa [LPc.holdsMu, hpc] using a1, by simp [LPc.eIdle], ?_, ?_, ?_⟩
    · intro j hj; simp [LPc.sidx?] at hj; subst hj; rfl
    · intro j hj; simp at hj; subst hj; simp
    · intro f hf; have := a6 f hf; simp; omega
  all_goals
    -- goSpawn: the new forwarder reads from the search `Analyze` launched
    obtain ⟨a1, a2, a3, a5, a6⟩ := h
    have hj := a5 _ (a3 _ (by rw [hpc]; rfl))
    refine ⟨by simpa [LPc.holdsMu, hpc] using a1, by simp [LPc.eIdle], by simp [LPc.sidx?], a5, ?_⟩
    intro f hf
    simp at hf
    rcases hf with hf | hf
    · exact a6 f hf
    · subst hf; exact hj

theorem fwds_set {l : List Fwd} {j : Nat} {f : Fwd} (hj : l[j]? = some f) (f' : Fwd) (hs : f'.sidx = f.sidx) :
    ∀ g ∈ l.set j f', ∃ g' ∈ l, g.sidx = g'.sidx := by
  intro g hg
  rcases List.mem_or_eq_of_mem_set hg with hg | hg
  · exact ⟨g, hg, rfl⟩
  · exact ⟨f, List.mem_of_getElem? hj, by rw [hg, hs]⟩

theorem engInv_fwd (s : State) (j : Nat) (h : EngInv s) : EngInv (stepFwd .repaired s j) := by
  unfold stepFwd
  cases hj : s.fwds[j]? with
  | none => exact h
  | some f =>
    simp only
    cases hpc : f.pc <;> simp only
    all_goals (repeat' split)
    all_goals (first
      | exact h
      | (refine engInv_frame h ?_ ?_ ?_ (fwds_set hj _ rfl) ?_ ?_ ?_ <;> first | rfl | (simp; done)))

theorem engInv_step (s : State) (a : Act) (h : EngInv s) : EngInv (step s a) := by
  cases a with
  | loop c => exact engInv_loop s c h
  | fwd j => exact engInv_fwd s j h
  | timerSend j =>
    simp only [step, stepWith, stepTimerSend]
    repeat' split
    all_goals first | exact h | exact engInv_frame h rfl rfl rfl (fwds_same rfl) rfl id (fun _ => id)
  | timerDrop j =>
    simp only [step, stepWith, stepTimerDrop]
    repeat' split
    all_goals first | exact h | exact engInv_frame h rfl rfl rfl (fwds_same rfl) rfl id (fun _ => id)
  | searchIter j =>
    simp only [step, stepWith, stepIter]
    repeat' split
    all_goals first | exact h | exact engInv_frame h rfl rfl (by simp) (fwds_same rfl) rfl id (fun _ => id)
  | searchExit j =>
    simp only [step, stepWith, stepExit]
    repeat' split
    all_goals first | exact h | exact engInv_frame h rfl rfl (by simp) (fwds_same rfl) rfl id (fun _ => id)

theorem engInv_run (sched : List Act) (s : State) (h : EngInv s) : EngInv (run s sched) :=
  run_induction engInv_step sched s h

/-! ## shutdown flags -/

structure ShutInv (s : State) : Prop where
  closedOk : s.closed = true → s.loop = .finished
  outOk : s.loop.afterClose = true → s.outClosed = true
  doneClosed : s.loop = .finished → s.closed = true

theorem shutInv_init (cmds : List Cmd) (pcap : Nat) : ShutInv (init cmds pcap) := by
  constructor <;> simp [init, LPc.afterClose]

theorem dispatch_ne_finished (c : Cmd) : dispatch c ≠ .finished := by cases c <;> simp [dispatch]
theorem afterHalt_ne_finished (k : HaltK) (res : Option Nat) : afterHalt .repaired k res ≠ .finished := by
  cases k with
  | ensure a => cases a <;> simp [afterHalt, Cfg.repaired]
  | stop i => cases res <;> simp [afterHalt]

theorem shutInv_step (s : State) (a : Act) (h : ShutInv s) : ShutInv (step s a) := by
  obtain ⟨h1, h2, h3⟩ := h
  cases a with
  | loop c =>
    simp only [step, stepWith, stepLoop]
    cases hpc : s.loop <;> simp only [hpc] at h1 h2 h3 ⊢
    all_goals (repeat' split)
    all_goals (first
      | exact ⟨by rw [hpc]; exact h1, by rw [hpc]; exact h2, by rw [hpc]; exact h3⟩
      | (constructor <;> first
          | (simp [*]; done)
          | (simp [dispatch_ne_finished, afterHalt_ne_finished]; done)
          | (simp_all [LPc.afterClose]; done)))
  | fwd j =>
    simp only [step, stepWith, stepFwd]
    repeat' split
    all_goals first | exact ⟨h1, h2, h3⟩ | (constructor <;> simpa using ‹_›)
  | timerSend j =>
    simp only [step, stepWith, stepTimerSend]
    repeat' split
    all_goals exact ⟨h1, h2, h3⟩
  | timerDrop j =>
    simp only [step, stepWith, stepTimerDrop]
    repeat' split
    all_goals exact ⟨h1, h2, h3⟩
  | searchIter j =>
    simp only [step, stepWith, stepIter]
    repeat' split
    all_goals exact ⟨h1, h2, h3⟩
  | searchExit j =>
    simp only [step, stepWith, stepExit]
    repeat' split
    all_goals exact ⟨h1, h2, h3⟩

theorem shutInv_run (sched : List Act) (s : State) (h : ShutInv s) : ShutInv (run s sched) :=
  run_induction shutInv_step sched s h

/-! ## a finished searcher has closed `init` -/

def SrchInv (s : State) : Prop := ∀ x ∈ s.srch, x.done = true → x.init = true

theorem srchInv_init (cmds : List Cmd) (pcap : Nat) : SrchInv (init cmds pcap) := by
  intro x hx; simp [init] at hx

theorem searchAt_mem_or_default (s : State) (j : Nat) : searchAt s j ∈ s.srch ∨ searchAt s j = default := by
  unfold searchAt
  rw [List.getD_eq_getElem?_getD]
  cases h : s.srch[j]? with
  | none => right; rfl
  | some x => left; exact List.mem_of_getElem? h

theorem srchInv_set {s : State} (h : SrchInv s) (j : Nat) (x : Search) (hx : x.done = true → x.init = true) :
    ∀ y ∈ s.srch.set j x, y.done = true → y.init = true := by
  intro y hy
  rcases List.mem_or_eq_of_mem_set hy with hy | hy
  · exact h y hy
  · rw [hy]; exact hx

theorem srchInv_at {s : State} (h : SrchInv s) (j : Nat) : (searchAt s j).done = true → (searchAt s j).init = true := by
  rcases searchAt_mem_or_default s j with hm | hm
  · exact h _ hm
  · rw [hm]; intro hd; cases hd

theorem srchInv_step (s : State) (a : Act) (h : SrchInv s) : SrchInv (step s a) := by
  cases a with
  | loop c =>
    simp only [step, stepWith, stepLoop]
    cases hpc : s.loop <;> simp only
    all_goals (repeat' split)
    all_goals (first
      | exact h
      | (unfold SrchInv; simp only [sendOut_srch]; exact h)
      | skip)
    · exact srchInv_set h _ _ (srchInv_at h _)
    · intro x hx; simp at hx
      rcases hx with hx | hx
      · exact h x hx
      · subst hx; intro hd; cases hd
  | fwd j =>
    simp only [step, stepWith, stepFwd]
    repeat' split
    all_goals (first
      | exact h
      | (unfold SrchInv; simp only [sendOut_srch]; exact h)
      | exact srchInv_set h _ _ (srchInv_at h _))
  | timerSend j =>
    simp only [step, stepWith, stepTimerSend]
    repeat' split
    all_goals exact h
  | timerDrop j =>
    simp only [step, stepWith, stepTimerDrop]
    repeat' split
    all_goals exact h
  | searchIter j =>
    simp only [step, stepWith, stepIter]
    repeat' split
    all_goals first | exact h | exact srchInv_set h _ _ (fun _ => rfl)
  | searchExit j =>
    simp only [step, stepWith, stepExit]
    repeat' split
    all_goals first | exact h | exact srchInv_set h _ _ (fun _ => rfl)

theorem srchInv_run (sched : List Act) (s : State) (h : SrchInv s) : SrchInv (run s sched) :=
  run_induction srchInv_step sched s h

/-! ## after `quit`/EOF the loop is on its way out -/

def QuitInv (s : State) : Prop := quitSeen s.log = true → s.loop.exitPath = true

theorem quitInv_init (cmds : List Cmd) (pcap : Nat) : QuitInv (init cmds pcap) := by
  intro h; simp [init, quitSeen] at h

@[simp] theorem quitSeen_send (l : Line) (es : List Ev) : quitSeen (.send l :: es) = quitSeen es := rfl
@[simp] theorem quitSeen_sendClosed (l : Line) (es : List Ev) : quitSeen (.sendClosed l :: es) = quitSeen es := rfl
@[simp] theorem quitSeen_commit (i l : Nat) (es : List Ev) : quitSeen (.commit i l :: es) = quitSeen es := rfl
@[simp] theorem quitSeen_sendOut (s : State) (l : Line) : quitSeen (sendOut s l).log = quitSeen s.log := by
  unfold sendOut; split <;> rfl

theorem quitInv_frame {s s' : State} (h : QuitInv s) (hl : quitSeen s'.log = quitSeen s.log)
    (hp : s.loop.exitPath = true → s'.loop.exitPath = true) : QuitInv s' := by
  intro hq; rw [hl] at hq; exact hp (h hq)

theorem quitInv_step (s : State) (a : Act) (h : QuitInv s) : QuitInv (step s a) := by
  cases a with
  | loop c =>
    simp only [step, stepWith, stepLoop]
    cases hpc : s.loop <;> simp only
    all_goals (repeat' split)
    all_goals (first
      | exact h
      | (refine quitInv_frame h ?_ ?_ <;> simp [hpc, LPc.exitPath]; done)
      | (refine quitInv_frame h ?_ ?_ <;> first | (simp; done) |
          (rw [hpc]; cases ‹HaltK› <;> (try cases ‹After›) <;> (try cases ‹Option Nat›) <;>
            simp [LPc.exitPath, afterHalt, Cfg.repaired]; done))
      | skip)
    · -- a command is consumed at `select`
      intro hq
      cases ‹Cmd› <;> simp [quitSeen, dispatch, LPc.exitPath] at hq ⊢
      all_goals (have := h hq; rw [hpc] at this; simp [LPc.exitPath] at this)
    · refine quitInv_frame h rfl ?_
      rw [hpc]; cases ‹After› <;> simp [LPc.exitPath]
  | fwd j =>
    simp only [step, stepWith, stepFwd]
    repeat' split
    all_goals first | exact h | (refine quitInv_frame h ?_ ?_ <;> simp)
  | timerSend j =>
    simp only [step, stepWith, stepTimerSend]
    repeat' split
    all_goals first | exact h | exact quitInv_frame h rfl id
  | timerDrop j =>
    simp only [step, stepWith, stepTimerDrop]
    repeat' split
    all_goals first | exact h | exact quitInv_frame h rfl id
  | searchIter j =>
    simp only [step, stepWith, stepIter]
    repeat' split
    all_goals first | exact h | exact quitInv_frame h rfl id
  | searchExit j =>
    simp only [step, stepWith, stepExit]
    repeat' split
    all_goals first | exact h | exact quitInv_frame h rfl id

theorem quitInv_run (sched : List Act) (s : State) (h : QuitInv s) : QuitInv (run s sched) :=
  run_induction quitInv_step sched s h

end Morlock.Proofs.ConcUci
