import Morlock.Proofs.TurochampMaterial
import Morlock.Proofs.MirrorModelMoves
import Morlock.Props.C06Queries
/-!
# TUROCHAMP is colour-blind, component by component

`q` represents the colour-swapped mirror image of the board `p` represents (`Rep q (mirrorBoard b)`). Then for the other
colour on `q`: the material, `Material.Evaluate`, the castling-right term, the check term, the defenders of every
(mirrored) square, the king-safety count, the pawn credit of every (mirrored) pawn are what they are for the colour on `p`.

`PositionPlay` itself sums float32 terms in the order of the squares (pawns, R/N/B) and of the mobility map; the mirror
changes these orders, and the rounded sum is order dependent (witness in the report): the parts are equal, the float32
value is equal only up to the order of summation.
-/
namespace Morlock.Proofs.Turochamp
open Morlock Morlock.Model Morlock.Model.Flt Morlock.Model.Turochamp Morlock.Proofs.Gen Morlock.Proofs.Mirror
open Morlock.Proofs.Material

/-! ## counting over the 64 squares is mirror invariant -/

theorem range64_mirror_perm : ((List.range 64).map Spec.mirrorSq).Perm (List.range 64) := by decide +kernel

theorem countP_mirror (f : Nat → Bool) :
    (List.range 64).countP (fun s => f (Spec.mirrorSq s)) = (List.range 64).countP f := by
  have h1 : (List.range 64).countP (fun s => f (Spec.mirrorSq s)) = ((List.range 64).map Spec.mirrorSq).countP f := by
    rw [List.countP_map]; rfl
  rw [h1]
  exact range64_mirror_perm.countP_eq f

/-- two bitboards that are mirror images of each other have the same population -/
theorem popCount_mirror {x y : Nat} (h : ∀ t, t < 64 → y.testBit t = x.testBit (Spec.mirrorSq t)) :
    popCount y = popCount x := by
  rw [popCount_eq, popCount_eq, ← countP_mirror (fun i => x.testBit i)]
  exact countP_range_congr h

theorem kqrnb_eq' : kqrnb = [.king, .queen, .rook, .knight, .bishop] := by decide

theorem opp_opp (c : Color) : c.opp.opp = c := by cases c <;> rfl

theorem mirrorBoard_eq_iff (b : Board) (sq : Nat) (c : Color) (k : Piece) :
    mirrorBoard b sq = some (c.opp, k) ↔ b (Spec.mirrorSq sq) = some (c, k) := by
  unfold mirrorBoard
  cases hb : b (Spec.mirrorSq sq) with
  | none => simp
  | some v =>
    obtain ⟨c', k'⟩ := v
    cases c <;> cases c' <;> simp [Color.opp]

theorem colAt_mirrorBoard (b : Board) (sq : Nat) (c : Color) :
    colAt (mirrorBoard b) sq c.opp = colAt b (Spec.mirrorSq sq) c := by
  unfold colAt mirrorBoard
  cases hb : b (Spec.mirrorSq sq) with
  | none => rfl
  | some v =>
    obtain ⟨c', k'⟩ := v
    cases c <;> cases c' <;> rfl

theorem occB_mirrorBoard (b : Board) (t : Nat) : occB (mirrorBoard b) (Spec.mirrorSq t) = occB b t := by
  unfold occB mirrorBoard
  rw [Spec.mirrorSq_mirrorSq]
  cases b t with
  | none => rfl
  | some v => rfl

/-- the piece sets of the mirrored position are the mirror images of the piece sets -/
theorem pieces_mirror {p q : Position} {b : Board} (hp : Rep p b) (hq : Rep q (mirrorBoard b)) (c : Color) (k : Piece)
    {t : Nat} (ht : t < 64) : (q.pieces c.opp k).testBit t = (p.pieces c k).testBit (Spec.mirrorSq t) := by
  have ht' := Spec.mirrorSq_lt ht
  by_cases hk : k = .none
  · subst hk
    rw [hq.all _ _ ht, hp.all _ _ ht', colAt_mirrorBoard]
  · rw [hq.one _ _ _ hk ht, hp.one _ _ _ hk ht']
    exact decide_eq_decide.mpr (mirrorBoard_eq_iff b t c k)

theorem popCount_pieces_mirror {p q : Position} {b : Board} (hp : Rep p b) (hq : Rep q (mirrorBoard b)) (c : Color)
    (k : Piece) : popCount (q.pieces c.opp k) = popCount (p.pieces c k) :=
  popCount_mirror fun _ ht => pieces_mirror hp hq c k ht

/-! ## material -/

theorem mat2_mirror {p q : Position} {b : Board} (hp : Rep p b) (hq : Rep q (mirrorBoard b)) (c : Color) :
    mat2 q c.opp = mat2 p c := by
  unfold mat2 material2
  simp only [popCount_pieces_mirror hp hq]

/-- **material_mirror.** -/
theorem material_mirror {p q : Position} {b : Board} (hp : Rep p b) (hq : Rep q (mirrorBoard b)) (c : Color) :
    material q c.opp = material p c := by
  rw [material_eq, material_eq, mat2_mirror hp hq]

/-- **`Material.Evaluate` is colour-blind.** -/
theorem materialEvaluate_mirror {p q : Position} {b : Board} (hp : Rep p b) (hq : Rep q (mirrorBoard b)) (turn : Color) :
    materialEvaluate q turn.opp = materialEvaluate p turn := by
  unfold materialEvaluate
  have h2 := material_mirror hp hq turn.opp
  rw [material_mirror hp hq turn, h2]

/-! ## castling right and check terms -/

theorem bne_zero_eq (n : Nat) : (n != 0) = decide (n ≠ 0) := by
  by_cases h : n = 0 <;> simp [h]

theorem and_or_ne_zero (c x y : Nat) : (c &&& (x ||| y) != 0) = (c &&& x != 0 || c &&& y != 0) := by
  rw [Nat.and_or_distrib_left, bne_zero_eq, bne_zero_eq, bne_zero_eq]
  have h := @Nat.or_eq_zero_iff (c &&& x) (c &&& y)
  by_cases h1 : c &&& x = 0 <;> by_cases h2 : c &&& y = 0
  · have : c &&& x ||| c &&& y = 0 := h.mpr ⟨h1, h2⟩
    simp [h1, h2]
  · have : c &&& x ||| c &&& y ≠ 0 := fun e => h2 (h.mp e).2
    simp [h1, h2]
  · have : c &&& x ||| c &&& y ≠ 0 := fun e => h1 (h.mp e).1
    simp [h1, h2]
  · have : c &&& x ||| c &&& y ≠ 0 := fun e => h1 (h.mp e).1
    simp [h1, h2]

/-- the castling-right term -/
theorem castleRight_mirror {p q : Position} (turn : Color)
    (hwk : (q.castling &&& wK != 0) = (p.castling &&& bK != 0))
    (hwq : (q.castling &&& wQ != 0) = (p.castling &&& bQ != 0))
    (hbk : (q.castling &&& bK != 0) = (p.castling &&& wK != 0))
    (hbq : (q.castling &&& bQ != 0) = (p.castling &&& wQ != 0)) :
    (q.castling &&& castlingRights turn.opp != 0) = (p.castling &&& castlingRights turn != 0) := by
  cases turn
  · show (q.castling &&& (bK ||| bQ) != 0) = (p.castling &&& (wK ||| wQ) != 0)
    rw [and_or_ne_zero, and_or_ne_zero, hbk, hbq]
  · show (q.castling &&& (wK ||| wQ) != 0) = (p.castling &&& (bK ||| bQ) != 0)
    rw [and_or_ne_zero, and_or_ne_zero, hwk, hwq]

/-- the check term: `c` is in check on `p` iff the other colour is in check on the mirrored position -/
theorem isChecked_mirror {p q : Position} {t : Color} (hp : WF p t) {b : Board} (hb : Rep p b)
    (hq : Rep q (mirrorBoard b)) (habs : abs q t.opp = Spec.mirror (abs p t)) (c : Color) :
    q.isChecked c.opp = p.isChecked c := by
  rw [Props.C06Queries.isChecked_eq hq t.opp c.opp, Props.C06Queries.isChecked_eq hb t c, habs, absColor_opp']
  exact Spec.inCheck_mirror ((sym_abs hp).kings _)

/-! ## attack sets -/

theorem occB_mirror' (b : Board) (t : Nat) : occB b (Spec.mirrorSq t) = occB (mirrorBoard b) t := by
  have := occB_mirrorBoard b (Spec.mirrorSq t)
  rw [Spec.mirrorSq_mirrorSq] at this
  exact this.symm

/-- membership in officer target sets, both directions -/
theorem mem_officerTargets_mirror_iff (b : Board) (k : Spec.Kind) {s : Nat} (hs : s < 64) (u : Nat) :
    u ∈ Spec.officerTargets (occB (mirrorBoard b)) k (Spec.mirrorSq s) ↔
      Spec.mirrorSq u ∈ Spec.officerTargets (occB b) k s := by
  constructor
  · intro h
    have := Spec.mem_officerTargets_mirror (occ := occB (mirrorBoard b)) (occ' := occB b)
      (fun t _ => occB_mirror' b t) k (Spec.mirrorSq_lt hs) h
    rwa [Spec.mirrorSq_mirrorSq] at this
  · intro h
    have := Spec.mem_officerTargets_mirror (occ := occB b) (occ' := occB (mirrorBoard b))
      (fun t _ => occB_mirrorBoard b t) k hs h
    rwa [Spec.mirrorSq_mirrorSq] at this

theorem toBB_targets_mirror (b : Board) (k : Spec.Kind) {s : Nat} (hs : s < 64) (u : Nat) :
    (Attack.toBB (Spec.officerTargets (occB (mirrorBoard b)) k (Spec.mirrorSq s))).testBit u =
      (Attack.toBB (Spec.officerTargets (occB b) k s)).testBit (Spec.mirrorSq u) := by
  rw [Bool.eq_iff_iff, Attack.testBit_toBB, Attack.testBit_toBB]
  exact mem_officerTargets_mirror_iff b k hs u

theorem kqrnb_ne {k : Piece} (hk : k ∈ kqrnb) : k ≠ .none ∧ k ≠ .pawn := by
  rw [kqrnb_eq'] at hk
  simp only [List.mem_cons, List.not_mem_nil, or_false] at hk
  rcases hk with rfl | rfl | rfl | rfl | rfl <;> simp

/-- `Attackboard(...) & pos.Piece(turn, k)` on the mirrored square of the mirrored position is the mirror image -/
theorem officerHits_mirror {p q : Position} {b : Board} (hp : Rep p b) (hq : Rep q (mirrorBoard b)) (c : Color)
    {k : Piece} (hk : k ∈ kqrnb) {sq : Nat} (hsq : sq < 64) :
    ∃ x y, officerHits p c sq k = some x ∧ officerHits q c.opp (Spec.mirrorSq sq) k = some y ∧
      x < 2 ^ 64 ∧ y < 2 ^ 64 ∧ ∀ u, u < 64 → y.testBit u = x.testBit (Spec.mirrorSq u) := by
  obtain ⟨h1, h2⟩ := kqrnb_ne hk
  refine ⟨Attack.toBB (Spec.officerTargets (occB b) (kindOf k) sq) &&& p.pieces c k,
    Attack.toBB (Spec.officerTargets (occB (mirrorBoard b)) (kindOf k) (Spec.mirrorSq sq)) &&& q.pieces c.opp k,
    ?_, ?_, ?_, ?_, ?_⟩
  · unfold officerHits; rw [attackboard_of_rep hp hsq h1 h2]; rfl
  · unfold officerHits; rw [attackboard_of_rep hq (Spec.mirrorSq_lt hsq) h1 h2]; rfl
  · exact Nat.lt_of_le_of_lt Nat.and_le_right (hp.piecesLt c k)
  · exact Nat.lt_of_le_of_lt Nat.and_le_right (hq.piecesLt c.opp k)
  · intro u hu
    rw [Nat.testBit_and, Nat.testBit_and, toBB_targets_mirror b (kindOf k) hsq u, pieces_mirror hp hq c k hu]

theorem zero_iff_testBit {x : Nat} (hx : x < 2 ^ 64) : x = 0 ↔ ∀ u, u < 64 → x.testBit u = false := by
  constructor
  · intro h u _; rw [h]; exact Nat.zero_testBit u
  · intro h
    apply Nat.eq_of_testBit_eq
    intro i
    rw [Nat.zero_testBit]
    by_cases hi : i < 64
    · exact h i hi
    · exact Attack.testBit_ge_false hx (by omega)

theorem mirror_zero_iff {x y : Nat} (hx : x < 2 ^ 64) (hy : y < 2 ^ 64)
    (h : ∀ u, u < 64 → y.testBit u = x.testBit (Spec.mirrorSq u)) : y = 0 ↔ x = 0 := by
  rw [zero_iff_testBit hx, zero_iff_testBit hy]
  constructor
  · intro hy0 u hu
    have := hy0 _ (Spec.mirrorSq_lt hu)
    rw [h _ (Spec.mirrorSq_lt hu), Spec.mirrorSq_mirrorSq] at this
    exact this
  · intro hx0 u hu
    rw [h u hu]
    exact hx0 _ (Spec.mirrorSq_lt hu)

theorem popCount_zero : popCount 0 = 0 := by decide

theorem add_popCount_if (d bb : Nat) : (if bb != 0 then d + popCount bb else d) = d + popCount bb := by
  by_cases h : bb = 0
  · subst h; simp [popCount_zero]
  · simp [h]

theorem defendersLoop_mirror {p q : Position} {b : Board} (hp : Rep p b) (hq : Rep q (mirrorBoard b)) (c : Color)
    {sq : Nat} (hsq : sq < 64) : ∀ (l : List Piece) (d : Nat), (∀ k ∈ l, k ∈ kqrnb) →
    defendersLoop q c.opp (Spec.mirrorSq sq) l d = defendersLoop p c sq l d
  | [], _, _ => rfl
  | k :: rest, d, hl => by
    obtain ⟨x, y, hx, hy, _, _, hxy⟩ := officerHits_mirror hp hq c (hl k (List.mem_cons_self ..)) hsq
    unfold defendersLoop
    rw [hx, hy, Option.bind_some, Option.bind_some, add_popCount_if, add_popCount_if, popCount_mirror hxy]
    exact defendersLoop_mirror hp hq c hsq rest _ (fun k hk => hl k (List.mem_cons_of_mem _ hk))

/-- the pawn capture board of the mirrored position is the mirror image -/
theorem pawnCaptureboard_mirror {p q : Position} {b : Board} (hp : Rep p b) (hq : Rep q (mirrorBoard b)) (c : Color)
    {u : Nat} (_hu : u < 64) :
    (pawnCaptureboard c.opp (q.pieces c.opp .pawn)).testBit u =
      (pawnCaptureboard c (p.pieces c .pawn)).testBit (Spec.mirrorSq u) := by
  rw [Bool.eq_iff_iff, Attack.pawnSet_testBit _ _ _ (hq.piecesLt _ _), Attack.pawnSet_testBit _ _ _ (hp.piecesLt _ _)]
  constructor
  · rintro ⟨s, hs, hb, hm⟩
    refine ⟨Spec.mirrorSq s, Spec.mirrorSq_lt hs, ?_, ?_⟩
    · rw [← pieces_mirror hp hq c .pawn hs]; exact hb
    · have := Spec.mem_pawnTargets_mirror (absColor c.opp) hs hm
      rw [absColor_opp', Spec.Color.opp_opp] at this
      exact this
  · rintro ⟨s, hs, hb, hm⟩
    refine ⟨Spec.mirrorSq s, Spec.mirrorSq_lt hs, ?_, ?_⟩
    · rw [pieces_mirror hp hq c .pawn (Spec.mirrorSq_lt hs), Spec.mirrorSq_mirrorSq]; exact hb
    · have := Spec.mem_pawnTargets_mirror (absColor c) hs hm
      rw [Spec.mirrorSq_mirrorSq, ← absColor_opp'] at this
      exact this

theorem testBit_bitMask {sq u : Nat} (hsq : sq < 64) : (bitMask sq).testBit u = decide (sq = u) := by
  rw [Attack.bitMask_eq hsq, Nat.testBit_two_pow]

/-- **defenders.** The number of defenders of the mirrored square for the other colour on the mirrored position. -/
theorem defenders_mirror {p q : Position} {b : Board} (hp : Rep p b) (hq : Rep q (mirrorBoard b)) (c : Color)
    {sq : Nat} (hsq : sq < 64) : defenders q c.opp (Spec.mirrorSq sq) = defenders p c sq := by
  have hpc : popCount (pawnCaptureboard c.opp (q.pieces c.opp .pawn) &&& bitMask (Spec.mirrorSq sq)) =
      popCount (pawnCaptureboard c (p.pieces c .pawn) &&& bitMask sq) := by
    apply popCount_mirror
    intro u hu
    rw [Nat.testBit_and, Nat.testBit_and, pawnCaptureboard_mirror hp hq c hu, testBit_bitMask (Spec.mirrorSq_lt hsq),
      testBit_bitMask hsq]
    have : decide (Spec.mirrorSq sq = u) = decide (sq = Spec.mirrorSq u) := by
      apply decide_eq_decide.mpr
      constructor
      · intro h; rw [← h, Spec.mirrorSq_mirrorSq]
      · intro h; rw [h, Spec.mirrorSq_mirrorSq]
    rw [this]
  unfold defenders
  rw [defendersLoop_mirror hp hq c hsq kqrnb 0 (fun _ h => h)]
  simp only [add_popCount_if]
  simp only [hpc]

/-- the loop with `break` of the pawn credit -/
theorem officerDefended_mirror {p q : Position} {b : Board} (hp : Rep p b) (hq : Rep q (mirrorBoard b)) (c : Color)
    {sq : Nat} (hsq : sq < 64) : ∀ (l : List Piece), (∀ k ∈ l, k ∈ kqrnb) →
    officerDefended q c.opp (Spec.mirrorSq sq) l = officerDefended p c sq l
  | [], _ => rfl
  | k :: rest, hl => by
    obtain ⟨x, y, hx, hy, hx64, hy64, hxy⟩ := officerHits_mirror hp hq c (hl k (List.mem_cons_self ..)) hsq
    have hz := mirror_zero_iff hx64 hy64 hxy
    unfold officerDefended
    rw [hx, hy, Option.bind_some, Option.bind_some]
    by_cases h0 : x = 0
    · have hy0 := hz.mpr h0
      subst h0; subst hy0
      simp only [bne_self_eq_false, Bool.false_eq_true, if_false]
      exact officerDefended_mirror hp hq c hsq rest (fun k hk => hl k (List.mem_cons_of_mem _ hk))
    · have hy0 : y ≠ 0 := fun e => h0 (hz.mp e)
      simp [h0, hy0]

theorem sqRank_mirror {sq : Nat} (hsq : sq < 64) : sqRank (Spec.mirrorSq sq) = 7 - sqRank sq := by
  have h1 : ∀ s, s < 64 → sqRank s = s / 8 := by decide +kernel
  rw [h1 _ (Spec.mirrorSq_lt hsq), h1 _ hsq, Spec.mirrorSq_of_lt hsq]
  omega

/-- **pawn credit**: ranks advanced -/
theorem pawnRanks_mirror (c : Color) {sq : Nat} (hsq : sq < 64) : pawnRanks c.opp (Spec.mirrorSq sq) = pawnRanks c sq := by
  have h1 : sqRank sq < 8 := by
    have : ∀ s, s < 64 → sqRank s < 8 := by decide +kernel
    exact this sq hsq
  cases c <;> simp only [pawnRanks, Color.opp, sqRank_mirror hsq] <;> omega

/-! ## king safety -/

theorem queenAttackboard_of_rep {p : Position} {b : Board} (h : Rep p b) {sq : Nat} (hsq : sq < 64) :
    queenAttackboard p.rotated sq = Attack.toBB (Spec.officerTargets (occB b) .queen sq) := by
  have := attackboard_of_rep h hsq (piece := .queen) (by simp) (by simp)
  simp only [attackboard, Option.some.injEq] at this
  exact this

/-- the king bitboards vanish together -/
theorem king_zero_mirror {p q : Position} {b : Board} (hp : Rep p b) (hq : Rep q (mirrorBoard b)) (c : Color) :
    q.pieces c.opp .king = 0 ↔ p.pieces c .king = 0 :=
  mirror_zero_iff (hp.piecesLt _ _) (hq.piecesLt _ _) (fun _ hu => pieces_mirror hp hq c .king hu)

/-- the king of the other colour stands on the mirrored square (at most one king: `WF`) -/
theorem kingSquare_mirror {p q : Position} {t : Color} (hw : WF p t) {b : Board} (hp : Rep p b)
    (hq : Rep q (mirrorBoard b)) (c : Color) (hk : p.pieces c .king ≠ 0) :
    lastPopSquare (q.pieces c.opp .king) = Spec.mirrorSq (lastPopSquare (p.pieces c .king)) := by
  have hkq : q.pieces c.opp .king ≠ 0 := fun e => hk ((king_zero_mirror hp hq c).mp e)
  obtain ⟨h1, _⟩ := kingSquare_spec hp c hk
  obtain ⟨h2, _⟩ := kingSquare_spec hq c.opp hkq
  rw [mirrorBoard_eq_iff] at h2
  have hb : b = p.square := by
    funext s
    exact (hp.square_eq s).symm
  have hu := hw.wfb.king_unique c _ _ (hb ▸ h2) (hb ▸ h1)
  rw [← hu, Spec.mirrorSq_mirrorSq]

/-- **king safety**: the count `safety` is the same -/
theorem safety_mirror {p q : Position} {t : Color} (hw : WF p t) {b : Board} (hp : Rep p b)
    (hq : Rep q (mirrorBoard b)) (c : Color) (hk : p.pieces c .king ≠ 0) : safety q c.opp = safety p c := by
  have hsq : lastPopSquare (p.pieces c .king) < 64 := hp.lt_of_some (kingSquare_spec hp c hk).1
  unfold safety
  rw [kingSquare_mirror hw hp hq c hk, queenAttackboard_of_rep hp hsq, queenAttackboard_of_rep hq (Spec.mirrorSq_lt hsq)]
  apply popCount_mirror
  intro u hu
  rw [Attack.andNot_testBit, Attack.andNot_testBit, toBB_targets_mirror b .queen hsq u, pieces_mirror hp hq c .none hu]

/-- the squares of R, N, B looped over in part (2), and of the pawns in part (4), are the mirror images -/
theorem middle_mirror {p q : Position} {b : Board} (hp : Rep p b) (hq : Rep q (mirrorBoard b)) (c : Color)
    {u : Nat} (hu : u < 64) : (middle q c.opp).testBit u = (middle p c).testBit (Spec.mirrorSq u) := by
  unfold middle
  rw [Nat.testBit_or, Nat.testBit_or, Nat.testBit_or, Nat.testBit_or, pieces_mirror hp hq c .rook hu,
    pieces_mirror hp hq c .knight hu, pieces_mirror hp hq c .bishop hu]

end Morlock.Proofs.Turochamp
