import Morlock.Model.Turochamp
/-!
# TUROCHAMP `material`: exact value, positivity, bounds — for every position

All values that occur in `material` are half-integers `k/2` with `k ≤ 2880`. On that range the float32 rounding is
checked to be the identity by evaluation in the kernel (`rnd_half_range`), and the rational operations of `Model.Flt`
are computed symbolically on the canonical representation `half k`.
-/
namespace Morlock.Proofs.Turochamp
open Morlock Morlock.Model Morlock.Model.Flt Morlock.Model.Turochamp

def allBelow : Nat → (Nat → Bool) → Bool
  | 0, _ => true
  | n + 1, p => p n && allBelow n p

theorem allBelow_spec {n : Nat} {p : Nat → Bool} (h : allBelow n p = true) : ∀ i, i < n → p i = true := by
  induction n with
  | zero => intro i hi; omega
  | succ n ih =>
    simp only [allBelow, Bool.and_eq_true] at h
    intro i hi
    by_cases e : i = n
    · subst e; exact h.1
    · exact ih h.2 i (by omega)

/-- the canonical (lowest terms) representation of `k/2` -/
def half (k : Nat) : Q := if k % 2 = 0 then ⟨((k / 2 : Nat) : Int), 1⟩ else ⟨((k : Nat) : Int), 2⟩

def qeq (x y : Q) : Bool := x.num == y.num && x.den == y.den

theorem qeq_spec {x y : Q} (h : qeq x y = true) : x = y := by
  cases x; cases y
  simp only [qeq, Bool.and_eq_true, beq_iff_eq] at h
  simp [h.1, h.2]

def oeq (x : Option Q) (y : Q) : Bool := match x with | some v => qeq v y | none => false

theorem oeq_spec {x : Option Q} {y : Q} (h : oeq x y = true) : x = some y := by
  cases x with
  | none => simp [oeq] at h
  | some v => simp only [oeq] at h; rw [qeq_spec h]

/-- half-integers up to 1450 are float32 numbers: rounding returns them unchanged -/
theorem rnd_half_range_check : allBelow 2901 (fun k => oeq (rnd f32 (half k)) (half k)) = true := by decide +kernel

theorem rnd_half {k : Nat} (hk : k ≤ 2900) : rnd f32 (half k) = some (half k) :=
  oeq_spec (allBelow_spec rnd_half_range_check k (by omega))

/-! ## the rational operations on `half` -/

theorem gcd_two (k : Nat) : Nat.gcd k 2 = if k % 2 = 0 then 2 else 1 := by
  rw [Nat.gcd_comm, Nat.gcd_rec]
  have := Nat.mod_two_eq_zero_or_one k
  rcases this with h | h <;> simp [h]

theorem norm_two (k : Nat) : Q.norm ⟨(k : Int), 2⟩ = half k := by
  unfold Q.norm half
  simp only [Int.natAbs_natCast, gcd_two]
  by_cases h : k % 2 = 0
  · simp only [h, if_true]
    have : ¬ (2 ≤ 1) := by omega
    simp only [this, if_false]
    congr 1
  · simp [h]

theorem norm_one (k : Int) : Q.norm ⟨k, 1⟩ = ⟨k, 1⟩ := by
  unfold Q.norm
  simp

theorem gcd_four (k : Nat) (hk : k % 2 = 0) : Nat.gcd k 4 = if k % 4 = 0 then 4 else 2 := by
  rw [Nat.gcd_comm, Nat.gcd_rec]
  have : k % 4 = 0 ∨ k % 4 = 2 := by omega
  rcases this with h | h <;> simp [h]

theorem norm_four (k : Nat) (hk : k % 2 = 0) : Q.norm ⟨(k : Int), 4⟩ = half (k / 2) := by
  unfold Q.norm half
  simp only [Int.natAbs_natCast, gcd_four k hk]
  by_cases h : k % 4 = 0
  · have h2 : k / 2 % 2 = 0 := by omega
    simp only [h, if_true, h2]
    have : ¬ (4 ≤ 1) := by omega
    simp only [this, if_false]
    have e : k / 2 / 2 = k / 4 := by omega
    rw [e]
    congr 1
  · have h2 : ¬ (k / 2 % 2 = 0) := by omega
    simp only [h, if_false, h2]
    have : ¬ (2 ≤ 1) := by omega
    simp only [this, if_false]
    congr 1

theorem add_mk (a b : Int) (c d : Nat) : Q.add ⟨a, c⟩ ⟨b, d⟩ = Q.norm ⟨a * d + b * c, c * d⟩ := rfl

theorem half_even {a : Nat} (ha : a % 2 = 0) : half a = ⟨((a / 2 : Nat) : Int), 1⟩ := by simp [half, ha]
theorem half_odd {a : Nat} (ha : ¬ a % 2 = 0) : half a = ⟨((a : Nat) : Int), 2⟩ := by simp [half, ha]

theorem add_half (a b : Nat) : Q.add (half a) (half b) = half (a + b) := by
  by_cases ha : a % 2 = 0 <;> by_cases hb : b % 2 = 0
  · rw [half_even ha, half_even hb, add_mk]
    have h1 : ((a / 2 : Nat) : Int) * ((1 : Nat) : Int) + ((b / 2 : Nat) : Int) * ((1 : Nat) : Int) = (((a + b) / 2 : Nat) : Int) := by omega
    rw [h1, show (1 * 1 : Nat) = 1 from rfl, norm_one, half_even (by omega)]
  · rw [half_even ha, half_odd hb, add_mk]
    have h1 : ((a / 2 : Nat) : Int) * ((2 : Nat) : Int) + ((b : Nat) : Int) * ((1 : Nat) : Int) = ((a + b : Nat) : Int) := by omega
    rw [h1, show (1 * 2 : Nat) = 2 from rfl, norm_two]
  · rw [half_odd ha, half_even hb, add_mk]
    have h1 : ((a : Nat) : Int) * ((1 : Nat) : Int) + ((b / 2 : Nat) : Int) * ((2 : Nat) : Int) = ((a + b : Nat) : Int) := by omega
    rw [h1, show (2 * 1 : Nat) = 2 from rfl, norm_two]
  · rw [half_odd ha, half_odd hb, add_mk]
    have h1 : ((a : Nat) : Int) * ((2 : Nat) : Int) + ((b : Nat) : Int) * ((2 : Nat) : Int) = ((2 * (a + b) : Nat) : Int) := by omega
    rw [h1, show (2 * 2 : Nat) = 4 from rfl, norm_four _ (by omega)]
    congr 1
    omega

/-- twice `pieceValue` -/
def value2 : Piece → Nat
  | .king => 200 | .queen => 20 | .rook => 10 | .bishop => 7 | .knight => 6 | .pawn => 2 | .none => 0

theorem mul_mk (a b : Int) (c d : Nat) : Q.mul ⟨a, c⟩ ⟨b, d⟩ = Q.norm ⟨a * b, c * d⟩ := rfl

theorem half_two_mul (n : Nat) : half (2 * n) = ⟨(n : Int), 1⟩ := by
  rw [half_even (by omega)]
  congr 1
  omega

theorem mul_int_half (c n : Nat) : Q.mul (Q.ofInt (c : Int)) (half (2 * n)) = half (2 * c * n) := by
  rw [half_two_mul, Q.ofInt, mul_mk, show (1 * 1 : Nat) = 1 from rfl, norm_one,
    show 2 * c * n = 2 * (c * n) by rw [Nat.mul_assoc], half_two_mul, Int.natCast_mul]

theorem mul_pieceValue {k : Piece} (hk : k ≠ .none) (n : Nat) :
    ∃ v, pieceValue k = some v ∧ Q.mul v (half (2 * n)) = half (value2 k * n) := by
  cases k with
  | none => exact absurd rfl hk
  | bishop =>
    refine ⟨_, rfl, ?_⟩
    rw [half_two_mul, Q.halves, mul_mk, show (2 * 1 : Nat) = 2 from rfl]
    have : (7 : Int) * (n : Int) = ((7 * n : Nat) : Int) := by omega
    rw [this, norm_two]
    rfl
  | pawn => exact ⟨_, rfl, mul_int_half 1 n⟩
  | knight => exact ⟨_, rfl, mul_int_half 3 n⟩
  | rook => exact ⟨_, rfl, mul_int_half 5 n⟩
  | queen => exact ⟨_, rfl, mul_int_half 10 n⟩
  | king => exact ⟨_, rfl, mul_int_half 100 n⟩

/-! ## `popCount` is at most 64 -/

theorem popCountAux_le : ∀ (n b : Nat), popCountAux n b ≤ n
  | 0, _ => Nat.le_refl 0
  | n + 1, b => by
    have := popCountAux_le n (b / 2)
    have := Nat.mod_lt b (show 2 > 0 by omega)
    simp only [popCountAux]
    omega

theorem popCount_le (b : Nat) : popCount b ≤ 64 := popCountAux_le 64 b

/-! ## the loop -/

theorem ofInt_half (c : Nat) : Q.ofInt ((c : Nat) : Int) = half (2 * c) := by
  rw [half_two_mul]; rfl

theorem materialStep_half (pos : Position) (turn : Color) (s : Nat) {piece : Piece} (hk : piece ≠ .none)
    (_hv : value2 piece ≤ 20) (hs : s + value2 piece * popCount (pos.pieces turn piece) ≤ 2900) :
    materialStep pos turn (half s) piece = some (half (s + value2 piece * popCount (pos.pieces turn piece))) := by
  have hc := popCount_le (pos.pieces turn piece)
  obtain ⟨v, hv1, hv2⟩ := mul_pieceValue hk (popCount (pos.pieces turn piece))
  have hcnt : pawnsOfInt (popCount (pos.pieces turn piece)) = some (half (2 * popCount (pos.pieces turn piece))) := by
    unfold pawnsOfInt
    rw [ofInt_half]
    exact rnd_half (by omega)
  have h1 : mul f32 v (half (2 * popCount (pos.pieces turn piece))) =
      some (half (value2 piece * popCount (pos.pieces turn piece))) := by
    unfold mul
    rw [hv2]
    exact rnd_half (by omega)
  have h2 : add f32 (half s) (half (value2 piece * popCount (pos.pieces turn piece))) =
      some (half (s + value2 piece * popCount (pos.pieces turn piece))) := by
    unfold add
    rw [add_half]
    exact rnd_half hs
  unfold materialStep
  rw [hv1, hcnt, Option.bind_some, Option.bind_some, h1, Option.bind_some, h2]

/-- twice the sum that `material` computes -/
def material2 (pos : Position) (turn : Color) : Nat :=
  20 * popCount (pos.pieces turn .queen) + 10 * popCount (pos.pieces turn .rook) +
  6 * popCount (pos.pieces turn .knight) + 7 * popCount (pos.pieces turn .bishop) +
  2 * popCount (pos.pieces turn .pawn)

theorem material2_le (pos : Position) (turn : Color) : material2 pos turn ≤ 2880 := by
  unfold material2
  have := popCount_le (pos.pieces turn .queen)
  have := popCount_le (pos.pieces turn .rook)
  have := popCount_le (pos.pieces turn .knight)
  have := popCount_le (pos.pieces turn .bishop)
  have := popCount_le (pos.pieces turn .pawn)
  omega

theorem materialLoop_eq (pos : Position) (turn : Color) :
    materialLoop pos turn qrnbp q0 = some (half (material2 pos turn)) := by
  have hq := popCount_le (pos.pieces turn .queen)
  have hr := popCount_le (pos.pieces turn .rook)
  have hn := popCount_le (pos.pieces turn .knight)
  have hb := popCount_le (pos.pieces turn .bishop)
  have hp := popCount_le (pos.pieces turn .pawn)
  have e0 : q0 = half 0 := rfl
  have el : qrnbp = [.queen, .rook, .knight, .bishop, .pawn] := by decide
  rw [e0, el]
  simp only [materialLoop]
  rw [materialStep_half pos turn 0 (by simp) (by simp [value2]) (by simp only [value2]; omega)]
  simp only [Option.bind_some]
  rw [materialStep_half pos turn _ (by simp) (by simp [value2]) (by simp only [value2]; omega)]
  simp only [Option.bind_some]
  rw [materialStep_half pos turn _ (by simp) (by simp [value2]) (by simp only [value2]; omega)]
  simp only [Option.bind_some]
  rw [materialStep_half pos turn _ (by simp) (by simp [value2]) (by simp only [value2]; omega)]
  simp only [Option.bind_some]
  rw [materialStep_half pos turn _ (by simp) (by simp [value2]) (by simp only [value2]; omega)]
  simp only [Option.bind_some, value2, material2, Nat.zero_add]

/-- twice the value of `material`: the sum, or 1 (half a pawn) for a bare king -/
def mat2 (pos : Position) (turn : Color) : Nat := if material2 pos turn = 0 then 1 else material2 pos turn

theorem half_beq_zero (k : Nat) : (half k).beq q0 = decide (k = 0) := by
  unfold half Q.beq q0
  by_cases h : k % 2 = 0
  · simp only [h, if_true]
    by_cases hk : k = 0
    · subst hk; simp
    · have : k / 2 ≠ 0 := by omega
      simp [hk]; omega
  · have hk : k ≠ 0 := by omega
    simp [h, hk]

/-- **The value of `material`**: for every position, `material` returns (exactly) `mat2 / 2`. -/
theorem material_eq (pos : Position) (turn : Color) : material pos turn = some (half (mat2 pos turn)) := by
  unfold material mat2
  rw [materialLoop_eq]
  simp only [Option.map_some, half_beq_zero]
  by_cases h : material2 pos turn = 0
  · simp only [h, decide_true, if_true]; rfl
  · simp [h]

theorem mat2_pos (pos : Position) (turn : Color) : 1 ≤ mat2 pos turn := by
  unfold mat2; split <;> omega

theorem mat2_le (pos : Position) (turn : Color) : mat2 pos turn ≤ 2880 := by
  have := material2_le pos turn
  unfold mat2; split <;> omega

theorem half_den_pos (k : Nat) : 0 < (half k).den := by unfold half; split <;> simp

/-- the value of `half k` is `k/2` -/
theorem half_value (k : Nat) : (half k).num * 2 = (k : Int) * ((half k).den : Int) := by
  unfold half
  split
  · show ((k / 2 : Nat) : Int) * 2 = (k : Int) * ((1 : Nat) : Int); omega
  · show ((k : Nat) : Int) * 2 = (k : Int) * ((2 : Nat) : Int); omega

end Morlock.Proofs.Turochamp
