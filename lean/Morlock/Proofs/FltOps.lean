import Morlock.Proofs.FltOrder
import Morlock.Proofs.FltDyadic
/-! # The arithmetic operations: well-formed results, magnitude bounds, totality -/
namespace Morlock.Model.Flt

namespace Q

/-- `|x| ≤ B` for a natural bound `B` -/
def AbsLe (x : Q) (B : Nat) : Prop := x.num.natAbs ≤ B * x.den

theorem AbsLe.mono {x : Q} {B C : Nat} (h : AbsLe x B) (hBC : B ≤ C) : AbsLe x C :=
  Nat.le_trans h (Nat.mul_le_mul_right _ hBC)

theorem AbsLe.congr {x y : Q} {B : Nat} (hx : 0 < x.den) (hy : 0 < y.den) (h : Eqv y x) (hb : AbsLe x B) : AbsLe y B := by
  obtain ⟨_, _, ha⟩ := Q.abs_of_eqv hx hy h
  unfold AbsLe at *
  have : y.num.natAbs * x.den ≤ B * y.den * x.den := by
    calc y.num.natAbs * x.den = x.num.natAbs * y.den := ha
      _ ≤ B * x.den * y.den := Nat.mul_le_mul_right _ hb
      _ = B * y.den * x.den := by grind
  exact Nat.le_of_mul_le_mul_right this hx

theorem AbsLe.norm {x : Q} {B : Nat} (hx : 0 < x.den) (hb : AbsLe x B) : AbsLe (Q.norm x) B :=
  AbsLe.congr hx (norm_den_pos hx) (norm_eqv x) hb

theorem AbsLe.neg {x : Q} {B : Nat} (hb : AbsLe x B) : AbsLe x.neg B := by
  unfold AbsLe Q.neg at *; simpa using hb

theorem absLe_ofInt (i : Int) : AbsLe (Q.ofInt i) i.natAbs := by
  unfold AbsLe Q.ofInt; simp

/-! results of the exact operations: positive denominator, lowest terms, the expected value -/

theorem add_canon {x y : Q} (hx : 0 < x.den) (hy : 0 < y.den) : (x.add y).Canon :=
  norm_canon (Nat.mul_pos hx hy)
theorem add_eqv (x y : Q) : Eqv (x.add y) ⟨x.num * y.den + y.num * x.den, x.den * y.den⟩ := norm_eqv _
theorem neg_den (x : Q) : x.neg.den = x.den := rfl
theorem sub_canon {x y : Q} (hx : 0 < x.den) (hy : 0 < y.den) : (x.sub y).Canon := add_canon hx hy
theorem sub_eqv (x y : Q) : Eqv (x.sub y) ⟨x.num * y.den + -y.num * x.den, x.den * y.den⟩ := norm_eqv _
theorem mul_canon {x y : Q} (hx : 0 < x.den) (hy : 0 < y.den) : (x.mul y).Canon :=
  norm_canon (Nat.mul_pos hx hy)
theorem mul_eqv (x y : Q) : Eqv (x.mul y) ⟨x.num * y.num, x.den * y.den⟩ := norm_eqv _

/-- the unnormalised quotient -/
def divRaw (x y : Q) : Q :=
  if y.num > 0 then ⟨x.num * y.den, x.den * y.num.toNat⟩ else ⟨-(x.num * y.den), x.den * (-y.num).toNat⟩

theorem div_eq (x y : Q) : x.div y = Q.norm (divRaw x y) := by
  unfold Q.div divRaw; split <;> rfl

theorem divRaw_den_pos {x y : Q} (hx : 0 < x.den) (hy0 : y.num ≠ 0) : 0 < (divRaw x y).den := by
  unfold divRaw
  split
  · exact Nat.mul_pos hx (by omega)
  · exact Nat.mul_pos hx (by omega)

theorem divRaw_abs (x y : Q) :
    (divRaw x y).num.natAbs = x.num.natAbs * y.den ∧ (divRaw x y).den = x.den * y.num.natAbs := by
  unfold divRaw
  split
  · refine ⟨by simp [Int.natAbs_mul], ?_⟩
    simp only []; congr 1; omega
  · refine ⟨by simp [Int.natAbs_mul], ?_⟩
    simp only []; congr 1; omega

theorem div_canon {x y : Q} (hx : 0 < x.den) (hy0 : y.num ≠ 0) : (x.div y).Canon := by
  rw [div_eq]; exact norm_canon (divRaw_den_pos hx hy0)

theorem AbsLe.add {x y : Q} {A B : Nat} (hx : 0 < x.den) (hy : 0 < y.den) (ha : AbsLe x A) (hb : AbsLe y B) :
    AbsLe (x.add y) (A + B) := by
  apply AbsLe.norm (Nat.mul_pos hx hy)
  unfold AbsLe at *
  simp only []
  calc (x.num * y.den + y.num * x.den).natAbs ≤ (x.num * y.den).natAbs + (y.num * x.den).natAbs := Int.natAbs_add_le _ _
    _ = x.num.natAbs * y.den + y.num.natAbs * x.den := by simp [Int.natAbs_mul]
    _ ≤ A * x.den * y.den + B * y.den * x.den :=
      Nat.add_le_add (Nat.mul_le_mul_right _ ha) (Nat.mul_le_mul_right _ hb)
    _ = (A + B) * (x.den * y.den) := by grind

theorem AbsLe.sub {x y : Q} {A B : Nat} (hx : 0 < x.den) (hy : 0 < y.den) (ha : AbsLe x A) (hb : AbsLe y B) :
    AbsLe (x.sub y) (A + B) :=
  AbsLe.add (y := y.neg) hx hy ha hb.neg

theorem AbsLe.mul {x y : Q} {A B : Nat} (hx : 0 < x.den) (hy : 0 < y.den) (ha : AbsLe x A) (hb : AbsLe y B) :
    AbsLe (x.mul y) (A * B) := by
  apply AbsLe.norm (Nat.mul_pos hx hy)
  unfold AbsLe at *
  simp only [Int.natAbs_mul]
  calc x.num.natAbs * y.num.natAbs ≤ A * x.den * (B * y.den) := Nat.mul_le_mul ha hb
    _ = A * B * (x.den * y.den) := by grind

end Q

/-! ### totality of the rounded operations -/

/-- `|x| ≤ B ≤ 2^emax` (a natural bound) ⟹ `rnd` is finite -/
theorem rnd_isSome_of_absLe (f : Fmt) (wf : f.WF) (hmax : 0 ≤ f.emax) {x : Q} {B : Nat} (hd : 0 < x.den)
    (h : x.AbsLe B) (hB : B ≤ 2 ^ f.emax.toNat) : (rnd f x).isSome := by
  apply rnd_isSome_of_le f wf x hd
  rw [pd_of_nonneg hmax]
  unfold pn
  calc x.num.natAbs * 1 = x.num.natAbs := Nat.mul_one _
    _ ≤ B * x.den := h
    _ ≤ 2 ^ f.emax.toNat * x.den := Nat.mul_le_mul_right _ hB
    _ = x.den * 2 ^ f.emax.toNat := Nat.mul_comm _ _

/-- an integer bound `B ≤ 2^p` survives rounding -/
theorem rnd_absLe (f : Fmt) (wf : f.WF) (h0 : f.emin ≤ 0) (hmax : (f.p : Int) ≤ f.emax) {x x' : Q} {B : Nat}
    (hd : 0 < x.den) (hb : x.AbsLe B) (hB : B ≤ 2 ^ f.p) (h : rnd f x = some x') : x'.AbsLe B := by
  have hrep : Rep f (Q.ofInt B) := by
    have := rep_dyadic f wf (B : Int) 0 (by simpa using hB) (by simpa using h0) hmax
    simpa [Q.ofInt] using this
  have hxd : (0 : Int) ≤ x.den := Int.natCast_nonneg _
  have hbI : (x.num.natAbs : Int) ≤ (B : Int) * x.den := by
    have : ((x.num.natAbs : Nat) : Int) ≤ ((B * x.den : Nat) : Int) := Int.ofNat_le.mpr hb
    simpa [Int.natCast_mul] using this
  have hlo : Q.Le (Q.ofInt B).neg x := by
    simp only [Q.Le, Q.neg, Q.ofInt, Int.neg_mul]
    omega
  have hhi : Q.Le x (Q.ofInt B) := by
    simp only [Q.Le, Q.ofInt]
    omega
  obtain ⟨y, hy, h1, h2⟩ := rnd_abs_le f wf hd (by simp [Q.ofInt]) hrep hlo hhi
  rw [h] at hy
  have : x' = y := by simpa using hy
  subst this
  simp only [Q.Le, Q.neg, Q.ofInt, Int.neg_mul] at h1 h2
  unfold Q.AbsLe
  have : ((x'.num.natAbs : Nat) : Int) ≤ ((B * x'.den : Nat) : Int) := by
    simp only [Int.natCast_mul]; omega
  exact Int.ofNat_le.mp this

theorem add_isSome (f : Fmt) (wf : f.WF) (hmax : 0 ≤ f.emax) {x y : Q} {A B : Nat} (hx : 0 < x.den) (hy : 0 < y.den)
    (ha : x.AbsLe A) (hb : y.AbsLe B) (hAB : A + B ≤ 2 ^ f.emax.toNat) : (add f x y).isSome :=
  rnd_isSome_of_absLe f wf hmax (Q.add_canon hx hy).1 (Q.AbsLe.add hx hy ha hb) hAB

theorem sub_isSome (f : Fmt) (wf : f.WF) (hmax : 0 ≤ f.emax) {x y : Q} {A B : Nat} (hx : 0 < x.den) (hy : 0 < y.den)
    (ha : x.AbsLe A) (hb : y.AbsLe B) (hAB : A + B ≤ 2 ^ f.emax.toNat) : (sub f x y).isSome :=
  rnd_isSome_of_absLe f wf hmax (Q.sub_canon hx hy).1 (Q.AbsLe.sub hx hy ha hb) hAB

theorem mul_isSome (f : Fmt) (wf : f.WF) (hmax : 0 ≤ f.emax) {x y : Q} {A B : Nat} (hx : 0 < x.den) (hy : 0 < y.den)
    (ha : x.AbsLe A) (hb : y.AbsLe B) (hAB : A * B ≤ 2 ^ f.emax.toNat) : (mul f x y).isSome :=
  rnd_isSome_of_absLe f wf hmax (Q.mul_canon hx hy).1 (Q.AbsLe.mul hx hy ha hb) hAB

/-- `y ≠ 0 → |x / y| ≤ 2^emax → (div f x y).isSome` -/
theorem div_isSome (f : Fmt) (wf : f.WF) {x y : Q} (hx : 0 < x.den) (hy0 : y.num ≠ 0)
    (h : x.num.natAbs * y.den * pd f.emax ≤ x.den * y.num.natAbs * pn f.emax) : (div f x y).isSome := by
  unfold div
  have : (y.num == 0) = false := by simpa using hy0
  rw [this]
  simp only [Bool.false_eq_true, if_false]
  have hdp := Q.divRaw_den_pos hx hy0
  rw [Q.div_eq, rnd_congr f wf (Q.norm_den_pos hdp) hdp (Q.norm_eqv _)]
  apply rnd_isSome_of_le f wf _ hdp
  obtain ⟨e1, e2⟩ := Q.divRaw_abs x y
  rw [e1, e2]; exact h

end Morlock.Model.Flt
