import Morlock.Proofs.ABRef
import Morlock.Model.BoardGame
/-!
# `EvalOk` for the chess instances of the search game (helper for C13 / C03)

`EvalOk g` asks that the static evaluation key of *every* world (also junk ones) is the key of a finite
`float32`. For the material game this follows from `popCount b ≤ 64` and `|nominalValue k| ≤ 100`.
-/
namespace Morlock.Proofs.AB
open Morlock Morlock.Model Morlock.Model.Score

theorem popCountAux_le (n b : Nat) : popCountAux n b ≤ n := by
  induction n generalizing b with
  | zero => simp [popCountAux]
  | succ n ih =>
    simp only [popCountAux]
    have := ih (b / 2)
    omega

theorem popCount_le (b : Bitboard) : popCount b ≤ 64 := popCountAux_le 64 b

theorem nominalValue_range (k : Piece) : 0 ≤ nominalValue k ∧ nominalValue k ≤ 100 := by
  cases k <;> decide

/-- One summand of `materialPawns`. -/
theorem material_term (a b : Nat) (v : Int) (ha : a ≤ 64) (hb : b ≤ 64) (h0 : 0 ≤ v) (h1 : v ≤ 100) :
    -6400 ≤ ((a : Int) - (b : Int)) * v ∧ ((a : Int) - (b : Int)) * v ≤ 6400 := by
  have h64 : ((a : Int) - b) ≤ 64 := by omega
  have h64' : -64 ≤ ((a : Int) - b) := by omega
  constructor
  · have : (-64) * v ≤ ((a : Int) - b) * v := Int.mul_le_mul_of_nonneg_right h64' h0
    omega
  · have : ((a : Int) - b) * v ≤ 64 * v := Int.mul_le_mul_of_nonneg_right h64 h0
    omega

theorem materialPawns_range (pos : Position) (turn : Color) :
    -38400 ≤ materialPawns pos turn ∧ materialPawns pos turn ≤ 38400 := by
  unfold materialPawns Position.piecesInOrder
  simp only [List.foldl]
  have t := fun k => material_term _ _ _ (popCount_le (pos.pieces turn k)) (popCount_le (pos.pieces turn.opp k))
    (nominalValue_range k).1 (nominalValue_range k).2
  have t1 := t .pawn; have t2 := t .bishop; have t3 := t .knight
  have t4 := t .rook; have t5 := t .queen; have t6 := t .king
  omega

theorem log2_le_23 {a : Nat} (h0 : a ≠ 0) (h : a < 2 ^ 24) : Nat.log2 a ≤ 23 := by
  have := (Nat.log2_lt h0).2 h
  omega

/-- The key of an integer below `2^24` in absolute value is the key of a finite `float32`. -/
theorem f32keyOfInt_range (n : Int) (h : n.natAbs < 2 ^ 24) :
    -2147483648 < f32keyOfInt n ∧ f32keyOfInt n < 2147483648 := by
  unfold f32keyOfInt
  simp only
  by_cases h0 : n.natAbs = 0
  · simp [h0]
  · simp only [h0, if_false]
    have he := log2_le_23 h0 h
    simp only [he, if_true]
    have hm : (n.natAbs <<< (23 - Nat.log2 n.natAbs)) % 8388608 < 8388608 := Nat.mod_lt _ (by decide)
    generalize (n.natAbs <<< (23 - Nat.log2 n.natAbs)) % 8388608 = mant at hm
    generalize Nat.log2 n.natAbs = e at he
    have hb : (e + 127) * 8388608 + mant < 2147483648 := by omega
    split <;> omega

theorem boardGame_evalOk (z : ZTable) (ev : Position → Color → Int)
    (h : ∀ pos turn, -2147483648 < ev pos turn ∧ ev pos turn < 2147483648) : EvalOk (boardGame z ev) := by
  intro p
  exact h _ _

theorem materialGame_evalOk (z : ZTable) : EvalOk (materialGame z) := by
  apply boardGame_evalOk
  intro pos turn
  apply f32keyOfInt_range
  have := materialPawns_range pos turn
  have : (materialPawns pos turn).natAbs ≤ 38400 := by omega
  have : (38400 : Nat) < 2 ^ 24 := by decide
  omega

-- #print axioms materialGame_evalOk   -- [propext, Classical.choice, Quot.sound]
-- #print axioms boardGame_evalOk      -- [propext]

end Morlock.Proofs.AB
