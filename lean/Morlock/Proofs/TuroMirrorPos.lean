import Morlock.Proofs.TuroMirrorBits
import Morlock.Proofs.GenLegal
/-!
# The colour mirror on `Position`s, bit for bit: `xor`, `square`, the attack queries, `Position.Move`

`MP p q`: every bitboard of `q` is the mirror image of the bitboard of the other colour of `p`, the rotated boards satisfy
their invariant, castling rights are exchanged, the en-passant target is mirrored. Nothing says that `p` is the image of
a mailbox board. Under `MP` (plus, where needed, `Tri`: occupancy = white xor black, and at most one king bit):
`square`, `captureAt`, `isAttacked`, `isChecked` commute with the mirror and `Position.Move` maps related positions to
related positions.
-/
namespace Morlock.Proofs.TuroMirror
open Morlock Morlock.Model Morlock.Proofs.Gen Morlock.Proofs.Attack Morlock.Proofs.Mirror

local notation "ms" => Spec.mirrorSq

/-- the mirror image of a move -/
def mm (m : Move) : Move := { m with «from» := ms m.from, to := ms m.to }

@[simp] theorem mm_ty (m : Move) : (mm m).ty = m.ty := rfl
@[simp] theorem mm_from (m : Move) : (mm m).from = ms m.from := rfl
@[simp] theorem mm_to (m : Move) : (mm m).to = ms m.to := rfl
@[simp] theorem mm_piece (m : Move) : (mm m).piece = m.piece := rfl
@[simp] theorem mm_capture (m : Move) : (mm m).capture = m.capture := rfl
@[simp] theorem mm_promotion (m : Move) : (mm m).promotion = m.promotion := rfl
@[simp] theorem mm_isCapture (m : Move) : (mm m).isCapture = m.isCapture := rfl
@[simp] theorem mm_isPromotion (m : Move) : (mm m).isPromotion = m.isPromotion := rfl
@[simp] theorem mm_isCastle (m : Move) : (mm m).isCastle = m.isCastle := rfl

theorem mm_inj {a b : Move} (h : mm a = mm b) : a = b := by
  cases a; cases b
  simp only [mm, Move.mk.injEq] at h ⊢
  obtain ⟨h1, h2, h3, h4, h5, h6⟩ := h
  exact ⟨h1, Spec.mirrorSq_inj h2, Spec.mirrorSq_inj h3, h4, h5, h6⟩

/-- a cell with the colour swapped -/
def sw : Option (Color × Piece) → Option (Color × Piece)
  | some (c, k) => some (c.opp, k)
  | none => none

/-- `q` is the colour-swapped mirror image of `p`, bitboard by bitboard -/
structure MP (p q : Position) : Prop where
  pc : ∀ c k, MB (p.pieces c k) (q.pieces c.opp k)
  rp : RotInv p.rotated.rot p.rotated
  rq : RotInv q.rotated.rot q.rotated
  occ : MB p.rotated.rot q.rotated.rot
  wk : (q.castling &&& wK != 0) = (p.castling &&& bK != 0)
  wq : (q.castling &&& wQ != 0) = (p.castling &&& bQ != 0)
  bk : (q.castling &&& bK != 0) = (p.castling &&& wK != 0)
  bq : (q.castling &&& bQ != 0) = (p.castling &&& wQ != 0)
  epl : p.enpassant < 64
  ep0 : p.enpassant = 0 → q.enpassant = 0
  ep1 : p.enpassant ≠ 0 → q.enpassant = ms p.enpassant ∧ q.enpassant ≠ 0 ∧
    (sqRank p.enpassant = 2 ∨ sqRank p.enpassant = 5)

theorem MP.pc' {p q : Position} (h : MP p q) (c : Color) (k : Piece) : MB (p.pieces c.opp k) (q.pieces c k) := by
  have := h.pc c.opp k
  rwa [copp_opp] at this

/-! ## `xor` -/

theorem pieces_xor_none (p : Position) (sq : Nat) (c c' : Color) (k' : Piece) :
    (p.xor sq c .none).pieces c' k' =
      if c' = c ∧ k' = .none then p.pieces c' k' ^^^ bitMask sq ^^^ bitMask sq else p.pieces c' k' := by
  cases c <;> cases c' <;> cases k' <;>
    simp [Position.xor, Position.pieces, Position.side, Position.setSide, Side.get, Side.set]

theorem pieces_xor_king (p : Position) (sq : Nat) (c : Color) (k : Piece) (c' : Color) :
    (p.xor sq c k).pieces c' .king =
      if c' = c ∧ k = .king then p.pieces c' .king ^^^ bitMask sq else p.pieces c' .king := by
  cases c <;> cases c' <;> cases k <;>
    simp [Position.xor, Position.pieces, Position.side, Position.setSide, Side.get, Side.set]

theorem MP.xor {p q : Position} (h : MP p q) {sq : Nat} (hsq : sq < 64) (c : Color) (k : Piece) :
    MP (p.xor sq c k) (q.xor (ms sq) c.opp k) where
  pc := by
    intro c' k'
    have hb := MB.bitMask hsq
    have h0 := h.pc c' k'
    by_cases hk : k = .none
    · subst hk
      rw [pieces_xor_none, pieces_xor_none]
      by_cases hP : c' = c ∧ k' = .none
      · rw [if_pos hP, if_pos ⟨copp_inj.mpr hP.1, hP.2⟩]
        exact (h0.xor hb).xor hb
      · rw [if_neg hP, if_neg (fun hh => hP ⟨copp_inj.mp hh.1, hh.2⟩)]
        exact h0
    · rw [pieces_xor _ _ _ _ hk, pieces_xor _ _ _ _ hk]
      by_cases hP : c' = c ∧ (k' = .none ∨ k' = k)
      · rw [if_pos hP, if_pos ⟨copp_inj.mpr hP.1, hP.2⟩]
        exact h0.xor hb
      · rw [if_neg hP, if_neg (fun hh => hP ⟨copp_inj.mp hh.1, hh.2⟩)]
        exact h0
  rp := by rw [rotated_xor]; exact xor_inv hsq h.rp
  rq := by rw [rotated_xor]; exact xor_inv (Spec.mirrorSq_lt hsq) h.rq
  occ := by rw [rotated_xor, rotated_xor]; exact h.occ.xor (MB.bitMask hsq)
  wk := by rw [castling_xor, castling_xor]; exact h.wk
  wq := by rw [castling_xor, castling_xor]; exact h.wq
  bk := by rw [castling_xor, castling_xor]; exact h.bk
  bq := by rw [castling_xor, castling_xor]; exact h.bq
  epl := by rw [enpassant_xor]; exact h.epl
  ep0 := by rw [enpassant_xor, enpassant_xor]; exact h.ep0
  ep1 := by rw [enpassant_xor, enpassant_xor]; exact h.ep1

/-- occupancy = white xor black, square by square -/
def Tri (p : Position) : Prop :=
  ∀ u, u < 64 → p.rotated.rot.testBit u = ((p.pieces .white .none).testBit u ^^ (p.pieces .black .none).testBit u)

theorem xor3a (a b m : Bool) : ((a ^^ b) ^^ m) = ((a ^^ m) ^^ b) := by cases a <;> cases b <;> cases m <;> rfl
theorem xor3b (a b m : Bool) : ((a ^^ b) ^^ m) = (a ^^ (b ^^ m)) := by cases a <;> cases b <;> cases m <;> rfl

theorem Tri.xor {p : Position} (h : Tri p) (sq : Nat) (c : Color) {k : Piece} (hk : k ≠ .none) : Tri (p.xor sq c k) := by
  intro u hu
  rw [rotated_xor, pieces_xor _ _ _ _ hk, pieces_xor _ _ _ _ hk]
  show (p.rotated.rot ^^^ bitMask sq).testBit u = _
  rw [Nat.testBit_xor, h u hu]
  cases c
  · simp only [true_and, true_or, if_true, reduceCtorEq, false_and, if_false, Nat.testBit_xor]
    exact xor3a _ _ _
  · simp only [true_and, true_or, if_true, reduceCtorEq, false_and, if_false, Nat.testBit_xor]
    exact xor3b _ _ _

theorem Tri.of_rep {p : Position} {b : Board} (h : Rep p b) : Tri p := by
  intro u hu
  rw [h.rot u hu, h.all _ _ hu, h.all _ _ hu]
  unfold colAt
  cases hb : b u with
  | none => rfl
  | some x => obtain ⟨c, k⟩ := x; cases c <;> rfl

/-! ## `square`, `captureAt` -/

def squareF (r w b : Bool) (fw fb : Option Piece) : Option (Color × Piece) :=
  if !r then none else
    match (if !w then none else fw.map fun k => (Color.white, k)) with
    | some x => some x
    | none => if !b then none else fb.map fun k => (Color.black, k)

theorem square_eq_F (p : Position) (sq : Nat) :
    p.square sq = squareF (isSet p.rotated.rot sq) (isSet (p.pieces .white .none) sq) (isSet (p.pieces .black .none) sq)
      (Position.piecesInOrder.find? fun k => isSet (p.pieces .white k) sq)
      (Position.piecesInOrder.find? fun k => isSet (p.pieces .black k) sq) := rfl

theorem squareF_mirror (w b : Bool) (fw fb : Option Piece) :
    squareF (w ^^ b) b w fb fw = sw (squareF (w ^^ b) w b fw fb) := by
  cases w <;> cases b <;> cases fw <;> cases fb <;> rfl

theorem square_mirror {p q : Position} (h : MP p q) (ht : Tri p) {sq : Nat} (hsq : sq < 64) :
    q.square (ms sq) = sw (p.square sq) := by
  rw [square_eq_F, square_eq_F]
  have e1 : isSet q.rotated.rot (ms sq) = isSet p.rotated.rot sq := h.occ.isSet hsq
  have e2 : isSet (q.pieces .white .none) (ms sq) = isSet (p.pieces .black .none) sq := (h.pc .black .none).isSet hsq
  have e3 : isSet (q.pieces .black .none) (ms sq) = isSet (p.pieces .white .none) sq := (h.pc .white .none).isSet hsq
  have e4 : (fun k => isSet (q.pieces .white k) (ms sq)) = (fun k => isSet (p.pieces .black k) sq) :=
    funext fun k => (h.pc .black k).isSet hsq
  have e5 : (fun k => isSet (q.pieces .black k) (ms sq)) = (fun k => isSet (p.pieces .white k) sq) :=
    funext fun k => (h.pc .white k).isSet hsq
  rw [e1, e2, e3, e4, e5]
  have e6 : isSet p.rotated.rot sq = (isSet (p.pieces .white .none) sq ^^ isSet (p.pieces .black .none) sq) := by
    rw [isSet_lt _ hsq, isSet_lt _ hsq, isSet_lt _ hsq]; exact ht sq hsq
  rw [e6]
  exact squareF_mirror _ _ _ _

theorem captureAt_mirror {p q : Position} (h : MP p q) (c : Color) {sq : Nat} (hsq : sq < 64) :
    q.captureAt (ms sq) c.opp = p.captureAt sq c := by
  unfold Position.captureAt
  have e : (fun k => isSet (q.pieces c.opp.opp k) (ms sq)) = (fun k => isSet (p.pieces c.opp k) sq) :=
    funext fun k => (h.pc c.opp k).isSet hsq
  rw [e]

/-! ## the attack queries -/

/-- the test `isAttackedBy` makes for one piece kind -/
def attP (p : Position) (c : Color) (sq : Nat) (piece : Piece) : Bool :=
  if piece = .pawn then pawnCaptureboard c.opp (p.pieces c.opp .pawn) &&& bitMask sq != 0
  else (p.pieces c.opp piece != 0 && ((attackboard p.rotated sq piece).getD 0) &&& p.pieces c.opp piece != 0)

theorem isAttackedBy_eq (p : Position) (c : Color) (sq : Nat) (list : List Piece) :
    p.isAttackedBy c sq list = list.any (attP p c sq) := rfl

theorem attP_mirror {p q : Position} (h : MP p q) (c : Color) {sq : Nat} (hsq : sq < 64) (piece : Piece) :
    attP q c.opp (ms sq) piece = attP p c sq piece := by
  unfold attP
  by_cases hp : piece = .pawn
  · rw [if_pos hp, if_pos hp]
    exact (((h.pc c.opp .pawn).pawnCapture c.opp).and (MB.bitMask hsq)).bne_zero
  · rw [if_neg hp, if_neg hp]
    have h1 := h.pc c.opp piece
    rw [h1.bne_zero, ((attackboard_MB h.rp h.rq h.occ hsq piece).and h1).bne_zero]

theorem isAttacked_mirror {p q : Position} (h : MP p q) (c : Color) {sq : Nat} (hsq : sq < 64) :
    q.isAttacked c.opp (ms sq) = p.isAttacked c sq := by
  unfold Position.isAttacked
  rw [isAttackedBy_eq, isAttackedBy_eq]
  have : attP q c.opp (ms sq) = attP p c sq := funext fun piece => attP_mirror h c hsq piece
  rw [this]

theorem isChecked_mirror {p q : Position} (h : MP p q) (c : Color) (ho : One (p.pieces c .king)) :
    q.isChecked c.opp = p.isChecked c := by
  show (if lastPopSquare (q.pieces c.opp .king) != 64 then q.isAttacked c.opp (lastPopSquare (q.pieces c.opp .king))
    else false) = (if lastPopSquare (p.pieces c .king) != 64 then p.isAttacked c (lastPopSquare (p.pieces c .king)) else false)
  by_cases hk : p.pieces c .king = 0
  · have hq := (h.pc c .king).eq_zero_iff.mpr hk
    rw [hk, hq, lastPop_zero]
    rfl
  · obtain ⟨e, lt⟩ := (h.pc c .king).lastPop ho hk
    rw [e]
    have l2 := Spec.mirrorSq_lt lt
    have n1 : (lastPopSquare (p.pieces c .king) != 64) = true := by rw [bne_iff_ne]; omega
    have n2 : (ms (lastPopSquare (p.pieces c .king)) != 64) = true := by rw [bne_iff_ne]; omega
    rw [if_pos n1, if_pos n2]
    exact isAttacked_mirror h c lt

/-! ## moves -/

/-- what the mirror needs to know about a move: squares on the board; a double step lands on the fourth or fifth rank,
an en-passant capture on the third or sixth -/
structure MoveOK (m : Move) : Prop where
  f : m.from < 64
  t : m.to < 64
  jump : m.ty = .jump → sqRank m.to = 3 ∨ sqRank m.to = 4
  ep : m.ty = .enPassant → sqRank m.to = 2 ∨ sqRank m.to = 5

def epc (to : Nat) : Nat := if sqRank to = 2 then newSquare (sqFile to) 3 else newSquare (sqFile to) 4
def ept (to : Nat) : Nat := if sqRank to = 3 then newSquare (sqFile to) 2 else newSquare (sqFile to) 5

theorem enPassantCapture_eq' (m : Move) : m.enPassantCapture = if m.ty != .enPassant then 0 else epc m.to := rfl
theorem enPassantTarget_eq' (m : Move) : m.enPassantTarget = if m.ty != .jump then 0 else ept m.to := rfl

theorem epc_mirror : ∀ to, to < 64 → (sqRank to = 2 ∨ sqRank to = 5) → epc (ms to) = ms (epc to) ∧ epc to < 64 := by
  decide +kernel

theorem ept_mirror : ∀ to, to < 64 → (sqRank to = 3 ∨ sqRank to = 4) →
    ept (ms to) = ms (ept to) ∧ ept to < 64 ∧ ept to ≠ 0 ∧ ept (ms to) ≠ 0 ∧ (sqRank (ept to) = 2 ∨ sqRank (ept to) = 5) := by
  decide +kernel

theorem ms_consts : ms E1 = E8 ∧ ms E8 = E1 ∧ ms H1 = H8 ∧ ms H8 = H1 ∧ ms A1 = A8 ∧ ms A8 = A1 ∧ ms F1 = F8 ∧ ms F8 = F1 ∧
    ms D1 = D8 ∧ ms D8 = D1 ∧ ms G1 = G8 ∧ ms G8 = G1 ∧ ms C1 = C8 ∧ ms C8 = C1 := by decide

theorem ms_eq_const {a c c' : Nat} (hc : ms c' = c) : (ms a = c) = (a = c') := by
  apply propext
  rw [ms_eq_iff, ← hc, Spec.mirrorSq_mirrorSq]

/-- toggling the same square twice -/
theorem xor_xor_rook (p : Position) (sq : Nat) (c : Color) : (p.xor sq c .rook).xor sq c .rook = p := by
  obtain ⟨w, b, r, cs, e⟩ := p
  obtain ⟨r0, r1, r2, r3⟩ := r
  cases c <;>
    simp [Position.xor, Position.setSide, Position.side, Side.get, Side.set, Rotated.xor, Nat.xor_assoc, Nat.xor_self]

/-- steps (4) of `Position.Move` -/
def step4 (ret : Position) (turn : Color) (m : Move) : Position :=
  match m.ty with
  | .enPassant => ret.xor m.enPassantCapture turn.opp .pawn
  | .kingSideCastle | .queenSideCastle =>
    (ret.xor m.castlingRookMove.1 turn .rook).xor m.castlingRookMove.2 turn .rook
  | _ => ret

/-- steps (1)-(4) of `Position.Move` -/
def rawCore (p : Position) (turn : Color) (pc : Piece) (m : Move) : Position :=
  step4 (((if m.isCapture then (p.xor m.from turn pc).xor m.to turn.opp m.capture else p.xor m.from turn pc)).xor m.to turn
    (movedPiece m pc)) turn m

theorem moveRaw_pieces (p : Position) (turn : Color) (pc : Piece) (m : Move) (c : Color) (k : Piece) :
    (moveRaw p turn pc m).pieces c k = (rawCore p turn pc m).pieces c k := by
  cases c <;> rfl

theorem moveRaw_rotated (p : Position) (turn : Color) (pc : Piece) (m : Move) :
    (moveRaw p turn pc m).rotated = (rawCore p turn pc m).rotated := rfl

theorem rookMove_mirror (m : Move) (_hf : m.from < 64) :
    ((mm m).castlingRookMove = (ms m.castlingRookMove.1, ms m.castlingRookMove.2) ∧
      m.castlingRookMove.1 < 64 ∧ m.castlingRookMove.2 < 64) ∨
    (m.castlingRookMove = (0, 0) ∧ (mm m).castlingRookMove = (0, 0)) := by
  obtain ⟨c1, c2, c3, c4, c5, c6, c7, c8, c9, c10, _⟩ := ms_consts
  have a1 : (ms m.from = E1) = (m.from = E8) := ms_eq_const c2
  have a8 : (ms m.from = E8) = (m.from = E1) := ms_eq_const c1
  unfold Move.castlingRookMove
  simp only [mm_ty, mm_from, a1, a8]
  have ne18 : E1 ≠ E8 := by decide
  by_cases h1 : m.from = E1
  · have h8 : ¬ m.from = E8 := by rw [h1]; exact ne18
    by_cases hk : m.ty = .kingSideCastle
    · simp [hk, h1, ne18, c3, c7]; decide
    · by_cases hq : m.ty = .queenSideCastle
      · simp [hq, h1, ne18, c5, c9]; decide
      · simp [hk, hq]
  · by_cases h8 : m.from = E8
    · by_cases hk : m.ty = .kingSideCastle
      · simp [hk, h8, ne18.symm, c4, c8]; decide
      · by_cases hq : m.ty = .queenSideCastle
        · simp [hq, h8, ne18.symm, c6, c10]; decide
        · simp [hk, hq]
    · simp [h1, h8]

theorem step4_MP {a b : Position} (h : MP a b) {m : Move} (ok : MoveOK m) (turn : Color) :
    MP (step4 a turn m) (step4 b turn.opp (mm m)) := by
  unfold step4
  simp only [mm_ty]
  cases hty : m.ty <;> simp only [] <;> try exact h
  · -- en passant
    obtain ⟨e1, e2⟩ := epc_mirror m.to ok.t (ok.ep hty)
    have ea : m.enPassantCapture = epc m.to := by rw [enPassantCapture_eq', hty]; rfl
    have eb : (mm m).enPassantCapture = ms (epc m.to) := by rw [enPassantCapture_eq', mm_ty, hty, mm_to, ← e1]; rfl
    rw [ea, eb]
    exact h.xor e2 turn.opp .pawn
  all_goals
    rcases rookMove_mirror m ok.f with ⟨e, l1, l2⟩ | ⟨e1, e2⟩
    · rw [e]
      exact (h.xor l1 turn .rook).xor l2 turn .rook
    · rw [e1, e2]
      simp only [xor_xor_rook]
      exact h

theorem rawCore_MP {p q : Position} (h : MP p q) {m : Move} (ok : MoveOK m) (turn : Color) (pc : Piece) :
    MP (rawCore p turn pc m) (rawCore q turn.opp pc (mm m)) := by
  unfold rawCore
  have s1 := h.xor ok.f turn pc
  have s2 : MP (if m.isCapture then (p.xor m.from turn pc).xor m.to turn.opp m.capture else p.xor m.from turn pc)
      (if m.isCapture then (q.xor (ms m.from) turn.opp pc).xor (ms m.to) turn.opp.opp m.capture
        else q.xor (ms m.from) turn.opp pc) := by
    by_cases hc : m.isCapture = true
    · rw [if_pos hc, if_pos hc]; exact s1.xor ok.t turn.opp m.capture
    · rw [if_neg hc, if_neg hc]; exact s1
  have s3 := s2.xor ok.t turn (movedPiece m pc)
  exact step4_MP s3 ok turn

theorem touches_mirror (m : Move) {c c' : Nat} (hc : ms c' = c) : touches (mm m) c = touches m c' := by
  unfold touches
  simp only [mm_from, mm_to, ms_eq_const hc]

/-- **`moveRaw` (the update of `Position.Move`) maps mirror images to mirror images** -/
theorem moveRaw_MP {p q : Position} (h : MP p q) {m : Move} (ok : MoveOK m) (turn : Color) (pc : Piece) :
    MP (moveRaw p turn pc m) (moveRaw q turn.opp pc (mm m)) := by
  have hc := rawCore_MP h ok turn pc
  obtain ⟨c1, c2, c3, c4, c5, c6, _⟩ := ms_consts
  have a1 : (ms m.from = E1) = (m.from = E8) := ms_eq_const c2
  have a8 : (ms m.from = E8) = (m.from = E1) := ms_eq_const c1
  refine ⟨fun c k => ?_, ?_, ?_, ?_, ?_, ?_, ?_, ?_, ?_, ?_, ?_⟩
  · rw [moveRaw_pieces, moveRaw_pieces]; exact hc.pc c k
  · rw [moveRaw_rotated]; exact hc.rp
  · rw [moveRaw_rotated]; exact hc.rq
  · rw [moveRaw_rotated, moveRaw_rotated]; exact hc.occ
  · rw [moveRaw_castling, moveRaw_castling, right_wK, right_bK, h.wk, touches_mirror m c4]
    simp only [mm_from, a1]
  · rw [moveRaw_castling, moveRaw_castling, right_wQ, right_bQ, h.wq, touches_mirror m c6]
    simp only [mm_from, a1]
  · rw [moveRaw_castling, moveRaw_castling, right_bK, right_wK, h.bk, touches_mirror m c3]
    simp only [mm_from, a8]
  · rw [moveRaw_castling, moveRaw_castling, right_bQ, right_wQ, h.bq, touches_mirror m c5]
    simp only [mm_from, a8]
  · rw [moveRaw_enpassant, enPassantTarget_eq']
    by_cases hj : m.ty = .jump
    · rw [hj]; exact (ept_mirror m.to ok.t (ok.jump hj)).2.1
    · have : (m.ty != MoveType.jump) = true := by rw [bne_iff_ne]; exact hj
      rw [if_pos this]; decide
  · rw [moveRaw_enpassant, moveRaw_enpassant, enPassantTarget_eq', enPassantTarget_eq', mm_ty, mm_to]
    intro h0
    by_cases hj : m.ty = .jump
    · rw [hj] at h0
      exact absurd h0 (ept_mirror m.to ok.t (ok.jump hj)).2.2.1
    · have : (m.ty != MoveType.jump) = true := by rw [bne_iff_ne]; exact hj
      rw [if_pos this]
  · rw [moveRaw_enpassant, moveRaw_enpassant, enPassantTarget_eq', enPassantTarget_eq', mm_ty, mm_to]
    intro h0
    by_cases hj : m.ty = .jump
    · obtain ⟨e1, _, e3, e4, e5⟩ := ept_mirror m.to ok.t (ok.jump hj)
      rw [hj]
      exact ⟨e1, e4, e5⟩
    · have : (m.ty != MoveType.jump) = true := by rw [bne_iff_ne]; exact hj
      rw [if_pos this] at h0
      exact absurd rfl h0

/-! ## `Position.Move` -/

theorem any_congr_mem {α : Type} {f g : α → Bool} : ∀ {l : List α}, (∀ a ∈ l, f a = g a) → l.any f = l.any g
  | [], _ => rfl
  | a :: l, h => by
    rw [List.any_cons, List.any_cons, h a (List.mem_cons_self ..),
      any_congr_mem (fun b hb => h b (List.mem_cons_of_mem _ hb))]

theorem move_none {p : Position} {m : Move} (h : p.square m.from = none) : p.move m = none := by
  unfold Position.move
  rw [h]

theorem safeSquares_mirror (turn : Color) (t : MoveType) :
    Position.safeCastlingSquares turn.opp t = (Position.safeCastlingSquares turn t).map ms := by
  cases turn <;> cases t <;> decide

theorem safeSquares_lt (turn : Color) (t : MoveType) : ∀ sq ∈ Position.safeCastlingSquares turn t, sq < 64 := by
  cases turn <;> cases t <;> decide

/-- the legality test of `Position.Move`, as a function of the colour and piece on the origin square -/
def moveTest (p : Position) (turn : Color) (pc : Piece) (m : Move) : Bool :=
  !(m.isCastle && (Position.safeCastlingSquares turn m.ty).any (fun sq => p.isAttacked turn sq)) &&
    !(moveRaw p turn pc m).isChecked turn

theorem move_eq_test {p : Position} {m : Move} {turn : Color} {pc : Piece} (hsq : p.square m.from = some (turn, pc)) :
    p.move m = if moveTest p turn pc m then some (moveRaw p turn pc m) else none := by
  have h := move_isSome_eq hsq
  cases hm : p.move m with
  | none =>
    rw [hm] at h
    have : moveTest p turn pc m = false := by unfold moveTest; exact h.symm
    rw [this]; rfl
  | some x =>
    rw [hm] at h
    have : moveTest p turn pc m = true := by unfold moveTest; exact h.symm
    rw [this, move_eq_some hsq hm]; rfl

theorem moveTest_mirror {p q : Position} (h : MP p q) {m : Move} (ok : MoveOK m) (turn : Color) (pc : Piece)
    (hk : One ((moveRaw p turn pc m).pieces turn .king)) :
    moveTest q turn.opp pc (mm m) = moveTest p turn pc m := by
  unfold moveTest
  rw [isChecked_mirror (moveRaw_MP h ok turn pc) turn hk, mm_isCastle, mm_ty, safeSquares_mirror, List.any_map]
  have : (Position.safeCastlingSquares turn m.ty).any ((fun sq => q.isAttacked turn.opp sq) ∘ Spec.mirrorSq) =
      (Position.safeCastlingSquares turn m.ty).any (fun sq => p.isAttacked turn sq) := by
    exact any_congr_mem (fun sq hsq => isAttacked_mirror h turn (safeSquares_lt turn m.ty sq hsq))
  rw [this]

end Morlock.Proofs.TuroMirror
