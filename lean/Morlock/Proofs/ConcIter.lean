import Morlock.Model.IterConc
/-!
# Helper lemmas for the iterative-deepening model (`Model/IterConc.lean`)
-/
namespace Morlock.Model.IterConc

/-- `[pv 1, …, pv n]` -/
def Cfg.pvs (cfg : Cfg) (n : Nat) : List PV := (List.range' 1 n).map cfg.pv

/-- `h.pv` already holds the PV of the depth being worked on -/
def SPc.stored : SPc → Bool
  | .unlock _ | .drain _ | .send _ | .closeInit _ => true
  | _ => false

/-- the PV of the depth being worked on was already sent -/
def SPc.sentYet : SPc → Bool
  | .closeInit _ => true
  | _ => false

def SPc.afterCancel : SPc → Bool
  | .exitCloseOut | .exitCloseInit | .exited => true
  | _ => false

/-- a value `h.pv` can hold: the zero value or a completed iteration -/
def Cfg.IsPv (cfg : Cfg) (r : PV) : Prop := r = (if r.depth = 0 then {} else cfg.pv r.depth)

/-- the PVs sent so far are those of depths 1, 2, … in order -/
def Cfg.SentOk (cfg : Cfg) (l : List PV) : Prop := l = cfg.pvs l.length

/-- what is known about a Halt call in a given state -/
def HaltOk (cfg : Cfg) (s : State) : HPc → Prop
  | .idle => True
  | .await n => n ≤ s.sent.length
  | .closeQuit n => n ≤ s.sent.length ∧ s.init = true
  | .lock n => n ≤ s.sent.length ∧ s.init = true ∧ s.quit = true
  | .read n => n ≤ s.sent.length ∧ s.init = true ∧ s.quit = true
  | .unlock n r => n ≤ r.depth ∧ r.depth ≤ s.pv.depth ∧ cfg.IsPv r ∧ s.init = true ∧ s.quit = true
  | .done n r => n ≤ r.depth ∧ r.depth ≤ s.pv.depth ∧ cfg.IsPv r ∧ s.init = true ∧ s.quit = true

end Morlock.Model.IterConc

namespace Morlock.Proofs.ConcIter
open Morlock.Model.IterConc

theorem run_nil (cfg : Cfg) (s : State) : run cfg s [] = s := rfl
theorem run_cons (cfg : Cfg) (s : State) (a : Act) (as : List Act) :
    run cfg s (a :: as) = run cfg (step cfg s a) as := rfl

theorem run_induction {cfg : Cfg} {I : State → Prop} (hstep : ∀ s a, I s → I (step cfg s a)) (sched : List Act)
    (s : State) (h : I s) : I (run cfg s sched) := by
  induction sched generalizing s with
  | nil => exact h
  | cons a as ih => exact ih _ (hstep s a h)

structure IterInv (cfg : Cfg) (s : State) : Prop where
  sent : cfg.SentOk s.sent
  pvOk : cfg.IsPv s.pv
  sentLe : s.sent.length ≤ s.pv.depth
  atDepth : ∀ d, s.spc.depth? = some d →
    1 ≤ d ∧ s.pv.depth + (if s.spc.stored then 0 else 1) = d ∧
    s.sent.length + (if s.spc.sentYet then 0 else 1) = d ∧
    ∀ d', 1 ≤ d' → d' < d → cfg.hardStop d' = false
  pastPv : ∀ d', 1 ≤ d' → d' < s.pv.depth → cfg.hardStop d' = false
  initOk : s.init = true → 1 ≤ s.pv.depth ∨ s.spc = .exited
  exitOk : s.spc.exiting = true → s.quit = false →
    1 ≤ s.pv.depth ∧ s.sent.length = s.pv.depth ∧ (cfg.hardStop s.pv.depth = true ∨ cfg.useSoft = true)
  cancelOk : s.cancelled = true → s.quit = true ∨ s.spc.afterCancel = true
  halts : ∀ h ∈ s.halts, HaltOk cfg s h

theorem haltOk_mono {cfg : Cfg} {s s' : State} (h1 : s.sent.length ≤ s'.sent.length)
    (h2 : s.pv.depth ≤ s'.pv.depth) (h3 : s.init = true → s'.init = true) (h4 : s.quit = true → s'.quit = true)
    {h : HPc} (hh : HaltOk cfg s h) : HaltOk cfg s' h := by
  cases h <;> simp only [HaltOk] at hh ⊢
  · exact Nat.le_trans hh h1
  · exact ⟨Nat.le_trans hh.1 h1, h3 hh.2⟩
  · exact ⟨Nat.le_trans hh.1 h1, h3 hh.2.1, h4 hh.2.2⟩
  · exact ⟨Nat.le_trans hh.1 h1, h3 hh.2.1, h4 hh.2.2⟩
  · exact ⟨hh.1, Nat.le_trans hh.2.1 h2, hh.2.2.1, h3 hh.2.2.2.1, h4 hh.2.2.2.2⟩
  · exact ⟨hh.1, Nat.le_trans hh.2.1 h2, hh.2.2.1, h3 hh.2.2.2.1, h4 hh.2.2.2.2⟩

theorem pvs_succ (cfg : Cfg) (n : Nat) : cfg.pvs (n + 1) = cfg.pvs n ++ [cfg.pv (n + 1)] := by
  simp [Cfg.pvs, List.range'_1_concat, Nat.add_comm]

theorem pvs_length (cfg : Cfg) (n : Nat) : (cfg.pvs n).length = n := by simp [Cfg.pvs]

theorem iterInv_init (cfg : Cfg) (n : Nat) : IterInv cfg (init n) := by
  refine ⟨rfl, rfl, Nat.le_refl _, ?_, ?_, ?_, ?_, ?_, ?_⟩
  · intro d hd; simp [init, SPc.depth?] at hd; subst hd
    simp [init, SPc.stored, SPc.sentYet]; intro d' h1 h2; omega
  · intro d' h1 h2; simp [init] at h2
  · intro h; simp [init] at h
  · intro h; simp [init, SPc.exiting] at h
  · intro h; simp [init] at h
  · intro h hh; simp [init] at hh; rw [hh.2]; trivial

set_option linter.unusedSimpArgs false in
theorem iterInv_searcher (cfg : Cfg) (s : State) (b : Bool) (h : IterInv cfg s) :
    IterInv cfg (stepSearcher cfg s b) := by
  obtain ⟨h1, h2, h3, h4, h5, h6, h7, h8, h9⟩ := h
  unfold stepSearcher
  cases hpc : s.spc <;> simp only [hpc] at h4 h6 h7 h8 ⊢
  all_goals (repeat' split)
  all_goals (first | exact ⟨h1, h2, h3, by rw [hpc]; exact h4, h5, by rw [hpc]; exact h6, by rw [hpc]; exact h7, by rw [hpc]; exact h8, h9⟩ | skip)
  all_goals (try (obtain ⟨hd1, hd2, hd3, hd4⟩ := h4 _ rfl; simp [SPc.stored, SPc.sentYet] at hd2 hd3))
  all_goals (refine ⟨?_, ?_, ?_, ?_, ?_, ?_, ?_, ?_, ?_⟩)
  all_goals (try dsimp only)
  all_goals (first
    | assumption
    | (intro hh hm; exact haltOk_mono (by simp) (by simp [Cfg.pv]; try omega) (by simp) (by simp) (h9 hh hm))
    | (simp_all [SPc.depth?, SPc.stored, SPc.sentYet, SPc.exiting, SPc.afterCancel, Cfg.pv]; done)
    | (simp [SPc.depth?, SPc.stored, SPc.sentYet, SPc.exiting, SPc.afterCancel, Cfg.pv]; omega)
    | skip)
  · -- store: the new `h.pv` is a completed iteration
    have hne : ¬ (cfg.pv ‹Nat›).depth = 0 := by simp [Cfg.pv]; omega
    unfold Cfg.IsPv; rw [if_neg hne]; rfl
  · -- send: `sent` grows by the PV of the next depth
    unfold Cfg.SentOk at h1 ⊢
    rw [List.length_append, List.length_singleton, pvs_succ, ← h1, hd3]
  · -- on to depth d + 1: depth d was not a hard stop
    rename_i d0 hstop _
    intro d hd
    simp [SPc.depth?] at hd; subst hd
    refine ⟨by omega, by simp [SPc.stored]; omega, by simp [SPc.sentYet]; omega, ?_⟩
    intro d' h1' h2'
    by_cases hq : d' < d0
    · exact hd4 d' h1' hq
    · have : d' = d0 := by omega
      rw [this]; simpa using hstop

theorem iterInv_watcher (cfg : Cfg) (s : State) (h : IterInv cfg s) : IterInv cfg (stepWatcher s) := by
  obtain ⟨h1, h2, h3, h4, h5, h6, h7, h8, h9⟩ := h
  unfold stepWatcher
  split
  · rename_i hq
    simp at hq
    exact ⟨h1, h2, h3, h4, h5, h6, h7, fun _ => .inl hq.1, fun hh hm => haltOk_mono (Nat.le_refl _) (Nat.le_refl _) id id (h9 hh hm)⟩
  · exact ⟨h1, h2, h3, h4, h5, h6, h7, h8, h9⟩

theorem iterInv_consumer (cfg : Cfg) (s : State) (h : IterInv cfg s) : IterInv cfg (stepConsumer s) := by
  obtain ⟨h1, h2, h3, h4, h5, h6, h7, h8, h9⟩ := h
  unfold stepConsumer
  split
  · exact ⟨h1, h2, h3, h4, h5, h6, h7, h8, fun hh hm => haltOk_mono (Nat.le_refl _) (Nat.le_refl _) id id (h9 hh hm)⟩
  · exact ⟨h1, h2, h3, h4, h5, h6, h7, h8, h9⟩

theorem iterInv_halt (cfg : Cfg) (s : State) (k : Nat) (h : IterInv cfg s) : IterInv cfg (stepHalt s k) := by
  obtain ⟨h1, h2, h3, h4, h5, h6, h7, h8, h9⟩ := h
  unfold stepHalt
  cases hk : s.halts[k]? with
  | none => exact ⟨h1, h2, h3, h4, h5, h6, h7, h8, h9⟩
  | some hp =>
    have hmem : hp ∈ s.halts := List.mem_of_getElem? hk
    have hok := h9 hp hmem
    -- the other callers keep what is known about them; the stepping caller gets `hnew`
    have hset : ∀ (s' : State) (x : HPc), s'.halts = s.halts.set k x →
        s.sent.length ≤ s'.sent.length → s.pv.depth ≤ s'.pv.depth → (s.init = true → s'.init = true) →
        (s.quit = true → s'.quit = true) → HaltOk cfg s' x → ∀ h ∈ s'.halts, HaltOk cfg s' h := by
      intro s' x he a1 a2 a3 a4 hnew hh hm
      rw [he] at hm
      rcases List.mem_or_eq_of_mem_set hm with hm | hm
      · exact haltOk_mono a1 a2 a3 a4 (h9 hh hm)
      · rw [hm]; exact hnew
    simp only
    cases hp with
    | idle =>
      simp only
      exact ⟨h1, h2, h3, h4, h5, h6, h7, h8,
        hset _ _ rfl (Nat.le_refl _) (Nat.le_refl _) id id (by simp [HaltOk])⟩
    | await n =>
      simp only
      split
      · rename_i hinit
        exact ⟨h1, h2, h3, h4, h5, h6, h7, h8,
          hset _ _ rfl (Nat.le_refl _) (Nat.le_refl _) id id (by simp only [HaltOk] at hok ⊢; exact ⟨hok, hinit⟩)⟩
      · exact ⟨h1, h2, h3, h4, h5, h6, h7, h8, h9⟩
    | closeQuit n =>
      simp only
      refine ⟨h1, h2, h3, h4, h5, h6, ?_, fun _ => .inl rfl,
        hset _ _ rfl (Nat.le_refl _) (Nat.le_refl _) id (fun _ => rfl)
          (by simp only [HaltOk] at hok ⊢; exact ⟨hok.1, hok.2, trivial⟩)⟩
      intro _ hq; simp at hq
    | lock n =>
      simp only
      split
      · exact ⟨h1, h2, h3, h4, h5, h6, h7, h8,
          hset _ _ rfl (Nat.le_refl _) (Nat.le_refl _) id id (by simp only [HaltOk] at hok ⊢; exact hok)⟩
      · exact ⟨h1, h2, h3, h4, h5, h6, h7, h8, h9⟩
    | read n =>
      simp only
      exact ⟨h1, h2, h3, h4, h5, h6, h7, h8,
        hset _ _ rfl (Nat.le_refl _) (Nat.le_refl _) id id
          (by simp only [HaltOk] at hok ⊢; exact ⟨Nat.le_trans hok.1 h3, Nat.le_refl _, h2, hok.2.1, hok.2.2⟩)⟩
    | unlock n r =>
      simp only
      exact ⟨h1, h2, h3, h4, h5, h6, h7, h8,
        hset _ _ rfl (Nat.le_refl _) (Nat.le_refl _) id id (by simp only [HaltOk] at hok ⊢; exact hok)⟩
    | done n r => simp only; exact ⟨h1, h2, h3, h4, h5, h6, h7, h8, h9⟩

theorem iterInv_step (cfg : Cfg) (s : State) (a : Act) (h : IterInv cfg s) : IterInv cfg (step cfg s a) := by
  cases a with
  | searcher b => exact iterInv_searcher cfg s b h
  | watcher => exact iterInv_watcher cfg s h
  | halt k => exact iterInv_halt cfg s k h
  | consumer => exact iterInv_consumer cfg s h

theorem iterInv_run (cfg : Cfg) (n : Nat) (sched : List Act) : IterInv cfg (run cfg (init n) sched) :=
  run_induction (iterInv_step cfg) sched _ (iterInv_init cfg n)

/-- the depths of the first `n` PVs sent are at most `n` -/
theorem mem_take_pvs {cfg : Cfg} {m n : Nat} {pv : PV} (h : pv ∈ (cfg.pvs m).take n) : 1 ≤ pv.depth ∧ pv.depth ≤ n := by
  obtain ⟨i, hi⟩ := List.mem_iff_getElem?.1 h
  rw [List.getElem?_take] at hi
  split at hi
  · rename_i hlt
    simp only [Cfg.pvs, List.getElem?_map] at hi
    cases hr : (List.range' 1 m)[i]? with
    | none => simp [hr] at hi
    | some d =>
      simp [hr] at hi
      have hm : i < m := by
        have := (List.getElem?_eq_some_iff.1 hr).1; simpa using this
      have := List.getElem?_range' (s := 1) (n := m) (i := i) (step := 1)
      rw [hr] at this
      have := this hm
      simp at this; subst this; subst hi; simp [Cfg.pv]; omega
  · simp at hi

/-! ## the searcher is never stuck (except while a Halt call holds the mutex) -/

/-- at `out <- pv` the channel is empty: the searcher has just drained it and is the only sender -/
def SendInv (s : State) : Prop := ∀ d, s.spc = .send d → s.buf = none

theorem sendInv_step (cfg : Cfg) (s : State) (a : Act) (h : SendInv s) : SendInv (step cfg s a) := by
  cases a with
  | searcher b =>
    simp only [step, stepSearcher]
    cases hpc : s.spc <;> simp only
    all_goals (repeat' split)
    all_goals (first | exact h | (intro d hd; rfl) | (intro d hd; simp at hd))
  | watcher =>
    simp only [step, stepWatcher]; split
    · exact h
    · exact h
  | halt k =>
    simp only [step, stepHalt]
    repeat' split
    all_goals exact h
  | consumer =>
    simp only [step, stepConsumer]; split
    · intro d _; rfl
    · exact h

theorem sendInv_run (cfg : Cfg) (n : Nat) (sched : List Act) : SendInv (run cfg (init n) sched) :=
  run_induction (sendInv_step cfg) sched _ (by intro d hd; simp [init] at hd)

theorem searcher_moves (cfg : Cfg) (s : State) (b : Bool) (hs : SendInv s) (hne : s.spc ≠ .exited)
    (hmu : ∀ d, s.spc = .lock d → s.mu = none) : (stepSearcher cfg s b).spc ≠ s.spc := by
  unfold stepSearcher
  cases hpc : s.spc <;> simp only
  all_goals (repeat' split)
  all_goals (first | (simp; done) | (simp_all; done) | skip)
  · rename_i d hb; exact absurd (by rw [hs d hpc]; rfl) hb

/-! ## stopping conditions, for an arbitrary state satisfying the invariants -/

theorem depth_or_exiting (pc : SPc) : pc.exiting = true ∨ ∃ d, pc.depth? = some d := by
  cases pc <;> simp [SPc.exiting, SPc.depth?]

theorem stops_at_limit_of (cfg : Cfg) (s : State) (h : IterInv cfg s) (hs : SendInv s)
    (hq : s.quit = false) :
    (s.spc.exiting = true →
      1 ≤ s.pv.depth ∧ s.pv = cfg.pv s.pv.depth ∧ s.sent = (List.range' 1 s.pv.depth).map cfg.pv ∧
      (cfg.hardStop s.pv.depth = true ∨ cfg.useSoft = true) ∧
      ∀ d', 1 ≤ d' → d' < s.pv.depth → cfg.hardStop d' = false) ∧
    (s.spc.exiting = false →
      ∃ d, s.spc.depth? = some d ∧ 1 ≤ d ∧ (∀ d', 1 ≤ d' → d' < d → cfg.hardStop d' = false) ∧
        ∀ b, (∀ d, s.spc = .lock d → s.mu = none) → (step cfg s (.searcher b)).spc ≠ s.spc) := by
  constructor
  · intro he
    obtain ⟨e1, e2, e3⟩ := h.exitOk he hq
    have hpv := h.pvOk
    unfold Cfg.IsPv at hpv
    rw [if_neg (by omega)] at hpv
    refine ⟨e1, hpv, ?_, e3, h.pastPv⟩
    have := h.sent
    unfold Cfg.SentOk at this
    rw [this, e2]; rfl
  · intro he
    rcases depth_or_exiting s.spc with hx | ⟨d, hd⟩
    · rw [hx] at he; cases he
    · obtain ⟨a1, _, _, a4⟩ := h.atDepth d hd
      refine ⟨d, hd, a1, a4, fun b hmu => ?_⟩
      refine searcher_moves cfg s b hs ?_ hmu
      intro hex; rw [hex] at hd; simp [SPc.depth?] at hd

end Morlock.Proofs.ConcIter
