import Morlock.Model.TTConc
/-!
# Helper lemmas for the concurrent transposition-table model (`Model/TTConc.lean`)

Invariants are proved for one step (`*_step`) and lifted to every schedule by list induction (`*_run`).
-/
namespace Morlock.Proofs.ConcTT
open Morlock Morlock.Model Morlock.Model.TTConc

variable {π : Type}

/-! ## list helpers -/

theorem countP_set' {α : Type} (p : α → Bool) {l : List α} {i : Nat} {a : α} (b : α) (h : l[i]? = some a) :
    (l.set i b).countP p + (if p a then 1 else 0) = l.countP p + (if p b then 1 else 0) := by
  induction l generalizing i with
  | nil => simp at h
  | cons x xs ih =>
    cases i with
    | zero =>
      simp at h; subst h
      simp [List.countP_cons]; omega
    | succ j =>
      simp at h
      have := ih h
      simp [List.countP_cons]; omega

theorem getD_mem {α : Type} {l : List (Option α)} {k : Nat} {a : α} (h : l.getD k none = some a) : some a ∈ l := by
  rw [List.getD_eq_getElem?_getD] at h
  cases hk : l[k]? with
  | none => simp [hk] at h
  | some x => simp [hk] at h; subst h; exact List.mem_of_getElem? hk

theorem getD_set_self {α : Type} {l : List α} {k : Nat} {a d : α} (h : k < l.length) : (l.set k a).getD k d = a := by
  simp [List.getD_eq_getElem?_getD, h]

theorem getD_set_ne {α : Type} {l : List α} {k j : Nat} {a d : α} (h : k ≠ j) : (l.set k a).getD j d = l.getD j d := by
  simp [List.getD_eq_getElem?_getD, h]

/-! ## shape of a step -/

@[simp] theorem ret_pc (t : Thread π) : t.ret.pc = .call := rfl
@[simp] theorem isW3_call : (Pc.call : Pc π).isW3 = false := rfl
@[simp] theorem isW3_w0 (f : Node π) : (Pc.w0 f).isW3 = false := rfl
@[simp] theorem isW3_w1 (f : Node π) (p) : (Pc.w1 f p).isW3 = false := rfl
@[simp] theorem isW3_w2 (f : Node π) (p) : (Pc.w2 f p).isW3 = false := rfl
@[simp] theorem isW3_w3 (f : Node π) : (Pc.w3 f).isW3 = true := rfl
@[simp] theorem isW3_w3b (f : Node π) (n) : (Pc.w3b f n).isW3 = false := rfl
@[simp] theorem ret_calls (t : Thread π) : t.ret.calls = t.calls.tail := rfl


theorem step_eq (s : State π) (i : Nat) :
    (s.threads[i]? = none ∧ step s i = s) ∨
    ∃ t, s.threads[i]? = some t ∧
      step s i = { (stepT true s i t).1 with threads := s.threads.set i (stepT true s i t).2 } := by
  unfold step stepWith
  cases h : s.threads[i]? with
  | none => exact .inl ⟨rfl, rfl⟩
  | some t => exact .inr ⟨t, rfl, rfl⟩

theorem stepT_threads (b : Bool) (s : State π) (i : Nat) (t : Thread π) : (stepT b s i t).1.threads = s.threads := by
  unfold stepT
  repeat' split
  all_goals rfl

theorem run_nil (s : State π) : run s [] = s := rfl
theorem run_cons (s : State π) (i : Nat) (is : List Nat) : run s (i :: is) = run (step s i) is := rfl
theorem run_append (s : State π) (a b : List Nat) : run s (a ++ b) = run (run s a) b := by
  simp [run, List.foldl_append]

/-- lift a one-step invariant to every schedule -/
theorem run_induction {I : State π → Prop} (hstep : ∀ s i, I s → I (step s i)) (sched : List Nat) (s : State π)
    (h : I s) : I (run s sched) := by
  induction sched generalizing s with
  | nil => exact h
  | cons i is ih => exact ih _ (hstep s i h)

/-! ## `used` counts the occupied slots -/

/-- no thread is in the middle of a split increment (the repaired code has no such state) -/
def NoSplit (s : State π) : Prop := ∀ t ∈ s.threads, ∀ f tmp, t.pc ≠ .w3b f tmp

structure UsedInv (s : State π) : Prop where
  npos : 0 < s.slots.length
  nosplit : NoSplit s
  exact : s.used + pendingAdds s = occupied s

theorem key_lt {s : State π} (h : 0 < s.slots.length) (hash : Nat) : key s hash < s.slots.length :=
  Nat.mod_lt _ h

theorem samePtr_none {a : Option (Node π)} (h : samePtr a none = true) : a = none := by
  cases a <;> simp [samePtr] at h ⊢

theorem samePtr_some {a : Option (Node π)} {n : Node π} (h : samePtr a (some n) = true) : ∃ m, a = some m ∧ m.id = n.id := by
  cases a with
  | none => simp [samePtr] at h
  | some m => exact ⟨m, rfl, by simpa [samePtr] using h⟩

theorem occupied_set_none {s : State π} {k : Nat} (n : Node π) (hk : k < s.slots.length) (h : slotAt s k = none) :
    (s.slots.set k (some n)).countP (·.isSome) = occupied s + 1 := by
  have hk' : s.slots[k]? = some none := by
    have : s.slots[k]? = some s.slots[k] := List.getElem?_eq_getElem hk
    simp [slotAt, List.getD_eq_getElem?_getD, this] at h
    rw [this, h]
  have := countP_set' (·.isSome) (some n) hk'
  simp at this
  simpa [occupied] using this

theorem occupied_set_some {s : State π} {k : Nat} (n m : Node π) (h : slotAt s k = some m) :
    (s.slots.set k (some n)).countP (·.isSome) = occupied s := by
  have hk' : s.slots[k]? = some (some m) := by
    simp only [slotAt, List.getD_eq_getElem?_getD] at h
    cases hx : s.slots[k]? with
    | none => simp [hx] at h
    | some x => simp [hx] at h; rw [h]
  have := countP_set' (·.isSome) (some n) hk'
  simp at this
  simpa [occupied] using this

theorem usedInv_step (s : State π) (i : Nat) (h : UsedInv s) : UsedInv (step s i) := by
  rcases step_eq s i with ⟨_, he⟩ | ⟨t, ht, he⟩
  · rw [he]; exact h
  rw [he]
  have hmem : t ∈ s.threads := List.mem_of_getElem? ht
  have hns := h.nosplit t hmem
  have hcnt := fun b => countP_set' (fun t : Thread π => t.pc.isW3) b ht
  obtain ⟨hn, hsplit, hex⟩ := h
  unfold pendingAdds at hex
  cases hpc : t.pc with
  | call =>
    cases hc : t.calls with
    | nil =>
      have : stepT true s i t = (s, t) := by simp [stepT, hpc, hc]
      rw [this]
      have := hcnt t
      refine ⟨hn, ?_, ?_⟩
      · intro u hu; rcases List.mem_or_eq_of_mem_set hu with hu | hu
        · exact hsplit u hu
        · subst hu; exact hns
      · simp only [pendingAdds, occupied] at hex ⊢; omega
    | cons c cs =>
      cases c with
      | read hh =>
        simp only [stepT, hpc, hc]
        have := hcnt t.ret
        simp [hpc] at this
        refine ⟨hn, ?_, ?_⟩
        · intro u hu; rcases List.mem_or_eq_of_mem_set hu with hu | hu
          · exact hsplit u hu
          · subst hu; simp [Thread.ret]
        · simp only [pendingAdds, occupied] at hex ⊢; omega
      | write hh p v =>
        simp only [stepT, hpc, hc]
        have := hcnt { t with pc := .w0 ⟨s.nextId, hh, p, v⟩ }
        simp [hpc, hc] at this
        refine ⟨hn, ?_, ?_⟩
        · intro u hu; rcases List.mem_or_eq_of_mem_set hu with hu | hu
          · exact hsplit u hu
          · subst hu; simp
        · simp only [pendingAdds, occupied] at hex ⊢; omega
  | w0 f =>
    simp only [stepT, hpc]
    have := hcnt { t with pc := .w1 f (slotAt s (key s f.hash)) }
    simp [hpc] at this
    refine ⟨hn, ?_, ?_⟩
    · intro u hu; rcases List.mem_or_eq_of_mem_set hu with hu | hu
      · exact hsplit u hu
      · subst hu; simp
    · simp only [pendingAdds, occupied] at hex ⊢; omega
  | w1 f p =>
    simp only [stepT, hpc]
    split
    · have := hcnt t.ret
      simp [hpc] at this
      refine ⟨hn, ?_, ?_⟩
      · intro u hu; rcases List.mem_or_eq_of_mem_set hu with hu | hu
        · exact hsplit u hu
        · subst hu; simp [Thread.ret]
      · simp only [pendingAdds, occupied, logWrite] at hex ⊢; omega
    · have := hcnt { t with pc := .w2 f p }
      simp [hpc] at this
      refine ⟨hn, ?_, ?_⟩
      · intro u hu; rcases List.mem_or_eq_of_mem_set hu with hu | hu
        · exact hsplit u hu
        · subst hu; simp
      · simp only [pendingAdds, occupied] at hex ⊢; omega
  | w2 f p =>
    simp only [stepT, hpc]
    split
    next hcas =>
      split
      next hnone =>
        have hp : p = none := by cases p <;> simp at hnone ⊢
        subst hp
        have hslot := samePtr_none hcas
        have hocc := occupied_set_none f (key_lt hn f.hash) hslot
        have := hcnt { t with pc := .w3 f }
        simp [hpc] at this
        refine ⟨by simpa [publish] using hn, ?_, ?_⟩
        · intro u hu; rcases List.mem_or_eq_of_mem_set hu with hu | hu
          · exact hsplit u hu
          · subst hu; simp
        · simp only [pendingAdds, occupied, publish] at hex hocc ⊢; omega
      next hsome =>
        obtain ⟨q, hq⟩ : ∃ q, p = some q := by cases p <;> simp at hsome ⊢
        subst hq
        obtain ⟨m, hm, _⟩ := samePtr_some hcas
        have hocc := occupied_set_some f m hm
        have := hcnt t.ret
        simp [hpc] at this
        refine ⟨by simpa [publish, logWrite] using hn, ?_, ?_⟩
        · intro u hu; rcases List.mem_or_eq_of_mem_set hu with hu | hu
          · exact hsplit u hu
          · subst hu; simp [Thread.ret]
        · simp only [pendingAdds, occupied, publish, logWrite] at hex hocc ⊢; omega
    next hcas =>
      have := hcnt { t with pc := .w0 f }
      simp [hpc] at this
      refine ⟨hn, ?_, ?_⟩
      · intro u hu; rcases List.mem_or_eq_of_mem_set hu with hu | hu
        · exact hsplit u hu
        · subst hu; simp
      · simp only [pendingAdds, occupied] at hex ⊢; omega
  | w3 f =>
    simp only [stepT, hpc, if_true]
    have := hcnt t.ret
    simp [hpc] at this
    refine ⟨hn, ?_, ?_⟩
    · intro u hu; rcases List.mem_or_eq_of_mem_set hu with hu | hu
      · exact hsplit u hu
      · subst hu; simp [Thread.ret]
    · simp only [pendingAdds, occupied, logWrite] at hex ⊢; omega
  | w3b f tmp => exact absurd hpc (hns f tmp)

theorem usedInv_run (sched : List Nat) (s : State π) (h : UsedInv s) : UsedInv (run s sched) :=
  run_induction usedInv_step sched s h

theorem usedInv_init (n : Nat) (hn : 0 < n) (progs : List (List (Call π))) : UsedInv (init n progs) := by
  refine ⟨by simpa [init] using hn, ?_, ?_⟩
  · intro t ht; simp [init] at ht; obtain ⟨cs, _, rfl⟩ := ht; simp
  · simp [init, pendingAdds, occupied, List.countP_replicate, List.countP_map, Function.comp_def, Pc.isW3]

/-! ## nodes in the system, allocation -/

/-- the nodes a thread holds pointers to and may still compare or publish -/
def pcNodes : Pc π → List (Node π)
  | .w0 f => [f]
  | .w1 f p => f :: p.toList
  | .w2 f p => f :: p.toList
  | _ => []

/-- `n` is reachable: published in a slot, or held by a thread in the middle of a `Write` -/
def InSys (s : State π) (n : Node π) : Prop := some n ∈ s.slots ∨ ∃ t ∈ s.threads, n ∈ pcNodes t.pc

/-- the node thread `t` allocates with its next step, if that step starts a `Write` -/
def allocOf (s : State π) (t : Thread π) : Option (Node π) :=
  match t.pc, t.calls with
  | .call, .write h p v :: _ => some ⟨s.nextId, h, p, v⟩
  | _, _ => none

theorem allocOf_some {s : State π} {t : Thread π} {n : Node π} (h : allocOf s t = some n) :
    n.id = s.nextId ∧ Call.write n.hash n.payload n.val ∈ t.calls := by
  unfold allocOf at h
  split at h
  · simp at h; subst h; simp_all
  · simp at h

theorem slotAt_mem {s : State π} {k : Nat} {n : Node π} (h : slotAt s k = some n) : some n ∈ s.slots :=
  getD_mem h

theorem stepT_slots (s : State π) (i : Nat) (t : Thread π) (n : Node π)
    (h : some n ∈ (stepT true s i t).1.slots) : some n ∈ s.slots ∨ n ∈ pcNodes t.pc := by
  cases hpc : t.pc with
  | call =>
    cases hc : t.calls with
    | nil => simp [stepT, hpc, hc] at h; exact .inl h
    | cons c cs => cases c <;> (simp [stepT, hpc, hc] at h; exact .inl h)
  | w0 f => simp [stepT, hpc] at h; exact .inl h
  | w1 f p =>
    simp only [stepT, hpc] at h
    split at h <;> exact .inl (by simpa [logWrite] using h)
  | w2 f p =>
    simp only [stepT, hpc] at h
    split at h
    · have : some n ∈ s.slots.set (key s f.hash) (some f) := by
        split at h <;> simpa [publish, logWrite] using h
      rcases List.mem_or_eq_of_mem_set this with h' | h'
      · exact .inl h'
      · simp at h'; subst h'; simp [pcNodes]
    · exact .inl h
  | w3 f => simp [stepT, hpc, logWrite] at h; exact .inl h
  | w3b f tmp => simp [stepT, hpc, logWrite] at h; exact .inl h

theorem stepT_pcNodes (s : State π) (i : Nat) (t : Thread π) (n : Node π)
    (h : n ∈ pcNodes (stepT true s i t).2.pc) :
    n ∈ pcNodes t.pc ∨ some n ∈ s.slots ∨ allocOf s t = some n := by
  cases hpc : t.pc with
  | call =>
    cases hc : t.calls with
    | nil => simp [stepT, hpc, hc, pcNodes] at h
    | cons c cs =>
      cases c with
      | read hh => simp [stepT, hpc, hc, pcNodes] at h
      | write hh p v =>
        simp [stepT, hpc, hc, pcNodes] at h
        subst h; simp [allocOf, hpc, hc]
  | w0 f =>
    simp [stepT, hpc, pcNodes] at h
    rcases h with h | h
    · subst h; simp [pcNodes]
    · exact .inr (.inl (slotAt_mem h))
  | w1 f p =>
    simp only [stepT, hpc] at h
    split at h
    · simp [pcNodes] at h
    · exact .inl (by simpa [pcNodes] using h)
  | w2 f p =>
    simp only [stepT, hpc] at h
    split at h
    · split at h <;> simp [pcNodes] at h
    · simp [pcNodes] at h; subst h; simp [pcNodes]
  | w3 f => simp [stepT, hpc, pcNodes] at h
  | w3b f tmp => simp [stepT, hpc, pcNodes] at h

theorem stepT_nextId (s : State π) (i : Nat) (t : Thread π) :
    (stepT true s i t).1.nextId = s.nextId + (if (allocOf s t).isSome then 1 else 0) := by
  cases hpc : t.pc with
  | call =>
    cases hc : t.calls with
    | nil => simp [stepT, hpc, hc, allocOf]
    | cons c cs => cases c <;> simp [stepT, hpc, hc, allocOf]
  | w0 f => simp [stepT, hpc, allocOf]
  | w1 f p => simp only [stepT, hpc, allocOf]; split <;> simp [logWrite]
  | w2 f p =>
    simp only [stepT, hpc, allocOf]
    split
    · split <;> simp [logWrite, publish]
    · simp
  | w3 f => simp [stepT, hpc, allocOf, logWrite]
  | w3b f tmp => simp [stepT, hpc, allocOf, logWrite]

theorem stepT_calls (s : State π) (i : Nat) (t : Thread π) (c : Call π)
    (h : c ∈ (stepT true s i t).2.calls) : c ∈ t.calls := by
  have htail : c ∈ t.calls.tail → c ∈ t.calls := List.mem_of_mem_tail
  cases hpc : t.pc with
  | call =>
    cases hc : t.calls with
    | nil => simp [stepT, hpc, hc] at h
    | cons c' cs => cases c' <;> simp [stepT, hpc, hc] at h <;> simp [h]
  | w0 f => simpa [stepT, hpc] using h
  | w1 f p => simp only [stepT, hpc] at h; split at h <;> first | exact htail (by simpa using h) | simpa using h
  | w2 f p =>
    simp only [stepT, hpc] at h
    split at h
    · split at h <;> first | exact htail (by simpa using h) | simpa using h
    · simpa using h
  | w3 f => exact htail (by simpa [stepT, hpc] using h)
  | w3b f tmp => exact htail (by simpa [stepT, hpc] using h)

/-- where the reachable nodes of the next state come from -/
theorem inSys_step {s : State π} {i : Nat} {n : Node π} (h : InSys (step s i) n) :
    InSys s n ∨ ∃ t, s.threads[i]? = some t ∧ allocOf s t = some n := by
  rcases step_eq s i with ⟨_, he⟩ | ⟨t, ht, he⟩
  · rw [he] at h; exact .inl h
  rw [he] at h
  have hmem : t ∈ s.threads := List.mem_of_getElem? ht
  rcases h with h | ⟨u, hu, hn⟩
  · rcases stepT_slots s i t n h with h | h
    · exact .inl (.inl h)
    · exact .inl (.inr ⟨t, hmem, h⟩)
  · rcases List.mem_or_eq_of_mem_set hu with hu | hu
    · exact .inl (.inr ⟨u, hu, hn⟩)
    · subst hu
      rcases stepT_pcNodes s i t n hn with h | h | h
      · exact .inl (.inr ⟨t, hmem, h⟩)
      · exact .inl (.inl h)
      · exact .inr ⟨t, ht, h⟩

theorem nextId_step (s : State π) (i : Nat) :
    (s.threads[i]? = none ∧ (step s i).nextId = s.nextId) ∨
    ∃ t, s.threads[i]? = some t ∧ (step s i).nextId = s.nextId + (if (allocOf s t).isSome then 1 else 0) := by
  rcases step_eq s i with ⟨hn, he⟩ | ⟨t, ht, he⟩
  · rw [he]; exact .inl ⟨hn, rfl⟩
  · rw [he]; exact .inr ⟨t, ht, stepT_nextId s i t⟩

/-! ## allocation identities: ids are fresh, so pointer equality is node equality (no ABA) -/

structure IdInv (s : State π) : Prop where
  bound : ∀ n, InSys s n → n.id < s.nextId
  unique : ∀ a b, InSys s a → InSys s b → a.id = b.id → a = b

theorem idInv_step (s : State π) (i : Nat) (h : IdInv s) : IdInv (step s i) := by
  have hid : ∀ n, InSys (step s i) n →
      (InSys s n ∧ n.id < s.nextId ∧ s.nextId ≤ (step s i).nextId) ∨
      (∃ t, s.threads[i]? = some t ∧ allocOf s t = some n ∧ n.id = s.nextId ∧ (step s i).nextId = s.nextId + 1) := by
    intro n hn
    rcases inSys_step hn with h' | ⟨t, ht, ha⟩
    · refine .inl ⟨h', h.bound n h', ?_⟩
      rcases nextId_step s i with ⟨_, e⟩ | ⟨t, _, e⟩ <;> rw [e] <;> omega
    · refine .inr ⟨t, ht, ha, (allocOf_some ha).1, ?_⟩
      rcases nextId_step s i with ⟨e, _⟩ | ⟨t', ht', e⟩
      · rw [e] at ht; cases ht
      · rw [ht] at ht'; cases ht'; rw [e, ha]; rfl
  constructor
  · intro n hn
    rcases hid n hn with ⟨_, h1, h2⟩ | ⟨_, _, _, h1, h2⟩ <;> omega
  · intro a b ha hb hab
    rcases hid a ha with ⟨ha', ha1, _⟩ | ⟨ta, hta, haa, ha1, _⟩ <;>
    rcases hid b hb with ⟨hb', hb1, _⟩ | ⟨tb, htb, hbb, hb1, _⟩
    · exact h.unique a b ha' hb' hab
    · omega
    · omega
    · rw [hta] at htb; cases htb; rw [haa] at hbb; cases hbb; rfl

/-! ## effect of a step on slots and trace -/

/-- The four kinds of step, by their effect on the shared slots and the ghost trace. -/
theorem stepT_effect (s : State π) (i : Nat) (t : Thread π) :
    ((stepT true s i t).1.trace = s.trace ∧ (stepT true s i t).1.slots = s.slots) ∨
    (∃ h cs, t.pc = .call ∧ t.calls = .read h :: cs ∧ (stepT true s i t).1.slots = s.slots ∧
      (stepT true s i t).1.trace = .readRet i h (readResult (slotAt s (key s h)) h) :: s.trace) ∨
    (∃ (f : Node π) (ok : Bool), (stepT true s i t).1.slots = s.slots ∧
      (stepT true s i t).1.trace = .writeRet i f.hash f.payload f.val ok :: s.trace) ∨
    (∃ (f : Node π) (p : Option (Node π)), t.pc = .w2 f p ∧ casOk s f p = true ∧
      (stepT true s i t).1.slots = s.slots.set (key s f.hash) (some f) ∧
      ((stepT true s i t).1.trace = .cas i (key s f.hash) (slotAt s (key s f.hash)) f :: s.trace ∨
       (stepT true s i t).1.trace = .writeRet i f.hash f.payload f.val true ::
          .cas i (key s f.hash) (slotAt s (key s f.hash)) f :: s.trace)) := by
  cases hpc : t.pc with
  | call =>
    cases hc : t.calls with
    | nil => simp [stepT, hpc, hc]
    | cons c cs =>
      cases c with
      | read hh => simp [stepT, hpc, hc]
      | write hh p v => simp [stepT, hpc, hc]
  | w0 f => simp [stepT, hpc]
  | w1 f p =>
    simp only [stepT, hpc]
    split
    · exact .inr (.inr (.inl ⟨f, false, rfl, rfl⟩))
    · exact .inl ⟨rfl, rfl⟩
  | w2 f p =>
    simp only [stepT, hpc]
    split
    next hcas =>
      refine .inr (.inr (.inr ⟨f, p, rfl, hcas, ?_⟩))
      split
      · exact ⟨rfl, .inl rfl⟩
      · exact ⟨rfl, .inr rfl⟩
    next => exact .inl ⟨rfl, rfl⟩
  | w3 f => exact .inr (.inr (.inl ⟨f, true, by simp [stepT, hpc, logWrite], by simp [stepT, hpc, logWrite]⟩))
  | w3b f tmp => exact .inr (.inr (.inl ⟨f, true, by simp [stepT, hpc, logWrite], by simp [stepT, hpc, logWrite]⟩))

/-- the only way into `w2` is through the comparison of `w1` -/
theorem stepT_w2 (s : State π) (i : Nat) (t : Thread π) (f : Node π) (p : Option (Node π))
    (h : (stepT true s i t).2.pc = .w2 f p) : valOf p ≤ f.val := by
  cases hpc : t.pc with
  | call =>
    cases hc : t.calls with
    | nil => simp [stepT, hpc, hc] at h
    | cons c cs => cases c <;> simp [stepT, hpc, hc] at h
  | w0 f' => simp [stepT, hpc] at h
  | w1 f' p' =>
    simp only [stepT, hpc] at h
    split at h
    · simp at h
    · simp at h; obtain ⟨rfl, rfl⟩ := h; omega
  | w2 f' p' =>
    simp only [stepT, hpc] at h
    split at h
    · split at h <;> simp at h
    · simp at h
  | w3 f' => simp [stepT, hpc] at h
  | w3b f' tmp => simp [stepT, hpc] at h

/-! ## the main invariant -/

/-- what a trace event must satisfy, given the events `older` than it -/
def EvOK (P : Call π → Prop) (older : List (Event π)) : Event π → Prop
  | .cas _ _ old new => valOf old ≤ new.val
  | .readRet _ h (some n) =>
    n.hash = h ∧ P (.write n.hash n.payload n.val) ∧ ∃ tid k old, Event.cas tid k old n ∈ older
  | _ => True

def TraceOK (P : Call π → Prop) : List (Event π) → Prop
  | [] => True
  | ev :: tr => EvOK P tr ev ∧ TraceOK P tr

structure NodeInv (P : Call π → Prop) (s : State π) : Prop where
  ids : IdInv s
  w2 : ∀ t ∈ s.threads, ∀ f p, t.pc = .w2 f p → valOf p ≤ f.val
  nodes : ∀ n, InSys s n → P (.write n.hash n.payload n.val)
  calls : ∀ t ∈ s.threads, ∀ c ∈ t.calls, P c
  published : ∀ n, some n ∈ s.slots → ∃ tid k old, Event.cas tid k old n ∈ s.trace
  trace : TraceOK P s.trace

/-- a successful CAS replaces an entry of smaller or equal value -/
theorem cas_le {P : Call π → Prop} {s : State π} (h : NodeInv P s) {t : Thread π} (ht : t ∈ s.threads)
    {f : Node π} {p : Option (Node π)} (hpc : t.pc = .w2 f p) (hcas : casOk s f p = true) :
    slotAt s (key s f.hash) = p ∧ valOf p ≤ f.val := by
  refine ⟨?_, h.w2 t ht f p hpc⟩
  cases p with
  | none => exact samePtr_none hcas
  | some q =>
    obtain ⟨m, hm, hid⟩ := samePtr_some hcas
    have h1 : InSys s m := .inl (slotAt_mem hm)
    have h2 : InSys s q := .inr ⟨t, ht, by simp [hpc, pcNodes]⟩
    rw [hm, h.ids.unique m q h1 h2 hid]

theorem readResult_some {ptr : Option (Node π)} {h : Nat} {n : Node π} (hr : readResult ptr h = some n) :
    ptr = some n ∧ n.hash = h := by
  unfold readResult at hr
  split at hr
  · split at hr
    · simp at hr; subst hr; simp_all
    · simp at hr
  · simp at hr

theorem nodeInv_step {P : Call π → Prop} (s : State π) (i : Nat) (h : NodeInv P s) : NodeInv P (step s i) := by
  have hids := idInv_step s i h.ids
  have hnodes : ∀ n, InSys (step s i) n → P (.write n.hash n.payload n.val) := by
    intro n hn
    rcases inSys_step hn with h' | ⟨t, ht, ha⟩
    · exact h.nodes n h'
    · exact h.calls t (List.mem_of_getElem? ht) _ (allocOf_some ha).2
  rcases step_eq s i with ⟨_, he⟩ | ⟨t, ht, he⟩
  · rw [he]; exact h
  have hmem : t ∈ s.threads := List.mem_of_getElem? ht
  refine ⟨hids, ?_, hnodes, ?_, ?_, ?_⟩
  · rw [he]; intro u hu f p hpc
    rcases List.mem_or_eq_of_mem_set hu with hu | hu
    · exact h.w2 u hu f p hpc
    · subst hu; exact stepT_w2 s i t f p hpc
  · rw [he]; intro u hu c hc
    rcases List.mem_or_eq_of_mem_set hu with hu | hu
    · exact h.calls u hu c hc
    · subst hu; exact h.calls t hmem c (stepT_calls s i t c hc)
  · rw [he]; intro n hn
    simp only at hn ⊢
    rcases stepT_effect s i t with ⟨e1, e2⟩ | ⟨_, _, _, _, e2, e1⟩ | ⟨_, _, e2, e1⟩ | ⟨f, p, _, _, e2, e1⟩
    · rw [e2] at hn; rw [e1]; exact h.published n hn
    · rw [e2] at hn; rw [e1]
      obtain ⟨a, b, c, hc⟩ := h.published n hn
      exact ⟨a, b, c, List.mem_cons_of_mem _ hc⟩
    · rw [e2] at hn; rw [e1]
      obtain ⟨a, b, c, hc⟩ := h.published n hn
      exact ⟨a, b, c, List.mem_cons_of_mem _ hc⟩
    · rw [e2] at hn
      rcases List.mem_or_eq_of_mem_set hn with hn | hn
      · obtain ⟨a, b, c, hc⟩ := h.published n hn
        rcases e1 with e1 | e1 <;> rw [e1] <;> exact ⟨a, b, c, by simp [hc]⟩
      · simp at hn; subst hn
        rcases e1 with e1 | e1 <;> rw [e1] <;>
          exact ⟨i, key s n.hash, slotAt s (key s n.hash), by simp⟩
  · rw [he]
    simp only
    rcases stepT_effect s i t with ⟨e1, _⟩ | ⟨hh, cs, _, _, _, e1⟩ | ⟨_, _, _, e1⟩ | ⟨f, p, hpc, hcas, _, e1⟩
    · rw [e1]; exact h.trace
    · rw [e1]
      refine ⟨?_, h.trace⟩
      cases hr : readResult (slotAt s (key s hh)) hh with
      | none => simp [EvOK]
      | some n =>
        obtain ⟨h1, h2⟩ := readResult_some hr
        have hm := slotAt_mem h1
        exact ⟨h2, h.nodes n (.inl hm), h.published n hm⟩
    · rw [e1]; exact ⟨trivial, h.trace⟩
    · have hle := cas_le h hmem hpc hcas
      have : EvOK P s.trace (.cas i (key s f.hash) (slotAt s (key s f.hash)) f) := by
        simp only [EvOK]; rw [hle.1]; exact hle.2
      rcases e1 with e1 | e1 <;> rw [e1]
      · exact ⟨this, h.trace⟩
      · exact ⟨trivial, this, h.trace⟩

theorem nodeInv_run {P : Call π → Prop} (sched : List Nat) (s : State π) (h : NodeInv P s) :
    NodeInv P (run s sched) :=
  run_induction nodeInv_step sched s h

/-- per slot, `val` never decreases in one step -/
theorem slot_mono_step {P : Call π → Prop} (s : State π) (i : Nat) (h : NodeInv P s) (k : Nat) :
    valOf (slotAt s k) ≤ valOf (slotAt (step s i) k) := by
  rcases step_eq s i with ⟨_, he⟩ | ⟨t, ht, he⟩
  · rw [he]; exact Nat.le_refl _
  have hmem : t ∈ s.threads := List.mem_of_getElem? ht
  rw [he]
  simp only [slotAt]
  rcases stepT_effect s i t with ⟨_, e2⟩ | ⟨_, _, _, _, e2, _⟩ | ⟨_, _, e2, _⟩ | ⟨f, p, hpc, hcas, e2, _⟩
  · rw [e2]; exact Nat.le_refl _
  · rw [e2]; exact Nat.le_refl _
  · rw [e2]; exact Nat.le_refl _
  · rw [e2]
    have hle := cas_le h hmem hpc hcas
    by_cases hk : key s f.hash = k
    · by_cases hlen : k < s.slots.length
      · subst hk
        rw [getD_set_self hlen]
        have := hle.2; rw [← hle.1] at this
        exact this
      · rw [List.set_eq_of_length_le (by omega)]; exact Nat.le_refl _
    · rw [getD_set_ne hk]; exact Nat.le_refl _

theorem slot_mono_run {P : Call π → Prop} (sched : List Nat) (s : State π) (h : NodeInv P s) (k : Nat) :
    valOf (slotAt s k) ≤ valOf (slotAt (run s sched) k) := by
  induction sched generalizing s with
  | nil => exact Nat.le_refl _
  | cons i is ih =>
    exact Nat.le_trans (slot_mono_step s i h k) (ih (step s i) (nodeInv_step s i h))

/-- the initial state satisfies the invariant, with `P` = "is one of the calls of the program" -/
theorem nodeInv_init (n : Nat) (progs : List (List (Call π))) :
    NodeInv (fun c => ∃ cs ∈ progs, c ∈ cs) (init n progs) := by
  have hslots : ∀ m : Node π, some m ∉ (init n progs).slots := by
    intro m hm; simp [init] at hm
  have hthreads : ∀ t ∈ (init n progs).threads, t.pc = .call ∧ t.calls ∈ progs := by
    intro t ht; simp [init] at ht; obtain ⟨cs, hcs, rfl⟩ := ht; exact ⟨rfl, hcs⟩
  have hsys : ∀ m, ¬ InSys (init n progs) m := by
    rintro m (hm | ⟨t, ht, hm⟩)
    · exact hslots m hm
    · rw [(hthreads t ht).1] at hm; simp [pcNodes] at hm
  refine ⟨⟨fun m hm => absurd hm (hsys m), fun a _ ha => absurd ha (hsys a)⟩, ?_, fun m hm => absurd hm (hsys m), ?_, ?_, ?_⟩
  · intro t ht f p hpc; rw [(hthreads t ht).1] at hpc; cases hpc
  · intro t ht c hc; exact ⟨t.calls, (hthreads t ht).2, hc⟩
  · intro m hm; exact absurd hm (hslots m)
  · simp [init, TraceOK]

theorem traceOK_split {P : Call π → Prop} {pre post : List (Event π)} {ev : Event π}
    (h : TraceOK P (pre ++ ev :: post)) : EvOK P post ev := by
  induction pre with
  | nil => exact h.1
  | cons x xs ih => exact ih h.2

theorem traceOK_mem_cas {P : Call π → Prop} {tr : List (Event π)} (h : TraceOK P tr) {tid k : Nat}
    {old : Option (Node π)} {new : Node π} (hm : Event.cas tid k old new ∈ tr) : valOf old ≤ new.val := by
  obtain ⟨pre, post, rfl⟩ := List.append_of_mem hm
  exact traceOK_split h

theorem occupied_le (s : State π) : occupied s ≤ s.slots.length := List.countP_le_length

end Morlock.Proofs.ConcTT
