import Morlock.Proofs.ConcUciLive
/-!
# UCI driver model: the current request gets its `bestmove` (the invariant behind C04 `answered`)
-/
namespace Morlock.Proofs.ConcUci
open Morlock.Model.UciConc

/-! ## the current request is answered -/

/-- what holds for the current request `g` (the latest `go`, numbered `K = searches`, not superseded) -/
structure LiveFacts (s : State) (g : GoArgs) : Prop where
  kpos : 1 ≤ s.searches
  A : g.book ≠ .err → s.active = s.searches ∨ Committed s
  B : g.book = .hit → s.loop.completing s.searches = true ∨ Committed s
  F : g.book = .miss → s.loop.spawned = true → ∃ f ∈ s.fwds, f.id = s.searches ∧ f.infinite = g.infinite
  D : ∀ f ∈ s.fwds, f.id = s.searches → f.infinite = false → f.pc.past = true → Committed s
  E : g.book = .miss → s.eactive ≠ none ∨ Committed s ∨ s.loop.completing s.searches = true
  N : g.book ≠ .err → s.loop.haltFailed = true → Committed s
  S : g.book ≠ .err → stopped s.log = true →
    Committed s ∨ s.loop = .stopLoad ∨ s.loop.stopping s.searches = true
  M : g.book = .miss → g.movetime = true → s.loop.timed = true →
    Committed s ∨ TimerPending s ∨ s.timeouts = some s.searches ∨ s.loop.stopping s.searches = true

def LiveInv (s : State) : Prop := ∀ g, cur s.log = some g → s.loop.live = true → LiveFacts s g

theorem liveInv_init (cmds : List Cmd) (pcap : Nat) : LiveInv (init cmds pcap) := by
  intro g hg; simp [init, cur] at hg

theorem liveInv_notLive {s : State} (h : s.loop.live = false) : LiveInv s := by
  intro g _ hl; rw [h] at hl; cases hl

theorem liveInv_noCur {s : State} (h : cur s.log = none) : LiveInv s := by
  intro g hg; rw [h] at hg; cases hg

/-- once the current go is committed, everything but the existence of its forwarder follows -/
theorem liveFacts_of_committed {s : State} {g : GoArgs} (hk : 1 ≤ s.searches) (hc : Committed s)
    (hF : g.book = .miss → s.loop.spawned = true → ∃ f ∈ s.fwds, f.id = s.searches ∧ f.infinite = g.infinite) :
    LiveFacts s g :=
  ⟨hk, fun _ => .inr hc, fun _ => .inr hc, hF, fun _ _ _ _ _ => hc, fun _ => .inr (.inl hc), fun _ _ => hc,
    fun _ _ => .inl hc, fun _ _ _ => .inl hc⟩

/-- Steps that keep `searches`, `active`, the commits, the forwarders and the timers. The loop may leave the
"stopping"/"completing" states only when `active ≠ K` (then the go is already committed, by `A`). -/
theorem liveFacts_frame {s s' : State} {g : GoArgs} (h : LiveFacts s g)
    (hn : s'.searches = s.searches) (ha : s'.active = s.active)
    (hc : commitCount s.searches s'.log = commitCount s.searches s.log)
    (hf : s'.fwds = s.fwds) (ht : s'.timers = s.timers)
    (hE : s.eactive ≠ none → s'.eactive ≠ none ∨ s'.loop.completing s.searches = true)
    (hM : s.timeouts = some s.searches → s'.timeouts = some s.searches ∨ s'.loop.stopping s.searches = true)
    (hS : stopped s'.log = true → stopped s.log = true ∨ s'.loop = .stopLoad)
    (p1 : 1 ≤ s.searches → s.loop.completing s.searches = true →
      s'.loop.completing s.searches = true ∨ s.active ≠ s.searches)
    (p2 : s'.loop.spawned = true → s.loop.spawned = true)
    (p3 : s'.loop.haltFailed = true → s.loop.haltFailed = true)
    (p4 : 1 ≤ s.searches → s.loop = .stopLoad →
      s'.loop = .stopLoad ∨ s'.loop.stopping s.searches = true ∨ s.active ≠ s.searches)
    (p5 : 1 ≤ s.searches → s.loop.stopping s.searches = true →
      s'.loop.stopping s.searches = true ∨ s.active ≠ s.searches)
    (p6 : s'.loop.timed = true → s.loop.timed = true) : LiveFacts s' g := by
  have hC : Committed s → Committed s' := by
    intro hh; unfold Committed at hh ⊢; rw [hn, hc]; exact hh
  obtain ⟨k, a, b, f, d, e, n, st, m⟩ := h
  -- if `active ≠ K` the go is committed
  have hne : g.book ≠ .err → s.active ≠ s.searches → Committed s' := by
    intro hb hx
    rcases a hb with a | a
    · exact absurd a hx
    · exact hC a
  refine ⟨by rw [hn]; exact k, ?_, ?_, ?_, ?_, ?_, ?_, ?_, ?_⟩
  · intro hb; rw [ha, hn]; exact (a hb).imp id hC
  · intro hb; rw [hn]
    rcases b hb with b | b
    · rcases p1 k b with x | x
      · exact .inl x
      · exact .inr (hne (by rw [hb]; simp) x)
    · exact .inr (hC b)
  · intro hb hs; rw [hf, hn]; exact f hb (p2 hs)
  · intro x hx h1 h2 h3; rw [hf] at hx; rw [hn] at h1; exact hC (d x hx h1 h2 h3)
  · intro hb; rw [hn]
    rcases e hb with e | e | e
    · rcases hE e with x | x
      · exact .inl x
      · exact .inr (.inr x)
    · exact .inr (.inl (hC e))
    · rcases p1 k e with x | x
      · exact .inr (.inr x)
      · exact .inr (.inl (hne (by rw [hb]; simp) x))
  · intro hb hh; exact hC (n hb (p3 hh))
  · intro hb hs; rw [hn]
    have stopping_case : s.loop.stopping s.searches = true →
        Committed s' ∨ s'.loop = .stopLoad ∨ s'.loop.stopping s.searches = true := by
      intro x
      rcases p5 k x with y | y
      · exact .inr (.inr y)
      · exact .inl (hne hb y)
    rcases hS hs with hs | hs
    · rcases st hb hs with x | x | x
      · exact .inl (hC x)
      · rcases p4 k x with y | y | y
        · exact .inr (.inl y)
        · exact .inr (.inr y)
        · exact .inl (hne hb y)
      · exact stopping_case x
    · exact .inr (.inl hs)
  · intro hb hm ht'; rw [hn]
    rcases m hb hm (p6 ht') with x | x | x | x
    · exact .inl (hC x)
    · refine .inr (.inl ?_)
      unfold TimerPending at x ⊢; rw [ht, hn]; exact x
    · rcases hM x with y | y
      · exact .inr (.inr (.inl y))
      · exact .inr (.inr (.inr y))
    · rcases p5 k x with y | y
      · exact .inr (.inr (.inr y))
      · exact .inl (hne (by rw [hb]; simp) y)

theorem liveInv_frame {s s' : State} (h : LiveInv s) (hcur : cur s'.log = cur s.log)
    (hlive : s'.loop.live = true → s.loop.live = true)
    (hn : s'.searches = s.searches) (ha : s'.active = s.active)
    (hc : commitCount s.searches s'.log = commitCount s.searches s.log)
    (hf : s'.fwds = s.fwds) (ht : s'.timers = s.timers)
    (hE : s.eactive ≠ none → s'.eactive ≠ none ∨ s'.loop.completing s.searches = true)
    (hM : s.timeouts = some s.searches → s'.timeouts = some s.searches ∨ s'.loop.stopping s.searches = true)
    (hS : stopped s'.log = true → stopped s.log = true ∨ s'.loop = .stopLoad)
    (p1 : 1 ≤ s.searches → s.loop.completing s.searches = true →
      s'.loop.completing s.searches = true ∨ s.active ≠ s.searches)
    (p2 : s'.loop.spawned = true → s.loop.spawned = true)
    (p3 : s'.loop.haltFailed = true → s.loop.haltFailed = true)
    (p4 : 1 ≤ s.searches → s.loop = .stopLoad →
      s'.loop = .stopLoad ∨ s'.loop.stopping s.searches = true ∨ s.active ≠ s.searches)
    (p5 : 1 ≤ s.searches → s.loop.stopping s.searches = true →
      s'.loop.stopping s.searches = true ∨ s.active ≠ s.searches)
    (p6 : s'.loop.timed = true → s.loop.timed = true) : LiveInv s' := by
  intro g hg hl
  exact liveFacts_frame (h g (hcur ▸ hg) (hlive hl)) hn ha hc hf ht hE hM hS p1 p2 p3 p4 p5 p6

/-- for a `go` whose book lookup failed nothing is promised -/
theorem liveFacts_err {s : State} {g : GoArgs} (hk : 1 ≤ s.searches) (hb : g.book = .err)
    (hD : ∀ f ∈ s.fwds, f.id = s.searches → f.infinite = false → f.pc.past = true → Committed s) :
    LiveFacts s g :=
  ⟨hk, fun h => absurd hb h, fun h => absurd (hb.symm.trans h) (by decide),
    fun h => absurd (hb.symm.trans h) (by decide), hD, fun h => absurd (hb.symm.trans h) (by decide),
    fun h => absurd hb h, fun h => absurd hb h, fun h => absurd (hb.symm.trans h) (by decide)⟩

theorem book_cases (g : GoArgs) : g.book = .err ∨ g.book = .hit ∨ g.book = .miss := by
  cases g.book <;> simp

@[simp] theorem commitCount_sendOut' (id : Nat) (s : State) (l : Line) :
    commitCount id (sendOut s l).log = commitCount id s.log := commitCount_sendOut id s l

theorem dispatch_live (c : Cmd) : (dispatch c).live = true ↔ (c = .isready ∨ c = .stop ∨ c = .other) := by
  cases c <;> simp [dispatch, LPc.live]

set_option linter.unusedSimpArgs false in
theorem liveInv_loop (s : State) (c : Sel) (ha : ActiveInv s) (he : EngInv s) (hr : ReqInv s)
    (h : LiveInv s) : LiveInv (stepLoop .repaired s c) := by
  have hpcok := hr.pc
  unfold stepLoop
  cases hpc : s.loop <;> simp only [hpc] at hpcok ⊢
  all_goals (repeat' split)
  all_goals ((try cases ‹HaltK›) <;> (try cases ‹After›) <;> first
    | exact h
    | (apply liveInv_notLive; rfl)
    | (apply liveInv_noCur; simp_all [PcOk, afterHalt, Cfg.repaired]; done)
    | (refine liveInv_frame h ?_ ?_ ?_ ?_ ?_ ?_ ?_ ?_ ?_ ?_ ?_ ?_ ?_ ?_ ?_ ?_ <;>
        simp [hpc, LPc.live, LPc.completing, LPc.spawned, LPc.haltFailed, LPc.stopping, LPc.timed]; done)
    | (refine liveInv_frame h ?_ ?_ ?_ ?_ ?_ ?_ ?_ ?_ ?_ ?_ ?_ ?_ ?_ ?_ ?_ ?_ <;>
        simp_all [LPc.live, LPc.completing, LPc.spawned, LPc.haltFailed, LPc.stopping, LPc.timed, PcOk, av,
          Cfg.repaired] <;> omega)
    | skip)
  · -- a command is consumed at `select`
    rename_i cmd rest _
    cases cmd with
    | go g' => exact liveInv_notLive rfl
    | isready =>
      refine liveInv_frame h rfl ?_ rfl rfl (by simp) rfl rfl ?_ ?_ ?_ ?_ ?_ ?_ ?_ ?_ ?_ <;>
        simp [hpc, dispatch, stopped, LPc.live, LPc.completing, LPc.spawned, LPc.haltFailed, LPc.stopping, LPc.timed]
    | other =>
      refine liveInv_frame h rfl ?_ rfl rfl (by simp) rfl rfl ?_ ?_ ?_ ?_ ?_ ?_ ?_ ?_ ?_ <;>
        simp [hpc, dispatch, stopped, LPc.live, LPc.completing, LPc.spawned, LPc.haltFailed, LPc.stopping, LPc.timed]
    | stop =>
      refine liveInv_frame h rfl ?_ rfl rfl (by simp) rfl rfl ?_ ?_ ?_ ?_ ?_ ?_ ?_ ?_ ?_ <;>
        simp [hpc, dispatch, stopped, LPc.live, LPc.completing, LPc.spawned, LPc.haltFailed, LPc.stopping, LPc.timed]
    | ucinewgame => exact liveInv_noCur rfl
    | position => exact liveInv_noCur rfl
    | goMalformed => exact liveInv_noCur rfl
    | quit => exact liveInv_noCur rfl
    | eof => exact liveInv_noCur rfl
  · -- `stop(K)`: `e.Halt` finds no active search, so go K is already committed
    simp only [PcOk] at hpcok
    intro g hg hl
    have ih := h g hg (by rw [hpc]; rfl)
    rcases book_cases g with hb | hb | hb
    · exact liveFacts_err ih.kpos hb ih.D
    · have hC : Committed s := by
        rcases ih.B hb with x | x
        · rw [hpc] at x; simp [LPc.completing] at x
        · exact x
      exact liveFacts_of_committed ih.kpos hC (fun hm => absurd (hb.symm.trans hm) (by decide))
    · have hC : Committed s := by
        rcases ih.E hb with x | x | x
        · exact absurd (by assumption) x
        · exact x
        · rw [hpc] at x; simp [LPc.completing] at x
      exact liveFacts_of_committed ih.kpos hC (fun hm hs => ih.F hm (by rw [hpc]; rfl))
  · -- return from `e.Halt` in `stop(K)`
    simp only [PcOk] at hpcok
    rename_i res id
    cases res with
    | none =>
      intro g hg hl
      have ih := h g hg (by rw [hpc]; rfl)
      rcases book_cases g with hb | hb | hb
      · exact liveFacts_err ih.kpos hb ih.D
      · exact liveFacts_of_committed ih.kpos (ih.N (by rw [hb]; simp) (by rw [hpc]; rfl))
          (fun hm => absurd (hb.symm.trans hm) (by decide))
      · exact liveFacts_of_committed ih.kpos (ih.N (by rw [hb]; simp) (by rw [hpc]; rfl))
          (fun hm hs => ih.F hm (by rw [hpc]; rfl))
    | some pv =>
      refine liveInv_frame h rfl ?_ rfl rfl rfl rfl rfl ?_ ?_ ?_ ?_ ?_ ?_ ?_ ?_ ?_ <;>
        simp [hpc, hpcok.1, afterHalt, LPc.live, LPc.completing, LPc.spawned, LPc.haltFailed, LPc.stopping, LPc.timed]
  · -- goStart with a book error: numbered, back to `select`
    simp only [PcOk] at hpcok
    intro g hg hl
    rename_i g0 _ hb0
    have hgg : g = g0 := by
      have := hpcok.1; simp only at hg; rw [this] at hg; exact (Option.some.inj hg).symm
    refine liveFacts_err (Nat.succ_le_succ (Nat.zero_le _)) (by rw [hgg]; exact hb0) ?_
    intro f hf hid; have := (hr.fid f hf).2; simp only at hid; omega
  · -- book hit: `d.active.Store(K)`
    simp only [PcOk] at hpcok
    obtain ⟨⟨g0, hg0, hb0⟩, hst, hk⟩ := hpcok
    have hid := ha.pend _ (by rw [hpc]; rfl)
    have hlt := hr.fidLt (by rw [hpc]; rfl)
    intro g hg hl
    simp only at hg; rw [hg0] at hg; cases hg
    refine ⟨hk, fun _ => .inl (by simp [hid]), fun _ => .inl (by simp [LPc.completing, hid]),
      fun hm => absurd (hb0.symm.trans hm) (by decide), ?_, fun hm => absurd (hb0.symm.trans hm) (by decide),
      fun _ hf => (by simp [LPc.haltFailed] at hf), fun _ hs => absurd (hst.symm.trans hs) (by decide),
      fun hm => absurd (hb0.symm.trans hm) (by decide)⟩
    intro f hf hfid; exact absurd hfid (Nat.ne_of_lt (hlt f hf))
  · -- Analyze cannot fail here: `ensureInactive` has just cleared `e.active`
    have := he.idle (by rw [hpc]; rfl)
    simp_all
  · -- `d.active.Store(K)` after Analyze
    simp only [PcOk] at hpcok
    obtain ⟨hg0, hb0, hst, hk⟩ := hpcok
    have hid := ha.pend _ (by rw [hpc]; rfl)
    have hlt := hr.fidLt (by rw [hpc]; rfl)
    have hea := he.sidxOk _ (by rw [hpc]; rfl)
    intro g hg hl
    simp only at hg; rw [hg0] at hg; cases hg
    refine ⟨hk, fun _ => .inl (by simp [hid]), fun hm => absurd (hb0.symm.trans hm) (by decide),
      fun _ hs => (by simp [LPc.spawned] at hs), ?_, fun _ => .inl (by simp [hea]),
      fun _ hf => (by simp [LPc.haltFailed] at hf), fun _ hs => absurd (hst.symm.trans hs) (by decide),
      fun _ _ ht => (by simp [LPc.timed] at ht)⟩
    intro f hf hfid; exact absurd hfid (Nat.ne_of_lt (hlt f hf))
  · -- goSpawn (with movetime): the forwarder of go K appears; next the timer
    simp only [PcOk] at hpcok
    obtain ⟨hg0, hb0, hst, hid, hk⟩ := hpcok
    have hea := he.sidxOk _ (by rw [hpc]; rfl)
    intro g hg hl
    simp only at hg; rw [hg0] at hg; cases hg
    have ih := h _ hg0 (by rw [hpc]; rfl)
    refine ⟨hk, ih.A, fun hm => absurd (hb0.symm.trans hm) (by decide),
      fun _ _ => ⟨_, List.mem_append_right _ (List.mem_singleton.2 rfl), hid, rfl⟩, ?_,
      fun _ => .inl (by simp [hea]),
      fun _ hf => (by simp [LPc.haltFailed] at hf), fun _ hs => absurd (hst.symm.trans hs) (by decide),
      fun _ _ ht => (by simp [LPc.timed] at ht)⟩
    intro f hf hfid hinf hpast
    simp only [List.mem_append, List.mem_singleton] at hf
    rcases hf with hf | hf
    · exact ih.D f hf hfid hinf hpast
    · subst hf; simp [FPc.past] at hpast
  · -- goSpawn (no movetime): the forwarder of go K appears; back to `select`
    simp only [PcOk] at hpcok
    obtain ⟨hg0, hb0, hst, hid, hk⟩ := hpcok
    have hea := he.sidxOk _ (by rw [hpc]; rfl)
    intro g hg hl
    simp only at hg; rw [hg0] at hg; cases hg
    have ih := h _ hg0 (by rw [hpc]; rfl)
    refine ⟨hk, ih.A, fun hm => absurd (hb0.symm.trans hm) (by decide),
      fun _ _ => ⟨_, List.mem_append_right _ (List.mem_singleton.2 rfl), hid, rfl⟩, ?_,
      fun _ => .inl (by simp [hea]),
      fun _ hf => (by simp [LPc.haltFailed] at hf), fun _ hs => absurd (hst.symm.trans hs) (by decide),
      fun _ hm _ => absurd hm (by assumption)⟩
    intro f hf hfid hinf hpast
    simp only [List.mem_append, List.mem_singleton] at hf
    rcases hf with hf | hf
    · exact ih.D f hf hfid hinf hpast
    · subst hf; simp [FPc.past] at hpast
  · -- goTimer: the timer of go K is started
    simp only [PcOk] at hpcok
    obtain ⟨⟨g0, hg0, hb0, hmt⟩, hst, hid, hk⟩ := hpcok
    intro g hg hl
    simp only at hg; rw [hg0] at hg; cases hg
    have ih := h _ hg0 (by rw [hpc]; rfl)
    refine ⟨hk, ih.A, fun hm => absurd (hb0.symm.trans hm) (by decide),
      fun hb _ => ih.F hb (by rw [hpc]; rfl), ih.D, ?_,
      fun _ hf => (by simp [LPc.haltFailed] at hf), fun _ hs => absurd (hst.symm.trans hs) (by decide),
      fun _ _ _ => .inr (.inl ⟨{ id := _ }, List.mem_append_right _ (List.mem_singleton.2 rfl), hid, rfl⟩)⟩
    intro hb
    rcases ih.E hb with x | x | x
    · exact .inl x
    · exact .inr (.inl x)
    · rw [hpc] at x; simp [LPc.completing] at x
  all_goals
    -- the loop wins the CAS of `searchCompleted(K, _)`
    rename_i hcas _
    obtain ⟨hne, hact⟩ := hcas
    simp only [av_repaired] at hact
    have hK : ‹Nat› = s.searches ∨ True := .inr trivial
    intro g hg hl
    simp only [cur_commit] at hg
    have ih := h g hg (by rw [hpc]; rfl)
    refine liveFacts_of_committed ih.kpos ?_ (fun hb _ => ih.F hb (by rw [hpc]; rfl))
    have hid : s.active = s.searches := by
      rcases ha.act with x | x
      · rw [x] at hact; exact absurd hact.symm hne
      · exact x
    show 1 ≤ commitCount s.searches (Ev.commit _ s.searches :: s.log)
    rw [commitCount_commit, ← hact, hid]; simp


/-- steps of the other threads: the loop does not move -/
theorem liveFacts_other {s s' : State} {g : GoArgs} (h : LiveFacts s g)
    (hn : s'.searches = s.searches) (ha : s'.active = s.active) (hl : s'.loop = s.loop)
    (hc : commitCount s.searches s'.log = commitCount s.searches s.log)
    (he : s'.eactive = s.eactive) (hst : stopped s'.log = stopped s.log)
    (hF : ∀ x, (∃ f ∈ s.fwds, f.id = s.searches ∧ f.infinite = x) →
      ∃ f ∈ s'.fwds, f.id = s.searches ∧ f.infinite = x)
    (hD : ∀ f' ∈ s'.fwds, f'.id = s.searches → f'.infinite = false → f'.pc.past = true →
      (∃ f ∈ s.fwds, f.id = s.searches ∧ f.infinite = false ∧ f.pc.past = true) ∨ Committed s')
    (hM : TimerPending s ∨ s.timeouts = some s.searches →
      TimerPending s' ∨ s'.timeouts = some s.searches) : LiveFacts s' g := by
  have hC : Committed s → Committed s' := by
    intro hh; unfold Committed at hh ⊢; rw [hn, hc]; exact hh
  obtain ⟨k, a, b, f, d, e, n, st, m⟩ := h
  refine ⟨by rw [hn]; exact k, ?_, ?_, ?_, ?_, ?_, ?_, ?_, ?_⟩
  · intro hb; rw [ha, hn]; exact (a hb).imp id hC
  · intro hb; rw [hn, hl]; exact (b hb).imp id hC
  · intro hb hs; rw [hn]; exact hF _ (f hb (hl ▸ hs))
  · intro x hx h1 h2 h3
    rcases hD x hx (hn ▸ h1) h2 h3 with ⟨y, hy, y1, y2, y3⟩ | y
    · exact hC (d y hy y1 y2 y3)
    · exact y
  · intro hb; rw [he, hn, hl]
    rcases e hb with e | e | e
    · exact .inl e
    · exact .inr (.inl (hC e))
    · exact .inr (.inr e)
  · intro hb hh; exact hC (n hb (hl ▸ hh))
  · intro hb hs; rw [hst] at hs; rw [hn, hl]
    rcases st hb hs with x | x | x
    · exact .inl (hC x)
    · exact .inr (.inl x)
    · exact .inr (.inr x)
  · intro hb hm ht'; rw [hn, hl]
    rcases m hb hm (hl ▸ ht') with x | x | x | x
    · exact .inl (hC x)
    · rcases hM (.inl x) with y | y
      · exact .inr (.inl y)
      · exact .inr (.inr (.inl y))
    · rcases hM (.inr x) with y | y
      · exact .inr (.inl y)
      · exact .inr (.inr (.inl y))
    · exact .inr (.inr (.inr x))

theorem liveInv_other {s s' : State} (h : LiveInv s) (hcur : cur s'.log = cur s.log)
    (hn : s'.searches = s.searches) (ha : s'.active = s.active) (hl : s'.loop = s.loop)
    (hc : commitCount s.searches s'.log = commitCount s.searches s.log)
    (he : s'.eactive = s.eactive) (hst : stopped s'.log = stopped s.log)
    (hF : ∀ x, (∃ f ∈ s.fwds, f.id = s.searches ∧ f.infinite = x) →
      ∃ f ∈ s'.fwds, f.id = s.searches ∧ f.infinite = x)
    (hD : ∀ g, cur s.log = some g → s.loop.live = true → LiveFacts s g →
      ∀ f' ∈ s'.fwds, f'.id = s.searches → f'.infinite = false → f'.pc.past = true →
      (∃ f ∈ s.fwds, f.id = s.searches ∧ f.infinite = false ∧ f.pc.past = true) ∨ Committed s')
    (hM : TimerPending s ∨ s.timeouts = some s.searches →
      TimerPending s' ∨ s'.timeouts = some s.searches) : LiveInv s' := by
  intro g hg hlive
  have hg' : cur s.log = some g := hcur ▸ hg
  have hl' : s.loop.live = true := hl ▸ hlive
  exact liveFacts_other (h g hg' hl') hn ha hl hc he hst hF (hD g hg' hl' (h g hg' hl')) hM

theorem exists_set {l : List Fwd} {j : Nat} {f : Fwd} (hj : l[j]? = some f) (f' : Fwd)
    (hid : f'.id = f.id) (hinf : f'.infinite = f.infinite) (K : Nat) (x : Bool)
    (h : ∃ y ∈ l, y.id = K ∧ y.infinite = x) : ∃ y ∈ l.set j f', y.id = K ∧ y.infinite = x := by
  obtain ⟨y, hy, h1, h2⟩ := h
  obtain ⟨i, hi⟩ := List.mem_iff_getElem?.1 hy
  have hjl : j < l.length := (List.getElem?_eq_some_iff.1 hj).1
  by_cases hij : j = i
  · subst hij
    rw [hj] at hi; cases hi
    exact ⟨f', List.mem_of_getElem? (List.getElem?_set_self hjl), by rw [hid, h1], by rw [hinf, h2]⟩
  · refine ⟨y, ?_, h1, h2⟩
    apply List.mem_of_getElem? (i := i)
    rw [List.getElem?_set]; simp [hij, hi]

theorem past_set {l : List Fwd} {j : Nat} {f : Fwd} (hj : l[j]? = some f) (f' : Fwd)
    (hid : f'.id = f.id) (hinf : f'.infinite = f.infinite) (K : Nat) (C : Prop)
    (hnew : f'.id = K → f'.infinite = false → f'.pc.past = true → f.pc.past = true ∨ C) :
    ∀ y ∈ l.set j f', y.id = K → y.infinite = false → y.pc.past = true →
      (∃ z ∈ l, z.id = K ∧ z.infinite = false ∧ z.pc.past = true) ∨ C := by
  intro y hy h1 h2 h3
  rcases List.mem_or_eq_of_mem_set hy with hy | hy
  · exact .inl ⟨y, hy, h1, h2, h3⟩
  · subst hy
    rcases hnew h1 h2 h3 with x | x
    · exact .inl ⟨f, List.mem_of_getElem? hj, by rw [← hid, h1], by rw [← hinf, h2], x⟩
    · exact .inr x

/-- a forwarder step other than a successful CAS -/
theorem liveInv_fwdstep {s s' : State} {j : Nat} {f : Fwd} (h : LiveInv s) (hj : s.fwds[j]? = some f) (f' : Fwd)
    (hid : f'.id = f.id) (hinf : f'.infinite = f.infinite) (hfw : s'.fwds = s.fwds.set j f')
    (hn : s'.searches = s.searches) (ha : s'.active = s.active) (hl : s'.loop = s.loop)
    (he : s'.eactive = s.eactive) (htm : s'.timers = s.timers) (hto : s'.timeouts = s.timeouts)
    (hcur : cur s'.log = cur s.log) (hst : stopped s'.log = stopped s.log)
    (hc : commitCount s.searches s'.log = commitCount s.searches s.log)
    (hnew : ∀ g, cur s.log = some g → s.loop.live = true → LiveFacts s g →
      f'.id = s.searches → f'.infinite = false → f'.pc.past = true → f.pc.past = true ∨ Committed s) :
    LiveInv s' := by
  have hC : Committed s → Committed s' := by
    intro hh; unfold Committed at hh ⊢; rw [hn, hc]; exact hh
  refine liveInv_other h hcur hn ha hl hc he hst ?_ ?_ ?_
  · intro x hx; rw [hfw]; exact exists_set hj f' hid hinf _ x hx
  · intro g hg hlive ih y hy
    rw [hfw] at hy
    exact past_set hj f' hid hinf _ _ (fun a b c => (hnew g hg hlive ih a b c).imp id hC) y hy
  · intro hx
    unfold TimerPending at hx ⊢
    rw [htm, hto, hn]; exact hx

/-- a forwarder wins the CAS of `searchCompleted(K, _)` -/
theorem liveInv_fwd_commit {s : State} {j : Nat} {f : Fwd} (h : LiveInv s) (ha : ActiveInv s)
    (hj : s.fwds[j]? = some f) (hcas : f.id ≠ 0 ∧ s.active = f.id) (f' : Fwd) (hid : f'.id = f.id)
    (hinf : f'.infinite = f.infinite) :
    LiveInv { s with active := 0, log := .commit f.id s.searches :: s.log, fwds := s.fwds.set j f' } := by
  intro g hg hl
  simp only [cur_commit] at hg
  have ih := h g hg hl
  have hK : s.active = s.searches := by
    rcases ha.act with x | x
    · rw [x] at hcas; exact absurd hcas.2.symm hcas.1
    · exact x
  refine liveFacts_of_committed ih.kpos ?_ (fun hb hs => exists_set hj f' hid hinf _ _ (ih.F hb hs))
  show 1 ≤ commitCount s.searches (Ev.commit f.id s.searches :: s.log)
  rw [commitCount_commit, ← hcas.2, hK]; simp

set_option linter.unusedSimpArgs false in
theorem liveInv_fwd (s : State) (j : Nat) (ha : ActiveInv s) (hr : ReqInv s) (ho : OweInv s) (h : LiveInv s) :
    LiveInv (stepFwd .repaired s j) := by
  unfold stepFwd
  cases hj : s.fwds[j]? with
  | none => exact h
  | some f =>
    have hmem := List.mem_of_getElem? hj
    simp only
    cases hpc : f.pc <;> simp only
    all_goals (repeat' split)
    all_goals (first
      | exact h
      | (have hcas : f.id ≠ 0 ∧ s.active = av .repaired f.id := by assumption
         exact liveInv_fwd_commit h ha hj hcas _ rfl rfl)
      | (refine liveInv_fwdstep h hj _ ?_ ?_ rfl ?_ ?_ ?_ ?_ ?_ ?_ ?_ ?_ ?_ ?_ <;>
          first | rfl | (simp [FPc.past, hpc]; done) | skip)
      | skip)
    · -- the search ended, infinite: nothing to report
      intro g _ _ _ _ hinf; simp_all
    · -- the CAS failed: `active ≠ K`, so go K is already committed
      rename_i hfail
      intro g hg hl ih hid _ _
      simp only at hid
      have hb := hr.fmiss hl f hmem hid g hg
      have hne : s.active ≠ s.searches := by
        intro hx; apply hfail
        exact ⟨(hr.fid f hmem).1, by simp [hx, hid]⟩
      rcases ih.A (by rw [hb]; simp) with x | x
      · exact absurd x hne
      · exact .inr x
    · -- the bestmove was sent: this forwarder had won the CAS
      intro g hg hl ih hid _ _
      simp only at hid
      right
      have := ho f.id
      have hpos : 0 < s.fwds.countP (Fwd.owes f.id) :=
        countP_pos_of_getElem? _ hj (by simp [Fwd.owes, hpc, FPc.sending])
      unfold Committed; rw [← hid]; omega

theorem mem_set_of_ne {α : Type} {l : List α} {j : Nat} {a b x : α} (hj : l[j]? = some a) (hx : x ∈ l)
    (hne : x ≠ a) : x ∈ l.set j b := by
  obtain ⟨i, hi⟩ := List.mem_iff_getElem?.1 hx
  have hij : j ≠ i := by
    intro e; subst e; rw [hj] at hi; exact hne (Option.some.inj hi).symm
  apply List.mem_of_getElem? (i := i)
  rw [List.getElem?_set]; simp [hij, hi]

theorem liveInv_step (s : State) (a : Act) (ha : ActiveInv s) (he : EngInv s) (hr : ReqInv s) (ho : OweInv s)
    (hs : ShutInv s) (h : LiveInv s) : LiveInv (step s a) := by
  cases a with
  | loop c => exact liveInv_loop s c ha he hr h
  | fwd j => exact liveInv_fwd s j ha hr ho h
  | timerSend j =>
    simp only [step, stepWith, stepTimerSend]
    cases hj : s.timers[j]? with
    | none => exact h
    | some t =>
      simp only
      split
      · exact h
      · rename_i hnf
        split
        · rename_i hto
          refine liveInv_other h rfl rfl rfl rfl rfl rfl rfl (fun _ x => x) (fun _ _ _ _ f hf a b c => .inl ⟨f, hf, a, b, c⟩) ?_
          intro hx
          rcases hx with ⟨t0, ht0, hid0, hf0⟩ | hx
          · by_cases hK : t.id = s.searches
            · exact .inr (by simp [hK])
            · refine .inl ⟨t0, mem_set_of_ne hj ht0 ?_, hid0, hf0⟩
              intro e; rw [e] at hid0; exact hK hid0
          · rw [hx] at hto; simp at hto
        · exact h
  | timerDrop j =>
    simp only [step, stepWith, stepTimerDrop]
    repeat' split
    all_goals first
      | exact h
      | (apply liveInv_notLive; rename_i hc; simp only; rw [hs.closedOk hc]; rfl)
  | searchIter j =>
    simp only [step, stepWith, stepIter]
    repeat' split
    all_goals first
      | exact h
      | exact liveInv_other h rfl rfl rfl rfl rfl rfl rfl (fun _ x => x) (fun _ _ _ _ f hf a b c => .inl ⟨f, hf, a, b, c⟩) (fun x => x)
  | searchExit j =>
    simp only [step, stepWith, stepExit]
    repeat' split
    all_goals first
      | exact h
      | exact liveInv_other h rfl rfl rfl rfl rfl rfl rfl (fun _ x => x) (fun _ _ _ _ f hf a b c => .inl ⟨f, hf, a, b, c⟩) (fun x => x)

/-- all the invariants of the UCI driver model together -/
structure AllInv (s : State) : Prop where
  act : ActiveInv s
  cls : CloseInv s
  owe : OweInv s
  eng : EngInv s
  shut : ShutInv s
  srch : SrchInv s
  quit : QuitInv s
  gocount : GoCountInv s
  req : ReqInv s
  live : LiveInv s

theorem allInv_init (cmds : List Cmd) (pcap : Nat) : AllInv (init cmds pcap) :=
  ⟨activeInv_init cmds pcap, closeInv_init cmds pcap, oweInv_init cmds pcap, engInv_init cmds pcap,
    shutInv_init cmds pcap, srchInv_init cmds pcap, quitInv_init cmds pcap, goCountInv_init cmds pcap,
    reqInv_init cmds pcap, liveInv_init cmds pcap⟩

theorem allInv_step (s : State) (a : Act) (h : AllInv s) : AllInv (step s a) :=
  ⟨activeInv_step s a h.act, closeInv_step s a h.cls, oweInv_step s a h.owe, engInv_step s a h.eng,
    shutInv_step s a h.shut, srchInv_step s a h.srch, quitInv_step s a h.quit, goCountInv_step s a h.gocount,
    reqInv_step s a h.act h.req, liveInv_step s a h.act h.eng h.req h.owe h.shut h.live⟩

theorem allInv_run (cmds : List Cmd) (pcap : Nat) (sched : List Act) : AllInv (run (init cmds pcap) sched) :=
  run_induction allInv_step sched _ (allInv_init cmds pcap)

/-- **the current request is answered at quiescence.** -/
theorem answered_of_quiescent {s : State} (h : AllInv s) (hq : Quiescent s) (g : GoArgs)
    (hg : cur s.log = some g) (hb : g.book ≠ .err)
    (hwhy : g.book = .hit ∨ g.infinite = false ∨ g.movetime = true ∨ stopped s.log = true) :
    bestCount s.searches s.log = 1 ∧ commitCount s.searches s.log = 1 ∧ s.loop = .select := by
  -- the loop is blocked in `select`: had it returned, a `quit` would have superseded the go
  have hloop : s.loop = .select ∧ s.cmds = [] ∧ s.ponder = [] ∧ s.timeouts = none := by
    rcases quiet_loop hq h.eng h.cls h.srch with hf | hsel
    · have := h.req.pc; rw [hf] at this; simp only [PcOk] at this; rw [this] at hg; cases hg
    · exact hsel
  have hlive : s.loop.live = true := by rw [hloop.1]; rfl
  have lf := h.live g hg hlive
  have hfin := fun f hf => quiet_fwds hq h.eng f hf
  -- nobody owes a bestmove any more
  have howe : bestCount s.searches s.log = commitCount s.searches s.log := by
    have := h.owe s.searches
    have h1 : s.loop.owes s.searches = false := by rw [hloop.1]; rfl
    have h2 : s.fwds.countP (Fwd.owes s.searches) = 0 := by
      rw [List.countP_eq_zero]; intro f hf; simp [Fwd.owes, hfin f hf, FPc.sending]
    rw [h1, h2] at this; simpa using this
  have hle := commitCount_le_one h.act s.searches
  have hC : Committed s := by
    rcases book_cases g with hb' | hb' | hb'
    · exact absurd hb' hb
    · rcases lf.B hb' with x | x
      · rw [hloop.1] at x; simp [LPc.completing] at x
      · exact x
    · rcases hwhy with x | x | x | x
      · rw [hb'] at x; cases x
      · -- finite: the forwarder of go K has finished, so it went through `searchCompleted`
        obtain ⟨f, hf, hid, hinf⟩ := lf.F hb' (by rw [hloop.1]; rfl)
        exact lf.D f hf hid (by rw [hinf, x]) (by rw [hfin f hf]; rfl)
      · -- movetime: the timer has fired and the loop has processed its token
        rcases lf.M hb' x (by rw [hloop.1]; rfl) with y | ⟨t, ht, _, hfired⟩ | y | y
        · exact y
        · rw [quiet_timers hq hloop.2.2.2 t ht] at hfired; cases hfired
        · rw [hloop.2.2.2] at y; cases y
        · rw [hloop.1] at y; simp [LPc.stopping] at y
      · -- a stop was consumed and fully processed
        rcases lf.S hb x with y | y | y
        · exact y
        · rw [hloop.1] at y; cases y
        · rw [hloop.1] at y; simp [LPc.stopping] at y
  unfold Committed at hC
  exact ⟨by omega, by omega, hloop.1⟩

end Morlock.Proofs.ConcUci
