import Morlock.Proofs.DrawOps
import Morlock.Props.C07
/-!
# C05: hash faithfulness from C07, and clocks / lines along a sequence of moves
-/
namespace Morlock.Proofs.Draw
open Morlock Morlock.Model Morlock.Model.World Morlock.Proofs Morlock.Proofs.Arena

/-- The move is one C07 speaks about: every view of the current position agrees with a mailbox board,
the metadata carried by the move is accurate, and the piece moved belongs to the side to move. -/
def GoodMove (w : World) (b : Nat) (m : Move) : Prop :=
  (∃ bd, Rep (w.cur b).pos bd) ∧ MetaOK (w.cur b).pos m = true ∧
    ∃ pc, (w.cur b).pos.square m.from = some ((w.board b).turn, pc)

/-- **Hash faithfulness is preserved by good moves** (C07 `move_eq_hash`). -/
theorem hashFaithful_push_good {w w' : World} {z : ZTable} {b : Nat} {m : Move} (hz : z.enpassant 0 = 0)
    (hw : WFWorld w) (hb : b < w.boards.size) (h : w.pushMove z b m = some w')
    (hf : HashFaithful z w b) (hg : GoodMove w b m) : HashFaithful z w' b := by
  obtain ⟨⟨bd, hrep⟩, hok, pc, hsq⟩ := hg
  have hcur : (w.cur b).hash = z.hash (w.cur b).pos (w.board b).turn :=
    hf (key (w.cur b), (w.board b).turn) (by rw [lineK_head, sided_cons]; exact List.mem_cons_self)
  obtain ⟨_, ht, hh, hm, _⟩ := push_line hw hb h
  apply hashFaithful_push hw hb h hf
  rw [hh, hcur, ht]
  exact Props.C07.move_eq_hash z hz hrep hok hsq hm

/-! ## sequences of moves -/

theorem pushAll_clock {z : ZTable} {b : Nat} (ms : List Move) :
    ∀ {w w' : World}, WFWorld w → b < w.boards.size → pushAll z b w ms = some w' →
      (w'.cur b).noprogress = ms.foldl updateNoProgress (w.cur b).noprogress := by
  induction ms with
  | nil => intro w w' _ _ h; cases h; rfl
  | cons m r ih =>
    intro w w' hw hb h
    simp only [pushAll] at h
    cases hs : w.pushMove z b m with
    | none => rw [hs] at h; cases h
    | some w1 =>
      rw [hs] at h
      simp only [Option.bind_some] at h
      have hb1 : b < w1.boards.size := by rw [boards_size_push hs]; exact hb
      rw [ih (wf_push hw hb hs) hb1 h, List.foldl_cons, (push_line hw hb hs).2.2.2.2.1]

/-- Invariants along a sequence of moves on one board. -/
theorem pushAll_inv {z : ZTable} {b : Nat} (ms : List Move) :
    ∀ {w w' : World}, WFWorld w → b < w.boards.size → pushAll z b w ms = some w' →
      (RepMapOK w b → RepMapOK w' b) ∧ (ClockOK w b → ClockOK w' b) := by
  induction ms with
  | nil => intro w w' _ _ h; cases h; exact ⟨id, id⟩
  | cons m r ih =>
    intro w w' hw hb h
    simp only [pushAll] at h
    cases hs : w.pushMove z b m with
    | none => rw [hs] at h; cases h
    | some w1 =>
      rw [hs] at h
      simp only [Option.bind_some] at h
      have hb1 : b < w1.boards.size := by rw [boards_size_push hs]; exact hb
      have := ih (wf_push hw hb hs) hb1 h
      exact ⟨fun hr => this.1 (repMapOK_push hw hb hs hr), fun hc => this.2 (clockOK_push hw hb hs hc)⟩

end Morlock.Proofs.Draw
