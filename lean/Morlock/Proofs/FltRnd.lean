import Morlock.Proofs.FltQ
/-! # `rnd`: totality, exactness on representable values, symmetry, dependence on the value only -/
namespace Morlock.Model.Flt

/-- `x` is a finite number of the format: `|x| = m·2^e` with `m < 2^p`, `emin ≤ e`, `e + p − 1 ≤ emax` -/
def Rep (f : Fmt) (x : Q) : Prop :=
  ∃ (m : Nat) (e : Int), m < 2 ^ f.p ∧ f.emin ≤ e ∧ e + ((f.p : Int) - 1) ≤ f.emax ∧
    x.num.natAbs * pd e = m * x.den * pn e

theorem rnd_zero (f : Fmt) (d : Nat) : rnd f ⟨0, d⟩ = some ⟨0, 1⟩ := by simp [rnd]

theorem rnd_of_num_eq_zero (f : Fmt) {x : Q} (h : x.num = 0) : rnd f x = some ⟨0, 1⟩ := by simp [rnd, h]

theorem rnd_of_num_ne_zero (f : Fmt) {x : Q} (h : x.num ≠ 0) :
    rnd f x = (rndPos f x.num.natAbs x.den).map fun me => ofME (x.num < 0) me.1 me.2 := by
  unfold rnd
  have : (x.num == 0) = false := by simpa using h
  rw [this]
  simp only [Bool.false_eq_true, if_false]
  cases rndPos f x.num.natAbs x.den with
  | none => rfl
  | some me => rfl

theorem ofME_true (m : Nat) (e : Int) : ofME true m e = (ofME false m e).neg := by
  unfold ofME; simp

theorem rnd_neg (f : Fmt) (x : Q) : rnd f (Q.neg x) = (rnd f x).map Q.neg := by
  by_cases h : x.num = 0
  · have h' : (Q.neg x).num = 0 := by simp [Q.neg, h]
    rw [rnd_of_num_eq_zero f h, rnd_of_num_eq_zero f h']; rfl
  · have h' : (Q.neg x).num ≠ 0 := by simp [Q.neg, h]
    rw [rnd_of_num_ne_zero f h, rnd_of_num_ne_zero f h']
    have e1 : (Q.neg x).num.natAbs = x.num.natAbs := by simp [Q.neg]
    have e2 : (Q.neg x).den = x.den := rfl
    rw [e1, e2]
    cases rndPos f x.num.natAbs x.den with
    | none => rfl
    | some me =>
      simp only [Option.map_some]
      congr 1
      have e3 : (Q.neg x).num = -x.num := rfl
      rw [e3]
      rcases Int.lt_or_gt_of_ne h with hlt | hgt
      · have h1 : ¬ (-x.num < 0) := by omega
        simp only [hlt, h1, decide_true, decide_false]
        rw [ofME_true, Q.neg_neg]
      · have h1 : (-x.num < 0) := by omega
        have h2 : ¬ (x.num < 0) := by omega
        simp only [h1, h2, decide_true, decide_false]
        rw [ofME_true]

/-- no overflow up to the largest finite value `(2^p − 1)·2^(emax − p + 1)` -/
theorem rnd_isSome_of_le_max (f : Fmt) (wf : f.WF) (x : Q) (hd : 0 < x.den)
    (h : x.num.natAbs * pd (f.emax - ((f.p : Int) - 1)) ≤ (2 ^ f.p - 1) * x.den * pn (f.emax - ((f.p : Int) - 1))) :
    (rnd f x).isSome := by
  by_cases h0 : x.num = 0
  · rw [rnd_of_num_eq_zero f h0]; rfl
  · rw [rnd_of_num_ne_zero f h0]
    have := rndPos_isSome f wf (a := x.num.natAbs) (b := x.den) (by omega) hd h
    simpa using this

/-- `0 < x.den → |x| ≤ 2^emax → (rnd f x).isSome` -/
theorem rnd_isSome_of_le (f : Fmt) (wf : f.WF) (x : Q) (hd : 0 < x.den)
    (h : x.num.natAbs * pd f.emax ≤ x.den * pn f.emax) : (rnd f x).isSome := by
  by_cases h0 : x.num = 0
  · rw [rnd_of_num_eq_zero f h0]; rfl
  · rw [rnd_of_num_ne_zero f h0]
    have := rndPos_isSome_of_le_two_pow f wf (a := x.num.natAbs) (b := x.den) (by omega) hd h
    simpa using this

/-- equal absolute values and equal signs give equal values -/
theorem Q.eqv_of_abs {x y : Q} (hs : y.num < 0 ↔ x.num < 0) (h : y.num.natAbs * x.den = x.num.natAbs * y.den) :
    Q.Eqv y x := by
  unfold Q.Eqv
  have h' : (y.num.natAbs : Int) * x.den = (x.num.natAbs : Int) * y.den := by
    have := congrArg (fun n : Nat => (n : Int)) h
    simpa [Int.natCast_mul] using this
  by_cases hx : x.num < 0
  · have hy := hs.mpr hx
    have e1 : (y.num.natAbs : Int) = -y.num := by omega
    have e2 : (x.num.natAbs : Int) = -x.num := by omega
    rw [e1, e2] at h'
    simp only [Int.neg_mul] at h'
    omega
  · have hy : ¬ y.num < 0 := fun c => hx (hs.mp c)
    have e1 : (y.num.natAbs : Int) = y.num := by omega
    have e2 : (x.num.natAbs : Int) = x.num := by omega
    rw [e1, e2] at h'
    exact h'

theorem Q.abs_of_eqv {x y : Q} (hx : 0 < x.den) (hy : 0 < y.den) (h : Q.Eqv y x) :
    (y.num < 0 ↔ x.num < 0) ∧ (y.num = 0 ↔ x.num = 0) ∧ y.num.natAbs * x.den = x.num.natAbs * y.den := by
  unfold Q.Eqv at h
  have hxd : (0 : Int) < x.den := by omega
  have hyd : (0 : Int) < y.den := by omega
  refine ⟨?_, ?_, ?_⟩
  · constructor
    · intro hn
      rcases Int.lt_or_le x.num 0 with h0 | h0
      · exact h0
      · have := Int.mul_neg_of_neg_of_pos hn hxd
        have := Int.mul_nonneg h0 (Int.le_of_lt hyd)
        omega
    · intro hn
      rcases Int.lt_or_le y.num 0 with h0 | h0
      · exact h0
      · have := Int.mul_neg_of_neg_of_pos hn hyd
        have := Int.mul_nonneg h0 (Int.le_of_lt hxd)
        omega
  · constructor
    · intro h0
      rw [h0] at h
      simp only [Int.zero_mul] at h
      rcases Int.mul_eq_zero.mp h.symm with h1 | h1 <;> omega
    · intro h0
      rw [h0] at h
      simp only [Int.zero_mul] at h
      rcases Int.mul_eq_zero.mp h with h1 | h1 <;> omega
  · have := congrArg Int.natAbs h
    simpa [Int.natAbs_mul] using this

/-- `rnd` depends on the value only, not on the representation of the rational -/
theorem rnd_congr (f : Fmt) (wf : f.WF) {x y : Q} (hx : 0 < x.den) (hy : 0 < y.den) (h : Q.Eqv x y) :
    rnd f x = rnd f y := by
  obtain ⟨hs, hz, ha⟩ := Q.abs_of_eqv hy hx h
  by_cases h0 : x.num = 0
  · rw [rnd_of_num_eq_zero f h0, rnd_of_num_eq_zero f (hz.mp h0)]
  · have h0' : y.num ≠ 0 := fun c => h0 (hz.mpr c)
    rw [rnd_of_num_ne_zero f h0, rnd_of_num_ne_zero f h0']
    rw [rndPos_congr f wf.p_pos (a := x.num.natAbs) (b := x.den) (a' := y.num.natAbs) (b' := y.den)
      (by omega) hx (by omega) hy ha]
    have : decide (x.num < 0) = decide (y.num < 0) := by simp [hs]
    rw [this]

/-- the result of `rnd` in terms of the pair returned by `rndPos` -/
theorem rnd_eq_some (f : Fmt) {x y : Q} (h0 : x.num ≠ 0) (h : rnd f x = some y) :
    ∃ m e, rndPos f x.num.natAbs x.den = some (m, e) ∧ y = ofME (x.num < 0) m e := by
  rw [rnd_of_num_ne_zero f h0] at h
  cases hr : rndPos f x.num.natAbs x.den with
  | none => rw [hr] at h; simp at h
  | some me =>
    rw [hr] at h
    simp only [Option.map_some, Option.some.injEq] at h
    exact ⟨me.1, me.2, rfl, h.symm⟩

/-- every result of `rnd` is in lowest terms with a positive denominator -/
theorem rnd_canon (f : Fmt) {x y : Q} (h : rnd f x = some y) : y.Canon := by
  by_cases h0 : x.num = 0
  · rw [rnd_of_num_eq_zero f h0] at h
    have : y = ⟨0, 1⟩ := by simpa using h.symm
    subst this; unfold Q.Canon; simp
  · obtain ⟨m, e, _, rfl⟩ := rnd_eq_some f h0 h
    exact (ofME_spec _ m e).1

/-- representable values are fixed points of `rnd` (the result is the same rational, in lowest terms) -/
theorem rnd_exact (f : Fmt) (wf : f.WF) {x : Q} (hd : 0 < x.den) (hr : Rep f x) :
    ∃ y, rnd f x = some y ∧ Q.Eqv y x ∧ y.Canon := by
  by_cases h0 : x.num = 0
  · refine ⟨⟨0, 1⟩, rnd_of_num_eq_zero f h0, ?_, ?_⟩
    · unfold Q.Eqv; simp [h0]
    · unfold Q.Canon; simp
  · obtain ⟨m, e, hm, he, hmax, hv⟩ := hr
    have ha : 0 < x.num.natAbs := by omega
    obtain ⟨m', e', hr', hv'⟩ := rndPos_exact f wf.p_pos ha hd hv hm he hmax
    refine ⟨ofME (x.num < 0) m' e', ?_, ?_, (ofME_spec _ m' e').1⟩
    · rw [rnd_of_num_ne_zero f h0, hr']; rfl
    · obtain ⟨_, hy, hs, _⟩ := ofME_spec (decide (x.num < 0)) m' e'
      have hm' : 0 < m' := by
        apply Nat.pos_of_ne_zero; intro c; subst c
        have : 0 < x.num.natAbs * pd e' := Nat.mul_pos ha (pd_pos _)
        simp at hv'; omega
      apply Q.eqv_of_abs
      · rw [hs]; simp [hm']
      · generalize (ofME (decide (x.num < 0)) m' e') = y at *
        have : y.num.natAbs * x.den * pd e' = x.num.natAbs * y.den * pd e' := by
          calc y.num.natAbs * x.den * pd e' = y.num.natAbs * pd e' * x.den := by grind
            _ = m' * pn e' * y.den * x.den := by rw [hy]
            _ = m' * x.den * pn e' * y.den := by grind
            _ = x.num.natAbs * pd e' * y.den := by rw [hv']
            _ = x.num.natAbs * y.den * pd e' := by grind
        exact Nat.eq_of_mul_eq_mul_right (pd_pos _) this

theorem Q.norm_of_canon {x : Q} (h : x.Canon) : Q.norm x = x := by
  unfold Q.norm; simp [h.2]

/-- representable values are fixed points of `rnd`: the result is `Q.norm x` -/
theorem rnd_exact_norm (f : Fmt) (wf : f.WF) {x : Q} (hd : 0 < x.den) (hr : Rep f x) :
    rnd f x = some (Q.norm x) := by
  obtain ⟨y, hy, he, hc⟩ := rnd_exact f wf hd hr
  rw [hy]
  congr 1
  apply Q.Canon.eq_of_eqv hc (Q.norm_canon hd)
  exact Q.Eqv.trans hd he (Q.norm_eqv x).symm

/-- a representable value in lowest terms is returned unchanged -/
theorem rnd_exact_canon (f : Fmt) (wf : f.WF) {x : Q} (hc : x.Canon) (hr : Rep f x) : rnd f x = some x := by
  rw [rnd_exact_norm f wf hc.1 hr, Q.norm_of_canon hc]

/-- the results of `rnd` are representable -/
theorem rnd_rep (f : Fmt) (wf : f.WF) {x y : Q} (hd : 0 < x.den) (h : rnd f x = some y) : Rep f y := by
  by_cases h0 : x.num = 0
  · rw [rnd_of_num_eq_zero f h0] at h
    have : y = ⟨0, 1⟩ := by simpa using h.symm
    subst this
    exact ⟨0, f.emin, Nat.two_pow_pos _, Int.le_refl _, wf.range, by simp⟩
  · obtain ⟨m, e, hr, rfl⟩ := rnd_eq_some f h0 h
    obtain ⟨hm, he, hmax, _⟩ := rndPos_spec f wf.p_pos (by omega) hd hr
    obtain ⟨_, hy, _, _⟩ := ofME_spec (decide (x.num < 0)) m e
    refine ⟨m, e, hm, he, hmax, ?_⟩
    rw [hy]; grind

end Morlock.Model.Flt
