import Morlock.Proofs.BernsteinSort
/-!
# Structure of `FindPlausibleMoves`: a reordering of the base list, or (castling branch) of a non-empty part of it
-/
namespace Morlock.Proofs.Bernstein
open Morlock Morlock.Model Morlock.Model.Bernstein

/-- the base list is a reordering of the legal moves that are not under-promotions -/
theorem baseMoves_perm (p : Position) (side : Color) :
    (baseMoves p side).Perm ((p.legalMoves side).filter fun m => !m.isUnderPromotion) := by
  unfold baseMoves
  exact (sortByPriority_perm _ _).trans (sortByPriority_perm _ _)

/-! ## the rank map -/

theorem has_set (r : RankMap) (m : Move) (v : Int) (m' : Move) :
    (r.set m v).has m' = (decide (m' = m) || r.has m') := by
  unfold RankMap.set RankMap.has
  rw [List.lookup_cons]
  by_cases h : m' = m
  · subst h; simp
  · have : (m' == m) = false := by simpa using h
    rw [this]; simp [h]

theorem get_set (r : RankMap) (m : Move) (v : Int) (m' : Move) :
    (r.set m v).get m' = if m' = m then v else r.get m' := by
  unfold RankMap.set RankMap.get
  rw [List.lookup_cons]
  by_cases h : m' = m
  · subst h; simp
  · have : (m' == m) = false := by simpa using h
    rw [this, if_neg h]

/-- every bound move has a positive rank -/
def PosMap (r : RankMap) : Prop := ∀ m, r.has m = true → 0 < r.get m

theorem posMap_nil : PosMap [] := by
  intro m h; simp [RankMap.has] at h

theorem posMap_set {r : RankMap} (h : PosMap r) (m : Move) {v : Int} (hv : 0 < v) : PosMap (r.set m v) := by
  intro m' hm'
  rw [get_set]
  rw [has_set] at hm'
  by_cases e : m' = m
  · rw [if_pos e]; exact hv
  · rw [if_neg e]
    apply h
    simpa [e] using hm'

/-- one iteration of the first ranking loop -/
def step23 (p : Position) (side : Color) (acc : RankMap × Bool) (m : Move) : RankMap × Bool :=
  if gain p side m then (acc.1.set m 23, acc.2)
  else if loss p side m then (acc.1.set m 22, acc.2)
  else if exchange m then (acc.1.set m 21, acc.2)
  else if m.isCastle then (acc.1.set m 20, true)
  else acc

theorem rank23_eq (p : Position) (side : Color) (moves : List Move) :
    rank23 p side moves = moves.foldl (step23 p side) ([], false) := rfl

theorem step23_pos (p : Position) (side : Color) (acc : RankMap × Bool) (m : Move) (h : PosMap acc.1) :
    PosMap (step23 p side acc m).1 := by
  unfold step23
  split
  · exact posMap_set h m (by decide)
  · split
    · exact posMap_set h m (by decide)
    · split
      · exact posMap_set h m (by decide)
      · split
        · exact posMap_set h m (by decide)
        · exact h

theorem step23_has_mono (p : Position) (side : Color) (acc : RankMap × Bool) (m m' : Move)
    (h : acc.1.has m' = true) : (step23 p side acc m).1.has m' = true := by
  unfold step23
  split
  · rw [has_set, h]; simp
  · split
    · rw [has_set, h]; simp
    · split
      · rw [has_set, h]; simp
      · split
        · rw [has_set, h]; simp
        · exact h

theorem step23_castle (p : Position) (side : Color) (acc : RankMap × Bool) (m : Move)
    (h : (step23 p side acc m).2 = true) : acc.2 = true ∨ (step23 p side acc m).1.has m = true := by
  unfold step23 at h ⊢
  split
  · rename_i hg; rw [if_pos hg] at h; exact Or.inl h
  · rename_i hg
    rw [if_neg hg] at h
    split
    · rename_i hl; rw [if_pos hl] at h; exact Or.inl h
    · rename_i hl
      rw [if_neg hl] at h
      split
      · rename_i he; rw [if_pos he] at h; exact Or.inl h
      · rename_i he
        rw [if_neg he] at h
        split
        · right; rw [has_set]; simp
        · rename_i hc; rw [if_neg hc] at h; exact Or.inl h

theorem fold23_pos (p : Position) (side : Color) : ∀ (l : List Move) (acc : RankMap × Bool),
    PosMap acc.1 → PosMap (l.foldl (step23 p side) acc).1
  | [], _, h => h
  | x :: xs, acc, h => by
    rw [List.foldl_cons]
    exact fold23_pos p side xs _ (step23_pos p side acc x h)

theorem fold23_has_mono (p : Position) (side : Color) (m' : Move) : ∀ (l : List Move) (acc : RankMap × Bool),
    acc.1.has m' = true → (l.foldl (step23 p side) acc).1.has m' = true
  | [], _, h => h
  | x :: xs, acc, h => by
    rw [List.foldl_cons]
    exact fold23_has_mono p side m' xs _ (step23_has_mono p side acc x m' h)

theorem fold23_castle (p : Position) (side : Color) : ∀ (l : List Move) (acc : RankMap × Bool),
    (l.foldl (step23 p side) acc).2 = true →
      acc.2 = true ∨ ∃ m ∈ l, (l.foldl (step23 p side) acc).1.has m = true
  | [], acc, h => Or.inl h
  | x :: xs, acc, h => by
    rw [List.foldl_cons] at h ⊢
    rcases fold23_castle p side xs _ h with h1 | ⟨m, hm, hh⟩
    · rcases step23_castle p side acc x h1 with h2 | h2
      · exact Or.inl h2
      · exact Or.inr ⟨x, List.mem_cons_self .., fold23_has_mono p side x xs _ h2⟩
    · exact Or.inr ⟨m, List.mem_cons_of_mem _ hm, hh⟩

/-- **when the castling flag is raised, some move of the list has a positive rank**: the
`rank[move] > 0` filter of the castling branch keeps at least one move. -/
theorem rank23_castle_witness (p : Position) (side : Color) (moves : List Move)
    (h : (rank23 p side moves).2 = true) : ∃ m ∈ moves, 0 < (rank23 p side moves).1.get m := by
  rw [rank23_eq] at h ⊢
  rcases fold23_castle p side moves _ h with h0 | ⟨m, hm, hh⟩
  · cases h0
  · exact ⟨m, hm, fold23_pos p side moves _ posMap_nil m hh⟩

/-! ## the three exits of `FindPlausibleMoves` -/

/-- `FindPlausibleMoves` returns a reordering of the whole base list (in check; no castling move
ranked), or — castling branch — a reordering of the non-empty part of it that has a positive rank. -/
theorem findPlausibleMoves_cases (p : Position) (side : Color) :
    (findPlausibleMoves p side).Perm (baseMoves p side) ∨
    ∃ keep : Move → Bool, (findPlausibleMoves p side).Perm ((baseMoves p side).filter keep) ∧
      ∃ m ∈ baseMoves p side, keep m = true := by
  unfold findPlausibleMoves
  simp only
  split
  · exact Or.inl (sortByPriority_perm _ _)
  · cases hr : rank23 p side (baseMoves p side) with
    | mk rank castle =>
      simp only
      cases castle with
      | false =>
        simp only [Bool.false_eq_true, if_false]
        exact Or.inl (sortByPriority_perm _ _)
      | true =>
        simp only [if_true]
        refine Or.inr ⟨fun m => decide (rank.get m > 0), sortByPriority_perm _ _, ?_⟩
        obtain ⟨m, hm, hpos⟩ := rank23_castle_witness p side (baseMoves p side) (by rw [hr])
        rw [hr] at hpos
        exact ⟨m, hm, by simpa using hpos⟩

theorem mem_findPlausibleMoves_base {p : Position} {side : Color} {m : Move}
    (h : m ∈ findPlausibleMoves p side) : m ∈ baseMoves p side := by
  rcases findPlausibleMoves_cases p side with hp | ⟨keep, hp, _⟩
  · exact hp.mem_iff.mp h
  · exact (List.mem_filter.mp (hp.mem_iff.mp h)).1

theorem findPlausibleMoves_nodup {p : Position} {side : Color} (h : (baseMoves p side).Nodup) :
    (findPlausibleMoves p side).Nodup := by
  rcases findPlausibleMoves_cases p side with hp | ⟨keep, hp, _⟩
  · exact hp.nodup_iff.mpr h
  · exact hp.nodup_iff.mpr (h.filter _)

theorem findPlausibleMoves_ne_nil {p : Position} {side : Color} (h : baseMoves p side ≠ []) :
    findPlausibleMoves p side ≠ [] := by
  rcases findPlausibleMoves_cases p side with hp | ⟨keep, hp, m, hm, hk⟩
  · intro e; rw [e] at hp; exact h hp.symm.eq_nil
  · intro e
    rw [e] at hp
    have : m ∈ (baseMoves p side).filter keep := List.mem_filter.mpr ⟨hm, hk⟩
    rw [hp.symm.eq_nil] at this
    cases this

/-- outside the castling branch nothing is dropped: the plausible moves are *all* legal moves that are
not under-promotions, reordered. -/
theorem findPlausibleMoves_perm_of_no_castle {p : Position} {side : Color}
    (h : ∀ m ∈ p.legalMoves side, m.isCastle = false) :
    (findPlausibleMoves p side).Perm (baseMoves p side) := by
  rcases findPlausibleMoves_cases p side with hp | ⟨keep, hp, _⟩
  · exact hp
  · -- the castling branch needs a castling move in the list
    unfold findPlausibleMoves
    simp only
    split
    · exact sortByPriority_perm _ _
    · cases hr : rank23 p side (baseMoves p side) with
      | mk rank castle =>
        simp only
        cases castle with
        | false =>
          simp only [Bool.false_eq_true, if_false]
          exact sortByPriority_perm _ _
        | true =>
          exfalso
          have hnc : ∀ m ∈ baseMoves p side, m.isCastle = false := fun m hm =>
            h m (List.mem_filter.mp ((baseMoves_perm p side).mem_iff.mp hm)).1
          have : ∀ (l : List Move) (acc : RankMap × Bool), (∀ m ∈ l, m.isCastle = false) →
              (l.foldl (step23 p side) acc).2 = acc.2 := by
            intro l
            induction l with
            | nil => intro acc _; rfl
            | cons x xs ih =>
              intro acc hl
              rw [List.foldl_cons, ih _ (fun m hm => hl m (List.mem_cons_of_mem _ hm))]
              have hx := hl x (List.mem_cons_self ..)
              unfold step23
              split
              · rfl
              · split
                · rfl
                · split
                  · rfl
                  · rw [if_neg (by simp [hx])]
          have h2 := this (baseMoves p side) ([], false) hnc
          rw [← rank23_eq, hr] at h2
          cases h2

end Morlock.Proofs.Bernstein
