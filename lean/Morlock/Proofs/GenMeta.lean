import Morlock.Proofs.GenPseudo
/-!
# Stage E of C01 (continued): every generated move has accurate metadata (`MetaOK`) and the class
the rules assign (`ClassOK`)
-/
namespace Morlock.Proofs.Gen
open Morlock Morlock.Model Morlock.Proofs.Attack

/-! ## Coordinates -/

theorem step_coords {s t : Nat} {df dr : Int} (h : Spec.step s df dr = some t) :
    ((t % 8 : Nat) : Int) = (s % 8 : Nat) + df ∧ ((t / 8 : Nat) : Int) = (s / 8 : Nat) + dr := by
  rw [step_eq_some_iff] at h
  omega

theorem mem_pawnTargets_iff {c : Spec.Color} {s t : Nat} :
    t ∈ Spec.pawnTargets c s ↔ Spec.step s 1 (Spec.fwd c) = some t ∨ Spec.step s (-1) (Spec.fwd c) = some t := by
  simp only [Spec.pawnTargets, List.mem_filterMap, List.mem_cons, List.not_mem_nil, or_false, id,
    exists_eq_or_imp, exists_eq_left]

theorem fwd_cases (turn : Color) : Spec.fwd (absColor turn) = 1 ∨ Spec.fwd (absColor turn) = -1 := by
  cases turn <;> simp [Spec.fwd, absColor]

theorem king_target_file {occ : Nat → Bool} {s t : Nat} (h : t ∈ Spec.officerTargets occ .king s) :
    ((t % 8 : Nat) : Int) - (s % 8 : Nat) ≤ 1 ∧ ((s % 8 : Nat) : Int) - (t % 8 : Nat) ≤ 1 := by
  simp only [Spec.officerTargets, List.mem_filterMap] at h
  obtain ⟨⟨df, dr⟩, hd, hst⟩ := h
  have := step_coords hst
  simp only [Spec.kingSteps, Spec.rookDirs, Spec.bishopDirs, List.mem_append, List.mem_cons,
    List.not_mem_nil, or_false, Prod.mk.injEq] at hd
  rcases hd with (⟨rfl, rfl⟩ | ⟨rfl, rfl⟩ | ⟨rfl, rfl⟩ | ⟨rfl, rfl⟩) | (⟨rfl, rfl⟩ | ⟨rfl, rfl⟩ | ⟨rfl, rfl⟩ | ⟨rfl, rfl⟩) <;>
    omega

/-! ## The three classifying predicates of the reference, given the moving piece -/

theorem isEnPassant_of_at {s : Spec.Pos} {sm : Spec.SMove} {c : Spec.Color} {K : Spec.Kind}
    (hat : s.at sm.from = some (c, K)) :
    Spec.isEnPassant s sm =
      (decide (K = .pawn) && (decide (Spec.fileOf sm.from ≠ Spec.fileOf sm.to) && !(s.occ sm.to))) := by
  unfold Spec.isEnPassant; rw [hat]; cases K <;> simp

theorem isCastle_of_at {s : Spec.Pos} {sm : Spec.SMove} {c : Spec.Color} {K : Spec.Kind}
    (hat : s.at sm.from = some (c, K)) :
    Spec.isCastle s sm =
      (decide (K = .king) && (decide (Spec.fileOf sm.from = Spec.fE) &&
        (decide (Spec.fileOf sm.to = Spec.fG) || decide (Spec.fileOf sm.to = Spec.fC)) &&
        decide (Spec.rankOf sm.from = Spec.rankOf sm.to))) := by
  unfold Spec.isCastle; rw [hat]; cases K <;> simp

theorem isDoubleStep_of_at {s : Spec.Pos} {sm : Spec.SMove} {c : Spec.Color} {K : Spec.Kind}
    (hat : s.at sm.from = some (c, K)) :
    Spec.isDoubleStep s sm =
      (decide (K = .pawn) && (decide (Spec.rankOf sm.from + 2 = Spec.rankOf sm.to) ||
        decide (Spec.rankOf sm.to + 2 = Spec.rankOf sm.from))) := by
  unfold Spec.isDoubleStep; rw [hat]; cases K <;> simp

/-! ## Step moves -/

theorem StepMove.classOK {p : Position} {b : Board} (h : Rep p b) {turn : Color} {pc : Piece} {m : Move}
    (hpw : pc ≠ .pawn) (hm : StepMove b turn pc m) : ClassOK (abs p turn) m = true := by
  have hne : pc ≠ .none := h.ne_none_of_some hm.1
  have hat : (abs p turn).at (absMove m).from = some (absColor turn, kindOf pc) :=
    (h.abs_at_iff turn m.from turn (kindOf pc)).mpr (by rw [kindPiece_kindOf hne]; exact hm.1)
  have hK := kindOf_ne_pawn hne hpw
  obtain ⟨hsq, hpc, hpr, ht, hd⟩ := hm
  have hty : m.ty = .normal ∨ m.ty = .capture := by
    rcases hd with ⟨_, h1, _⟩ | ⟨_, _, h1, _⟩
    · exact Or.inl h1
    · exact Or.inr h1
  have hcastle : Spec.isCastle (abs p turn) (absMove m) = false := by
    rw [isCastle_of_at hat]
    by_cases hk : kindOf pc = .king
    · rw [hk] at ht
      have := king_target_file ht
      simp only [absMove, Spec.fileOf, Spec.fE, Spec.fG, Spec.fC, hk, decide_true, Bool.true_and]
      by_cases a : m.from % 8 = 3 <;> by_cases b1 : m.to % 8 = 1 <;> by_cases b2 : m.to % 8 = 5 <;>
        simp [a, b1, b2] <;> omega
    · simp [hk]
  unfold ClassOK
  dsimp only
  rw [isEnPassant_of_at hat, isDoubleStep_of_at hat, hcastle]
  rcases hty with hty | hty <;>
    simp [hK, hty, hpr, Move.isCastle, Move.isPromotion]

/-! ## Pawn moves -/

theorem promoOK_of_mem {m : Move} (h : m.promotion ∈ Position.promoPieces) : promoOK m = true := by
  rw [mem_promoPieces] at h
  unfold promoOK
  rcases h with h | h | h | h <;> simp [h]

theorem ne_none_of_mem_promoPieces {pc : Piece} (h : pc ∈ Position.promoPieces) : pc ≠ .none := by
  rw [mem_promoPieces] at h
  rcases h with rfl | rfl | rfl | rfl <;> simp

/-- The victim square the engine derives from an en-passant move is the `WF` victim square. -/
theorem enPassantCapture_eq {turn : Color} {m : Move} (hty : m.ty = .enPassant) (hto : m.to < 64)
    (hr : m.to / 8 = epRank turn) : m.enPassantCapture = epVictim turn m.to := by
  unfold Move.enPassantCapture
  simp only [hty, bne_self_eq_false, Bool.false_eq_true, if_false, sqRank_eq, newSquare_eq, sqFile_eq]
  cases turn <;> simp only [epRank, epVictim] at hr ⊢
  · rw [if_neg (by omega)]; omega
  · rw [if_pos (by omega)]; omega

theorem PawnMove.metaOKb {b : Board} {castling ep : Nat} {turn : Color} (hw : WFb b castling ep turn)
    {m : Move} (hm : PawnMove b ep turn m) : MetaOKb b m = true := by
  obtain ⟨hsq, hpc, hk⟩ := hm
  unfold MetaOKb
  rw [hsq]
  rcases hk with ⟨hst, hb, hcap, hr⟩ | ⟨t1, hst1, hst2, hstart, hb1, hb2, hty, hpr, hcap⟩ |
    ⟨ht, k, hk, hcap, hr⟩ | ⟨he, hto, ht, hown, hty, hpr, hcap⟩
  · have ht64 : m.to < 64 := step_lt hst
    rcases hr with ⟨_, hty, _⟩ | ⟨_, hty, hpr⟩
    · simp [hpc, ht64, hty, hb]
    · simp [hpc, ht64, hty, hb, promoOK_of_mem hpr]
  · have ht64 : m.to < 64 := step_lt hst2
    simp [hpc, ht64, hty, hb2]
  · have ht64 : m.to < 64 := pawnTargets_lt _ _ _ ht
    rcases hr with ⟨_, hty, _⟩ | ⟨_, hty, hpr⟩
    · simp [hpc, ht64, hty, hk, hcap]
    · simp [hpc, ht64, hty, hk, hcap, promoOK_of_mem hpr]
  · have ht64 : m.to < 64 := pawnTargets_lt _ _ _ ht
    obtain ⟨_, hempty, hrank, hvic⟩ := hw.ep_ok he
    rw [← hto] at hempty hrank hvic
    simp [hpc, ht64, hty, hempty, enPassantCapture_eq hty ht64 hrank, hvic]

theorem PawnMove.classOK {p : Position} {b : Board} (h : Rep p b) {turn : Color}
    (hw : WFb b p.castling p.enpassant turn) {m : Move} (hm : PawnMove b p.enpassant turn m) :
    ClassOK (abs p turn) m = true := by
  have hat : (abs p turn).at (absMove m).from = some (absColor turn, .pawn) :=
    (h.abs_at_iff turn m.from turn .pawn).mpr hm.1
  have hfr : m.from < 64 := h.lt_of_some hm.1
  obtain ⟨hsq, hpc, hk⟩ := hm
  unfold ClassOK
  dsimp only
  rw [isEnPassant_of_at hat, isDoubleStep_of_at hat, isCastle_of_at hat]
  simp only [absMove, Spec.fileOf, Spec.rankOf]
  rcases hk with ⟨hst, hb, hcap, hr⟩ | ⟨t1, hst1, hst2, hstart, hb1, hb2, hty, hpr, hcap⟩ |
    ⟨ht, k, hk, hcap, hr⟩ | ⟨he, hto, ht, hown, hty, hpr, hcap⟩
  · -- push / promotion: same file, one rank
    obtain ⟨c1, c2⟩ := step_coords hst
    have hf : m.from % 8 = m.to % 8 := by omega
    have hr1 : ¬ (m.from / 8 + 2 = m.to / 8) := by rcases fwd_cases turn with e | e <;> rw [e] at c2 <;> omega
    have hr2 : ¬ (m.to / 8 + 2 = m.from / 8) := by rcases fwd_cases turn with e | e <;> rw [e] at c2 <;> omega
    rcases hr with ⟨_, hty, hpr⟩ | ⟨_, hty, hpr⟩
    · simp [hty, hpr, hf, hr1, hr2, Move.isCastle, Move.isPromotion]
    · simp [hty, ne_none_of_mem_promoPieces hpr, hf, hr1, hr2, Move.isCastle, Move.isPromotion]
  · -- jump: same file, two ranks; the skipped square is the en-passant target
    obtain ⟨c1, c2⟩ := step_coords hst1
    obtain ⟨d1, d2⟩ := step_coords hst2
    have ht64 : m.to < 64 := step_lt hst2
    have hf : m.from % 8 = m.to % 8 := by omega
    have htgt : m.enPassantTarget = Spec.mkSq (m.from % 8) ((m.from / 8 + m.to / 8) / 2) := by
      unfold Move.enPassantTarget Spec.mkSq
      simp only [hty, bne_self_eq_false, Bool.false_eq_true, if_false, sqRank_eq, newSquare_eq, sqFile_eq]
      simp only [Spec.rankOf] at hstart
      cases turn <;> simp only [Spec.fwd, absColor, Spec.startRank] at c2 d2 hstart
      · rw [if_pos (by omega)]; omega
      · rw [if_neg (by omega)]; omega
    have hdbl : (m.from / 8 + 2 = m.to / 8) ∨ (m.to / 8 + 2 = m.from / 8) := by
      rcases fwd_cases turn with e | e <;> rw [e] at c2 d2 <;> omega
    simp [hty, hpr, hf, htgt, Move.isCastle, Move.isPromotion]
    rcases hdbl with e | e
    · exact Or.inl (decide_eq_true e)
    · exact Or.inr (decide_eq_true e)
  · -- capture / capture promotion: the destination is occupied, one rank
    have hocc : (abs p turn).occ m.to = true := by
      rw [h.abs_occ]; simp [occB, hk]
    have hr12 : ¬ (m.from / 8 + 2 = m.to / 8) ∧ ¬ (m.to / 8 + 2 = m.from / 8) := by
      rcases mem_pawnTargets_iff.mp ht with hst | hst <;> obtain ⟨c1, c2⟩ := step_coords hst <;>
        rcases fwd_cases turn with e | e <;> rw [e] at c2 <;> omega
    rcases hr with ⟨_, hty, hpr⟩ | ⟨_, hty, hpr⟩
    · simp [hty, hpr, hocc, hr12.1, hr12.2, Move.isCastle, Move.isPromotion]
    · simp [hty, ne_none_of_mem_promoPieces hpr, hocc, hr12.1, hr12.2, Move.isCastle, Move.isPromotion]
  · -- en passant: other file, empty destination, the victim stands beside the capturing pawn
    obtain ⟨_, hempty, hrank, _⟩ := hw.ep_ok he
    rw [← hto] at hempty hrank
    have ht64 : m.to < 64 := pawnTargets_lt _ _ _ ht
    have hocc : (abs p turn).occ m.to = false := (occ_false_iff h turn _).mpr hempty
    have hgeo : m.from % 8 ≠ m.to % 8 ∧ ¬ (m.from / 8 + 2 = m.to / 8) ∧ ¬ (m.to / 8 + 2 = m.from / 8) ∧
        epVictim turn m.to = Spec.mkSq (m.to % 8) (m.from / 8) := by
      unfold Spec.mkSq
      rcases mem_pawnTargets_iff.mp ht with hst | hst <;> obtain ⟨c1, c2⟩ := step_coords hst <;>
        cases turn <;> simp only [Spec.fwd, absColor, epRank, epVictim] at c2 hrank ⊢ <;> omega
    simp [hty, hpr, hocc, hgeo.1, hgeo.2.1, hgeo.2.2.1, enPassantCapture_eq hty ht64 hrank, hgeo.2.2.2,
      Move.isCastle, Move.isPromotion]

/-! ## Castles -/

theorem CastleMove.metaOKb {b : Board} {castling ep : Nat} {turn t : Color} (hw : WFb b castling ep t)
    {m : Move} (hm : CastleMove b castling turn m) (hfr : m.from = kingHomeSq turn) :
    MetaOKb b m = true := by
  have hk := hm.kingHome hw
  obtain ⟨cs, hcs, hr, hempty, hrook, hty, hpc, hto, hpr, hcap⟩ := hm
  unfold MetaOKb
  rw [hfr, hk]
  cases turn
  all_goals
    simp only [castleParams, List.mem_cons, List.not_mem_nil, or_false] at hcs
    rcases hcs with rfl | rfl
    all_goals
      simp only at hr hempty hrook hty hto
      have e1 := hempty _ (List.mem_cons_self ..)
      have e2 := hempty _ (List.mem_cons_of_mem _ (List.mem_cons_self ..))
      try have e3 := hempty _ (List.mem_cons_of_mem _ (List.mem_cons_of_mem _ (List.mem_cons_self ..)))
      simp_all [kingHomeSq, Move.castlingRookMove, E1, E8, H1, F1, G1, A1, D1, C1, H8, F8, G8, A8, D8, C8]

theorem CastleMove.classOK {p : Position} {b : Board} (h : Rep p b) {turn t : Color}
    (hw : WFb b p.castling p.enpassant t) {m : Move} (hm : CastleMove b p.castling turn m)
    (hfr : m.from = kingHomeSq turn) : ClassOK (abs p turn) m = true := by
  have hk : b m.from = some (turn, .king) := by rw [hfr]; exact hm.kingHome hw
  have hat : (abs p turn).at (absMove m).from = some (absColor turn, .king) :=
    (h.abs_at_iff turn m.from turn .king).mpr hk
  obtain ⟨cs, hcs, hr, hempty, hrook, hty, hpc, hto, hpr, hcap⟩ := hm
  unfold ClassOK
  dsimp only
  rw [isEnPassant_of_at hat, isDoubleStep_of_at hat, isCastle_of_at hat]
  cases turn
  all_goals
    simp only [castleParams, List.mem_cons, List.not_mem_nil, or_false] at hcs
    rcases hcs with rfl | rfl
    all_goals
      simp only at hty hto
      simp only [kingHomeSq] at hfr
      simp [absMove, hfr, hto, hty, hpr, Move.isCastle, Move.isPromotion, Move.castlingRookMove,
        Spec.fileOf, Spec.rankOf, Spec.mkSq, Spec.fE, Spec.fG, Spec.fC, Spec.fH, Spec.fF, Spec.fA, Spec.fD,
        E1, E8, H1, F1, G1, A1, D1, C1, H8, F8, G8, A8, D8, C8]

/-! ## All generated moves -/

/-- **Stage E `pseudo_metaOK`** on the mailbox board. -/
theorem PseudoMove.metaOK_classOK {p : Position} {b : Board} (h : Rep p b) {turn : Color}
    (hw : WFb b p.castling p.enpassant turn) {m : Move}
    (hm : PseudoMove b p.castling p.enpassant turn m) :
    MetaOK p m = true ∧ ClassOK (abs p turn) m = true := by
  rw [h.metaOK_iff]
  rcases hm with ⟨pc, hpc, hs⟩ | hp | hs | ⟨hf, hc⟩
  · have hpw : pc ≠ .pawn := by
      rcases (mem_promoPieces pc).mp hpc with rfl | rfl | rfl | rfl <;> simp
    exact ⟨hs.metaOKb, hs.classOK h hpw⟩
  · exact ⟨hp.metaOKb hw, hp.classOK h hw⟩
  · exact ⟨hs.metaOKb, hs.classOK h (by simp)⟩
  · exact ⟨hc.metaOKb hw hf, hc.classOK h hw hf⟩

end Morlock.Proofs.Gen
