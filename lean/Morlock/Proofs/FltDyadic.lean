import Morlock.Proofs.FltRnd
/-! # Small integers, half-integers and other short dyadic rationals are exact -/
namespace Morlock.Model.Flt

/-- `n / 2^k` with `|n| ≤ 2^p` is a number of the format (if `2^-k` is not below the subnormal grid) -/
theorem rep_dyadic (f : Fmt) (wf : f.WF) (n : Int) (k : Nat) (h : n.natAbs ≤ 2 ^ f.p) (hk : f.emin ≤ -(k : Int))
    (hmax : (f.p : Int) ≤ f.emax) : Rep f ⟨n, 2 ^ k⟩ := by
  have hp := wf.p_pos
  rcases Nat.lt_or_eq_of_le h with hlt | heq
  · refine ⟨n.natAbs, -(k : Int), hlt, hk, by omega, ?_⟩
    simp only [pd, pn]
    have e1 : (- -(k : Int)).toNat = k := by omega
    have e2 : (-(k : Int)).toNat = 0 := by omega
    rw [e1, e2]; simp
  · refine ⟨2 ^ (f.p - 1), -(k : Int) + 1, by have := two_pow_pred hp; have := Nat.two_pow_pos (f.p - 1); omega,
      by omega, by omega, ?_⟩
    simp only [heq, pd, pn]
    rcases Nat.eq_zero_or_pos k with h0 | h0
    · subst h0
      simp
      rw [← two_pow_pred hp]; grind
    · have e1 : (-(-(k : Int) + 1)).toNat = k - 1 := by omega
      have e2 : (-(k : Int) + 1).toNat = 0 := by omega
      rw [e1, e2]
      obtain ⟨j, rfl⟩ : ∃ j, k = j + 1 := ⟨k - 1, by omega⟩
      simp only [Nat.add_sub_cancel, Nat.pow_zero, Nat.mul_one]
      rw [← two_pow_pred hp, Nat.pow_succ]; grind

/-- integers up to `2^p` in absolute value are exact -/
theorem rnd_int (f : Fmt) (wf : f.WF) (h0 : f.emin ≤ 0) (hmax : (f.p : Int) ≤ f.emax) (n : Int)
    (h : n.natAbs ≤ 2 ^ f.p) : rnd f (Q.ofInt n) = some (Q.ofInt n) := by
  apply rnd_exact_canon f wf (Q.canon_ofInt n)
  exact rep_dyadic f wf n 0 h (by simpa using h0) hmax

/-- half-integers `n/2` with `|n| ≤ 2^p` are exact (the result is in lowest terms) -/
theorem rnd_half (f : Fmt) (wf : f.WF) (h0 : f.emin ≤ -1) (hmax : (f.p : Int) ≤ f.emax) (n : Int)
    (h : n.natAbs ≤ 2 ^ f.p) : rnd f (Q.halves n) = some (Q.norm (Q.halves n)) := by
  apply rnd_exact_norm f wf (show 0 < (Q.halves n).den by simp [Q.halves])
  exact rep_dyadic f wf n 1 h (by simpa using h0) hmax

/-- `n / 2^k` with `|n| ≤ 2^p` is exact -/
theorem rnd_dyadic (f : Fmt) (wf : f.WF) (n : Int) (k : Nat) (h : n.natAbs ≤ 2 ^ f.p) (hk : f.emin ≤ -(k : Int))
    (hmax : (f.p : Int) ≤ f.emax) : rnd f ⟨n, 2 ^ k⟩ = some (Q.norm ⟨n, 2 ^ k⟩) :=
  rnd_exact_norm f wf (Nat.two_pow_pos k) (rep_dyadic f wf n k h hk hmax)

/-! ### `float32` and `float64` instances -/

theorem rnd32_int (n : Int) (h : n.natAbs ≤ 2 ^ 24) : rnd f32 (Q.ofInt n) = some (Q.ofInt n) :=
  rnd_int f32 f32_wf (by decide) (by decide) n h

theorem rnd64_int (n : Int) (h : n.natAbs ≤ 2 ^ 53) : rnd f64 (Q.ofInt n) = some (Q.ofInt n) :=
  rnd_int f64 f64_wf (by decide) (by decide) n h

theorem rnd32_half (n : Int) (h : n.natAbs ≤ 2 ^ 24) : rnd f32 (Q.halves n) = some (Q.norm (Q.halves n)) :=
  rnd_half f32 f32_wf (by decide) (by decide) n h

theorem rnd64_half (n : Int) (h : n.natAbs ≤ 2 ^ 53) : rnd f64 (Q.halves n) = some (Q.norm (Q.halves n)) :=
  rnd_half f64 f64_wf (by decide) (by decide) n h

theorem rnd32_isSome_of_le (x : Q) (hd : 0 < x.den) (h : x.num.natAbs ≤ 2 ^ 127 * x.den) : (rnd f32 x).isSome := by
  apply rnd_isSome_of_le f32 f32_wf x hd
  have e1 : pd f32.emax = 1 := by decide
  have e2 : pn f32.emax = 2 ^ 127 := by decide
  rw [e1, e2]; omega

set_option exponentiation.threshold 2048 in
theorem rnd64_isSome_of_le (x : Q) (hd : 0 < x.den) (h : x.num.natAbs ≤ 2 ^ 1023 * x.den) : (rnd f64 x).isSome := by
  apply rnd_isSome_of_le f64 f64_wf x hd
  have e1 : pd f64.emax = 1 := by decide
  have e2 : pn f64.emax = 2 ^ 1023 := rfl
  rw [e1, e2]; omega

/-- a convenient form for bounded intermediate results: `|x| ≤ B` with `B ≤ 2^127` -/
theorem rnd32_isSome_of_abs_le (x : Q) (B : Nat) (hd : 0 < x.den) (h : x.num.natAbs ≤ B * x.den) (hB : B ≤ 2 ^ 127) :
    (rnd f32 x).isSome := by
  apply rnd32_isSome_of_le x hd
  exact Nat.le_trans h (Nat.mul_le_mul_right _ hB)

end Morlock.Model.Flt
