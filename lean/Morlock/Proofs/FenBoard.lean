import Morlock.Proofs.FenRank
import Morlock.Proofs.Rep
/-!
# The placement field: eight ranks

A board is handled as a grid `rows : List (List Cell)` (rank 8 first, a-file first), the way the FEN
text presents it. `boardOf rows` is the mailbox board of a grid, `rowsOf b` the grid of a board;
`plRows 63 rows` the placement list the decoder hands to `NewPosition`.
-/
namespace Morlock.Proofs.Fen
open Morlock Morlock.Model Morlock.Model.Fen Morlock.Proofs

/-! ## What the placement loop can output -/

/-- Placements strictly descending from `hi`, all naming real pieces. -/
def Desc : Int → List (Nat × Color × Piece) → Prop
  | _, [] => True
  | hi, x :: rest => (x.1 : Int) ≤ hi ∧ x.2.2 ≠ Piece.none ∧ Desc ((x.1 : Int) - 1) rest

theorem Desc.mono {l : List (Nat × Color × Piece)} {a b : Int} (hab : a ≤ b) (h : Desc a l) : Desc b l := by
  cases l with
  | nil => trivial
  | cons x xs => exact ⟨Int.le_trans h.1 hab, h.2.1, h.2.2⟩

theorem Desc.mem {l : List (Nat × Color × Piece)} {hi : Int} (h : Desc hi l) :
    ∀ x ∈ l, (x.1 : Int) ≤ hi ∧ x.2.2 ≠ Piece.none := by
  induction l generalizing hi with
  | nil => intro x hx; cases hx
  | cons y ys ih =>
    intro x hx
    rcases List.mem_cons.mp hx with rfl | hx
    · exact ⟨h.1, h.2.1⟩
    · have := ih h.2.2 x hx
      have := h.1
      exact ⟨by omega, (ih h.2.2 x hx).2⟩

theorem Desc.nodup {l : List (Nat × Color × Piece)} {hi : Int} (h : Desc hi l) : (l.map (·.1)).Nodup := by
  induction l generalizing hi with
  | nil => simp
  | cons y ys ih =>
    rw [List.map_cons, List.nodup_cons]
    refine ⟨?_, ih h.2.2⟩
    intro hm
    obtain ⟨x, hx, e⟩ := List.mem_map.mp hm
    have := (h.2.2.mem x hx).1
    have e' : x.1 = y.1 := e
    omega

theorem Desc.valid {l : List (Nat × Color × Piece)} (h : Desc 63 l) : ValidPlacements l := by
  intro x hx
  have := h.mem x hx
  exact ⟨by omega, this.2⟩

theorem placements_desc (cs : List Char) (sq : Int) (acc : List (Nat × Color × Piece)) (sq' : Int)
    (out : List (Nat × Color × Piece)) (h : placements cs sq acc = some (sq', out)) :
    ∃ tail, out = acc.reverse ++ tail ∧ Desc sq tail := by
  induction cs generalizing sq acc with
  | nil =>
    simp only [placements, Option.some.injEq, Prod.mk.injEq] at h
    exact ⟨[], by simp [h.2.symm], trivial⟩
  | cons r rs ih =>
    unfold placements at h
    split at h
    · exact ih sq acc h
    · split at h
      · obtain ⟨tail, h1, h2⟩ := ih _ acc h
        exact ⟨tail, h1, h2.mono (by omega)⟩
      · split at h
        · cases h
        · rename_i c k hck
          split at h
          · cases h
          · rename_i hneg
            obtain ⟨tail, h1, h2⟩ := ih (sq - 1) ((sq.toNat, c, k) :: acc) h
            have hk : k ≠ Piece.none := (printPiece_parsePiece hck).2
            have hsq : ((sq.toNat : Nat) : Int) = sq := by omega
            refine ⟨(sq.toNat, c, k) :: tail, by simp [h1], ⟨by simp only; omega, hk, ?_⟩⟩
            simp only [hsq]; exact h2

/-- The output of the placement loop started on A8: real pieces on distinct real squares. -/
theorem placements_valid {cs : List Char} {sq' : Int} {out : List (Nat × Color × Piece)}
    (h : placements cs 63 [] = some (sq', out)) : ValidPlacements out ∧ (out.map (·.1)).Nodup := by
  obtain ⟨tail, h1, h2⟩ := placements_desc cs 63 [] sq' out h
  simp only [List.reverse_nil, List.nil_append] at h1
  subst h1
  exact ⟨h2.valid, h2.nodup⟩

/-! ## Grids -/

/-- Eight rows of eight cells. -/
def Grid (rows : List (List Cell)) : Prop := rows.length = 8 ∧ ∀ row ∈ rows, row.length = 8

/-- All cells hold real pieces. -/
def GridWF (rows : List (List Cell)) : Prop := ∀ row ∈ rows, CellsWF row

/-- Placement list of a grid, first row starting on `sq`, each row eight squares lower. -/
def plRows : Int → List (List Cell) → List (Nat × Color × Piece)
  | _, [] => []
  | sq, row :: rows => piecesOf sq row ++ plRows (sq - 8) rows

/-- The mailbox board of a grid: row `r`, column `f` is square `63 - 8 r - f`. -/
def boardOf (rows : List (List Cell)) : Board :=
  fun s => if s < 64 then (rows.getD ((63 - s) / 8) []).getD ((63 - s) % 8) none else none

theorem mem_piecesOf {s : Nat} {c : Color} {k : Piece} {sq : Int} {cells : List Cell} :
    (s, c, k) ∈ piecesOf sq cells ↔ ∃ i, cells.getD i none = some (c, k) ∧ s = (sq - (i : Int)).toNat := by
  induction cells generalizing sq with
  | nil => simp [piecesOf]
  | cons cell cs ih =>
    cases cell with
    | none =>
      rw [piecesOf, ih]
      constructor
      · rintro ⟨i, h1, h2⟩
        exact ⟨i + 1, by simpa using h1, by rw [h2]; congr 1; omega⟩
      · rintro ⟨i, h1, h2⟩
        cases i with
        | zero => simp at h1
        | succ j => exact ⟨j, by simpa using h1, by rw [h2]; congr 1; omega⟩
    | some x =>
      obtain ⟨c', k'⟩ := x
      rw [piecesOf, List.mem_cons, ih]
      constructor
      · rintro (h | ⟨i, h1, h2⟩)
        · cases h; exact ⟨0, by simp, by simp⟩
        · exact ⟨i + 1, by simpa using h1, by rw [h2]; congr 1; omega⟩
      · rintro ⟨i, h1, h2⟩
        cases i with
        | zero =>
          left
          simp only [List.getD_cons_zero, Option.some.injEq, Prod.mk.injEq] at h1
          simp only [Int.natCast_zero, Int.sub_zero] at h2
          rw [h2, h1.1, h1.2]
        | succ j => right; exact ⟨j, by simpa using h1, by rw [h2]; congr 1; omega⟩

theorem mem_plRows {s : Nat} {c : Color} {k : Piece} {sq : Int} {rows : List (List Cell)} :
    (s, c, k) ∈ plRows sq rows ↔
      ∃ r i, (rows.getD r []).getD i none = some (c, k) ∧ s = (sq - 8 * (r : Int) - (i : Int)).toNat := by
  induction rows generalizing sq with
  | nil => simp [plRows]
  | cons row rows ih =>
    rw [plRows, List.mem_append, mem_piecesOf, ih]
    constructor
    · rintro (⟨i, h1, h2⟩ | ⟨r, i, h1, h2⟩)
      · exact ⟨0, i, by simpa using h1, by rw [h2]; congr 1; omega⟩
      · exact ⟨r + 1, i, by simpa using h1, by rw [h2]; congr 1; omega⟩
    · rintro ⟨r, i, h1, h2⟩
      cases r with
      | zero => left; exact ⟨i, by simpa using h1, by rw [h2]; congr 1; omega⟩
      | succ r' => right; exact ⟨r', i, by simpa using h1, by rw [h2]; congr 1; omega⟩

theorem getD_none_of_le {cells : List Cell} {i : Nat} (h : cells.length ≤ i) : cells.getD i none = none := by
  rw [List.getD_eq_getElem?_getD, List.getElem?_eq_none h]; rfl

theorem getD_nil_of_le {rows : List (List Cell)} {r : Nat} (h : rows.length ≤ r) : rows.getD r [] = [] := by
  rw [List.getD_eq_getElem?_getD, List.getElem?_eq_none h]; rfl

theorem Grid.row_length {rows : List (List Cell)} (hg : Grid rows) {r : Nat} (hr : r < 8) :
    (rows.getD r []).length = 8 := by
  have hlt : r < rows.length := by rw [hg.1]; exact hr
  rw [List.getD_eq_getElem?_getD, List.getElem?_eq_getElem hlt]
  exact hg.2 _ (List.getElem_mem hlt)

/-- The placement list of a grid lists exactly the occupied squares of its board. -/
theorem mem_plRows_iff {rows : List (List Cell)} (hg : Grid rows) {s : Nat} {c : Color} {k : Piece} :
    (s, c, k) ∈ plRows 63 rows ↔ boardOf rows s = some (c, k) := by
  rw [mem_plRows]
  constructor
  · rintro ⟨r, i, h1, h2⟩
    have hr : r < 8 := by
      apply Classical.byContradiction; intro hn
      rw [getD_nil_of_le (by rw [hg.1]; omega)] at h1
      simp at h1
    have hi : i < 8 := by
      apply Classical.byContradiction; intro hn
      rw [getD_none_of_le (by rw [hg.row_length hr]; omega)] at h1
      cases h1
    have hs : s = 63 - 8 * r - i := by omega
    have hs64 : s < 64 := by omega
    have e1 : (63 - s) / 8 = r := by omega
    have e2 : (63 - s) % 8 = i := by omega
    unfold boardOf
    rw [if_pos hs64, e1, e2]; exact h1
  · intro h
    unfold boardOf at h
    split at h
    · rename_i hs64
      exact ⟨(63 - s) / 8, (63 - s) % 8, h, by omega⟩
    · cases h

/-- `NewPosition`'s board for the placement list of a grid is the board of the grid. -/
theorem placeAll_plRows {rows : List (List Cell)} (hg : Grid rows)
    (hnd : ((plRows 63 rows).map (·.1)).Nodup) : placeAll emptyBoard (plRows 63 rows) = boardOf rows := by
  funext s
  cases hb : boardOf rows s with
  | none =>
    rw [placeAll_not_mem]
    · rfl
    · intro hm
      obtain ⟨⟨s', c, k⟩, hx, e⟩ := List.mem_map.mp hm
      simp only at e
      subst e
      rw [(mem_plRows_iff hg).mp hx] at hb
      cases hb
  | some x =>
    obtain ⟨c, k⟩ := x
    exact placeAll_mem hnd ((mem_plRows_iff hg).mpr hb)

/-! ## The decoder on eight rank strings -/

/-- `/`-prefixed concatenation (what follows the first rank). -/
def tailSlash : List (List Char) → List Char
  | [] => []
  | x :: rest => '/' :: (x ++ tailSlash rest)

theorem intercalate_slash (x : List Char) (rest : List (List Char)) :
    List.intercalate ['/'] (x :: rest) = x ++ tailSlash rest := by
  induction rest generalizing x with
  | nil => simp [List.intercalate, tailSlash]
  | cons y ys ih =>
    have := ih y
    simp only [List.intercalate, List.intersperse_cons_cons, List.flatten_cons] at this ⊢
    rw [this]
    simp [tailSlash]

/-- Every rank string consists of rank characters and describes exactly eight squares. -/
def RanksOK (rks : List (List Char)) : Prop := ∀ rk ∈ rks, RankChars rk ∧ (cellsOf rk).length = 8

theorem placements_tailSlash (rks : List (List Char)) (acc : List (Nat × Color × Piece))
    (hok : RanksOK rks) :
    placements (tailSlash rks) (8 * (rks.length : Int) - 1) acc =
      some (-1, (plRows (8 * (rks.length : Int) - 1) (rks.map cellsOf)).reverse ++ acc |>.reverse) := by
  induction rks generalizing acc with
  | nil => simp [tailSlash, placements, plRows]
  | cons rk rest ih =>
    obtain ⟨hc, hw⟩ := hok rk (List.mem_cons_self ..)
    have hrest : RanksOK rest := fun x hx => hok x (List.mem_cons_of_mem _ hx)
    rw [tailSlash, placements, if_pos rfl, placements_rank rk _ _ _ hc (by rw [hw]; simp only [List.length_cons]; omega)]
    have e : (8 * ((rk :: rest).length : Int) - 1 - ((cellsOf rk).length : Int)) = 8 * (rest.length : Int) - 1 := by
      rw [hw]; simp only [List.length_cons]; omega
    rw [e, ih _ hrest]
    simp only [List.map_cons, plRows, List.reverse_append, List.append_assoc]
    have e2 : (8 * ((rk :: rest).length : Int) - 1 - 8) = 8 * (rest.length : Int) - 1 := by
      simp only [List.length_cons]; omega
    rw [e2]

/-- (b) The placement loop on eight `/`-separated rank strings, each eight squares wide, ends on
    cursor `-1` with the placement list of the grid. -/
theorem placements_board (rks : List (List Char)) (hlen : rks.length = 8) (hok : RanksOK rks) :
    placements (List.intercalate ['/'] rks) 63 [] = some (-1, plRows 63 (rks.map cellsOf)) := by
  cases rks with
  | nil => cases hlen
  | cons rk rest =>
    obtain ⟨hc, hw⟩ := hok rk (List.mem_cons_self ..)
    have hrest : RanksOK rest := fun x hx => hok x (List.mem_cons_of_mem _ hx)
    have hl : (rest.length : Int) = 7 := by simp only [List.length_cons] at hlen; omega
    rw [intercalate_slash, placements_rank rk _ _ _ hc (by rw [hw]; omega), hw]
    have := placements_tailSlash rest ((piecesOf 63 (cellsOf rk)).reverse ++ []) hrest
    rw [hl] at this
    rw [show ((63 : Int) - ((8 : Nat) : Int)) = 8 * 7 - 1 by omega, this]
    simp [plRows]

/-! ## Boards and grids -/

/-- The eight cells of rank row `r` of board `b` in `Encode`'s order. -/
def rowOf (b : Board) (r : Nat) : List Cell :=
  (List.range 8).map fun f => b (newSquare (8 - f - 1) (8 - r - 1))

/-- The grid of a board in `Encode`'s order. -/
def rowsOf (b : Board) : List (List Cell) := (List.range 8).map (rowOf b)

theorem newSquare_grid : ∀ r, r < 8 → ∀ f, f < 8 → newSquare (8 - f - 1) (8 - r - 1) = 63 - 8 * r - f := by
  decide

theorem getD_map_range {α : Type} (g : Nat → α) (d : α) {n i : Nat} (h : i < n) :
    ((List.range n).map g).getD i d = g i := by
  rw [List.getD_eq_getElem?_getD, List.getElem?_map, List.getElem?_range h]; rfl

theorem rowsOf_grid (b : Board) : Grid (rowsOf b) := by
  refine ⟨by simp [rowsOf], ?_⟩
  intro row hrow
  obtain ⟨r, _, e⟩ := List.mem_map.mp hrow
  rw [← e]; simp [rowOf]

theorem rowsOf_getD (b : Board) {r f : Nat} (hr : r < 8) (hf : f < 8) :
    ((rowsOf b).getD r []).getD f none = b (63 - 8 * r - f) := by
  unfold rowsOf
  rw [getD_map_range _ _ hr]
  unfold rowOf
  rw [getD_map_range _ _ hf, newSquare_grid r hr f hf]

/-- A board with nothing outside the 64 squares is the board of its grid. -/
theorem boardOf_rowsOf (b : Board) (hout : ∀ s, 64 ≤ s → b s = none) : boardOf (rowsOf b) = b := by
  funext s
  unfold boardOf
  split
  · rename_i hs
    rw [rowsOf_getD b (by omega) (Nat.mod_lt _ (by decide))]
    congr 1; omega
  · exact (hout s (by omega)).symm

theorem map_range_getD {α : Type} (l : List α) (d : α) {n : Nat} (h : l.length = n) :
    (List.range n).map (fun i => l.getD i d) = l := by
  apply List.ext_getElem
  · simp [h]
  · intro i h1 h2
    simp only [List.getElem_map, List.getElem_range]
    rw [List.getD_eq_getElem?_getD, List.getElem?_eq_getElem h2]; rfl

/-- A grid is the grid of its board. -/
theorem rowsOf_boardOf {rows : List (List Cell)} (hg : Grid rows) : rowsOf (boardOf rows) = rows := by
  have h1 : rowsOf (boardOf rows) = (List.range 8).map (fun r => rows.getD r []) := by
    unfold rowsOf
    apply List.map_congr_left
    intro r hr
    have hr8 : r < 8 := List.mem_range.mp hr
    have h2 : rowOf (boardOf rows) r = (List.range 8).map (fun f => (rows.getD r []).getD f none) := by
      unfold rowOf
      apply List.map_congr_left
      intro f hf
      have hf8 : f < 8 := List.mem_range.mp hf
      rw [newSquare_grid r hr8 f hf8]
      unfold boardOf
      rw [if_pos (by omega)]
      congr 2 <;> omega
    rw [h2, map_range_getD _ _ (hg.row_length hr8)]
  rw [h1, map_range_getD _ _ hg.1]

theorem rowsOf_wf {b : Board} (hwf : ∀ sq c, b sq ≠ some (c, Piece.none)) : GridWF (rowsOf b) := by
  intro row hrow c k hm
  obtain ⟨r, _, e⟩ := List.mem_map.mp hrow
  subst e
  obtain ⟨f, _, e⟩ := List.mem_map.mp hm
  intro hk
  subst hk
  exact hwf _ c e

/-! ## The placement string of `Encode` -/

/-- The placement field `Encode` writes for board `b`. -/
def boardStr (b : Board) : String :=
  String.intercalate "/" ((List.range 8).map fun r => rankStrOf (rowOf b r))

theorem boardStr_toList (b : Board) :
    (boardStr b).toList = List.intercalate ['/'] ((rowsOf b).map (enc 0)) := by
  unfold boardStr rowsOf
  rw [String.toList_intercalate, List.map_map, List.map_map]
  congr 1
  apply List.map_congr_left
  intro r _
  simp [rankStrOf_toList]

theorem ranksOK_enc {rows : List (List Cell)} (hg : Grid rows) (hwf : GridWF rows) :
    RanksOK (rows.map (enc 0)) ∧ (rows.map (enc 0)).map cellsOf = rows := by
  have hc : ∀ row ∈ rows, cellsOf (enc 0 row) = row := by
    intro row hrow
    have := cellsOf_enc row 0 (hwf row hrow) (by rw [hg.2 row hrow]; omega)
    simpa using this
  constructor
  · intro rk hrk
    obtain ⟨row, hrow, e⟩ := List.mem_map.mp hrk
    subst e
    exact ⟨rankChars_enc row 0 (hwf row hrow) (by rw [hg.2 row hrow]; omega), by rw [hc row hrow, hg.2 row hrow]⟩
  · rw [List.map_map]
    conv => rhs; rw [← List.map_id rows]
    apply List.map_congr_left
    intro row hrow
    exact hc row hrow

/-- (a)+(b) Decoding the placement field written for a grid yields the placement list of the grid. -/
theorem placements_enc {rows : List (List Cell)} (hg : Grid rows) (hwf : GridWF rows) :
    placements (List.intercalate ['/'] (rows.map (enc 0))) 63 [] = some (-1, plRows 63 rows) := by
  obtain ⟨hok, hid⟩ := ranksOK_enc hg hwf
  have := placements_board (rows.map (enc 0)) (by simp [hg.1]) hok
  rwa [hid] at this

theorem grid_of_ranks {rks : List (List Char)} (hlen : rks.length = 8) (hok : RanksOK rks) :
    Grid (rks.map cellsOf) ∧ GridWF (rks.map cellsOf) := by
  refine ⟨⟨by simp [hlen], ?_⟩, ?_⟩
  · intro row hrow
    obtain ⟨rk, hrk, e⟩ := List.mem_map.mp hrow
    rw [← e]; exact (hok rk hrk).2
  · intro row hrow
    obtain ⟨rk, _, e⟩ := List.mem_map.mp hrow
    rw [← e]; exact cellsOf_wf rk

end Morlock.Proofs.Fen
