import Morlock.Model.Sargon
import Morlock.Proofs.GenAbs
import Morlock.Proofs.GenBits
import Morlock.Proofs.AttackBounds
import Morlock.Proofs.MirrorModel
/-!
# SARGON, part 1: `addAttackerStack` terminates (and never runs out of the model's budget)

The Go recursion `addAttackerStack` lifts the attacker from the rotated occupancy and looks for a rook/queen
(bishop/queen) of the same side among the squares that *became* visible from the target. It has no explicit
bound. Termination argument proved here, for every position with consistent views (`Rep p b`):

* removing an occupied square only extends rays (`ray_mono`), so the rook- and bishop-target sets of the
  target square grow weakly along the recursion, and the set of the current branch grows strictly (the new
  attacker is a newly visible square);
* the new attacker is still on the board of the recursion (it cannot be one of the squares lifted before,
  because those are all visible from the target already — `StackInv.vis`);
* hence `μ` = (squares not rook-visible) + (squares not bishop-visible) strictly decreases; it starts at most
  at 128 and can never go below 101 (a rook sees at most 14 squares, a bishop at most 13).
-/
namespace Morlock.Proofs.Sargon
open Morlock Morlock.Model Morlock.Model.Sargon Morlock.Proofs.Attack Morlock.Proofs.Gen

/-! ## rays only grow when the occupancy shrinks -/

theorem ray_mono {o o' : Nat → Bool} (h : ∀ s, o' s = true → o s = true) (df dr : Int) :
    ∀ (n sq x : Nat), x ∈ Spec.ray o sq df dr n → x ∈ Spec.ray o' sq df dr n := by
  intro n
  induction n with
  | zero => intro sq x hx; simp [Spec.ray] at hx
  | succ n ih =>
    intro sq x hx
    unfold Spec.ray at hx ⊢
    cases hs : Spec.step sq df dr with
    | none => simp [hs] at hx
    | some s =>
      simp only [hs] at hx ⊢
      by_cases ho : o s = true
      · rw [if_pos ho] at hx
        simp only [List.mem_singleton] at hx
        subst hx
        by_cases ho' : o' x = true
        · rw [if_pos ho']; simp
        · rw [if_neg ho']; simp
      · rw [if_neg ho] at hx
        have ho' : ¬ o' s = true := fun c => ho (h s c)
        rw [if_neg ho']
        simp only [List.mem_cons] at hx ⊢
        rcases hx with rfl | hx
        · exact Or.inl rfl
        · exact Or.inr (ih s x hx)

/-- the two sliding kinds -/
def IsLine (k : Spec.Kind) : Prop := k = .rook ∨ k = .bishop

theorem targets_mono {o o' : Nat → Bool} (h : ∀ s, o' s = true → o s = true) {k : Spec.Kind} (hk : IsLine k)
    (t x : Nat) (hx : x ∈ Spec.officerTargets o k t) : x ∈ Spec.officerTargets o' k t := by
  rcases hk with rfl | rfl
  · simp only [Spec.officerTargets, List.mem_flatMap] at hx ⊢
    obtain ⟨d, hd, hx⟩ := hx
    exact ⟨d, hd, ray_mono h _ _ _ _ _ hx⟩
  · simp only [Spec.officerTargets, List.mem_flatMap] at hx ⊢
    obtain ⟨d, hd, hx⟩ := hx
    exact ⟨d, hd, ray_mono h _ _ _ _ _ hx⟩

/-! ## a counting measure on lists of squares -/

theorem filter_len_le {α : Type} (p p' : α → Bool) :
    ∀ L : List α, (∀ x ∈ L, p' x = true → p x = true) → (L.filter p').length ≤ (L.filter p).length := by
  intro L
  induction L with
  | nil => intro _; simp
  | cons x L ih =>
    intro h
    have ih' := ih (fun y hy => h y (List.mem_cons_of_mem _ hy))
    have hx := h x (List.mem_cons_self ..)
    cases hp' : p' x <;> cases hp : p x
    · simp [hp, hp']; exact ih'
    · simp [hp, hp']; omega
    · rw [hx hp'] at hp; cases hp
    · simp [hp, hp']; exact ih'

theorem filter_len_lt {α : Type} (p p' : α → Bool) :
    ∀ L : List α, (∀ x ∈ L, p' x = true → p x = true) → (∃ a ∈ L, p a = true ∧ p' a = false) →
      (L.filter p').length < (L.filter p).length := by
  intro L
  induction L with
  | nil => intro _ ⟨a, ha, _⟩; cases ha
  | cons x L ih =>
    intro h ⟨a, ha, hpa, hpa'⟩
    have hsub : ∀ y ∈ L, p' y = true → p y = true := fun y hy => h y (List.mem_cons_of_mem _ hy)
    have hle := filter_len_le p p' L hsub
    have hx := h x (List.mem_cons_self ..)
    rcases List.mem_cons.mp ha with rfl | haL
    · simp [hpa, hpa']; omega
    · have ih' := ih hsub ⟨a, haL, hpa, hpa'⟩
      cases hp' : p' x <;> cases hp : p x
      · simp [hp, hp']; exact ih'
      · simp [hp, hp']; omega
      · rw [hx hp'] at hp; cases hp
      · simp [hp, hp']; exact ih'

/-- number of squares of the board that are not in `l` -/
def miss (l : List Nat) : Nat := ((List.range 64).filter fun s => !l.contains s).length

theorem miss_le_64 (l : List Nat) : miss l ≤ 64 := by
  unfold miss
  exact Nat.le_trans (List.length_filter_le _ _) (by simp)

theorem miss_le_of_subset {l l' : List Nat} (h : ∀ x, x ∈ l → x ∈ l') : miss l' ≤ miss l := by
  unfold miss
  apply filter_len_le
  intro x _ hx
  simp only [Bool.not_eq_true', List.contains_eq_mem, decide_eq_false_iff_not] at hx ⊢
  exact fun c => hx (h x c)

theorem miss_lt_of_subset {l l' : List Nat} (h : ∀ x, x ∈ l → x ∈ l') {a : Nat} (ha : a < 64) (hal' : a ∈ l')
    (hal : a ∉ l) : miss l' < miss l := by
  unfold miss
  apply filter_len_lt
  · intro x _ hx
    simp only [Bool.not_eq_true', List.contains_eq_mem, decide_eq_false_iff_not] at hx ⊢
    exact fun c => hx (h x c)
  · refine ⟨a, List.mem_range.mpr ha, ?_, ?_⟩
    · simp [hal]
    · simp [hal']

/-- the measure: squares not rook-visible plus squares not bishop-visible from `t` -/
def mu (o : Nat → Bool) (t : Nat) : Nat :=
  miss (Spec.officerTargets o .rook t) + miss (Spec.officerTargets o .bishop t)

theorem mu_le (o : Nat → Bool) (t : Nat) : mu o t ≤ 128 := by
  unfold mu
  have := miss_le_64 (Spec.officerTargets o .rook t)
  have := miss_le_64 (Spec.officerTargets o .bishop t)
  omega

/-- the empty board -/
def noOcc : Nat → Bool := fun _ => false

/-- on the empty board a rook sees at most 14 squares and a bishop at most 13 -/
theorem miss_empty : ∀ t, t < 64 →
    50 ≤ miss (Spec.officerTargets noOcc .rook t) ∧
    51 ≤ miss (Spec.officerTargets noOcc .bishop t) := by decide +kernel

theorem mu_ge (o : Nat → Bool) {t : Nat} (ht : t < 64) : 101 ≤ mu o t := by
  unfold mu
  have he := miss_empty t ht
  have h1 := miss_le_of_subset (fun x hx => targets_mono (o := o) (o' := noOcc) (by simp [noOcc]) (Or.inl rfl) t x hx)
  have h2 := miss_le_of_subset (fun x hx => targets_mono (o := o) (o' := noOcc) (by simp [noOcc]) (Or.inr rfl) t x hx)
  omega

/-- rook lines and diagonals of a square are disjoint (on the empty board, hence on every board) -/
theorem lines_disjoint_empty : ∀ t, t < 64 → ∀ s, s < 64 →
    ¬ (s ∈ Spec.officerTargets noOcc .rook t ∧ s ∈ Spec.officerTargets noOcc .bishop t) := by
  decide +kernel

theorem lines_disjoint (o : Nat → Bool) {t s : Nat} (ht : t < 64)
    (h1 : s ∈ Spec.officerTargets o .rook t) (h2 : s ∈ Spec.officerTargets o .bishop t) : False := by
  have hs : s < 64 := officerTargets_lt _ _ _ _ h1
  exact lines_disjoint_empty t ht s hs
    ⟨targets_mono (o' := noOcc) (by simp [noOcc]) (Or.inl rfl) t s h1,
     targets_mono (o' := noOcc) (by simp [noOcc]) (Or.inr rfl) t s h2⟩

/-! ## the invariant of the recursion -/

/-- queens, rooks and bishops of `side` -/
def qrb (p : Position) (side : Color) : Nat :=
  p.pieces side .queen ||| p.pieces side .rook ||| p.pieces side .bishop

def Vis (occ t s : Nat) : Prop :=
  s ∈ Spec.officerTargets (fun x => occ.testBit x) .rook t ∨ s ∈ Spec.officerTargets (fun x => occ.testBit x) .bishop t

structure StackInv (p : Position) (side : Color) (t occ : Nat) (r : Rotated) («from» : Nat) : Prop where
  inv : RotInv occ r
  from_lt : «from» < 64
  from_in : occ.testBit «from» = true
  sub : ∀ s, occ.testBit s = true → p.rotated.rot.testBit s = true
  /-- every square lifted so far is visible from the target, or holds no queen, rook or bishop of `side` -/
  vis : ∀ s, p.rotated.rot.testBit s = true → occ.testBit s = false → Vis occ t s ∨ (qrb p side).testBit s = false
  fromvis : Vis occ t «from» ∨ (qrb p side).testBit «from» = false

theorem xor_bits {occ f : Nat} (hf : f < 64) (hin : occ.testBit f = true) (s : Nat) :
    (occ ^^^ bitMask f).testBit s = (occ.testBit s && decide (s ≠ f)) := by
  rw [testBit_xor_bitMask _ hf]
  by_cases e : s = f
  · subst e; simp [hin]
  · simp [e]

theorem vis_mono {occ f t s : Nat} (hf : f < 64) (hin : occ.testBit f = true) (h : Vis occ t s) :
    Vis (occ ^^^ bitMask f) t s := by
  have hm : ∀ x, (occ ^^^ bitMask f).testBit x = true → occ.testBit x = true := by
    intro x hx; rw [xor_bits hf hin] at hx; simp at hx; exact hx.1
  rcases h with h | h
  · exact Or.inl (targets_mono hm (Or.inl rfl) t s h)
  · exact Or.inr (targets_mono hm (Or.inr rfl) t s h)

/-- One level of the recursion: the new attacker `f'` became visible on a line of kind `k` when `f` was lifted. -/
theorem StackInv.step {p : Position} {side : Color} {t occ : Nat} {r : Rotated} {f : Nat}
    (h : StackInv p side t occ r f) (ht : t < 64) {k : Spec.Kind} (hk : IsLine k) {f' : Nat} (hf' : f' < 64)
    (hnew : f' ∈ Spec.officerTargets (fun x => (occ ^^^ bitMask f).testBit x) k t)
    (hold : f' ∉ Spec.officerTargets (fun x => occ.testBit x) k t)
    (hq : (qrb p side).testBit f' = true) (hocc : p.rotated.rot.testBit f' = true) :
    StackInv p side t (occ ^^^ bitMask f) (r.xor f) f' ∧
      mu (fun x => (occ ^^^ bitMask f).testBit x) t < mu (fun x => occ.testBit x) t := by
  have hm : ∀ x, (occ ^^^ bitMask f).testBit x = true → occ.testBit x = true := by
    intro x hx; rw [xor_bits h.from_lt h.from_in] at hx; simp at hx; exact hx.1
  -- a square that is visible already, or no queen/rook/bishop, cannot be the new attacker
  have contra : ∀ s, s = f' → (Vis occ t s ∨ (qrb p side).testBit s = false) → False := by
    intro s hs hv
    subst hs
    rcases hv with (hv | hv) | hv
    · rcases hk with rfl | rfl
      · exact hold hv
      · exact lines_disjoint _ ht (targets_mono hm (Or.inl rfl) t s hv) hnew
    · rcases hk with rfl | rfl
      · exact lines_disjoint _ ht hnew (targets_mono hm (Or.inr rfl) t s hv)
      · exact hold hv
    · rw [hq] at hv; cases hv
  have hin' : (occ ^^^ bitMask f).testBit f' = true := by
    rw [xor_bits h.from_lt h.from_in]
    by_cases e : f' = f
    · exact absurd (e ▸ h.fromvis) (fun c => contra f' rfl c)
    · by_cases ho : occ.testBit f' = true
      · simp [ho, e]
      · exact absurd (h.vis f' hocc (by simpa using ho)) (fun c => contra f' rfl c)
  refine ⟨⟨xor_inv h.from_lt h.inv, hf', hin', fun s hs => h.sub s (hm s hs), ?_, ?_⟩, ?_⟩
  · intro s hs ho
    rw [xor_bits h.from_lt h.from_in] at ho
    by_cases e : s = f
    · subst e
      rcases h.fromvis with hv | hv
      · exact Or.inl (vis_mono h.from_lt h.from_in hv)
      · exact Or.inr hv
    · have ho' : occ.testBit s = false := by simpa [e] using ho
      rcases h.vis s hs ho' with hv | hv
      · exact Or.inl (vis_mono h.from_lt h.from_in hv)
      · exact Or.inr hv
  · rcases hk with rfl | rfl
    · exact Or.inl (Or.inl hnew)
    · exact Or.inl (Or.inr hnew)
  · unfold mu
    have hR := miss_le_of_subset (fun x hx => targets_mono (o := fun x => occ.testBit x)
      (o' := fun x => (occ ^^^ bitMask f).testBit x) hm (Or.inl rfl) t x hx)
    have hB := miss_le_of_subset (fun x hx => targets_mono (o := fun x => occ.testBit x)
      (o' := fun x => (occ ^^^ bitMask f).testBit x) hm (Or.inr rfl) t x hx)
    rcases hk with rfl | rfl
    · have := miss_lt_of_subset (fun x hx => targets_mono (o := fun x => occ.testBit x)
        (o' := fun x => (occ ^^^ bitMask f).testBit x) hm (Or.inl rfl) t x hx) hf' hnew hold
      omega
    · have := miss_lt_of_subset (fun x hx => targets_mono (o := fun x => occ.testBit x)
        (o' := fun x => (occ ^^^ bitMask f).testBit x) hm (Or.inr rfl) t x hx) hf' hnew hold
      omega

end Morlock.Proofs.Sargon
