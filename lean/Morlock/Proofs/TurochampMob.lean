import Morlock.Proofs.TurochampTotal
import Morlock.Proofs.TurochampConsiderable
/-!
# TUROCHAMP: the mobility map of a well-formed position has at most 64 keys and no count above 128

Keys are origin squares of legal moves of officers and the king; a count is at most twice the number of such moves from
the key's square, and these have distinct destinations.
-/
namespace Morlock.Proofs.Turochamp
open Morlock Morlock.Model Morlock.Model.Turochamp Morlock.Proofs.Gen

/-- the moves that count for mobility -/
def mobMove (m : Move) : Bool := m.piece != .pawn && !m.isCastle

/-- one round of loop (1) on the mobility map -/
def mobStep (mob : List (Nat × Nat)) (m : Move) : List (Nat × Nat) :=
  if m.piece != .pawn && !m.isCastle then
    let mob := mobBump mob m.from
    if m.ty = .capture then mobBump mob m.from else mob
  else mob

theorem mobility_eq (pos : Position) (turn : Color) : mobility pos turn = (pos.legalMoves turn).foldl mobStep [] := rfl

/-! ## `mobBump` -/

theorem mobBump_keys (mob : List (Nat × Nat)) (s : Nat) :
    (mobBump mob s).map (·.1) = if s ∈ mob.map (·.1) then mob.map (·.1) else mob.map (·.1) ++ [s] := by
  unfold mobBump
  have hany : (mob.any fun e => e.1 == s) = true ↔ s ∈ mob.map (·.1) := by
    simp only [List.any_eq_true, beq_iff_eq, List.mem_map]
  by_cases h : s ∈ mob.map (·.1)
  · rw [if_pos (hany.mpr h), if_pos h, List.map_map]
    apply List.map_congr_left
    intro e _
    show (if (e.1 == s) = true then (e.1, e.2 + 1) else e).1 = e.1
    split <;> rfl
  · have : ¬ ((mob.any fun e => e.1 == s) = true) := fun c => h (hany.mp c)
    rw [if_neg this, if_neg h, List.map_append]
    rfl

theorem mobBump_nodup {mob : List (Nat × Nat)} {s : Nat} (h : (mob.map (·.1)).Nodup) :
    ((mobBump mob s).map (·.1)).Nodup := by
  rw [mobBump_keys]
  split
  · exact h
  · rename_i hs
    rw [List.nodup_append]
    refine ⟨h, by simp, ?_⟩
    intro a ha b hb e
    simp only [List.mem_singleton] at hb
    subst hb; subst e
    exact hs ha

theorem mobBump_key_mem {mob : List (Nat × Nat)} {s k : Nat} (h : k ∈ (mobBump mob s).map (·.1)) :
    k ∈ mob.map (·.1) ∨ k = s := by
  rw [mobBump_keys] at h
  split at h
  · exact Or.inl h
  · rcases List.mem_append.mp h with h | h
    · exact Or.inl h
    · exact Or.inr (by simpa using h)

/-- a bound on every count is kept when the bound of the bumped key grows by one -/
theorem mobBump_bound {mob : List (Nat × Nat)} {s : Nat} {bnd : Nat → Nat} (h : ∀ e ∈ mob, e.2 ≤ bnd e.1) :
    ∀ e ∈ mobBump mob s, e.2 ≤ bnd e.1 + (if e.1 = s then 1 else 0) := by
  intro e he
  unfold mobBump at he
  split at he
  · obtain ⟨e0, he0, rfl⟩ := List.mem_map.mp he
    have h0 := h e0 he0
    by_cases hk : e0.1 = s
    · have hb : (e0.1 == s) = true := by simp [hk]
      rw [if_pos hb]
      show e0.2 + 1 ≤ bnd e0.1 + if e0.1 = s then 1 else 0
      rw [if_pos hk]; omega
    · have hb : ¬ ((e0.1 == s) = true) := by simp [hk]
      rw [if_neg hb, if_neg hk]; omega
  · rcases List.mem_append.mp he with he | he
    · have := h e he; omega
    · simp only [List.mem_singleton] at he
      subst he
      simp

/-! ## the fold -/

/-- twice the number of mobility moves from `k` -/
def mobWeight (ms : List Move) (k : Nat) : Nat := 2 * (ms.filter fun m => mobMove m && m.from == k).length

theorem mobWeight_snoc (done : List Move) (m : Move) (k : Nat) :
    mobWeight (done ++ [m]) k = mobWeight done k + (if mobMove m && m.from == k then 2 else 0) := by
  unfold mobWeight
  rw [List.filter_append, List.length_append, Nat.mul_add]
  congr 1
  simp only [List.filter_cons, List.filter_nil]
  split <;> simp

theorem mobStep_nodup {mob : List (Nat × Nat)} (m : Move) (h : (mob.map (·.1)).Nodup) :
    ((mobStep mob m).map (·.1)).Nodup := by
  unfold mobStep
  split
  · simp only []
    split
    · exact mobBump_nodup (mobBump_nodup h)
    · exact mobBump_nodup h
  · exact h

theorem mobStep_key_mem {mob : List (Nat × Nat)} {m : Move} {k : Nat} (h : k ∈ (mobStep mob m).map (·.1)) :
    k ∈ mob.map (·.1) ∨ (mobMove m = true ∧ k = m.from) := by
  unfold mobStep at h
  split at h
  · rename_i hP
    simp only [] at h
    split at h
    · rcases mobBump_key_mem h with h | h
      · rcases mobBump_key_mem h with h | h
        · exact Or.inl h
        · exact Or.inr ⟨hP, h⟩
      · exact Or.inr ⟨hP, h⟩
    · rcases mobBump_key_mem h with h | h
      · exact Or.inl h
      · exact Or.inr ⟨hP, h⟩
  · exact Or.inl h

theorem mobStep_bound {mob : List (Nat × Nat)} {done : List Move} (m : Move)
    (h : ∀ e ∈ mob, e.2 ≤ mobWeight done e.1) : ∀ e ∈ mobStep mob m, e.2 ≤ mobWeight (done ++ [m]) e.1 := by
  intro e he
  rw [mobWeight_snoc]
  unfold mobStep at he
  split at he
  · rename_i hP
    have hP' : mobMove m = true := hP
    simp only [] at he
    have h1 := mobBump_bound (s := m.from) h
    have key : ∀ (x : Nat), e.2 ≤ mobWeight done e.1 + x → x ≤ (if e.1 = m.from then 2 else 0) →
        e.2 ≤ mobWeight done e.1 + (if (mobMove m && m.from == e.1) = true then 2 else 0) := by
      intro x hx hx2
      by_cases hk : e.1 = m.from
      · have hb : (mobMove m && m.from == e.1) = true := by simp [hP', hk]
        rw [if_pos hb]; rw [if_pos hk] at hx2; omega
      · rw [if_neg hk] at hx2
        omega
    split at he
    · have h2 := mobBump_bound (s := m.from) (bnd := fun k => mobWeight done k + (if k = m.from then 1 else 0)) h1 e he
      apply key ((if e.1 = m.from then 1 else 0) + (if e.1 = m.from then 1 else 0)) (by omega)
      by_cases hk : e.1 = m.from <;> simp [hk]
    · have h2 := h1 e he
      apply key (if e.1 = m.from then 1 else 0) h2
      by_cases hk : e.1 = m.from <;> simp [hk]
  · have := h e he
    omega

theorem mobFold_inv : ∀ (ms done : List Move) (mob : List (Nat × Nat)),
    (mob.map (·.1)).Nodup → (∀ k ∈ mob.map (·.1), ∃ m ∈ done, mobMove m = true ∧ k = m.from) →
    (∀ e ∈ mob, e.2 ≤ mobWeight done e.1) →
    ((ms.foldl mobStep mob).map (·.1)).Nodup ∧
    (∀ k ∈ (ms.foldl mobStep mob).map (·.1), ∃ m ∈ done ++ ms, mobMove m = true ∧ k = m.from) ∧
    (∀ e ∈ ms.foldl mobStep mob, e.2 ≤ mobWeight (done ++ ms) e.1)
  | [], done, mob, h1, h2, h3 => by
    simp only [List.foldl_nil, List.append_nil]
    exact ⟨h1, h2, h3⟩
  | m :: rest, done, mob, h1, h2, h3 => by
    have e : done ++ m :: rest = (done ++ [m]) ++ rest := by simp
    rw [List.foldl_cons, e]
    apply mobFold_inv rest (done ++ [m]) (mobStep mob m) (mobStep_nodup m h1)
    · intro k hk
      rcases mobStep_key_mem hk with hk | ⟨hP, hk⟩
      · obtain ⟨x, hx, hp⟩ := h2 k hk
        exact ⟨x, List.mem_append_left _ hx, hp⟩
      · exact ⟨m, by simp, hP, hk⟩
    · exact mobStep_bound m h3

/-! ## on a well-formed position -/

/-- a mobility move among the generated moves is a step of an officer or of the king -/
theorem mobMove_step {p : Position} {turn t : Color} (hw : WF p t) {m : Move}
    (hm : m ∈ p.pseudoLegalMoves turn) (hP : mobMove m = true) : ∃ pc, StepMove p.square turn pc m := by
  unfold mobMove at hP
  simp only [Bool.and_eq_true, bne_iff_ne, ne_eq, Bool.not_eq_true'] at hP
  rcases (mem_pseudoLegalMoves hw.rep hw.wfb m).mp hm with ⟨pc, _, hs⟩ | hp | hs | ⟨_, hc⟩
  · exact ⟨pc, hs⟩
  · exact absurd hp.2.1 hP.1
  · exact ⟨.king, hs⟩
  · obtain ⟨cs, hcs, _, _, _, hty, _⟩ := hc
    exfalso
    have : m.isCastle = true := by
      cases turn <;> simp [castleParams] at hcs <;> rcases hcs with rfl | rfl <;> simp [Move.isCastle, hty]
    rw [this] at hP
    exact absurd hP.2 (by decide)

/-- two steps with the same origin and destination are the same move -/
theorem stepMove_ext {b : Board} {turn : Color} {pc pc' : Piece} {m m' : Move}
    (h : StepMove b turn pc m) (h' : StepMove b turn pc' m') (hf : m.from = m'.from) (ht : m.to = m'.to) : m = m' := by
  obtain ⟨hb, hp, hpr, _, hc⟩ := h
  obtain ⟨hb', hp', hpr', _, hc'⟩ := h'
  rw [hf, hb'] at hb
  have hpc : pc' = pc := by injection hb with hb; injection hb
  subst hpc
  rw [ht] at hc
  have hmeta : m.ty = m'.ty ∧ m.capture = m'.capture := by
    rcases hc with ⟨h1, h2, h3⟩ | ⟨k, h1, h2, h3⟩ <;> rcases hc' with ⟨h1', h2', h3'⟩ | ⟨k', h1', h2', h3'⟩
    · exact ⟨h2.trans h2'.symm, h3.trans h3'.symm⟩
    · rw [h1] at h1'; cases h1'
    · rw [h1] at h1'; cases h1'
    · rw [h1] at h1'
      have : k = k' := by injection h1' with h1'; injection h1'
      exact ⟨h2.trans h2'.symm, by rw [h3, h3', this]⟩
  cases m; cases m'
  simp only [Move.mk.injEq]
  simp only [] at hf ht hp hp' hpr hpr' hmeta
  exact ⟨hmeta.1, hf, ht, hp.trans hp'.symm, hpr.trans hpr'.symm, hmeta.2⟩

/-- **The mobility map of a well-formed position is small.** -/
theorem mobOK_of_wf {p : Position} {turn t : Color} (hw : WF p t) : MobOK (mobility p turn) := by
  have h := hw.rep
  obtain ⟨hnd, hkeys, hcnt⟩ := mobFold_inv (p.legalMoves turn) [] [] (by simp) (by simp) (by simp)
  simp only [List.nil_append] at hkeys hcnt
  rw [← mobility_eq] at hnd hkeys hcnt
  have hlegal : ∀ m ∈ p.legalMoves turn, m ∈ p.pseudoLegalMoves turn := fun m hm => by
    unfold Position.legalMoves at hm
    exact (List.mem_filter.mp hm).1
  constructor
  · -- keys are distinct squares
    have hsub : (mobility p turn).map (·.1) ⊆ List.range 64 := by
      intro k hk
      obtain ⟨m, hm, hP, rfl⟩ := hkeys k hk
      obtain ⟨pc, hs⟩ := mobMove_step hw (hlegal m hm) hP
      exact List.mem_range.mpr (h.lt_of_some hs.1)
    have := hnd.length_le_of_subset hsub
    simpa using this
  · intro e he
    have h1 := hcnt e he
    unfold mobWeight at h1
    -- the mobility moves from e.1 have distinct destinations below 64
    have hl : ((p.legalMoves turn).filter fun m => mobMove m && m.from == e.1).length ≤ 64 := by
      have hnd' : ((p.legalMoves turn).filter fun m => mobMove m && m.from == e.1).Nodup := by
        apply List.Nodup.sublist (List.filter_sublist)
        unfold Position.legalMoves
        exact List.Nodup.sublist (List.filter_sublist) (pseudoLegalMoves_nodup h turn)
      have hmem : ∀ m ∈ (p.legalMoves turn).filter (fun m => mobMove m && m.from == e.1),
          m.from = e.1 ∧ ∃ pc, StepMove p.square turn pc m := by
        intro m hm
        obtain ⟨hm1, hm2⟩ := List.mem_filter.mp hm
        simp only [Bool.and_eq_true, beq_iff_eq] at hm2
        exact ⟨hm2.2, mobMove_step hw (hlegal m hm1) hm2.1⟩
      have hmap : (((p.legalMoves turn).filter fun m => mobMove m && m.from == e.1).map (·.to)).Nodup := by
        apply nodup_map_of_inj hnd'
        intro a ha a' ha' hto
        obtain ⟨hf, pc, hs⟩ := hmem a ha
        obtain ⟨hf', pc', hs'⟩ := hmem a' ha'
        exact stepMove_ext hs hs' (hf.trans hf'.symm) hto
      have hsub : ((p.legalMoves turn).filter fun m => mobMove m && m.from == e.1).map (·.to) ⊆ List.range 64 := by
        intro t ht
        obtain ⟨m, hm, rfl⟩ := List.mem_map.mp ht
        obtain ⟨_, pc, hs⟩ := hmem m hm
        exact List.mem_range.mpr (Attack.officerTargets_lt _ _ _ _ hs.2.2.2.1)
      have := hmap.length_le_of_subset hsub
      simpa using this
    omega

end Morlock.Proofs.Turochamp
