import Morlock.Proofs.DrawLine
/-!
# C05, arena level: the ancestor line of a board and the invariants of the draw logic

* `line w b` - the nodes of board `b`, current first, following `prev`; `lineK` the same with links erased;
* `occurrences w b` - how often the current position (with the current side to move) occurs on the whole
  line, current and start included;
* `RepMapOK` - the repetition map counts, for every hash, the nodes of the line with that hash;
* `HashFaithful` - every node of the line carries the from-scratch hash of its position and side;
* `Irreversible` - no node more than `noprogress` plies back has the current position and side;
* `ClockOK` - clocks along the line are chained by `updateNoProgress`;
* how `pushMove` / `popMove` / `fork` / `newBoard` / `adjudicateNoLegalMoves` act on all of these.
-/
namespace Morlock.Proofs.Draw
open Morlock Morlock.Model Morlock.Model.World Morlock.Proofs.Arena

/-! ## the line of a board -/

/-- The ancestor line of board `b`: its current node first, then following `prev` to the start node. -/
def line (w : World) (b : Nat) : List Node := w.cur b :: anc w (w.cur b).prev

/-- The line with the links (`next`, `prev`) erased: position, hash and clock of every node. -/
def lineK (w : World) (b : Nat) : List Node := (line w b).map key

/-- The positions of the line, current first. -/
def linePositions (w : World) (b : Nat) : List Position := (line w b).map (·.pos)

/-- The sides to move along the line, current first: the board's `turn`, then alternating. -/
def lineSides (w : World) (b : Nat) : List Color := (sided (w.board b).turn (line w b)).map Prod.snd

/-- The line of a view. -/
def vlineK (v : View) : List Node :=
  { pos := v.pos, hash := v.hash, noprogress := v.noprogress } :: v.past.map key

theorem lineK_view (w : World) (b : Nat) : lineK w b = vlineK (view w b) := by
  simp only [lineK, line, vlineK, view, List.map_cons, List.map_map]
  rfl

theorem lineK_head (w : World) (b : Nat) : lineK w b = key (w.cur b) :: (anc w (w.cur b).prev).map key := rfl

/-- How often the current position, with the current side to move, occurs on the whole line of board `b`
(the current node and the start node included). -/
def occurrences (w : World) (b : Nat) : Nat :=
  occOf (w.cur b).pos (w.board b).turn (w.board b).turn (lineK w b)

theorem occurrences_line (w : World) (b : Nat) :
    occurrences w b = occOf (w.cur b).pos (w.board b).turn (w.board b).turn (line w b) :=
  occOf_map_key _ _ _ _

theorem occurrences_pos (w : World) (b : Nat) : 1 ≤ occurrences w b := by
  unfold occurrences
  rw [lineK_head, occOf_cons]
  simp

/-- The repetition map is exact: for every hash it holds the number of nodes of the line with that hash. -/
def RepMapOK (w : World) (b : Nat) : Prop :=
  ∀ h, repGet (w.board b).repetitions h = (hashCount h (lineK w b) : Nat)

/-- Every node of the line carries the from-scratch Zobrist hash of its position and its side to move
(what C07 `move_eq_hash` gives for accurate moves by the side to move). -/
def HashFaithful (z : ZTable) (w : World) (b : Nat) : Prop :=
  ∀ e ∈ sided (w.board b).turn (lineK w b), e.1.hash = z.hash e.1.pos e.2

/-- No node more than `noprogress` plies back (i.e. before the last clock reset - or, with a set-up clock,
before the start of the clock) has the current position with the current side to move. -/
def Irreversible (w : World) (b : Nat) : Prop :=
  ∀ e ∈ (sided (w.board b).turn (lineK w b)).drop ((w.cur b).noprogress.toNat + 1),
    samePos (w.cur b).pos (w.board b).turn e = false

/-- The clocks along the line are chained by `updateNoProgress` and the moves stored in `next`. -/
def ClockOK (w : World) (b : Nat) : Prop := ClockChain (w.cur b).noprogress (anc w (w.cur b).prev)

instance (z : ZTable) (w : World) (b : Nat) : Decidable (HashFaithful z w b) := by
  unfold HashFaithful; infer_instance
instance (w : World) (b : Nat) : Decidable (Irreversible w b) := by
  unfold Irreversible; infer_instance

/-! view-level versions -/

def RepMapOKV (v : View) : Prop := ∀ h, v.reps h = (hashCount h (vlineK v) : Nat)
def HashFaithfulV (z : ZTable) (v : View) : Prop := ∀ e ∈ sided v.turn (vlineK v), e.1.hash = z.hash e.1.pos e.2
def ClockOKV (v : View) : Prop := ClockChain v.noprogress v.past

theorem repMapOK_view (w : World) (b : Nat) : RepMapOK w b ↔ RepMapOKV (view w b) := by
  unfold RepMapOK RepMapOKV
  rw [lineK_view]
  rfl

theorem hashFaithful_view (z : ZTable) (w : World) (b : Nat) : HashFaithful z w b ↔ HashFaithfulV z (view w b) := by
  unfold HashFaithful HashFaithfulV
  rw [lineK_view]
  rfl

theorem clockOK_view (w : World) (b : Nat) : ClockOK w b ↔ ClockOKV (view w b) := by
  unfold ClockOK ClockOKV
  exact (clockChain_erase _ _).symm

/-! ## `identicalPositionCount` of the current node -/

/-- `identicalPositionCount` of the current node, as the list loop over the strict ancestors. -/
theorem ipc_cur {w : World} (hw : WFWorld w) (b : Nat) (turn t0 : Color) (limit : Int) :
    w.identicalPositionCount (w.cur b) turn t0 limit =
      ipcList (w.cur b).hash (w.cur b).pos turn limit ((lineK w b).tail) 1 t0 1 := by
  rw [ipc_eq hw _ _ _ _ (bound_cur_prev_le_size hw b), lineK_head, List.tail_cons, ipcList_map_key]

/-- `identicalPositionCount` never over-counts (no hypothesis needed). -/
theorem ipc_le_occurrences {w : World} (hw : WFWorld w) (b : Nat) (limit : Int) :
    w.identicalPositionCount (w.cur b) (w.board b).turn (w.board b).turn.opp limit ≤ (occurrences w b : Nat) := by
  rw [ipc_cur hw]
  refine Int.le_trans (ipcList_le _ _ _ _ _ _) ?_
  unfold occurrences
  rw [lineK_head, occOf_cons, List.tail_cons]
  simp
  omega

/-- **The loop counts the whole line.** -/
theorem ipc_eq_occurrences {z : ZTable} {w : World} (hw : WFWorld w) (b : Nat)
    (hf : HashFaithful z w b) (hirr : Irreversible w b) :
    w.identicalPositionCount (w.cur b) (w.board b).turn (w.board b).turn.opp (w.cur b).noprogress =
      (occurrences w b : Nat) := by
  rw [ipc_cur hw]
  have hcur : (w.cur b).hash = z.hash (w.cur b).pos (w.board b).turn := by
    have := hf (key (w.cur b), (w.board b).turn) (by rw [lineK_head, sided_cons]; exact List.mem_cons_self)
    exact this
  have hexact := ipcList_exact (hash := (w.cur b).hash) (pos := (w.cur b).pos) (turn := (w.board b).turn)
    (t0 := (w.board b).turn.opp) (limit := (w.cur b).noprogress) (l := (lineK w b).tail) ?_ ?_
  · rw [hexact]
    unfold occurrences
    rw [lineK_head, occOf_cons, List.tail_cons]
    simp
    omega
  · intro e he hs
    rw [lineK_head, List.tail_cons] at he
    have hmem : e ∈ sided (w.board b).turn (lineK w b) := by
      rw [lineK_head, sided_cons]; exact List.mem_cons_of_mem _ he
    rw [hf e hmem, hcur]
    rw [samePos_iff] at hs
    rw [hs.1, hs.2]
  · intro e he
    apply hirr e
    rw [lineK_head, sided_cons, List.drop_succ_cons]
    rw [lineK_head, List.tail_cons] at he
    exact he

/-- **The pre-filter never hides a repetition**: the hash counter of the current hash is at least the
whole-line occurrence count. -/
theorem occurrences_le_rep {z : ZTable} {w : World} (b : Nat) (hr : RepMapOK w b) (hf : HashFaithful z w b) :
    (occurrences w b : Int) ≤ repGet (w.board b).repetitions (w.cur b).hash := by
  rw [hr]
  have hcur : (w.cur b).hash = z.hash (w.cur b).pos (w.board b).turn :=
    hf (key (w.cur b), (w.board b).turn) (by rw [lineK_head, sided_cons]; exact List.mem_cons_self)
  have : occurrences w b ≤ hashCount (w.cur b).hash (lineK w b) := by
    apply occOf_le_hashCount
    intro e he hs
    rw [hf e he, hcur]
    rw [samePos_iff] at hs
    rw [hs.1, hs.2]
  omega

/-! ## `pushMove` on the board that moves -/

theorem viewPush_some {z : ZTable} {v v' : View} {m : Move} (h : viewPush z v m = some v') :
    ∃ next, v.pos.move m = some next ∧
      v' = { pos := next, hash := z.move v.hash v.pos m, noprogress := updateNoProgress v.noprogress m,
             past := { pos := v.pos, hash := v.hash, noprogress := v.noprogress, next := m, prev := none } :: v.past,
             turn := v.turn.opp, ply := v.ply + 1,
             moves := if v.turn.opp = .white then v.moves + 1 else v.moves,
             castledW := if m.isCastle && v.turn = .white then true else v.castledW,
             castledB := if m.isCastle && v.turn = .black then true else v.castledB,
             reps := fun h => if h = z.move v.hash v.pos m then v.reps (z.move v.hash v.pos m) + 1 else v.reps h,
             result := pushResult (v.reps (z.move v.hash v.pos m) + 1)
               (ipcList (z.move v.hash v.pos m) next v.turn.opp (updateNoProgress v.noprogress m)
                 ({ pos := v.pos, hash := v.hash, noprogress := v.noprogress, next := m, prev := none } :: v.past)
                 1 v.turn.opp.opp 1)
               (updateNoProgress v.noprogress m) next m } := by
  unfold viewPush at h
  split at h
  · cases h
  · split at h
    · cases h
    · rename_i next hn
      exact ⟨next, hn, by cases h; rfl⟩

/-- After a move the line is the old line with the new node in front. -/
theorem vlineK_push {z : ZTable} {v v' : View} {m : Move} (h : viewPush z v m = some v') :
    vlineK v' = { pos := v'.pos, hash := v'.hash, noprogress := v'.noprogress } :: vlineK v ∧
    v'.turn = v.turn.opp ∧ v'.hash = z.move v.hash v.pos m ∧ v.pos.move m = some v'.pos ∧
    v'.noprogress = updateNoProgress v.noprogress m ∧
    (∀ h, v'.reps h = if h = v'.hash then v.reps v'.hash + 1 else v.reps h) ∧
    v'.past = { pos := v.pos, hash := v.hash, noprogress := v.noprogress, next := m, prev := none } :: v.past := by
  obtain ⟨next, hn, rfl⟩ := viewPush_some h
  exact ⟨rfl, rfl, rfl, hn, rfl, fun _ => rfl, rfl⟩

/-- The result written by a move, in terms of the new view itself. -/
theorem vresult_push {z : ZTable} {v v' : View} {m : Move} (h : viewPush z v m = some v') :
    v'.result = pushResult (v'.reps v'.hash) (ipcList v'.hash v'.pos v'.turn v'.noprogress v'.past 1 v'.turn.opp 1)
      v'.noprogress v'.pos m := by
  obtain ⟨next, hn, rfl⟩ := viewPush_some h
  simp only [if_true]

theorem repMapOKV_push {z : ZTable} {v v' : View} {m : Move} (h : viewPush z v m = some v')
    (hr : RepMapOKV v) : RepMapOKV v' := by
  obtain ⟨hl, _, _, _, _, hreps, _⟩ := vlineK_push h
  intro x
  rw [hreps, hl, hashCount_cons, hr, hr]
  by_cases hx : x = v'.hash
  · subst hx; simp
  · have : ¬ v'.hash = x := fun c => hx c.symm
    simp [hx, this]

theorem clockOKV_push {z : ZTable} {v v' : View} {m : Move} (h : viewPush z v m = some v')
    (hc : ClockOKV v) : ClockOKV v' := by
  obtain ⟨_, _, _, _, hnp, _, hpast⟩ := vlineK_push h
  unfold ClockOKV
  rw [hpast, hnp]
  exact ⟨rfl, hc⟩

/-! ## `popMove` on the board that is taken back -/

theorem viewPop_some {v v' : View} {m : Move} (h : viewPop v = some (v', m)) :
    ∃ p r, v.past = p :: r ∧ m = p.next ∧
      v' = { pos := p.pos, hash := p.hash, noprogress := p.noprogress, past := r, turn := v.turn.opp,
             ply := v.ply - 1, moves := if v.turn.opp = .black then v.moves - 1 else v.moves,
             castledW := if p.next.isCastle && v.turn.opp = .white then false else v.castledW,
             castledB := if p.next.isCastle && v.turn.opp = .black then false else v.castledB,
             reps := fun h => if h = v.hash then v.reps v.hash - 1 else v.reps h,
             result := { outcome := .undecided } } := by
  unfold viewPop at h
  split at h
  · cases h
  · rename_i p r hp
    simp only [Option.some.injEq, Prod.mk.injEq] at h
    exact ⟨p, r, hp, h.2.symm, h.1.symm⟩

/-- After a take-back the line is the old line without its head. -/
theorem vlineK_pop {v v' : View} {m : Move} (h : viewPop v = some (v', m)) :
    vlineK v = { pos := v.pos, hash := v.hash, noprogress := v.noprogress } :: vlineK v' ∧
    v'.turn = v.turn.opp ∧
    (∀ h, v'.reps h = if h = v.hash then v.reps v.hash - 1 else v.reps h) ∧
    (∃ p, v.past = p :: v'.past ∧ v'.noprogress = p.noprogress ∧ m = p.next) := by
  obtain ⟨p, r, hp, hm, rfl⟩ := viewPop_some h
  refine ⟨?_, rfl, fun _ => rfl, p, hp, rfl, hm⟩
  simp only [vlineK, hp, List.map_cons]
  rfl

theorem repMapOKV_pop {v v' : View} {m : Move} (h : viewPop v = some (v', m))
    (hr : RepMapOKV v) : RepMapOKV v' := by
  obtain ⟨hl, _, hreps, _⟩ := vlineK_pop h
  intro x
  rw [hreps]
  have h1 := hr x
  have h2 := hr v.hash
  rw [hl, hashCount_cons] at h1 h2
  simp only at h1 h2
  by_cases hx : x = v.hash
  · subst hx
    simp only [if_true] at h2 ⊢
    omega
  · have : ¬ v.hash = x := fun c => hx c.symm
    simp only [hx, this, if_false] at h1 ⊢
    omega

theorem hashFaithfulV_pop {z : ZTable} {v v' : View} {m : Move} (h : viewPop v = some (v', m))
    (hf : HashFaithfulV z v) : HashFaithfulV z v' := by
  obtain ⟨hl, ht, _, _⟩ := vlineK_pop h
  intro e he
  apply hf e
  rw [hl, sided_cons, ← ht]
  exact List.mem_cons_of_mem _ he

theorem clockOKV_pop {v v' : View} {m : Move} (h : viewPop v = some (v', m))
    (hc : ClockOKV v) : ClockOKV v' := by
  obtain ⟨_, _, _, p, hp, hnp, _⟩ := vlineK_pop h
  unfold ClockOKV at hc ⊢
  rw [hp] at hc
  rw [hnp]
  exact hc.2

end Morlock.Proofs.Draw
