import Morlock.Proofs.AttackLoops
/-!
# Geometric side conditions of the four diagonal loops, checked on all 64 squares

Split from `AttackGeo` so that `lake build` checks the kernel evaluations in parallel.
-/
namespace Morlock.Proofs.Attack
open Morlock Morlock.Model Morlock.Spec

theorem geo_UL : allBelow 64 (fun sq => geoOK (specUL sq) sq t45L Gen.off45L[sq]! Gen.mask45L[sq]!) = true := by
  decide +kernel
theorem geo_DR : allBelow 64 (fun sq => geoOK (specDR sq) sq t45L Gen.off45L[sq]! Gen.mask45L[sq]!) = true := by
  decide +kernel
theorem geo_UR : allBelow 64 (fun sq => geoOK (specUR sq) sq t45R Gen.off45R[sq]! Gen.mask45R[sq]!) = true := by
  decide +kernel
theorem geo_DL : allBelow 64 (fun sq => geoOK (specDL sq) sq t45R Gen.off45R[sq]! Gen.mask45R[sq]!) = true := by
  decide +kernel

end Morlock.Proofs.Attack
